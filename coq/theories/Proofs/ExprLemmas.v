(** * Proofs/ExprLemmas.v — inversion lemmas for [wt] and basic typing facts. *)
From Coq Require Import Lia.
From Patronus Require Import Expr.
Open Scope N_scope.

Lemma expect_bv_of_some t w t' : expect_bv_of t w = Some t' -> t = TBV w /\ t' = TBV w.
Proof.
  unfold expect_bv_of. destruct t as [w'|]; [|discriminate].
  destruct (N.eqb_spec w' w); [|discriminate]. intros H; inversion H; subst; auto.
Qed.

Lemma expect_same_width_bvs_some a b t :
  expect_same_width_bvs a b = Some t -> exists w, type_of a = TBV w /\ type_of b = TBV w /\ t = TBV w.
Proof.
  unfold expect_same_width_bvs. destruct (type_of a) as [wa|]; [|discriminate].
  destruct (type_of b) as [wb|]; [|discriminate].
  destruct (N.eqb_spec wa wb); [|discriminate]. intros H; inversion H; subst. eauto.
Qed.

Lemma expect_same_width_bvs_of_some w a b t :
  expect_same_width_bvs_of w a b = Some t -> type_of a = TBV w /\ type_of b = TBV w /\ t = TBV w.
Proof.
  unfold expect_same_width_bvs_of. destruct (expect_same_width_bvs a b) eqn:E; [|discriminate].
  apply expect_same_width_bvs_some in E. destruct E as (w' & Ha & Hb & ->).
  intros H. apply expect_bv_of_some in H. destruct H as [H1 H2]. inversion H1; subst. auto.
Qed.

Lemma expect_same_size_arrays_some a b t :
  expect_same_size_arrays a b = Some t ->
  exists iw dw, type_of a = TArr iw dw /\ type_of b = TArr iw dw /\ t = TArr iw dw.
Proof.
  unfold expect_same_size_arrays. destruct (type_of a) as [|i d]; [discriminate|].
  destruct (type_of b) as [|i' d']; [discriminate|].
  destruct (N.eqb_spec i i'); destruct (N.eqb_spec d d'); simpl; try discriminate.
  intros H; inversion H; subst. eauto.
Qed.

Lemma is_some_true {A} (o : option A) : is_some o = true -> exists x, o = Some x.
Proof. destruct o; [eauto|discriminate]. Qed.

Lemma bind_ty_some o k t : bind_ty o k = Some t -> (exists x, o = Some x) /\ t = k.
Proof. destruct o; simpl; [|discriminate]. intros H; inversion H; eauto. Qed.

Ltac wt_start H :=
  cbn [wt] in H; unfold node_ok in H;
  repeat (rewrite andb_true_iff in H);
  repeat match type of H with _ /\ _ => let H1 := fresh "Hwt" in destruct H as [H H1] end.

(** One inversion lemma per constructor shape. *)
Section Inversions.
  Variables (a b c : expr) (w : N).

  Lemma wt_node_ok e : wt e = true -> node_ok e = true.
  Proof. destruct e; cbn [wt]; rewrite ?andb_true_iff; tauto. Qed.

  Definition inv_same (e : expr) : Prop :=
    wt e = true -> wt a = true /\ wt b = true /\ type_of a = TBV w /\ type_of b = TBV w.

  Ltac solve_same :=
    unfold inv_same; intros H; cbn [wt] in H; unfold node_ok in H; cbn [check1 leaf_ok] in H;
    repeat rewrite andb_true_iff in H; destruct H as [[H0 _] [Ha Hb]];
    apply is_some_true in H0; destruct H0 as [t0 H0];
    apply expect_same_width_bvs_of_some in H0; tauto.

  Lemma wt_and : inv_same (BVAnd a b w). Proof. solve_same. Qed.
  Lemma wt_or : inv_same (BVOr a b w). Proof. solve_same. Qed.
  Lemma wt_xor : inv_same (BVXor a b w). Proof. solve_same. Qed.
  Lemma wt_shl : inv_same (BVShiftLeft a b w). Proof. solve_same. Qed.
  Lemma wt_ashr : inv_same (BVArithmeticShiftRight a b w). Proof. solve_same. Qed.
  Lemma wt_lshr : inv_same (BVShiftRight a b w). Proof. solve_same. Qed.
  Lemma wt_add : inv_same (BVAdd a b w). Proof. solve_same. Qed.
  Lemma wt_mul : inv_same (BVMul a b w). Proof. solve_same. Qed.
  Lemma wt_sdiv : inv_same (BVSignedDiv a b w). Proof. solve_same. Qed.
  Lemma wt_udiv : inv_same (BVUnsignedDiv a b w). Proof. solve_same. Qed.
  Lemma wt_smod : inv_same (BVSignedMod a b w). Proof. solve_same. Qed.
  Lemma wt_srem : inv_same (BVSignedRem a b w). Proof. solve_same. Qed.
  Lemma wt_urem : inv_same (BVUnsignedRem a b w). Proof. solve_same. Qed.
  Lemma wt_sub : inv_same (BVSub a b w). Proof. solve_same. Qed.

  Definition inv_cmp (e : expr) : Prop :=
    wt e = true -> wt a = true /\ wt b = true /\ exists w', type_of a = TBV w' /\ type_of b = TBV w'.

  Ltac solve_cmp :=
    unfold inv_cmp; intros H; cbn [wt] in H; unfold node_ok in H; cbn [check1 leaf_ok] in H;
    repeat rewrite andb_true_iff in H; destruct H as [[H0 _] [Ha Hb]];
    apply is_some_true in H0; destruct H0 as [t0 H0];
    apply bind_ty_some in H0; destruct H0 as [[x H0] _];
    apply expect_same_width_bvs_some in H0; destruct H0 as (w' & ? & ? & ?); eauto.

  Lemma wt_eq : inv_cmp (BVEqual a b). Proof. solve_cmp. Qed.
  Lemma wt_ugt : inv_cmp (BVGreater a b). Proof. solve_cmp. Qed.
  Lemma wt_uge : inv_cmp (BVGreaterEqual a b). Proof. solve_cmp. Qed.

  Definition inv_scmp (e : expr) : Prop :=
    wt e = true -> wt a = true /\ wt b = true /\ type_of a = TBV w /\ type_of b = TBV w.

  Ltac solve_scmp :=
    unfold inv_scmp; intros H; cbn [wt] in H; unfold node_ok in H; cbn [check1 leaf_ok] in H;
    repeat rewrite andb_true_iff in H; destruct H as [[H0 Hl] [Ha Hb]];
    apply is_some_true in H0; destruct H0 as [t0 H0];
    apply bind_ty_some in H0; destruct H0 as [[x H0] _];
    apply expect_same_width_bvs_some in H0; destruct H0 as (w' & Hta & Htb & ?);
    rewrite Htb in Hl; cbn [ty_eqb] in Hl; apply N.eqb_eq in Hl; subst; auto.

  Lemma wt_sgt : inv_scmp (BVGreaterSigned a b w). Proof. solve_scmp. Qed.
  Lemma wt_sge : inv_scmp (BVGreaterEqualSigned a b w). Proof. solve_scmp. Qed.

  Lemma wt_implies : wt (BVImplies a b) = true ->
    wt a = true /\ wt b = true /\ type_of a = TBV 1 /\ type_of b = TBV 1.
  Proof.
    intros H; cbn [wt] in H; unfold node_ok in H; cbn [check1 leaf_ok] in H.
    repeat rewrite andb_true_iff in H; destruct H as [[H0 _] [Ha Hb]].
    destruct (expect_bv_of (type_of a) 1) eqn:E1; [|discriminate].
    destruct (expect_bv_of (type_of b) 1) eqn:E2; [|discriminate].
    apply expect_bv_of_some in E1, E2. tauto.
  Qed.

  Lemma wt_concat : wt (BVConcat a b w) = true ->
    wt a = true /\ wt b = true /\ exists wa wb, type_of a = TBV wa /\ type_of b = TBV wb /\ w = wa + wb.
  Proof.
    intros H; cbn [wt] in H; unfold node_ok in H; cbn [check1 leaf_ok] in H.
    repeat rewrite andb_true_iff in H; destruct H as [[H0 _] [Ha Hb]].
    destruct (type_of a) as [wa|]; [|discriminate]. destruct (type_of b) as [wb|]; [|discriminate].
    apply is_some_true in H0; destruct H0 as [t0 H0]. apply expect_bv_of_some in H0.
    destruct H0 as [H0 _]. inversion H0. eauto 10.
  Qed.

  Lemma wt_ite : wt (BVIte a b c) = true ->
    wt a = true /\ wt b = true /\ wt c = true /\ type_of a = TBV 1 /\
    exists w', type_of b = TBV w' /\ type_of c = TBV w'.
  Proof.
    intros H; cbn [wt] in H; unfold node_ok in H; cbn [check1 leaf_ok] in H.
    repeat rewrite andb_true_iff in H; destruct H as [[H0 _] [[Ha Hb] Hc]].
    destruct (expect_bv_of (type_of a) 1) eqn:E1; [|discriminate].
    apply expect_bv_of_some in E1. apply is_some_true in H0; destruct H0 as [t0 H0].
    apply expect_same_width_bvs_some in H0. destruct H0 as (w' & ? & ? & ?). intuition eauto.
  Qed.

  Lemma wt_aite : wt (ArrayIte a b c) = true ->
    wt a = true /\ wt b = true /\ wt c = true /\ type_of a = TBV 1 /\
    exists iw dw, type_of b = TArr iw dw /\ type_of c = TArr iw dw.
  Proof.
    intros H; cbn [wt] in H; unfold node_ok in H; cbn [check1 leaf_ok] in H.
    repeat rewrite andb_true_iff in H; destruct H as [[H0 _] [[Ha Hb] Hc]].
    destruct (expect_bv_of (type_of a) 1) eqn:E1; [|discriminate].
    apply expect_bv_of_some in E1. apply is_some_true in H0; destruct H0 as [t0 H0].
    apply expect_same_size_arrays_some in H0. destruct H0 as (iw & dw & ? & ? & ?). intuition eauto.
  Qed.

  Lemma wt_aeq : wt (ArrayEqual a b) = true ->
    wt a = true /\ wt b = true /\ exists iw dw, type_of a = TArr iw dw /\ type_of b = TArr iw dw.
  Proof.
    intros H; cbn [wt] in H; unfold node_ok in H; cbn [check1 leaf_ok] in H.
    repeat rewrite andb_true_iff in H; destruct H as [[H0 _] [Ha Hb]].
    apply is_some_true in H0; destruct H0 as [t0 H0].
    apply bind_ty_some in H0; destruct H0 as [[x H0] _].
    apply expect_same_size_arrays_some in H0. destruct H0 as (iw & dw & ? & ? & ?). eauto 10.
  Qed.

  Lemma wt_store : wt (ArrayStore a b c) = true ->
    wt a = true /\ wt b = true /\ wt c = true /\
    exists iw dw, type_of a = TArr iw dw /\ type_of b = TBV iw /\ type_of c = TBV dw.
  Proof.
    intros H; cbn [wt] in H; unfold node_ok in H; cbn [check1 leaf_ok] in H.
    repeat rewrite andb_true_iff in H; destruct H as [[H0 _] [[Ha Hb] Hc]].
    destruct (type_of a) as [|iw dw]; [discriminate|].
    destruct (expect_bv_of (type_of b) iw) eqn:E1; [|discriminate].
    destruct (expect_bv_of (type_of c) dw) eqn:E2; [|discriminate].
    apply expect_bv_of_some in E1, E2. intuition eauto.
  Qed.

  Lemma wt_read : wt (BVArrayRead a b w) = true ->
    wt a = true /\ wt b = true /\ exists iw, type_of a = TArr iw w /\ type_of b = TBV iw.
  Proof.
    intros H; cbn [wt] in H; unfold node_ok in H; cbn [check1 leaf_ok] in H.
    repeat rewrite andb_true_iff in H; destruct H as [[H0 _] [Ha Hb]].
    destruct (type_of a) as [|iw dw]; [discriminate|].
    destruct (type_of b) as [wi|]; [|discriminate].
    destruct (N.eqb_spec iw wi); [|discriminate]. destruct (N.eqb_spec dw w); [|discriminate].
    subst. eauto.
  Qed.

  Variables (by_ hi lo iw dw : N).

  Lemma wt_zext : wt (BVZeroExt a by_ w) = true ->
    wt a = true /\ type_of a = TBV (w - by_) /\ by_ < w.
  Proof.
    intros H; cbn [wt] in H; unfold node_ok in H; cbn [check1 leaf_ok] in H.
    repeat rewrite andb_true_iff in H; destruct H as [[H0 Hl] Ha].
    apply is_some_true in H0; destruct H0 as [t0 H0]. apply bind_ty_some in H0.
    destruct H0 as [[x H0] _]. apply expect_bv_of_some in H0. apply N.ltb_lt in Hl. tauto.
  Qed.

  Lemma wt_sext : wt (BVSignExt a by_ w) = true ->
    wt a = true /\ type_of a = TBV (w - by_) /\ by_ < w.
  Proof.
    intros H; cbn [wt] in H; unfold node_ok in H; cbn [check1 leaf_ok] in H.
    repeat rewrite andb_true_iff in H; destruct H as [[H0 Hl] Ha].
    apply is_some_true in H0; destruct H0 as [t0 H0]. apply bind_ty_some in H0.
    destruct H0 as [[x H0] _]. apply expect_bv_of_some in H0. apply N.ltb_lt in Hl. tauto.
  Qed.

  Lemma wt_slice : wt (BVSlice a hi lo) = true ->
    wt a = true /\ exists we, type_of a = TBV we /\ hi < we /\ lo <= hi.
  Proof.
    intros H; cbn [wt] in H; unfold node_ok in H; cbn [check1 leaf_ok] in H.
    repeat rewrite andb_true_iff in H; destruct H as [[H0 _] Ha].
    destruct (type_of a) as [we|]; [|discriminate].
    destruct (N.leb_spec we hi); [discriminate|]. destruct (N.ltb_spec hi lo); [discriminate|].
    eauto.
  Qed.

  Lemma wt_not : wt (BVNot a w) = true -> wt a = true /\ type_of a = TBV w.
  Proof.
    intros H; cbn [wt] in H; unfold node_ok in H; cbn [check1 leaf_ok] in H.
    repeat rewrite andb_true_iff in H; destruct H as [[H0 _] Ha].
    apply is_some_true in H0; destruct H0 as [t0 H0]. apply expect_bv_of_some in H0. tauto.
  Qed.

  Lemma wt_neg : wt (BVNegate a w) = true -> wt a = true /\ type_of a = TBV w.
  Proof.
    intros H; cbn [wt] in H; unfold node_ok in H; cbn [check1 leaf_ok] in H.
    repeat rewrite andb_true_iff in H; destruct H as [[H0 _] Ha].
    apply is_some_true in H0; destruct H0 as [t0 H0]. apply expect_bv_of_some in H0. tauto.
  Qed.

  Lemma wt_aconst : wt (ArrayConstant a iw dw) = true -> wt a = true /\ type_of a = TBV dw /\ 0 < iw.
  Proof.
    intros H; cbn [wt] in H; unfold node_ok in H; cbn [check1 leaf_ok] in H.
    repeat rewrite andb_true_iff in H; destruct H as [[H0 Hl] Ha].
    apply is_some_true in H0; destruct H0 as [t0 H0]. apply bind_ty_some in H0.
    destruct H0 as [[x H0] _]. apply expect_bv_of_some in H0. apply N.ltb_lt in Hl. tauto.
  Qed.

  Lemma wt_lit v : wt (BVLiteral w v) = true -> 0 < w /\ v < 2 ^ w.
  Proof.
    cbn [wt]; unfold node_ok; cbn [check1 leaf_ok is_some].
    rewrite !andb_true_iff, N.ltb_lt, N.ltb_lt. tauto.
  Qed.

  Lemma wt_sym n : wt (BVSymbol n w) = true -> 0 < w.
  Proof.
    cbn [wt]; unfold node_ok; cbn [check1 leaf_ok is_some].
    rewrite !andb_true_iff, N.ltb_lt. tauto.
  Qed.
End Inversions.

(** Array-typed well-typed expressions are exactly those with an array constructor on top. *)
Lemma wt_array_type e : wt e = true ->
  is_array_type e = match type_of e with TArr _ _ => true | TBV _ => false end.
Proof.
  induction e; intros H; cbn [is_array_type type_of]; try reflexivity.
  - apply wt_ite in H. destruct H as (_ & _ & Hc & _ & w' & _ & Ht). now rewrite Ht.
  - apply wt_store in H. destruct H as (_ & _ & _ & iw & dw & Ht & _). now rewrite Ht.
  - apply wt_aite in H. destruct H as (_ & _ & _ & _ & iw & dw & _ & Ht). now rewrite Ht.
Qed.
