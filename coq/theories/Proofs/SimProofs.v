(** * Proofs/SimProofs.v — the simulator model refines the transition-system
    semantics: for well-formed systems and histories [Sim.run] never crashes
    and every observation is the one [SimSpec.spec_run] prescribes.
    Induction over the history with the invariant "the store denotes the
    current valuation, every snapshot denotes the corresponding saved one". *)
From Coq Require Import Lia.
From Patronus Require Import Sim SimBasics SimStoreProofs.
Open Scope N_scope.

Lemma ty_eqb_eq a b : ty_eqb a b = true -> a = b.
Proof.
  destruct a, b; cbn [ty_eqb]; try discriminate; intros H.
  - apply N.eqb_eq in H. now subst.
  - apply andb_true_iff in H. destruct H as [H1 H2]. apply N.eqb_eq in H1, H2. now subst.
Qed.

(** ** what [sim_ok] gives *)
Record state_good (d : list expr) (s : state) : Prop := {
  sg_sym : is_symbol (st_sym s) = true;
  sg_in : In (st_sym s) d;
  sg_init : forall e, st_init s = Some e -> wt e = true /\ type_of e = type_of (st_sym s) /\ evaluable d e = true;
  sg_next : forall e, st_next s = Some e -> wt e = true /\ type_of e = type_of (st_sym s) /\ evaluable d e = true
}.

Lemma sim_ok_parts sy : sim_ok sy = true ->
  NoDup (decls sy) /\
  (forall s, In s (decls sy) -> is_symbol s = true) /\
  (forall s, In s (s_states sy) -> state_good (decls sy) s).
Proof.
  unfold sim_ok. intros H.
  apply andb_true_iff in H. destruct H as [H Hev].
  apply andb_true_iff in H. destruct H as [Hsys Hnd].
  unfold sys_ok in Hsys.
  apply andb_true_iff in Hsys. destruct Hsys as [Hsys _].
  apply andb_true_iff in Hsys. destruct Hsys as [Hsys _].
  apply andb_true_iff in Hsys. destruct Hsys as [Hsys _].
  apply andb_true_iff in Hsys. destruct Hsys as [Hin Hst].
  rewrite forallb_forall in Hev, Hin, Hst.
  assert (Hsym : forall s, In s (decls sy) -> is_symbol s = true).
  { intros s Hs. unfold decls in Hs. apply in_app_iff in Hs. destruct Hs as [Hs|Hs].
    - apply in_map_iff in Hs. destruct Hs as (st & <- & Hst'). specialize (Hst _ Hst').
      unfold state_ok in Hst.
      repeat match goal with
             | H : _ && _ = true |- _ => apply andb_true_iff in H; destruct H
             end. assumption.
    - specialize (Hin _ Hs). apply andb_true_iff in Hin. tauto. }
  split; [now apply nodupb_NoDup|]. split; [exact Hsym|].
  intros s Hs. specialize (Hst _ Hs). specialize (Hev _ Hs).
  unfold state_ok in Hst. unfold state_evaluable in Hev.
  repeat match goal with
         | H : _ && _ = true |- _ => apply andb_true_iff in H; destruct H
         end.
  assert (Hd : In (st_sym s) (decls sy)).
  { unfold decls. apply in_app_iff. left. now apply in_map. }
  constructor; try assumption.
  - intros e He. rewrite He in *.
    repeat match goal with
           | H : _ && _ = true |- _ => apply andb_true_iff in H; destruct H
           end.
    repeat split; try assumption. now apply ty_eqb_eq.
  - intros e He. rewrite He in *.
    repeat match goal with
           | H : _ && _ = true |- _ => apply andb_true_iff in H; destruct H
           end.
    repeat split; try assumption. now apply ty_eqb_eq.
Qed.

(** ** allocation *)
Fixpoint alloc_list (k : init_kind) (pos : nat) (syms : list expr) : store :=
  match syms with
  | [] => []
  | s :: r => (s, gen_value k pos (type_of s)) :: alloc_list k (S pos) r
  end.

Lemma alloc_done k : forall syms pos st, NoDup (map fst st ++ syms) ->
  alloc k pos syms st = Done (st ++ alloc_list k pos syms).
Proof.
  induction syms as [|s r IH]; intros pos st Hnd; cbn [alloc alloc_list].
  - now rewrite app_nil_r.
  - unfold define. assert (Hl : lookup s st = None).
    { apply lookup_None. apply NoDup_remove_2 in Hnd. intros Hin. apply Hnd. apply in_app_iff. now left. }
    rewrite Hl. cbn [bind]. rewrite IH.
    + now rewrite <- app_assoc.
    + rewrite map_app. cbn [map fst]. now rewrite <- app_assoc.
Qed.

Lemma map_fst_alloc_list k : forall syms pos, map fst (alloc_list k pos syms) = syms.
Proof. induction syms as [|s r IH]; intros pos; cbn [alloc_list map fst]; [reflexivity|now rewrite IH]. Qed.

Lemma val_ty_gen_value k pos t : val_ty (gen_value k pos t) = t.
Proof. now destruct t. Qed.

Lemma alloc_list_ok k : forall syms pos, (forall s, In s syms -> is_symbol s = true) ->
  Forall entry_ok (alloc_list k pos syms).
Proof.
  induction syms as [|s r IH]; intros pos Hsym; cbn [alloc_list]; constructor.
  - split; cbn [fst snd]; [apply Hsym; now left|apply val_ty_gen_value].
  - apply IH. intros s' Hs'. apply Hsym. now right.
Qed.

Lemma lookup_alloc_list k q : forall l pos,
  lookup q (alloc_list k pos l) =
  match index_of q l pos with Some p => Some (gen_value k p (type_of q)) | None => None end.
Proof.
  induction l as [|s r IH]; intros pos; cbn [alloc_list lookup index_of]; [reflexivity|].
  destruct (expr_eqb_spec s q) as [->|Hne]; [reflexivity|apply IH].
Qed.

Lemma env_of_alloc sy k : env_eq (env_of (alloc_list k 0 (decls sy))) (oracle_env sy k).
Proof.
  split; cbn [env_of oracle_env rho_bv rho_arr]; intros; rewrite lookup_alloc_list.
  - destruct (index_of (BVSymbol n w) (decls sy) 0); reflexivity.
  - destruct (index_of (ArraySymbol n iw dw) (decls sy) 0); reflexivity.
Qed.

(** ** the init expressions, sequentially *)
Definition init_fun (rho : env) (st : state) : env :=
  match st_init st with Some e => assign rho (st_sym st) rho e | None => rho end.

Lemma run_inits_ok d : forall sts st, store_ok d st ->
  (forall s, In s sts -> state_good d s) ->
  exists st', run_inits sts st = Done st' /\ store_ok d st' /\
              env_eq (env_of st') (fold_left init_fun sts (env_of st)).
Proof.
  induction sts as [|s r IH]; intros st Hok Hgood; cbn [run_inits fold_left].
  - exists st. split; [reflexivity|]. split; [assumption|apply env_eq_refl].
  - assert (Hs : state_good d s) by (apply Hgood; now left).
    assert (Hr : forall s', In s' r -> state_good d s') by (intros; apply Hgood; now right).
    unfold init_fun at 2. destruct (st_init s) as [e|] eqn:Hi.
    + destruct (sg_init d s Hs e Hi) as (Hwt & Hty & Hev).
      rewrite (eval_store_correct d st e Hok Hwt Hev). cbn [bind].
      destruct (update_ok d st (st_sym s) (tval (env_of st) e) Hok (sg_in d s Hs)) as [Hu Hok'].
      { now rewrite val_ty_tval. }
      rewrite Hu. cbn [bind].
      destruct (IH _ Hok' Hr) as (st' & Hrun & Hok'' & Henv).
      exists st'. split; [assumption|]. split; [assumption|].
      eapply env_eq_trans; [exact Henv|]. apply init_fold_ext.
      apply env_of_replace; [apply (sg_sym d s Hs)|assumption|].
      destruct Hok as [Hk _]. rewrite Hk. apply (sg_in d s Hs).
    + apply IH; assumption.
Qed.

(** ** a step: all next values over the old store, then the commits *)
Definition next_fun (src : env) (acc : env) (st : state) : env :=
  match st_next st with Some e => assign acc (st_sym st) src e | None => acc end.

Lemma next_values_ok d st : store_ok d st -> forall sts,
  (forall s, In s sts -> state_good d s) ->
  next_values sts st = Done (map (fun s => option_map (tval (env_of st)) (st_next s)) sts).
Proof.
  intros Hok. induction sts as [|s r IH]; intros Hgood; cbn [next_values map]; [reflexivity|].
  assert (Hs : state_good d s) by (apply Hgood; now left).
  assert (Hr : forall s', In s' r -> state_good d s') by (intros; apply Hgood; now right).
  rewrite (IH Hr). destruct (st_next s) as [e|] eqn:Hn; cbn [option_map bind]; [|reflexivity].
  destruct (sg_next d s Hs e Hn) as (Hwt & Hty & Hev).
  rewrite (eval_store_correct d st e Hok Hwt Hev). reflexivity.
Qed.

Lemma commit_ok d src : forall sts st, store_ok d st ->
  (forall s, In s sts -> state_good d s) ->
  exists st', commit sts (map (fun s => option_map (tval src) (st_next s)) sts) st = Done st' /\
              store_ok d st' /\
              env_eq (env_of st') (fold_left (next_fun src) sts (env_of st)).
Proof.
  induction sts as [|s r IH]; intros st Hok Hgood; cbn [commit map fold_left].
  - exists st. split; [reflexivity|]. split; [assumption|apply env_eq_refl].
  - assert (Hs : state_good d s) by (apply Hgood; now left).
    assert (Hr : forall s', In s' r -> state_good d s') by (intros; apply Hgood; now right).
    unfold next_fun at 2. destruct (st_next s) as [e|] eqn:Hn; cbn [option_map].
    + destruct (sg_next d s Hs e Hn) as (Hwt & Hty & Hev).
      destruct (update_ok d st (st_sym s) (tval src e) Hok (sg_in d s Hs)) as [Hu Hok'].
      { now rewrite val_ty_tval. }
      rewrite Hu. cbn [bind].
      destruct (IH _ Hok' Hr) as (st' & Hrun & Hok'' & Henv).
      exists st'. split; [assumption|]. split; [assumption|].
      eapply env_eq_trans; [exact Henv|].
      apply (next_fold_ext src src r (env_eq_refl src)).
      apply env_of_replace; [apply (sg_sym d s Hs)|assumption|].
      destruct Hok as [Hk _]. rewrite Hk. apply (sg_in d s Hs).
    + apply IH; assumption.
Qed.

(** ** observations *)
Definition obs_match (b : obs) (c : sobs) : Prop :=
  match b, c with
  | ONone, SNone => True
  | ONum n, SNum m => n = m
  | OVal (SBV w v), SVal (VBV w' v') => w = w' /\ v = v'
  | OVal (SArr iw dw f), SVal (VArr iw' dw' g) => iw = iw' /\ dw = dw' /\ forall i, f i = g i
  | _, _ => False
  end.

Lemma obs_match_tval r1 r2 e : env_eq r1 r2 -> obs_match (OVal (tval r1 e)) (SVal (eval r2 e)).
Proof.
  intros H. unfold tval, eval. destruct (type_of e); cbn [obs_match].
  - split; [reflexivity|now apply ebv_ext].
  - repeat split. intros i. now apply earr_ext.
Qed.

(** ** the invariant *)
Definition denotes (d : list expr) (st : store) (rho : env) : Prop :=
  store_ok d st /\ env_eq (env_of st) rho.

(** what holds between model and specification state at any time ... *)
Definition inv_weak (d : list expr) (s : sim) (ss : sstate) : Prop :=
  Forall2 (denotes d) (snaps s) (saved ss) /\ steps s = cnt ss.

(** ... and once initialised *)
Definition inv (d : list expr) (s : sim) (ss : sstate) : Prop :=
  denotes d (data s) (cur ss) /\ inv_weak d s ss.

Lemma Forall2_nth_error {A B} (R : A -> B -> Prop) l1 l2 : Forall2 R l1 l2 ->
  forall i, (i < length l1)%nat -> forall db, exists a, nth_error l1 i = Some a /\ R a (nth i l2 db).
Proof.
  induction 1 as [|a b l1 l2 Hab _ IH]; intros i Hi db; cbn [length] in Hi; [lia|].
  destruct i as [|i]; cbn [nth_error nth]; [eauto|]. apply IH. lia.
Qed.

Lemma Forall2_len {A B} (R : A -> B -> Prop) l1 l2 : Forall2 R l1 l2 -> length l1 = length l2.
Proof. induction 1; cbn [length]; congruence. Qed.

Lemma exec_init_refines sy s ss k : sim_ok sy = true -> inv_weak (decls sy) s ss ->
  exists s', exec sy s (OInit k) = Done (s', ONone) /\
             inv (decls sy) s' (fst (spec_exec sy ss (OInit k))).
Proof.
  intros Hok [Hsn Hst]. destruct (sim_ok_parts sy Hok) as (Hnd & Hsym & Hgood).
  cbn [exec spec_exec fst].
  rewrite (alloc_done k (decls sy) 0 []) by exact Hnd. cbn [bind app].
  assert (Hok0 : store_ok (decls sy) (alloc_list k 0 (decls sy))).
  { split; [apply map_fst_alloc_list|now apply alloc_list_ok]. }
  destruct (run_inits_ok (decls sy) (s_states sy) _ Hok0 Hgood) as (st' & Hrun & Hok' & Henv).
  rewrite Hrun. cbn [bind]. eexists. split; [reflexivity|].
  split; [|split; assumption]. cbn [data cur]. split; [assumption|].
  eapply env_eq_trans; [exact Henv|]. unfold init_seq.
  apply (init_fold_ext (s_states sy)). apply env_of_alloc.
Qed.

Lemma exec_refines sy s ss o : sim_ok sy = true -> inv (decls sy) s ss ->
  op_ok sy (length (snaps s)) o = true ->
  exists s' b, exec sy s o = Done (s', b) /\
               inv (decls sy) s' (fst (spec_exec sy ss o)) /\
               obs_match b (snd (spec_exec sy ss o)).
Proof.
  intros Hok [[Hst Henv] [Hsn Hcnt]] Hop.
  destruct (sim_ok_parts sy Hok) as (Hnd & Hsym & Hgood).
  destruct o as [k|sym w v| |e| | |i].
  - (* init *)
    destruct (exec_init_refines sy s ss k Hok (conj Hsn Hcnt)) as (s' & He & Hi).
    exists s', ONone. repeat split; try assumption; apply Hi.
  - (* set *)
    cbn [op_ok] in Hop. destruct sym; try discriminate Hop.
    apply andb_true_iff in Hop. destruct Hop as [Hw Hmem]. apply N.eqb_eq in Hw. subst w0.
    apply mem_In in Hmem. cbn [exec spec_exec fst snd].
    destruct (update_ok (decls sy) (data s) (BVSymbol name w) (SBV w v) Hst Hmem eq_refl) as [Hu Hok'].
    rewrite Hu. cbn [bind]. eexists. eexists. split; [reflexivity|].
    split; [|exact I]. split; [|split; assumption]. cbn [data cur]. split; [assumption|].
    eapply env_eq_trans; [apply env_of_replace_bv|now apply upd_bv_ext].
    destruct Hst as [Hk _]. now rewrite Hk.
  - (* step *)
    cbn [exec spec_exec fst snd].
    rewrite (next_values_ok (decls sy) (data s) Hst (s_states sy) Hgood). cbn [bind].
    destruct (commit_ok (decls sy) (env_of (data s)) (s_states sy) (data s) Hst Hgood) as (st' & Hc & Hok' & He).
    rewrite Hc. cbn [bind]. eexists. eexists. split; [reflexivity|].
    split; [|exact I]. split; [|split; cbn [snaps saved steps cnt]; [assumption|now rewrite Hcnt]].
    cbn [data cur]. split; [assumption|].
    eapply env_eq_trans; [exact He|]. unfold next_env. now apply next_fold_ext.
  - (* get *)
    cbn [op_ok] in Hop. apply andb_true_iff in Hop. destruct Hop as [Hwt Hev].
    cbn [exec spec_exec fst snd]. rewrite (eval_store_correct (decls sy) (data s) e Hst Hwt Hev).
    cbn [bind]. eexists. eexists. split; [reflexivity|].
    split; [split; [split|split]; assumption|]. now apply obs_match_tval.
  - (* count *)
    cbn [exec spec_exec fst snd]. eexists. eexists. split; [reflexivity|].
    split; [split; [split|split]; assumption|]. exact Hcnt.
  - (* snapshot *)
    cbn [exec spec_exec fst snd]. eexists. eexists. split; [reflexivity|].
    split.
    + split; [split; assumption|]. split; cbn [snaps saved steps cnt]; [|assumption].
      apply Forall2_app; [assumption|]. constructor; [split; assumption|constructor].
    + cbn [obs_match]. now rewrite (Forall2_len _ _ _ Hsn).
  - (* restore *)
    cbn [op_ok] in Hop. apply Nat.ltb_lt in Hop.
    destruct (Forall2_nth_error _ _ _ Hsn (N.to_nat i) Hop (cur ss)) as (st & Hn & Hd).
    cbn [exec spec_exec fst snd]. rewrite Hn. eexists. eexists. split; [reflexivity|].
    split; [|exact I]. split; [exact Hd|split; assumption].
Qed.

Lemma run_refines sy : sim_ok sy = true -> forall h s ss, inv (decls sy) s ss ->
  ops_ok sy (length (snaps s)) h = true ->
  exists s' outs, run sy s h = Done (s', outs) /\
                  inv (decls sy) s' (fst (spec_run sy ss h)) /\
                  Forall2 obs_match outs (snd (spec_run sy ss h)).
Proof.
  intros Hok. induction h as [|o r IH]; intros s ss Hinv Hops; cbn [run spec_run].
  - exists s, []. repeat split; try apply Hinv. constructor.
  - cbn [ops_ok] in Hops. apply andb_true_iff in Hops. destruct Hops as [Ho Hr].
    destruct (exec_refines sy s ss o Hok Hinv Ho) as (s1 & b & He & Hi1 & Hb).
    rewrite He. cbn [bind].
    destruct (spec_exec sy ss o) as [ss1 c] eqn:Hse. cbn [fst snd] in Hi1, Hb.
    assert (Hlen : length (snaps s1) = match o with OSnapshot => S (length (snaps s)) | _ => length (snaps s) end).
    { destruct o; cbn [exec] in He;
        repeat match type of He with
               | bind ?x _ = _ => destruct x; cbn [bind] in He; try discriminate He
               | match ?x with _ => _ end = _ => destruct x; try discriminate He
               end;
        inversion He; subst; cbn [snaps]; try reflexivity.
      rewrite app_length. cbn [length]. lia. }
    rewrite <- Hlen in Hr.
    destruct (IH s1 ss1 Hi1 Hr) as (s2 & outs & Hrun & Hi2 & Houts).
    rewrite Hrun. cbn [bind].
    destruct (spec_run sy ss1 r) as [ss2 cs] eqn:Hsr. cbn [fst snd] in *.
    exists s2, (b :: outs). repeat split; try apply Hi2. now constructor.
Qed.

(** ** the refinement theorem *)
Theorem sim_refines_semantics_lemma sy h :
  sim_ok sy = true -> hist_ok sy h = true ->
  exists s outs,
    run sy sim0 h = Done (s, outs) /\
    Forall2 obs_match outs (snd (spec_run sy sstate0 h)) /\
    env_eq (env_of (data s)) (cur (fst (spec_run sy sstate0 h))) /\
    steps s = cnt (fst (spec_run sy sstate0 h)).
Proof.
  intros Hok Hh. destruct h as [|[k| | | | | |] r]; try discriminate Hh. cbn [hist_ok] in Hh.
  assert (Hw : inv_weak (decls sy) sim0 sstate0) by (split; [constructor|reflexivity]).
  destruct (exec_init_refines sy sim0 sstate0 k Hok Hw) as (s1 & He & Hi1).
  assert (Hsn : snaps s1 = []).
  { cbn [exec] in He.
    repeat match type of He with
           | bind ?x _ = _ => destruct x; cbn [bind] in He; try discriminate He
           end.
    inversion He. reflexivity. }
  cbn [run spec_run]. rewrite He. cbn [bind].
  destruct (spec_exec sy sstate0 (OInit k)) as [ss1 c] eqn:Hse. cbn [fst] in Hi1.
  assert (Hc : c = SNone) by (cbn [spec_exec] in Hse; now inversion Hse). subst c.
  assert (Hr : ops_ok sy (length (snaps s1)) r = true) by (now rewrite Hsn).
  destruct (run_refines sy Hok r s1 ss1 Hi1 Hr) as (s2 & outs & Hrun & Hi2 & Houts).
  rewrite Hrun. cbn [bind].
  destruct (spec_run sy ss1 r) as [ss2 cs] eqn:Hsr. cbn [fst snd] in *.
  exists s2, (ONone :: outs). split; [reflexivity|].
  split; [constructor; [exact I|assumption]|].
  destruct Hi2 as [[_ Henv] [_ Hcnt]]. split; assumption.
Qed.
