(** * Proofs/EncodingNames.v — [names_ok] implies that step symbols have distinct names. *)
From Coq Require Import List Bool Lia String Ascii DecimalString DecimalN.
From Patronus Require Import EvalImpl Encoding SysExec ReachBmc ExprLemmas McBasics ScriptProofs EncodingBasics
     EncodingFaithful EncodingWf.
Import ListNotations.
Open Scope N_scope.

Lemma dec_inj k k' : dec k = dec k' -> k = k'.
Proof.
  unfold dec. intros H.
  assert (H' : NilEmpty.uint_of_string (NilEmpty.string_of_uint (N.to_uint k)) =
               NilEmpty.uint_of_string (NilEmpty.string_of_uint (N.to_uint k'))) by (now rewrite H).
  rewrite !NilEmpty.usu in H'. inversion H' as [H0].
  rewrite <- (Unsigned.of_to k), <- (Unsigned.of_to k'). now rewrite H0.
Qed.

Lemma at_split : forall b b' d d',
  no_at b = true -> no_at b' = true ->
  (b ++ "@" ++ d)%string = (b' ++ "@" ++ d')%string -> b = b' /\ d = d'.
Proof.
  induction b as [|c b IH]; intros b' d d' Hb Hb' H.
  - destruct b' as [|c' b']; cbn in H.
    + inversion H. auto.
    + inversion H; subst. cbn in Hb'. try rewrite Ascii.eqb_refl in Hb'. discriminate.
  - destruct b' as [|c' b']; cbn in H.
    + inversion H; subst. cbn in Hb. try rewrite Ascii.eqb_refl in Hb. discriminate.
    + inversion H; subst. cbn [no_at] in Hb, Hb'. apply andb_true_iff in Hb, Hb'.
      destruct (IH b' d d') as [-> ->]; try tauto.
Qed.

Lemma name_at_inj b k b' k' : no_at b = true -> no_at b' = true -> name_at b k = name_at b' k' -> b = b' /\ k = k'.
Proof.
  intros Hb Hb' H. unfold name_at in H. apply at_split in H; try assumption.
  destruct H as [-> Hd]. split; [reflexivity|now apply dec_inj].
Qed.

Lemma no_at_app_at r : forall b, no_at (b ++ String "@" r) = false.
Proof.
  induction b as [|c b IH]; [reflexivity|].
  cbn [append no_at]. rewrite IH. apply andb_false_r.
Qed.

Lemma no_at_name_at b k : no_at (name_at b k) = false.
Proof. unfold name_at. apply (no_at_app_at (dec k)). Qed.

Lemma nodup_strings_NoDup l : nodup_strings l = true -> NoDup l.
Proof.
  induction l as [|x r IH]; cbn [nodup_strings]; intros H; [constructor|].
  apply andb_true_iff in H. destruct H as [Hx Hr]. constructor; [|now apply IH].
  apply negb_true_iff in Hx. intros Hin. assert (existsb (String.eqb x) r = true); [|congruence].
  apply existsb_exists. exists x. split; [assumption|apply String.eqb_refl].
Qed.

Lemma NoDup_map_inj {A B} (f : A -> B) l x y : NoDup (map f l) -> In x l -> In y l -> f x = f y -> x = y.
Proof.
  induction l as [|a r IH]; intros Hnd Hx Hy Hf; [destruct Hx|].
  cbn [map] in Hnd. inversion Hnd as [|? ? Hna Hr]; subst.
  destruct Hx as [->|Hx], Hy as [->|Hy]; auto.
  - exfalso. apply Hna. rewrite Hf. now apply in_map.
  - exfalso. apply Hna. rewrite <- Hf. now apply in_map.
Qed.

Lemma NoDup_app_l {A} (l1 l2 : list A) : NoDup (l1 ++ l2) -> NoDup l1.
Proof.
  induction l1 as [|a r IH]; intros H; [constructor|]. cbn [app] in H. inversion H as [|? ? Hna Hr]; subst.
  constructor; [|now apply IH]. intros Hin. apply Hna. apply in_or_app. now left.
Qed.

Lemma NoDup_app_r {A} (l1 l2 : list A) : NoDup (l1 ++ l2) -> NoDup l2.
Proof. induction l1 as [|a r IH]; intros H; [assumption|]. cbn [app] in H. inversion H; subst. now apply IH. Qed.

Section Names.
  Variable en : enc.
  Hypothesis Hb : enc_basic en.
  Hypothesis Hnames : names_ok en = true.

  Lemma names_parts : NoDup (base_names en) /\ forall b, In b (base_names en) -> no_at b = true.
  Proof.
    unfold names_ok in Hnames. apply andb_true_iff in Hnames. destruct Hnames as [H1 H2].
    split; [now apply nodup_strings_NoDup|]. now rewrite forallb_forall in H2.
  Qed.

  (** a step symbol: its base name, and whether the step is part of the name *)
  Lemma sig_sym_name e k s : sig_sym en e k = Some s ->
    exists b, In b (base_names en) /\
      ((sym_name s = b /\ exists st, find_state en e = Some st /\ st_is_const st = true /\ sym_name (st_sym st) = b) \/
       (sym_name s = name_at b k /\
        ((exists st, find_state en e = Some st /\ st_is_const st = false /\ sym_name (st_sym st) = b) \/
         (find_state en e = None /\ exists sg, find_sig en e = Some sg /\ sg_name sg = b)))).
  Proof.
    unfold sig_sym, base_names. destruct (find_state en e) as [st|] eqn:Es.
    - intros H. inversion H; subst. apply find_state_in in Es. destruct Es as [Hst He].
      exists (sym_name (st_sym st)). split; [apply in_or_app; right; now apply (in_map (fun st => sym_name (st_sym st)))|].
      rewrite sym_name_mk_sym. unfold state_name_at. destruct (st_is_const st) eqn:Ec.
      + left. split; [reflexivity|]. exists st. auto.
      + right. split; [reflexivity|]. left. exists st. auto.
    - destruct (find_sig en e) as [sg|] eqn:Eg; [|discriminate]. intros H. inversion H; subst.
      apply find_sig_in in Eg. destruct Eg as [Hsg He]. exists (sg_name sg).
      split; [apply in_or_app; left; now apply in_map|]. rewrite sym_name_mk_sym.
      right. split; [reflexivity|]. right. split; [reflexivity|]. exists sg. split; [|reflexivity].
      reflexivity.
  Qed.

  (** the base name determines the signal *)
  Lemma base_name_unique e e' b :
    ((exists st, find_state en e = Some st /\ sym_name (st_sym st) = b) \/
     (find_state en e = None /\ exists sg, find_sig en e = Some sg /\ sg_name sg = b)) ->
    ((exists st, find_state en e' = Some st /\ sym_name (st_sym st) = b) \/
     (find_state en e' = None /\ exists sg, find_sig en e' = Some sg /\ sg_name sg = b)) ->
    e = e'.
  Proof.
    destruct names_parts as [Hnd _]. unfold base_names in Hnd.
    pose proof (NoDup_app_r _ _ Hnd) as Hnd_st. pose proof (NoDup_app_l _ _ Hnd) as Hnd_sg.
    assert (Hdisj : forall sg st, In sg (e_sigs en) -> In st (s_states (e_sys en)) -> sg_name sg = sym_name (st_sym st) -> False).
    { intros sg st Hsg Hst Heq. clear -Hnd Hsg Hst Heq.
      induction (e_sigs en) as [|a r IH]; [destruct Hsg|]. cbn [map app] in Hnd. inversion Hnd as [|? ? Hna Hr]; subst.
      destruct Hsg as [->|Hsg]; [|now apply IH].
      apply Hna. apply in_or_app. right. rewrite Heq. now apply (in_map (fun st => sym_name (st_sym st))). }
    intros [(st & Hs & Hn)|(Hns & sg & Hg & Hn)] [(st' & Hs' & Hn')|(Hns' & sg' & Hg' & Hn')].
    - apply find_state_in in Hs, Hs'. destruct Hs as [Hin <-]. destruct Hs' as [Hin' <-].
      f_equal. apply (NoDup_map_inj (fun st => sym_name (st_sym st)) (s_states (e_sys en))); congruence.
    - exfalso. apply find_state_in in Hs. apply find_sig_in in Hg'. destruct Hs as [Hin _]. destruct Hg' as [Hin' _].
      apply (Hdisj sg' st Hin' Hin). congruence.
    - exfalso. apply find_state_in in Hs'. apply find_sig_in in Hg. destruct Hs' as [Hin _]. destruct Hg as [Hin' _].
      apply (Hdisj sg st' Hin' Hin). congruence.
    - apply find_sig_in in Hg, Hg'. destruct Hg as [Hin <-]. destruct Hg' as [Hin' <-].
      f_equal. apply (NoDup_map_inj sg_name (e_sigs en)); congruence.
  Qed.

  Theorem names_ok_inj : name_inj en.
  Proof.
    intros e k e' k' s s' Hs Hs' Hname.
    destruct names_parts as [_ Hnoat].
    destruct (sig_sym_name e k s Hs) as (b & Hb1 & Hcase).
    destruct (sig_sym_name e' k' s' Hs') as (b' & Hb1' & Hcase').
    destruct Hcase as [(Hn & st & Hst & Hc & Hbn)|(Hn & Hwho)]; destruct Hcase' as [(Hn' & st' & Hst' & Hc' & Hbn')|(Hn' & Hwho')].
    - (* both constant states *)
      assert (b = b') by congruence. subst b'.
      assert (e = e') by (apply (base_name_unique e e' b); [left; exists st; split; [assumption|congruence]|left; exists st'; split; [assumption|congruence]]). subst e'.
      split; [reflexivity|]. right. exists st. auto.
    - exfalso. assert (Hx : no_at (name_at b' k') = true) by (rewrite <- Hn', <- Hname, Hn; now apply Hnoat).
      rewrite no_at_name_at in Hx. discriminate.
    - exfalso. assert (Hx : no_at (name_at b k) = true) by (rewrite <- Hn, Hname, Hn'; now apply Hnoat).
      rewrite no_at_name_at in Hx. discriminate.
    - rewrite Hn, Hn' in Hname. apply name_at_inj in Hname; [|now apply Hnoat|now apply Hnoat].
      destruct Hname as [<- <-].
      assert (e = e').
      { apply (base_name_unique e e' b).
        - destruct Hwho as [(st & Hst & _ & Hbn)|H]; [left; exists st; auto|now right].
        - destruct Hwho' as [(st & Hst & _ & Hbn)|H]; [left; exists st; auto|now right]. }
      auto.
  Qed.
End Names.
