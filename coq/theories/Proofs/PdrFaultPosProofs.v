(** * Proofs/PdrFaultPosProofs.v — solver faults in the concrete model of pdr.rs: POSITIONS (property C15).

    Proofs/PdrFaultProofs.v says what the event log of a run looks like ([clean], [err_shape]).  Here:
    the log is COMPLETE and NUMBERED - the n-th query event of the log is the n-th consultation of the
    oracle and carries the oracle's answer [solve n q]; the commands issued so far are exactly the
    commands 0 .. p_c - 1 and none of them failed.  Together with [pdr_post] this gives statements
    about a fault at ANY position n of the run:
    - an error answer at position n: no run that returns a verdict ever asks query n; a run that asks
      it returns this very error, the query is the newest event, n queries were asked before it and
      everything before it is clean;
    - a failing command i: a run that returns a verdict issued fewer than i+1 commands; a run whose
      log ends in [EvCmdFail idx m] returns [ESolver m], idx is the FIRST failing command;
    - an unknown answer at position n to a query that is not a relative-induction query / the query
      against the infinite frame: as for errors, with [EUnknown (q_kind q)];
    - a verdict rests on intact answers only.
    No semantic hypothesis: properties of the control flow alone. *)
From Coq Require Import List Bool Arith Lia.
From Patronus Require Import Ic3 PdrImpl PdrImplProofs PdrFaultProofs.
Import ListNotations.

Transparent ask.

Section PdrFaultPos.
  Variable lit : Type.
  Variable lit_eqb : lit -> lit -> bool.
  Variable St : Type.
  Variable cube_of_state : St -> list lit.
  Variable W : Type.
  Variable EM : Type.
  Variable solve : nat -> query lit -> answer lit St EM.
  Variable cmd_fail : nat -> option EM.
  Variable n_init : nat.
  Variable gen_on has_bads : bool.
  Variable bmc_result : bmc_answer W EM.

  Notation pst := (pst lit St EM).
  Notation event := (event lit St EM).
  Notation plog := (p_log lit St EM).
  Notation pq := (p_q lit St EM).
  Notation pc := (p_c lit St EM).

  (** the queries of a log with their answers, OLDEST first *)
  Fixpoint qlog (l : list event) : list (query lit * answer lit St EM) :=
    match l with
    | [] => []
    | EvQuery _ _ _ q a :: r => qlog r ++ [(q, a)]
    | _ :: r => qlog r
    end.

  (** the n-th consultation of the oracle in this log was query [q] and got answer [a] *)
  Definition asked (l : list event) (n : nat) (q : query lit) (a : answer lit St EM) : Prop :=
    nth_error (qlog l) n = Some (q, a).

  (** every logged query carries the oracle's answer for its running number *)
  Definition numbered (l : list event) : Prop := forall n q a, asked l n q a -> a = solve n q.

  (** the newest event is not a failed command (a failed command ends the run) *)
  Definition no_cmdfail_head (l : list event) : Prop :=
    match l with EvCmdFail _ _ _ _ _ :: _ => False | _ => True end.

  Definition inv (st : pst) : Prop :=
    length (qlog (plog st)) = pq st /\ numbered (plog st) /\
    (forall i, i < pc st -> cmd_fail i = None) /\ no_cmdfail_head (plog st).

  Definition err_inv (l : list event) : Prop :=
    numbered l /\
    (forall idx m l0, l = EvCmdFail lit St EM idx m :: l0 -> forall i, i < idx -> cmd_fail i = None).

  Definition post2 {A} (r : res lit St EM (A * pst)) : Prop :=
    match r with
    | Ok (_, st') => inv st'
    | Err _ l => err_inv l
    | _ => True
    end.

  Definition post21 (r : res lit St EM pst) : Prop :=
    match r with
    | Ok st' => inv st'
    | Err _ l => err_inv l
    | _ => True
    end.

  (** ** the query log *)
  Lemma asked_cons ev l0 n q a : asked (ev :: l0) n q a ->
    (ev = EvQuery lit St EM q a /\ n = length (qlog l0)) \/ asked l0 n q a.
  Proof.
    unfold asked. destruct ev as [q' a' | f c | act | idx e | e]; cbn [qlog]; intros H; try (right; exact H).
    destruct (Nat.lt_ge_cases n (length (qlog l0))) as [Hlt | Hge].
    - right. rewrite nth_error_app1 in H by exact Hlt. exact H.
    - left. rewrite nth_error_app2 in H by exact Hge.
      destruct (n - length (qlog l0)) as [| k] eqn:Ek; cbn [nth_error] in H.
      + inversion H; subst. split; [reflexivity | lia].
      + destruct k; discriminate H.
  Qed.

  Lemma asked_in l : forall n q a, asked l n q a -> In (EvQuery lit St EM q a) l.
  Proof.
    induction l as [| ev l0 IH]; intros n q a H.
    - unfold asked in H. cbn [qlog] in H. destruct n; discriminate H.
    - destruct (asked_cons _ _ _ _ _ H) as [[He _] | H0]; [left; exact He | right; exact (IH _ _ _ H0)].
  Qed.

  Lemma asked_lt l n q a : asked l n q a -> n < length (qlog l).
  Proof. unfold asked. intros H. apply nth_error_Some. rewrite H. discriminate. Qed.

  Lemma asked_ex l n : n < length (qlog l) -> exists q a, asked l n q a.
  Proof.
    intros H. unfold asked. destruct (nth_error (qlog l) n) as [[q a] |] eqn:E; [now exists q, a |].
    apply nth_error_None in E. lia.
  Qed.

  Lemma clean_no_err l q m : clean lit St EM l -> ~ In (EvQuery lit St EM q (AErr lit St EM m)) l.
  Proof. intros Hc Hin. unfold clean in Hc. rewrite Forall_forall in Hc. exact (Hc _ Hin). Qed.

  Lemma clean_unknown l q : clean lit St EM l -> In (EvQuery lit St EM q (AUnknown lit St EM)) l ->
    q_kind lit q = KRelInd \/ q_kind lit q = KInf.
  Proof. intros Hc Hin. unfold clean in Hc. rewrite Forall_forall in Hc. exact (Hc _ Hin). Qed.

  (** ** how the invariant moves *)
  Lemma inv_step_q st st' q a : inv st -> solve (pq st) q = a ->
    plog st' = EvQuery lit St EM q a :: plog st -> pq st' = S (pq st) -> pc st' = pc st -> inv st'.
  Proof.
    intros (Hl & Hn & Hc & Hh) Ea El Eq Ec. unfold inv. rewrite El, Eq, Ec.
    split; [| split; [| split]].
    - cbn [qlog]. rewrite app_length. cbn [length]. lia.
    - intros n q' a' H. apply asked_cons in H. destruct H as [[He Hn'] | H0]; [| exact (Hn _ _ _ H0)].
      injection He as Hq Ha. subst q' a' n. rewrite Hl. symmetry. exact Ea.
    - exact Hc.
    - exact I.
  Qed.

  Lemma inv_step_eq st st' : inv st -> plog st' = plog st -> pq st' = pq st -> pc st' = pc st -> inv st'.
  Proof. intros Hi El Eq Ec. unfold inv. rewrite El, Eq, Ec. exact Hi. Qed.

  Definition ev_quiet (ev : event) : Prop :=
    match ev with EvBlock _ _ _ _ _ => True | EvAddFrame _ _ _ _ => True | _ => False end.

  Lemma inv_step_ev st st' ev : inv st -> ev_quiet ev ->
    plog st' = ev :: plog st -> pq st' = pq st -> pc st' = pc st -> inv st'.
  Proof.
    intros (Hl & Hn & Hc & Hh) Hq El Eq Ec. unfold inv. rewrite El, Eq, Ec.
    destruct ev as [q' a' | f c | act | idx e | e]; cbn [ev_quiet] in Hq; try contradiction.
    - split; [exact Hl | split; [exact Hn | split; [exact Hc | exact I]]].
    - split; [exact Hl | split; [exact Hn | split; [exact Hc | exact I]]].
  Qed.

  Lemma inv_tick st : inv st -> cmd_fail (pc st) = None -> inv (tick lit St EM st).
  Proof.
    intros (Hl & Hn & Hc & Hh) E. split; [exact Hl | split; [exact Hn | split; [| exact Hh]]].
    cbn [p_c tick]. intros i Hi. destruct (Nat.eq_dec i (pc st)) as [-> | Hne]; [exact E | apply Hc; lia].
  Qed.

  Lemma inv_err st : inv st -> err_inv (plog st).
  Proof.
    intros (Hl & Hn & Hc & Hh). split; [exact Hn |]. intros idx m l0 E. rewrite E in Hh. contradiction Hh.
  Qed.

  Lemma inv_err_bmc st e : inv st -> err_inv (EvBmcErr lit St EM e :: plog st).
  Proof. intros (Hl & Hn & Hc & Hh). split; [exact Hn |]. intros idx m l0 E. discriminate E. Qed.

  Lemma inv_init : inv (init_state lit St EM).
  Proof.
    split; [reflexivity | split; [| split; [| exact I]]].
    - intros n q a H. unfold asked in H. cbn in H. destruct n; discriminate H.
    - intros i Hi. cbn in Hi. lia.
  Qed.

  (** ** one lemma per function of the model *)
  Lemma cmds_post2 n : forall st, inv st -> post21 (cmds lit St EM cmd_fail n st).
  Proof.
    induction n as [| n IH]; intros st Hi; cbn [cmds]; [exact Hi |].
    destruct (cmd_fail (pc st)) as [e |] eqn:E.
    - cbn [post21]. destruct Hi as (Hl & Hn & Hc & Hh). split; [exact Hn |].
      intros idx m l0 Eq i Hlt. injection Eq as Hidx _ _. subst idx. exact (Hc i Hlt).
    - apply IH. exact (inv_tick st Hi E).
  Qed.

  Ltac step_cmds Hi Hcm s2 :=
    match goal with |- context [cmds _ _ _ _ ?n ?s] =>
      pose proof (cmds_post2 n s Hi) as Hcm; destruct (cmds lit St EM cmd_fail n s) as [s2 | ? ? | |] end;
    cbn [post21] in Hcm; cbn [post2 post21]; try exact Hcm; try exact I.

  Lemma get_bad_cube_post2 st : inv st -> post2 (get_bad_cube lit St cube_of_state EM solve st).
  Proof.
    intros Hi. unfold get_bad_cube. destruct (from_of lit St EM st (frontier_id lit St EM st)); [| exact I].
    cbn [ask]. unfold fail.
    match goal with |- context [solve ?n ?q] => set (qq := q); destruct (solve n qq) as [m | core | | e] eqn:Ea end; cbn [post2];
      try apply inv_err; apply (inv_step_q st _ qq _ Hi Ea); reflexivity.
  Qed.

  Lemma fix_loop_post2 fuel : forall st gen lm first,
      inv st -> post2 (fix_loop lit lit_eqb St EM solve cmd_fail fuel st gen lm first).
  Proof.
    induction fuel as [| fuel IH]; intros st gen lm first Hi; [exact I |].
    cbn [fix_loop ask]. unfold fail.
    set (qq := init_query lit KGenFix gen lm true).
    destruct (solve (pq st) qq) as [m | core | | e] eqn:Ea.
    - destruct first; [| exact I].
      match goal with |- context [cmds _ _ _ _ ?n ?s] =>
        assert (Hi1 : inv s) by (apply (inv_step_q st s qq _ Hi Ea); reflexivity) end.
      step_cmds Hi1 Hcm s2. apply inv_err. exact Hcm.
    - match goal with |- context [cmds _ _ _ _ ?n ?s] =>
        assert (Hi1 : inv s) by (apply (inv_step_q st s qq _ Hi Ea); reflexivity) end.
      step_cmds Hi1 Hcm s2.
      destruct (_ =? _).
      + step_cmds Hcm Hcm3 s3.
      + apply IH. exact Hcm.
    - cbn [post2]. apply inv_err. apply (inv_step_q st _ qq _ Hi Ea); reflexivity.
    - cbn [post2]. apply inv_err. apply (inv_step_q st _ qq _ Hi Ea); reflexivity.
  Qed.

  Lemma fix_gen_cube_post2 st gen rm :
    inv st -> post2 (fix_gen_cube lit lit_eqb St EM solve cmd_fail st gen rm).
  Proof.
    intros Hi. unfold fix_gen_cube. cbn [ask]. unfold fail.
    set (qq := init_query lit KGenCheck gen [] false).
    destruct (solve (pq st) qq) as [m | core | | e] eqn:Ea.
    - match goal with |- context [cmds _ _ _ _ ?n ?s] =>
        assert (Hi1 : inv s) by (apply (inv_step_q st s qq _ Hi Ea); reflexivity) end.
      step_cmds Hi1 Hcm s2.
      apply fix_loop_post2. exact Hcm.
    - cbn [post2]. apply (inv_step_q st _ qq _ Hi Ea); reflexivity.
    - cbn [post2]. apply inv_err. apply (inv_step_q st _ qq _ Hi Ea); reflexivity.
    - cbn [post2]. apply inv_err. apply (inv_step_q st _ qq _ Hi Ea); reflexivity.
  Qed.

  Lemma rel_ind_post2 st c f ext :
    inv st -> post2 (rel_ind lit lit_eqb St cube_of_state EM solve cmd_fail gen_on st c f ext).
  Proof.
    intros Hi. unfold rel_ind. destruct (decrement f) as [prev |]; [| exact I].
    destruct (from_of lit St EM st prev) as [from |]; [| exact I].
    assert (Hi0 : inv (new_acts lit St EM st (length c))) by (apply (inv_step_eq st _ Hi); reflexivity).
    step_cmds Hi0 Hcm0 st0.
    cbn [ask]. cbv zeta. unfold fail.
    match goal with |- context [solve ?n ?q] => set (qq := q); destruct (solve n qq) as [m | core | | e] eqn:Ea end.
    - match goal with |- context [cmds _ _ _ _ ?n ?s] =>
        assert (Hi1 : inv s) by (apply (inv_step_q st0 s qq _ Hcm0 Ea); reflexivity) end.
      step_cmds Hi1 Hcm s2.
    - destruct gen_on.
      + match goal with |- context [fix_gen_cube _ _ _ _ _ _ ?s ?g ?r] =>
          assert (Hi1 : inv s) by (apply (inv_step_q st0 s qq _ Hcm0 Ea); reflexivity);
          pose proof (fix_gen_cube_post2 s g r Hi1) as Hfx;
          destruct (fix_gen_cube lit lit_eqb St EM solve cmd_fail s g r) as [[fx s2] | e2 l2 | |] end;
          cbn [post2] in Hfx; try exact Hfx; try exact I.
        step_cmds Hfx Hcm s3.
      + match goal with |- context [cmds _ _ _ _ ?n ?s] =>
          assert (Hi1 : inv s) by (apply (inv_step_q st0 s qq _ Hcm0 Ea); reflexivity) end.
        step_cmds Hi1 Hcm s2.
    - match goal with |- context [cmds _ _ _ _ ?n ?s] =>
        assert (Hi1 : inv s) by (apply (inv_step_q st0 s qq _ Hcm0 Ea); reflexivity) end.
      step_cmds Hi1 Hcm s2.
    - cbn [post2]. apply inv_err. apply (inv_step_q st0 _ qq _ Hcm0 Ea); reflexivity.
  Qed.

  Lemma record_cube_inv st c f st' : record_cube lit St EM st c f = Some st' -> inv st -> inv st'.
  Proof.
    unfold record_cube. destruct f as [| k |]; [discriminate | |].
    - destruct (push_at lit k c (p_frames lit St EM st)); [| discriminate]. intros H Hi. inversion H; subst.
      apply (inv_step_ev st _ (EvBlock lit St EM (FFinite k) c) Hi I); reflexivity.
    - intros H Hi. inversion H; subst.
      apply (inv_step_ev st _ (EvBlock lit St EM FInf c) Hi I); reflexivity.
  Qed.

  Lemma add_blocked_cube_post2 st c f : inv st -> post21 (add_blocked_cube lit St EM cmd_fail st c f).
  Proof.
    intros Hi. unfold add_blocked_cube. destruct (record_cube lit St EM st c f); [| exact I].
    pose proof (cmds_post2 1 st Hi) as Hcm. destruct (cmds lit St EM cmd_fail 1 st) as [st1 | e l | |]; cbn [post21] in *; try exact Hcm; try exact I.
    destruct (record_cube lit St EM st1 c f) as [st2 |] eqn:Er; [| exact I]. cbn [post21].
    exact (record_cube_inv st1 c f st2 Er Hcm).
  Qed.

  Lemma add_frame_post2 st : inv st -> post21 (add_frame lit St EM cmd_fail st).
  Proof.
    intros Hi. unfold add_frame.
    pose proof (cmds_post2 1 st Hi) as Hcm. destruct (cmds lit St EM cmd_fail 1 st) as [st1 | e l | |]; cbn [post21] in *; try exact Hcm; try exact I.
    apply (inv_step_ev st1 _ (EvAddFrame lit St EM (p_next_act lit St EM st1)) Hcm I); reflexivity.
  Qed.

  Lemma push_loop_post2 fuel : forall st cand f,
      inv st -> post2 (push_loop lit lit_eqb St cube_of_state EM solve cmd_fail gen_on fuel st cand f).
  Proof.
    induction fuel as [| fuel IH]; intros st cand f Hi; [exact I |]. cbn [push_loop].
    destruct (fid_le f (frontier_id lit St EM st)); [| exact Hi].
    pose proof (rel_ind_post2 st cand f true Hi) as Hr.
    destruct (rel_ind lit lit_eqb St cube_of_state EM solve cmd_fail gen_on st cand f true) as [[r st1] | e l | |]; cbn [post2] in Hr; try exact Hr; try exact I.
    destruct r as [p | og |]; cbn [post2]; try exact Hr.
    destruct (increment f); [| exact I]. now apply IH.
  Qed.

  Lemma block_loop_post2 fuel : forall st work,
      inv st -> post2 (block_loop lit lit_eqb St cube_of_state EM solve cmd_fail gen_on fuel st work).
  Proof.
    induction fuel as [| fuel IH]; intros st work Hi; [exact I |]. cbn [block_loop].
    destruct (pop_min lit work) as [[[c f] rest] |]; [| exact Hi].
    destruct (is_init f); [exact Hi |].
    pose proof (rel_ind_post2 st c f true Hi) as Hr.
    destruct (rel_ind lit lit_eqb St cube_of_state EM solve cmd_fail gen_on st c f true) as [[r st1] | e l | |] eqn:Er; cbn [post2] in Hr; try exact Hr; try exact I.
    destruct r as [p | og |].
    - destruct (decrement f); [| exact I]. now apply IH.
    - destruct (increment f) as [tf |]; [| exact I].
      match goal with |- context [push_loop _ _ _ _ _ _ _ _ ?n ?s ?cd ?t] =>
        pose proof (push_loop_post2 n s cd t Hr) as Hp;
        destruct (push_loop lit lit_eqb St cube_of_state EM solve cmd_fail gen_on n s cd t) as [[tf' st2] | e2 l2 | |] end;
        cbn [post2] in Hp; try exact Hp; try exact I.
      destruct (decrement tf') as [bf |]; [| exact I].
      match goal with |- context [add_blocked_cube _ _ _ _ ?s ?cd ?b] =>
        pose proof (add_blocked_cube_post2 s cd b Hp) as Ha;
        destruct (add_blocked_cube lit St EM cmd_fail s cd b) as [st3 | e3 l3 | |] end;
        cbn [post21] in Ha; cbn [post2]; try exact Ha; try exact I.
      now apply IH.
    - unfold fail. cbn [post2]. apply inv_err. exact Hr.
  Qed.

  Lemma keep_cube_inv st k c : inv st -> inv (keep_cube lit St EM st k c).
  Proof. intros Hi. apply (inv_step_eq st _ Hi); reflexivity. Qed.

  Lemma set_frame_inv st k cs : inv st -> inv (set_frame lit St EM st k cs).
  Proof. intros Hi. apply (inv_step_eq st _ Hi); reflexivity. Qed.

  Lemma prop_cubes_post2 id : forall cs st,
      inv st -> post21 (prop_cubes lit lit_eqb St cube_of_state EM solve cmd_fail gen_on st id cs).
  Proof.
    induction cs as [| c r IH]; intros st Hi; [exact Hi |]. cbn [prop_cubes].
    pose proof (rel_ind_post2 st c (FFinite (S id)) false Hi) as Hr.
    destruct (rel_ind lit lit_eqb St cube_of_state EM solve cmd_fail gen_on st c (FFinite (S id)) false) as [[rr st1] | e l | |]; cbn [post2] in Hr; cbn [post21]; try exact Hr; try exact I.
    destruct rr as [p | og |]; try (apply IH; now apply keep_cube_inv).
    pose proof (add_blocked_cube_post2 st1 c (FFinite (S id)) Hr) as Ha.
    destruct (add_blocked_cube lit St EM cmd_fail st1 c (FFinite (S id))) as [st2 | e2 l2 | |]; cbn [post21] in *; try exact Ha; try exact I.
    now apply IH.
  Qed.

  Lemma to_inf_post2 cs : forall st, inv st -> post21 (to_inf lit St EM cmd_fail st cs).
  Proof.
    induction cs as [| c r IH]; intros st Hi; [exact Hi |]. cbn [to_inf].
    pose proof (add_blocked_cube_post2 st c FInf Hi) as Ha.
    destruct (add_blocked_cube lit St EM cmd_fail st c FInf) as [st1 | e l | |]; cbn [post21] in *; try exact Ha; try exact I.
    now apply IH.
  Qed.

  Lemma cleanup_post2 n : forall st iid, inv st -> post21 (cleanup lit St EM cmd_fail n st iid).
  Proof.
    induction n as [| n IH]; intros st iid Hi; [exact Hi |]. cbn [cleanup].
    pose proof (to_inf_post2 (frame_cubes lit St EM st iid) (set_frame lit St EM st iid []) (set_frame_inv st iid [] Hi)) as Ht.
    destruct (to_inf lit St EM cmd_fail (set_frame lit St EM st iid []) (frame_cubes lit St EM st iid)) as [st1 | e l | |]; cbn [post21] in *; try exact Ht; try exact I.
    now apply IH.
  Qed.

  Lemma prop_frames_post2 n : forall st id,
      inv st -> post2 (prop_frames lit lit_eqb St cube_of_state EM solve cmd_fail gen_on n st id).
  Proof.
    induction n as [| n IH]; intros st id Hi; [exact Hi |]. cbn [prop_frames].
    pose proof (prop_cubes_post2 id (frame_cubes lit St EM st id) (set_frame lit St EM st id []) (set_frame_inv st id [] Hi)) as Hp.
    destruct (prop_cubes lit lit_eqb St cube_of_state EM solve cmd_fail gen_on (set_frame lit St EM st id []) id (frame_cubes lit St EM st id)) as [st1 | e l | |];
      cbn [post21] in Hp; cbn [post2]; try exact Hp; try exact I.
    destruct (frame_cubes lit St EM st1 id).
    - pose proof (cleanup_post2 (frontier lit St EM st1 - id) st1 (S id) Hp) as Hcl.
      destruct (cleanup lit St EM cmd_fail (frontier lit St EM st1 - id) st1 (S id)) as [st2 | e2 l2 | |]; cbn [post21] in Hcl; cbn [post2]; try exact Hcl; exact I.
    - now apply IH.
  Qed.

  Lemma prop_last_post2 front : forall cs st,
      inv st -> post21 (prop_last lit St EM solve cmd_fail st front cs).
  Proof.
    induction cs as [| c r IH]; intros st Hi; [exact Hi |]. cbn [prop_last ask]. unfold fail.
    match goal with |- context [solve ?n ?q] => set (qq := q); destruct (solve n qq) as [m | core | | e] eqn:Ea end.
    - apply IH. apply keep_cube_inv. apply (inv_step_q st _ qq _ Hi Ea); reflexivity.
    - match goal with |- context [add_blocked_cube _ _ _ _ ?s ?cd ?b] =>
        assert (Hi1 : inv s) by (apply (inv_step_q st s qq _ Hi Ea); reflexivity);
        pose proof (add_blocked_cube_post2 s cd b Hi1) as Ha;
        destruct (add_blocked_cube lit St EM cmd_fail s cd b) as [st2 | e2 l2 | |] end;
        cbn [post21] in *; try exact Ha; try exact I.
      now apply IH.
    - apply IH. apply keep_cube_inv. apply (inv_step_q st _ qq _ Hi Ea); reflexivity.
    - cbn [post21]. apply inv_err. apply (inv_step_q st _ qq _ Hi Ea); reflexivity.
  Qed.

  Lemma propagate_post2 st :
    inv st -> post2 (propagate_blocked_cubes lit lit_eqb St cube_of_state EM solve cmd_fail gen_on st).
  Proof.
    intros Hi. unfold propagate_blocked_cubes.
    pose proof (prop_frames_post2 (pred (frontier lit St EM st)) st 1 Hi) as Hp.
    destruct (prop_frames lit lit_eqb St cube_of_state EM solve cmd_fail gen_on (pred (frontier lit St EM st)) st 1) as [[b st1] | e l | |];
      cbn [post2] in Hp; try exact Hp; try exact I.
    destruct b; [exact Hp |].
    match goal with |- context [prop_last _ _ _ _ _ ?s ?f ?cs] =>
      pose proof (prop_last_post2 f cs s (set_frame_inv _ _ _ Hp)) as Hl; destruct (prop_last lit St EM solve cmd_fail s f cs) as [st2 | e2 l2 | |] end;
      cbn [post21] in Hl; cbn [post2]; try exact Hl; exact I.
  Qed.

  Lemma pdr_loop_post2 fuel bf : forall st,
      inv st -> post2 (pdr_loop lit lit_eqb St cube_of_state W EM solve cmd_fail gen_on bmc_result fuel bf st).
  Proof.
    induction fuel as [| fuel IH]; intros st Hi; [exact I |]. cbn [pdr_loop].
    destruct (frontier lit St EM st <=? MAX_FRAMES); [| exact Hi].
    pose proof (get_bad_cube_post2 st Hi) as Hg.
    destruct (get_bad_cube lit St cube_of_state EM solve st) as [[ob st1] | e l | |]; cbn [post2] in Hg; try exact Hg; try exact I.
    destruct ob as [b |].
    - unfold block_cube.
      match goal with |- post2 (match ?X with _ => _ end) =>
        pose proof (block_loop_post2 bf st1 _ Hg : post2 X) as Hb; destruct X as [[ok st2] | e2 l2 | |] end;
        cbn [post2] in Hb; try exact Hb; try exact I.
      destruct ok; [now apply IH |].
      destruct bmc_result as [w | | eb] eqn:Eb; cbn [post2]; try exact Hb.
      apply inv_err_bmc. exact Hb.
    - pose proof (add_frame_post2 st1 Hg) as Ha.
      destruct (add_frame lit St EM cmd_fail st1) as [sta | ea la | |]; cbn [post21] in Ha; cbn [post2]; try exact Ha; try exact I.
      pose proof (propagate_post2 sta Ha) as Hp.
      destruct (propagate_blocked_cubes lit lit_eqb St cube_of_state EM solve cmd_fail gen_on sta) as [[fx st2] | e2 l2 | |]; cbn [post2] in Hp; try exact Hp; try exact I.
      destruct fx; [exact Hp | now apply IH].
  Qed.

  Theorem pdr_post2 fuel bf :
    post2 (pdr lit lit_eqb St cube_of_state W EM solve cmd_fail n_init gen_on has_bads bmc_result fuel bf).
  Proof.
    unfold pdr. destruct has_bads; [| exact inv_init].
    pose proof (cmds_post2 n_init (init_state lit St EM) inv_init) as Hcm.
    destruct (cmds lit St EM cmd_fail n_init (init_state lit St EM)) as [st0 | e l | |]; cbn [post21] in Hcm; cbn [post2]; try exact Hcm; try exact I.
    now apply pdr_loop_post2.
  Qed.

  (** a Fail verdict is the BMC fallback's *)
  Lemma pdr_loop_fail_bmc fuel bf : forall st w st',
      pdr_loop lit lit_eqb St cube_of_state W EM solve cmd_fail gen_on bmc_result fuel bf st = Ok (VFail W w, st') ->
      bmc_result = BmcFail W EM w.
  Proof.
    induction fuel as [| fuel IH]; intros st w st' H; [discriminate H |]. cbn [pdr_loop] in H.
    destruct (frontier lit St EM st <=? MAX_FRAMES); [| discriminate H].
    destruct (get_bad_cube lit St cube_of_state EM solve st) as [[[b |] st1] | e l | |]; try discriminate H.
    - destruct (block_cube lit lit_eqb St cube_of_state EM solve cmd_fail gen_on bf st1 b (frontier_id lit St EM st1)) as [[[|] st2] | e2 l2 | |]; try discriminate H.
      + exact (IH _ _ _ H).
      + destruct bmc_result as [w' | | eb]; try discriminate H. inversion H; subst. reflexivity.
    - destruct (add_frame lit St EM cmd_fail st1) as [sta | ea la | |]; try discriminate H.
      destruct (propagate_blocked_cubes lit lit_eqb St cube_of_state EM solve cmd_fail gen_on sta) as [[[|] st2] | e2 l2 | |]; try discriminate H.
      exact (IH _ _ _ H).
  Qed.

  Lemma pdr_fail_bmc fuel bf w st' :
    pdr lit lit_eqb St cube_of_state W EM solve cmd_fail n_init gen_on has_bads bmc_result fuel bf = Ok (VFail W w, st') ->
    bmc_result = BmcFail W EM w.
  Proof.
    unfold pdr. destruct has_bads; [| discriminate].
    destruct (cmds lit St EM cmd_fail n_init (init_state lit St EM)) as [st0 | e l | |]; try discriminate.
    apply pdr_loop_fail_bmc.
  Qed.
End PdrFaultPos.

(** ** the statements quoted by Props/C15.v *)
Section PdrFaultPosTheorems.
  Variable lit : Type.
  Variable lit_eqb : lit -> lit -> bool.
  Variable St : Type.
  Variable cube_of_state : St -> list lit.
  Variable W : Type.
  Variable EM : Type.
  Variable solve : nat -> query lit -> answer lit St EM.
  Variable cmd_fail : nat -> option EM.
  Variable n_init : nat.
  Variable gen_on has_bads : bool.
  Variable bmc_result : bmc_answer W EM.

  Notation run fuel bf := (pdr lit lit_eqb St cube_of_state W EM solve cmd_fail n_init gen_on has_bads bmc_result fuel bf).
  Notation P1 fuel bf := (pdr_post lit lit_eqb St cube_of_state W EM solve cmd_fail n_init gen_on has_bads bmc_result fuel bf).
  Notation P2 fuel bf := (pdr_post2 lit lit_eqb St cube_of_state W EM solve cmd_fail n_init gen_on has_bads bmc_result fuel bf).
  Notation asked := (asked lit St EM).
  Notation qlog := (qlog lit St EM).
  Notation numbered := (numbered lit St EM solve).
  Notation clean := (clean lit St EM).
  Notation plog := (p_log lit St EM).

  (** the log is complete and numbered: the n-th query event IS the n-th consultation of the oracle,
      with the oracle's answer; the commands issued are the commands 0 .. p_c - 1, none failed *)
  Theorem pdr_model_log_complete fuel bf :
    (forall v st', run fuel bf = Ok (v, st') ->
                   length (qlog (plog st')) = p_q lit St EM st' /\ numbered (plog st') /\
                   (forall i, i < p_c lit St EM st' -> cmd_fail i = None)) /\
    (forall e log, run fuel bf = Err e log -> numbered log).
  Proof.
    pose proof (P2 fuel bf) as H2. split.
    - intros v st' E. rewrite E in H2. cbn [post2] in H2. destruct H2 as (Hl & Hn & Hc & _). now repeat split.
    - intros e log E. rewrite E in H2. cbn [post2] in H2. exact (proj1 H2).
  Qed.

  (** an error answer at ANY position *)
  Theorem pdr_model_error_any_position fuel bf : forall n q m, solve n q = AErr lit St EM m ->
    (forall v st' a, run fuel bf = Ok (v, st') -> ~ asked (plog st') n q a) /\
    (forall e log a, run fuel bf = Err e log -> asked log n q a ->
       e = ESolver EM m /\
       exists l0, log = EvQuery lit St EM q (AErr lit St EM m) :: l0 /\ length (qlog l0) = n /\ clean l0).
  Proof.
    intros n q m Hs. pose proof (P1 fuel bf) as H. pose proof (P2 fuel bf) as H2. split.
    - intros v st' a E Ha. rewrite E in H, H2. cbn [post] in H. cbn [post2] in H2. destruct H2 as (_ & Hn & _).
      pose proof (Hn _ _ _ Ha) as Hans. rewrite Hs in Hans. subst a.
      exact (clean_no_err lit St EM _ _ _ H (asked_in lit St EM _ _ _ _ Ha)).
    - intros e log a E Ha. rewrite E in H, H2. cbn [post] in H. cbn [post2] in H2. destruct H2 as (Hn & _).
      pose proof (Hn _ _ _ Ha) as Hans. rewrite Hs in Hans. subst a.
      destruct e as [k | | m']; cbn [err_shape] in H.
      + destruct H as (q' & l0 & n' & El & Hc & _). subst log.
        apply asked_cons in Ha. destruct Ha as [[He _] | Ha0]; [discriminate He |].
        exfalso. exact (clean_no_err lit St EM _ _ _ Hc (asked_in lit St EM _ _ _ _ Ha0)).
      + exfalso. exact (clean_no_err lit St EM _ _ _ H (asked_in lit St EM _ _ _ _ Ha)).
      + destruct H as (ev & l0 & El & Hc & Hcons). subst log.
        apply asked_cons in Ha. destruct Ha as [[He Hlen] | Ha0].
        * subst ev. destruct Hcons as [(n' & q' & He & _) | [(i & He & _) | (He & _)]]; try discriminate He.
          injection He as _ Hm. subst m'. split; [reflexivity |]. exists l0.
          split; [reflexivity | split; [symmetry; exact Hlen | exact Hc]].
        * exfalso. exact (clean_no_err lit St EM _ _ _ Hc (asked_in lit St EM _ _ _ _ Ha0)).
  Qed.

  (** a failing command at ANY position *)
  Theorem pdr_model_cmd_failure_any_position fuel bf :
    (forall v st' i m, run fuel bf = Ok (v, st') -> cmd_fail i = Some m -> p_c lit St EM st' <= i) /\
    (forall e idx m l0, run fuel bf = Err e (EvCmdFail lit St EM idx m :: l0) ->
       e = ESolver EM m /\ cmd_fail idx = Some m /\ (forall i, i < idx -> cmd_fail i = None) /\ clean l0).
  Proof.
    pose proof (P1 fuel bf) as H. pose proof (P2 fuel bf) as H2. split.
    - intros v st' i m E Hf. rewrite E in H2. cbn [post2] in H2. destruct H2 as (_ & _ & Hc & _).
      destruct (le_lt_dec (p_c lit St EM st') i) as [Hle | Hlt]; [exact Hle |].
      rewrite (Hc i Hlt) in Hf. discriminate Hf.
    - intros e idx m l0 E. rewrite E in H, H2. cbn [post] in H. cbn [post2] in H2. destruct H2 as (_ & Hidx).
      specialize (Hidx idx m l0 eq_refl).
      destruct e as [k | | m']; cbn [err_shape] in H.
      + destruct H as (q' & l1 & n' & El & _). discriminate El.
      + inversion H as [| ev l1 Hev Hl1]; subst. contradiction Hev.
      + destruct H as (ev & l1 & El & Hc & Hcons). injection El as Hev Hl. subst ev l1.
        destruct Hcons as [(n' & q' & He & _) | [(i & He & Hf) | (He & _)]]; try discriminate He.
        injection He as Hi Hm. subst i m'. split; [reflexivity | split; [exact Hf | split; [exact Hidx | exact Hc]]].
  Qed.

  (** an unknown answer at ANY position, to a query where pdr.rs does not go on *)
  Theorem pdr_model_unknown_any_position fuel bf : forall n q, solve n q = AUnknown lit St EM ->
    q_kind lit q <> KRelInd -> q_kind lit q <> KInf ->
    (forall v st' a, run fuel bf = Ok (v, st') -> ~ asked (plog st') n q a) /\
    (forall e log a, run fuel bf = Err e log -> asked log n q a ->
       e = EUnknown EM (q_kind lit q) /\
       exists l0, log = EvQuery lit St EM q (AUnknown lit St EM) :: l0 /\ length (qlog l0) = n /\ clean l0).
  Proof.
    intros n q Hs Hk1 Hk2. pose proof (P1 fuel bf) as H. pose proof (P2 fuel bf) as H2.
    assert (Hno : forall l, clean l -> ~ In (EvQuery lit St EM q (AUnknown lit St EM)) l).
    { intros l Hc Hin. destruct (clean_unknown lit St EM l q Hc Hin) as [Hk | Hk]; [exact (Hk1 Hk) | exact (Hk2 Hk)]. }
    split.
    - intros v st' a E Ha. rewrite E in H, H2. cbn [post] in H. cbn [post2] in H2. destruct H2 as (_ & Hn & _).
      pose proof (Hn _ _ _ Ha) as Hans. rewrite Hs in Hans. subst a.
      exact (Hno _ H (asked_in lit St EM _ _ _ _ Ha)).
    - intros e log a E Ha. rewrite E in H, H2. cbn [post] in H. cbn [post2] in H2. destruct H2 as (Hn & _).
      pose proof (Hn _ _ _ Ha) as Hans. rewrite Hs in Hans. subst a.
      destruct e as [k | | m']; cbn [err_shape] in H.
      + destruct H as (q' & l0 & n' & El & Hc & Hk & _). subst log.
        apply asked_cons in Ha. destruct Ha as [[He Hlen] | Ha0].
        * injection He as Hq. subst q'. subst k. split; [reflexivity |]. exists l0.
          split; [reflexivity | split; [symmetry; exact Hlen | exact Hc]].
        * exfalso. exact (Hno _ Hc (asked_in lit St EM _ _ _ _ Ha0)).
      + exfalso. exact (Hno _ H (asked_in lit St EM _ _ _ _ Ha)).
      + destruct H as (ev & l0 & El & Hc & Hcons). subst log.
        apply asked_cons in Ha. destruct Ha as [[He Hlen] | Ha0].
        * subst ev. destruct Hcons as [(n' & q' & He & _) | [(i & He & _) | (He & _)]]; discriminate He.
        * exfalso. exact (Hno _ Hc (asked_in lit St EM _ _ _ _ Ha0)).
  Qed.

  (** a verdict rests on intact answers only *)
  Theorem pdr_model_verdict_intact fuel bf : forall v st', run fuel bf = Ok (v, st') ->
    (forall n, n < p_q lit St EM st' ->
       exists q, asked (plog st') n q (solve n q) /\ (forall m, solve n q <> AErr lit St EM m) /\
                 (solve n q = AUnknown lit St EM -> q_kind lit q = KRelInd \/ q_kind lit q = KInf)) /\
    (forall i, i < p_c lit St EM st' -> cmd_fail i = None) /\
    (forall w, v = VFail W w -> bmc_result = BmcFail W EM w) /\
    (forall m, bmc_result = BmcErr W EM m -> forall w, v <> VFail W w).
  Proof.
    intros v st' E. pose proof (P1 fuel bf) as H. pose proof (P2 fuel bf) as H2.
    rewrite E in H, H2. cbn [post] in H. cbn [post2] in H2. destruct H2 as (Hl & Hn & Hc & _).
    assert (Hfail : forall w, v = VFail W w -> bmc_result = BmcFail W EM w).
    { intros w Hv. subst v. exact (pdr_fail_bmc lit lit_eqb St cube_of_state W EM solve cmd_fail n_init gen_on has_bads bmc_result fuel bf w st' E). }
    split; [| split; [exact Hc | split; [exact Hfail |]]].
    - intros n Hlt. rewrite <- Hl in Hlt. destruct (asked_ex lit St EM _ _ Hlt) as (q & a & Ha).
      pose proof (Hn _ _ _ Ha) as Hans. subst a. exists q. split; [exact Ha |].
      pose proof (asked_in lit St EM _ _ _ _ Ha) as Hin. split.
      + intros m Em. rewrite Em in Hin. exact (clean_no_err lit St EM _ _ _ H Hin).
      + intros Eu. rewrite Eu in Hin. exact (clean_unknown lit St EM _ _ H Hin).
    - intros m Eb w Hv. rewrite (Hfail w Hv) in Eb. discriminate Eb.
  Qed.
End PdrFaultPosTheorems.
