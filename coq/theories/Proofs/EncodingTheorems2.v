(** * Proofs/EncodingTheorems2.v — the second repair ([script2]): same commands as [script Fixed],
    in an order that lets shared init sub-terms read states; well-formed and faithful. *)
From Coq Require Import List Bool Lia.
From Patronus Require Import EvalImpl Encoding SysExec ReachBmc ExprLemmas McBasics ScriptProofs EncodingBasics
     EncodingFaithful EncodingWf EncodingWf2 AnalysisProofs EncodingNew EncodingNames EncodingTheorems EncodingExamples.
Import ListNotations.
Open Scope N_scope.

Section Script2.
  Variable en : enc.
  Hypothesis Hb : enc_basic en.
  Hypothesis Ho : enc_order en.
  Variable n : nat.
  Let sy := e_sys en.

  Definition sig_cmd (s : sig) (k : N) : cmd :=
    if is_symbol (sg_expr s)
    then DeclareConst (name_at (sg_name s) k) (type_of (sg_expr s))
    else DefineFun (name_at (sg_name s) k) (type_of (sg_expr s)) (expr_in_step en (sg_expr s) k).

  Lemma in_define_signals_iff c k f : In c (define_signals en k f) <-> exists s, In s (e_sigs en) /\ f s = true /\ c = sig_cmd s k.
  Proof.
    unfold define_signals, sig_cmd. rewrite in_flat_map. split.
    - intros (s & Hs & Hc). destruct (f s) eqn:Ef; [|destruct Hc]. destruct Hc as [<-|[]]. eauto.
    - intros (s & Hs & Hf & ->). exists s. split; [assumption|]. rewrite Hf. now left.
  Qed.

  (** the shapes of the commands of [init_states2] *)
  Lemma init_states2_origin c : forall sts done, (forall st, In st sts -> In st (s_states sy)) ->
    In c (init_states2 en done sts) -> cmd_origin en 0 n c.
  Proof.
    assert (H0 : In 0 (steps 0 n)) by (apply in_steps; lia).
    induction sts as [|st r IH]; intros done Hsub Hin; [destruct Hin|].
    assert (Hst : In st (s_states sy)) by (apply Hsub; now left).
    cbn [init_states2] in Hin. destruct (st_init st) as [v|] eqn:Ei.
    - apply in_app_or in Hin. destruct Hin as [Hin|[<-|Hin]].
      + apply in_define_signals_iff in Hin. destruct Hin as (s & Hs & _ & ->). now apply (OSig en 0 n _ s 0).
      + now apply (OStateInit en 0 n _ st v).
      + apply (IH (v :: done)); [intros; apply Hsub; now right|assumption].
    - destruct Hin as [<-|Hin].
      + apply (OStateDecl en 0 n _ st 0); auto.
      + apply (IH done); [intros; apply Hsub; now right|assumption].
  Qed.

  Lemma script2_origin c : In c (script2 en n) -> cmd_origin en 0 n c.
  Proof.
    assert (H0 : In 0 (steps 0 n)) by (apply in_steps; lia).
    unfold script2, init_at2. rewrite !in_app_iff. intros [[Hin|Hin]|Hin].
    - apply (init_states2_origin c (s_states sy) []); auto.
    - apply in_define_signals_iff in Hin. destruct Hin as (s & Hs & _ & ->). now apply (OSig en 0 n _ s 0).
    - apply (script_origin en 0 n Fixed). unfold script. apply in_or_app. now right.
  Qed.

  (** every command of [script Fixed] is a command of [script2] *)
  Lemma init_states2_has_sig s : forall sts done,
    pos (u_init (sg_uses s)) = true -> In s (e_sigs en) ->
    (exists st v, In st sts /\ st_init st = Some v /\ needs v s = true) ->
    existsb (fun d => needs d s) done = false ->
    In (sig_cmd s 0) (init_states2 en done sts).
  Proof.
    induction sts as [|st r IH]; intros done HI Hs (st0 & v0 & Hin & Hi0 & Hn0) Hnd; [destruct Hin|].
    cbn [init_states2]. destruct (st_init st) as [v|] eqn:Ei.
    - destruct (needs v s) eqn:Env.
      + apply in_or_app. left. apply in_define_signals_iff. exists s. split; [assumption|]. split; [|reflexivity].
        now rewrite HI, Env, Hnd.
      + apply in_or_app. right. right. apply IH; try assumption.
        * destruct Hin as [<-|Hin]; [rewrite Ei in Hi0; inversion Hi0; subst; congruence|]. eauto.
        * cbn [existsb]. now rewrite Env, Hnd.
    - right. apply IH; try assumption. destruct Hin as [<-|Hin]; [congruence|]. eauto.
  Qed.

  Lemma init_states2_has_state st : forall sts done, In st sts ->
    In (match st_init st with
        | Some v => DefineFun (state_name_at st 0) (type_of (st_sym st)) (expr_in_step en v 0)
        | None => DeclareConst (state_name_at st 0) (type_of (st_sym st))
        end) (init_states2 en done sts).
  Proof.
    induction sts as [|st0 r IH]; intros done Hin; [destruct Hin|].
    cbn [init_states2]. destruct Hin as [->|Hin].
    - destruct (st_init st); [apply in_or_app; right; now left|now left].
    - destruct (st_init st0); [apply in_or_app; right; right|right]; now apply IH.
  Qed.

  Lemma fixed_in_script2 c : In c (script Fixed en 0 n) -> In c (script2 en n).
  Proof.
    unfold script, script2. rewrite !in_app_iff. intros [Hin|Hin]; [left|now right].
    unfold init_at in Hin. unfold init_at2. cbn [N.eqb] in Hin. rewrite !in_app_iff in Hin. rewrite in_app_iff.
    destruct Hin as [Hin|[Hin|Hin]].
    - left. apply in_define_signals_iff in Hin. destruct Hin as (s & Hs & HI & ->).
      apply init_states2_has_sig; try assumption; [|reflexivity].
      destruct (eo_init_sub en Ho s Hs HI) as (v & Hv & Hsub).
      unfold init_exprs in Hv. apply in_flat_map in Hv. destruct Hv as (st & Hst & Hv').
      exists st, v. split; [assumption|]. split; [destruct (st_init st); [destruct Hv' as [<-|[]]; reflexivity|destruct Hv']|].
      unfold needs. now apply mem_In.
    - left. apply in_map_iff in Hin. destruct Hin as (st & <- & Hst). cbn.
      pose proof (init_states2_has_state st (s_states sy) [] Hst) as H. destruct (st_init st); exact H.
    - now right.
  Qed.
End Script2.

(** ** the statements for [enc_new] *)
Theorem script2_wf_sys sy nm n :
  sys_wf sy = true -> names_ok (enc_new sy nm) = true -> inits_read_earlier (enc_new sy nm) ->
  script_check [] (script2 (enc_new sy nm) n) = true.
Proof.
  intros Hwf Hn Hre. apply script2_wf; try assumption.
  - now apply enc_new_basic.
  - now apply enc_new_order.
  - now apply names_ok_inj.
Qed.

Theorem script2_faithful_sys sy nm (rho0 : env) (frees : list env) (sigma0 : env) :
  sys_wf sy = true -> names_ok (enc_new sy nm) = true -> is_initial sy rho0 ->
  let en := enc_new sy nm in
  let n := length frees in
  let sc := script2 en n in
  let trace := run_from sy rho0 frees in
  let at_step := fun k => nth (N.to_nat k) trace env0 in
  script_check [] sc = true ->
  (forall nm' t e k, In (DeclareConst nm' t) sc -> k <= N.of_nat n ->
      sig_sym en e k = Some (mk_sym nm' t) -> same_val sigma0 (mk_sym nm' t) (at_step k) e) ->
  forall e k s, observable sy e -> k <= N.of_nat n -> get_signal_at en e k = Some s ->
    same_val (script_eval sigma0 sc) s (at_step k) e.
Proof.
  intros Hwf Hn Hinit en n sc trace at_step' Hck Hdecl e k s Hobs Hk Hget.
  pose proof (enc_new_basic sy nm Hwf) as Hb. pose proof (enc_new_order sy nm Hwf) as Ho.
  pose proof (names_ok_inj _ Hn) as Hinj. fold en in Hb, Ho, Hinj.
  assert (Hks : In k (steps 0 n)) by (apply in_steps; lia).
  assert (Hcoh := coherent sy nm Hwf Hinj 0 n rho0 frees eq_refl (fun _ => Hinit)). fold en trace in Hcoh.
  assert (Hat : forall k0, at_step 0 trace k0 = at_step' k0) by (intros k0; unfold at_step, at_step'; now rewrite N.sub_0_r).
  unfold get_signal_at in Hget. destruct (sig_sym en e k) as [s'|] eqn:Es.
  - injection Hget as <-.
    destruct (observable_covered sy nm Hwf Fixed 0 n rho0 frees eq_refl (fun _ => Hinit) e k s' Hobs Hks Es) as (c & Hc & Hsym).
    apply (fixed_in_script2 en Ho n) in Hc. fold sc in Hc.
    rewrite <- Hat.
    apply (script_faithful_sc en Hb 0 n trace Hcoh rho0 frees eq_refl eq_refl (fun _ => Hinit) sc sigma0 (script2_origin en n) Hck) with (c := c); try assumption.
    intros nm' t Hin.
    destruct (script2_origin en n _ Hin) as [s0 k0 Hs0 Hk0 Hc0|st k0 Hst Hk0 Hc0| |]; try discriminate.
    + destruct (is_symbol (sg_expr s0)); [|discriminate]. injection Hc0 as -> ->.
      apply same_val_agree. eapply same_val_trans; [apply (Hdecl _ _ (sg_expr s0) k0 Hin); [apply in_steps in Hk0; lia|now apply (sig_sym_sig en Hb)]|].
      rewrite <- Hat. apply same_val_sym. apply (tau_spec en Hb 0 n trace Hcoh); [assumption|now apply (sig_sym_sig en Hb)].
    + injection Hc0 as -> ->.
      apply same_val_agree. eapply same_val_trans; [apply (Hdecl _ _ (st_sym st) k0 Hin); [apply in_steps in Hk0; lia|now apply (sig_sym_state en Hb)]|].
      rewrite <- Hat. apply same_val_sym. apply (tau_spec en Hb 0 n trace Hcoh); [assumption|now apply (sig_sym_state en Hb)].
  - destruct e; try discriminate. destruct w; try discriminate. destruct p; try discriminate.
    injection Hget as <-. split; reflexivity.
Qed.

(** the system of finding D2 is now handled *)
Lemma ex2_script2 :
  script_check [] (script2 (enc_new ex2_sys ex_nm) 2) = true /\
  script_check [] (script Fixed (enc_new ex2_sys ex_nm) 0 2) = false.
Proof. vm_compute. split; reflexivity. Qed.
