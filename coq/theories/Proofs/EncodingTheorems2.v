(** * Proofs/EncodingTheorems2.v — the second and third repair ([script2], [script3]): same commands
    as [script Fixed], in an order that lets shared init sub-terms read states ([script2]) and that
    defines the step-0 states in the dependency order of their init expressions ([script3]);
    well-formed and faithful.  The lemmas are stated for any arrangement [sts] of the states. *)
From Coq Require Import List Bool Lia.
From Patronus Require Import EvalImpl Encoding SysExec ReachBmc ExprLemmas McBasics ScriptProofs EncodingBasics
     EncodingFaithful EncodingWf EncodingWf2 EncodingOrder AnalysisProofs EncodingNew EncodingNames EncodingTheorems EncodingExamples.
Import ListNotations.
Open Scope N_scope.

Section Script2.
  Variable en : enc.
  Hypothesis Hb : enc_basic en.
  Hypothesis Ho : enc_order en.
  Variable n : nat.
  Let sy := e_sys en.
  Variable sts : list state.
  Hypothesis Hperm : forall st, In st sts <-> In st (s_states sy).
  Let script_ord : list cmd := (init_block en sts ++ unrolls Fixed en 0 0 n)%list.

  Definition sig_cmd (s : sig) (k : N) : cmd :=
    if is_symbol (sg_expr s)
    then DeclareConst (name_at (sg_name s) k) (type_of (sg_expr s))
    else DefineFun (name_at (sg_name s) k) (type_of (sg_expr s)) (expr_in_step en (sg_expr s) k).

  Lemma in_define_signals_iff c k f : In c (define_signals en k f) <-> exists s, In s (e_sigs en) /\ f s = true /\ c = sig_cmd s k.
  Proof.
    unfold define_signals, sig_cmd. rewrite in_flat_map. split.
    - intros (s & Hs & Hc). destruct (f s) eqn:Ef; [|destruct Hc]. destruct Hc as [<-|[]]. eauto.
    - intros (s & Hs & Hf & ->). exists s. split; [assumption|]. rewrite Hf. now left.
  Qed.

  (** the shapes of the commands of [init_states2] *)
  Lemma init_states2_origin c : forall (l : list state) done, (forall st, In st l -> In st (s_states sy)) ->
    In c (init_states2 en done l) -> cmd_origin en 0 n c.
  Proof.
    assert (H0 : In 0 (steps 0 n)) by (apply in_steps; lia).
    induction l as [|st r IH]; intros done Hsub Hin; [destruct Hin|].
    assert (Hst : In st (s_states sy)) by (apply Hsub; now left).
    cbn [init_states2] in Hin. destruct (st_init st) as [v|] eqn:Ei.
    - apply in_app_or in Hin. destruct Hin as [Hin|[<-|Hin]].
      + apply in_define_signals_iff in Hin. destruct Hin as (s & Hs & _ & ->). now apply (OSig en 0 n _ s 0).
      + now apply (OStateInit en 0 n _ st v).
      + apply (IH (v :: done)); [intros; apply Hsub; now right|assumption].
    - destruct Hin as [<-|Hin].
      + apply (OStateDecl en 0 n _ st 0); auto.
      + apply (IH done); [intros; apply Hsub; now right|assumption].
  Qed.

  Lemma script_ord_origin c : In c script_ord -> cmd_origin en 0 n c.
  Proof.
    assert (H0 : In 0 (steps 0 n)) by (apply in_steps; lia).
    unfold script_ord, init_block. rewrite !in_app_iff. intros [[Hin|Hin]|Hin].
    - apply (init_states2_origin c sts []); [apply Hperm|assumption].
    - apply in_define_signals_iff in Hin. destruct Hin as (s & Hs & _ & ->). now apply (OSig en 0 n _ s 0).
    - apply (script_origin en 0 n Fixed). unfold script. apply in_or_app. now right.
  Qed.

  (** every command of [script Fixed] is a command of [script2] *)
  Lemma init_states2_has_sig s : forall (l : list state) done,
    pos (u_init (sg_uses s)) = true -> In s (e_sigs en) ->
    (exists st v, In st l /\ st_init st = Some v /\ needs v s = true) ->
    existsb (fun d => needs d s) done = false ->
    In (sig_cmd s 0) (init_states2 en done l).
  Proof.
    induction l as [|st r IH]; intros done HI Hs (st0 & v0 & Hin & Hi0 & Hn0) Hnd; [destruct Hin|].
    cbn [init_states2]. destruct (st_init st) as [v|] eqn:Ei.
    - destruct (needs v s) eqn:Env.
      + apply in_or_app. left. apply in_define_signals_iff. exists s. split; [assumption|]. split; [|reflexivity].
        now rewrite HI, Env, Hnd.
      + apply in_or_app. right. right. apply IH; try assumption.
        * destruct Hin as [<-|Hin]; [rewrite Ei in Hi0; inversion Hi0; subst; congruence|]. eauto.
        * cbn [existsb]. now rewrite Env, Hnd.
    - right. apply IH; try assumption. destruct Hin as [<-|Hin]; [congruence|]. eauto.
  Qed.

  Lemma init_states2_has_state st : forall (l : list state) done, In st l ->
    In (match st_init st with
        | Some v => DefineFun (state_name_at st 0) (type_of (st_sym st)) (expr_in_step en v 0)
        | None => DeclareConst (state_name_at st 0) (type_of (st_sym st))
        end) (init_states2 en done l).
  Proof.
    induction l as [|st0 r IH]; intros done Hin; [destruct Hin|].
    cbn [init_states2]. destruct Hin as [->|Hin].
    - destruct (st_init st); [apply in_or_app; right; now left|now left].
    - destruct (st_init st0); [apply in_or_app; right; right|right]; now apply IH.
  Qed.

  Lemma fixed_in_script_ord c : In c (script Fixed en 0 n) -> In c script_ord.
  Proof.
    unfold script, script_ord. rewrite !in_app_iff. intros [Hin|Hin]; [left|now right].
    unfold init_at in Hin. unfold init_block. cbn [N.eqb] in Hin. rewrite !in_app_iff in Hin. rewrite in_app_iff.
    destruct Hin as [Hin|[Hin|Hin]].
    - left. apply in_define_signals_iff in Hin. destruct Hin as (s & Hs & HI & ->).
      apply init_states2_has_sig; try assumption; [|reflexivity].
      destruct (eo_init_sub en Ho s Hs HI) as (v & Hv & Hsub).
      unfold init_exprs in Hv. apply in_flat_map in Hv. destruct Hv as (st & Hst & Hv').
      exists st, v. split; [now apply Hperm|]. split; [destruct (st_init st); [destruct Hv' as [<-|[]]; reflexivity|destruct Hv']|].
      unfold needs. now apply mem_In.
    - left. apply in_map_iff in Hin. destruct Hin as (st & <- & Hst). cbn.
      pose proof (init_states2_has_state st sts [] (proj2 (Hperm st) Hst)) as H. destruct (st_init st); exact H.
    - now right.
  Qed.
End Script2.

(** ** the statements for [enc_new] *)
Theorem script_ord_faithful_sys sy nm (sts : list state) (rho0 : env) (frees : list env) (sigma0 : env) :
  sys_wf sy = true -> names_ok (enc_new sy nm) = true -> is_initial sy rho0 ->
  (forall st, In st sts <-> In st (s_states sy)) ->
  let en := enc_new sy nm in
  let n := length frees in
  let sc := (init_block en sts ++ unrolls Fixed en 0 0 n)%list in
  let trace := run_from sy rho0 frees in
  let at_step := fun k => nth (N.to_nat k) trace env0 in
  script_check [] sc = true ->
  (forall nm' t e k, In (DeclareConst nm' t) sc -> k <= N.of_nat n ->
      sig_sym en e k = Some (mk_sym nm' t) -> same_val sigma0 (mk_sym nm' t) (at_step k) e) ->
  forall e k s, observable sy e -> k <= N.of_nat n -> get_signal_at en e k = Some s ->
    same_val (script_eval sigma0 sc) s (at_step k) e.
Proof.
  intros Hwf Hn Hinit Hperm en n sc trace at_step' Hck Hdecl e k s Hobs Hk Hget.
  pose proof (enc_new_basic sy nm Hwf) as Hb. pose proof (enc_new_order sy nm Hwf) as Ho.
  pose proof (names_ok_inj _ Hn) as Hinj. fold en in Hb, Ho, Hinj.
  assert (Hperm' : forall st, In st sts <-> In st (s_states (e_sys en))) by exact Hperm.
  assert (Hks : In k (steps 0 n)) by (apply in_steps; lia).
  assert (Hcoh := coherent sy nm Hwf Hinj 0 n rho0 frees eq_refl (fun _ => Hinit)). fold en trace in Hcoh.
  assert (Hat : forall k0, at_step 0 trace k0 = at_step' k0) by (intros k0; unfold at_step, at_step'; now rewrite N.sub_0_r).
  unfold get_signal_at in Hget. destruct (sig_sym en e k) as [s'|] eqn:Es.
  - injection Hget as <-.
    destruct (observable_covered sy nm Hwf Fixed 0 n rho0 frees eq_refl (fun _ => Hinit) e k s' Hobs Hks Es) as (c & Hc & Hsym).
    apply (fixed_in_script_ord en Ho n sts Hperm') in Hc. fold sc in Hc.
    rewrite <- Hat.
    apply (script_faithful_sc en Hb 0 n trace Hcoh rho0 frees eq_refl eq_refl (fun _ => Hinit) sc sigma0 (script_ord_origin en n sts Hperm') Hck) with (c := c); try assumption.
    intros nm' t Hin.
    destruct (script_ord_origin en n sts Hperm' _ Hin) as [s0 k0 Hs0 Hk0 Hc0|st k0 Hst Hk0 Hc0| |]; try discriminate.
    + destruct (is_symbol (sg_expr s0)); [|discriminate]. injection Hc0 as -> ->.
      apply same_val_agree. eapply same_val_trans; [apply (Hdecl _ _ (sg_expr s0) k0 Hin); [apply in_steps in Hk0; lia|now apply (sig_sym_sig en Hb)]|].
      rewrite <- Hat. apply same_val_sym. apply (tau_spec en Hb 0 n trace Hcoh); [assumption|now apply (sig_sym_sig en Hb)].
    + injection Hc0 as -> ->.
      apply same_val_agree. eapply same_val_trans; [apply (Hdecl _ _ (st_sym st) k0 Hin); [apply in_steps in Hk0; lia|now apply (sig_sym_state en Hb)]|].
      rewrite <- Hat. apply same_val_sym. apply (tau_spec en Hb 0 n trace Hcoh); [assumption|now apply (sig_sym_state en Hb)].
  - destruct e; try discriminate. destruct w; try discriminate. destruct p; try discriminate.
    injection Hget as <-. split; reflexivity.
Qed.

Theorem script2_wf_sys sy nm n :
  sys_wf sy = true -> names_ok (enc_new sy nm) = true -> inits_read_earlier (enc_new sy nm) ->
  script_check [] (script2 (enc_new sy nm) n) = true.
Proof.
  intros Hwf Hn Hre. apply script2_wf; try assumption.
  - now apply enc_new_basic.
  - now apply enc_new_order.
  - now apply names_ok_inj.
Qed.

Theorem script2_faithful_sys sy nm (rho0 : env) (frees : list env) (sigma0 : env) :
  sys_wf sy = true -> names_ok (enc_new sy nm) = true -> is_initial sy rho0 ->
  let en := enc_new sy nm in
  let n := length frees in
  let sc := script2 en n in
  let trace := run_from sy rho0 frees in
  let at_step := fun k => nth (N.to_nat k) trace env0 in
  script_check [] sc = true ->
  (forall nm' t e k, In (DeclareConst nm' t) sc -> k <= N.of_nat n ->
      sig_sym en e k = Some (mk_sym nm' t) -> same_val sigma0 (mk_sym nm' t) (at_step k) e) ->
  forall e k s, observable sy e -> k <= N.of_nat n -> get_signal_at en e k = Some s ->
    same_val (script_eval sigma0 sc) s (at_step k) e.
Proof.
  intros Hwf Hn Hinit. apply (script_ord_faithful_sys sy nm (s_states sy)); try assumption. tauto.
Qed.

(** the system of finding D2 is now handled *)
Lemma ex2_script2 :
  script_check [] (script2 (enc_new ex2_sys ex_nm) 2) = true /\
  script_check [] (script Fixed (enc_new ex2_sys ex_nm) 0 2) = false.
Proof. vm_compute. split; reflexivity. Qed.

(** ** the third repair: states at step 0 in the dependency order of their init expressions *)
Theorem script3_wf en : enc_basic en -> enc_order en -> name_inj en -> acyclic_inits en ->
  forall n, script_check [] (script3 en n) = true.
Proof.
  intros Hb Ho Hn Hac n.
  apply (init_block_script_wf en Hb Ho Hn (init_order en)).
  - apply (init_order_perm en Hb).
  - apply (init_order_nodup en Hb).
  - apply (init_order_acyclic en Hb Hac).
Qed.

Theorem script3_wf_b en : enc_basic en -> enc_order en -> name_inj en -> init_order_complete_b en = true ->
  forall n, script_check [] (script3 en n) = true.
Proof.
  intros Hb Ho Hn Hc n.
  apply (init_block_script_wf en Hb Ho Hn (init_order en)).
  - apply (init_order_perm en Hb).
  - apply (init_order_nodup en Hb).
  - apply (init_order_complete en Hb Hc).
Qed.

Theorem script3_wf_b_sys sy nm n :
  sys_wf sy = true -> names_ok (enc_new sy nm) = true -> init_order_complete_b (enc_new sy nm) = true ->
  script_check [] (script3 (enc_new sy nm) n) = true.
Proof.
  intros Hwf Hn Hc. apply script3_wf_b; try assumption.
  - now apply enc_new_basic.
  - now apply enc_new_order.
  - now apply names_ok_inj.
Qed.

Theorem script3_wf_sys sy nm n :
  sys_wf sy = true -> names_ok (enc_new sy nm) = true -> init_deps_acyclic sy ->
  script_check [] (script3 (enc_new sy nm) n) = true.
Proof.
  intros Hwf Hn Hac. apply script3_wf; try assumption; [| | |now apply init_deps_acyclic_enc].
  - now apply enc_new_basic.
  - now apply enc_new_order.
  - now apply names_ok_inj.
Qed.

(** the systems accepted before are still accepted: reading earlier states only is one way of being acyclic *)
Fixpoint pos_of (y : expr) (l : list state) : nat :=
  match l with
  | [] => O
  | a :: r => if expr_eqb (st_sym a) y then O else S (pos_of y r)
  end.

Lemma pos_of_in y : forall l1 r, In y (map st_sym l1) -> (pos_of y (l1 ++ r) < length l1)%nat.
Proof.
  induction l1 as [|a l1 IH]; intros r Hin; [destruct Hin|]. cbn.
  destruct (expr_eqb (st_sym a) y) eqn:E; [lia|].
  destruct Hin as [Hin|Hin]; [rewrite Hin, expr_eqb_refl in E; discriminate|]. specialize (IH r Hin). lia.
Qed.

Lemma pos_of_first st : forall l1 r, ~ In (st_sym st) (map st_sym l1) -> pos_of (st_sym st) (l1 ++ st :: r) = length l1.
Proof.
  induction l1 as [|a l1 IH]; intros r Hn; cbn.
  - now rewrite expr_eqb_refl.
  - destruct (expr_eqb (st_sym a) (st_sym st)) eqn:E.
    + apply expr_eqb_true in E. exfalso. apply Hn. now left.
    + f_equal. apply IH. intros H. apply Hn. now right.
Qed.

Lemma read_earlier_acyclic en : enc_basic en -> inits_read_earlier en -> init_deps_acyclic (e_sys en).
Proof.
  intros Hb Hre.
  exists (fun st => pos_of (st_sym st) (s_states (e_sys en))).
  intros st e st' Hst Hst' He Hy.
  pose proof (find_state_of en Hb st' Hst') as Hf.
  apply in_split in Hst. destruct Hst as (l1 & l2 & E).
  pose proof (eb_states_nodup en Hb) as Hnd. rewrite E in Hnd |- *.
  pose proof (Hre l1 st l2 e (st_sym st') st' E He Hy Hf) as Hin.
  rewrite map_app in Hnd. cbn [map] in Hnd. apply NoDup_remove_2 in Hnd.
  rewrite pos_of_first by (intros H; apply Hnd; apply in_or_app; now left).
  apply pos_of_in. now apply in_map.
Qed.

Lemma read_earlier_acyclic_sys sy nm :
  sys_wf sy = true -> inits_read_earlier (enc_new sy nm) -> init_deps_acyclic sy.
Proof. intros Hwf Hre. apply (read_earlier_acyclic (enc_new sy nm)); [now apply enc_new_basic|assumption]. Qed.

Theorem script3_faithful_sys sy nm (rho0 : env) (frees : list env) (sigma0 : env) :
  sys_wf sy = true -> names_ok (enc_new sy nm) = true -> is_initial sy rho0 ->
  let en := enc_new sy nm in
  let n := length frees in
  let sc := script3 en n in
  let trace := run_from sy rho0 frees in
  let at_step := fun k => nth (N.to_nat k) trace env0 in
  script_check [] sc = true ->
  (forall nm' t e k, In (DeclareConst nm' t) sc -> k <= N.of_nat n ->
      sig_sym en e k = Some (mk_sym nm' t) -> same_val sigma0 (mk_sym nm' t) (at_step k) e) ->
  forall e k s, observable sy e -> k <= N.of_nat n -> get_signal_at en e k = Some s ->
    same_val (script_eval sigma0 sc) s (at_step k) e.
Proof.
  intros Hwf Hn Hinit. apply (script_ord_faithful_sys sy nm (init_order (enc_new sy nm))); try assumption.
  apply (init_order_perm (enc_new sy nm)). now apply enc_new_basic.
Qed.

(** the system of finding D3 is now handled *)
Lemma ex3_script3 :
  script_check [] (script3 (enc_new ex3_sys ex_nm) 2) = true /\
  script_check [] (script2 (enc_new ex3_sys ex_nm) 2) = false /\
  script_check [] (script Fixed (enc_new ex3_sys ex_nm) 0 2) = false.
Proof. vm_compute. repeat split; reflexivity. Qed.

Lemma ex3_acyclic : sys_wf ex3_sys = true /\ names_ok (enc_new ex3_sys ex_nm) = true /\ init_deps_acyclic ex3_sys.
Proof.
  split; [vm_compute; reflexivity|]. split; [vm_compute; reflexivity|].
  exists (fun st => match st_init st with Some _ => 1%nat | None => 0%nat end).
  intros st e st' Hst Hst' He Hy. cbn in Hst, Hst'.
  destruct Hst as [<-|[<-|[]]]; cbn in He; [|discriminate]. injection He as <-.
  destruct Hst' as [<-|[<-|[]]]; cbn in Hy |- *; [|lia].
  exfalso. vm_compute in Hy. repeat (destruct Hy as [Hy|Hy]; [discriminate|]). exact Hy.
Qed.
