(** * Proofs/SysReplaceRuns.v — [replace_anonymous_inputs_with_zero] at the level of executions:
    the new system IS the original system restricted to executions in which the removed inputs are zero.

    [Z := zero_env removed] maps a valuation to the one in which the removed inputs are zero.
    Every run of the new system, seen through [Z], is the run of the original system from the [Z]-image of
    its start and free choices, with the same initial-state test and the same observations; conversely a run of
    the original system whose start and free choices already have the removed inputs at zero is matched, step
    by step, by the run of the new system from the same start and choices.

    Domain: no removed (anonymous) input is at once a state symbol ([states_kept]); sys_ok. *)
From Coq Require Import Lia List Bool.
From Patronus Require Import SysTransform BVLemmas ExprLemmas EvalProofs ExprEqb SimplifyBuilders SimplifyProofs
     CoiSpec CoiProofs SysTransformProofs.
Import ListNotations.
Open Scope N_scope.

Section Replace.
  Variable sy : sys.
  Let removed := filter is_anonymous (s_inputs sy).
  Let Z := zero_env removed.
  Let sy' := replace_anonymous_inputs_with_zero sy.

  Hypothesis Hok : sys_ok sy = true.
  (** no removed input is a state symbol *)
  Definition states_kept : Prop := forall st, In st (s_states sy) -> mem_expr (st_sym st) removed = false.
  Hypothesis Hkept : states_kept.

  Lemma removed_sym : forall r, In r removed -> is_symbol r = true.
  Proof.
    intros r Hr. apply filter_In in Hr. destruct Hr as [Hr _].
    destruct (sys_ok_parts sy Hok) as (Hi & _). rewrite Forall_forall in Hi. apply (Hi r Hr).
  Qed.

  Lemma sem rho e : ebv rho (subst_zero removed e) = ebv (Z rho) e /\
                    forall i, earr rho (subst_zero removed e) i = earr (Z rho) e i.
  Proof. apply subst_zero_sem. exact removed_sym. Qed.

  (** [Z] is idempotent and compatible with [env_equiv] *)
  Lemma Z_agree s r1 r2 : agree_on s r1 r2 -> agree_on s (Z r1) (Z r2).
  Proof.
    destruct s; cbn [agree_on]; try tauto; unfold Z, zero_env; cbn [rho_bv rho_arr].
    - intros H. destruct (mem_expr _ removed); [reflexivity|exact H].
    - intros H i. destruct (mem_expr _ removed); [reflexivity|apply H].
  Qed.

  Lemma Z_equiv r1 r2 : env_equiv r1 r2 -> env_equiv (Z r1) (Z r2).
  Proof. intros H s. apply Z_agree. apply H. Qed.

  Lemma Z_idem r : env_equiv (Z (Z r)) (Z r).
  Proof.
    intros s. destruct s; cbn [agree_on]; try exact I; unfold Z, zero_env; cbn [rho_bv rho_arr].
    - destruct (mem_expr _ removed); reflexivity.
    - intros i. destruct (mem_expr _ removed); reflexivity.
  Qed.

  Lemma agree_on_trans s a b c : agree_on s a b -> agree_on s b c -> agree_on s a c.
  Proof. destruct s; cbn [agree_on]; try tauto; [congruence|]. intros H1 H2 i. now rewrite H1. Qed.

  (** the states of the new system: same symbols, substituted init/next *)
  Lemma states' : s_states sy' =
    map (fun st => {| st_sym := st_sym st; st_init := option_map (subst_zero removed) (st_init st);
                      st_next := option_map (subst_zero removed) (st_next st) |}) (s_states sy).
  Proof.
    unfold sy'. rewrite replace_anonymous_eq. unfold map_sys. cbn [s_states].
    apply map_ext_in. intros st Hin. f_equal.
    apply subst_zero_kept; [|apply Hkept; exact Hin].
    destruct (sys_ok_parts sy Hok) as (_ & Hst & _). rewrite Forall_forall in Hst.
    destruct (state_ok_parts st (Hst st Hin)) as (Hs & _). exact Hs.
  Qed.

  Lemma bads' : s_bads sy' = map (subst_zero removed) (s_bads sy).
  Proof. unfold sy'. rewrite replace_anonymous_eq. reflexivity. Qed.
  Lemma constraints' : s_constraints sy' = map (subst_zero removed) (s_constraints sy).
  Proof. unfold sy'. rewrite replace_anonymous_eq. reflexivity. Qed.
  Lemma outputs' : s_outputs sy' = map (fun o => (fst o, subst_zero removed (snd o))) (s_outputs sy).
  Proof. unfold sy'. rewrite replace_anonymous_eq. reflexivity. Qed.
  Lemma inputs' : s_inputs sy' = filter (fun i => negb (is_anonymous i)) (s_inputs sy).
  Proof.
    unfold sy'. rewrite replace_anonymous_eq. unfold map_sys. cbn [s_inputs].
    transitivity (map (fun x : expr => x) (filter (fun i => negb (is_anonymous i)) (s_inputs sy))); [|apply map_id].
    apply map_ext_in. intros i Hi.
    apply filter_In in Hi. destruct Hi as [Hi Hn].
    apply subst_zero_kept.
    - destruct (sys_ok_parts sy Hok) as (Hin & _). rewrite Forall_forall in Hin. apply (Hin i Hi).
    - destruct (mem_expr i removed) eqn:M; [|exact M].
      apply mem_expr_In in M. apply filter_In in M. destruct M as [_ M]. rewrite M in Hn. discriminate.
  Qed.

  (** one assignment of a kept symbol, seen through [Z] *)
  Lemma Z_assign acc acc2 s rho e :
    mem_expr s removed = false -> env_equiv (Z acc) acc2 ->
    env_equiv (Z (assign acc s rho (subst_zero removed e))) (assign acc2 s (Z rho) e).
  Proof.
    intros Hs Hacc x. destruct (sem rho e) as [Eb Ea].
    destruct (is_symbol x) eqn:Ex; [|now apply agree_on_nonsym].
    destruct x; try discriminate Ex; clear Ex; cbn [agree_on].
    - specialize (Hacc (BVSymbol name w)). cbn [agree_on] in Hacc.
      destruct s; cbn [assign]; try exact Hacc.
      unfold Z, zero_env in *; cbn [rho_bv upd_bv] in *.
      destruct (mem_expr (BVSymbol name w) removed) eqn:M.
      + destruct (String.eqb name name0 && (w =? w0)) eqn:E; [|exact Hacc].
        apply andb_prop in E. destruct E as [E1 E2]. apply String.eqb_eq in E1. apply N.eqb_eq in E2. subst.
        rewrite M in Hs. discriminate.
      + destruct (String.eqb name name0 && (w =? w0)); [exact Eb|exact Hacc].
    - specialize (Hacc (ArraySymbol name iw dw)). cbn [agree_on] in Hacc.
      destruct s; cbn [assign]; try exact Hacc.
      unfold Z, zero_env in *; cbn [rho_arr upd_arr] in *. intros i.
      destruct (mem_expr (ArraySymbol name iw dw) removed) eqn:M.
      + destruct (String.eqb name name0 && (iw =? iw0) && (dw =? dw0)) eqn:E; [|apply Hacc].
        apply andb_prop in E. destruct E as [E E3]. apply andb_prop in E. destruct E as [E1 E2].
        apply String.eqb_eq in E1. apply N.eqb_eq in E2. apply N.eqb_eq in E3. subst.
        rewrite M in Hs. discriminate.
      + destruct (String.eqb name name0 && (iw =? iw0) && (dw =? dw0)); [apply Ea|apply Hacc].
  Qed.

  (** a step of the new system, seen through [Z], is the step of the original from the [Z]-images *)
  Theorem replace_next_env rho free :
    env_equiv (Z (next_env sy' rho free)) (next_env sy (Z rho) (Z free)).
  Proof.
    unfold next_env. rewrite states'.
    assert (G : forall l acc acc2, (forall st, In st l -> mem_expr (st_sym st) removed = false) ->
              env_equiv (Z acc) acc2 ->
              env_equiv
                (Z (fold_left (fun a st => match st_next st with Some e => assign a (st_sym st) rho e | None => a end)
                      (map (fun st => {| st_sym := st_sym st; st_init := option_map (subst_zero removed) (st_init st);
                                         st_next := option_map (subst_zero removed) (st_next st) |}) l) acc))
                (fold_left (fun a st => match st_next st with Some e => assign a (st_sym st) (Z rho) e | None => a end) l acc2)).
    { induction l as [|st l IH]; intros acc acc2 Hl Hacc; cbn [map fold_left]; [exact Hacc|].
      apply IH; [intros st0 H0; apply Hl; now right|].
      cbn [st_next st_sym]. destruct (st_next st) as [e|]; cbn [option_map]; [|exact Hacc].
      apply Z_assign; [apply Hl; now left|exact Hacc]. }
    apply G; [exact Hkept|apply env_equiv_refl].
  Qed.

  (** observations of the new system under [r] = observations of the original under [Z r] *)
  Lemma replace_holds r e : holds r (subst_zero removed e) = holds (Z r) e.
  Proof. unfold holds. destruct (sem r e) as [-> _]. reflexivity. Qed.

  Theorem replace_constraints_hold r : constraints_hold sy' r = constraints_hold sy (Z r).
  Proof.
    unfold constraints_hold. rewrite constraints'. induction (s_constraints sy) as [|e l IH]; [reflexivity|].
    cbn [map forallb]. now rewrite IH, replace_holds.
  Qed.

  Theorem replace_some_bad r : some_bad sy' r = some_bad sy (Z r).
  Proof.
    unfold some_bad. rewrite bads'. induction (s_bads sy) as [|e l IH]; [reflexivity|].
    cbn [map existsb]. now rewrite IH, replace_holds.
  Qed.

  Theorem replace_outputs r :
    Forall2 (fun o' o => fst o' = fst o /\ ebv r (snd o') = ebv (Z r) (snd o) /\
                         forall i, earr r (snd o') i = earr (Z r) (snd o) i) (s_outputs sy') (s_outputs sy).
  Proof.
    rewrite outputs'. induction (s_outputs sy) as [|o l IH]; cbn [map]; constructor; [|exact IH].
    cbn [fst snd]. split; [reflexivity|]. apply sem.
  Qed.

  (** the same valuations are initial (through [Z]) *)
  Theorem replace_is_initial rho : is_initial sy' rho <-> is_initial sy (Z rho).
  Proof.
    unfold is_initial. rewrite states'. split.
    - intros H st e Hin He.
      specialize (H _ (subst_zero removed e)
                    (in_map (fun st => {| st_sym := st_sym st; st_init := option_map (subst_zero removed) (st_init st);
                                          st_next := option_map (subst_zero removed) (st_next st) |}) _ _ Hin)).
      cbn [st_sym st_init] in H. rewrite He in H. cbn [option_map] in H. specialize (H eq_refl).
      pose proof (Hkept st Hin) as Hk. destruct (sem rho e) as [Eb Ea].
      destruct (st_sym st); cbn [sym_agrees] in *; try exact I; unfold Z, zero_env in *; cbn [rho_bv rho_arr] in *.
      + rewrite Hk. congruence.
      + rewrite Hk. intros i. rewrite H. apply Ea.
    - intros H st' e' Hin He. apply in_map_iff in Hin. destruct Hin as (st & <- & Hin).
      cbn [st_sym st_init] in *. destruct (st_init st) as [e|] eqn:Ei; [|discriminate]. cbn [option_map] in He.
      inversion He; subst e'. specialize (H st e Hin Ei).
      pose proof (Hkept st Hin) as Hk. destruct (sem rho e) as [Eb Ea].
      destruct (st_sym st); cbn [sym_agrees] in *; try exact I; unfold Z, zero_env in *; cbn [rho_bv rho_arr] in *.
      + rewrite Hk in H. congruence.
      + rewrite Hk in H. intros i. rewrite H. symmetry. apply Ea.
  Qed.

  (** [next_env] of the original system respects [env_equiv] *)
  Lemma next_env_equiv rho1 rho2 f1 f2 :
    env_equiv rho1 rho2 -> env_equiv f1 f2 -> env_equiv (next_env sy rho1 f1) (next_env sy rho2 f2).
  Proof.
    intros Hr. unfold next_env. revert f1 f2. induction (s_states sy) as [|st l IH]; intros f1 f2 Hf; cbn [fold_left]; [exact Hf|].
    apply IH. destruct (st_next st) as [e|]; [|exact Hf].
    intros s. apply agree_assign2; [|intros _; apply Hf].
    intros _. apply (env_equiv_value e rho1 rho2 Hr).
  Qed.

  (** whole runs *)
  Theorem replace_run_from : forall frees rho,
    Forall2 (fun r' r => env_equiv (Z r') r) (run_from sy' rho frees) (run_from sy (Z rho) (map Z frees)).
  Proof.
    assert (G : forall frees rho rho2, env_equiv (Z rho) rho2 ->
              Forall2 (fun r' r => env_equiv (Z r') r) (run_from sy' rho frees) (run_from sy rho2 (map Z frees))).
    { induction frees as [|f fs IH]; intros rho rho2 Hq; cbn [run_from map].
      - constructor; [exact Hq|constructor].
      - constructor; [exact Hq|]. apply IH.
        intros s. eapply agree_on_trans; [apply replace_next_env|].
        apply next_env_equiv; [exact Hq|apply env_equiv_refl]. }
    intros frees rho. apply G. apply env_equiv_refl.
  Qed.

  Lemma run_from_equiv : forall frees1 frees2 rho1 rho2,
    env_equiv rho1 rho2 -> Forall2 env_equiv frees1 frees2 ->
    Forall2 env_equiv (run_from sy rho1 frees1) (run_from sy rho2 frees2).
  Proof.
    induction frees1 as [|f fs IH]; intros frees2 rho1 rho2 Hr Hf; inversion Hf; subst; cbn [run_from].
    - constructor; [exact Hr|constructor].
    - constructor; [exact Hr|]. apply IH; [|assumption]. now apply next_env_equiv.
  Qed.

  Lemma env_equiv_trans a b c : env_equiv a b -> env_equiv b c -> env_equiv a c.
  Proof. intros H1 H2 s. eapply agree_on_trans; [apply H1|apply H2]. Qed.

  (** the converse direction: a run of the ORIGINAL system in which the removed inputs are zero (in the start
      valuation and in every free choice) is matched by the run of the new system from the same data *)
  Theorem replace_restriction : forall frees rho,
    env_equiv (Z rho) rho -> Forall (fun f => env_equiv (Z f) f) frees ->
    Forall2 (fun r' r => env_equiv (Z r') r) (run_from sy' rho frees) (run_from sy rho frees).
  Proof.
    intros frees rho Hr Hf.
    pose proof (replace_run_from frees rho) as H1.
    assert (H2 : Forall2 env_equiv (run_from sy (Z rho) (map Z frees)) (run_from sy rho frees)).
    { apply run_from_equiv; [exact Hr|]. clear H1. induction Hf as [|f fs Hf1 _ IH]; cbn [map]; constructor; assumption. }
    revert H1 H2. generalize (run_from sy' rho frees) (run_from sy (Z rho) (map Z frees)) (run_from sy rho frees).
    induction l as [|a l IH]; intros l0 l1 H1 H2; inversion H1; subst; inversion H2; subst; constructor.
    - eapply env_equiv_trans; eassumption.
    - eapply IH; eassumption.
  Qed.

  (** observations of the original system respect [env_equiv] *)
  Lemma holds_equiv r1 r2 e : env_equiv r1 r2 -> holds r1 e = holds r2 e.
  Proof. intros H. unfold holds. destruct (env_equiv_value e r1 r2 H) as [-> _]. reflexivity. Qed.

  Theorem replace_observations r' r : env_equiv (Z r') r ->
    constraints_hold sy' r' = constraints_hold sy r /\ some_bad sy' r' = some_bad sy r /\
    Forall2 (fun o' o => fst o' = fst o /\ ebv r' (snd o') = ebv r (snd o) /\
                         forall i, earr r' (snd o') i = earr r (snd o) i) (s_outputs sy') (s_outputs sy).
  Proof.
    intros Hq. split; [|split].
    - rewrite replace_constraints_hold. unfold constraints_hold.
      induction (s_constraints sy) as [|e l IH]; [reflexivity|]. cbn [forallb]. now rewrite IH, (holds_equiv _ _ e Hq).
    - rewrite replace_some_bad. unfold some_bad.
      induction (s_bads sy) as [|e l IH]; [reflexivity|]. cbn [existsb]. now rewrite IH, (holds_equiv _ _ e Hq).
    - pose proof (replace_outputs r') as Ho. induction Ho as [|o' o l' l (Hn & Hb & Ha) _ IH]; constructor; [|exact IH].
      destruct (env_equiv_value (snd o) _ _ Hq) as [Eb Ea].
      split; [exact Hn|]. split; [congruence|]. intros i. rewrite Ha. apply Ea.
  Qed.
End Replace.
