(** * Proofs/ReachBasics.v — evaluation depends only on the values of the symbols
    an expression mentions, arrays only at the indices below [2^iw]. *)
From Coq Require Import List Bool Lia.
From Patronus Require Import EvalImpl SysExec ReachSpec ExprLemmas BVLemmas EvalProofs McBasics EncodingBasics.
Import ListNotations.
Open Scope N_scope.

Definition agree_r (s : expr) (a b : env) : Prop :=
  match s with
  | BVSymbol n w => rho_bv a n w = rho_bv b n w
  | ArraySymbol n iw dw => forall i, i < 2 ^ iw -> rho_arr a n iw dw i = rho_arr b n iw dw i
  | _ => True
  end.

Lemma forallb_N_ext_bounded : forall n p q, (forall i, i < n -> p i = q i) -> forallb_N n p = forallb_N n q.
Proof.
  intros n p q. unfold forallb_N. induction n as [|n IH] using N.peano_ind; intros H; [reflexivity|].
  rewrite !N.recursion_succ; try reflexivity; try (intros ? ? -> ? ? ->; reflexivity).
  rewrite IH by (intros i Hi; apply H; lia). rewrite (H n) by lia. reflexivity.
Qed.

Section Coincide.
  Variables a b : env.
  Hypothesis Ha : env_wf a.
  Hypothesis Hbw : env_wf b.

  Definition coin (e : expr) : Prop :=
    (forall w, type_of e = TBV w -> ebv a e = ebv b e) /\
    (forall iw dw, type_of e = TArr iw dw -> forall i, i < 2 ^ iw -> earr a e i = earr b e i).

  Ltac use_bv IH Hw Ht := let E := fresh "E" in pose proof (proj1 (IH Hw) _ Ht) as E; rewrite E; clear E.

  Lemma coincidence_r : forall e, wt e = true ->
    (forall s, In s (symbols_of e) -> agree_r s a b) -> coin e.
  Proof.
    induction e as
      [ n w | w v | x IHx by_ w | x IHx by_ w | x IHx hi lo | x IHx w | x IHx w
      | x IHx y IHy | x IHx y IHy | x IHx y IHy | x IHx y IHy w | x IHx y IHy | x IHx y IHy w
      | x IHx y IHy w | x IHx y IHy w | x IHx y IHy w | x IHx y IHy w | x IHx y IHy w
      | x IHx y IHy w | x IHx y IHy w | x IHx y IHy w | x IHx y IHy w
      | x IHx y IHy w | x IHx y IHy w | x IHx y IHy w | x IHx y IHy w | x IHx y IHy w
      | x IHx y IHy w | x IHx y IHy w | x IHx y IHy z IHz
      | n iw dw | x IHx iw dw | x IHx y IHy | x IHx y IHy z IHz | x IHx y IHy z IHz ];
      intros Hwt Hs; cbn [symbols_of] in Hs;
      try (assert (Hsx : forall s, In s (symbols_of x) -> agree_r s a b)
             by (intros s0 H0; apply Hs; rewrite ?in_app_iff; tauto);
           specialize (fun H => IHx H Hsx));
      try (assert (Hsy : forall s, In s (symbols_of y) -> agree_r s a b)
             by (intros s0 H0; apply Hs; rewrite ?in_app_iff; tauto);
           specialize (fun H => IHy H Hsy));
      try (assert (Hsz : forall s, In s (symbols_of z) -> agree_r s a b)
             by (intros s0 H0; apply Hs; rewrite ?in_app_iff; tauto);
           specialize (fun H => IHz H Hsz));
      (split; [intros w0 Ht | intros iw0 dw0 Ht i Hi]); cbn [type_of] in Ht;
      try discriminate Ht; cbn [ebv earr].
    - exact (Hs (BVSymbol n w) (or_introl eq_refl)).
    - reflexivity.
    - apply wt_zext in Hwt. destruct Hwt as (Hw & Hta & _). now use_bv IHx Hw Hta.
    - apply wt_sext in Hwt. destruct Hwt as (Hw & Hta & _). now use_bv IHx Hw Hta.
    - apply wt_slice in Hwt. destruct Hwt as (Hw & we & Hta & _). now use_bv IHx Hw Hta.
    - apply wt_not in Hwt. destruct Hwt as (Hw & Hta). now use_bv IHx Hw Hta.
    - apply wt_neg in Hwt. destruct Hwt as (Hw & Hta). now use_bv IHx Hw Hta.
    - apply wt_eq in Hwt. destruct Hwt as (Hw1 & Hw2 & w' & Hta & Htb). use_bv IHx Hw1 Hta. now use_bv IHy Hw2 Htb.
    - apply wt_implies in Hwt. destruct Hwt as (Hw1 & Hw2 & Hta & Htb). use_bv IHx Hw1 Hta. now use_bv IHy Hw2 Htb.
    - apply wt_ugt in Hwt. destruct Hwt as (Hw1 & Hw2 & w' & Hta & Htb). use_bv IHx Hw1 Hta. now use_bv IHy Hw2 Htb.
    - apply wt_sgt in Hwt. destruct Hwt as (Hw1 & Hw2 & Hta & Htb). use_bv IHx Hw1 Hta. now use_bv IHy Hw2 Htb.
    - apply wt_uge in Hwt. destruct Hwt as (Hw1 & Hw2 & w' & Hta & Htb). use_bv IHx Hw1 Hta. now use_bv IHy Hw2 Htb.
    - apply wt_sge in Hwt. destruct Hwt as (Hw1 & Hw2 & Hta & Htb). use_bv IHx Hw1 Hta. now use_bv IHy Hw2 Htb.
    - apply wt_concat in Hwt. destruct Hwt as (Hw1 & Hw2 & wa & wb & Hta & Htb & _). use_bv IHx Hw1 Hta. now use_bv IHy Hw2 Htb.
    - apply wt_and in Hwt. destruct Hwt as (Hw1 & Hw2 & Hta & Htb). use_bv IHx Hw1 Hta. now use_bv IHy Hw2 Htb.
    - apply wt_or in Hwt. destruct Hwt as (Hw1 & Hw2 & Hta & Htb). use_bv IHx Hw1 Hta. now use_bv IHy Hw2 Htb.
    - apply wt_xor in Hwt. destruct Hwt as (Hw1 & Hw2 & Hta & Htb). use_bv IHx Hw1 Hta. now use_bv IHy Hw2 Htb.
    - apply wt_shl in Hwt. destruct Hwt as (Hw1 & Hw2 & Hta & Htb). use_bv IHx Hw1 Hta. now use_bv IHy Hw2 Htb.
    - apply wt_ashr in Hwt. destruct Hwt as (Hw1 & Hw2 & Hta & Htb). use_bv IHx Hw1 Hta. now use_bv IHy Hw2 Htb.
    - apply wt_lshr in Hwt. destruct Hwt as (Hw1 & Hw2 & Hta & Htb). use_bv IHx Hw1 Hta. now use_bv IHy Hw2 Htb.
    - apply wt_add in Hwt. destruct Hwt as (Hw1 & Hw2 & Hta & Htb). use_bv IHx Hw1 Hta. now use_bv IHy Hw2 Htb.
    - apply wt_mul in Hwt. destruct Hwt as (Hw1 & Hw2 & Hta & Htb). use_bv IHx Hw1 Hta. now use_bv IHy Hw2 Htb.
    - apply wt_sdiv in Hwt. destruct Hwt as (Hw1 & Hw2 & Hta & Htb). use_bv IHx Hw1 Hta. now use_bv IHy Hw2 Htb.
    - apply wt_udiv in Hwt. destruct Hwt as (Hw1 & Hw2 & Hta & Htb). use_bv IHx Hw1 Hta. now use_bv IHy Hw2 Htb.
    - apply wt_smod in Hwt. destruct Hwt as (Hw1 & Hw2 & Hta & Htb). use_bv IHx Hw1 Hta. now use_bv IHy Hw2 Htb.
    - apply wt_srem in Hwt. destruct Hwt as (Hw1 & Hw2 & Hta & Htb). use_bv IHx Hw1 Hta. now use_bv IHy Hw2 Htb.
    - apply wt_urem in Hwt. destruct Hwt as (Hw1 & Hw2 & Hta & Htb). use_bv IHx Hw1 Hta. now use_bv IHy Hw2 Htb.
    - apply wt_sub in Hwt. destruct Hwt as (Hw1 & Hw2 & Hta & Htb). use_bv IHx Hw1 Hta. now use_bv IHy Hw2 Htb.
    - (* read *)
      apply wt_read in Hwt. destruct Hwt as (Hw1 & Hw2 & iw & Hta & Htb). use_bv IHy Hw2 Htb.
      apply (proj2 (IHx Hw1) _ _ Hta). apply (ebv_bound b Hbw y iw Hw2 Htb).
    - (* ite, bit-vector *)
      apply wt_ite in Hwt. destruct Hwt as (Hw1 & Hw2 & Hw3 & Hta & w' & Htb & Htc).
      use_bv IHx Hw1 Hta. destruct (ebv b x =? 1); [now use_bv IHy Hw2 Htb|now use_bv IHz Hw3 Htc].
    - apply wt_ite in Hwt. destruct Hwt as (_ & _ & _ & _ & w' & _ & Htc). congruence.
    - (* array symbol *)
      inversion Ht; subst. exact (Hs (ArraySymbol n iw0 dw0) (or_introl eq_refl) i Hi).
    - (* constant array *)
      apply wt_aconst in Hwt. destruct Hwt as (Hw & Hta & _). now use_bv IHx Hw Hta.
    - (* array equality *)
      apply wt_aeq in Hwt. destruct Hwt as (Hw1 & Hw2 & iw & dw & Hta & Htb). f_equal.
      unfold arr_eqb, index_width. rewrite Hta. apply forallb_N_ext_bounded. intros i Hi.
      rewrite (proj2 (IHx Hw1) _ _ Hta i Hi), (proj2 (IHy Hw2) _ _ Htb i Hi). reflexivity.
    - (* store, as a bit-vector: impossible *)
      apply wt_store in Hwt. destruct Hwt as (_ & _ & _ & iw & dw & Hta & _). congruence.
    - (* store *)
      apply wt_store in Hwt. destruct Hwt as (Hw1 & Hw2 & Hw3 & iw & dw & Hta & Htb & Htc).
      rewrite Hta in Ht. inversion Ht; subst. use_bv IHy Hw2 Htb. use_bv IHz Hw3 Htc.
      unfold arr_store. destruct (i =? ebv b y); [reflexivity|]. now apply (proj2 (IHx Hw1) _ _ Hta).
    - apply wt_aite in Hwt. destruct Hwt as (_ & _ & _ & _ & iw & dw & _ & Htc). congruence.
    - (* array ite *)
      apply wt_aite in Hwt. destruct Hwt as (Hw1 & Hw2 & Hw3 & Hta & iw & dw & Htb & Htc).
      rewrite Htc in Ht. inversion Ht; subst. use_bv IHx Hw1 Hta.
      destruct (ebv b x =? 1); [now apply (proj2 (IHy Hw2) _ _ Htb)|now apply (proj2 (IHz Hw3) _ _ Htc)].
  Qed.
End Coincide.
