(** * Proofs/SimBasics.v — facts about expressions and valuations used by the
    simulator proofs: structural equality decides equality, evaluation depends
    only on the symbols an expression mentions (coincidence), hence respects
    pointwise equality of valuations. *)
From Coq Require Import Lia.
From Patronus Require Import SimSpec.
Open Scope N_scope.

(** ** [expr_eqb] decides equality *)
Lemma expr_eqb_true : forall x y, expr_eqb x y = true -> x = y.
Proof.
  induction x; destruct y; cbn [expr_eqb]; try discriminate; intros H;
    repeat match goal with
           | H : _ && _ = true |- _ => apply andb_true_iff in H; destruct H
           end;
    repeat match goal with
           | H : String.eqb _ _ = true |- _ => apply String.eqb_eq in H
           | H : N.eqb _ _ = true |- _ => apply N.eqb_eq in H
           | IH : forall y, expr_eqb ?a y = true -> ?a = y, H : expr_eqb ?a _ = true |- _ => apply IH in H
           end;
    subst; reflexivity.
Qed.

Lemma expr_eqb_refl : forall x, expr_eqb x x = true.
Proof.
  induction x; cbn [expr_eqb];
    repeat match goal with
           | H : expr_eqb _ _ = true |- _ => rewrite H; clear H
           end;
    rewrite ?String.eqb_refl, ?N.eqb_refl; reflexivity.
Qed.

Lemma expr_eqb_false x y : x <> y -> expr_eqb x y = false.
Proof.
  intros Hne. destruct (expr_eqb x y) eqn:E; [|reflexivity].
  exfalso. apply Hne. now apply expr_eqb_true.
Qed.

Lemma expr_eqb_spec x y : reflect (x = y) (expr_eqb x y).
Proof.
  destruct (expr_eqb x y) eqn:E; constructor.
  - now apply expr_eqb_true.
  - intros ->. rewrite expr_eqb_refl in E. discriminate.
Qed.

Lemma expr_eqb_sym x y : expr_eqb x y = expr_eqb y x.
Proof.
  destruct (expr_eqb_spec x y) as [->|Hne].
  - now rewrite expr_eqb_refl.
  - symmetry. apply expr_eqb_false. congruence.
Qed.

Lemma mem_In k l : mem k l = true <-> In k l.
Proof.
  unfold mem. rewrite existsb_exists. split.
  - intros (x & Hin & E). apply expr_eqb_true in E. now subst.
  - intros Hin. exists k. split; [assumption|apply expr_eqb_refl].
Qed.

Lemma mem_false k l : mem k l = false <-> ~ In k l.
Proof.
  rewrite <- mem_In. destruct (mem k l); split; intros H; try congruence; try (exfalso; apply H; reflexivity).
Qed.

Lemma nodupb_NoDup l : nodupb l = true -> NoDup l.
Proof.
  induction l as [|x r IH]; cbn [nodupb]; intros H; [constructor|].
  apply andb_true_iff in H. destruct H as [Hx Hr]. apply negb_true_iff in Hx.
  constructor; [now apply mem_false|now apply IH].
Qed.

(** ** pointwise equality of valuations *)
Definition env_eq (r1 r2 : env) : Prop :=
  (forall n w, rho_bv r1 n w = rho_bv r2 n w) /\
  (forall n iw dw i, rho_arr r1 n iw dw i = rho_arr r2 n iw dw i).

Lemma env_eq_refl r : env_eq r r.
Proof. split; reflexivity. Qed.

Lemma env_eq_sym r1 r2 : env_eq r1 r2 -> env_eq r2 r1.
Proof. intros [A B]. split; intros; symmetry; auto. Qed.

Lemma env_eq_trans r1 r2 r3 : env_eq r1 r2 -> env_eq r2 r3 -> env_eq r1 r3.
Proof. intros [A B] [C D]. split; intros; [rewrite A; apply C|rewrite B; apply D]. Qed.

(** two valuations give the symbol [s] the same value *)
Definition agree_on (s : expr) (r1 r2 : env) : Prop :=
  match s with
  | BVSymbol n w => rho_bv r1 n w = rho_bv r2 n w
  | ArraySymbol n iw dw => forall i, rho_arr r1 n iw dw i = rho_arr r2 n iw dw i
  | _ => True
  end.

Lemma env_eq_agree r1 r2 s : env_eq r1 r2 -> agree_on s r1 r2.
Proof. intros [A B]. destruct s; cbn [agree_on]; auto. Qed.

Lemma forallb_N_ext n p q : (forall i, p i = q i) -> forallb_N n p = forallb_N n q.
Proof.
  intros H. unfold forallb_N. induction n as [|n IH] using N.peano_ind; [reflexivity|].
  rewrite !N.recursion_succ; try reflexivity;
    try (intros ? ? -> ? ? ->; reflexivity).
  now rewrite IH, H.
Qed.

Lemma arr_eqb_ext iw f g f' g' :
  (forall i, f i = f' i) -> (forall i, g i = g' i) -> arr_eqb iw f g = arr_eqb iw f' g'.
Proof. intros Hf Hg. unfold arr_eqb. apply forallb_N_ext. intros i. now rewrite Hf, Hg. Qed.

(** ** coincidence: evaluation depends only on the symbols mentioned *)
Lemma coincidence r1 r2 : forall e,
  (forall s, In s (symbols e) -> agree_on s r1 r2) ->
  ebv r1 e = ebv r2 e /\ (forall i, earr r1 e i = earr r2 e i).
Proof.
  induction e; cbn [symbols]; intros Hs;
    repeat match goal with
           | IH : (forall s, In s (symbols ?a) -> _) -> _ |- _ =>
               let A := fresh "Hbv" in let B := fresh "Harr" in
               destruct IH as [A B]; [intros s' Hin'; apply Hs; rewrite ?in_app_iff; tauto|]
           end;
    cbn [ebv earr]; split; intros;
    repeat match goal with
           | H : ebv r1 ?a = ebv r2 ?a |- _ => rewrite H; clear H
           end;
    try reflexivity;
    try (match goal with
         | H : forall i, earr r1 ?a i = earr r2 ?a i |- earr r1 ?a _ = earr r2 ?a _ => apply H
         | |- rho_bv r1 ?n ?w = rho_bv r2 ?n ?w => exact (Hs (BVSymbol n w) (or_introl eq_refl))
         | |- rho_arr r1 ?n ?iw ?dw ?i = rho_arr r2 ?n ?iw ?dw ?i => exact (Hs (ArraySymbol n iw dw) (or_introl eq_refl) i)
         | |- b2n (arr_eqb _ _ _) = b2n (arr_eqb _ _ _) => f_equal; apply arr_eqb_ext; assumption
         | |- arr_store _ _ _ _ = arr_store _ _ _ _ => unfold arr_store; destruct (_ =? _); auto
         | |- (if ?c then _ else _) _ = (if ?c then _ else _) _ => destruct c; auto
         end).
Qed.

Lemma ebv_ext r1 r2 e : env_eq r1 r2 -> ebv r1 e = ebv r2 e.
Proof. intros H. apply coincidence. intros s _. now apply env_eq_agree. Qed.

Lemma earr_ext r1 r2 e i : env_eq r1 r2 -> earr r1 e i = earr r2 e i.
Proof. intros H. apply coincidence. intros s _. now apply env_eq_agree. Qed.

(** ** [assign], [init_seq], [next_env] respect pointwise equality *)
Lemma upd_bv_ext r r' n w v : env_eq r r' -> env_eq (upd_bv r n w v) (upd_bv r' n w v).
Proof.
  intros [A B]. split; cbn [upd_bv rho_bv rho_arr]; intros; [|apply B].
  destruct (String.eqb n0 n && (w0 =? w)); [reflexivity|apply A].
Qed.

Lemma upd_arr_ext r r' n iw dw f f' :
  env_eq r r' -> (forall i, f i = f' i) -> env_eq (upd_arr r n iw dw f) (upd_arr r' n iw dw f').
Proof.
  intros [A B] Hf. split; cbn [upd_arr rho_bv rho_arr]; intros; [apply A|].
  destruct (String.eqb n0 n && (iw0 =? iw) && (dw0 =? dw)); [apply Hf|apply B].
Qed.

Lemma assign_ext r r' s src src' e :
  env_eq r r' -> env_eq src src' -> env_eq (assign r s src e) (assign r' s src' e).
Proof.
  intros Hr Hs. destruct s; cbn [assign]; try assumption.
  - rewrite (ebv_ext src src' e Hs). now apply upd_bv_ext.
  - apply upd_arr_ext; [assumption|]. intros i. now apply earr_ext.
Qed.

Lemma init_fold_ext sts : forall r r', env_eq r r' ->
  env_eq (fold_left (fun rho st => match st_init st with
                                   | Some e => assign rho (st_sym st) rho e
                                   | None => rho end) sts r)
         (fold_left (fun rho st => match st_init st with
                                   | Some e => assign rho (st_sym st) rho e
                                   | None => rho end) sts r').
Proof.
  induction sts as [|st sts IH]; intros r r' H; cbn [fold_left]; [assumption|].
  apply IH. destruct (st_init st); [now apply assign_ext|assumption].
Qed.

Lemma next_fold_ext src src' sts : env_eq src src' -> forall r r', env_eq r r' ->
  env_eq (fold_left (fun acc st => match st_next st with
                                   | Some e => assign acc (st_sym st) src e
                                   | None => acc end) sts r)
         (fold_left (fun acc st => match st_next st with
                                   | Some e => assign acc (st_sym st) src' e
                                   | None => acc end) sts r').
Proof.
  intros Hs. induction sts as [|st sts IH]; intros r r' H; cbn [fold_left]; [assumption|].
  apply IH. destruct (st_next st); [now apply assign_ext|assumption].
Qed.
