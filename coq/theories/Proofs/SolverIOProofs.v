(** * Proofs/SolverIOProofs.v — lemmas about Model/SolverIO.v (property C15). *)
From Coq Require Import String Ascii List NArith ZArith Bool Arith Lia.
From Patronus Require Import SolverIO.
Import ListNotations.
Import SIO.
Open Scope string_scope.
Open Scope nat_scope.

(* ------------------------------------------------------------------ strings *)

Lemma app_assoc_s : forall a b c : string, ((a ++ b) ++ c = a ++ (b ++ c))%string.
Proof. induction a as [|x a IH]; intros b c; cbn; [reflexivity | now rewrite IH]. Qed.

Lemma app_empty_r : forall a : string, (a ++ "" = a)%string.
Proof. induction a as [|x a IH]; cbn; [reflexivity | now rewrite IH]. Qed.

Lemma length_app : forall a b : string, String.length (a ++ b) = String.length a + String.length b.
Proof. induction a as [|x a IH]; intros b; cbn; [reflexivity | now rewrite IH]. Qed.

Lemma count_parens_app : forall a b, count_parens (a ++ b) = (count_parens a + count_parens b)%Z.
Proof.
  induction a as [|x a IH]; intros b; cbn [append count_parens]; [lia|].
  rewrite IH. lia.
Qed.

(** presence of an opening parenthesis *)
Fixpoint has_open (s : string) : bool :=
  match s with EmptyString => false | String c r => is_open c || has_open r end.

Lemma has_open_app : forall a b, has_open (a ++ b) = has_open a || has_open b.
Proof. induction a as [|x a IH]; intros b; cbn; [reflexivity | rewrite IH; now rewrite orb_assoc]. Qed.

Lemma count_pos_has_open : forall s, (0 < count_parens s)%Z -> has_open s = true.
Proof.
  induction s as [|c s IH]; cbn [count_parens has_open]; intros H; [lia|].
  destruct (is_open c) eqn:Ho; [reflexivity|]. cbn.
  apply IH. destruct (is_close c); lia.
Qed.

Lemma ws_not_open : forall c, is_ws c = true -> is_open c = false.
Proof.
  intros c H. unfold is_ws, is_open in *.
  destruct (Nat.eqb_spec (nat_of_ascii c) 40) as [E|E]; [|reflexivity].
  rewrite E in H. cbn in H. discriminate.
Qed.

Lemma has_open_trim_start : forall s, has_open (trim_start s) = has_open s.
Proof.
  induction s as [|c s IH]; cbn [trim_start has_open]; [reflexivity|].
  destruct (is_ws c) eqn:W; [|reflexivity].
  rewrite IH, (ws_not_open c W). reflexivity.
Qed.

Lemma has_open_trim_end : forall s, has_open (trim_end s) = has_open s.
Proof.
  induction s as [|c s IH]; cbn [trim_end has_open]; [reflexivity|].
  destruct (is_ws c && is_empty (trim_end s)) eqn:E.
  - apply andb_prop in E. destruct E as [W E].
    rewrite (ws_not_open c W). cbn.
    rewrite <- IH. destruct (trim_end s); [reflexivity | discriminate].
  - cbn [has_open]. now rewrite IH.
Qed.

Lemma has_open_trim : forall s, has_open (trim s) = has_open s.
Proof. intros s. unfold trim. now rewrite has_open_trim_end, has_open_trim_start. Qed.

(** strings made of white space only *)
Fixpoint all_ws (s : string) : bool :=
  match s with EmptyString => true | String c r => is_ws c && all_ws r end.

Lemma trim_start_ws_app : forall p s, all_ws p = true -> trim_start (p ++ s) = trim_start s.
Proof.
  induction p as [|c p IH]; intros s H; cbn in *; [reflexivity|].
  apply andb_prop in H. destruct H as [W H]. rewrite W. now apply IH.
Qed.

Lemma trim_end_all_ws : forall s, all_ws s = true -> trim_end s = "".
Proof.
  induction s as [|c s IH]; intros H; cbn in *; [reflexivity|].
  apply andb_prop in H. destruct H as [W H]. rewrite (IH H), W. reflexivity.
Qed.

(** a string that does not end in white space: [ends_solid s] *)
Fixpoint ends_solid (s : string) : bool :=
  match s with
  | EmptyString => false
  | String c EmptyString => negb (is_ws c)
  | String _ r => ends_solid r
  end.

Lemma trim_end_solid_app : forall s t, ends_solid s = true -> all_ws t = true -> trim_end (s ++ t) = s.
Proof.
  induction s as [|c s IH]; intros t Hs Ht; [discriminate|].
  cbn [append trim_end].
  destruct s as [|d s'].
  - cbn [append]. rewrite (trim_end_all_ws t Ht). cbn in Hs.
    destruct (is_ws c) eqn:W; cbn in *; [discriminate Hs | reflexivity].
  - assert (Hs' : ends_solid (String d s') = true) by exact Hs.
    rewrite (IH t Hs' Ht). cbn [is_empty]. now rewrite andb_false_r.
Qed.

Lemma ends_solid_app : forall a b, ends_solid b = true -> ends_solid (a ++ b) = true.
Proof.
  induction a as [|c a IH]; intros b H; cbn [append]; [exact H|].
  specialize (IH b H). cbn [ends_solid].
  destruct (a ++ b)%string eqn:E; [|exact IH].
  destruct a; destruct b; cbn in E; try discriminate.
Qed.

Lemma stake_app_exact : forall a b, stake (String.length a) (a ++ b) = a.
Proof. induction a as [|c a IH]; intros b; cbn; [reflexivity | now rewrite IH]. Qed.

Lemma length_stake_le : forall n s, String.length (stake n s) <= n.
Proof.
  induction n as [|n IH]; intros s; cbn; [lia|].
  destruct s; cbn; [lia|]. specialize (IH s). lia.
Qed.

Lemma length_slice_le : forall a b s, String.length (slice a b s) <= b - a.
Proof. intros. unfold slice. apply length_stake_le. Qed.

Lemma rfind_quote_suffix : forall m, rfind_quote (m ++ """)") = Some (String.length m).
Proof.
  induction m as [|c m IH]; [reflexivity|].
  cbn [append rfind_quote String.length]. now rewrite IH.
Qed.

(* ------------------------------------------------------------------ read_line bookkeeping *)

Lemma read_line_cases : forall w,
  (exists l r, w_lines w = l :: r /\ read_line w = RLine l (mkW r (w_tail w) (w_waits w) (w_wait_dflt w) (w_writes w) (S (w_reads w))))
  \/ (w_lines w = [] /\ w_tail w = TEof /\ read_line w = RLine "" (mkW [] TEof (w_waits w) (w_wait_dflt w) (w_writes w) (S (w_reads w))))
  \/ (w_lines w = [] /\ w_tail w = TAlive /\ read_line w = RBlock).
Proof.
  intros w. unfold read_line. destruct (w_lines w) as [|l r] eqn:E.
  - destruct (w_tail w); [right; left | right; right]; auto.
  - left. exists l, r. auto.
Qed.

(** potential: reads made so far + lines still unread *)
Definition pot (w : world) : nat := w_reads w + length (w_lines w).

(* ------------------------------------------------------------------ T1: the repaired reader is total *)

Lemma rr_loop_fix_total : forall fuel resp w,
  length (w_lines w) < fuel -> rr_loop Fix fuel resp w <> OutOfFuel.
Proof.
  induction fuel as [|f IH]; intros resp w Hlen; [lia|].
  cbn [rr_loop]. destruct (0 <? count_parens resp)%Z; [|discriminate].
  destruct (read_line_cases w) as [(l & r & El & Er) | [(El & Et & Er) | (El & Et & Er)]]; rewrite Er.
  - destruct (is_empty l); [discriminate|].
    apply IH. cbn. rewrite El in Hlen. cbn in Hlen. lia.
  - cbn. discriminate.
  - discriminate.
Qed.

Lemma read_response_fix_total : forall fuel w,
  length (w_lines w) <= fuel -> read_response Fix fuel w <> OutOfFuel.
Proof.
  intros fuel w Hlen. unfold read_response.
  destruct (read_line_cases w) as [(l & r & El & Er) | [(El & Et & Er) | (El & Et & Er)]]; rewrite Er.
  - match goal with |- context [rr_loop Fix fuel l ?w1] => pose proof (rr_loop_fix_total fuel l w1) as T end.
    cbn in T. rewrite El in Hlen. cbn in Hlen.
    destruct (rr_loop Fix fuel l _) as [resp w2| | | |] eqn:E; try discriminate.
    + destruct (starts_with "(error" (trim_start resp)).
      * destruct (error_msg Fix (trim resp)); discriminate.
      * destruct (try_wait w2) as [[[[] ?]|] ?]; discriminate.
    + exfalso. apply T; [lia | reflexivity].
  - (* end of stream at once: the response is empty, the loop does not run *)
    destruct fuel; cbn; destruct (try_wait _) as [[[[] ?]|] ?]; discriminate.
  - discriminate.
Qed.

(** number of reads: every read either consumes a line or is THE read that sees end of stream *)
Lemma rr_loop_fix_reads : forall fuel resp w,
  match rr_loop Fix fuel resp w with
  | Ok _ w' => pot w' <= pot w
  | Err _ w' => pot w' <= pot w + 1
  | _ => True
  end.
Proof.
  induction fuel as [|f IH]; intros resp w; cbn [rr_loop];
    destruct (0 <? count_parens resp)%Z; try exact I; try lia.
  destruct (read_line_cases w) as [(l & r & El & Er) | [(El & Et & Er) | (El & Et & Er)]]; rewrite Er; try exact I.
  - destruct (is_empty l).
    + unfold pot. cbn. rewrite El. cbn. lia.
    + match goal with |- context [rr_loop Fix f ?x ?w1] => specialize (IH x w1) end.
      destruct (rr_loop Fix f _ _); try exact I;
        unfold pot in *; cbn in IH; rewrite El; cbn; lia.
  - cbn. unfold pot. cbn. rewrite El. cbn. lia.
Qed.

Lemma try_wait_pot : forall w, pot (snd (try_wait w)) = pot w /\ w_lines (snd (try_wait w)) = w_lines w /\ w_tail (snd (try_wait w)) = w_tail w.
Proof. intros w. unfold try_wait. destruct (w_waits w); cbn; auto. Qed.

Lemma read_response_fix_reads : forall fuel w,
  match read_response Fix fuel w with
  | Ok _ w' | Err _ w' => w_reads w' + length (w_lines w') <= w_reads w + length (w_lines w) + 1
  | _ => True
  end.
Proof.
  intros fuel w. unfold read_response.
  destruct (read_line_cases w) as [(l & r & El & Er) | [(El & Et & Er) | (El & Et & Er)]]; rewrite Er; try exact I.
  - match goal with |- context [rr_loop Fix fuel l ?w1] => pose proof (rr_loop_fix_reads fuel l w1) as T; set (w1' := w1) in * end.
    assert (P1 : pot w1' = pot w) by (unfold pot, w1'; cbn; rewrite El; cbn; lia).
    destruct (rr_loop Fix fuel l w1') as [resp w2|e w2| | |]; try exact I.
    + destruct (starts_with "(error" (trim_start resp)).
      * destruct (error_msg Fix (trim resp)); [|exact I]. fold (pot w2) (pot w). lia.
      * pose proof (try_wait_pot w2) as (Q & _ & _).
        destruct (try_wait w2) as [[[[] ?]|] w3]; cbn in Q; fold (pot w3) (pot w); lia.
    + fold (pot w2) (pot w). lia.
  - (* immediate end of stream *)
    set (w1 := mkW [] TEof (w_waits w) (w_wait_dflt w) (w_writes w) (S (w_reads w))).
    assert (E : rr_loop Fix fuel "" w1 = Ok "" w1) by (destruct fuel; reflexivity).
    rewrite E. cbn [starts_with trim_start].
    pose proof (try_wait_pot w1) as (Q & _ & _).
    destruct (try_wait w1) as [[[[] ?]|] w3]; cbn in Q; fold (pot w3) (pot w); unfold pot in *; cbn in *; rewrite El; cbn; lia.
Qed.

(* ------------------------------------------------------------------ T1 refuted for today's reader *)

(** once the stream is at its end with parentheses open, the loop never leaves: whatever the fuel *)
Lemma cur_spin : forall fuel resp w,
  w_lines w = [] -> w_tail w = TEof -> (0 < count_parens resp)%Z ->
  rr_loop Cur fuel resp w = OutOfFuel.
Proof.
  induction fuel as [|f IH]; intros resp w El Et Hc; cbn [rr_loop].
  - apply Z.ltb_lt in Hc. now rewrite Hc.
  - pose proof Hc as Hc'. apply Z.ltb_lt in Hc'. rewrite Hc'.
    unfold read_line. rewrite El, Et.
    apply IH; cbn [w_lines w_tail]; auto.
    rewrite count_parens_app.
    assert (Z0 : count_parens (" " ++ "") = 0%Z) by reflexivity.
    rewrite Z0. lia.
Qed.

Definition spinning_world : world := mkW ["(("] TEof [] None [] 0.

Lemma read_total_refuted_lemma : forall fuel, read_response Cur fuel spinning_world = OutOfFuel.
Proof.
  intros fuel. unfold read_response, spinning_world. cbn [read_line w_lines w_tail w_waits w_wait_dflt w_writes w_reads].
  rewrite cur_spin; reflexivity.
Qed.

(** more generally: any reply that ends (end of stream) while its parentheses are open *)
Lemma cur_spins_on_truncated : forall fuel l w,
  w_lines w = [l] -> w_tail w = TEof -> (0 < count_parens l)%Z ->
  read_response Cur fuel w = OutOfFuel.
Proof.
  intros fuel l w El Et Hc. unfold read_response, read_line. rewrite El.
  rewrite cur_spin; cbn; auto.
Qed.
