(** * Proofs/SolverIOProofs.v — lemmas about Model/SolverIO.v (property C15). *)
From Coq Require Import String Ascii List NArith ZArith Bool Arith Lia.
From Patronus Require Import SolverIO.
Import ListNotations.
Import SIO.
Open Scope string_scope.
Open Scope nat_scope.

(* ------------------------------------------------------------------ strings *)

Lemma app_assoc_s : forall a b c : string, ((a ++ b) ++ c = a ++ (b ++ c))%string.
Proof. induction a as [|x a IH]; intros b c; cbn; [reflexivity | now rewrite IH]. Qed.

Lemma app_empty_r : forall a : string, (a ++ "" = a)%string.
Proof. induction a as [|x a IH]; cbn; [reflexivity | now rewrite IH]. Qed.

Lemma length_app : forall a b : string, String.length (a ++ b) = String.length a + String.length b.
Proof. induction a as [|x a IH]; intros b; cbn; [reflexivity | now rewrite IH]. Qed.

Lemma count_parens_app : forall a b, count_parens (a ++ b) = (count_parens a + count_parens b)%Z.
Proof.
  induction a as [|x a IH]; intros b; cbn [append count_parens]; [lia|].
  rewrite IH. lia.
Qed.

(** presence of an opening parenthesis *)
Fixpoint has_open (s : string) : bool :=
  match s with EmptyString => false | String c r => is_open c || has_open r end.

Lemma has_open_app : forall a b, has_open (a ++ b) = has_open a || has_open b.
Proof. induction a as [|x a IH]; intros b; cbn; [reflexivity | rewrite IH; now rewrite orb_assoc]. Qed.

Lemma count_pos_has_open : forall s, (0 < count_parens s)%Z -> has_open s = true.
Proof.
  induction s as [|c s IH]; cbn [count_parens has_open]; intros H; [lia|].
  destruct (is_open c) eqn:Ho; [reflexivity|]. cbn.
  apply IH. destruct (is_close c); lia.
Qed.

Lemma aware_pos_has_open : forall s a b, (0 < count_aware_from a b s)%Z -> has_open s = true.
Proof.
  induction s as [|c s IH]; intros a b H; cbn [count_aware_from has_open] in *; [lia|].
  destruct (is_open c) eqn:Ho; [reflexivity|]. cbn [orb].
  destruct (is_quote c && negb b); [eapply IH; eauto|].
  destruct (is_bar c && negb a); [eapply IH; eauto|].
  cbn [andb] in H.
  destruct (is_close c && negb a && negb b); eapply IH with (a := a) (b := b); lia.
Qed.

Lemma count_v_pos_has_open : forall v s, (0 < count_v v s)%Z -> has_open s = true.
Proof. intros [| |] s H; [apply count_pos_has_open | eapply aware_pos_has_open | eapply aware_pos_has_open]; exact H. Qed.

(** the variants that have the repairs of read_response ([Fix] and [Fix2]) *)
Definition repaired (v : variant) : bool := match v with Cur => false | Fix | Fix2 => true end.

(** joining a line never removes an opening parenthesis *)
Lemma has_open_joined : forall v resp l, has_open resp = true -> has_open (joined v resp l) = true.
Proof. intros [| |] resp l H; cbn [joined]; rewrite has_open_app, H; reflexivity. Qed.

Lemma ws_not_open : forall c, is_ws c = true -> is_open c = false.
Proof.
  intros c H. unfold is_ws, is_open in *.
  destruct (Nat.eqb_spec (nat_of_ascii c) 40) as [E|E]; [|reflexivity].
  rewrite E in H. cbn in H. discriminate.
Qed.

Lemma has_open_trim_start : forall s, has_open (trim_start s) = has_open s.
Proof.
  induction s as [|c s IH]; cbn [trim_start has_open]; [reflexivity|].
  destruct (is_ws c) eqn:W; [|reflexivity].
  rewrite IH, (ws_not_open c W). reflexivity.
Qed.

Lemma has_open_trim_end : forall s, has_open (trim_end s) = has_open s.
Proof.
  induction s as [|c s IH]; cbn [trim_end has_open]; [reflexivity|].
  destruct (is_ws c && is_empty (trim_end s)) eqn:E.
  - apply andb_prop in E. destruct E as [W E].
    rewrite (ws_not_open c W). cbn.
    rewrite <- IH. destruct (trim_end s); [reflexivity | discriminate].
  - cbn [has_open]. now rewrite IH.
Qed.

Lemma has_open_trim : forall s, has_open (trim s) = has_open s.
Proof. intros s. unfold trim. now rewrite has_open_trim_end, has_open_trim_start. Qed.

(** strings made of white space only *)
Fixpoint all_ws (s : string) : bool :=
  match s with EmptyString => true | String c r => is_ws c && all_ws r end.

Lemma trim_start_ws_app : forall p s, all_ws p = true -> trim_start (p ++ s) = trim_start s.
Proof.
  induction p as [|c p IH]; intros s H; cbn in *; [reflexivity|].
  apply andb_prop in H. destruct H as [W H]. rewrite W. now apply IH.
Qed.

Lemma trim_end_all_ws : forall s, all_ws s = true -> trim_end s = "".
Proof.
  induction s as [|c s IH]; intros H; cbn in *; [reflexivity|].
  apply andb_prop in H. destruct H as [W H]. rewrite (IH H), W. reflexivity.
Qed.

(** a string that does not end in white space: [ends_solid s] *)
Fixpoint ends_solid (s : string) : bool :=
  match s with
  | EmptyString => false
  | String c EmptyString => negb (is_ws c)
  | String _ r => ends_solid r
  end.

Lemma trim_end_solid_app : forall s t, ends_solid s = true -> all_ws t = true -> trim_end (s ++ t) = s.
Proof.
  induction s as [|c s IH]; intros t Hs Ht; [discriminate|].
  cbn [append trim_end].
  destruct s as [|d s'].
  - cbn [append]. rewrite (trim_end_all_ws t Ht). cbn in Hs.
    destruct (is_ws c) eqn:W; cbn in *; [discriminate Hs | reflexivity].
  - assert (Hs' : ends_solid (String d s') = true) by exact Hs.
    rewrite (IH t Hs' Ht). cbn [is_empty]. now rewrite andb_false_r.
Qed.

Lemma ends_solid_app : forall a b, ends_solid b = true -> ends_solid (a ++ b) = true.
Proof.
  induction a as [|c a IH]; intros b H; cbn [append]; [exact H|].
  specialize (IH b H). cbn [ends_solid].
  destruct (a ++ b)%string eqn:E; [|exact IH].
  destruct a; destruct b; cbn in E; try discriminate.
Qed.

Lemma stake_app_exact : forall a b, stake (String.length a) (a ++ b) = a.
Proof. induction a as [|c a IH]; intros b; cbn; [reflexivity | now rewrite IH]. Qed.

Lemma length_stake_le : forall n s, String.length (stake n s) <= n.
Proof.
  induction n as [|n IH]; intros s; cbn; [lia|].
  destruct s; cbn; [lia|]. specialize (IH s). lia.
Qed.

Lemma length_slice_le : forall a b s, String.length (slice a b s) <= b - a.
Proof. intros. unfold slice. apply length_stake_le. Qed.

Lemma rfind_quote_suffix : forall m, rfind_quote (m ++ """)") = Some (String.length m).
Proof.
  induction m as [|c m IH]; [reflexivity|].
  cbn [append rfind_quote String.length]. now rewrite IH.
Qed.

(* ------------------------------------------------------------------ read_line bookkeeping *)

Lemma read_line_cases : forall w,
  (exists l r, w_lines w = l :: r /\ read_line w = RLine l (mkW r (w_tail w) (w_waits w) (w_wait_dflt w) (w_writes w) (S (w_reads w))))
  \/ (w_lines w = [] /\ w_tail w = TEof /\ read_line w = RLine "" (mkW [] TEof (w_waits w) (w_wait_dflt w) (w_writes w) (S (w_reads w))))
  \/ (w_lines w = [] /\ w_tail w = TAlive /\ read_line w = RBlock).
Proof.
  intros w. unfold read_line. destruct (w_lines w) as [|l r] eqn:E.
  - destruct (w_tail w); [right; left | right; right]; auto.
  - left. exists l, r. auto.
Qed.

(** potential: reads made so far + lines still unread *)
Definition pot (w : world) : nat := w_reads w + length (w_lines w).

(* ------------------------------------------------------------------ T1: the repaired reader is total *)

Lemma rr_loop_rep_total : forall v fuel resp w,
  repaired v = true -> length (w_lines w) < fuel -> rr_loop v fuel resp w <> OutOfFuel.
Proof.
  intros v fuel. induction fuel as [|f IH]; intros resp w Hr Hlen; [lia|].
  cbn [rr_loop]. destruct (0 <? count_v v resp)%Z; [|discriminate].
  destruct (read_line_cases w) as [(l & r & El & Er) | [(El & Et & Er) | (El & Et & Er)]]; rewrite Er.
  - destruct v; [discriminate Hr | |]; cbv iota;
      (destruct (is_empty l); [discriminate|]; apply IH; [reflexivity|]; cbn; rewrite El in Hlen; cbn in Hlen; lia).
  - destruct v; [discriminate Hr | |]; cbn; discriminate.
  - discriminate.
Qed.

Lemma rr_loop_fix_total : forall fuel resp w,
  length (w_lines w) < fuel -> rr_loop Fix fuel resp w <> OutOfFuel.
Proof. intros fuel resp w. now apply rr_loop_rep_total. Qed.

Lemma read_response_rep_total : forall v fuel w,
  repaired v = true -> length (w_lines w) <= fuel -> read_response v fuel w <> OutOfFuel.
Proof.
  intros v fuel w Hr Hlen. unfold read_response.
  destruct (read_line_cases w) as [(l & r & El & Er) | [(El & Et & Er) | (El & Et & Er)]]; rewrite Er.
  - match goal with |- context [rr_loop v fuel l ?w1] => pose proof (rr_loop_rep_total v fuel l w1 Hr) as T end.
    cbn in T. rewrite El in Hlen. cbn in Hlen.
    destruct (rr_loop v fuel l _) as [resp w2| | | |] eqn:E; try discriminate.
    + destruct (starts_with "(error" (trim_start resp)).
      * destruct (error_msg v (trim resp)); discriminate.
      * destruct (try_wait w2) as [[[[] ?]|] ?]; discriminate.
    + exfalso. apply T; [lia | reflexivity].
  - (* end of stream at once: the response is empty, the loop does not run *)
    destruct v; [discriminate Hr | |]; (destruct fuel; cbn; destruct (try_wait _) as [[[[] ?]|] ?]; discriminate).
  - discriminate.
Qed.

Lemma read_response_fix_total : forall fuel w,
  length (w_lines w) <= fuel -> read_response Fix fuel w <> OutOfFuel.
Proof. intros fuel w. now apply read_response_rep_total. Qed.

(** number of reads: every read either consumes a line or is THE read that sees end of stream *)
Lemma rr_loop_rep_reads : forall v fuel resp w,
  repaired v = true ->
  match rr_loop v fuel resp w with
  | Ok _ w' => pot w' <= pot w
  | Err _ w' => pot w' <= pot w + 1
  | _ => True
  end.
Proof.
  intros v fuel. induction fuel as [|f IH]; intros resp w Hr; cbn [rr_loop];
    destruct (0 <? count_v _ resp)%Z; try exact I; try lia.
  destruct (read_line_cases w) as [(l & r & El & Er) | [(El & Et & Er) | (El & Et & Er)]]; rewrite Er; try exact I.
  - assert (G : match (if is_empty l then Err ESolverDead (mkW r (w_tail w) (w_waits w) (w_wait_dflt w) (w_writes w) (S (w_reads w)))
                       else rr_loop v f (joined v resp l) (mkW r (w_tail w) (w_waits w) (w_wait_dflt w) (w_writes w) (S (w_reads w)))) with
                | Ok _ w' => pot w' <= pot w
                | Err _ w' => pot w' <= pot w + 1
                | _ => True
                end).
    { destruct (is_empty l).
      + unfold pot. cbn. rewrite El. cbn. lia.
      + match goal with |- context [rr_loop v f ?x ?w1] => specialize (IH x w1 Hr) end.
        destruct (rr_loop v f _ _); try exact I;
          unfold pot in *; cbn in IH; rewrite El; cbn; lia. }
    destruct v; [discriminate Hr | exact G | exact G].
  - destruct v; [discriminate Hr | |]; (cbn; unfold pot; cbn; rewrite El; cbn; lia).
Qed.

Lemma rr_loop_fix_reads : forall fuel resp w,
  match rr_loop Fix fuel resp w with
  | Ok _ w' => pot w' <= pot w
  | Err _ w' => pot w' <= pot w + 1
  | _ => True
  end.
Proof. intros fuel resp w. now apply rr_loop_rep_reads. Qed.

Lemma try_wait_pot : forall w, pot (snd (try_wait w)) = pot w /\ w_lines (snd (try_wait w)) = w_lines w /\ w_tail (snd (try_wait w)) = w_tail w.
Proof. intros w. unfold try_wait. destruct (w_waits w); cbn; auto. Qed.

Lemma read_response_rep_reads : forall v fuel w,
  repaired v = true ->
  match read_response v fuel w with
  | Ok _ w' | Err _ w' => w_reads w' + length (w_lines w') <= w_reads w + length (w_lines w) + 1
  | _ => True
  end.
Proof.
  intros v fuel w Hr. unfold read_response.
  destruct (read_line_cases w) as [(l & r & El & Er) | [(El & Et & Er) | (El & Et & Er)]]; rewrite Er; try exact I.
  - match goal with |- context [rr_loop v fuel l ?w1] => pose proof (rr_loop_rep_reads v fuel l w1 Hr) as T; set (w1' := w1) in * end.
    assert (P1 : pot w1' = pot w) by (unfold pot, w1'; cbn; rewrite El; cbn; lia).
    destruct (rr_loop v fuel l w1') as [resp w2|e w2| | |]; try exact I.
    + destruct (starts_with "(error" (trim_start resp)).
      * destruct (error_msg v (trim resp)); [|exact I]. fold (pot w2) (pot w). lia.
      * pose proof (try_wait_pot w2) as (Q & _ & _).
        destruct (try_wait w2) as [[[[] ?]|] w3]; cbn in Q; fold (pot w3) (pot w); lia.
    + fold (pot w2) (pot w). lia.
  - (* immediate end of stream *)
    set (w1 := mkW [] TEof (w_waits w) (w_wait_dflt w) (w_writes w) (S (w_reads w))).
    assert (E : rr_loop v fuel "" w1 = Ok "" w1) by (destruct v; destruct fuel; reflexivity).
    rewrite E. cbn [starts_with trim_start].
    pose proof (try_wait_pot w1) as (Q & _ & _).
    destruct (try_wait w1) as [[[[] ?]|] w3]; cbn in Q; fold (pot w3) (pot w); unfold pot in *; cbn in *; rewrite El; cbn; lia.
Qed.

Lemma read_response_fix_reads : forall fuel w,
  match read_response Fix fuel w with
  | Ok _ w' | Err _ w' => w_reads w' + length (w_lines w') <= w_reads w + length (w_lines w) + 1
  | _ => True
  end.
Proof. intros fuel w. now apply read_response_rep_reads. Qed.

(* ------------------------------------------------------------------ T1 refuted for today's reader *)

(** once the stream is at its end with parentheses open, the loop never leaves: whatever the fuel *)
Lemma cur_spin : forall fuel resp w,
  w_lines w = [] -> w_tail w = TEof -> (0 < count_parens resp)%Z ->
  rr_loop Cur fuel resp w = OutOfFuel.
Proof.
  induction fuel as [|f IH]; intros resp w El Et Hc; cbn [rr_loop count_v].
  - apply Z.ltb_lt in Hc. now rewrite Hc.
  - pose proof Hc as Hc'. apply Z.ltb_lt in Hc'. rewrite Hc'.
    unfold read_line. rewrite El, Et.
    apply IH; cbn [w_lines w_tail]; auto.
    cbn [joined]. rewrite count_parens_app.
    assert (Z0 : count_parens (" " ++ "") = 0%Z) by reflexivity.
    rewrite Z0. lia.
Qed.

Definition spinning_world : world := mkW ["(("] TEof [] None [] 0.

Lemma read_total_refuted_lemma : forall fuel, read_response Cur fuel spinning_world = OutOfFuel.
Proof.
  intros fuel. unfold read_response, spinning_world. cbn [read_line w_lines w_tail w_waits w_wait_dflt w_writes w_reads].
  rewrite cur_spin; reflexivity.
Qed.

(** more generally: any reply that ends (end of stream) while its parentheses are open *)
Lemma cur_spins_on_truncated : forall fuel l w,
  w_lines w = [l] -> w_tail w = TEof -> (0 < count_parens l)%Z ->
  read_response Cur fuel w = OutOfFuel.
Proof.
  intros fuel l w El Et Hc. unfold read_response, read_line. rewrite El.
  rewrite cur_spin; cbn; auto.
Qed.

(* ------------------------------------------------------------------ T2: sat/unsat only for an exact line *)

(** the loop either returns its argument untouched, or something that contains '(' *)
Lemma rr_loop_ok_inv : forall v fuel resp w r w',
  rr_loop v fuel resp w = Ok r w' ->
  (r = resp /\ w' = w) \/ has_open r = true.
Proof.
  intros v fuel. induction fuel as [|f IH]; intros resp w r w' H; cbn [rr_loop] in H.
  - destruct (0 <? count_v v resp)%Z; [discriminate|]. injection H as <- <-. auto.
  - destruct (0 <? count_v v resp)%Z eqn:Hc.
    + right. apply Z.ltb_lt in Hc. apply count_v_pos_has_open in Hc.
      assert (G : forall x w1, rr_loop v f (joined v resp x) w1 = Ok r w' -> has_open r = true).
      { intros x w1 Hx. destruct (IH _ _ _ _ Hx) as [[-> _]|Ho]; [|exact Ho].
        apply has_open_joined. exact Hc. }
      destruct (read_line w) as [l w1|]; [|discriminate].
      destruct v.
      * eapply G; eauto.
      * destruct (is_empty l); [discriminate|]. eapply G; eauto.
      * destruct (is_empty l); [discriminate|]. eapply G; eauto.
    + injection H as <- <-. auto.
Qed.

Lemma try_wait_lines : forall w o w', try_wait w = (o, w') -> w_lines w' = w_lines w /\ w_reads w' = w_reads w.
Proof. intros w o w'. unfold try_wait. destruct (w_waits w); intros H; injection H as <- <-; cbn; auto. Qed.

(** a successful read whose text has no '(' consumed exactly one line, and that line is the text *)
Lemma read_response_plain_inv : forall v fuel w resp w',
  read_response v fuel w = Ok resp w' -> has_open resp = false ->
  (exists rest, w_lines w = resp :: rest /\ w_lines w' = rest /\ w_reads w' = S (w_reads w))
  \/ (w_lines w = [] /\ w_tail w = TEof /\ resp = "").
Proof.
  intros v fuel w resp w' H Hno. unfold read_response in H.
  destruct (read_line_cases w) as [(l & r & El & Er) | [(El & Et & Er) | (El & Et & Er)]]; rewrite Er in H; [| |discriminate].
  - destruct (rr_loop v fuel l _) as [resp1 w2| | | |] eqn:EL; try discriminate.
    destruct (starts_with "(error" (trim_start resp1)).
    { destruct (error_msg v (trim resp1)); discriminate. }
    destruct (try_wait w2) as [o w3] eqn:EW.
    assert (resp1 = resp /\ w3 = w') as [-> ->].
    { destruct o as [[[] ?]|]; try discriminate; injection H as <- <-; auto. }
    destruct (rr_loop_ok_inv _ _ _ _ _ _ EL) as [[-> ->]|Ho]; [|congruence].
    left. exists r. apply try_wait_lines in EW. cbn in EW. destruct EW as [-> ->]. auto.
  - right.
    destruct (rr_loop v fuel "" _) as [resp1 w2| | | |] eqn:EL; try discriminate.
    assert (resp1 = "") as ->.
    { destruct v; destruct fuel; cbn in EL; injection EL as <- _; reflexivity. }
    cbn [starts_with trim_start] in H.
    destruct (try_wait w2) as [[[[] ?]|] w3]; try discriminate; injection H as <- _; auto.
Qed.

Lemma eqb_sat_no_open : forall t, (String.eqb t "sat" = true \/ String.eqb t "unsat" = true) -> has_open t = false.
Proof. intros t [H|H]; apply String.eqb_eq in H; subst; reflexivity. Qed.

Lemma sat_only_on_exact_lemma : forall v fuel w a w',
  read_sat_response v fuel w = Ok a w' ->
  exists l rest, w_lines w = l :: rest /\ w_lines w' = rest /\ w_reads w' = S (w_reads w) /\
                 ((a = Sat /\ trim l = "sat") \/ (a = Unsat /\ trim l = "unsat")).
Proof.
  intros v fuel w a w' H. unfold read_sat_response in H.
  destruct (read_response v fuel w) as [resp w1| | | |] eqn:ER; try discriminate.
  assert (Hno : has_open resp = false).
  { rewrite <- has_open_trim. apply eqb_sat_no_open.
    destruct (String.eqb (trim resp) "sat"); [auto|].
    destruct (String.eqb (trim resp) "unsat"); [auto | discriminate]. }
  destruct (read_response_plain_inv _ _ _ _ _ ER Hno) as [(rest & E1 & E2 & E3) | (E1 & E2 & ->)].
  - exists resp, rest.
    destruct (String.eqb (trim resp) "sat") eqn:S1.
    + injection H as <- <-. apply String.eqb_eq in S1. auto 6.
    + destruct (String.eqb (trim resp) "unsat") eqn:S2; [|discriminate].
      injection H as <- <-. apply String.eqb_eq in S2. auto 6.
  - cbn in H. discriminate.
Qed.

Lemma never_unknown_lemma : forall v fuel w w', read_sat_response v fuel w <> Ok Unknown w'.
Proof.
  intros v fuel w w' H. apply sat_only_on_exact_lemma in H.
  destruct H as (l & rest & _ & _ & _ & [[H _]|[H _]]); discriminate.
Qed.

(* ------------------------------------------------------------------ T3: error messages *)

(** the reply `(error "msg")` *)
Definition error_reply (msg : string) : string := "(error """ ++ msg ++ """)".

Lemma error_reply_solid : forall msg, ends_solid (error_reply msg) = true.
Proof. intros msg. unfold error_reply. rewrite <- app_assoc_s. apply ends_solid_app. reflexivity. Qed.

Lemma trim_error_reply : forall pre post msg,
  all_ws pre = true -> all_ws post = true ->
  trim_start (pre ++ error_reply msg ++ post) = error_reply msg ++ post
  /\ trim (pre ++ error_reply msg ++ post) = error_reply msg.
Proof.
  intros pre post msg Hp Hq.
  assert (T : trim_start (pre ++ error_reply msg ++ post) = error_reply msg ++ post).
  { rewrite trim_start_ws_app by exact Hp. reflexivity. }
  split; [exact T|]. unfold trim. rewrite T.
  apply trim_end_solid_app; [apply error_reply_solid | exact Hq].
Qed.

Lemma count_error_reply : forall pre post msg,
  all_ws pre = true -> all_ws post = true ->
  count_parens (pre ++ error_reply msg ++ post) = count_parens msg.
Proof.
  intros pre post msg Hp Hq.
  assert (W : forall s, all_ws s = true -> count_parens s = 0%Z).
  { induction s as [|c s IH]; intros H; [reflexivity|]. cbn in H. apply andb_prop in H. destruct H as [Wc H].
    cbn [count_parens]. rewrite (IH H), (ws_not_open c Wc).
    assert (is_close c = false) as ->.
    { unfold is_ws, is_close in *. destruct (Nat.eqb_spec (nat_of_ascii c) 41) as [E|E]; [|reflexivity].
      rewrite E in Wc. discriminate. }
    reflexivity. }
  unfold error_reply. rewrite !count_parens_app, (W pre Hp), (W post Hq).
  change (count_parens "(error """) with 1%Z. change (count_parens """)") with (-1)%Z. lia.
Qed.

(** string-aware count of an error reply *)
Fixpoint has_quote (s : string) : bool :=
  match s with EmptyString => false | String c r => is_quote c || has_quote r end.

Lemma ws_not_special : forall c, is_ws c = true -> is_quote c = false /\ is_bar c = false /\ is_open c = false /\ is_close c = false.
Proof.
  intros c H. unfold is_ws, is_quote, is_bar, is_open, is_close in *.
  repeat split.
  - destruct (Nat.eqb_spec (nat_of_ascii c) 34) as [E|E]; [rewrite E in H; discriminate | reflexivity].
  - destruct (Nat.eqb_spec (nat_of_ascii c) 124) as [E|E]; [rewrite E in H; discriminate | reflexivity].
  - destruct (Nat.eqb_spec (nat_of_ascii c) 40) as [E|E]; [rewrite E in H; discriminate | reflexivity].
  - destruct (Nat.eqb_spec (nat_of_ascii c) 41) as [E|E]; [rewrite E in H; discriminate | reflexivity].
Qed.

Lemma aware_ws_app : forall p a b s, all_ws p = true -> count_aware_from a b (p ++ s) = count_aware_from a b s.
Proof.
  induction p as [|c p IH]; intros a b s H; [reflexivity|].
  cbn [all_ws] in H. apply andb_prop in H. destruct H as [W H].
  destruct (ws_not_special c W) as (Q & B & O & C).
  cbn [append count_aware_from]. rewrite Q, B, O, C. cbn [andb]. now apply IH.
Qed.

Lemma aware_all_ws : forall p a b, all_ws p = true -> count_aware_from a b p = 0%Z.
Proof. intros p a b H. rewrite <- (app_empty_r p). rewrite aware_ws_app by exact H. reflexivity. Qed.

Lemma aware_in_string : forall m r, has_quote m = false ->
  count_aware_from true false (m ++ r) = count_aware_from true false r.
Proof.
  induction m as [|c m IH]; intros r H; [reflexivity|].
  cbn [has_quote] in H. apply orb_false_elim in H. destruct H as [Q H].
  cbn [append count_aware_from]. rewrite Q. cbn [andb negb]. rewrite !andb_false_r. cbn [andb]. now apply IH.
Qed.

Lemma aware_error_prefix : forall r, count_aware_from false false ("(error """ ++ r) = (1 + count_aware_from true false r)%Z.
Proof. intros r. reflexivity. Qed.

Lemma aware_error_suffix : forall r, count_aware_from true false (""")" ++ r) = ((-1) + count_aware_from false false r)%Z.
Proof. intros r. reflexivity. Qed.

(** a message without a double quote (parentheses and bars allowed) never leaves the reply open *)
Lemma aware_error_reply_plain : forall pre post msg,
  all_ws pre = true -> all_ws post = true -> has_quote msg = false ->
  count_parens_aware (pre ++ error_reply msg ++ post) = 0%Z.
Proof.
  intros pre post msg Hp Hq Hm. unfold count_parens_aware, error_reply.
  rewrite aware_ws_app by exact Hp.
  rewrite !app_assoc_s. rewrite aware_error_prefix.
  rewrite aware_in_string by exact Hm.
  rewrite aware_error_suffix. rewrite aware_all_ws by exact Hq. reflexivity.
Qed.

Lemma error_msg_fix_reply : forall msg, error_msg_fix (error_reply msg) = Some msg.
Proof.
  intros msg. unfold error_msg_fix, error_reply.
  change (find_quote ("(error """ ++ msg ++ """)")) with (Some 7).
  assert (R : rfind_quote ("(error """ ++ msg ++ """)") = Some (8 + String.length msg)).
  { cbn [append rfind_quote]. rewrite rfind_quote_suffix. reflexivity. }
  rewrite R.
  assert (L : (7 <? 8 + String.length msg) = true) by (apply Nat.ltb_lt; lia).
  rewrite L. f_equal. unfold slice.
  replace (8 + String.length msg - 8) with (String.length msg) by lia.
  cbn [sdrop append]. apply stake_app_exact.
Qed.

(** the world after exactly one call of read_line that consumed the first line *)
Definition after_one_line (w : world) (rest : list string) : world :=
  mkW rest (w_tail w) (w_waits w) (w_wait_dflt w) (w_writes w) (S (w_reads w)).

Lemma error_unmangled_lemma : forall fuel w pre post msg rest,
  w_lines w = (pre ++ error_reply msg ++ post) :: rest ->
  all_ws pre = true -> all_ws post = true ->
  (count_parens_aware (pre ++ error_reply msg ++ post) <= 0)%Z ->
  read_response Fix fuel w = Err (EFromSolver msg) (after_one_line w rest).
Proof.
  intros fuel w pre post msg rest El Hp Hq Hc.
  unfold read_response, read_line. rewrite El.
  set (l := (pre ++ error_reply msg ++ post)%string) in *.
  fold (after_one_line w rest).
  assert (E : rr_loop Fix fuel l (after_one_line w rest) = Ok l (after_one_line w rest)).
  { assert (C : (0 <? count_parens_aware l)%Z = false) by (apply Z.ltb_ge; exact Hc).
    destruct fuel; cbn [rr_loop count_v]; rewrite C; reflexivity. }
  rewrite E.
  destruct (trim_error_reply pre post msg Hp Hq) as [T1 T2]. fold l in T1, T2.
  rewrite T1, T2.
  assert (S : starts_with "(error" (error_reply msg ++ post) = true) by reflexivity.
  rewrite S. unfold error_msg. now rewrite error_msg_fix_reply.
Qed.

Lemma error_unmangled_plain_lemma : forall fuel w pre post msg rest,
  w_lines w = (pre ++ error_reply msg ++ post) :: rest ->
  all_ws pre = true -> all_ws post = true -> has_quote msg = false ->
  read_response Fix fuel w = Err (EFromSolver msg) (after_one_line w rest).
Proof.
  intros fuel w pre post msg rest El Hp Hq Hm.
  eapply error_unmangled_lemma; eauto.
  rewrite aware_error_reply_plain by assumption. lia.
Qed.

(** today's reader NEVER hands over the message of an `(error "msg")` reply: it panics, or it
    returns strictly fewer bytes *)
Lemma error_msg_cur_short : forall msg m, error_msg_cur (error_reply msg) = Some m -> String.length m + 5 <= String.length msg.
Proof.
  intros msg m H. unfold error_msg_cur in H.
  assert (L : String.length (error_reply msg) = 10 + String.length msg).
  { unfold error_reply. rewrite !length_app. cbn. lia. }
  rewrite L in H.
  destruct (10 + String.length msg <? 8); [discriminate|].
  replace (10 + String.length msg - 8) with (2 + String.length msg) in H by lia.
  destruct (2 + String.length msg <? 7) eqn:E7; [discriminate|].
  apply Nat.ltb_ge in E7.
  destruct (is_char_boundary 7 _ && is_char_boundary _ _); [|discriminate].
  injection H as <-.
  match goal with |- String.length (slice 7 ?e ?s) + 5 <= _ => pose proof (length_slice_le 7 e s) end.
  lia.
Qed.

Lemma error_mangled_always_lemma : forall fuel w pre post msg rest w',
  w_lines w = (pre ++ error_reply msg ++ post) :: rest ->
  all_ws pre = true -> all_ws post = true -> (count_parens msg <= 0)%Z ->
  read_response Cur fuel w <> Err (EFromSolver msg) w'.
Proof.
  intros fuel w pre post msg rest w' El Hp Hq Hc.
  unfold read_response, read_line. rewrite El.
  set (l := (pre ++ error_reply msg ++ post)%string).
  fold (after_one_line w rest).
  assert (E : rr_loop Cur fuel l (after_one_line w rest) = Ok l (after_one_line w rest)).
  { assert (C : (0 <? count_parens l)%Z = false).
    { apply Z.ltb_ge. unfold l. rewrite count_error_reply by assumption. exact Hc. }
    destruct fuel; cbn [rr_loop count_v]; rewrite C; reflexivity. }
  rewrite E.
  destruct (trim_error_reply pre post msg Hp Hq) as [T1 T2]. fold l in T1, T2.
  rewrite T1, T2.
  assert (S : starts_with "(error" (error_reply msg ++ post) = true) by reflexivity.
  rewrite S. unfold error_msg.
  destruct (error_msg_cur (error_reply msg)) as [m|] eqn:EM; [|discriminate].
  apply error_msg_cur_short in EM. intros H. injection H as -> _. lia.
Qed.

(** ... and for every message shorter than 5 bytes it panics *)
Lemma error_short_panics_lemma : forall fuel w pre post msg rest,
  w_lines w = (pre ++ error_reply msg ++ post) :: rest ->
  all_ws pre = true -> all_ws post = true -> (count_parens msg <= 0)%Z ->
  String.length msg < 5 ->
  read_response Cur fuel w = Panic loc_slice.
Proof.
  intros fuel w pre post msg rest El Hp Hq Hc Hlen.
  unfold read_response, read_line. rewrite El.
  set (l := (pre ++ error_reply msg ++ post)%string).
  fold (after_one_line w rest).
  assert (E : rr_loop Cur fuel l (after_one_line w rest) = Ok l (after_one_line w rest)).
  { assert (C : (0 <? count_parens l)%Z = false).
    { apply Z.ltb_ge. unfold l. rewrite count_error_reply by assumption. exact Hc. }
    destruct fuel; cbn [rr_loop count_v]; rewrite C; reflexivity. }
  rewrite E.
  destruct (trim_error_reply pre post msg Hp Hq) as [T1 T2]. fold l in T1, T2.
  rewrite T1, T2.
  assert (S : starts_with "(error" (error_reply msg ++ post) = true) by reflexivity.
  rewrite S. unfold error_msg.
  destruct (error_msg_cur (error_reply msg)) as [m|] eqn:EM; [|reflexivity].
  apply error_msg_cur_short in EM. lia.
Qed.

(* ------------------------------------------------------------------ lines are only ever consumed *)

Lemma rr_loop_lines_le : forall v fuel resp w,
  match rr_loop v fuel resp w with
  | Ok _ w' | Err _ w' => length (w_lines w') <= length (w_lines w)
  | _ => True
  end.
Proof.
  intros v fuel. induction fuel as [|f IH]; intros resp w; cbn [rr_loop];
    destruct (0 <? count_v _ resp)%Z; try exact I; try lia.
  destruct (read_line_cases w) as [(l & r & El & Er) | [(El & Et & Er) | (El & Et & Er)]]; rewrite Er; try exact I.
  - assert (G : forall x, match rr_loop v f x (mkW r (w_tail w) (w_waits w) (w_wait_dflt w) (w_writes w) (S (w_reads w))) with
                          | Ok _ w' | Err _ w' => length (w_lines w') <= length (w_lines w) | _ => True end).
    { intros x. match goal with |- context [rr_loop v f x ?w1] => specialize (IH x w1) end.
      destruct (rr_loop v f x _); try exact I; cbn in IH; rewrite El; cbn; lia. }
    destruct v; [apply G| |]; (destruct (is_empty l); [cbn; rewrite El; cbn; lia | apply G]).
  - assert (G : forall x, match rr_loop v f x (mkW [] TEof (w_waits w) (w_wait_dflt w) (w_writes w) (S (w_reads w))) with
                          | Ok _ w' | Err _ w' => length (w_lines w') <= length (w_lines w) | _ => True end).
    { intros x. match goal with |- context [rr_loop v f x ?w1] => specialize (IH x w1) end.
      destruct (rr_loop v f x _); try exact I; cbn in IH; rewrite El; cbn; lia. }
    destruct v; [apply G| |]; (cbn; rewrite El; cbn; lia).
Qed.

Lemma read_response_lines_le : forall v fuel w,
  match read_response v fuel w with
  | Ok _ w' | Err _ w' => length (w_lines w') <= length (w_lines w)
  | _ => True
  end.
Proof.
  intros v fuel w. unfold read_response.
  assert (G : forall l w1, length (w_lines w1) <= length (w_lines w) ->
     match
       match rr_loop v fuel l w1 with
       | Ok resp w2 =>
           if starts_with "(error" (trim_start resp)
           then match error_msg v (trim resp) with Some m => Err (EFromSolver m) w2 | None => Panic loc_slice end
           else match try_wait w2 with
                | (Some (false, stderr_text), w3) => Err (EFromSolver stderr_text) w3
                | (_, w3) => Ok resp w3
                end
       | other => other
       end
     with
     | Ok _ w' | Err _ w' => length (w_lines w') <= length (w_lines w)
     | _ => True
     end).
  { intros l w1 H1. pose proof (rr_loop_lines_le v fuel l w1) as T.
    destruct (rr_loop v fuel l w1) as [resp w2|e w2| | |]; try exact I; [|lia].
    destruct (starts_with "(error" (trim_start resp)).
    - destruct (error_msg v (trim resp)); [lia | exact I].
    - destruct (try_wait w2) as [o w3] eqn:EW. apply try_wait_lines in EW. destruct EW as [EW _].
      destruct o as [[[] ?]|]; rewrite EW; lia. }
  destruct (read_line_cases w) as [(l & r & El & Er) | [(El & Et & Er) | (El & Et & Er)]]; rewrite Er; try exact I.
  - apply G. cbn [w_lines]. rewrite El. cbn [length]. lia.
  - apply G. cbn [w_lines length]. lia.
Qed.

Lemma pop_write_lines : forall w, w_lines (snd (pop_write w)) = w_lines w.
Proof. intros w. unfold pop_write. destruct (w_writes w); reflexivity. Qed.

Lemma write_cmd_lines_le : forall v fuel w,
  match write_cmd v fuel w with
  | Ok _ w' | Err _ w' => length (w_lines w') <= length (w_lines w)
  | _ => True
  end.
Proof.
  intros v fuel w. unfold write_cmd. pose proof (pop_write_lines w) as P.
  destruct (pop_write w) as [[] w1]; cbn in P; try (rewrite P; lia).
  pose proof (read_response_lines_le v fuel w1) as T.
  destruct (read_response v fuel w1) as [r w2|e w2| | |]; try exact I; rewrite <- P.
  - exact T.
  - destruct e; exact T.
Qed.

Lemma read_sat_lines_le : forall v fuel w,
  match read_sat_response v fuel w with
  | Ok _ w' | Err _ w' => length (w_lines w') <= length (w_lines w)
  | _ => True
  end.
Proof.
  intros v fuel w. unfold read_sat_response. pose proof (read_response_lines_le v fuel w) as T.
  destruct (read_response v fuel w) as [r w2|e w2| | |]; try exact I; [|exact T].
  destruct (String.eqb (trim r) "sat"); [exact T|]. destruct (String.eqb (trim r) "unsat"); exact T.
Qed.

Lemma read_parsed_lines_le : forall parse v fuel w,
  match read_parsed parse v fuel w with
  | Ok _ w' | Err _ w' => length (w_lines w') <= length (w_lines w)
  | _ => True
  end.
Proof.
  intros parse v fuel w. unfold read_parsed. pose proof (read_response_lines_le v fuel w) as T.
  destruct (read_response v fuel w) as [r w2|e w2| | |]; try exact I; [|exact T].
  destruct (parse (trim r)); exact T.
Qed.

Lemma check_sat_call_lines_le : forall v fuel w,
  match check_sat_call v fuel w with
  | Ok _ w' | Err _ w' => length (w_lines w') <= length (w_lines w)
  | _ => True
  end.
Proof.
  intros v fuel w. unfold check_sat_call. pose proof (write_cmd_lines_le v fuel w) as T.
  destruct (write_cmd v fuel w) as [r w1|e w1| | |]; try exact I; [|exact T].
  pose proof (read_sat_lines_le v fuel w1) as T2.
  destruct (read_sat_response v fuel w1); try exact I; lia.
Qed.

Lemma get_call_lines_le : forall v fuel parse w,
  match get_call v fuel parse w with
  | Ok _ w' | Err _ w' => length (w_lines w') <= length (w_lines w)
  | _ => True
  end.
Proof.
  intros v fuel parse w. unfold get_call. pose proof (write_cmd_lines_le v fuel w) as T.
  destruct (write_cmd v fuel w) as [r w1|e w1| | |]; try exact I; [|exact T].
  pose proof (read_parsed_lines_le parse v fuel w1) as T2.
  destruct (read_parsed parse v fuel w1); try exact I; lia.
Qed.

(* ------------------------------------------------------------------ the repaired calls never run out of fuel *)

Lemma write_cmd_rep_total : forall v fuel w, repaired v = true -> length (w_lines w) <= fuel -> write_cmd v fuel w <> OutOfFuel.
Proof.
  intros v fuel w Hr H. unfold write_cmd. pose proof (pop_write_lines w) as P.
  destruct (pop_write w) as [[] w1]; cbn in P; try discriminate.
  pose proof (read_response_rep_total v fuel w1 Hr) as T. rewrite P in T. specialize (T H).
  destruct (read_response v fuel w1) as [r w2|e w2| | |]; try discriminate; [destruct e; discriminate | congruence].
Qed.

Lemma check_sat_call_rep_total : forall v fuel w, repaired v = true -> length (w_lines w) <= fuel -> check_sat_call v fuel w <> OutOfFuel.
Proof.
  intros v fuel w Hr H. unfold check_sat_call.
  pose proof (write_cmd_rep_total v fuel w Hr H) as T. pose proof (write_cmd_lines_le v fuel w) as L.
  destruct (write_cmd v fuel w) as [r w1|e w1| | |]; try discriminate; [|congruence].
  unfold read_sat_response.
  pose proof (read_response_rep_total v fuel w1 Hr) as T1.
  destruct (read_response v fuel w1) as [r1 w2|e w2| | |]; try discriminate.
  - destruct (String.eqb (trim r1) "sat"); [discriminate|]. destruct (String.eqb (trim r1) "unsat"); discriminate.
  - exfalso. apply T1; [lia | reflexivity].
Qed.

Lemma get_call_rep_total : forall v fuel parse w, repaired v = true -> length (w_lines w) <= fuel -> get_call v fuel parse w <> OutOfFuel.
Proof.
  intros v fuel parse w Hr H. unfold get_call.
  pose proof (write_cmd_rep_total v fuel w Hr H) as T. pose proof (write_cmd_lines_le v fuel w) as L.
  destruct (write_cmd v fuel w) as [r w1|e w1| | |]; try discriminate; [|congruence].
  unfold read_parsed.
  pose proof (read_response_rep_total v fuel w1 Hr) as T1.
  destruct (read_response v fuel w1) as [r1 w2|e w2| | |]; try discriminate.
  - destruct (parse (trim r1)); discriminate.
  - exfalso. apply T1; [lia | reflexivity].
Qed.

(* ------------------------------------------------------------------ T4: clients that propagate with `?` *)

Section RunProofs.
  Variables (pv pc : string -> bool) (v : variant) (fuel : nat).

  Definition ev_ok (ev : event) : Prop := ev_end ev = COk.

  (** the call an event stands for, re-run on the world the event recorded *)
  Definition call_end_of (ev : event) : call_end :=
    match ev_kind ev with
    | KWrite => end_of (write_cmd v fuel (ev_before ev))
    | KCheckSat => end_of (check_sat_call v fuel (ev_before ev))
    | KGetValue => end_of (get_call v fuel pv (ev_before ev))
    | KGetUnsat => end_of (get_call v fuel pc (ev_before ev))
    end.

  Definition faithful (ev : event) : Prop := ev_end ev = call_end_of ev.

  (** the three shapes a run can have *)
  Definition shape {A : Type} (tr : list event) (o : res A) : Prop :=
    (Forall ev_ok tr /\ exists a w', o = Ok a w')
    \/ (Forall ev_ok tr /\ exists l, o = Panic l)
    \/ (exists tr0 ev, tr = (tr0 ++ [ev])%list /\ Forall ev_ok tr0 /\ ev_end ev <> COk /\ ev_end ev = end_of o).

  Lemma shape_cons : forall A ev tr (o : res A), ev_ok ev -> shape tr o -> shape (ev :: tr) o.
  Proof.
    intros A ev tr o Hev [[F E]|[[F E]|(tr0 & e & -> & F & N & Q)]].
    - left. split; [constructor; assumption | exact E].
    - right; left. split; [constructor; assumption | exact E].
    - right; right. exists (ev :: tr0), e. split; [reflexivity|]. split; [constructor; assumption|]. auto.
  Qed.

  Lemma shape_single : forall A ev (o : res A), ev_end ev <> COk -> ev_end ev = end_of o -> shape [ev] o.
  Proof. intros A ev o N Q. right; right. exists [], ev. split; [reflexivity|]. split; [constructor|]. auto. Qed.

  Lemma run_shape_lemma : forall A (p : prog A) w,
    Forall faithful (fst (run pv pc v fuel p w)) /\ shape (fst (run pv pc v fuel p w)) (snd (run pv pc v fuel p w)).
  Proof.
    intros A p. induction p as [a | l | k IH | k IH | k IH | k IH]; intros w; cbn [run].
    - cbn [fst snd]. split; [constructor|]. left. split; [constructor|]. eauto.
    - cbn [fst snd]. split; [constructor|]. right; left. split; [constructor|]. eauto.
    - destruct (write_cmd v fuel w) as [u w'|e w'|l| |] eqn:E.
      + specialize (IH w'). destruct (run pv pc v fuel k w') as [tr o]. cbn [fst snd] in *. destruct IH as [F S].
        split.
        * constructor; [|exact F]. unfold faithful, call_end_of. cbn. now rewrite E.
        * apply shape_cons; [reflexivity | exact S].
      + cbn [fst snd]. split; [constructor; [|constructor]; unfold faithful, call_end_of; cbn; now rewrite E|].
        apply shape_single; cbn; congruence.
      + cbn [fst snd]. split; [constructor; [|constructor]; unfold faithful, call_end_of; cbn; now rewrite E|].
        apply shape_single; cbn; congruence.
      + cbn [fst snd]. split; [constructor; [|constructor]; unfold faithful, call_end_of; cbn; now rewrite E|].
        apply shape_single; cbn; congruence.
      + cbn [fst snd]. split; [constructor; [|constructor]; unfold faithful, call_end_of; cbn; now rewrite E|].
        apply shape_single; cbn; congruence.
    - destruct (check_sat_call v fuel w) as [a w'|e w'|l| |] eqn:E.
      + specialize (IH a w'). destruct (run pv pc v fuel (k a) w') as [tr o]. cbn [fst snd] in *. destruct IH as [F S].
        split.
        * constructor; [|exact F]. unfold faithful, call_end_of. cbn. now rewrite E.
        * apply shape_cons; [reflexivity | exact S].
      + cbn [fst snd]. split; [constructor; [|constructor]; unfold faithful, call_end_of; cbn; now rewrite E|].
        apply shape_single; cbn; congruence.
      + cbn [fst snd]. split; [constructor; [|constructor]; unfold faithful, call_end_of; cbn; now rewrite E|].
        apply shape_single; cbn; congruence.
      + cbn [fst snd]. split; [constructor; [|constructor]; unfold faithful, call_end_of; cbn; now rewrite E|].
        apply shape_single; cbn; congruence.
      + cbn [fst snd]. split; [constructor; [|constructor]; unfold faithful, call_end_of; cbn; now rewrite E|].
        apply shape_single; cbn; congruence.
    - destruct (get_call v fuel pv w) as [a w'|e w'|l| |] eqn:E.
      + specialize (IH a w'). destruct (run pv pc v fuel (k a) w') as [tr o]. cbn [fst snd] in *. destruct IH as [F S].
        split.
        * constructor; [|exact F]. unfold faithful, call_end_of. cbn. now rewrite E.
        * apply shape_cons; [reflexivity | exact S].
      + cbn [fst snd]. split; [constructor; [|constructor]; unfold faithful, call_end_of; cbn; now rewrite E|].
        apply shape_single; cbn; congruence.
      + cbn [fst snd]. split; [constructor; [|constructor]; unfold faithful, call_end_of; cbn; now rewrite E|].
        apply shape_single; cbn; congruence.
      + cbn [fst snd]. split; [constructor; [|constructor]; unfold faithful, call_end_of; cbn; now rewrite E|].
        apply shape_single; cbn; congruence.
      + cbn [fst snd]. split; [constructor; [|constructor]; unfold faithful, call_end_of; cbn; now rewrite E|].
        apply shape_single; cbn; congruence.
    - destruct (get_call v fuel pc w) as [a w'|e w'|l| |] eqn:E.
      + specialize (IH a w'). destruct (run pv pc v fuel (k a) w') as [tr o]. cbn [fst snd] in *. destruct IH as [F S].
        split.
        * constructor; [|exact F]. unfold faithful, call_end_of. cbn. now rewrite E.
        * apply shape_cons; [reflexivity | exact S].
      + cbn [fst snd]. split; [constructor; [|constructor]; unfold faithful, call_end_of; cbn; now rewrite E|].
        apply shape_single; cbn; congruence.
      + cbn [fst snd]. split; [constructor; [|constructor]; unfold faithful, call_end_of; cbn; now rewrite E|].
        apply shape_single; cbn; congruence.
      + cbn [fst snd]. split; [constructor; [|constructor]; unfold faithful, call_end_of; cbn; now rewrite E|].
        apply shape_single; cbn; congruence.
      + cbn [fst snd]. split; [constructor; [|constructor]; unfold faithful, call_end_of; cbn; now rewrite E|].
        apply shape_single; cbn; congruence.
  Qed.

  (** a call that did not succeed is the last call, and its failure IS the result of the run *)
  Lemma run_first_failure_lemma : forall A (p : prog A) w ev,
    In ev (fst (run pv pc v fuel p w)) -> ev_end ev <> COk ->
    end_of (snd (run pv pc v fuel p w)) = ev_end ev.
  Proof.
    intros A p w ev Hin Hbad.
    destruct (run_shape_lemma A p w) as [_ [[F _]|[[F _]|(tr0 & e & Etr & F & N & Q)]]].
    - rewrite Forall_forall in F. exfalso. apply Hbad. apply F. exact Hin.
    - rewrite Forall_forall in F. exfalso. apply Hbad. apply F. exact Hin.
    - rewrite Etr in Hin. apply in_app_or in Hin. destruct Hin as [Hin|[<-|[]]].
      + rewrite Forall_forall in F. exfalso. apply Hbad. apply F. exact Hin.
      + symmetry. exact Q.
  Qed.

  Lemma run_propagates_lemma : forall A (p : prog A) w ev e,
    In ev (fst (run pv pc v fuel p w)) -> ev_end ev = CErr e ->
    exists w', snd (run pv pc v fuel p w) = Err e w'.
  Proof.
    intros A p w ev e Hin He.
    assert (Q : end_of (snd (run pv pc v fuel p w)) = CErr e).
    { rewrite <- He. apply run_first_failure_lemma; [exact Hin | congruence]. }
    destruct (snd (run pv pc v fuel p w)) as [a w'|e' w'|l| |]; cbn in Q; try discriminate.
    injection Q as ->. eauto.
  Qed.

  Lemma run_ok_all_ok_lemma : forall A (p : prog A) w a w',
    snd (run pv pc v fuel p w) = Ok a w' -> Forall ev_ok (fst (run pv pc v fuel p w)).
  Proof.
    intros A p w a w' H.
    destruct (run_shape_lemma A p w) as [_ [[F _]|[[F (l & E)]|(tr0 & e & Etr & F & N & Q)]]].
    - exact F.
    - congruence.
    - rewrite H in Q. cbn in Q. congruence.
  Qed.

  (** every successful check-sat of a run rests on one exact line `sat` / `unsat` *)
  Lemma run_checksat_exact_lemma : forall A (p : prog A) w ev,
    In ev (fst (run pv pc v fuel p w)) -> ev_kind ev = KCheckSat -> ev_end ev = COk ->
    exists w1 l rest, write_cmd v fuel (ev_before ev) = Ok tt w1 /\ w_lines w1 = l :: rest
                      /\ (trim l = "sat" \/ trim l = "unsat").
  Proof.
    intros A p w ev Hin Hk Hok.
    destruct (run_shape_lemma A p w) as [F _]. rewrite Forall_forall in F. specialize (F ev Hin).
    unfold faithful, call_end_of in F. rewrite Hk, Hok in F.
    unfold check_sat_call in F.
    destruct (write_cmd v fuel (ev_before ev)) as [[] w1|e w1|l| |] eqn:EW; cbn in F; try discriminate.
    destruct (read_sat_response v fuel w1) as [a w2|e w2|l| |] eqn:ER; cbn in F; try discriminate.
    apply sat_only_on_exact_lemma in ER. destruct ER as (l & rest & E1 & _ & _ & [[_ T]|[_ T]]); eauto 8.
  Qed.

  (** lines are only consumed by a run *)
  Lemma run_lines_le : forall A (p : prog A) w,
    match snd (run pv pc v fuel p w) with
    | Ok _ w' | Err _ w' => length (w_lines w') <= length (w_lines w)
    | _ => True
    end.
  Proof.
    intros A p. induction p as [a | l | k IH | k IH | k IH | k IH]; intros w; cbn [run].
    - cbn. lia.
    - exact I.
    - pose proof (write_cmd_lines_le v fuel w) as T.
      destruct (write_cmd v fuel w) as [u w'|e w'|l| |]; try exact I; [|exact T].
      specialize (IH w'). destruct (run pv pc v fuel k w') as [tr o]. cbn [snd] in *.
      destruct o; try exact I; lia.
    - pose proof (check_sat_call_lines_le v fuel w) as T.
      destruct (check_sat_call v fuel w) as [a w'|e w'|l| |]; try exact I; [|exact T].
      specialize (IH a w'). destruct (run pv pc v fuel (k a) w') as [tr o]. cbn [snd] in *.
      destruct o; try exact I; lia.
    - pose proof (get_call_lines_le v fuel pv w) as T.
      destruct (get_call v fuel pv w) as [a w'|e w'|l| |]; try exact I; [|exact T].
      specialize (IH a w'). destruct (run pv pc v fuel (k a) w') as [tr o]. cbn [snd] in *.
      destruct o; try exact I; lia.
    - pose proof (get_call_lines_le v fuel pc w) as T.
      destruct (get_call v fuel pc w) as [a w'|e w'|l| |]; try exact I; [|exact T].
      specialize (IH a w'). destruct (run pv pc v fuel (k a) w') as [tr o]. cbn [snd] in *.
      destruct o; try exact I; lia.
  Qed.
End RunProofs.

(** with the repaired reader no client program can spin, whatever the stream *)
Lemma run_rep_total : forall pv pc v fuel A (p : prog A) w,
  repaired v = true -> length (w_lines w) <= fuel -> snd (run pv pc v fuel p w) <> OutOfFuel.
Proof.
  intros pv pc v fuel A p. induction p as [a | l | k IH | k IH | k IH | k IH]; intros w Hr H; cbn [run]; try discriminate.
  - pose proof (write_cmd_rep_total v fuel w Hr H) as T. pose proof (write_cmd_lines_le v fuel w) as L.
    destruct (write_cmd v fuel w) as [u w'|e w'|l| |]; try discriminate; [|congruence].
    specialize (IH w' Hr). destruct (run pv pc v fuel k w') as [tr o]. cbn [snd] in *. apply IH. lia.
  - pose proof (check_sat_call_rep_total v fuel w Hr H) as T. pose proof (check_sat_call_lines_le v fuel w) as L.
    destruct (check_sat_call v fuel w) as [a w'|e w'|l| |]; try discriminate; [|congruence].
    specialize (IH a w' Hr). destruct (run pv pc v fuel (k a) w') as [tr o]. cbn [snd] in *. apply IH. lia.
  - pose proof (get_call_rep_total v fuel pv w Hr H) as T. pose proof (get_call_lines_le v fuel pv w) as L.
    destruct (get_call v fuel pv w) as [a w'|e w'|l| |]; try discriminate; [|congruence].
    specialize (IH a w' Hr). destruct (run pv pc v fuel (k a) w') as [tr o]. cbn [snd] in *. apply IH. lia.
  - pose proof (get_call_rep_total v fuel pc w Hr H) as T. pose proof (get_call_lines_le v fuel pc w) as L.
    destruct (get_call v fuel pc w) as [a w'|e w'|l| |]; try discriminate; [|congruence].
    specialize (IH a w' Hr). destruct (run pv pc v fuel (k a) w') as [tr o]. cbn [snd] in *. apply IH. lia.
Qed.

Lemma session_rep_total : forall pv pc v fuel A (p : prog A) w,
  repaired v = true -> length (w_lines w) <= fuel -> session pv pc v fuel p w <> OutOfFuel.
Proof.
  intros pv pc v fuel A p w Hr H. unfold session.
  pose proof (run_rep_total pv pc v fuel A p w Hr H) as T.
  pose proof (run_lines_le pv pc v fuel A p w) as L.
  destruct (snd (run pv pc v fuel p w)) as [a w'|e w'|l| |]; cbn [shutdown]; try discriminate; [| |congruence].
  - pose proof (write_cmd_rep_total v fuel w' Hr) as T2.
    destruct (write_cmd v fuel w'); try discriminate. exfalso. apply T2; [lia | reflexivity].
  - pose proof (write_cmd_rep_total v fuel w' Hr) as T2.
    destruct (write_cmd v fuel w'); try discriminate. exfalso. apply T2; [lia | reflexivity].
Qed.

Lemma session_fix_total : forall pv pc fuel A (p : prog A) w,
  length (w_lines w) <= fuel -> session pv pc Fix fuel p w <> OutOfFuel.
Proof. intros pv pc fuel A p w. now apply session_rep_total. Qed.

(** a session ends with a value only if the client's run did, with the same value *)
Lemma session_ok_inv : forall pv pc v fuel A (p : prog A) w a w',
  session pv pc v fuel p w = Ok a w' -> exists w'', snd (run pv pc v fuel p w) = Ok a w''.
Proof.
  intros pv pc v fuel A p w a w' H. unfold session in H.
  destruct (snd (run pv pc v fuel p w)) as [a0 w0|e w0|l| |]; cbn [shutdown] in H; try discriminate.
  - destruct (write_cmd v fuel w0); try discriminate; injection H as <- _; eauto.
  - destruct (write_cmd v fuel w0); discriminate.
Qed.

(** ... and an error of the client's run is the error of the session (unless shutting down itself
    panics, blocks or spins) *)
Lemma session_err_inv : forall pv pc v fuel A (p : prog A) w e w0,
  snd (run pv pc v fuel p w) = Err e w0 ->
  match session pv pc v fuel p w with
  | Ok _ _ => False
  | Err e' _ => e' = e
  | _ => True
  end.
Proof.
  intros pv pc v fuel A p w e w0 H. unfold session. rewrite H. cbn [shutdown].
  destruct (write_cmd v fuel w0); auto.
Qed.

Lemma session_propagates_lemma : forall pv pc v fuel A (p : prog A) w ev e,
  In ev (fst (run pv pc v fuel p w)) -> ev_end ev = CErr e ->
  match session pv pc v fuel p w with
  | Ok _ _ => False
  | Err e' _ => e' = e
  | _ => True
  end.
Proof.
  intros pv pc v fuel A p w ev e Hin He.
  destruct (run_propagates_lemma pv pc v fuel A p w ev e Hin He) as [w0 H].
  eapply session_err_inv; eauto.
Qed.

Lemma session_verdict_intact_lemma : forall pv pc v fuel A (p : prog A) w a w',
  session pv pc v fuel p w = Ok a w' ->
  Forall ev_ok (fst (run pv pc v fuel p w))
  /\ forall ev, In ev (fst (run pv pc v fuel p w)) -> ev_kind ev = KCheckSat ->
       exists w1 l rest, write_cmd v fuel (ev_before ev) = Ok tt w1 /\ w_lines w1 = l :: rest
                         /\ (trim l = "sat" \/ trim l = "unsat").
Proof.
  intros pv pc v fuel A p w a w' H.
  destruct (session_ok_inv _ _ _ _ _ _ _ _ _ H) as [w'' R].
  pose proof (run_ok_all_ok_lemma pv pc v fuel A p w a w'' R) as F.
  split; [exact F|].
  intros ev Hin Hk. rewrite Forall_forall in F.
  eapply run_checksat_exact_lemma; eauto. apply F. exact Hin.
Qed.

(* ------------------------------------------------------------------ the repaired reader never panics; a broken pipe is never a success *)

Lemma rr_loop_no_panic : forall v fuel resp w l, rr_loop v fuel resp w <> Panic l.
Proof.
  intros v fuel. induction fuel as [|f IH]; intros resp w l; cbn [rr_loop];
    destruct (0 <? count_v v resp)%Z; try discriminate.
  destruct (read_line w) as [x w1|]; [|discriminate].
  destruct v; [apply IH| |]; (destruct (is_empty x); [discriminate | apply IH]).
Qed.

Lemma error_msg_fix_some : forall t, error_msg_fix t <> None.
Proof.
  intros t. unfold error_msg_fix.
  destruct (find_quote t); [|discriminate]. destruct (rfind_quote t); [|discriminate].
  destruct (_ <? _); discriminate.
Qed.

Lemma read_response_rep_no_panic : forall v fuel w l, repaired v = true -> read_response v fuel w <> Panic l.
Proof.
  intros v fuel w l Hr. unfold read_response.
  destruct (read_line w) as [x w1|]; [|discriminate].
  pose proof (rr_loop_no_panic v fuel x w1) as NP.
  destruct (rr_loop v fuel x w1) as [resp w2|e w2|l'| |]; try discriminate.
  - destruct (starts_with "(error" (trim_start resp)).
    + assert (EM : error_msg v (trim resp) = error_msg_fix (trim resp)) by (destruct v; [discriminate Hr | reflexivity | reflexivity]).
      rewrite EM. pose proof (error_msg_fix_some (trim resp)) as S.
      destruct (error_msg_fix (trim resp)); [discriminate | congruence].
    + destruct (try_wait w2) as [[[[] ?]|] ?]; discriminate.
  - exfalso. eapply NP. reflexivity.
Qed.

Lemma read_response_fix_no_panic : forall fuel w l, read_response Fix fuel w <> Panic l.
Proof. intros fuel w l. now apply read_response_rep_no_panic. Qed.

Lemma broken_pipe_is_error : forall v fuel w w1 u w',
  pop_write w = (WBrokenPipe, w1) -> write_cmd v fuel w <> Ok u w'.
Proof.
  intros v fuel w w1 u w' H. unfold write_cmd. rewrite H.
  destruct (read_response v fuel w1) as [r w2|e w2| | |]; try discriminate.
  destruct e; discriminate.
Qed.

(* ------------------------------------------------------------------ when the repaired reader blocks *)

(** everything the reader would have joined: resp, then each remaining line, the way the variant
    joins them ([joined]: after a blank for [Cur] and [Fix], as they are for [Fix2]) *)
Fixpoint join_lines (v : variant) (resp : string) (ls : list string) : string :=
  match ls with [] => resp | l :: r => join_lines v (joined v resp l) r end.

Lemma rr_loop_blocked_open : forall v fuel resp w,
  rr_loop v fuel resp w = Blocked ->
  w_tail w = TAlive /\ (0 < count_v v (join_lines v resp (w_lines w)))%Z.
Proof.
  intros v fuel. induction fuel as [|f IH]; intros resp w H; cbn [rr_loop] in H.
  - destruct (0 <? count_v v resp)%Z; discriminate.
  - destruct (0 <? count_v v resp)%Z eqn:Hc; [|discriminate].
    destruct (read_line_cases w) as [(l & r & El & Er) | [(El & Et & Er) | (El & Et & Er)]]; rewrite Er in H.
    + assert (G : rr_loop v f (joined v resp l) (mkW r (w_tail w) (w_waits w) (w_wait_dflt w) (w_writes w) (S (w_reads w))) = Blocked).
      { destruct v; [exact H| |]; (destruct (is_empty l); [discriminate | exact H]). }
      apply IH in G. cbn [w_tail w_lines] in G. rewrite El. exact G.
    + destruct v; [|cbn in H; discriminate|cbn in H; discriminate].
      apply IH in H. cbn [w_tail] in H. destruct H as [H _]. discriminate.
    + split; [exact Et|]. rewrite El. cbn [join_lines]. apply Z.ltb_lt. exact Hc.
Qed.

(** The reader blocks only while a live solver has written nothing at all, or a reply that is still
    open (for the repaired reader: lexically open - parentheses outside string literals and quoted
    symbols).  Waiting there is what any reader without a timeout must do. *)
Lemma read_response_blocked_open : forall v fuel w,
  read_response v fuel w = Blocked ->
  w_tail w = TAlive /\
  match w_lines w with
  | [] => True
  | l :: r => (0 < count_v v (join_lines v l r))%Z
  end.
Proof.
  intros v fuel w H. unfold read_response in H.
  destruct (read_line_cases w) as [(l & r & El & Er) | [(El & Et & Er) | (El & Et & Er)]]; rewrite Er in H.
  - destruct (rr_loop v fuel l _) as [resp w2| | | |] eqn:EL; try discriminate.
    + destruct (starts_with "(error" (trim_start resp)).
      * destruct (error_msg v (trim resp)); discriminate.
      * destruct (try_wait w2) as [[[[] ?]|] ?]; discriminate.
    + apply rr_loop_blocked_open in EL. cbn [w_tail w_lines] in EL. rewrite El. exact EL.
  - destruct (rr_loop v fuel "" _) as [resp w2| | | |] eqn:EL; try discriminate.
    + destruct (starts_with "(error" (trim_start resp)).
      * destruct (error_msg v (trim resp)); discriminate.
      * destruct (try_wait w2) as [[[[] ?]|] ?]; discriminate.
    + apply rr_loop_blocked_open in EL. cbn [w_tail] in EL. destruct EL as [EL _]. discriminate.
  - rewrite El. auto.
Qed.
