(** * Proofs/EncodingWf.v — the script of the repaired unrolling is accepted by the
    strict checker (every name introduced once, before use, bodies well-sorted).

    The proof walks through the script block by block with an invariant on the
    declaration context: which step symbols are available ([Has]) and which
    (signal, step) pairs the declared names come from ([Emitted]). *)
From Coq Require Import List Bool Lia.
From Patronus Require Import EvalImpl Encoding SysExec ReachBmc ExprLemmas McBasics ScriptProofs EncodingBasics EncodingFaithful.
Import ListNotations.
Open Scope N_scope.

(** step symbols have injective NAMES (whatever the sort); only a constant state has
    one name for all steps *)
Definition name_inj (en : enc) : Prop :=
  forall e k e' k' s s', sig_sym en e k = Some s -> sig_sym en e' k' = Some s' ->
    sym_name s = sym_name s' ->
    e = e' /\ (k = k' \/ exists st, find_state en e = Some st /\ st_is_const st = true).

(** what the analysis guarantees about the signal list (established for [enc_new]
    in EncodingNew.v) *)
Record enc_order (en : enc) : Prop := {
  (** post-order: a signal that is a proper sub-expression of another one comes first *)
  eo_order : forall l1 s l2 x, e_sigs en = l1 ++ s :: l2 ->
      In x (subterms (sg_expr s)) -> x <> sg_expr s -> In x (map sg_expr (e_sigs en)) ->
      In x (map sg_expr l1);
  (** use counts are positive exactly along reachability *)
  eo_mono : forall s s', In s (e_sigs en) -> In s' (e_sigs en) ->
      In (sg_expr s') (subterms (sg_expr s)) ->
      (pos (u_init (sg_uses s)) = true -> pos (u_init (sg_uses s')) = true) /\
      (pos (u_next (sg_uses s)) = true -> pos (u_next (sg_uses s')) = true) /\
      (pos (u_other (sg_uses s)) = true -> pos (u_other (sg_uses s')) = true);
  eo_init_root : forall e s', In e (init_exprs (e_sys en)) -> In s' (e_sigs en) ->
      In (sg_expr s') (subterms e) -> pos (u_init (sg_uses s')) = true;
  eo_next_root : forall e s', In e (next_exprs (e_sys en)) -> In s' (e_sigs en) ->
      In (sg_expr s') (subterms e) -> pos (u_next (sg_uses s')) = true;
  (** a signal with a positive init count is a sub-expression of some init expression *)
  eo_init_sub : forall s, In s (e_sigs en) -> pos (u_init (sg_uses s)) = true ->
      exists e, In e (init_exprs (e_sys en)) /\ In (sg_expr s) (subterms e);
  (** a signal that is a symbol is an input; inputs have no other form *)
  eo_symbol_input : forall s, In s (e_sigs en) -> sg_input s = is_symbol (sg_expr s)
}.

(** the systems the (repaired) encoding handles: init expressions read states
    only directly (not through a shared sub-term) and only earlier ones *)
Record init_reads_ok (en : enc) : Prop := {
  ir_sig : forall s y, In s (e_sigs en) -> pos (u_init (sg_uses s)) = true ->
      In y (symbols_of (sg_expr s)) -> find_state en y = None;
  ir_state : forall l1 st l2 e y st', s_states (e_sys en) = l1 ++ st :: l2 -> st_init st = Some e ->
      In y (symbols_of e) -> find_state en y = Some st' -> In st' l1
}.

Section Wf.
  Variable en : enc.
  Hypothesis Hb : enc_basic en.
  Hypothesis Ho : enc_order en.
  Hypothesis Hn : name_inj en.
  Let sy := e_sys en.

  (** ** availability and provenance *)
  Definition Has (d : decls) (e : expr) (k : N) : Prop :=
    exists s, sig_sym en e k = Some s /\ syms_ok d s = true.

  Definition Emitted (d : decls) (P : expr -> N -> Prop) : Prop :=
    forall nm, declared nm d = true ->
      exists e k s, P e k /\ sig_sym en e k = Some s /\ sym_name s = nm.

  Lemma syms_ok_mk_sym d nm t : syms_ok d (mk_sym nm t) = sym_ok d nm t.
  Proof. destruct t; reflexivity. Qed.

  Lemma sym_name_mk_sym nm t : sym_name (mk_sym nm t) = nm.
  Proof. destruct t; reflexivity. Qed.

  Lemma sym_ok_cons_other d nm t nm' t' : nm' <> nm -> sym_ok ((nm', t') :: d) nm t = sym_ok d nm t.
  Proof. intros Hne. unfold sym_ok. rewrite lookup_cons. destruct (String.eqb_spec nm' nm); [contradiction|reflexivity]. Qed.

  Lemma sym_ok_cons_same d nm t : sym_ok ((nm, t) :: d) nm t = true.
  Proof. unfold sym_ok. rewrite lookup_cons, String.eqb_refl. apply ty_eqb_refl. Qed.

  Lemma sym_ok_declared d nm t : sym_ok d nm t = true -> declared nm d = true.
  Proof. unfold sym_ok, declared. destruct (lookup nm d); [reflexivity|discriminate]. Qed.

  Lemma declared_cons nm nm' t d : declared nm ((nm', t) :: d) = String.eqb nm' nm || declared nm d.
  Proof. unfold declared. rewrite lookup_cons. destruct (String.eqb nm' nm); reflexivity. Qed.

  (** adding a fresh name keeps what is available *)
  Lemma Has_cons d nm t e k : declared nm d = false -> Has d e k -> Has ((nm, t) :: d) e k.
  Proof.
    intros Hf (s & Hs & Hok). exists s. split; [assumption|].
    destruct (sig_sym_type en _ _ _ Hs) as [_ Hsym]. rewrite (symbol_mk_sym s Hsym) in *.
    rewrite syms_ok_mk_sym in *. rewrite sym_ok_cons_other; [assumption|].
    intros ->. apply sym_ok_declared in Hok. congruence.
  Qed.

  Lemma Has_new d e k s : sig_sym en e k = Some s -> Has ((sym_name s, type_of s) :: d) e k.
  Proof.
    intros Hs. exists s. split; [assumption|].
    destruct (sig_sym_type en _ _ _ Hs) as [_ Hsym]. rewrite (symbol_mk_sym s Hsym) at 3.
    rewrite syms_ok_mk_sym. apply sym_ok_cons_same.
  Qed.

  Lemma Emitted_cons d P e k s :
    Emitted d P -> sig_sym en e k = Some s ->
    Emitted ((sym_name s, type_of s) :: d) (fun e' k' => P e' k' \/ (e' = e /\ k' = k)).
  Proof.
    intros Hem Hs nm Hd. rewrite declared_cons in Hd. apply orb_true_iff in Hd. destruct Hd as [Hd|Hd].
    - apply String.eqb_eq in Hd. exists e, k, s. auto.
    - destruct (Hem nm Hd) as (e' & k' & s' & HP & Hs' & Hnm). exists e', k', s'. auto.
  Qed.

  Lemma Has_new' d e k nm t : sig_sym en e k = Some (mk_sym nm t) -> Has ((nm, t) :: d) e k.
  Proof. intros Hs. pose proof (Has_new d e k _ Hs) as H. now rewrite sym_name_mk_sym, mk_sym_type in H. Qed.

  Lemma Emitted_cons' d P e k nm t :
    Emitted d P -> sig_sym en e k = Some (mk_sym nm t) ->
    Emitted ((nm, t) :: d) (fun e' k' => P e' k' \/ (e' = e /\ k' = k)).
  Proof. intros Hem Hs. pose proof (Emitted_cons d P e k _ Hem Hs) as H. now rewrite sym_name_mk_sym, mk_sym_type in H. Qed.

  Lemma Emitted_weaken d (P Q : expr -> N -> Prop) : Emitted d P -> (forall e k, P e k -> Q e k) -> Emitted d Q.
  Proof. intros Hem HPQ nm Hd. destruct (Hem nm Hd) as (e & k & s & HP & Hs & Hnm). exists e, k, s. auto. Qed.

  (** a pair that was not emitted has a fresh name *)
  Lemma fresh_name d P e k s :
    Emitted d P -> sig_sym en e k = Some s -> find_state en e = None -> ~ P e k ->
    declared (sym_name s) d = false.
  Proof.
    intros Hem Hs Hns HnP. destruct (declared (sym_name s) d) eqn:Ed; [|reflexivity]. exfalso.
    destruct (Hem _ Ed) as (e' & k' & s' & HP & Hs' & Hnm).
    destruct (Hn e' k' e k s' s Hs' Hs Hnm) as [-> [->|(st & Hst & _)]]; [now apply HnP|congruence].
  Qed.

  (** ** one command *)
  (** the definition of signal expression [e] (not a symbol, or an init/next root) at step [k] *)
  Lemma body_ok d e k top :
    wt e = true ->
    (forall y k, In y (symbols_of e) -> sig_sym en y k <> None) ->
    (top = true -> is_symbol e = false) ->
    (forall x, In x (subterms e) -> (top = true -> x <> e) -> sig_sym en x k <> None -> Has d x k) ->
    wt (subst (fun x => sig_sym en x k) top e) = true /\
    type_of (subst (fun x => sig_sym en x k) top e) = type_of e /\
    syms_ok d (subst (fun x => sig_sym en x k) top e) = true.
  Proof.
    intros Hwt Hcl Htop Hdeps.
    destruct (subst_wt (fun x => sig_sym en x k)) with (e := e) (top := top) as [Hw Ht].
    - intros x s Hs. destruct (sig_sym_type en _ _ _ Hs) as [Hty Hsym]. split; [|assumption].
      rewrite (symbol_mk_sym s Hsym), Hty.
      assert (Hpos : ty_pos (type_of x) = true).
      { apply wt_ty_pos. apply (signal_wt en Hb). eapply sig_sym_signal; eassumption. }
      destruct (type_of x); cbn [mk_sym wt node_ok check1 leaf_ok is_some ty_pos] in *; rewrite ?andb_true_r; assumption.
    - assumption.
    - repeat split; try assumption.
      apply subst_syms_ok; [|intros y Hy; now apply Hcl|assumption].
      intros x s Hx Hne Hs. destruct (Hdeps x Hx Hne) as (s' & Hs' & Hok); [congruence|]. congruence.
  Qed.

  (** ** a block of signal definitions *)
  Definition define_list (l : list sig) (k : N) (f : sig -> bool) : list cmd :=
    flat_map (fun s =>
      if f s then
        [ if is_symbol (sg_expr s)
          then DeclareConst (name_at (sg_name s) k) (type_of (sg_expr s))
          else DefineFun (name_at (sg_name s) k) (type_of (sg_expr s)) (expr_in_step en (sg_expr s) k) ]
      else []) l.

  Lemma define_signals_list k f : define_signals en k f = define_list (e_sigs en) k f.
  Proof. reflexivity. Qed.

  Lemma sig_expr_not_state s : In s (e_sigs en) -> find_state en (sg_expr s) = None.
  Proof. apply (eb_nostate en Hb). Qed.

  Lemma sig_sym_sig' s k : In s (e_sigs en) ->
    sig_sym en (sg_expr s) k = Some (mk_sym (name_at (sg_name s) k) (type_of (sg_expr s))).
  Proof. apply (sig_sym_sig en Hb). Qed.

  Lemma in_sigs_unique s s' : In s (e_sigs en) -> In s' (e_sigs en) -> sg_expr s = sg_expr s' -> s = s'.
  Proof.
    intros Hs Hs' He. pose proof (find_sig_of en Hb s Hs) as H1. pose proof (find_sig_of en Hb s' Hs') as H2.
    rewrite He in H1. congruence.
  Qed.

  Lemma block_ok k f (P : expr -> N -> Prop) d0 :
    (forall s, In s (e_sigs en) -> f s = true -> ~ P (sg_expr s) k) ->
    (forall s x, In s (e_sigs en) -> f s = true -> In x (subterms (sg_expr s)) -> x <> sg_expr s ->
                 sig_sym en x k <> None ->
                 Has d0 x k \/ (exists s', In s' (e_sigs en) /\ sg_expr s' = x /\ f s' = true)) ->
    forall l2 l1 d,
      e_sigs en = l1 ++ l2 ->
      (forall e k', Has d0 e k' -> Has d e k') ->
      (forall s, In s l1 -> f s = true -> Has d (sg_expr s) k) ->
      Emitted d (fun e k' => P e k' \/ (k' = k /\ exists s, In s l1 /\ f s = true /\ sg_expr s = e)) ->
      let d' := script_decls d (define_list l2 k f) in
      script_check d (define_list l2 k f) = true /\
      (forall e k', Has d0 e k' -> Has d' e k') /\
      (forall s, In s (e_sigs en) -> f s = true -> Has d' (sg_expr s) k) /\
      Emitted d' (fun e k' => P e k' \/ (k' = k /\ exists s, In s (e_sigs en) /\ f s = true /\ sg_expr s = e)).
  Proof.
    intros Hfresh Hdeps. induction l2 as [|s r IH]; intros l1 d Hsplit Hmono Hdone Hem; cbn zeta.
    - cbn [define_list flat_map script_check script_decls fold_left]. rewrite app_nil_r in Hsplit. subst l1.
      repeat split; auto.
    - assert (Hs : In s (e_sigs en)) by (rewrite Hsplit; apply in_or_app; right; now left).
      assert (Hsplit' : e_sigs en = (l1 ++ [s]) ++ r) by (rewrite <- app_assoc; exact Hsplit).
      cbn [define_list flat_map]. fold (define_list r k f).
      destruct (f s) eqn:Ef.
      + (* emitted *)
        set (c := if is_symbol (sg_expr s)
                  then DeclareConst (name_at (sg_name s) k) (type_of (sg_expr s))
                  else DefineFun (name_at (sg_name s) k) (type_of (sg_expr s)) (expr_in_step en (sg_expr s) k)).
        assert (Hcn : cmd_name c = name_at (sg_name s) k) by (unfold c; destruct (is_symbol _); reflexivity).
        assert (Hct : cmd_ty c = type_of (sg_expr s)) by (unfold c; destruct (is_symbol _); reflexivity).
        pose proof (sig_sym_sig' s k Hs) as Hsym.
        assert (Hfr : declared (name_at (sg_name s) k) d = false).
        { rewrite <- (sym_name_mk_sym (name_at (sg_name s) k) (type_of (sg_expr s))).
          eapply fresh_name; [exact Hem|exact Hsym|now apply sig_expr_not_state|].
          intros [HP|(_ & s' & Hs' & _ & He)]; [now apply (Hfresh s)|].
          (* s' in l1 with the same expression: contradicts NoDup *)
          assert (s' = s) by (apply in_sigs_unique; [rewrite Hsplit; apply in_or_app; now left|assumption|assumption]).
          subst s'. pose proof (eb_nodup en Hb) as Hnd. rewrite Hsplit, map_app in Hnd.
          apply NoDup_remove_2 in Hnd. apply Hnd. apply in_or_app. left. now apply in_map. }
        assert (Hwt : wt (sg_expr s) = true) by (now apply (eb_wt_sig en Hb)).
        assert (Hpos : ty_pos (type_of (sg_expr s)) = true) by (now apply wt_ty_pos).
        assert (Hcok : cmd_ok d c = true).
        { unfold c. destruct (is_symbol (sg_expr s)) eqn:Esym; cbn [cmd_ok].
          - now rewrite Hfr, Hpos.
          - destruct (body_ok d (sg_expr s) k true Hwt) as (Hw & Ht & Hok).
            + apply (eb_closed en Hb). left. now apply in_map.
            + intros _. exact Esym.
            + intros x Hx Hne Hsx. destruct (Hdeps s x Hs Ef Hx (Hne eq_refl) Hsx) as [Hh|(s' & Hs' & <- & Ef')].
              * now apply Hmono.
              * apply Hdone; [|assumption].
                assert (Hin : In (sg_expr s') (map sg_expr l1)).
                { apply (eo_order en Ho l1 s r); [assumption|assumption|now apply Hne|now apply in_map]. }
                apply in_map_iff in Hin. destruct Hin as (s'' & He & Hin).
                assert (s'' = s') by (apply in_sigs_unique; [rewrite Hsplit; apply in_or_app; now left|assumption|assumption]).
                now subst.
            + unfold expr_in_step. rewrite Esym. cbn [negb].
              rewrite Hfr, Hpos, Hw, Ht, ty_eqb_refl, Hok. reflexivity. }
        cbn [app script_check]. rewrite Hcok. cbn [andb]. rewrite script_decls_cons, Hcn, Hct.
        apply (IH (l1 ++ [s])); [assumption| | |].
        * intros e k' Hh. apply Has_cons; [assumption|now apply Hmono].
        * intros s' Hin Ef'. apply in_app_or in Hin. destruct Hin as [Hin|[<-|[]]].
          -- apply Has_cons; [assumption|now apply Hdone].
          -- now apply Has_new'.
        * eapply Emitted_weaken; [apply Emitted_cons'; [exact Hem|exact Hsym]|].
          intros e k' [[HP|(-> & s' & Hin & Ef' & He)]|[-> ->]]; [now left| |].
          -- right. split; [reflexivity|]. exists s'. split; [apply in_or_app; now left|auto].
          -- right. split; [reflexivity|]. exists s. split; [apply in_or_app; right; now left|auto].
      + (* skipped *)
        cbn [app]. apply (IH (l1 ++ [s])); [assumption|assumption| |].
        * intros s' Hin Ef'. apply in_app_or in Hin. destruct Hin as [Hin|[<-|[]]]; [now apply Hdone|congruence].
        * eapply Emitted_weaken; [exact Hem|].
          intros e k' [HP|(-> & s' & Hin & Ef' & He)]; [now left|].
          right. split; [reflexivity|]. exists s'. split; [apply in_or_app; now left|auto].
  Qed.

  Lemma signals_block k f (P : expr -> N -> Prop) d :
    Emitted d P ->
    (forall s, In s (e_sigs en) -> f s = true -> ~ P (sg_expr s) k) ->
    (forall s x, In s (e_sigs en) -> f s = true -> In x (subterms (sg_expr s)) -> x <> sg_expr s ->
                 sig_sym en x k <> None ->
                 Has d x k \/ (exists s', In s' (e_sigs en) /\ sg_expr s' = x /\ f s' = true)) ->
    let d' := script_decls d (define_signals en k f) in
    script_check d (define_signals en k f) = true /\
    (forall e k', Has d e k' -> Has d' e k') /\
    (forall s, In s (e_sigs en) -> f s = true -> Has d' (sg_expr s) k) /\
    Emitted d' (fun e k' => P e k' \/ (k' = k /\ exists s, In s (e_sigs en) /\ f s = true /\ sg_expr s = e)).
  Proof.
    intros Hem Hfresh Hdeps. rewrite define_signals_list.
    apply (block_ok k f P d Hfresh Hdeps (e_sigs en) [] d); [reflexivity|auto|intros s []|].
    eapply Emitted_weaken; [exact Hem|]. intros e k' HP. now left.
  Qed.

  (** ** a block of independent items (the state blocks) *)
  Record item : Type := { it_e : expr; it_k : N; it_nm : string; it_t : ty; it_body : option expr }.

  Definition item_cmd (it : item) : cmd :=
    match it_body it with
    | None => DeclareConst (it_nm it) (it_t it)
    | Some b => DefineFun (it_nm it) (it_t it) b
    end.

  Definition is_const_state (e : expr) : Prop := exists st, find_state en e = Some st /\ st_is_const st = true.

  Lemma fresh_name_gen d P e k nm t :
    Emitted d P -> sig_sym en e k = Some (mk_sym nm t) ->
    (forall k', k' = k \/ is_const_state e -> ~ P e k') ->
    declared nm d = false.
  Proof.
    intros Hem Hs HnP. destruct (declared nm d) eqn:Ed; [|reflexivity]. exfalso.
    destruct (Hem _ Ed) as (e' & k' & s' & HP & Hs' & Hnm).
    rewrite <- (sym_name_mk_sym nm t) in Hnm.
    destruct (Hn e' k' e k s' _ Hs' Hs Hnm) as [-> Hk]. apply (HnP k'); [|assumption].
    destruct Hk as [->|Hc]; [now left|now right].
  Qed.

  Lemma items_ok (P : expr -> N -> Prop) d0 items :
    (forall it, In it items -> sig_sym en (it_e it) (it_k it) = Some (mk_sym (it_nm it) (it_t it)) /\ ty_pos (it_t it) = true) ->
    NoDup (map it_e items) ->
    (forall it k', In it items -> k' = it_k it \/ is_const_state (it_e it) -> ~ P (it_e it) k') ->
    (forall l1 it l2 b d', items = l1 ++ it :: l2 -> it_body it = Some b ->
        (forall e k, Has d0 e k -> Has d' e k) ->
        (forall it', In it' l1 -> Has d' (it_e it') (it_k it')) ->
        wt b = true /\ type_of b = it_t it /\ syms_ok d' b = true) ->
    forall l2 l1 d,
      items = l1 ++ l2 ->
      (forall e k, Has d0 e k -> Has d e k) ->
      (forall it, In it l1 -> Has d (it_e it) (it_k it)) ->
      Emitted d (fun e k => P e k \/ exists it, In it l1 /\ it_e it = e /\ it_k it = k) ->
      let d' := script_decls d (map item_cmd l2) in
      script_check d (map item_cmd l2) = true /\
      (forall e k, Has d0 e k -> Has d' e k) /\
      (forall it, In it items -> Has d' (it_e it) (it_k it)) /\
      Emitted d' (fun e k => P e k \/ exists it, In it items /\ it_e it = e /\ it_k it = k).
  Proof.
    intros Hsym Hnd Hfresh Hbody. induction l2 as [|it r IH]; intros l1 d Hsplit Hmono Hdone Hem; cbn zeta.
    - cbn [map script_check script_decls fold_left]. rewrite app_nil_r in Hsplit. subst l1. repeat split; auto.
    - assert (Hit : In it items) by (rewrite Hsplit; apply in_or_app; right; now left).
      assert (Hsplit' : items = (l1 ++ [it]) ++ r) by (rewrite <- app_assoc; exact Hsplit).
      destruct (Hsym it Hit) as [Hs Hpos].
      assert (Hfr : declared (it_nm it) d = false).
      { eapply fresh_name_gen; [exact Hem|exact Hs|].
        intros k' Hk [HP|(it' & Hin' & He & Hk')]; [now apply (Hfresh it k' Hit Hk)|].
        rewrite Hsplit, map_app in Hnd. cbn [map] in Hnd. apply NoDup_remove_2 in Hnd. apply Hnd.
        apply in_or_app. left. rewrite <- He. now apply in_map. }
      assert (Hcok : cmd_ok d (item_cmd it) = true).
      { unfold item_cmd. destruct (it_body it) as [b|] eqn:Eb; cbn [cmd_ok]; rewrite Hfr, Hpos; [|reflexivity].
        destruct (Hbody l1 it r b d Hsplit Eb Hmono Hdone) as (Hw & Ht & Hok).
        rewrite Hw, Ht, ty_eqb_refl, Hok. reflexivity. }
      assert (Hcn : cmd_name (item_cmd it) = it_nm it) by (unfold item_cmd; destruct (it_body it); reflexivity).
      assert (Hct : cmd_ty (item_cmd it) = it_t it) by (unfold item_cmd; destruct (it_body it); reflexivity).
      cbn [map script_check]. rewrite Hcok. cbn [andb]. rewrite script_decls_cons, Hcn, Hct.
      apply (IH (l1 ++ [it])); [assumption| | |].
      + intros e k Hh. apply Has_cons; [assumption|now apply Hmono].
      + intros it' Hin. apply in_app_or in Hin. destruct Hin as [Hin|[<-|[]]].
        * apply Has_cons; [assumption|now apply Hdone].
        * now apply Has_new'.
      + eapply Emitted_weaken; [apply Emitted_cons'; [exact Hem|exact Hs]|].
        intros e k [[HP|(it' & Hin & He & Hk)]|[-> ->]]; [now left| |].
        * right. exists it'. split; [apply in_or_app; now left|auto].
        * right. exists it. split; [apply in_or_app; right; now left|auto].
  Qed.

  (** ** the classes of signals *)
  Definition fI (s : sig) : bool := pos (u_init (sg_uses s)).
  Definition fO (s : sig) : bool := pos (u_other (sg_uses s)) || sg_input s.

  Lemma eqb0_pos n : (n =? 0) = negb (pos n).
  Proof. unfold pos. destruct (N.eqb_spec n 0), (N.ltb_spec 0 n); try reflexivity; lia. Qed.

  Lemma next_only_not_O s : next_only s = true -> fO s = false.
  Proof.
    unfold next_only, fO. intros H. repeat (apply andb_true_iff in H; destruct H as [H ?]).
    rewrite eqb0_pos in *. apply negb_true_iff in H0, H1. now rewrite H0, H1.
  Qed.

  Lemma not_O_next s : fO s = false -> pos (u_next (sg_uses s)) = true -> next_only s = true.
  Proof.
    unfold next_only, fO. intros H Hn'. apply orb_false_iff in H. destruct H as [H1 H2].
    rewrite Hn', eqb0_pos, H1, H2. reflexivity.
  Qed.

  Lemma nonsym_O_other s : In s (e_sigs en) -> fO s = true -> is_symbol (sg_expr s) = false ->
    pos (u_other (sg_uses s)) = true.
  Proof.
    intros Hs H Hsym. unfold fO in H. rewrite (eo_symbol_input en Ho s Hs), Hsym, orb_false_r in H. exact H.
  Qed.

  (** a signal (not a state) that has a step symbol is in the list *)
  Lemma sig_of_expr x k : sig_sym en x k <> None -> find_state en x = None ->
    exists s, In s (e_sigs en) /\ sg_expr s = x.
  Proof.
    unfold sig_sym. intros H Hns. rewrite Hns in H. destruct (find_sig en x) as [s|] eqn:E; [|congruence].
    apply find_sig_in in E. eauto.
  Qed.

  Lemma state_of_expr x st : find_state en x = Some st -> In st (s_states sy) /\ st_sym st = x.
  Proof. apply find_state_in. Qed.

  Lemma const_state_sym st k k' : In st (s_states sy) -> st_is_const st = true ->
    sig_sym en (st_sym st) k = sig_sym en (st_sym st) k'.
  Proof.
    intros Hin Hc. rewrite !(sig_sym_state en Hb) by assumption. unfold state_name_at. now rewrite Hc.
  Qed.

  Lemma Has_const_state d st k k' : In st (s_states sy) -> st_is_const st = true ->
    Has d (st_sym st) k -> Has d (st_sym st) k'.
  Proof. intros Hin Hc (s & Hs & Hok). exists s. split; [|assumption]. now rewrite (const_state_sym st k' k). Qed.

  Lemma subterm_symbol : forall e x, In x (subterms e) -> is_symbol x = true -> In x (symbols_of e).
  Proof.
    induction e; intros x Hx Hs; cbn [subterms] in Hx; cbn [symbols_of];
      (destruct Hx as [<-|Hx]; [try discriminate Hs; now left|]);
      repeat (rewrite in_app_iff in Hx); rewrite ?in_app_iff;
      repeat match goal with H : _ \/ _ |- _ => destruct H end;
      try (now destruct Hx); eauto 6.
  Qed.

  (** ** the state blocks as item lists *)
  Definition init_item (j : N) (st : state) : item :=
    {| it_e := st_sym st; it_k := j; it_nm := state_name_at st j; it_t := type_of (st_sym st);
       it_body := match (j =? 0), st_init st with
                  | true, Some v => Some (expr_in_step en v j)
                  | _, _ => None
                  end |}.

  Lemma init_states_items j :
    map (fun st =>
         let n := state_name_at st j in
         let t := type_of (st_sym st) in
         match (j =? 0), st_init st with
         | true, Some v => DefineFun n t (expr_in_step en v j)
         | _, _ => DeclareConst n t
         end) (s_states sy) = map item_cmd (map (init_item j) (s_states sy)).
  Proof.
    rewrite map_map. apply map_ext. intros st. unfold item_cmd, init_item. cbn [it_body it_nm it_t].
    destruct (j =? 0), (st_init st); reflexivity.
  Qed.

  Definition next_items (p : N) (st : state) : list item :=
    match st_next st with
    | Some nx => if st_is_const st then []
                 else [ {| it_e := st_sym st; it_k := p + 1; it_nm := name_at (sym_name (st_sym st)) (p + 1);
                           it_t := type_of (st_sym st); it_body := Some (expr_in_step en nx p) |} ]
    | None => [ {| it_e := st_sym st; it_k := p + 1; it_nm := name_at (sym_name (st_sym st)) (p + 1);
                   it_t := type_of (st_sym st); it_body := None |} ]
    end.

  Lemma next_states_items p :
    flat_map (fun st =>
         let n := name_at (sym_name (st_sym st)) (p + 1) in
         let t := type_of (st_sym st) in
         match st_next st with
         | Some nx => if st_is_const st then [] else [DefineFun n t (expr_in_step en nx p)]
         | None => [DeclareConst n t]
         end) (s_states sy) = map item_cmd (flat_map (next_items p) (s_states sy)).
  Proof.
    induction (s_states sy) as [|st r IH]; [reflexivity|].
    cbn [flat_map]. rewrite map_app. cbn zeta in IH. rewrite <- IH. f_equal. unfold next_items.
    destruct (st_next st); [destruct (st_is_const st)|]; reflexivity.
  Qed.

  Lemma state_ty_pos st : In st (s_states sy) -> ty_pos (type_of (st_sym st)) = true.
  Proof. intros Hin. apply wt_ty_pos. apply (signal_wt en Hb). unfold signal_exprs. apply in_or_app. right. now apply in_map. Qed.

  Lemma nodup_flat_map_states (f : state -> list item) :
    (forall st it, In it (f st) -> it_e it = st_sym st) ->
    (forall st, (length (f st) <= 1)%nat) ->
    NoDup (map it_e (flat_map f (s_states sy))).
  Proof.
    intros He Hlen. pose proof (eb_states_nodup en Hb) as Hnd. fold sy in Hnd.
    induction (s_states sy) as [|st r IH]; [constructor|].
    cbn [flat_map map] in *. inversion Hnd as [|? ? Hna Hr]; subst. rewrite map_app.
    specialize (IH Hr). specialize (Hlen st).
    destruct (f st) as [|it [|it2 l]] eqn:Ef; cbn [length] in Hlen; try lia; cbn [map app]; [assumption|].
    constructor; [|assumption].
    rewrite (He st it) by (rewrite Ef; now left).
    intros Hin. apply in_map_iff in Hin. destruct Hin as (it' & He' & Hin').
    apply in_flat_map in Hin'. destruct Hin' as (st' & Hst' & Hit').
    apply Hna. rewrite <- He', (He st' it' Hit'). now apply in_map.
  Qed.

  (** ** the invariant between blocks *)
  Definition Open (d : decls) (k : N) : Prop :=
    (forall st, In st (s_states sy) -> Has d (st_sym st) k) /\
    (forall s, In s (e_sigs en) -> fO s = true -> Has d (sg_expr s) k).

  Definition InitSigs (d : decls) : Prop :=
    forall s, In s (e_sigs en) -> fI s = true -> Has d (sg_expr s) 0.

  (** an over-approximation of what has been emitted when step [k] is open *)
  Definition Em (j k : N) (e : expr) (k' : N) : Prop :=
    ((exists st, In st (s_states sy) /\ st_sym st = e) /\ j <= k' <= k) \/
    (exists s, In s (e_sigs en) /\ sg_expr s = e /\
               ((fO s = true /\ j <= k' <= k) \/ (fI s = true /\ j = 0 /\ k' = 0) \/
                (next_only s = true /\ j <= k' < k))).

  Lemma state_not_sig st s : In st (s_states sy) -> In s (e_sigs en) -> st_sym st = sg_expr s -> False.
  Proof.
    intros Hst Hs He. pose proof (find_state_of en Hb st Hst) as H1.
    pose proof (eb_nostate en Hb s Hs) as H2. rewrite He in H1. congruence.
  Qed.

  Lemma dep_cases x k : sig_sym en x k <> None ->
    (exists st, In st (s_states sy) /\ st_sym st = x) \/ (exists s, In s (e_sigs en) /\ sg_expr s = x).
  Proof.
    intros H. destruct (find_state en x) as [st|] eqn:E.
    - left. exists st. now apply find_state_in.
    - right. now apply (sig_of_expr x k).
  Qed.

  Lemma proper_subterm_of_symbol e x : is_symbol e = true -> In x (subterms e) -> x = e.
  Proof. destruct e; try discriminate; cbn [subterms]; intros _ [H|[]]; auto. Qed.

  Definition fD (p : N) (s : sig) : bool := next_only s && negb ((p =? 0) && pos (u_init (sg_uses s))).

  Lemma unroll_ok j p d :
    j <= p -> Open d p -> (p = 0 -> InitSigs d) -> Emitted d (Em j p) ->
    let d' := script_decls d (unroll Fixed en j p) in
    script_check d (unroll Fixed en j p) = true /\ Open d' (p + 1) /\ Emitted d' (Em j (p + 1)).
  Proof.
    intros Hjp [HopS HopO] Hinit Hem. unfold unroll.
    (* block D *)
    destruct (signals_block p (fD p) (Em j p) d Hem) as (Hc1 & Hm1 & Hd1 & He1).
    { intros s Hs Hf [[(st & Hst & He) _]|(s0 & Hs0 & He & Hcase)].
      - now apply (state_not_sig st s).
      - assert (s0 = s) by (now apply in_sigs_unique). subst s0.
        unfold fD in Hf. apply andb_true_iff in Hf. destruct Hf as [Hno Hni].
        destruct Hcase as [[HO _]|[(HI & Hj0 & Hp0)|[_ Hlt]]].
        + rewrite (next_only_not_O s Hno) in HO. discriminate.
        + subst p. unfold fI in HI. rewrite HI in Hni. discriminate.
        + lia. }
    { intros s x Hs Hf Hx Hne Hsx. unfold fD in Hf. apply andb_true_iff in Hf. destruct Hf as [Hno Hni].
      destruct (dep_cases x p Hsx) as [(st & Hst & <-)|(s' & Hs' & <-)].
      - left. now apply HopS.
      - assert (Hnx : pos (u_next (sg_uses s')) = true).
        { apply (eo_mono en Ho s s' Hs Hs' Hx). unfold next_only in Hno.
          repeat (apply andb_true_iff in Hno; destruct Hno as [Hno ?]). assumption. }
        destruct (fO s') eqn:EO; [left; now apply HopO|].
        pose proof (not_O_next s' EO Hnx) as Hno'.
        destruct ((p =? 0) && pos (u_init (sg_uses s'))) eqn:Ei.
        + apply andb_true_iff in Ei. destruct Ei as [Hp0 HI]. apply N.eqb_eq in Hp0. left. rewrite Hp0. apply (Hinit Hp0); assumption.
        + right. exists s'. unfold fD. rewrite Hno', Ei. auto. }
    fold (fD p) in Hc1, Hm1, Hd1, He1 |- *.
    set (d1 := script_decls d (define_signals en p (fD p))) in *.
    assert (Hfull : forall s, In s (e_sigs en) -> next_only s = true -> Has d1 (sg_expr s) p).
    { intros s Hs Hno. destruct (fD p s) eqn:Ef; [now apply Hd1|].
      unfold fD in Ef. rewrite Hno in Ef. cbn [andb] in Ef. apply negb_false_iff in Ef.
      apply andb_true_iff in Ef. destruct Ef as [Hp0 HI]. apply N.eqb_eq in Hp0. apply Hm1. rewrite Hp0. apply (Hinit Hp0); assumption. }
    (* block E *)
    rewrite next_states_items.
    set (items := flat_map (next_items p) (s_states sy)).
    set (P1 := fun e k' => Em j p e k' \/ (k' = p /\ exists s, In s (e_sigs en) /\ fD p s = true /\ sg_expr s = e)) in *.
    assert (Hitem : forall it, In it items -> exists st, In st (s_states sy) /\ st_is_const st = false /\
                      it_e it = st_sym st /\ it_k it = p + 1 /\ it_nm it = state_name_at st (p + 1) /\
                      it_t it = type_of (st_sym st) /\
                      it_body it = match st_next st with Some nx => Some (expr_in_step en nx p) | None => None end).
    { intros it Hin. apply in_flat_map in Hin. destruct Hin as (st & Hst & Hit). exists st. unfold next_items in Hit.
      unfold state_name_at.
      destruct (st_next st) as [nx|] eqn:En.
      - destruct (st_is_const st) eqn:Ec; [destruct Hit|]. destruct Hit as [<-|[]]. cbn. auto 10.
      - assert (Ec : st_is_const st = false) by (unfold st_is_const; now rewrite En).
        rewrite Ec. destruct Hit as [<-|[]]. cbn. auto 10. }
    destruct (items_ok P1 d1 items) with (l2 := items) (l1 := @nil item) (d := d1) as (Hc2 & Hm2 & Hd2 & He2).
    { intros it Hin. destruct (Hitem it Hin) as (st & Hst & Hc & He & Hk & Hnm & Ht & _).
      rewrite He, Hk, Hnm, Ht. split; [now apply (sig_sym_state en Hb)|now apply state_ty_pos]. }
    { apply nodup_flat_map_states.
      - intros st it Hit. unfold next_items in Hit. destruct (st_next st); [destruct (st_is_const st)|];
          try destruct Hit as [<-|[]]; try destruct Hit; reflexivity.
      - intros st. unfold next_items. destruct (st_next st); [destruct (st_is_const st)|]; cbn; lia. }
    { intros it k' Hin Hk HP. destruct (Hitem it Hin) as (st & Hst & Hc & He & Hkk & _).
      assert (Hk' : k' = p + 1).
      { destruct Hk as [Hk|(st' & Hf & Hc')]; [congruence|].
        rewrite He, (find_state_of en Hb st Hst) in Hf. inversion Hf; subst. congruence. }
      subst k'. rewrite He in HP. destruct HP as [[[_ Hr]|(s & Hs & Hes & _)]|(_ & s & Hs & _ & Hes)].
      - lia.
      - now apply (state_not_sig st s).
      - now apply (state_not_sig st s). }
    { intros l1 it l2 b d' Hsplit Hbody Hmono' _.
      assert (Hin : In it items) by (rewrite Hsplit; apply in_or_app; right; now left).
      destruct (Hitem it Hin) as (st & Hst & Hc & He & Hk & Hnm & Ht & Hb').
      rewrite Hb' in Hbody. destruct (st_next st) as [nx|] eqn:En; [|discriminate]. inversion Hbody; subst b.
      destruct (state_next_ok en Hb st nx Hst En) as [Hwt Hty].
      assert (Hnxr : In nx (next_exprs (e_sys en))).
      { unfold next_exprs. apply in_flat_map. exists st. split; [assumption|]. rewrite En. now left. }
      destruct (body_ok d' nx p (negb (is_symbol nx)) Hwt) as (Hw & Htt & Hok).
      - apply (eb_closed en Hb). right; right. exact Hnxr.
      - intros H. now apply negb_true_iff in H.
      - intros x Hx _ Hsx. apply Hmono'.
        destruct (dep_cases x p Hsx) as [(st' & Hst' & <-)|(s' & Hs' & <-)].
        + apply Hm1. now apply HopS.
        + assert (Hnx : pos (u_next (sg_uses s')) = true) by (now apply (eo_next_root en Ho nx s')).
          destruct (fO s') eqn:EO; [apply Hm1; now apply HopO|].
          apply Hfull; [assumption|]. now apply not_O_next.
      - unfold expr_in_step. rewrite Ht, <- Hty. auto. }
    { reflexivity. } { auto. } { intros it []. }
    { eapply Emitted_weaken; [exact He1|]. intros e k' HP. now left. }
    cbn zeta in Hc2, Hm2, Hd2, He2.
    set (d2 := script_decls d1 (map item_cmd items)) in *.
    assert (HS2 : forall st, In st (s_states sy) -> Has d2 (st_sym st) (p + 1)).
    { intros st Hst. destruct (st_is_const st) eqn:Ec.
      - apply Hm2, Hm1. apply (Has_const_state d st p (p + 1) Hst Ec). now apply HopS.
      - assert (exists it, In it items /\ it_e it = st_sym st /\ it_k it = p + 1) as (it & Hin & He & Hk).
        { unfold items. unfold next_items.
          destruct (st_next st) as [nx|] eqn:En.
          - eexists. split; [apply in_flat_map; exists st; split; [assumption|]; rewrite En, Ec; now left|]. auto.
          - eexists. split; [apply in_flat_map; exists st; split; [assumption|]; rewrite En; now left|]. auto. }
        rewrite <- He, <- Hk. now apply Hd2. }
    (* block F *)
    set (P2 := fun e k => P1 e k \/ exists it, In it items /\ it_e it = e /\ it_k it = k) in *.
    destruct (signals_block (p + 1) fO P2 d2 He2) as (Hc3 & Hm3 & Hd3 & He3).
    { intros s Hs Hf [[[[_ Hr]|(s0 & _ & _ & Hcase)]|[Hk _]]|(it & Hin & He & _)].
      - lia.
      - destruct Hcase as [[_ ?]|[(_ & _ & ?)|[_ ?]]]; lia.
      - lia.
      - destruct (Hitem it Hin) as (st & Hst & _ & He' & _). rewrite He' in He. now apply (state_not_sig st s). }
    { intros s x Hs Hf Hx Hne Hsx.
      destruct (is_symbol (sg_expr s)) eqn:Esym; [exfalso; apply Hne; now apply proper_subterm_of_symbol|].
      pose proof (nonsym_O_other s Hs Hf Esym) as Hoth.
      destruct (dep_cases x (p + 1) Hsx) as [(st & Hst & <-)|(s' & Hs' & <-)].
      - left. now apply HS2.
      - right. exists s'. split; [assumption|]. split; [reflexivity|].
        unfold fO. rewrite (proj2 (proj2 (eo_mono en Ho s s' Hs Hs' Hx)) Hoth). reflexivity. }
    (* assemble *)
    rewrite !script_check_app, !script_decls_app.
    fold d1. rewrite Hc1. cbn [andb]. fold d2. rewrite Hc2. cbn [andb].
    change (fun s : sig => pos (u_other (sg_uses s)) || sg_input s) with fO.
    rewrite Hc3. cbn [andb]. split; [reflexivity|]. split.
    - split; [intros st Hst; now apply Hm3, HS2|intros s Hs Hf; now apply Hd3].
    - eapply Emitted_weaken; [exact He3|].
      intros e k' [[[Hem0|(-> & s & Hs & Hf & He)]|(it & Hin & He & Hk)]|(-> & s & Hs & Hf & He)].
      + destruct Hem0 as [[Hst Hr]|(s & Hs & He & Hcase)].
        * left. split; [assumption|lia].
        * right. exists s. split; [assumption|]. split; [assumption|].
          destruct Hcase as [[HO Hr]|[HI|[Hno Hr]]]; [left; split; [assumption|lia]|right; left; assumption|right; right; split; [assumption|lia]].
      + right. exists s. split; [assumption|]. split; [assumption|]. right; right.
        unfold fD in Hf. apply andb_true_iff in Hf. split; [tauto|lia].
      + destruct (Hitem it Hin) as (st & Hst & _ & He' & Hk' & _). left. split; [exists st; split; [assumption|congruence]|lia].
      + right. exists s. split; [assumption|]. split; [assumption|]. left. split; [assumption|lia].
  Qed.

  (** ** [init_at] *)
  Definition fC (s : sig) : bool := (pos (u_other (sg_uses s)) || sg_input s) && (u_init (sg_uses s) =? 0).

  Lemma Emitted_nil (P : expr -> N -> Prop) : Emitted [] P.
  Proof. intros nm H. discriminate. Qed.

  Lemma init_items_props j it : In it (map (init_item j) (s_states sy)) ->
    exists st, In st (s_states sy) /\ it = init_item j st.
  Proof. intros H. apply in_map_iff in H. destruct H as (st & <- & Hin). eauto. Qed.

  Lemma init_ok j :
    (j = 0 -> init_reads_ok en) ->
    let d' := script_decls [] (init_at Fixed en j) in
    script_check [] (init_at Fixed en j) = true /\ Open d' j /\ (j = 0 -> InitSigs d') /\ Emitted d' (Em j j).
  Proof.
    intros Hir. unfold init_at. rewrite init_states_items. destruct (N.eqb_spec j 0) as [->|Hj].
    - (* from the initial state *)
      specialize (Hir eq_refl).
      (* block A *)
      destruct (signals_block 0 fI (fun _ _ => False) [] (Emitted_nil _)) as (Hc1 & Hm1 & Hd1 & He1).
      { intros s Hs Hf []. }
      { intros s x Hs Hf Hx Hne Hsx.
        destruct (dep_cases x 0 Hsx) as [(st & Hst & <-)|(s' & Hs' & <-)].
        - exfalso. pose proof (ir_sig en Hir s (st_sym st) Hs Hf) as H.
          rewrite (find_state_of en Hb st Hst) in H. discriminate H.
          apply subterm_symbol; [assumption|now apply (state_sym_is_symbol en Hb)].
        - right. exists s'. split; [assumption|]. split; [reflexivity|].
          now apply (eo_mono en Ho s s' Hs Hs' Hx). }
      change (fun s : sig => pos (u_init (sg_uses s))) with fI.
      set (d1 := script_decls [] (define_signals en 0 fI)) in *.
      (* block B *)
      set (items := map (init_item 0) (s_states sy)).
      set (P1 := fun e k' => False \/ (k' = 0 /\ exists s, In s (e_sigs en) /\ fI s = true /\ sg_expr s = e)) in *.
      destruct (items_ok P1 d1 items) with (l2 := items) (l1 := @nil item) (d := d1) as (Hc2 & Hm2 & Hd2 & He2).
      { intros it Hin. destruct (init_items_props 0 it Hin) as (st & Hst & ->). cbn [init_item it_e it_k it_nm it_t].
        split; [now apply (sig_sym_state en Hb)|now apply state_ty_pos]. }
      { unfold items. rewrite map_map. cbn [init_item it_e]. apply (eb_states_nodup en Hb). }
      { intros it k' Hin _ [[]|(_ & s & Hs & _ & He)]. destruct (init_items_props 0 it Hin) as (st & Hst & ->).
        cbn [init_item it_e] in He. now apply (state_not_sig st s). }
      { intros l1 it l2 b d' Hsplit Hbody Hmono' Hdone.
        unfold items in Hsplit. apply map_eq_app in Hsplit. destruct Hsplit as (l1' & r' & Hst & Hl1 & Hr).
        apply map_eq_cons in Hr. destruct Hr as (st & l2' & -> & <- & _).
        assert (Hin : In st (s_states sy)) by (rewrite Hst; apply in_or_app; right; now left).
        cbn [init_item it_body it_t] in *. rewrite N.eqb_refl in Hbody.
        destruct (st_init st) as [v|] eqn:Ei; [|discriminate]. inversion Hbody; subst b.
        destruct (state_init_ok en Hb st v Hin Ei) as [Hwt Hty].
        assert (Hvr : In v (init_exprs (e_sys en))).
        { unfold init_exprs. apply in_flat_map. exists st. split; [assumption|]. rewrite Ei. now left. }
        destruct (body_ok d' v 0 (negb (is_symbol v)) Hwt) as (Hw & Htt & Hok).
        - apply (eb_closed en Hb). right; left. exact Hvr.
        - intros H. now apply negb_true_iff in H.
        - intros x Hx _ Hsx.
          destruct (dep_cases x 0 Hsx) as [(st' & Hst' & <-)|(s' & Hs' & <-)].
          + assert (Hl : In st' l1').
            { apply (ir_state en Hir l1' st l2' v (st_sym st') st' Hst Ei).
              - apply subterm_symbol; [assumption|now apply (state_sym_is_symbol en Hb)].
              - now apply (find_state_of en Hb). }
            apply (Hdone (init_item 0 st')). rewrite <- Hl1. now apply in_map.
          + apply Hmono'. apply Hd1; [assumption|]. now apply (eo_init_root en Ho v s').
        - unfold expr_in_step. rewrite <- Hty. auto. }
      { reflexivity. } { auto. } { intros it []. }
      { eapply Emitted_weaken; [exact He1|]. intros e k' HP. now left. }
      cbn zeta in Hc2, Hm2, Hd2, He2.
      set (d2 := script_decls d1 (map item_cmd items)) in *.
      assert (HS2 : forall st, In st (s_states sy) -> Has d2 (st_sym st) 0).
      { intros st Hst. apply (Hd2 (init_item 0 st)). unfold items. now apply in_map. }
      (* block C *)
      set (P2 := fun e k => P1 e k \/ exists it, In it items /\ it_e it = e /\ it_k it = k) in *.
      destruct (signals_block 0 fC P2 d2 He2) as (Hc3 & Hm3 & Hd3 & He3).
      { intros s Hs Hf [[[]|(_ & s0 & Hs0 & HI & He)]|(it & Hin & He & _)].
        - assert (s0 = s) by (now apply in_sigs_unique). subst s0.
          unfold fC in Hf. apply andb_true_iff in Hf. destruct Hf as [_ Hf]. rewrite eqb0_pos in Hf.
          unfold fI in HI. rewrite HI in Hf. discriminate.
        - destruct (init_items_props 0 it Hin) as (st & Hst & ->). cbn [init_item it_e] in He.
          now apply (state_not_sig st s). }
      { intros s x Hs Hf Hx Hne Hsx.
        destruct (is_symbol (sg_expr s)) eqn:Esym; [exfalso; apply Hne; now apply proper_subterm_of_symbol|].
        unfold fC in Hf. apply andb_true_iff in Hf. destruct Hf as [HfO _].
        pose proof (nonsym_O_other s Hs HfO Esym) as Hoth.
        destruct (dep_cases x 0 Hsx) as [(st & Hst & <-)|(s' & Hs' & <-)].
        - left. now apply HS2.
        - pose proof (proj2 (proj2 (eo_mono en Ho s s' Hs Hs' Hx)) Hoth) as Hoth'.
          destruct (fI s') eqn:EI.
          + left. apply Hm2. now apply Hd1.
          + right. exists s'. split; [assumption|]. split; [reflexivity|].
            unfold fC. rewrite Hoth', eqb0_pos. unfold fI in EI. now rewrite EI. }
      rewrite !script_check_app, !script_decls_app.
      fold d1. rewrite Hc1. cbn [andb]. fold d2. rewrite Hc2. cbn [andb].
      change (fun s : sig => (pos (u_other (sg_uses s)) || sg_input s) && (u_init (sg_uses s) =? 0)) with fC.
      rewrite Hc3. cbn [andb]. split; [reflexivity|]. split; [|split].
      + split; [intros st Hst; now apply Hm3, HS2|].
        intros s Hs Hf. destruct (fI s) eqn:EI; [apply Hm3, Hm2; now apply Hd1|].
        apply Hd3; [assumption|]. unfold fC. unfold fO in Hf. rewrite Hf, eqb0_pos. unfold fI in EI. now rewrite EI.
      + intros _ s Hs HI. apply Hm3, Hm2. now apply Hd1.
      + eapply Emitted_weaken; [exact He3|].
        intros e k' [[[[]|(-> & s & Hs & Hf & He)]|(it & Hin & He & Hk)]|(-> & s & Hs & Hf & He)].
        * right. exists s. split; [assumption|]. split; [assumption|]. right; left. auto.
        * destruct (init_items_props 0 it Hin) as (st & Hst & ->). cbn [init_item it_e it_k] in *.
          left. split; [exists st; auto|lia].
        * right. exists s. split; [assumption|]. split; [assumption|]. left.
          unfold fC in Hf. apply andb_true_iff in Hf. split; [tauto|lia].
    - (* from a later step *)
      cbn [app].
      set (items := map (init_item j) (s_states sy)).
      destruct (items_ok (fun _ _ => False) [] items) with (l2 := items) (l1 := @nil item) (d := @nil (string * ty)) as (Hc2 & Hm2 & Hd2 & He2).
      { intros it Hin. destruct (init_items_props j it Hin) as (st & Hst & ->). cbn [init_item it_e it_k it_nm it_t].
        split; [now apply (sig_sym_state en Hb)|now apply state_ty_pos]. }
      { unfold items. rewrite map_map. cbn [init_item it_e]. apply (eb_states_nodup en Hb). }
      { intros it k' Hin _ []. }
      { intros l1 it l2 b d' Hsplit Hbody _ _.
        assert (Hin : In it items) by (rewrite Hsplit; apply in_or_app; right; now left).
        destruct (init_items_props j it Hin) as (st & Hst & ->). cbn [init_item it_body] in Hbody.
        apply N.eqb_neq in Hj. rewrite Hj in Hbody. discriminate. }
      { reflexivity. } { auto. } { intros it []. } { apply Emitted_nil. }
      cbn zeta in Hc2, Hm2, Hd2, He2.
      set (d2 := script_decls [] (map item_cmd items)) in *.
      assert (HS2 : forall st, In st (s_states sy) -> Has d2 (st_sym st) j).
      { intros st Hst. apply (Hd2 (init_item j st)). unfold items. now apply in_map. }
      set (P2 := fun e k => False \/ exists it, In it items /\ it_e it = e /\ it_k it = k) in *.
      destruct (signals_block j fO P2 d2 He2) as (Hc3 & Hm3 & Hd3 & He3).
      { intros s Hs Hf [[]|(it & Hin & He & _)].
        destruct (init_items_props j it Hin) as (st & Hst & ->). cbn [init_item it_e] in He.
        now apply (state_not_sig st s). }
      { intros s x Hs Hf Hx Hne Hsx.
        destruct (is_symbol (sg_expr s)) eqn:Esym; [exfalso; apply Hne; now apply proper_subterm_of_symbol|].
        pose proof (nonsym_O_other s Hs Hf Esym) as Hoth.
        destruct (dep_cases x j Hsx) as [(st & Hst & <-)|(s' & Hs' & <-)].
        - left. now apply HS2.
        - right. exists s'. split; [assumption|]. split; [reflexivity|].
          unfold fO. rewrite (proj2 (proj2 (eo_mono en Ho s s' Hs Hs' Hx)) Hoth). reflexivity. }
      rewrite script_check_app, script_decls_app.
      fold d2. rewrite Hc2. cbn [andb].
      change (fun s : sig => pos (u_other (sg_uses s)) || sg_input s) with fO.
      rewrite Hc3. split; [reflexivity|]. split; [|split].
      + split; [intros st Hst; now apply Hm3, HS2|intros s Hs Hf; now apply Hd3].
      + intros ->. contradiction.
      + eapply Emitted_weaken; [exact He3|].
        intros e k' [[[]|(it & Hin & He & Hk)]|(-> & s & Hs & Hf & He)].
        * destruct (init_items_props j it Hin) as (st & Hst & ->). cbn [init_item it_e it_k] in *.
          left. split; [exists st; auto|lia].
        * right. exists s. split; [assumption|]. split; [assumption|]. left. split; [assumption|lia].
  Qed.

  (** ** the whole script *)
  Lemma unrolls_ok j : forall m p d,
    j <= p -> Open d p -> (p = 0 -> InitSigs d) -> Emitted d (Em j p) ->
    script_check d (unrolls Fixed en j p m) = true.
  Proof.
    induction m as [|m IH]; intros p d Hjp Hop Hinit Hem; [reflexivity|].
    cbn [unrolls]. rewrite script_check_app.
    destruct (unroll_ok j p d Hjp Hop Hinit Hem) as (Hc & Hop' & Hem').
    rewrite Hc. cbn [andb]. apply IH; [lia|assumption|intros; lia|assumption].
  Qed.

  Theorem script_wf_fixed j n :
    (j = 0 -> init_reads_ok en) ->
    script_check [] (script Fixed en j n) = true.
  Proof.
    intros Hir. unfold script. rewrite script_check_app.
    destruct (init_ok j Hir) as (Hc & Hop & Hinit & Hem).
    rewrite Hc. cbn [andb]. apply unrolls_ok; [lia|assumption|assumption|assumption].
  Qed.
End Wf.
