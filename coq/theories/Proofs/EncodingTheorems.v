(** * Proofs/EncodingTheorems.v — the statements of Props/C04.v, assembled. *)
From Coq Require Import List Bool Lia.
From Patronus Require Import EvalImpl Encoding SysExec ReachBmc ExprLemmas McBasics ScriptProofs EncodingBasics
     EncodingFaithful EncodingWf AnalysisProofs EncodingNew.
Import ListNotations.
Open Scope N_scope.

(** ** the class of systems on which the current code is known to fail *)
(** from the initial state: a signal used by init and next expressions only;
    from a later step: a signal used by init expressions only *)
Definition known_class (en : enc) (j : N) : Prop :=
  exists s, In s (e_sigs en) /\
    if j =? 0 then next_only s = true /\ pos (u_init (sg_uses s)) = true
    else next_only s = false /\ (pos (u_other (sg_uses s)) || sg_input s) = false.

Lemma define_signals_ext en k f g :
  (forall s, In s (e_sigs en) -> f s = g s) -> define_signals en k f = define_signals en k g.
Proof.
  intros H. unfold define_signals. induction (e_sigs en) as [|s r IH]; [reflexivity|].
  cbn [flat_map]. rewrite (H s (or_introl eq_refl)), IH; [reflexivity|]. intros s' Hs'. apply H. now right.
Qed.

Lemma next_only_not_fO s : next_only s = true -> (pos (u_other (sg_uses s)) || sg_input s) = false.
Proof.
  unfold next_only. intros H. repeat (apply andb_true_iff in H; destruct H as [H ?]).
  apply N.eqb_eq in H1. rewrite H1. apply negb_true_iff in H0. now rewrite H0.
Qed.

Lemma current_eq_fixed en j : ~ known_class en j -> forall n, script Current en j n = script Fixed en j n.
Proof.
  intros Hk n. unfold script. f_equal.
  - (* init_at *)
    unfold init_at. destruct (j =? 0) eqn:Ej; [reflexivity|]. do 2 f_equal.
    apply define_signals_ext. intros s Hs.
    destruct (next_only s) eqn:En; cbn [negb].
    + symmetry. now apply next_only_not_fO.
    + destruct (pos (u_other (sg_uses s)) || sg_input s) eqn:Eo; [reflexivity|].
      exfalso. apply Hk. exists s. rewrite Ej. auto.
  - (* unrolls *)
    assert (H : forall m p, j <= p -> unrolls Current en j p m = unrolls Fixed en j p m).
    { induction m as [|m IH]; intros p Hp; [reflexivity|]. cbn [unrolls]. rewrite IH by lia. f_equal.
      unfold unroll. f_equal. apply define_signals_ext. intros s Hs.
      destruct (next_only s) eqn:En; cbn [andb]; [|reflexivity].
      destruct ((p =? 0) && pos (u_init (sg_uses s))) eqn:E; [|reflexivity].
      exfalso. apply andb_true_iff in E. destruct E as [Ep Ei]. apply N.eqb_eq in Ep. subst p.
      assert (j = 0) by lia. subst j. apply Hk. exists s. cbn. auto. }
    apply H. lia.
Qed.

(** ** well-formedness *)
Theorem script_wf_fixed_sys sy nm j n :
  sys_wf sy = true -> name_inj (enc_new sy nm) -> (j = 0 -> init_reads_ok (enc_new sy nm)) ->
  script_check [] (script Fixed (enc_new sy nm) j n) = true.
Proof.
  intros Hwf Hn Hir. apply script_wf_fixed; try assumption.
  - now apply enc_new_basic.
  - now apply enc_new_order.
Qed.

Theorem script_wf_outside_known sy nm j n :
  sys_wf sy = true -> name_inj (enc_new sy nm) -> (j = 0 -> init_reads_ok (enc_new sy nm)) ->
  ~ known_class (enc_new sy nm) j ->
  script_check [] (script Current (enc_new sy nm) j n) = true.
Proof. intros Hwf Hn Hir Hk. rewrite current_eq_fixed by assumption. now apply script_wf_fixed_sys. Qed.

(** a sufficient condition for [init_reads_ok]: no init expression mentions a state *)
Definition inits_state_free (sy : sys) : bool :=
  forallb (fun e => forallb (fun y => negb (is_state_sym sy y)) (symbols_of e)) (init_exprs sy).

Lemma inits_state_free_ok sy nm :
  sys_wf sy = true -> inits_state_free sy = true -> init_reads_ok (enc_new sy nm).
Proof.
  intros Hwf Hf. unfold inits_state_free in Hf. rewrite forallb_forall in Hf.
  pose proof (enc_new_basic sy nm Hwf) as Hb. pose proof (enc_new_order sy nm Hwf) as Ho.
  assert (Hns : forall e y, In e (init_exprs sy) -> In y (symbols_of e) -> find_state (enc_new sy nm) y = None).
  { intros e y He Hy. specialize (Hf e He). rewrite forallb_forall in Hf. specialize (Hf y Hy).
    apply negb_true_iff in Hf. now apply find_state_none. }
  split.
  - intros s y Hs Hi Hy.
    destruct (sig_uses sy nm s Hs) as [Hu _]. rewrite Hu in Hi. cbn [u_init uses_of] in Hi.
    apply pos_count in Hi. destruct Hi as (r & Hr & Hsub).
    apply (Hns r y Hr). eapply symbols_of_subterm; eassumption.
  - intros l1 st l2 e y st' Hsplit He Hy Hf'. exfalso.
    assert (Hin : In e (init_exprs sy)).
    { unfold init_exprs. apply in_flat_map. exists st. split.
      - change (s_states sy) with (s_states (e_sys (enc_new sy nm))). rewrite Hsplit. apply in_or_app. right. now left.
      - rewrite He. now left. }
    rewrite (Hns e y Hin Hy) in Hf'. discriminate.
Qed.

(** ** faithfulness *)
Section Faithful.
  Variables (sy : sys) (nm : expr -> string).
  Hypothesis Hwf : sys_wf sy = true.
  Let en := enc_new sy nm.
  Hypothesis Hn : name_inj en.
  Variables (v : variant) (j : N) (n : nat) (rho0 : env) (frees : list env).
  Hypothesis Hfrees : length frees = n.
  Hypothesis Hinit : j = 0 -> is_initial sy rho0.
  Let trace := run_from sy rho0 frees.
  Let Hb := enc_new_basic sy nm Hwf.

  (** a constant state has the same value at all steps *)
  Lemma const_state_value st : In st (s_states sy) -> st_is_const st = true ->
    forall i, (i <= n)%nat ->
      same_val (at_step j trace (j + N.of_nat i)) (st_sym st) (at_step j trace j) (st_sym st).
  Proof.
    intros Hst Hc. induction i as [|i IH]; intros Hi.
    - replace (j + N.of_nat 0) with j by lia. apply same_val_refl.
    - eapply same_val_trans; [|apply IH; lia].
      assert (Hp : In (j + N.of_nat i) (steps j n)) by (apply in_steps; lia).
      assert (Hp1 : In (j + N.of_nat i + 1) (steps j n)) by (apply in_steps; lia).
      destruct (at_step_next en j n trace rho0 frees eq_refl Hfrees Hinit _ Hp Hp1) as [f Hf].
      replace (j + N.of_nat (S i)) with (j + N.of_nat i + 1) by lia. rewrite Hf.
      unfold st_is_const in Hc. destruct (st_next st) as [nx|] eqn:En; [|discriminate].
      apply expr_eqb_true in Hc. subst nx.
      apply (next_env_state en Hb); assumption.
  Qed.

  Lemma coherent : forall e k e' k' s,
    In (e, k) (pairs en j n) -> In (e', k') (pairs en j n) ->
    sig_sym en e k = Some s -> sig_sym en e' k' = Some s ->
    same_val (at_step j trace k') e' (at_step j trace k) e.
  Proof.
    intros e k e' k' s Hp Hp' Hs Hs'.
    destruct (Hn e k e' k' s s Hs Hs' eq_refl) as [<- [<-|(st & Hst & Hc)]]; [apply same_val_refl|].
    apply find_state_in in Hst. destruct Hst as [Hst <-].
    apply in_prod_iff in Hp, Hp'. destruct Hp as [_ Hk]. destruct Hp' as [_ Hk'].
    apply in_steps in Hk, Hk'.
    eapply same_val_trans; [|apply same_val_sym].
    - replace k' with (j + N.of_nat (N.to_nat (k' - j))) by lia. apply const_state_value; [assumption|assumption|lia].
    - replace k with (j + N.of_nat (N.to_nat (k - j))) by lia. apply const_state_value; [assumption|assumption|lia].
  Qed.

  (** every declared constant is the step symbol of an input or a state *)
  Lemma declare_origin c nm' t :
    In c (script v en j n) -> c = DeclareConst nm' t ->
    exists e k, In k (steps j n) /\ sig_sym en e k = Some (mk_sym nm' t).
  Proof.
    intros Hin ->. apply (script_origin en j n) in Hin.
    destruct Hin as [s k Hs Hk Hc|st k Hst Hk Hc|st e Hst Hj He Hc|st e p Hst Hp Hp1 He Hconst Hc].
    - destruct (is_symbol (sg_expr s)); [|discriminate]. injection Hc as -> ->.
      exists (sg_expr s), k. split; [assumption|]. now apply (sig_sym_sig en Hb).
    - injection Hc as -> ->. exists (st_sym st), k. split; [assumption|]. now apply (sig_sym_state en Hb).
    - discriminate.
    - discriminate.
  Qed.

  (** where the symbols of states and of the signals used by constraints, bad
      states and inputs are introduced *)
  Lemma in_unrolls_intro c : forall m p q, p <= q < p + N.of_nat m -> In c (unroll v en j q) -> In c (unrolls v en j p m).
  Proof.
    induction m as [|m IH]; intros p q Hq Hc; [lia|]. cbn [unrolls]. apply in_or_app.
    destruct (N.eq_dec q p) as [->|Hne]; [now left|]. right. apply (IH (p + 1) q); [lia|assumption].
  Qed.

  Lemma in_define_signals_intro k f s :
    In s (e_sigs en) -> f s = true ->
    exists c, In c (define_signals en k f) /\ cmd_name c = name_at (sg_name s) k /\ cmd_ty c = type_of (sg_expr s).
  Proof.
    intros Hs Hf. eexists. split.
    - unfold define_signals. apply in_flat_map. exists s. split; [assumption|]. rewrite Hf. now left.
    - destruct (is_symbol (sg_expr s)); split; reflexivity.
  Qed.

  Lemma state_covered st k : In st (s_states sy) -> In k (steps j n) ->
    exists c, In c (script v en j n) /\ cmd_name c = state_name_at st k /\ cmd_ty c = type_of (st_sym st).
  Proof.
    intros Hst Hk. apply in_steps in Hk.
    assert (Hinit_cmd : exists c, In c (init_at v en j) /\ cmd_name c = state_name_at st j /\ cmd_ty c = type_of (st_sym st)).
    { eexists. split.
      - unfold init_at. apply in_or_app. right. apply in_or_app. left. apply in_map_iff. exists st. split; [reflexivity|assumption].
      - destruct (j =? 0), (st_init st); split; reflexivity. }
    destruct (N.eq_dec k j) as [->|Hne].
    - destruct Hinit_cmd as (c & Hc & Hn1 & Ht). exists c. split; [unfold script; apply in_or_app; now left|auto].
    - destruct (st_is_const st) eqn:Ec.
      + destruct Hinit_cmd as (c & Hc & Hn1 & Ht). exists c. split; [unfold script; apply in_or_app; now left|].
        split; [|assumption]. rewrite Hn1. unfold state_name_at. now rewrite Ec.
      + set (p := k - 1).
        assert (Hp : j <= p < j + N.of_nat n) by (unfold p; lia).
        assert (Hk1 : k = p + 1) by (unfold p; lia).
        assert (Hin : forall c, In c (unroll v en j p) -> In c (script v en j n)).
        { intros c Hc. unfold script. apply in_or_app. right. now apply (in_unrolls_intro _ n j p Hp). }
        assert (Hmid : forall c,
                 In c (match st_next st with
                       | Some nx => if st_is_const st then [] else [DefineFun (name_at (sym_name (st_sym st)) (p + 1)) (type_of (st_sym st)) (expr_in_step en nx p)]
                       | None => [DeclareConst (name_at (sym_name (st_sym st)) (p + 1)) (type_of (st_sym st))]
                       end) -> In c (unroll v en j p)).
        { intros c Hc. unfold unroll. apply in_or_app. right. apply in_or_app. left.
          apply in_flat_map. exists st. split; assumption. }
        unfold state_name_at. rewrite Ec, Hk1.
        destruct (st_next st) as [nx|] eqn:En.
        * eexists. split; [apply Hin, Hmid; rewrite Ec; now left|split; reflexivity].
        * eexists. split; [apply Hin, Hmid; now left|split; reflexivity].
  Qed.

  Lemma sig_covered s k : In s (e_sigs en) -> (pos (u_other (sg_uses s)) || sg_input s) = true -> In k (steps j n) ->
    exists c, In c (script v en j n) /\ cmd_name c = name_at (sg_name s) k /\ cmd_ty c = type_of (sg_expr s).
  Proof.
    intros Hs HO Hk. apply in_steps in Hk.
    destruct (N.eq_dec k j) as [->|Hne].
    - (* in init_at *)
      assert (exists f, f s = true /\ forall c, In c (define_signals en j f) -> In c (init_at v en j)) as (f & Hf & Hsub).
      { unfold init_at. destruct (j =? 0) eqn:Ej.
        - apply N.eqb_eq in Ej. subst j. destruct (pos (u_init (sg_uses s))) eqn:Ei.
          + exists (fun s => pos (u_init (sg_uses s))). split; [assumption|]. intros c Hc. apply in_or_app. now left.
          + eexists. split; [|intros c Hc; apply in_or_app; right; apply in_or_app; right; exact Hc].
            cbn beta. rewrite HO. unfold pos in Ei. apply N.ltb_ge in Ei. apply andb_true_iff. split; [reflexivity|]. apply N.eqb_eq. lia.
        - eexists. split; [|intros c Hc; apply in_or_app; right; apply in_or_app; right; exact Hc].
          destruct v; cbn beta iota; [|assumption].
          destruct (next_only s) eqn:En; [|reflexivity]. rewrite (next_only_not_fO s En) in HO. discriminate. }
      destruct (in_define_signals_intro j f s Hs Hf) as (c & Hc & Hn1 & Ht).
      exists c. split; [unfold script; apply in_or_app; left; now apply Hsub|auto].
    - set (p := k - 1).
      assert (Hp : j <= p < j + N.of_nat n) by (unfold p; lia).
      assert (Hk1 : k = p + 1) by (unfold p; lia).
      destruct (in_define_signals_intro (p + 1) (fun s => pos (u_other (sg_uses s)) || sg_input s) s Hs HO) as (c & Hc & Hn1 & Ht).
      exists c. rewrite Hk1. split; [|auto].
      unfold script. apply in_or_app. right. apply (in_unrolls_intro _ n j p Hp).
      unfold unroll. apply in_or_app. right. apply in_or_app. now right.
  Qed.

  (** the signals bmc looks at *)
  Definition observable (e : expr) : Prop :=
    In e (map st_sym (s_states sy)) \/ In e (s_inputs sy) \/ In e (s_constraints sy) \/ In e (s_bads sy).

  Lemma observable_covered e k s : observable e -> In k (steps j n) -> sig_sym en e k = Some s ->
    exists c, In c (script v en j n) /\ mk_sym (cmd_name c) (cmd_ty c) = s.
  Proof.
    intros Hobs Hk Hs.
    destruct (find_state en e) as [st|] eqn:Ef.
    - apply find_state_in in Ef. destruct Ef as [Hst <-].
      rewrite (sig_sym_state en Hb) in Hs by assumption. injection Hs as <-.
      destruct (state_covered st k Hst Hk) as (c & Hc & Hn1 & Ht). exists c. split; [assumption|]. now rewrite Hn1, Ht.
    - assert (Hsig : sig_sym en e k <> None) by congruence.
      destruct (sig_of_expr en e k Hsig Ef) as (sg & Hsg & <-).
      rewrite (sig_sym_sig en Hb) in Hs by assumption. injection Hs as <-.
      assert (HO : (pos (u_other (sg_uses sg)) || sg_input sg) = true).
      { destruct (sig_uses sy nm sg Hsg) as [Hu Hi]. rewrite Hu, Hi.
        destruct Hobs as [Ho|[Ho|Ho]].
        - exfalso. apply in_map_iff in Ho. destruct Ho as (st & He & Hst).
          change (s_states sy) with (s_states (e_sys en)) in Hst.
          rewrite <- He, (find_state_of en Hb st Hst) in Ef. discriminate.
        - apply orb_true_iff. right. now apply mem_In.
        - apply orb_true_iff. left. cbn [u_other uses_of]. apply pos_count. exists (sg_expr sg). split; [|apply subterms_self].
          unfold other_exprs. cbn [app]. apply in_or_app. tauto. }
      destruct (sig_covered sg k Hsg HO Hk) as (c & Hc & Hn1 & Ht). exists c. split; [assumption|]. now rewrite Hn1, Ht.
  Qed.

  (** The script describes the system: whenever it is accepted by the strict
      checker, evaluating it from a valuation that gives the declared constants
      (inputs, free states) their values in the run gives the symbols of all
      states, inputs, constraints and bad states their values in the run. *)
  Theorem script_faithful sigma0 :
    script_check [] (script v en j n) = true ->
    (forall nm' t e k, In (DeclareConst nm' t) (script v en j n) -> In k (steps j n) ->
        sig_sym en e k = Some (mk_sym nm' t) -> same_val sigma0 (mk_sym nm' t) (at_step j trace k) e) ->
    forall e k s, observable e -> j <= k <= j + N.of_nat n -> get_signal_at en e k = Some s ->
      same_val (script_eval sigma0 (script v en j n)) s (at_step j trace k) e.
  Proof.
    intros Hck Hdecl e k s Hobs Hk Hget. apply in_steps in Hk.
    unfold get_signal_at in Hget. destruct (sig_sym en e k) as [s'|] eqn:Es.
    - inversion Hget; subst s'.
      destruct (observable_covered e k s Hobs Hk Es) as (c & Hc & Hsym).
      apply (script_faithful_gen en Hb j n trace (coherent) rho0 frees eq_refl Hfrees Hinit v sigma0 Hck) with (c := c); try assumption.
      intros nm' t Hin.
      destruct (declare_origin _ nm' t Hin eq_refl) as (e' & k' & Hk' & Hs').
      apply same_val_agree. eapply same_val_trans; [apply (Hdecl nm' t e' k' Hin Hk' Hs')|].
      apply same_val_sym. apply (tau_spec en Hb j n trace coherent); assumption.
    - (* a Boolean literal that is not a signal stands for itself *)
      destruct e; try discriminate. destruct w; try discriminate. destruct p; try discriminate.
      injection Hget as <-. split; reflexivity.
  Qed.
End Faithful.
