(** * Proofs/ExprMetaProofs.v — the containers of meta.rs refine a finite map / a finite set. *)
From Coq Require Import Arith NArith List Bool Lia Sorted.
From Patronus Require Import ExprMeta ExprMetaSpec.
Import ListNotations.
Open Scope N_scope.

(** ** vectors *)
Lemma nth_N_nth : forall (T : Type) (l : list T) (i : N) (d : T), nth_N l i d = nth (N.to_nat i) l d.
Proof.
  intros T l. induction l as [|x r IH]; intros i d.
  - cbn. destruct (N.to_nat i); reflexivity.
  - cbn [nth_N]. destruct (N.eqb_spec i 0) as [E|E].
    + subst. reflexivity.
    + rewrite IH. replace (N.to_nat i) with (S (N.to_nat (N.pred i))) by lia. reflexivity.
Qed.

Lemma replace_N_length : forall (T : Type) (l : list T) (i : N) (v : T), length (replace_N l i v) = length l.
Proof.
  intros T l. induction l as [|x r IH]; intros i v; cbn [replace_N]; [reflexivity|].
  destruct (i =? 0); cbn [length]; [reflexivity|]. rewrite IH. reflexivity.
Qed.

Lemma nth_N_replace : forall (T : Type) (l : list T) (i j : N) (v d : T),
  nth_N (replace_N l i v) j d = if (i =? j) && (i <? len_N l) then v else nth_N l j d.
Proof.
  intros T l. induction l as [|x r IH]; intros i j v d.
  - cbn. destruct (i =? j); cbn; [|reflexivity]. destruct i; reflexivity.
  - cbn [replace_N nth_N]. unfold len_N in *. cbn [length].
    destruct (N.eqb_spec i 0) as [Ei|Ei].
    + subst i. cbn [nth_N]. destruct (N.eqb_spec 0 j) as [Ej|Ej].
      * subst j. cbn. reflexivity.
      * destruct (N.eqb_spec j 0) as [Ej'|Ej']; [lia|]. cbn. reflexivity.
    + cbn [nth_N]. destruct (N.eqb_spec j 0) as [Ej|Ej].
      * subst j. destruct (N.eqb_spec i 0); [lia|]. reflexivity.
      * rewrite IH.
        destruct (N.eqb_spec (N.pred i) (N.pred j)) as [E|E]; destruct (N.eqb_spec i j) as [E'|E']; try lia.
        -- destruct (N.ltb_spec (N.pred i) (N.of_nat (length r))); destruct (N.ltb_spec i (N.of_nat (S (length r)))); try lia; reflexivity.
        -- reflexivity.
Qed.

Lemma nth_N_beyond : forall (T : Type) (l : list T) (i : N) (d : T), len_N l <= i -> nth_N l i d = d.
Proof. intros T l i d H. rewrite nth_N_nth. apply nth_overflow. unfold len_N in H. lia. Qed.

Lemma vec_resize_grow : forall (T : Type) (l : list T) (n : N) (v : T),
  len_N l <= n -> vec_resize l n v = l ++ repeat v (N.to_nat n - length l).
Proof.
  intros T l n v H. unfold vec_resize. rewrite firstn_all2; [reflexivity|]. unfold len_N in H. lia.
Qed.

Lemma vec_resize_length : forall (T : Type) (l : list T) (n : N) (v : T), len_N (vec_resize l n v) = n.
Proof.
  intros T l n v. unfold len_N, vec_resize. rewrite app_length, firstn_length, repeat_length. lia.
Qed.

Lemma nth_N_app_repeat : forall (T : Type) (l : list T) (k : nat) (i : N) (d : T), nth_N (l ++ repeat d k) i d = nth_N l i d.
Proof.
  intros T l k i d. rewrite !nth_N_nth.
  destruct (Nat.lt_ge_cases (N.to_nat i) (length l)) as [H|H].
  - apply app_nth1. exact H.
  - rewrite app_nth2 by exact H. rewrite (nth_overflow l) by exact H.
    apply nth_repeat.
Qed.

(** ** DenseExprMetaData refines [fmap] *)
Definition dense_abs {T : Type} (dflt : T) (d : dense T) : fmap T := fun k => dense_index dflt d k.

Lemma dense_grow_abs : forall (T : Type) (dflt : T) (d : dense T) (e k : N),
  dense_index dflt (dense_grow dflt d e) k = dense_index dflt d k.
Proof.
  intros T dflt d e k. unfold dense_grow, dense_index.
  destruct (N.leb_spec (len_N d) e) as [H|H]; [|reflexivity].
  rewrite vec_resize_grow by lia. apply nth_N_app_repeat.
Qed.

Lemma dense_grow_len : forall (T : Type) (dflt : T) (d : dense T) (e : N), e < len_N (dense_grow dflt d e).
Proof.
  intros T dflt d e. unfold dense_grow. destruct (N.leb_spec (len_N d) e) as [H|H]; [|exact H].
  rewrite vec_resize_length. lia.
Qed.

Lemma dense_grow_len_eq : forall (T : Type) (dflt : T) (d : dense T) (e : N),
  len_N (dense_grow dflt d e) = N.max (len_N d) (e + 1).
Proof.
  intros T dflt d e. unfold dense_grow. destruct (N.leb_spec (len_N d) e) as [H|H].
  - rewrite vec_resize_length. lia.
  - lia.
Qed.

Lemma dense_get_empty : forall (T : Type) (dflt : T) (k : N), dense_index dflt dense_empty k = dflt.
Proof. reflexivity. Qed.

Lemma dense_get_set : forall (T : Type) (dflt : T) (d : dense T) (k k' : N) (v : T),
  dense_index dflt (dense_set dflt d k v) k' = if k =? k' then v else dense_index dflt d k'.
Proof.
  intros T dflt d k k' v. unfold dense_set. unfold dense_index at 1. rewrite nth_N_replace.
  pose proof (dense_grow_len T dflt d k) as L.
  destruct (N.ltb_spec k (len_N (dense_grow dflt d k))) as [_|H]; [|lia].
  rewrite andb_true_r. destruct (k =? k'); [reflexivity|]. apply dense_grow_abs.
Qed.

Lemma dense_index_mut_spec : forall (T : Type) (dflt : T) (d : dense T) (k : N),
  snd (dense_index_mut dflt d k) = dense_index dflt d k /\
  forall k', dense_index dflt (fst (dense_index_mut dflt d k)) k' = dense_index dflt d k'.
Proof.
  intros T dflt d k. unfold dense_index_mut. cbn [fst snd]. split.
  - apply (dense_grow_abs T dflt d k k).
  - intro k'. apply dense_grow_abs.
Qed.

Lemma dense_set_len : forall (T : Type) (dflt : T) (d : dense T) (k : N) (v : T),
  len_N (dense_into_vec (dense_set dflt d k v)) = N.max (len_N d) (k + 1).
Proof.
  intros T dflt d k v. unfold dense_into_vec, dense_set, len_N. rewrite replace_N_length. apply dense_grow_len_eq.
Qed.

Lemma dense_into_vec_spec : forall (T : Type) (dflt : T) (d : dense T) (k : N),
  nth_N (dense_into_vec d) k dflt = dense_index dflt d k.
Proof. reflexivity. Qed.

(** [iter] enumerates the stored slots in index order *)
Lemma enum_from_fst : forall (T : Type) (l : list T) (i : N),
  map fst (enum_from i l) = map (fun n => i + N.of_nat n) (seq 0 (length l)).
Proof.
  intros T l. induction l as [|x r IH]; intro i; cbn [enum_from map length seq fst]; [reflexivity|].
  f_equal; [lia|]. rewrite IH. rewrite <- seq_shift, map_map. apply map_ext. intro n. lia.
Qed.

Lemma enum_from_snd : forall (T : Type) (l : list T) (i : N), map snd (enum_from i l) = l.
Proof. intros T l. induction l as [|x r IH]; intro i; cbn; [reflexivity|]. rewrite IH. reflexivity. Qed.

Lemma enum_from_In : forall (T : Type) (l : list T) (i k : N) (v d : T),
  In (k, v) (enum_from i l) <-> (i <= k /\ k - i < len_N l /\ v = nth_N l (k - i) d).
Proof.
  intros T l. induction l as [|x r IH]; intros i k v d.
  - cbn. unfold len_N. cbn. split; [tauto|lia].
  - cbn [enum_from In nth_N]. unfold len_N in *. cbn [length]. rewrite (IH (i + 1) k v d). split.
    + intros [H|H].
      * inversion H; subst. rewrite N.sub_diag. cbn. repeat split; lia.
      * destruct H as (H1 & H2 & H3). destruct (N.eqb_spec (k - i) 0) as [E|E]; [lia|].
        replace (N.pred (k - i)) with (k - (i + 1)) by lia. repeat split; try lia. exact H3.
    + intros (H1 & H2 & H3). destruct (N.eqb_spec (k - i) 0) as [E|E].
      * left. subst v. f_equal. lia.
      * right. replace (N.pred (k - i)) with (k - (i + 1)) in H3 by lia. repeat split; try lia. exact H3.
Qed.

Lemma dense_iter_keys : forall (T : Type) (d : dense T), map fst (dense_iter d) = map N.of_nat (seq 0 (length d)).
Proof. intros T d. unfold dense_iter. rewrite enum_from_fst. apply map_ext. intro n. lia. Qed.

Lemma dense_iter_values : forall (T : Type) (d : dense T), map snd (dense_iter d) = dense_into_vec d.
Proof. intros T d. apply enum_from_snd. Qed.

Lemma dense_iter_In : forall (T : Type) (dflt : T) (d : dense T) (k : N) (v : T),
  In (k, v) (dense_iter d) <-> (k < len_N d /\ v = dense_index dflt d k).
Proof.
  intros T dflt d k v. unfold dense_iter, dense_index. rewrite (enum_from_In T d 0 k v dflt). rewrite N.sub_0_r.
  split; [intros (_ & H2 & H3)|intros (H2 & H3)]; repeat split; try assumption; lia.
Qed.

Definition eqb_ok {T : Type} (teqb : T -> T -> bool) : Prop := forall a b, teqb a b = true <-> a = b.

Lemma enum_from_sorted : forall (T : Type) (l : list T) (i : N) (f : N * T -> bool),
  StronglySorted N.lt (map fst (filter f (enum_from i l))) /\
  Forall (fun k => i <= k) (map fst (filter f (enum_from i l))).
Proof.
  intros T l. induction l as [|x r IH]; intros i f.
  - cbn. split; constructor.
  - cbn [enum_from filter]. destruct (IH (i + 1) f) as [S1 F1].
    destruct (f (i, x)); cbn [map fst].
    + split.
      * constructor; [exact S1|]. eapply Forall_impl; [|exact F1]. cbn. intros a Ha. lia.
      * constructor; [lia|]. eapply Forall_impl; [|exact F1]. cbn. intros a Ha. lia.
    + split; [exact S1|]. eapply Forall_impl; [|exact F1]. cbn. intros a Ha. lia.
Qed.

Lemma dense_ndk_sorted : forall (T : Type) (teqb : T -> T -> bool) (dflt : T) (d : dense T),
  StronglySorted N.lt (dense_non_default_value_keys teqb dflt d).
Proof. intros. unfold dense_non_default_value_keys, dense_iter. apply enum_from_sorted. Qed.

Lemma dense_ndk_spec : forall (T : Type) (teqb : T -> T -> bool) (dflt : T) (d : dense T) (k : N),
  eqb_ok teqb ->
  (In k (dense_non_default_value_keys teqb dflt d) <-> dense_index dflt d k <> dflt).
Proof.
  intros T teqb dflt d k Hok. unfold dense_non_default_value_keys. rewrite in_map_iff. split.
  - intros ([k0 v] & Hk & Hin). cbn in Hk. subst k0. apply filter_In in Hin. destruct Hin as [Hin Hf].
    apply (dense_iter_In T dflt) in Hin. destruct Hin as [_ Hv]. subst v.
    unfold non_default in Hf. cbn [snd] in Hf. intro E. rewrite E in Hf.
    assert (teqb dflt dflt = true) as Ht by (apply Hok; reflexivity). rewrite Ht in Hf. discriminate.
  - intro Hne. exists (k, dense_index dflt d k). split; [reflexivity|]. apply filter_In. split.
    + apply (dense_iter_In T dflt). split; [|reflexivity].
      destruct (N.lt_ge_cases k (len_N d)) as [H|H]; [exact H|]. exfalso. apply Hne. apply nth_N_beyond. exact H.
    + unfold non_default. cbn [snd]. destruct (teqb (dense_index dflt d k) dflt) eqn:E; [|reflexivity].
      apply Hok in E. contradiction.
Qed.

(** ** SparseExprMap refines [fmap] *)
Definition sparse_abs {T : Type} (dflt : T) (s : sparse T) : fmap T := fun k => sparse_index dflt s k.

(** the hash map holds one entry per key *)
Definition sparse_wf {T : Type} (s : sparse T) : Prop := NoDup (map fst s).

Lemma sparse_find_app : forall (T : Type) (s1 s2 : sparse T) (k : N),
  sparse_find (s1 ++ s2) k = match sparse_find s1 k with Some v => Some v | None => sparse_find s2 k end.
Proof.
  intros T s1 s2 k. induction s1 as [|[k0 v0] r IH]; cbn [app sparse_find]; [reflexivity|].
  destruct (k0 =? k); [reflexivity|exact IH].
Qed.

Lemma sparse_find_replace : forall (T : Type) (s : sparse T) (k k' : N) (v : T),
  sparse_find (sparse_replace s k v) k' =
  if k =? k' then match sparse_find s k with Some _ => Some v | None => None end else sparse_find s k'.
Proof.
  intros T s k k' v. induction s as [|[k0 v0] r IH]; cbn [sparse_replace sparse_find].
  - destruct (k =? k'); reflexivity.
  - destruct (N.eqb_spec k0 k) as [E|E].
    + subst k0. cbn [sparse_find]. destruct (N.eqb_spec k k') as [E'|E']; reflexivity.
    + cbn [sparse_find]. destruct (N.eqb_spec k0 k') as [E1|E1].
      * subst k0. destruct (N.eqb_spec k k'); [lia|reflexivity].
      * exact IH.
Qed.

Lemma sparse_grow_find : forall (T : Type) (dflt : T) (s : sparse T) (e k : N),
  sparse_find (sparse_grow dflt s e) k =
  match sparse_find s k with Some v => Some v | None => if e =? k then Some dflt else None end.
Proof.
  intros T dflt s e k. unfold sparse_grow. destruct (sparse_find s e) eqn:Fe.
  - destruct (sparse_find s k) eqn:Fk; [reflexivity|]. destruct (N.eqb_spec e k) as [E|E]; [|reflexivity].
    subst. rewrite Fe in Fk. discriminate.
  - rewrite sparse_find_app. cbn [sparse_find]. destruct (sparse_find s k); reflexivity.
Qed.

Lemma sparse_grow_abs : forall (T : Type) (dflt : T) (s : sparse T) (e k : N),
  sparse_index dflt (sparse_grow dflt s e) k = sparse_index dflt s k.
Proof.
  intros T dflt s e k. unfold sparse_index. rewrite sparse_grow_find.
  destruct (sparse_find s k); [reflexivity|]. destruct (e =? k); reflexivity.
Qed.

Lemma sparse_get_empty : forall (T : Type) (dflt : T) (k : N), sparse_index dflt sparse_empty k = dflt.
Proof. reflexivity. Qed.

Lemma sparse_get_set : forall (T : Type) (dflt : T) (s : sparse T) (k k' : N) (v : T),
  sparse_index dflt (sparse_set dflt s k v) k' = if k =? k' then v else sparse_index dflt s k'.
Proof.
  intros T dflt s k k' v. unfold sparse_set. unfold sparse_index at 1. rewrite sparse_find_replace.
  destruct (N.eqb_spec k k') as [E|E].
  - rewrite sparse_grow_find. rewrite N.eqb_refl. destruct (sparse_find s k); reflexivity.
  - apply sparse_grow_abs.
Qed.

Lemma sparse_index_mut_spec : forall (T : Type) (dflt : T) (s : sparse T) (k : N),
  snd (sparse_index_mut dflt s k) = sparse_index dflt s k /\
  (forall k', sparse_index dflt (fst (sparse_index_mut dflt s k)) k' = sparse_index dflt s k') /\
  sparse_find (fst (sparse_index_mut dflt s k)) k <> None.
Proof.
  intros T dflt s k. unfold sparse_index_mut. cbn [fst snd]. split; [|split].
  - apply sparse_grow_abs.
  - intro k'. apply sparse_grow_abs.
  - rewrite sparse_grow_find. rewrite N.eqb_refl. destruct (sparse_find s k); discriminate.
Qed.

Lemma sparse_find_In : forall (T : Type) (s : sparse T) (k : N) (v : T),
  sparse_find s k = Some v -> In (k, v) s.
Proof.
  intros T s k v. induction s as [|[k0 v0] r IH]; cbn [sparse_find]; [discriminate|].
  destruct (N.eqb_spec k0 k) as [E|E].
  - intro H. inversion H; subst. left. reflexivity.
  - intro H. right. apply IH. exact H.
Qed.

Lemma sparse_find_None : forall (T : Type) (s : sparse T) (k : N),
  sparse_find s k = None <-> ~ In k (map fst s).
Proof.
  intros T s k. induction s as [|[k0 v0] r IH]; cbn [sparse_find map In fst].
  - tauto.
  - destruct (N.eqb_spec k0 k) as [E|E].
    + split; [discriminate|]. intro H. exfalso. apply H. left. exact E.
    + rewrite IH. tauto.
Qed.

Lemma sparse_In_find : forall (T : Type) (s : sparse T) (k : N) (v : T),
  sparse_wf s -> In (k, v) s -> sparse_find s k = Some v.
Proof.
  intros T s k v. unfold sparse_wf. induction s as [|[k0 v0] r IH]; cbn [map fst In sparse_find]; [tauto|].
  intros Hnd [H|H].
  - inversion H; subst. rewrite N.eqb_refl. reflexivity.
  - inversion Hnd as [|a l Hni Hnd']; subst. destruct (N.eqb_spec k0 k) as [E|E].
    + subst k0. exfalso. apply Hni. apply in_map_iff. exists (k, v). split; [reflexivity|exact H].
    + apply IH; assumption.
Qed.

Lemma sparse_replace_keys : forall (T : Type) (s : sparse T) (k : N) (v : T), map fst (sparse_replace s k v) = map fst s.
Proof.
  intros T s k v. induction s as [|[k0 v0] r IH]; cbn [sparse_replace map fst]; [reflexivity|].
  destruct (k0 =? k); cbn [map fst]; [reflexivity|]. rewrite IH. reflexivity.
Qed.

Lemma sparse_wf_empty : forall T : Type, sparse_wf (@sparse_empty T).
Proof. intro T. constructor. Qed.

Lemma sparse_wf_grow : forall (T : Type) (dflt : T) (s : sparse T) (e : N), sparse_wf s -> sparse_wf (sparse_grow dflt s e).
Proof.
  intros T dflt s e H. unfold sparse_grow. destruct (sparse_find s e) eqn:F; [exact H|].
  unfold sparse_wf. rewrite map_app. cbn [map fst].
  apply sparse_find_None in F. revert H F. unfold sparse_wf. generalize (map fst s) as l. intro l.
  induction l as [|a l IH]; cbn [app]; intros H F.
  - constructor; [intros []|constructor].
  - inversion H as [|a' l' Hni Hnd]; subst. constructor.
    + rewrite in_app_iff. cbn [In]. intros [H1|[H1|[]]]; [contradiction|]. apply F. left. symmetry. exact H1.
    + apply IH; [exact Hnd|]. intro H1. apply F. right. exact H1.
Qed.

Lemma sparse_wf_set : forall (T : Type) (dflt : T) (s : sparse T) (k : N) (v : T), sparse_wf s -> sparse_wf (sparse_set dflt s k v).
Proof.
  intros T dflt s k v H. unfold sparse_set, sparse_wf. rewrite sparse_replace_keys. apply sparse_wf_grow. exact H.
Qed.

Lemma sparse_wf_index_mut : forall (T : Type) (dflt : T) (s : sparse T) (k : N), sparse_wf s -> sparse_wf (fst (sparse_index_mut dflt s k)).
Proof. intros. apply sparse_wf_grow. assumption. Qed.

(** [iter]: one pair per stored key, each with the value [index] returns *)
Lemma sparse_iter_In : forall (T : Type) (dflt : T) (s : sparse T) (k : N) (v : T),
  sparse_wf s -> (In (k, v) (sparse_iter s) <-> sparse_find s k = Some v).
Proof.
  intros T dflt s k v Hwf. unfold sparse_iter. split; [apply sparse_In_find; exact Hwf|apply sparse_find_In].
Qed.

Lemma sparse_iter_keys_nodup : forall (T : Type) (s : sparse T), sparse_wf s -> NoDup (map fst (sparse_iter s)).
Proof. intros T s H. exact H. Qed.

Lemma NoDup_map_filter : forall (A B : Type) (f : A -> B) (p : A -> bool) (l : list A),
  NoDup (map f l) -> NoDup (map f (filter p l)).
Proof.
  intros A B f p l. induction l as [|a l IH]; cbn [map filter]; intro H; [constructor|].
  inversion H as [|x xs Hni Hnd]; subst. destruct (p a); cbn [map].
  - constructor; [|apply IH; exact Hnd]. intro Hin. apply Hni. apply in_map_iff in Hin.
    destruct Hin as (y & Hy & Hin). apply filter_In in Hin. apply in_map_iff. exists y. tauto.
  - apply IH. exact Hnd.
Qed.

Lemma sparse_ndk_nodup : forall (T : Type) (teqb : T -> T -> bool) (dflt : T) (s : sparse T),
  sparse_wf s -> NoDup (sparse_non_default_value_keys teqb dflt s).
Proof. intros. unfold sparse_non_default_value_keys. apply NoDup_map_filter. assumption. Qed.

Lemma sparse_ndk_spec : forall (T : Type) (teqb : T -> T -> bool) (dflt : T) (s : sparse T) (k : N),
  eqb_ok teqb -> sparse_wf s ->
  (In k (sparse_non_default_value_keys teqb dflt s) <-> sparse_index dflt s k <> dflt).
Proof.
  intros T teqb dflt s k Hok Hwf. unfold sparse_non_default_value_keys. rewrite in_map_iff. split.
  - intros ([k0 v] & Hk & Hin). cbn in Hk. subst k0. apply filter_In in Hin. destruct Hin as [Hin Hf].
    apply (sparse_iter_In T dflt s k v Hwf) in Hin. unfold sparse_index. rewrite Hin.
    unfold non_default in Hf. cbn [snd] in Hf. intro E. rewrite E in Hf.
    assert (teqb dflt dflt = true) as Ht by (apply Hok; reflexivity). rewrite Ht in Hf. discriminate.
  - intro Hne. unfold sparse_index in Hne. destruct (sparse_find s k) as [v|] eqn:F; [|contradiction].
    exists (k, v). split; [reflexivity|]. apply filter_In. split.
    + apply sparse_find_In. exact F.
    + unfold non_default. cbn [snd]. destruct (teqb v dflt) eqn:E; [|reflexivity]. apply Hok in E. contradiction.
Qed.

(** ** both map containers against the specification *)
Theorem dense_map_refines : forall (T : Type) (dflt : T),
  fm_eq (dense_abs dflt dense_empty) (fm_empty dflt) /\
  (forall (d : dense T) k v, fm_eq (dense_abs dflt (dense_set dflt d k v)) (fm_set (dense_abs dflt d) k v)) /\
  (forall (d : dense T) k, snd (dense_index_mut dflt d k) = dense_abs dflt d k /\
               fm_eq (dense_abs dflt (fst (dense_index_mut dflt d k))) (dense_abs dflt d)) /\
  (forall (d : dense T), map fst (dense_iter d) = map N.of_nat (seq 0 (length d)) /\ map snd (dense_iter d) = dense_into_vec d) /\
  (forall (d : dense T) k v, In (k, v) (dense_iter d) <-> (k < len_N d /\ v = dense_abs dflt d k)) /\
  (forall (d : dense T) k, nth_N (dense_into_vec d) k dflt = dense_abs dflt d k) /\
  (forall (d : dense T) k v, len_N (dense_into_vec (dense_set dflt d k v)) = N.max (len_N (dense_into_vec d)) (k + 1)) /\
  (forall teqb, eqb_ok teqb -> forall (d : dense T),
      StronglySorted N.lt (dense_non_default_value_keys teqb dflt d) /\
      forall k, In k (dense_non_default_value_keys teqb dflt d) <-> dense_abs dflt d k <> dflt).
Proof.
  intros T dflt. split; [intro k; reflexivity|]. split; [intros d k v k'; apply dense_get_set|].
  split; [intros d k; split; [apply dense_index_mut_spec|intro k'; apply dense_index_mut_spec]|].
  split; [intro d; split; [apply dense_iter_keys|apply dense_iter_values]|].
  split; [intros d k v; apply (dense_iter_In T dflt)|].
  split; [intros d k; reflexivity|].
  split; [intros d k v; apply dense_set_len|].
  intros teqb Hok d. split; [apply dense_ndk_sorted|]. intro k. apply dense_ndk_spec. exact Hok.
Qed.

Theorem sparse_map_refines : forall (T : Type) (dflt : T),
  (sparse_wf (@sparse_empty T) /\ fm_eq (sparse_abs dflt sparse_empty) (fm_empty dflt)) /\
  (forall (s : sparse T) k v, sparse_wf s ->
      sparse_wf (sparse_set dflt s k v) /\ fm_eq (sparse_abs dflt (sparse_set dflt s k v)) (fm_set (sparse_abs dflt s) k v)) /\
  (forall (s : sparse T) k, sparse_wf s ->
      sparse_wf (fst (sparse_index_mut dflt s k)) /\
      snd (sparse_index_mut dflt s k) = sparse_abs dflt s k /\
      fm_eq (sparse_abs dflt (fst (sparse_index_mut dflt s k))) (sparse_abs dflt s) /\
      In k (map fst (sparse_iter (fst (sparse_index_mut dflt s k))))) /\
  (forall (s : sparse T), sparse_wf s -> NoDup (map fst (sparse_iter s)) /\
      forall k v, In (k, v) (sparse_iter s) -> v = sparse_abs dflt s k) /\
  (forall teqb, eqb_ok teqb -> forall (s : sparse T), sparse_wf s ->
      NoDup (sparse_non_default_value_keys teqb dflt s) /\
      forall k, In k (sparse_non_default_value_keys teqb dflt s) <-> sparse_abs dflt s k <> dflt).
Proof.
  intros T dflt. split; [split; [apply sparse_wf_empty|intro k; reflexivity]|].
  split; [|split; [|split]].
  - intros s k v Hwf. split; [apply sparse_wf_set; exact Hwf|]. intro k'. apply sparse_get_set.
  - intros s k Hwf. destruct (sparse_index_mut_spec T dflt s k) as (H1 & H2 & H3).
    split; [apply sparse_wf_index_mut; exact Hwf|]. split; [exact H1|]. split; [exact H2|].
    unfold sparse_iter. destruct (In_dec N.eq_dec k (map fst (fst (sparse_index_mut dflt s k)))) as [Hin|Hni]; [exact Hin|].
    exfalso. apply H3. apply sparse_find_None. exact Hni.
  - intros s Hwf. split; [exact Hwf|]. intros k v Hin. apply (sparse_iter_In T dflt s k v Hwf) in Hin.
    unfold sparse_abs, sparse_index. rewrite Hin. reflexivity.
  - intros teqb Hok s Hwf. split; [apply sparse_ndk_nodup; exact Hwf|]. intro k. apply sparse_ndk_spec; assumption.
Qed.

(** ** [get_fixed_point] over any two containers that implement the same map *)
Definition ops_lawful {M : Type} (ops : map_ops M) : Prop :=
  forall m k v k', mo_get ops (mo_set ops m k v) k' = if k =? k' then v else mo_get ops m k'.

Definition ops_rel {M1 M2 : Type} (o1 : map_ops M1) (o2 : map_ops M2) (m1 : M1) (m2 : M2) : Prop :=
  forall k, mo_get o1 m1 k = mo_get o2 m2 k.

Definition gfp_res_rel {M1 M2 : Type} (o1 : map_ops M1) (o2 : map_ops M2) (r1 : gfp_res M1) (r2 : gfp_res M2) : Prop :=
  match r1, r2 with
  | GfpSome m1 v1, GfpSome m2 v2 => v1 = v2 /\ ops_rel o1 o2 m1 m2
  | GfpNone m1, GfpNone m2 => ops_rel o1 o2 m1 m2
  | GfpFuel, GfpFuel => True
  | _, _ => False
  end.

(** the specification-level container: the map itself *)
Definition fun_ops : map_ops (fmap (option N)) := {| mo_get := fun m k => m k; mo_set := fun m k v => fm_set m k v |}.

Lemma fun_ops_lawful : ops_lawful fun_ops.
Proof. intros m k v k'. reflexivity. Qed.

Lemma dense_ops_lawful : ops_lawful dense_ops.
Proof. intros m k v k'. apply dense_get_set. Qed.

Lemma sparse_ops_lawful : ops_lawful sparse_ops.
Proof. intros m k v k'. apply sparse_get_set. Qed.

Lemma ops_rel_set : forall (M1 M2 : Type) (o1 : map_ops M1) (o2 : map_ops M2) m1 m2 k v,
  ops_lawful o1 -> ops_lawful o2 -> ops_rel o1 o2 m1 m2 -> ops_rel o1 o2 (mo_set o1 m1 k v) (mo_set o2 m2 k v).
Proof. intros M1 M2 o1 o2 m1 m2 k v L1 L2 R k'. rewrite L1, L2, R. reflexivity. Qed.

Lemma gfp_chase_sim : forall (M1 M2 : Type) (o1 : map_ops M1) (o2 : map_ops M2) fuel m1 m2 v,
  ops_rel o1 o2 m1 m2 -> gfp_chase o1 fuel m1 v = gfp_chase o2 fuel m2 v.
Proof.
  intros M1 M2 o1 o2 fuel m1 m2. induction fuel as [|f IH]; intros v R; cbn [gfp_chase]; [reflexivity|].
  rewrite (R v). destruct (mo_get o2 m2 v) as [v'|]; [|reflexivity].
  destruct (v =? v'); [reflexivity|]. apply IH. exact R.
Qed.

Lemma gfp_update_sim : forall (M1 M2 : Type) (o1 : map_ops M1) (o2 : map_ops M2),
  ops_lawful o1 -> ops_lawful o2 ->
  forall fuel m1 m2 v fin, ops_rel o1 o2 m1 m2 ->
  gfp_res_rel o1 o2 (gfp_update o1 fuel m1 v fin) (gfp_update o2 fuel m2 v fin).
Proof.
  intros M1 M2 o1 o2 L1 L2 fuel. induction fuel as [|f IH]; intros m1 m2 v fin R; cbn [gfp_update]; [exact I|].
  destruct (v =? fin); [split; [reflexivity|exact R]|].
  rewrite (R v). destruct (mo_get o2 m2 v) as [next|]; [|exact R].
  apply IH. apply ops_rel_set; assumption.
Qed.

Theorem get_fixed_point_sim : forall (M1 M2 : Type) (o1 : map_ops M1) (o2 : map_ops M2),
  ops_lawful o1 -> ops_lawful o2 ->
  forall fuel m1 m2 key, ops_rel o1 o2 m1 m2 ->
  gfp_res_rel o1 o2 (get_fixed_point o1 fuel m1 key) (get_fixed_point o2 fuel m2 key).
Proof.
  intros M1 M2 o1 o2 L1 L2 fuel m1 m2 key R. unfold get_fixed_point.
  rewrite (R key). destruct (mo_get o2 m2 key) as [v0|]; [|exact R].
  destruct (key =? v0); [split; [reflexivity|exact R]|].
  rewrite (gfp_chase_sim M1 M2 o1 o2 fuel m1 m2 key R).
  destruct (gfp_chase o2 fuel m2 key) as [[fin|]|]; [|exact R|exact I].
  apply gfp_update_sim; assumption.
Qed.

(** more fuel does not change an answer *)
Lemma gfp_chase_mono : forall (M : Type) (o : map_ops M) f m v r,
  gfp_chase o f m v = Some r -> forall f', (f <= f')%nat -> gfp_chase o f' m v = Some r.
Proof.
  intros M o f. induction f as [|f IH]; intros m v r H f' Hle; cbn [gfp_chase] in H; [discriminate|].
  destruct f' as [|f']; [lia|]. cbn [gfp_chase].
  destruct (mo_get o m v) as [v'|]; [|exact H]. destruct (v =? v'); [exact H|].
  apply IH; [exact H|lia].
Qed.

Lemma gfp_update_mono : forall (M : Type) (o : map_ops M) f m v fin,
  gfp_update o f m v fin <> GfpFuel -> forall f', (f <= f')%nat -> gfp_update o f' m v fin = gfp_update o f m v fin.
Proof.
  intros M o f. induction f as [|f IH]; intros m v fin H f' Hle; cbn [gfp_update] in H; [contradiction|].
  destruct f' as [|f']; [lia|]. cbn [gfp_update].
  destruct (v =? fin); [reflexivity|]. destruct (mo_get o m v) as [next|]; [|reflexivity].
  apply IH; [exact H|lia].
Qed.

Theorem get_fixed_point_mono : forall (M : Type) (o : map_ops M) f m key,
  get_fixed_point o f m key <> GfpFuel -> forall f', (f <= f')%nat -> get_fixed_point o f' m key = get_fixed_point o f m key.
Proof.
  intros M o f m key H f' Hle. unfold get_fixed_point in *.
  destruct (mo_get o m key) as [v0|]; [|reflexivity]. destruct (key =? v0); [reflexivity|].
  destruct (gfp_chase o f m key) as [r|] eqn:C; [|contradiction].
  rewrite (gfp_chase_mono M o f m key r C f' Hle). destruct r as [fin|]; [|reflexivity].
  apply gfp_update_mono; assumption.
Qed.

(** the two containers of meta.rs, holding the same map, give the same answer and hold the same map afterwards *)
Theorem get_fixed_point_dense_sparse : forall fuel (d : dense (option N)) (s : sparse (option N)) key,
  fm_eq (dense_abs None d) (sparse_abs None s) ->
  match get_fixed_point dense_ops fuel d key, get_fixed_point sparse_ops fuel s key with
  | GfpSome d' v1, GfpSome s' v2 => v1 = v2 /\ fm_eq (dense_abs None d') (sparse_abs None s')
  | GfpNone d', GfpNone s' => fm_eq (dense_abs None d') (sparse_abs None s')
  | GfpFuel, GfpFuel => True
  | _, _ => False
  end.
Proof.
  intros fuel d s key R.
  exact (get_fixed_point_sim _ _ dense_ops sparse_ops dense_ops_lawful sparse_ops_lawful fuel d s key R).
Qed.

(** ... and both compute [get_fixed_point] of the specification-level map *)
Theorem get_fixed_point_dense_refines : forall fuel (d : dense (option N)) key,
  gfp_res_rel dense_ops fun_ops (get_fixed_point dense_ops fuel d key) (get_fixed_point fun_ops fuel (dense_abs None d) key).
Proof.
  intros fuel d key. apply get_fixed_point_sim; [exact dense_ops_lawful|exact fun_ops_lawful|]. intro k. reflexivity.
Qed.

Theorem get_fixed_point_sparse_refines : forall fuel (s : sparse (option N)) key,
  gfp_res_rel sparse_ops fun_ops (get_fixed_point sparse_ops fuel s key) (get_fixed_point fun_ops fuel (sparse_abs None s) key).
Proof.
  intros fuel s key. apply get_fixed_point_sim; [exact sparse_ops_lawful|exact fun_ops_lawful|]. intro k. reflexivity.
Qed.

(** ** DenseExprSet refines [fset] *)
Lemma bit_is_set_testbit : forall w b, bit_is_set w b = N.testbit w b.
Proof.
  intros w b. unfold bit_is_set. change 1 with (N.ones 1) at 1. rewrite N.land_ones.
  change (2 ^ 1) with 2. rewrite <- N.bit0_eqb. rewrite N.shiftr_spec'. reflexivity.
Qed.

Lemma one_shl_testbit : forall b j, N.testbit (N.shiftl 1 b) j = (b =? j).
Proof. intros b j. rewrite N.shiftl_1_l. apply N.pow2_bits_eqb. Qed.

Lemma not_one_shl_testbit : forall b j, j < word_bits -> N.testbit (not_one_shl b) j = negb (b =? j).
Proof.
  intros b j H. unfold not_one_shl, N.lnot. rewrite N.lxor_spec, one_shl_testbit.
  rewrite N.ones_spec_low by exact H. destruct (b =? j); reflexivity.
Qed.

Lemma word_bit_split : forall k k', ((k / word_bits =? k' / word_bits) && (k mod word_bits =? k' mod word_bits)) = (k =? k').
Proof.
  intros k k'. unfold word_bits.
  pose proof (N.div_mod k 64 ltac:(lia)) as H1. pose proof (N.div_mod k' 64 ltac:(lia)) as H2.
  destruct (N.eqb_spec (k / 64) (k' / 64)) as [E1|E1]; destruct (N.eqb_spec (k mod 64) (k' mod 64)) as [E2|E2];
    destruct (N.eqb_spec k k') as [E|E]; cbn; try reflexivity; try lia; subst; congruence.
Qed.

Lemma mod_word_lt : forall k, k mod word_bits < word_bits.
Proof. intro k. apply N.mod_lt. unfold word_bits. lia. Qed.

Definition dense_bits_abs (s : dense_bits) : fset := fun k => dense_bits_contains s k.

Lemma dense_bits_contains_testbit : forall s k,
  dense_bits_contains s k = N.testbit (nth_N s (k / word_bits) 0) (k mod word_bits).
Proof. intros s k. unfold dense_bits_contains, index_to_word_and_bit. apply bit_is_set_testbit. Qed.

Lemma dense_bits_contains_empty : forall k, dense_bits_contains dense_bits_empty k = false.
Proof. intro k. rewrite dense_bits_contains_testbit. cbn [dense_bits_empty nth_N]. apply N.bits_0. Qed.

Lemma dense_bits_insert_spec : forall s k,
  snd (dense_bits_insert s k) = negb (dense_bits_contains s k) /\
  forall k', dense_bits_contains (fst (dense_bits_insert s k)) k' = (k =? k') || dense_bits_contains s k'.
Proof.
  intros s k. unfold dense_bits_insert, index_to_word_and_bit.
  set (w := k / word_bits). set (b := k mod word_bits).
  set (s1 := if len_N s <=? w then vec_resize s (w + 1) 0 else s).
  assert (forall i, nth_N s1 i 0 = nth_N s i 0) as Hs1.
  { intro i. unfold s1. destruct (N.leb_spec (len_N s) w) as [H|H]; [|reflexivity].
    rewrite vec_resize_grow by lia. apply nth_N_app_repeat. }
  assert (w < len_N s1) as Hlen.
  { unfold s1. destruct (N.leb_spec (len_N s) w) as [H|H]; [|exact H]. rewrite vec_resize_length. lia. }
  cbn [fst snd]. split.
  - rewrite bit_is_set_testbit, Hs1, dense_bits_contains_testbit. reflexivity.
  - intro k'. rewrite !dense_bits_contains_testbit. rewrite nth_N_replace.
    destruct (N.ltb_spec w (len_N s1)) as [_|H]; [|lia]. rewrite andb_true_r.
    rewrite <- (word_bit_split k k'). fold w b.
    destruct (N.eqb_spec w (k' / word_bits)) as [E|E].
    + rewrite N.lor_spec, one_shl_testbit, Hs1, <- E. cbn [andb]. apply orb_comm.
    + cbn [andb orb]. rewrite Hs1. reflexivity.
Qed.

Lemma dense_bits_remove_spec : forall s k,
  snd (dense_bits_remove s k) = dense_bits_contains s k /\
  forall k', dense_bits_contains (fst (dense_bits_remove s k)) k' = negb (k =? k') && dense_bits_contains s k'.
Proof.
  intros s k. unfold dense_bits_remove, index_to_word_and_bit.
  set (w := k / word_bits). set (b := k mod word_bits).
  destruct (N.leb_spec (len_N s) w) as [H|H]; cbn [fst snd].
  - assert (dense_bits_contains s k = false) as Hk.
    { rewrite dense_bits_contains_testbit. fold w. rewrite nth_N_beyond by exact H. apply N.bits_0. }
    split; [symmetry; exact Hk|]. intro k'. destruct (N.eqb_spec k k') as [E|E]; [subst k'; rewrite Hk; reflexivity|reflexivity].
  - split; [rewrite bit_is_set_testbit, dense_bits_contains_testbit; reflexivity|].
    intro k'. rewrite !dense_bits_contains_testbit. rewrite nth_N_replace.
    destruct (N.ltb_spec w (len_N s)) as [_|H']; [|lia]. rewrite andb_true_r.
    rewrite <- (word_bit_split k k'). fold w b.
    destruct (N.eqb_spec w (k' / word_bits)) as [E|E].
    + rewrite N.land_spec, not_one_shl_testbit by apply mod_word_lt. rewrite <- E. cbn [andb]. apply andb_comm.
    + cbn [andb negb]. reflexivity.
Qed.

(** the words stay 64-bit words *)
Definition words_ok (s : dense_bits) : Prop := Forall (fun w => w < 2 ^ word_bits) s.

Theorem dense_set_refines :
  fs_eq (dense_bits_abs dense_bits_empty) fs_empty /\
  (forall s k, snd (dense_bits_insert s k) = negb (dense_bits_abs s k) /\
               fs_eq (dense_bits_abs (fst (dense_bits_insert s k))) (fs_add (dense_bits_abs s) k)) /\
  (forall s k, snd (dense_bits_remove s k) = dense_bits_abs s k /\
               fs_eq (dense_bits_abs (fst (dense_bits_remove s k))) (fs_del (dense_bits_abs s) k)).
Proof.
  split; [exact dense_bits_contains_empty|]. split.
  - intros s k. destruct (dense_bits_insert_spec s k) as [H1 H2]. split; [exact H1|exact H2].
  - intros s k. destruct (dense_bits_remove_spec s k) as [H1 H2]. split; [exact H1|exact H2].
Qed.

(** ** SparseExprSet refines [fset] *)
Definition sparse_bits_abs (s : sparse_bits) : fset := fun k => sparse_bits_contains s k.

Lemma mem_N_In : forall s v, mem_N s v = true <-> In v s.
Proof.
  intros s v. induction s as [|x r IH]; cbn [mem_N In]; [split; [discriminate|tauto]|].
  destruct (N.eqb_spec x v) as [E|E]; [tauto|]. rewrite IH. tauto.
Qed.

Lemma mem_N_app : forall s1 s2 v, mem_N (s1 ++ s2) v = mem_N s1 v || mem_N s2 v.
Proof.
  intros s1 s2 v. induction s1 as [|x r IH]; cbn [app mem_N orb]; [reflexivity|].
  destruct (x =? v); [reflexivity|exact IH].
Qed.

Lemma mem_N_filter : forall s k v, mem_N (filter (fun x => negb (x =? k)) s) v = negb (k =? v) && mem_N s v.
Proof.
  intros s k v. induction s as [|x r IH]; cbn [filter mem_N]; [rewrite andb_false_r; reflexivity|].
  destruct (N.eqb_spec x k) as [E|E]; cbn [negb].
  - subst x. rewrite IH. destruct (N.eqb_spec k v); reflexivity.
  - cbn [mem_N]. destruct (N.eqb_spec x v) as [E'|E'].
    + subst x. destruct (N.eqb_spec k v); [lia|reflexivity].
    + exact IH.
Qed.

Theorem sparse_set_refines :
  (NoDup sparse_bits_empty /\ fs_eq (sparse_bits_abs sparse_bits_empty) fs_empty) /\
  (forall s k, NoDup s ->
      NoDup (fst (sparse_bits_insert s k)) /\
      snd (sparse_bits_insert s k) = negb (sparse_bits_abs s k) /\
      fs_eq (sparse_bits_abs (fst (sparse_bits_insert s k))) (fs_add (sparse_bits_abs s) k)) /\
  (forall s k, NoDup s ->
      NoDup (fst (sparse_bits_remove s k)) /\
      snd (sparse_bits_remove s k) = sparse_bits_abs s k /\
      fs_eq (sparse_bits_abs (fst (sparse_bits_remove s k))) (fs_del (sparse_bits_abs s) k)).
Proof.
  split; [split; [constructor|intro k; reflexivity]|]. split.
  - intros s k Hnd. unfold sparse_bits_insert, sparse_bits_abs, sparse_bits_contains, fs_add.
    destruct (mem_N s k) eqn:M; cbn [fst snd].
    + split; [exact Hnd|]. split; [reflexivity|]. intro k'. destruct (N.eqb_spec k k') as [E|E]; [subst; rewrite M; reflexivity|reflexivity].
    + split.
      * assert (~ In k s) as Hni by (rewrite <- mem_N_In, M; discriminate).
        clear M. induction s as [|x r IH]; cbn [app]; [constructor; [intros []|constructor]|].
        inversion Hnd as [|x' r' Hx Hr]; subst. constructor.
        -- rewrite in_app_iff. cbn [In]. intros [H|[H|[]]]; [contradiction|]. apply Hni. left. symmetry. exact H.
        -- apply IH; [exact Hr|]. intro H. apply Hni. right. exact H.
      * split; [reflexivity|]. intro k'. rewrite mem_N_app. cbn [mem_N]. rewrite orb_comm. destruct (k =? k'); reflexivity.
  - intros s k Hnd. unfold sparse_bits_remove, sparse_bits_abs, sparse_bits_contains, fs_del.
    destruct (mem_N s k) eqn:M; cbn [fst snd].
    + split; [apply NoDup_filter; exact Hnd|]. split; [reflexivity|]. intro k'. apply mem_N_filter.
    + split; [exact Hnd|]. split; [reflexivity|]. intro k'. destruct (N.eqb_spec k k') as [E|E]; [subst; rewrite M; reflexivity|reflexivity].
Qed.
