(** * Proofs/Btor2NamesSurvive.v — names through one write/read cycle (property C09, second half).

    What is proved here, for EVERY system, writer variant and name table ([names_survive_inputs]):
    an INPUT keeps its symbol (name and type) at its position whenever the writer prints its name on
    the declaration line, i.e. whenever the name is explicit (not empty, not of the reader's default
    shape [is_autogen_name]) and is not used as a label ([in_named]: exactly the writer's rule
    [decl_name]), provided the names of the inputs are pairwise distinct.  The inputs are declared
    first, so the names in use when an input line is read are the reserved names, the earlier input
    names and the defaults [_input_k] generated for unnamed earlier inputs; a default is never equal
    to an explicit name ([unique_default_autogen]).  The condition "not used as a label" is necessary
    (finding names:inputs:same-name-as-output, [Props/C09.v]).

    States and outputs: NOT proved (their names depend on all names allocated before them in the order
    of the written text: node names, labels, alias lines); the classes in which they are known to be
    lost are the [kc_*] predicates below, each with a witness in Props/C09.v; outside them the name
    oracle of the correspondence run is the evidence. *)
From Coq Require Import List Lia Bool String Ascii NArith FMapPositive.
From Patronus Require Import Expr ExprLemmas ExprEqb Eval SysClosed Btor2Parse Btor2Ser Btor2SerNames Btor2ExprFacts Btor2ParseProofs
     Btor2Sound Btor2SerProofs Btor2RoundTripSpec Btor2RtExpr Btor2RtLines Btor2RtSim Btor2RtSys Btor2RtTail Btor2Names Btor2RoundTrip
     Btor2RtNamed.
Import ListNotations.
Open Scope string_scope.
Open Scope list_scope.
Open Scope N_scope.

Local Opaque num.

(** ** the writer of /repo (patches 0010 and 0011 applied, 0008 not) and one write/read cycle *)
Definition writer_repo : writer_variant :=
  {| w_no_array_alias := false; w_input_labels := true; w_last_label := true; w_symbol_labels := false |}.

Definition cycle (wv : writer_variant) (v : code_variant) (sy : sys) (nm : names_map) : pres sys :=
  ls <- serialize_named_v wv sy nm ;; parse_lines_v v true ls.

Definition names_of (sy : sys) : list string * list string * list string :=
  (map sym_name (s_inputs sy), map (fun s => sym_name (st_sym s)) (s_states sy), map fst (s_outputs sy)).

(** ** the classes in which names are known to be lost (known_findings.txt, property=C09) *)
Definition all_names (sy : sys) (nm : names_map) : list string :=
  map sym_name (s_inputs sy) ++ map (fun s => sym_name (st_sym s)) (s_states sy) ++ map fst (s_outputs sy) ++ map snd nm.

(** names:*:dollar-cleanup - a name that [clean_up_name] rewrites *)
Definition kc_dollar (sy : sys) (nm : names_map) : bool :=
  existsb (fun n => negb (String.eqb (clean_up_name n) n)) (all_names sy nm).

(** names:states:default-name-collision, names:outputs:suffix-drift - a name that is not a reader default
    itself but extends one ([_state_1_0]): it collides with the [_k] suffixes the reader hands out *)
Definition default_prefixes : list string := ["_input_"; "_state_"; "_output_"; "_bad_"; "_constraint_"].
Definition default_like (n : string) : bool :=
  negb (is_autogen_name n) && existsb (fun p => String.prefix p n) default_prefixes.
Definition kc_default_like (sy : sys) (nm : names_map) : bool := existsb default_like (all_names sy nm).

(** names:inputs:same-name-as-output - an input that carries the name of an output *)
Definition kc_input_output (sy : sys) : bool :=
  existsb (fun i => str_mem (sym_name i) (map fst (s_outputs sy))) (s_inputs sy).

Definition KnownClass (sy : sys) (nm : names_map) : bool :=
  kc_dollar sy nm || kc_default_like sy nm || kc_input_output sy.

(** ** generated default names have the default shape *)
Lemma digits_all s : forall a b, digits_val 10 s a = Some b -> all_dec_digits s = true.
Proof.
  induction s as [|c s IH]; intros a b; cbn [digits_val all_dec_digits]; [reflexivity|].
  change (digit_in 10 c) with (dec_digit c). destruct (dec_digit c); [apply IH|discriminate].
Qed.

Lemma autogen_shape p ds : In p reserved_names -> ds <> EmptyString -> all_dec_digits ds = true ->
  is_autogen_name (String.append p (String "_" ds)) = true.
Proof.
  intros Hin Hne Hd.
  assert (E : String.eqb ds "" = false) by (destruct ds; [contradiction|reflexivity]).
  cbn in Hin. destruct Hin as [<-|[<-|[<-|[<-|[<-|[]]]]]]; unfold is_autogen_name; cbn; rewrite E, Hd; reflexivity.
Qed.

Lemma cand_autogen base k : In base reserved_names -> is_autogen_name (cand base k) = true.
Proof.
  intros Hin. unfold cand. cbn [String.append]. apply autogen_shape; [exact Hin|apply num_not_empty|].
  apply (digits_all _ 0 k). apply digits_num.
Qed.

Lemma reserved_autogen base : In base reserved_names -> is_autogen_name base = true.
Proof. intros Hin. cbn in Hin. destruct Hin as [<-|[<-|[<-|[<-|[<-|[]]]]]]; reflexivity. Qed.

Lemma unique_default_autogen base used : In base reserved_names -> is_autogen_name (unique_name base used) = true.
Proof.
  intros Hin. unfold unique_name.
  destruct (uniq_loop_spec (S (List.length used)) base used 0 base) as [H _]. cbv zeta in H.
  destruct H as [<-|H]; [apply reserved_autogen; exact Hin|].
  apply cands_in in H. destruct H as (k & _ & ->). apply cand_autogen. exact Hin.
Qed.

Lemma unique_name_id base used : ~ In base used -> unique_name base used = base.
Proof.
  intros H. unfold unique_name. cbn [uniq_loop].
  destruct (str_mem base used) eqn:E; [apply str_mem_In in E; contradiction|reflexivity].
Qed.

(** ** sort lines do not touch the names in use *)
Lemma bv_sort_sim_u v m st ps w st' id :
  Inv v m st ps -> w <= U32MAX -> 0 < w -> bv_sort_id st w = (st', id) -> w_next st' <= BOUND ->
  exists ps', Inv v m st' ps' /\ rest_eq ps ps' /\ p_signals ps' = p_signals ps /\
              find_sort (TBV w) (w_sorts st') = Some id /\ mono st st' /\ w_exprs st' = w_exprs st /\ p_used ps' = p_used ps.
Proof.
  intros Hinv Hw Hpos H Hb. unfold bv_sort_id in H. destruct (find_sort (TBV w) (w_sorts st)) as [i|] eqn:E.
  - inversion H; subst st' id. exists ps. split; [exact Hinv|]. split; [apply rest_eq_refl|]. split; [reflexivity|].
    split; [exact E|]. split; [apply mono_refl|split; reflexivity].
  - cbn [new_id] in H. inversion H; subst st' id. clear H. cbn [reg_sort emit w_next] in Hb. unfold BOUND in Hb.
    assert (Hl : parse_line_v v true ps [num (w_next st); "sort"; "bitvec"; num w] =
                 POk (set_types ps (PM.add (key (w_next st)) (TBV w) (p_types ps)))).
    { apply plv; [intros _; apply sort_bv_pre; assumption|apply sort_bv_line; lia]. }
    destruct (inv_reg_sort v m st ps _ (TBV w) Hinv E Hl) as [Hinv' Hmono].
    eexists. split; [exact Hinv'|]. split; [repeat split|]. split; [reflexivity|]. split.
    + cbn [reg_sort emit new_id fst w_sorts find_sort ty_eqb]. rewrite N.eqb_refl. reflexivity.
    + split; [exact Hmono|split; reflexivity].
Qed.

Lemma sort_id_sim_u v m st ps t st' id :
  Inv v m st ps -> ty_fits t = true -> ty_pos t -> sort_id st t = (st', id) -> w_next st' <= BOUND ->
  exists ps', Inv v m st' ps' /\ rest_eq ps ps' /\ p_signals ps' = p_signals ps /\
              find_sort t (w_sorts st') = Some id /\ mono st st' /\ w_exprs st' = w_exprs st /\ p_used ps' = p_used ps.
Proof.
  intros Hinv Ht Hpos H Hb. unfold sort_id in H. destruct (find_sort t (w_sorts st)) as [i|] eqn:E.
  - inversion H; subst st' id. exists ps. split; [exact Hinv|]. split; [apply rest_eq_refl|]. split; [reflexivity|].
    split; [exact E|]. split; [apply mono_refl|split; reflexivity].
  - destruct t as [w|iw dw].
    + cbn [ty_fits] in Ht. apply N.leb_le in Ht. apply (bv_sort_sim_u v m st ps w st' id); auto.
    + cbn [ty_fits] in Ht. apply andb_true_iff in Ht. destruct Ht as [Hi Hd]. apply N.leb_le in Hi, Hd. destruct Hpos as [Hpi Hpd].
      destruct (bv_sort_id st iw) as [st1 ix] eqn:E1. destruct (bv_sort_id st1 dw) as [st2 dx] eqn:E2.
      cbn [new_id] in H. inversion H; subst st' id. clear H. cbn [reg_sort emit w_next] in Hb.
      assert (Hb2 : w_next st2 <= BOUND) by lia.
      assert (Hm12 : w_next st1 <= w_next st2).
      { unfold bv_sort_id in E2. destruct (find_sort (TBV dw) (w_sorts st1)); inversion E2; subst; cbn; lia. }
      destruct (bv_sort_sim_u v m st ps iw st1 ix Hinv Hi Hpi E1 ltac:(lia)) as (ps1 & Hinv1 & Hr1 & Hs1 & Hf1 & Hmo1 & He1 & Hu1).
      destruct (bv_sort_sim_u v m st1 ps1 dw st2 dx Hinv1 Hd Hpd E2 Hb2) as (ps2 & Hinv2 & Hr2 & Hs2 & Hf2 & Hmo2 & He2 & Hu2).
      assert (Hfx : find_sort (TBV iw) (w_sorts st2) = Some ix) by (apply Hmo2; exact Hf1).
      destruct (i_sorts _ _ _ _ Hinv2 _ _ Hfx) as [Hlx Htx]. destruct (i_sorts _ _ _ _ Hinv2 _ _ Hf2) as [Hld Htd].
      assert (Hnone : find_sort (TArr iw dw) (w_sorts st2) = None).
      { clear - E E1 E2. unfold bv_sort_id in *.
        destruct (find_sort (TBV iw) (w_sorts st)); inversion E1; subst; clear E1;
          destruct (find_sort (TBV dw) (w_sorts _)); inversion E2; subst; clear E2;
          cbn [reg_sort emit new_id w_sorts find_sort ty_eqb]; exact E. }
      unfold BOUND in *.
      assert (Hl : parse_line_v v true ps2 [num (w_next st2); "sort"; "array"; num ix; num dx] =
                   POk (set_types ps2 (PM.add (key (w_next st2)) (TArr iw dw) (p_types ps2)))).
      { apply plv; [intros _; apply (sort_arr_pre ps2 _ ix dx iw dw); auto; lia|apply sort_arr_line; auto; lia]. }
      destruct (inv_reg_sort v m st2 ps2 _ (TArr iw dw) Hinv2 Hnone Hl) as [Hinv' Hmono].
      eexists. split; [exact Hinv'|]. split.
      { eapply rest_eq_trans; [exact Hr1|]. eapply rest_eq_trans; [exact Hr2|]. repeat split. }
      split; [cbn [set_types p_signals]; congruence|]. split.
      { cbn [reg_sort emit new_id fst w_sorts find_sort ty_eqb]. rewrite !N.eqb_refl. reflexivity. }
      split; [eapply mono_trans; [exact Hmo1|]; eapply mono_trans; [exact Hmo2|exact Hmono]|].
      split; [cbn [reg_sort emit new_id fst w_exprs]; congruence|cbn [set_types p_used]; congruence].
Qed.

(** ** an input line: the name the reader gives *)
Lemma input_line_n_u ps id sort t tl : id <= U32MAX -> sort <= U32MAX ->
  PM.find (key sort) (p_types ps) = Some t -> ty_pos t ->
  exists ps', parse_line true ps ([num id; "input"; num sort] ++ tl) = POk ps' /\
              core_eq ps' (set_signal (add_input ps (mk_sym (unique_name (nth 0 tl "_input") (p_used ps)) t)) id
                                      (mk_sym (unique_name (nth 0 tl "_input") (p_used ps)) t)) /\
              p_used ps' = unique_name (nth 0 tl "_input") (p_used ps) :: p_used ps.
Proof.
  intros Hi Hs Ft Hp. cbn [app]. unfold parse_line. rewrite (line_id_num id Hi). cbn.
  unfold parse_input. cbn [tokn nth]. rewrite (get_tpe_num ps sort _ Hs Ft). cbn [pbind].
  unfold label_name, add_unique. cbn [nth]. rewrite (b_symbol_mk _ t Hp). cbn [pbind].
  eexists. split; [reflexivity|].
  match goal with |- context[mk_sym ?n t] => destruct (mk_sym_props n t Hp) as (Hsym & _ & _) end.
  unfold note_name. rewrite Hsym. split; [repeat split|reflexivity].
Qed.

Definition raw_name (i : expr) : string := match symbol_name i with Some n => n | None => EmptyString end.

(** the writer prints the name of input [i] on its declaration ([decl_name]) *)
Definition in_named (cx : nctx) (i : expr) : bool :=
  negb (String.eqb (raw_name i) EmptyString || is_autogen_name (raw_name i) || str_mem (raw_name i) (n_labels cx)).

Definition input_tok (cx : nctx) (i : expr) : list string := name_tok (decl_name (raw_name i) (n_labels cx)).

Lemma input_tok_named cx i : in_named cx i = true -> input_tok cx i = [raw_name i].
Proof.
  unfold in_named, input_tok, decl_name. intros H. apply negb_true_iff in H. rewrite H.
  destruct (raw_name i) eqn:E; [cbn in H; discriminate H|reflexivity].
Qed.

Lemma input_tok_unnamed cx i : in_named cx i = false -> input_tok cx i = [].
Proof. unfold in_named, input_tok, decl_name. intros H. apply negb_false_iff in H. rewrite H. reflexivity. Qed.

Lemma mk_sym_self i : is_symbol i = true -> mk_sym (raw_name i) (type_of i) = i.
Proof. destruct i; cbn [is_symbol]; intros H; try discriminate; reflexivity. Qed.

Lemma emit_input_n_sim_u v m cx st ps i ins sts sids :
  Inv v m st ps -> Sh m ps ins sts sids -> no_props ps ->
  is_symbol i = true -> wt i = true -> efits i = true -> ~ In i (sm_dom m) ->
  w_next (emit_input_n cx st i) <= BOUND ->
  exists n ps', n = unique_name (nth 0 (input_tok cx i) "_input") (p_used ps) /\
                Inv v ((i, mk_sym n (type_of i)) :: m) (emit_input_n cx st i) ps' /\
                Sh ((i, mk_sym n (type_of i)) :: m) ps' (ins ++ [i]) sts sids /\ no_props ps' /\
                p_used ps' = n :: p_used ps.
Proof.
  intros Hinv Hsh Hnp Hsym Hwt Hf Hn Hb. unfold emit_input_n in *.
  destruct (sort_id st (type_of i)) as [st1 sort] eqn:Es. cbn [new_id] in *.
  change (name_tok (decl_name (match symbol_name i with Some n => n | None => EmptyString end) (n_labels cx))) with (input_tok cx i) in *.
  set (tl := input_tok cx i) in *.
  cbn [reg_expr emit w_next] in Hb.
  destruct (sort_id_sim_u v m st ps (type_of i) st1 sort Hinv (efits_ty i Hf) (wt_pos i Hwt) Es ltac:(lia))
    as (ps1 & Hinv1 & Hr1 & Hsg1 & Hfs & Hmo1 & He1 & Hu1).
  destruct (i_sorts _ _ _ _ Hinv1 _ _ Hfs) as [Hls Hts]. unfold BOUND in *.
  destruct (input_line_n_u ps1 (w_next st1) sort (type_of i) tl ltac:(lia) ltac:(lia) Hts (wt_pos i Hwt)) as (ps' & Hl & Hce & Hu').
  rewrite Hu1 in Hce, Hu'.
  set (n := unique_name (nth 0 tl "_input") (p_used ps)) in *.
  set (sv := mk_sym n (type_of i)) in *.
  destruct (mk_sym_props n (type_of i) (wt_pos i Hwt)) as (Hv1 & Hv2 & Hv3). fold sv in Hv1, Hv2, Hv3.
  exists n, ps'. split; [reflexivity|]. fold sv.
  pose proof (inv_extend v m st1 ps1 i sv Hinv1 Hn Hv1 Hv2 Hv3) as Hinv1'.
  assert (Hnone : find_expr i (w_exprs st1) = None) by (apply (not_cached v m st1 ps1); auto).
  destruct Hce as (C1 & C2 & C3 & C4 & C5 & C6 & C7 & C8). cbn [set_signal add_input p_types p_statemap p_signals p_inputs p_states p_outputs p_bads p_constraints] in *.
  assert (Htr : tr ((i, sv) :: m) i = sv).
  { destruct i; cbn [is_symbol] in Hsym; try discriminate; cbn [tr]; apply sm_app_cons_same. }
  assert (Hlv : parse_line_v v true ps1 ([num (w_next st1); "input"; num sort] ++ tl) = POk ps').
  { apply plv; [intros _; apply (decl_pre_n ps1 _ sort (type_of i)); auto; [lia|apply wt_pos; exact Hwt]|exact Hl]. }
  destruct (inv_reg_expr' v ((i, sv) :: m) st1 ps1 ([num (w_next st1); "input"; num sort] ++ tl) i ps' Hinv1') as [Hinv' Hmono]; auto.
  { rewrite (syms_symbol i Hsym). intros x [<-|[]]. left. reflexivity. }
  { rewrite Htr. exact C3. }
  split; [exact Hinv'|]. split; [|split].
  - pose proof (rest_eq_sh _ _ _ _ _ _ Hr1 Hsh) as Hsh1. destruct (sh_extend m ps1 ins sts sids i sv Hsh1 Hn) as [Hx1 Hx2].
    destruct Hsh1 as [A B C D E F]. constructor.
    + intros s. cbn [sm_dom map fst]. rewrite !in_app_iff. cbn [In].
      specialize (A s). rewrite in_app_iff in A. change (map fst m) with (sm_dom m). tauto.
    + rewrite C4, B, map_app, Hx1. cbn [map]. rewrite sm_app_cons_same. reflexivity.
    + rewrite C5, C, Hx2. reflexivity.
    + intros j sid H. rewrite C2. auto.
    + exact E.
    + intros s e Hs He. intros x Hx. right. apply (F s e Hs He). exact Hx.
  - apply (rest_eq_no_props _ _ Hr1) in Hnp. destruct Hnp as (N1 & N2 & N3). repeat split; congruence.
  - exact Hu'.
Qed.

(** the names in use while the inputs are declared: defaults and the names of earlier inputs *)
Definition used_ok (ps : pstate) (ins : list expr) : Prop :=
  forall x, In x (p_used ps) -> is_autogen_name x = true \/ In x (map raw_name ins).

Definition kept (cx : nctx) (m : smap) (ins : list expr) : Prop :=
  forall i, In i ins -> in_named cx i = true -> sm_app m i = i.

Lemma inputs_n_sim_u v cx : forall l m st ps ins,
  Inv v m st ps -> Sh m ps ins [] [] -> no_props ps ->
  Forall sym_ok l -> NoDup (ins ++ l) -> NoDup (map raw_name (ins ++ l)) ->
  used_ok ps ins -> kept cx m ins ->
  w_next (fold_left (emit_input_n cx) l st) <= BOUND ->
  exists m' ps', Inv v m' (fold_left (emit_input_n cx) l st) ps' /\ Sh m' ps' (ins ++ l) [] [] /\ no_props ps' /\
                 kept cx m' (ins ++ l).
Proof.
  induction l as [|i l IH]; intros m st ps ins Hinv Hsh Hnp Hok Hnd Hndn Hu Hk Hb; cbn [fold_left] in *.
  - exists m, ps. rewrite app_nil_r. auto.
  - apply Forall_cons_iff in Hok. destruct Hok as [(Hs & Hw & Hf) Hok].
    assert (Hn : ~ In i (sm_dom m)).
    { intros Hin. apply (sh_dom _ _ _ _ _ Hsh) in Hin. cbn [map] in Hin. rewrite app_nil_r in Hin.
      apply NoDup_remove_2 in Hnd. apply Hnd. apply in_or_app. left. exact Hin. }
    assert (Hni : ~ In i ins).
    { intros Hin. apply NoDup_remove_2 in Hnd. apply Hnd. apply in_or_app. left. exact Hin. }
    pose proof (inputs_n_next cx l (emit_input_n cx st i)) as Hmn.
    destruct (emit_input_n_sim_u v m cx st ps i ins [] [] Hinv Hsh Hnp Hs Hw Hf Hn ltac:(lia)) as (n & ps1 & Hnq & Hinv1 & Hsh1 & Hnp1 & Hu1).
    assert (Hcase : (in_named cx i = true /\ n = raw_name i) \/ (in_named cx i = false /\ is_autogen_name n = true)).
    { destruct (in_named cx i) eqn:E.
      - left. split; [reflexivity|]. rewrite (input_tok_named cx i E) in Hnq. cbn [nth] in Hnq. rewrite Hnq.
        apply unique_name_id. intros Hin. destruct (Hu _ Hin) as [Ha|Hin'].
        + unfold in_named in E. apply negb_true_iff in E. apply orb_false_iff in E. destruct E as [E _].
          apply orb_false_iff in E. destruct E as [_ E]. congruence.
        + rewrite map_app in Hndn. cbn [map] in Hndn. apply NoDup_remove_2 in Hndn. apply Hndn. apply in_or_app. left. exact Hin'.
      - right. split; [reflexivity|]. rewrite (input_tok_unnamed cx i E) in Hnq. cbn [nth] in Hnq. rewrite Hnq.
        apply unique_default_autogen. cbn. auto. }
    destruct (IH ((i, mk_sym n (type_of i)) :: m) _ ps1 (ins ++ [i]) Hinv1 Hsh1 Hnp1 Hok) as (m' & ps' & H1 & H2 & H3 & H4).
    + rewrite <- app_assoc. exact Hnd.
    + rewrite <- app_assoc. exact Hndn.
    + intros x Hx. rewrite Hu1 in Hx. rewrite map_app, in_app_iff. cbn [map In]. destruct Hx as [<-|Hx].
      * destruct Hcase as [[_ ->]|[_ Ha]]; auto.
      * destruct (Hu _ Hx); auto.
    + intros j Hj Hnj. apply in_app_iff in Hj. destruct Hj as [Hj|[<-|[]]].
      * rewrite sm_app_cons_other; [apply Hk; assumption|]. intros ->. contradiction.
      * rewrite sm_app_cons_same. destruct Hcase as [[_ ->]|[E _]]; [apply mk_sym_self; exact Hs|congruence].
    + exact Hb.
    + exists m', ps'. rewrite <- app_assoc in H2, H4. auto.
Qed.

(** ** the states extend the symbol map conservatively *)
Lemma states_n_sim_c v cx : forall l m st ps ins sts sids st' ids,
  Inv v m st ps -> Sh m ps ins sts sids -> no_props ps ->
  Forall st_ok l -> NoDup (ins ++ map st_sym sts ++ map st_sym l) ->
  Forall (fun i => i < w_next st) sids ->
  emit_states_n cx st l = POk (st', ids) -> w_next st' <= BOUND ->
  exists m' ps', Inv v m' st' ps' /\ Sh m' ps' ins (sts ++ l) (sids ++ ids) /\ no_props ps' /\
                 Forall (fun i => i < w_next st') (sids ++ ids) /\
                 (forall x, In x (sm_dom m) -> sm_app m' x = sm_app m x).
Proof.
  induction l as [|s l IH]; intros m st ps ins sts sids st' ids Hinv Hsh Hnp Hok Hnd Hsids H Hb; cbn [emit_states_n] in H.
  - inversion H; subst. exists m, ps. rewrite !app_nil_r.
    split; [exact Hinv|]. split; [exact Hsh|]. split; [exact Hnp|]. split; [exact Hsids|auto].
  - destruct (emit_state_n cx st s) as [[st1 sid]| |] eqn:E1; cbn [pbind] in H; try discriminate.
    destruct (emit_states_n cx st1 l) as [[st2 ids']| |] eqn:E2; cbn [pbind] in H; try discriminate.
    inversion H; subst st' ids. clear H.
    apply Forall_cons_iff in Hok. destruct Hok as [[Hso Hsf] Hok].
    assert (Hn : ~ In (st_sym s) (sm_dom m)).
    { intros Hin. apply (sh_dom _ _ _ _ _ Hsh) in Hin. cbn [map] in Hnd. rewrite app_assoc in Hnd.
      apply NoDup_remove_2 in Hnd. apply Hnd. apply in_or_app. left. exact Hin. }
    pose proof (emit_states_n_next _ _ _ _ _ E2) as Hmn.
    destruct (emit_state_n_sim v m cx st ps s ins sts sids st1 sid Hinv Hsh Hnp Hso Hsf Hn Hsids E1 ltac:(lia))
      as (sv & ps1 & Hinv1 & Hsh1 & Hnp1 & Hsids1).
    assert (Hnd' : NoDup (ins ++ map st_sym (sts ++ [s]) ++ map st_sym l)).
    { rewrite map_app. cbn [map]. rewrite <- !app_assoc. cbn [app]. exact Hnd. }
    destruct (IH _ _ _ _ _ _ _ _ Hinv1 Hsh1 Hnp1 Hok Hnd' Hsids1 E2 Hb) as (m' & ps' & A & B & C & D & E).
    exists m', ps'.
    replace (sts ++ s :: l) with ((sts ++ [s]) ++ l) by (rewrite <- app_assoc; reflexivity).
    replace (sids ++ sid :: ids') with ((sids ++ [sid]) ++ ids') by (rewrite <- app_assoc; reflexivity).
    split; [exact A|]. split; [exact B|]. split; [exact C|]. split; [exact D|].
    intros x Hx. rewrite E; [|right; exact Hx]. apply sm_app_cons_other. intros ->. contradiction.
Qed.

(** ** the whole text, with the inputs' names *)
Definition label_ctx (wv : writer_variant) (sy : sys) (nm : names_map) : nctx :=
  let lb := compute_labels wv nm sy in
  {| n_names := nm; n_labels := all_labels lb; n_alias := alias_needed wv nm sy lb |}.

Theorem serialize_named_parse_raw_k v wv sy nm lines :
  sys_ok_weak sy = true -> (is_fix v = true -> props_1bit sy = true) -> alias_ok v wv ->
  NoDup (declared sy) -> NoDup (map raw_name (s_inputs sy)) -> sys_fits sy = true ->
  serialize_named_v wv sy nm = POk lines -> N.of_nat (List.length lines) <= U32MAX ->
  exists m ps, map_ok m /\ parse_fold_v v true lines p_empty false = POk (ps, false) /\
    p_inputs ps = map (sm_app m) (s_inputs sy) /\
    p_states ps = map (trs m true) (s_states sy) /\
    map snd (p_outputs ps) = map (tr m) (map snd (s_outputs sy)) /\
    p_bads ps = map (tr m) (s_bads sy) /\ p_constraints ps = map (tr m) (s_constraints sy) /\
    kept (label_ctx wv sy nm) m (s_inputs sy).
Proof.
  intros Hok H1bit Hal Hnd Hndn Hfit H Hlen. unfold serialize_named_v in H. cbv zeta in H. unfold label_ctx.
  set (lb := compute_labels wv nm sy) in *.
  set (cx := {| n_names := nm; n_labels := all_labels lb; n_alias := alias_needed wv nm sy lb |}) in *.
  set (st1 := fold_left (emit_input_n cx) (s_inputs sy) w_empty) in *.
  destruct (emit_states_n cx st1 (s_states sy)) as [[st2 ids]| |] eqn:E2; cbn [pbind] in H; try discriminate.
  destruct (emit_props_n cx "output" st2 (map snd (s_outputs sy)) (l_outputs lb)) as [st3| |] eqn:E3; cbn [pbind] in H; try discriminate.
  destruct (emit_props_n cx "constraint" st3 (s_constraints sy) (l_constraints lb)) as [st4| |] eqn:E4; cbn [pbind] in H; try discriminate.
  destruct (emit_props_n cx "bad" st4 (s_bads sy) (l_bads lb)) as [st5| |] eqn:E5; cbn [pbind] in H; try discriminate.
  rewrite emit_aliases_eq in H. set (st6 := fold_left (alias_step cx) (alias_targets cx st5) st5) in *.
  destruct (emit_nexts_n cx st6 (s_states sy) ids) as [st7| |] eqn:E7; cbn [pbind] in H; try discriminate.
  inversion H; subst lines. clear H. rewrite rev_length in Hlen.
  destruct (compute_labels_len wv nm sy) as (Lo & Lc & Lb). fold lb in Lo, Lc, Lb.
  (* counters *)
  assert (Hc0 : cnt w_empty) by (unfold cnt; cbn; lia).
  pose proof (cnt_inputs_n cx (s_inputs sy) _ Hc0) as Hc1. fold st1 in Hc1.
  pose proof (cnt_emit_states_n _ _ _ _ _ E2 Hc1) as Hc2. pose proof (cnt_props_n _ _ _ _ _ _ E3 Hc2) as Hc3.
  pose proof (cnt_props_n _ _ _ _ _ _ E4 Hc3) as Hc4. pose proof (cnt_props_n _ _ _ _ _ _ E5 Hc4) as Hc5.
  pose proof (cnt_aliases cx (alias_targets cx st5) _ Hc5) as Hc6. fold st6 in Hc6.
  pose proof (cnt_nexts_n _ _ _ _ _ E7 Hc6) as Hc7.
  assert (Hb7 : w_next st7 <= BOUND) by (unfold cnt in Hc7; unfold BOUND; lia).
  pose proof (emit_nexts_n_next _ _ _ _ _ E7) as N7. pose proof (aliases_next cx (alias_targets cx st5) st5) as N6. fold st6 in N6.
  pose proof (emit_props_n_next _ _ _ _ _ _ E5) as N5.
  pose proof (emit_props_n_next _ _ _ _ _ _ E4) as N4. pose proof (emit_props_n_next _ _ _ _ _ _ E3) as N3.
  pose proof (emit_states_n_next _ _ _ _ _ E2) as N2.
  (* well-formedness, piecewise *)
  unfold sys_ok_weak in Hok.
  apply andb_true_iff in Hok. destruct Hok as [Hok Hokc]. apply andb_true_iff in Hok. destruct Hok as [Hok Hokb].
  apply andb_true_iff in Hok. destruct Hok as [Hok Hoko]. apply andb_true_iff in Hok. destruct Hok as [Hoki Hoks].
  unfold sys_fits, all_exprs in Hfit. rewrite !forallb_app in Hfit.
  apply andb_true_iff in Hfit. destruct Hfit as [Hfi Hfit]. apply andb_true_iff in Hfit. destruct Hfit as [Hfo Hfit].
  apply andb_true_iff in Hfit. destruct Hfit as [Hfb Hfit]. apply andb_true_iff in Hfit. destruct Hfit as [Hfc Hfs].
  rewrite forallb_forall in Hoki, Hoks, Hoko, Hokb, Hokc, Hfi, Hfo, Hfb, Hfc, Hfs.
  assert (Hins : Forall sym_ok (s_inputs sy)).
  { apply Forall_forall. intros i Hi. specialize (Hoki _ Hi). apply andb_true_iff in Hoki. destruct Hoki. repeat split; auto. }
  assert (Hsts : Forall st_ok (s_states sy)).
  { apply Forall_forall. intros s Hs. split; [apply Hoks; exact Hs|].
    assert (Hall : forall e, In e (st_sym s :: (match st_init s with Some e => [e] | None => [] end)
                                  ++ (match st_next s with Some e => [e] | None => [] end)) -> efits e = true).
    { intros e He. apply Hfs. apply in_flat_map. exists s. split; assumption. }
    repeat split.
    - apply Hall. left. reflexivity.
    - intros e He. apply Hall. right. apply in_or_app. left. rewrite He. left. reflexivity.
    - intros e He. apply Hall. right. apply in_or_app. right. rewrite He. left. reflexivity. }
  assert (Houts : Forall expr_ok (map snd (s_outputs sy))).
  { apply Forall_forall. intros e He. apply in_map_iff in He. destruct He as (o & <- & Ho). split; [apply Hoko; exact Ho|].
    apply Hfo. apply in_map. exact Ho. }
  assert (Hcons : Forall expr_ok (s_constraints sy)) by (apply Forall_forall; intros e He; split; auto).
  assert (Hbads : Forall expr_ok (s_bads sy)) by (apply Forall_forall; intros e He; split; auto).
  (* inputs *)
  destruct (inputs_n_sim_u v cx (s_inputs sy) [] w_empty p_empty [] (inv_init v) sh_init' ltac:(repeat split) Hins) as (m1 & ps1 & Hinv1 & Hsh1 & Hnp1 & Hk1).
  { cbn [app]. unfold declared in Hnd. apply nodup_app_l in Hnd. exact Hnd. }
  { cbn [app]. exact Hndn. }
  { intros x Hx. left. apply reserved_autogen. exact Hx. }
  { intros i [] . }
  { fold st1. lia. }
  fold st1 in Hinv1. cbn [app] in Hsh1, Hk1.
  (* states *)
  destruct (states_n_sim_c v cx (s_states sy) m1 st1 ps1 (s_inputs sy) [] [] st2 ids Hinv1 Hsh1 Hnp1 Hsts) as (m & ps2 & Hinv2 & Hsh2 & Hnp2 & Hids2 & Hcons12); auto.
  { lia. }
  cbn [app] in Hsh2, Hids2.
  (* outputs, constraints, bads *)
  assert (H1c : is_fix v = true -> KCon = KOut \/ Forall (fun e => type_of e = TBV 1) (s_constraints sy)).
  { intros Hv. right. specialize (H1bit Hv). unfold props_1bit in H1bit. rewrite forallb_app in H1bit.
    apply andb_true_iff in H1bit. destruct H1bit as [_ Hc]. rewrite forallb_forall in Hc. apply Forall_forall.
    intros e He. apply ty_eqb_eq. apply Hc. exact He. }
  assert (H1b : is_fix v = true -> KBad = KOut \/ Forall (fun e => type_of e = TBV 1) (s_bads sy)).
  { intros Hv. right. specialize (H1bit Hv). unfold props_1bit in H1bit. rewrite forallb_app in H1bit.
    apply andb_true_iff in H1bit. destruct H1bit as [Hc _]. rewrite forallb_forall in Hc. apply Forall_forall.
    intros e He. apply ty_eqb_eq. apply Hc. exact He. }
  destruct (props_n_sim v KOut m cx _ _ st2 ps2 st3 Hinv2 Houts Lo ltac:(intros _; left; reflexivity) E3 ltac:(lia)) as (ps3 & Hinv3 & Hd3 & Hk3 & Ho3).
  destruct (props_n_sim v KCon m cx _ _ st3 ps3 st4 Hinv3 Hcons Lc H1c E4 ltac:(lia)) as (ps4 & Hinv4 & Hd4 & Hk4 & Ho4).
  destruct (props_n_sim v KBad m cx _ _ st4 ps4 st5 Hinv4 Hbads Lb H1b E5 ltac:(lia)) as (ps5 & Hinv5 & Hd5 & Hk5 & Ho5).
  pose proof (decl_eq_trans _ _ _ Hd3 (decl_eq_trans _ _ _ Hd4 Hd5)) as (D1 & D2 & D3).
  (* alias lines *)
  assert (Htg : Forall (target_ok v st5) (alias_targets cx st5)).
  { apply Forall_forall. intros [e id] Hin. apply alias_targets_spec in Hin. destruct Hin as [Hin Hfe].
    cbn [n_alias cx] in Hin. apply alias_needed_spec in Hin. destruct Hin as [Hin Hbv].
    assert (Hex : expr_ok e).
    { apply in_app_or in Hin. destruct Hin as [Hin|Hin]; [rewrite Forall_forall in Houts; auto|].
      apply in_app_or in Hin. destruct Hin as [Hin|Hin]; [rewrite Forall_forall in Hcons; auto|rewrite Forall_forall in Hbads; auto]. }
    destruct Hex as [Hw Hf]. unfold target_ok. cbn [fst snd]. split; [exact Hfe|]. split; [exact Hw|]. split; [exact Hf|].
    intros Hv. apply Hbv. apply Hal. exact Hv. }
  destruct (aliases_sim v m cx (alias_targets cx st5) st5 ps5 Hinv5 Htg) as (ps6 & Hinv6 & Hr6 & He6).
  { fold st6. lia. }
  fold st6 in Hinv6, He6. destruct Hr6 as (R1 & R2 & R3 & R4 & R5 & R6).
  (* nexts *)
  destruct (nexts_n_sim v m cx (s_states sy) ids [] [] st6 ps6 st7 Hinv6) as (ps7 & Hinv7 & Hst7 & P1 & P2 & P3 & P4 & P5); auto.
  { cbn [map app]. rewrite <- R3, <- D3. apply (sh_states _ _ _ _ _ Hsh2). }
  { cbn [app]. intros j sid Hj. rewrite <- R1, <- D1. apply (sh_ids _ _ _ _ _ Hsh2 _ _ Hj). }
  { apply (emit_states_n_len _ _ _ _ _ E2). }
  { cbn [app]. eapply Forall_impl; [|exact Hids2]. intros a Ha. cbn beta in *. lia. }
  cbn [app] in Hst7.
  exists m, ps7. split; [apply (i_map _ _ _ _ Hinv7)|]. split; [exact (i_run _ _ _ _ Hinv7)|].
  destruct Hnp2 as (Q1 & Q2 & Q3).
  split; [rewrite <- P1, <- R2, <- D2; apply (sh_inputs _ _ _ _ _ Hsh2)|]. split; [exact Hst7|]. split; [|split].
  - rewrite <- P3, <- R4. change (map snd (p_outputs ps5)) with (klist KOut ps5).
    rewrite (Ho5 KOut ltac:(discriminate)), (Ho4 KOut ltac:(discriminate)), Hk3. cbn [klist]. rewrite Q1. reflexivity.
  - rewrite <- P4, <- R5. change (p_bads ps5) with (klist KBad ps5). rewrite Hk5, (Ho4 KBad ltac:(discriminate)), (Ho3 KBad ltac:(discriminate)).
    cbn [klist]. rewrite Q2. reflexivity.
  - split.
    + rewrite <- P5, <- R6. change (p_constraints ps5) with (klist KCon ps5). rewrite (Ho5 KCon ltac:(discriminate)), Hk4, (Ho3 KCon ltac:(discriminate)).
      cbn [klist]. rewrite Q3. reflexivity.
    + intros i Hi Hn. rewrite Hcons12; [apply Hk1; assumption|].
      apply (sh_dom _ _ _ _ _ Hsh1). cbn [map]. rewrite app_nil_r. exact Hi.
Qed.
(** ** the theorem for inputs *)
Lemma firstn_app_len {A} (l r : list A) : firstn (List.length l) (l ++ r) = l.
Proof. induction l as [|x l IH]; cbn [List.length app firstn]; [reflexivity|]. rewrite IH. reflexivity. Qed.

Lemma nodup_app_disj {A} (a b : list A) x : NoDup (a ++ b) -> In x a -> In x b -> False.
Proof.
  induction a as [|y a IH]; cbn [app In]; intros Hnd Ha Hb; [contradiction|]. inversion Hnd; subst.
  destruct Ha as [->|Ha]; [apply H1; apply in_or_app; right; exact Hb|eapply IH; eauto].
Qed.

Lemma input_not_renamed ps i : NI ps -> In i (p_inputs ps) -> rename_sym (renames_of ps) i = i.
Proof.
  intros Hni Hi. unfold rename_sym. destruct (lookup_name i (renames_of ps)) as [n|] eqn:E; [|reflexivity]. exfalso.
  apply lookup_name_In in E. unfold renames_of in E. apply in_flat_map in E. destruct E as (s & Hs & E).
  destruct (lookup_name (st_sym s) (p_symnames ps)) as [n'|]; [|contradiction].
  destruct (String.eqb n' (sym_name (st_sym s))); [contradiction|]. destruct E as [E|[]]. inversion E; subst.
  apply (nodup_app_disj _ _ (st_sym s) (ni_dd _ Hni)); [exact Hi|apply in_map; exact Hs].
Qed.

Theorem names_survive_inputs v wv sy nm lines :
  sys_ok_weak sy = true -> (is_fix v = true -> props_1bit sy = true) -> alias_ok v wv ->
  NoDup (declared sy) -> NoDup (map raw_name (s_inputs sy)) -> sys_fits sy = true ->
  serialize_named_v wv sy nm = POk lines -> N.of_nat (List.length lines) <= U32MAX ->
  exists sy', (forall dbg, parse_lines_v v dbg lines = POk sy') /\
    Forall2 (fun i i' => in_named (label_ctx wv sy nm) i = true -> i' = i)
            (s_inputs sy) (firstn (List.length (s_inputs sy)) (s_inputs sy')).
Proof.
  intros Hok H1bit Hal Hnd Hndn Hfit Hser Hlen.
  destruct (serialize_named_parse_raw_k v wv sy nm lines Hok H1bit Hal Hnd Hndn Hfit Hser Hlen)
    as (m & ps & Hm & Hrun & Hin & Hst & _ & _ & _ & Hk).
  set (ren := renames_of ps).
  exists (demote (rename_sys ren (sys_of_pstate ps))).
  assert (Hp : parse_lines_v v true lines = POk (demote (rename_sys ren (sys_of_pstate ps)))).
  { unfold parse_lines_v, parse_raw_v. rewrite Hrun. reflexivity. }
  split.
  { intros [|]; [exact Hp|]. rewrite (parse_lines_v_ref v lines); [exact Hp|]. rewrite Hp. intros k. discriminate. }
  pose proof (NI_fold v true lines p_empty false ps false NI_empty Hrun) as Hni.
  rewrite rename_sys_all. cbn [demote sys_of_pstate s_inputs s_states].
  replace (List.length (s_inputs sy)) with (List.length (map (rename ren) (p_inputs ps)))
    by (rewrite map_length, Hin, map_length; reflexivity).
  rewrite firstn_app_len.
  unfold sys_ok_weak in Hok.
  apply andb_true_iff in Hok. destruct Hok as [Hok _]. apply andb_true_iff in Hok. destruct Hok as [Hok _].
  apply andb_true_iff in Hok. destruct Hok as [Hok _]. apply andb_true_iff in Hok. destruct Hok as [Hoki _].
  rewrite forallb_forall in Hoki.
  assert (Hall : forall l, incl l (s_inputs sy) ->
            Forall2 (fun i i' => in_named (label_ctx wv sy nm) i = true -> i' = i) l (map (rename ren) (map (sm_app m) l))).
  { induction l as [|i l IH]; intros Hl; cbn [map]; constructor.
    - intros Hn. assert (Hi : In i (s_inputs sy)) by (apply Hl; left; reflexivity).
      rewrite (Hk i Hi Hn).
      assert (Hs : is_symbol i = true) by (specialize (Hoki _ Hi); apply andb_true_iff in Hoki; tauto).
      rewrite (rename_of_symbol ren i Hs). apply input_not_renamed; [exact Hni|].
      rewrite Hin. apply in_map_iff. exists i. split; [apply Hk; assumption|exact Hi].
    - apply IH. intros x Hx. apply Hl. right. exact Hx. }
  rewrite Hin. apply Hall. apply incl_refl.
Qed.
