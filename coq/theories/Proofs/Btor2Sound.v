(** * Proofs/Btor2Sound.v — the reader's lowering computes the btor2 meaning.

    Simulation between the model of the reader (Model/Btor2Parse.v, debug build) and the
    reference interpreter (Spec/Btor2Sem.v): as long as both accept the lines, every signal of
    the reader evaluates ([ebv]/[earr]) to the value the interpreter assigns to the same line,
    sort tables coincide, and the recorded init/next/output/bad/constraint entries agree
    position by position.  A line the interpreter rejects as ill-sorted is not accepted by the
    reader. *)
From Coq Require Import List Lia Bool String Ascii NArith ZArith FMapPositive.
From Patronus Require Import Expr ExprLemmas Eval BVLemmas EvalImpl EvalProofs SysClosed Btor2Parse Btor2Sem Btor2Agree
     Btor2ExprFacts Btor2ParseProofs Btor2Refine.
Import ListNotations.
Open Scope string_scope.
Open Scope N_scope.

Lemma veq_sort rho e v : veq rho e v -> sort_of_value v = type_of e.
Proof. destruct v; cbn [veq sort_of_value]; intros [H _]; auto. Qed.

Lemma width_of_type e w : type_of e = TBV w -> width e = w.
Proof. unfold width. intros ->. reflexivity. Qed.

Lemma index_width_of_type e iw dw : type_of e = TArr iw dw -> index_width e = iw.
Proof. unfold index_width. intros ->. reflexivity. Qed.

(** ** small facts about bit-vector values *)
Lemma lnot_b2n x : N.lnot (b2n x) 1 = b2n (negb x).
Proof. destruct x; reflexivity. Qed.

Lemma lt2_cases a : a < 2 ^ 1 -> a = 0 \/ a = 1.
Proof. change (2 ^ 1) with 2. lia. Qed.

Lemma bool_val a : a < 2 ^ 1 -> a = b2n (a =? 1).
Proof. intros H. destruct (lt2_cases a H) as [->| ->]; reflexivity. Qed.

Lemma lxor_b2n x y : N.lxor (b2n x) (b2n y) = b2n (xorb x y).
Proof. destruct x, y; reflexivity. Qed.

Lemma bit_slice a i : bv_slice i i a = b2n (N.testbit a i).
Proof.
  unfold bv_slice. replace (i - i + 1) with 1 by lia. change (2 ^ 1) with 2.
  symmetry. apply N.testbit_spec'.
Qed.

(** xor of the bits [i .. i+n-1], upwards *)
Fixpoint xr (n : nat) (i : N) (a : N) : bool :=
  match n with O => false | S n' => xorb (N.testbit a i) (xr n' (i + 1) a) end.

Lemma xr_snoc n : forall i a, xr (S n) i a = xorb (xr n i a) (N.testbit a (i + N.of_nat n)).
Proof.
  induction n as [|n IH]; intros i a.
  - cbn [xr]. rewrite N.add_0_r. destruct (N.testbit a i); reflexivity.
  - change (xr (S (S n)) i a) with (xorb (N.testbit a i) (xr (S n) (i + 1) a)).
    rewrite IH. cbn [xr]. replace (i + 1 + N.of_nat n) with (i + N.of_nat (S n)) by lia.
    destruct (N.testbit a i), (xr n (i + 1) a), (N.testbit a (i + N.of_nat (S n))); reflexivity.
Qed.

Lemma parity_xr n a : parity n a = xr n 0 a.
Proof.
  induction n as [|n IH]; [reflexivity|].
  rewrite xr_snoc. cbn [parity]. rewrite IH, N.add_0_l. apply xorb_comm.
Qed.

Lemma xor_chain_ebv rho n : forall e i acc,
  ebv rho (xor_chain n e i acc) = N.lxor (ebv rho acc) (b2n (xr n i (ebv rho e))).
Proof.
  induction n as [|n IH]; intros e i acc; cbn [xor_chain xr].
  - cbn [b2n]. rewrite N.lxor_0_r. reflexivity.
  - rewrite IH. cbn [ebv]. unfold bv_xor. rewrite bit_slice, N.lxor_assoc, lxor_b2n. reflexivity.
Qed.

Lemma xor_chain_type n : forall e i acc, type_of acc = TBV 1 -> type_of (xor_chain n e i acc) = TBV 1.
Proof. induction n as [|n IH]; intros e i acc H; cbn [xor_chain]; auto. Qed.

Lemma implies_val a b : a < 2 ^ 1 -> b < 2 ^ 1 -> bv_implies a b = b2n (negb (a =? 1) || (b =? 1)).
Proof.
  intros Ha Hb. destruct (lt2_cases a Ha) as [->| ->], (lt2_cases b Hb) as [->| ->]; reflexivity.
Qed.

Lemma forallb_N_ext n : forall p q, (forall i, p i = q i) -> forallb_N n p = forallb_N n q.
Proof.
  intros p q H. unfold forallb_N. induction n as [|n IH] using N.peano_ind.
  - reflexivity.
  - rewrite !N.recursion_succ; try reflexivity; try (intros ? ? -> ? ? ->; reflexivity).
    rewrite IH, H. reflexivity.
Qed.

Lemma arr_eqb_ext iw f f' g g' :
  (forall i, f i = f' i) -> (forall i, g i = g' i) -> arr_eqb iw f g = arr_eqb iw f' g'.
Proof. intros Hf Hg. unfold arr_eqb. apply forallb_N_ext. intros i. rewrite Hf, Hg. reflexivity. Qed.

Lemma slice_full a w hi : a < 2 ^ w -> hi + 1 = w -> bv_slice hi 0 a = a.
Proof.
  intros Ha Hw. unfold bv_slice. rewrite N.sub_0_r, Hw. change (2 ^ 0) with 1. rewrite N.div_1_r.
  apply N.mod_small. exact Ha.
Qed.

Lemma sext_zero w a : bv_sext w 0 a = a.
Proof. unfold bv_sext. destruct (msb w a); [|reflexivity]. cbn. lia. Qed.

(** ** consistency of an interpreter result with a reader result *)
Definition consistent (rho : env) (r : expr) (m : b2res value) : Prop :=
  match m with
  | B2Ok v => veq rho r v
  | B2Err B2IllSorted => False
  | B2Err _ => True
  end.

Lemma un_table_inv op u : un_table op = Some u ->
  (op = "not" /\ u = UNot) \/ (op = "neg" /\ u = UNeg) \/ (op = "redand" /\ u = URedand) \/
  (op = "redor" /\ u = URedor) \/ (op = "redxor" /\ u = URedxor) \/ (op = "slice" /\ u = USlice) \/
  (op = "uext" /\ u = UUext) \/ (op = "sext" /\ u = USext) \/ u = UUnsup.
Proof.
  unfold un_table.
  repeat match goal with
         | |- (if seq op ?s then _ else _) = Some _ -> _ =>
             destruct (seq op s) eqn:E;
             [apply String.eqb_eq in E; intros H; inversion H; subst; tauto|clear E]
         end.
  discriminate.
Qed.

Lemma need_require toks n u : require toks n = POk u -> need toks n = B2Ok tt.
Proof. unfold require, need. destruct (Nat.ltb _ _); [discriminate|reflexivity]. Qed.

Lemma s_num_of_opt tok v : of_opt (parse_width tok) = POk v -> s_num tok = B2Ok v.
Proof. unfold s_num. intros H. apply of_opt_ok in H. rewrite H. reflexivity. Qed.

Lemma unwrap_bv_is e w : type_of e = TBV w -> unwrap_bv e = POk w.
Proof. unfold unwrap_bv. intros ->. reflexivity. Qed.

Lemma unwrap_arr_panic e iw dw : type_of e = TArr iw dw -> unwrap_bv e = PPanic PWrongKind.
Proof. unfold unwrap_bv. intros ->. reflexivity. Qed.

Lemma b_ext_ok2 mk e by_ r :
  b_ext true mk e by_ = POk r ->
  (by_ = 0 /\ r = e) \/ (by_ <> 0 /\ exists w, type_of e = TBV w /\ r = mk e by_ (w + by_)).
Proof.
  unfold b_ext. destruct (N.eqb_spec by_ 0) as [->|Hne].
  - intros H; inversion H; auto.
  - intros H. binv H w Hw. binv H w' Hw'. apply unwrap_bv_ok in Hw. apply u32add_true_ok in Hw'.
    inversion H; subst. right; eauto.
Qed.

Lemma b_slice_ok2 e hi lo r :
  b_slice true e hi lo = POk r ->
  (lo = 0 /\ type_of e = TBV (hi + 1) /\ r = e) \/ (r = BVSlice e hi lo).
Proof.
  unfold b_slice. intros H.
  assert (Hb : (if hi <? lo then PPanic PSliceOrder else POk (BVSlice e hi lo)) = POk r -> r = BVSlice e hi lo).
  { destruct (hi <? lo); intros H'; inversion H'; reflexivity. }
  destruct (N.eqb_spec lo 0) as [->|Hne].
  - binv H h1 Hh. binv H w Hw. apply u32add_true_ok in Hh. apply unwrap_bv_ok in Hw. subst h1.
    destruct (N.eqb_spec (hi + 1) w) as [<-|Hw'].
    + inversion H; subst; auto.
    + right; auto.
  - right; auto.
Qed.

Section WithEnv.
  Variable rho : env.
  Hypothesis Hrho : env_wf rho.

  Lemma veq_bound e w a : wt e = true -> veq rho e (VBV w a) -> a < 2 ^ w.
  Proof. intros Hw [Ht <-]. apply ebv_bound; auto. Qed.

  Lemma slice_check e hi lo w :
    is_some (check1 (BVSlice e hi lo)) = true -> type_of e = TBV w -> lo <= hi /\ hi < w.
  Proof.
    cbn [check1]. intros H Ht. rewrite Ht in H.
    destruct (N.leb_spec w hi) as [?|?]; [discriminate|]. destruct (N.ltb_spec hi lo) as [?|?]; [discriminate|]. lia.
  Qed.

  Lemma unary_agree op u toks e va r n :
    un_table op = Some u -> wt e = true -> veq rho e va ->
    lower_unary true toks u e = POk (r, n) -> is_some (check1 r) = true ->
    consistent rho r (sem_unary op toks va).
  Proof.
    intros Hu Hwt Hveq Hl Hck. apply un_table_inv in Hu.
    destruct va as [w a|iw dw f].
    - (* bit-vector operand *)
      pose proof (veq_bound e w a Hwt Hveq) as Hb. destruct Hveq as [Ht Ha].
      unfold lower_unary in Hl.
      destruct Hu as [[-> ->]|[[-> ->]|[[-> ->]|[[-> ->]|[[-> ->]|[[-> ->]|[[-> ->]|[[-> ->]| ->]]]]]]]];
        cbn [sem_unary seq String.eqb Ascii.eqb Bool.eqb andb orb].
      + (* not *)
        binv Hl r0 Hr. inversion Hl; subst r n. apply b_not_ok in Hr. destruct Hr as (w' & Ht' & ->).
        rewrite Ht in Ht'. inversion Ht'; subst w'. cbn [consistent veq type_of ebv]. rewrite ?Ha. auto.
      + (* neg *)
        binv Hl r0 Hr. inversion Hl; subst r n. apply b_neg_ok in Hr. destruct Hr as (w' & Ht' & ->).
        rewrite Ht in Ht'. inversion Ht'; subst w'. cbn [consistent veq type_of ebv]. rewrite ?Ha. auto.
      + (* redand *)
        rewrite (unwrap_bv_is _ _ Ht) in Hl. cbn [pbind] in Hl. destruct (N.eqb_spec w 1) as [->|Hw1].
        * inversion Hl; subst r n. cbn [consistent veq]. split; auto. change (2 ^ 1 - 1) with 1. rewrite <- (bool_val _ Hb). exact Ha.
        * binv Hl m Hm. binv Hl q Hq. inversion Hl; subst r n. apply b_lit_ok in Hm. destruct Hm as [_ ->].
          apply b_equal_ok in Hq. destruct Hq as [_ ->]. rewrite Ht. cbn [is_bv_ty consistent veq type_of ebv].
          rewrite Ha. auto.
      + (* redor *)
        rewrite (unwrap_bv_is _ _ Ht) in Hl. cbn [pbind] in Hl. destruct (N.eqb_spec w 1) as [->|Hw1].
        * inversion Hl; subst r n. cbn [consistent veq]. split; auto. rewrite Ha.
          destruct (lt2_cases _ Hb) as [E|E]; rewrite E; reflexivity.
        * binv Hl z Hz. binv Hl q Hq. binv Hl r0 Hr0. inversion Hl; subst r n. apply b_lit_ok in Hz. destruct Hz as [_ ->].
          apply b_equal_ok in Hq. destruct Hq as [_ ->]. rewrite Ht in Hr0. cbn [is_bv_ty] in Hr0.
          apply b_not_ok in Hr0. destruct Hr0 as (w1 & Ht1 & ->). cbn [type_of] in Ht1. inversion Ht1; subst w1.
          cbn [consistent veq type_of ebv]. rewrite Ha. unfold bv_not, bv_eq. rewrite lnot_b2n. auto.
      + (* redxor *)
        rewrite (unwrap_bv_is _ _ Ht) in Hl. cbn [pbind] in Hl. destruct (N.eqb_spec w 1) as [->|Hw1].
        * inversion Hl; subst r n. cbn [consistent veq]. split; auto. rewrite Ha.
          destruct (lt2_cases _ Hb) as [E|E]; rewrite E; reflexivity.
        * destruct (N.eqb_spec w 0) as [->|Hw0]; [discriminate|]. inversion Hl; subst r n.
          cbn [consistent veq]. split; [apply xor_chain_type; apply type_of_slice1|].
          rewrite xor_chain_ebv. cbn [ebv]. rewrite bit_slice, lxor_b2n, Ha. f_equal.
          replace (N.to_nat w) with (S (N.to_nat (w - 1))) by lia. rewrite parity_xr. reflexivity.
      + (* slice *)
        binv Hl u1 Hr1. binv Hl hi Hhi. binv Hl lo Hlo. binv Hl r0 Hr0. inversion Hl; subst r n.
        rewrite (need_require _ _ _ Hr1), (s_num_of_opt _ _ Hhi), (s_num_of_opt _ _ Hlo). cbn [b2bind].
        apply b_slice_ok2 in Hr0. destruct Hr0 as [(-> & Ht' & ->)| ->].
        * rewrite Ht in Ht'. inversion Ht'; subst w.
          destruct (N.leb_spec 0 hi) as [?|?]; [|lia]. destruct (N.ltb_spec hi (hi + 1)) as [?|?]; [|lia].
          cbn [andb consistent veq]. split; [rewrite Ht; f_equal; lia|]. rewrite (slice_full a (hi + 1) hi Hb eq_refl). auto.
        * destruct (slice_check _ _ _ _ Hck Ht) as [H1 H2].
          destruct (N.leb_spec lo hi) as [?|?]; [|lia]. destruct (N.ltb_spec hi w) as [?|?]; [|lia].
          cbn [andb consistent veq type_of ebv]. rewrite Ha. auto.
      + (* uext *)
        binv Hl u1 Hr1. binv Hl by_ Hby. binv Hl r0 Hr0. inversion Hl; subst r n.
        rewrite (need_require _ _ _ Hr1), (s_num_of_opt _ _ Hby). cbn [b2bind consistent veq].
        apply b_ext_ok2 in Hr0. destruct Hr0 as [(-> & ->)|(Hby0 & w' & Ht' & ->)].
        * rewrite N.add_0_r. auto.
        * rewrite Ht in Ht'. inversion Ht'; subst w'. cbn [type_of ebv]. unfold bv_zext. rewrite Ha. auto.
      + (* sext *)
        binv Hl u1 Hr1. binv Hl by_ Hby. binv Hl r0 Hr0. inversion Hl; subst r n.
        rewrite (need_require _ _ _ Hr1), (s_num_of_opt _ _ Hby). cbn [b2bind consistent veq].
        apply b_ext_ok2 in Hr0. destruct Hr0 as [(-> & ->)|(Hby0 & w' & Ht' & ->)].
        * rewrite N.add_0_r, sext_zero. auto.
        * rewrite Ht in Ht'. inversion Ht'; subst w'. cbn [type_of ebv]. rewrite (width_of_type _ _ Ht), Ha. auto.
      + discriminate.
    - (* array operand: only an extension by 0 gets past the builders, and the interpreter names that case *)
      destruct Hveq as [Ht _]. unfold lower_unary in Hl. unfold sem_unary.
      pose proof (unwrap_arr_panic _ _ _ Ht) as Hun.
      destruct Hu as [[-> ->]|[[-> ->]|[[-> ->]|[[-> ->]|[[-> ->]|[[-> ->]|[[-> ->]|[[-> ->]| ->]]]]]]]];
        cbn [seq String.eqb Ascii.eqb Bool.eqb andb orb consistent]; auto;
        try (unfold b_not, b_neg in Hl; rewrite Hun in Hl; discriminate);
        try (rewrite Hun in Hl; discriminate).
      + binv Hl u1 Hr1. binv Hl hi Hhi. binv Hl lo Hlo. binv Hl r0 Hr0. inversion Hl; subst r n.
        apply b_slice_ok2 in Hr0. destruct Hr0 as [(_ & Ht' & _)| ->].
        * rewrite Ht in Ht'. discriminate.
        * cbn [check1] in Hck. rewrite Ht in Hck. discriminate.
      + discriminate.
  Qed.

  (** *** binary operators *)
  Lemma bsame_shape tpe mk swap neg a b r :
    lower_binary true tpe (BSame mk swap neg) a b = POk r ->
    exists w, type_of a = TBV w /\ type_of b = TBV w /\
      let inner := if swap then mk b a w else mk a b w in
      (neg = false /\ r = inner) \/ (neg = true /\ exists w', type_of inner = TBV w' /\ r = BVNot inner w').
  Proof.
    unfold lower_binary. intros H. binv H inner Hin.
    assert (Hs : exists w, type_of a = TBV w /\ type_of b = TBV w /\ inner = (if swap then mk b a w else mk a b w)).
    { destruct swap; apply b_same_ok in Hin; destruct Hin as (w & H1 & H2 & ->); eauto. }
    destruct Hs as (w & Ha & Hb & ->). exists w. split; auto. split; auto. cbv zeta.
    destruct neg.
    - right. split; auto. binv H c Hc. apply b_not_ok in H. destruct H as (w' & Ht & ->). eauto.
    - left. inversion H; auto.
  Qed.

  Lemma bcmp_shape tpe mk swap a b r :
    lower_binary true tpe (BCmp mk swap) a b = POk r ->
    exists w, type_of a = TBV w /\ type_of b = TBV w /\ r = (if swap then mk b a else mk a b).
  Proof.
    unfold lower_binary. intros H. destruct swap; apply b_cmp_ok in H; destruct H as (w & H1 & H2 & ->); eauto.
  Qed.

  Lemma veq_bv_inv e w a w' : veq rho e (VBV w a) -> type_of e = TBV w' -> w = w' /\ ebv rho e = a.
  Proof. intros [Ht Ha] Ht'. rewrite Ht in Ht'. inversion Ht'. auto. Qed.

  Lemma veq_arr_bv e iw dw f w : veq rho e (VArr iw dw f) -> type_of e = TBV w -> False.
  Proof. intros [Ht _] Ht'. rewrite Ht in Ht'. discriminate. Qed.

  Ltac bin_values va vb Hva Hvb Hta Htb :=
    destruct va as [wa x|? ? ?]; [|exfalso; eapply veq_arr_bv; eauto];
    destruct vb as [wb y|? ? ?]; [|exfalso; eapply veq_arr_bv; eauto];
    destruct (veq_bv_inv _ _ _ _ Hva Hta) as [-> Hxa]; destruct (veq_bv_inv _ _ _ _ Hvb Htb) as [-> Hyb].

  Lemma binary_agree op bo tpe a b va vb r :
    bin_table op = Some bo -> wt a = true -> wt b = true -> veq rho a va -> veq rho b vb ->
    lower_binary true tpe bo a b = POk r -> is_some (check1 r) = true ->
    consistent rho r (sem_binary op va vb).
  Proof.
    intros Hb Hwa Hwb Hva Hvb Hl Hck. revert Hb. unfold bin_table.
    repeat match goal with
           | |- (if seq op ?s then _ else _) = Some _ -> _ =>
               destruct (seq op s) eqn:E;
               [apply String.eqb_eq in E; intros H; inversion H; subst op bo; clear H|clear E]
           end; try discriminate;
    try (apply bsame_shape in Hl; destruct Hl as (w & Hta & Htb & [[Hn ->]|[Hn (w' & Htw & ->)]]); try discriminate Hn;
         bin_values va vb Hva Hvb Hta Htb;
         cbn [sem_binary seq String.eqb Ascii.eqb Bool.eqb andb orb sem_arith sem_pred];
         rewrite N.eqb_refl; cbn [type_of] in *; try (inversion Htw; subst w');
         cbn [consistent veq type_of ebv]; rewrite ?(width_of_type _ _ Hta), ?(width_of_type _ _ Htb), ?Hxa, ?Hyb;
         split; reflexivity);
    try (apply bcmp_shape in Hl; destruct Hl as (w & Hta & Htb & ->);
         bin_values va vb Hva Hvb Hta Htb;
         cbn [sem_binary seq String.eqb Ascii.eqb Bool.eqb andb orb sem_arith sem_pred];
         rewrite N.eqb_refl; cbn [consistent veq type_of ebv]; rewrite ?Hxa, ?Hyb; split; reflexivity).
    - (* iff *)
      unfold lower_binary in Hl. destruct (negb (ty_eqb tpe (TBV 1))); [discriminate|].
      destruct (ty_eqb (type_of a) (TBV 1)) eqn:Ea; cbn [negb] in Hl; [|discriminate].
      destruct (ty_eqb (type_of b) (TBV 1)) eqn:Eb; cbn [negb] in Hl; [|discriminate].
      apply ty_eqb_eq in Ea, Eb. apply b_equal_ok in Hl. destruct Hl as [_ ->]. rewrite Ea. cbn [is_bv_ty].
      bin_values va vb Hva Hvb Ea Eb.
      cbn [sem_binary seq String.eqb Ascii.eqb Bool.eqb andb orb consistent veq type_of ebv].
      rewrite Hxa, Hyb. split; reflexivity.
    - (* implies *)
      unfold lower_binary in Hl. apply b_implies_ok in Hl. subst r.
      cbn [check1] in Hck. destruct (expect_bv_of (type_of a) 1) eqn:Ea; [|discriminate].
      destruct (expect_bv_of (type_of b) 1) eqn:Eb; [|discriminate].
      apply expect_bv_of_some in Ea, Eb. destruct Ea as [Ea _]. destruct Eb as [Eb _].
      pose proof Hva as Hva'. pose proof Hvb as Hvb'.
      bin_values va vb Hva Hvb Ea Eb.
      cbn [sem_binary seq String.eqb Ascii.eqb Bool.eqb andb orb consistent veq type_of ebv].
      rewrite Hxa, Hyb. split; [reflexivity|]. apply implies_val; [eapply (veq_bound a); eauto|eapply (veq_bound b); eauto].
    - (* concat *)
      unfold lower_binary in Hl. apply b_concat_ok in Hl. destruct Hl as (wa' & wb' & Hta & Htb & ->).
      bin_values va vb Hva Hvb Hta Htb.
      cbn [sem_binary seq String.eqb Ascii.eqb Bool.eqb andb orb consistent veq type_of ebv].
      rewrite (width_of_type _ _ Htb), Hxa, Hyb. split; reflexivity.
    - (* eq *)
      unfold lower_binary in Hl. binv Hl inner Hin. inversion Hl; subst inner. clear Hl.
      apply b_equal_ok in Hin. destruct Hin as [Htab ->].
      destruct va as [wa x|iwa dwa f]; destruct vb as [wb y|iwb dwb g]; destruct Hva as [Hta Hxa]; destruct Hvb as [Htb Hyb];
        rewrite Hta, Htb in Htab; inversion Htab; subst; rewrite Hta; cbn [is_bv_ty].
      + cbn [sem_binary seq String.eqb Ascii.eqb Bool.eqb andb orb sem_arith sem_pred]. rewrite N.eqb_refl.
        cbn [consistent veq type_of ebv]. split; reflexivity.
      + cbn [sem_binary seq String.eqb Ascii.eqb Bool.eqb andb orb]. rewrite !N.eqb_refl. cbn [andb consistent veq type_of ebv].
        split; [reflexivity|]. rewrite (index_width_of_type _ _ _ Hta). f_equal. apply arr_eqb_ext; auto.
    - (* neq *)
      unfold lower_binary in Hl. binv Hl inner Hin. binv Hl c1 Hc1.
      apply b_equal_ok in Hin. destruct Hin as [Htab ->].
      apply b_not_ok in Hl. destruct Hl as (w1 & Ht1 & ->).
      destruct va as [wa x|iwa dwa f]; destruct vb as [wb y|iwb dwb g]; destruct Hva as [Hta Hxa]; destruct Hvb as [Htb Hyb];
        rewrite Hta, Htb in Htab; inversion Htab; subst; rewrite Hta in *; cbn [is_bv_ty type_of] in *;
        inversion Ht1; subst w1.
      + cbn [sem_binary seq String.eqb Ascii.eqb Bool.eqb andb orb sem_arith sem_pred]. rewrite N.eqb_refl.
        cbn [consistent veq type_of ebv]. split; [reflexivity|]. unfold bv_not, bv_eq. apply lnot_b2n.
      + cbn [sem_binary seq String.eqb Ascii.eqb Bool.eqb andb orb]. rewrite !N.eqb_refl. cbn [andb consistent veq type_of ebv].
        split; [reflexivity|]. rewrite (index_width_of_type _ _ _ Hta). unfold bv_not. rewrite lnot_b2n. do 2 f_equal.
        apply arr_eqb_ext; auto.
    - (* read *)
      unfold lower_binary in Hl. apply b_read_ok in Hl. destruct Hl as (iw & dw & Hta & ->).
      cbn [check1] in Hck. rewrite Hta in Hck. destruct (type_of b) as [wi|] eqn:Htb; [|discriminate].
      destruct (N.eqb_spec iw wi) as [->|?]; [|discriminate].
      destruct va as [wa x|iwa dwa f]; destruct Hva as [Hta' Hf]; rewrite Hta in Hta'; inversion Hta'; subst.
      destruct vb as [wb y|? ? ?]; destruct Hvb as [Htb' Hy]; rewrite Htb in Htb'; inversion Htb'; subst.
      cbn [sem_binary seq String.eqb Ascii.eqb Bool.eqb andb orb]. rewrite N.eqb_refl.
      cbn [consistent veq type_of ebv]. split; [reflexivity|]. apply Hf.
  Qed.

  (** *** ternary operators *)
  Lemma ite_agree a b c va vb vc r :
    veq rho a va -> veq rho b vb -> veq rho c vc ->
    lower_ternary true true a b c = POk r -> is_some (check1 r) = true ->
    consistent rho r (sem_ternary "ite" va vb vc).
  Proof.
    intros Hva Hvb Hvc Hl Hck. unfold lower_ternary in Hl. apply b_ite_ok in Hl. subst r.
    cbn [sem_ternary seq String.eqb Ascii.eqb Bool.eqb andb].
    destruct (type_of b) as [wb|iwb dwb] eqn:Htb; cbn [is_bv_ty] in *.
    - cbn [check1] in Hck. destruct (expect_bv_of (type_of a) 1) eqn:Ea; [|discriminate].
      apply expect_bv_of_some in Ea. destruct Ea as [Ea _].
      apply is_some_true in Hck. destruct Hck as [t1 Hck]. apply expect_same_width_bvs_some in Hck.
      destruct Hck as (w & Htb' & Htc & _). rewrite Htb in Htb'. inversion Htb'; subst wb.
      destruct va as [wa x|? ? ?]; [|exfalso; eapply veq_arr_bv; eauto]. destruct (veq_bv_inv _ _ _ _ Hva Ea) as [-> Hx].
      destruct vb as [wb y|? ? ?]; [|exfalso; eapply veq_arr_bv; eauto]. destruct (veq_bv_inv _ _ _ _ Hvb Htb) as [-> Hy].
      destruct vc as [wc z|? ? ?]; [|exfalso; eapply veq_arr_bv; eauto]. destruct (veq_bv_inv _ _ _ _ Hvc Htc) as [-> Hz].
      rewrite N.eqb_refl. cbn [consistent veq type_of ebv]. rewrite Hx, Hy, Hz. split; [exact Htc|]. destruct (x =? 1); reflexivity.
    - cbn [check1] in Hck. destruct (expect_bv_of (type_of a) 1) eqn:Ea; [|discriminate].
      apply expect_bv_of_some in Ea. destruct Ea as [Ea _].
      apply is_some_true in Hck. destruct Hck as [t1 Hck]. apply expect_same_size_arrays_some in Hck.
      destruct Hck as (iw & dw & Htb' & Htc & _). rewrite Htb in Htb'. inversion Htb'; subst iwb dwb.
      destruct va as [wa x|? ? ?]; [|exfalso; eapply veq_arr_bv; eauto]. destruct (veq_bv_inv _ _ _ _ Hva Ea) as [-> Hx].
      destruct vb as [? ?|iw1 dw1 f]; destruct Hvb as [Htb1 Hf]; rewrite Htb in Htb1; inversion Htb1; subst iw1 dw1.
      destruct vc as [? ?|iw2 dw2 g]; destruct Hvc as [Htc1 Hg]; rewrite Htc in Htc1; inversion Htc1; subst iw2 dw2.
      rewrite !N.eqb_refl. cbn [andb consistent veq type_of earr]. rewrite Hx. split; [exact Htc|].
      intros i. destruct (x =? 1); auto.
  Qed.

  Lemma write_agree a b c va vb vc r :
    veq rho a va -> veq rho b vb -> veq rho c vc ->
    lower_ternary true false a b c = POk r -> is_some (check1 r) = true ->
    consistent rho r (sem_ternary "write" va vb vc).
  Proof.
    intros Hva Hvb Hvc Hl Hck. unfold lower_ternary in Hl. inversion Hl; subst r. clear Hl.
    cbn [sem_ternary seq String.eqb Ascii.eqb Bool.eqb andb].
    cbn [check1] in Hck. destruct (type_of a) as [|iw dw] eqn:Hta; [discriminate|].
    destruct (expect_bv_of (type_of b) iw) eqn:Eb; [|discriminate].
    destruct (expect_bv_of (type_of c) dw) eqn:Ec; [|discriminate].
    apply expect_bv_of_some in Eb, Ec. destruct Eb as [Eb _]. destruct Ec as [Ec _].
    destruct va as [? ?|iw1 dw1 f]; destruct Hva as [Hta1 Hf]; rewrite Hta in Hta1; inversion Hta1; subst iw1 dw1.
    destruct vb as [wb y|? ? ?]; [|exfalso; eapply veq_arr_bv; eauto]. destruct (veq_bv_inv _ _ _ _ Hvb Eb) as [-> Hy].
    destruct vc as [wc z|? ? ?]; [|exfalso; eapply veq_arr_bv; eauto]. destruct (veq_bv_inv _ _ _ _ Hvc Ec) as [-> Hz].
    rewrite !N.eqb_refl. cbn [andb consistent veq type_of earr]. split; [exact Hta|].
    intros i. unfold arr_store. rewrite Hy, Hz, Hf. reflexivity.
  Qed.
End WithEnv.

(** ** constants: the reader's number parser against the plain reading of the digit string *)
Lemma digits_val_shift r s : forall acc,
  digits_val r s acc = match digits_val r s 0 with
                       | Some c => Some (acc * r ^ slen s + c)
                       | None => None
                       end.
Proof.
  induction s as [|ch s IH]; intros acc.
  - cbn [digits_val]. unfold slen. cbn. f_equal. lia.
  - cbn [digits_val]. destruct (digit_in r ch) as [d|]; [|reflexivity].
    rewrite (IH (acc * r + d)), (IH (0 * r + d)). destruct (digits_val r s 0) as [c|]; [|reflexivity].
    rewrite slen_cons, N.pow_succ_r'. f_equal. ring.
Qed.

Lemma digits_val_app r a : forall b acc,
  digits_val r (a ++ b) acc = match digits_val r a acc with Some v => digits_val r b v | None => None end.
Proof.
  induction a as [|ch a IH]; intros b acc; cbn [String.append digits_val]; [reflexivity|].
  destruct (digit_in r ch); [apply IH|reflexivity].
Qed.

Lemma split_at_app n : forall s a b, split_at n s = (a, b) -> s = (a ++ b)%string.
Proof.
  induction n as [|n IH]; intros s a b H; cbn [split_at] in H.
  - destruct s; inversion H; reflexivity.
  - destruct s as [|c s]; [inversion H; reflexivity|].
    destruct (split_at n s) as [a' b'] eqn:E. inversion H; subst. cbn [String.append]. f_equal. apply IH. exact E.
Qed.

Lemma split_at_length n : forall s a b, split_at n s = (a, b) -> (n <= String.length s)%nat ->
  String.length a = n /\ String.length b = (String.length s - n)%nat.
Proof.
  induction n as [|n IH]; intros s a b H Hle; cbn [split_at] in H.
  - destruct s; inversion H; subst; cbn [String.length]; lia.
  - destruct s as [|c s]; [cbn [String.length] in Hle; lia|].
    destruct (split_at n s) as [a' b'] eqn:E. inversion H; subst. cbn [String.length] in *.
    destruct (IH s a' b E) as [H1 H2]; [lia|]. lia.
Qed.

Lemma plus_not_digit r : digit_in r "+"%char = None.
Proof. unfold digit_in. destruct (r =? 2); [reflexivity|]. destruct (r =? 16); reflexivity. Qed.

Lemma digits_strip_plus r s acc v : digits_val r s acc = Some v -> s <> EmptyString -> strip_plus s = s /\ parse_unsigned r s = digits_val r s 0.
Proof.
  intros H Hne. destruct s as [|c s]; [contradiction|].
  assert (Hc : Ascii.eqb c "+" = false).
  { destruct (Ascii.eqb c "+") eqn:E; [|reflexivity]. apply Ascii.eqb_eq in E. subst c.
    cbn [digits_val] in H. rewrite plus_not_digit in H. discriminate. }
  unfold parse_unsigned. cbn [strip_plus]. rewrite Hc. split; reflexivity.
Qed.

Lemma dec_digit_not_cont c d : digit_in 10 c = Some d -> is_cont_byte c = false.
Proof.
  unfold digit_in. cbn [N.eqb Pos.eqb]. unfold dec_digit, is_cont_byte.
  destruct (N.leb_spec 48 (N_of_ascii c)) as [?|?]; cbn [andb]; [|discriminate].
  destruct (N.leb_spec (N_of_ascii c) 57) as [?|?]; [|discriminate]. intros _.
  destruct (N.leb_spec 128 (N_of_ascii c)) as [?|?]; [lia|]. reflexivity.
Qed.

Lemma digits_first_not_cont s acc v : digits_val 10 s acc = Some v -> first_is_cont s = false.
Proof.
  destruct s as [|c s]; [reflexivity|]. cbn [digits_val first_is_cont].
  destruct (digit_in 10 c) as [d|] eqn:E; [|discriminate]. intros _. eapply dec_digit_not_cont; eauto.
Qed.

Lemma dec_chunks_cons fuel s acc : s <> EmptyString ->
  dec_chunks (S fuel) s acc =
  let '(chunk, rest) := split_at 19 s in
  if first_is_cont rest then PPanic PLitWide
  else match parse_unsigned 10 chunk with
       | Some v => dec_chunks fuel rest (acc * 10000000000000000000 + v)
       | None => PErr
       end.
Proof. destruct s; [contradiction|reflexivity]. Qed.

Lemma dec_chunks_ok k : forall fuel rest acc m,
  String.length rest = (19 * k)%nat -> (k <= fuel)%nat -> digits_val 10 rest acc = Some m ->
  dec_chunks fuel rest acc = POk m.
Proof.
  induction k as [|k IH]; intros fuel rest acc m Hlen Hf Hd.
  - destruct rest; [|cbn [String.length] in Hlen; lia]. cbn [digits_val] in Hd. inversion Hd; subst.
    destruct fuel; reflexivity.
  - destruct fuel as [|fuel]; [lia|].
    assert (Hne : rest <> EmptyString) by (intros ->; cbn [String.length] in Hlen; lia).
    rewrite (dec_chunks_cons fuel rest acc Hne).
    destruct (split_at 19 rest) as [chunk rest'] eqn:Es.
    pose proof (split_at_app _ _ _ _ Es) as Happ.
    destruct (split_at_length _ _ _ _ Es) as [Hl1 Hl2]; [lia|].
    rewrite Happ, digits_val_app in Hd. destruct (digits_val 10 chunk acc) as [v1|] eqn:E1; [|discriminate].
    rewrite (digits_first_not_cont _ _ _ Hd).
    assert (Hcne : chunk <> EmptyString) by (intros ->; cbn [String.length] in Hl1; lia).
    destruct (digits_strip_plus _ _ _ _ E1 Hcne) as [_ Hpu]. rewrite Hpu.
    rewrite digits_val_shift in E1. destruct (digits_val 10 chunk 0) as [c|]; [|discriminate].
    inversion E1; subst v1. unfold slen in Hd. rewrite Hl1 in Hd. change (10 ^ N.of_nat 19) with 10000000000000000000 in Hd.
    apply IH; auto; lia.
Qed.

Lemma words_cover w : w <= 64 * ((w + 63) / 64).
Proof.
  pose proof (N.div_mod (w + 63) 64). pose proof (N.mod_upper_bound (w + 63) 64). lia.
Qed.

Lemma wide_value_sem radix w body v m :
  radix = 2 \/ radix = 10 \/ radix = 16 ->
  wide_value radix w body = POk v -> digits_val radix body 0 = Some m -> m < 2 ^ w -> body <> EmptyString -> v = m.
Proof.
  intros Hr Hv Hm Hfit Hne. unfold wide_value in Hv.
  destruct (digits_strip_plus _ _ _ _ Hm Hne) as [Hsp _]. rewrite Hsp in Hv.
  destruct (String.eqb body "+"); [discriminate|].
  destruct Hr as [->|[->| ->]]; cbn [N.eqb Pos.eqb] in Hv.
  - destruct (w <? slen body); [discriminate|]. apply of_opt_ok in Hv. congruence.
  - (* decimal: 19-digit chunks *)
    set (n := slen body) in *.
    assert (Hn0 : 0 < n).
    { unfold n, slen. destruct body; [contradiction|]. cbn [String.length]. lia. }
    pose proof (N.div_mod n 19) as Hdm. pose proof (N.mod_upper_bound n 19) as Hmb.
    set (lead := if n mod 19 =? 0 then 19 else n mod 19) in *.
    assert (Hlead : 1 <= lead <= n /\ exists k, n - lead = 19 * k).
    { unfold lead. destruct (N.eqb_spec (n mod 19) 0) as [E|E].
      - rewrite E in Hdm. split; [lia|]. exists (n / 19 - 1). lia.
      - split; [lia|]. exists (n / 19). lia. }
    destruct Hlead as [[Hl1 Hl2] [k Hk]].
    destruct (split_at (N.to_nat lead) body) as [chunk rest] eqn:Es.
    pose proof (split_at_app _ _ _ _ Es) as Happ.
    assert (Hlenb : String.length body = N.to_nat n) by (unfold n, slen; rewrite Nat2N.id; reflexivity).
    destruct (split_at_length _ _ _ _ Es) as [Hc1 Hc2]; [lia|].
    rewrite Happ, digits_val_app in Hm. destruct (digits_val 10 chunk 0) as [v0|] eqn:E0; [|discriminate].
    rewrite (digits_first_not_cont _ _ _ Hm) in Hv.
    assert (Hcne : chunk <> EmptyString) by (intros ->; cbn [String.length] in Hc1; lia).
    destruct (digits_strip_plus _ _ _ _ E0 Hcne) as [_ Hpu]. rewrite Hpu, E0 in Hv.
    rewrite (dec_chunks_ok (N.to_nat k) (String.length rest) rest v0 m) in Hv; [|lia|lia|exact Hm].
    cbn [pbind] in Hv.
    assert (Hsmall : m mod 2 ^ (64 * ((w + 63) / 64)) = m).
    { apply N.mod_small. eapply N.lt_le_trans; [exact Hfit|]. apply N.pow_le_mono_r; [lia|apply words_cover]. }
    rewrite Hsmall in Hv. destruct (N.ltb_spec m (2 ^ w)) as [?|?]; [|lia]. inversion Hv; reflexivity.
  - destruct (slen body <=? _).
    + rewrite Hm in Hv. destruct (w <? _); inversion Hv; auto.
    + destruct (all_hex _); discriminate.
Qed.

Lemma lit_sem radix w tok v v' :
  radix = 2 \/ radix = 10 \/ radix = 16 ->
  lit_value radix w tok = POk v -> sem_const radix w tok = B2Ok v' -> v = v'.
Proof.
  intros Hr Hl Hs. unfold lit_value in Hl. unfold sem_const in Hs.
  destruct (w =? 0); [discriminate|]. destruct tok as [|c r]; [discriminate|].
  destruct (Ascii.eqb c "-").
  - destruct r as [|c' r'] eqn:Er; [discriminate|]. rewrite <- Er in *.
    destruct (digits_val radix r 0) as [m|] eqn:Em; [|discriminate].
    destruct (N.ltb_spec m (2 ^ w)) as [Hfit|?]; [|discriminate]. inversion Hs; subst v'. clear Hs.
    assert (Hne : r <> EmptyString) by (rewrite Er; discriminate).
    binv Hl v0 Hv0. inversion Hl; subst v. clear Hl.
    assert (v0 = m); [|subst; reflexivity].
    destruct (w <=? 128).
    + destruct (digits_strip_plus _ _ _ _ Em Hne) as [_ Hpu]. rewrite Hpu, Em in Hv0.
      destruct (m <? 2 ^ w); inversion Hv0; reflexivity.
    + eapply wide_value_sem; eauto.
  - destruct (digits_val radix (String c r) 0) as [m|] eqn:Em; [|discriminate].
    destruct (N.ltb_spec m (2 ^ w)) as [Hfit|?]; [|discriminate]. inversion Hs; subst v'. clear Hs.
    assert (Hne : String c r <> EmptyString) by discriminate.
    binv Hl v0 Hv0. inversion Hl; subst v. clear Hl.
    destruct (w <=? 128).
    + destruct (digits_strip_plus _ _ _ _ Em Hne) as [_ Hpu]. rewrite Hpu, Em in Hv0.
      destruct (m <? 2 ^ w); inversion Hv0; reflexivity.
    + eapply wide_value_sem; eauto.
Qed.

Definition sconsistent (m : b2res b2sem) (P : b2sem -> Prop) : Prop :=
  match m with B2Ok S' => P S' | B2Err B2IllSorted => False | B2Err _ => True end.

Lemma sconsistent_bind {A} (m : b2res A) (f : A -> b2res b2sem) P a :
  m = B2Ok a -> sconsistent (f a) P -> sconsistent (b2bind m f) P.
Proof. intros -> H. exact H. Qed.

Lemma sort_agree rho st S tok t : R rho st S -> get_tpe st tok = POk t -> s_sort S tok = B2Ok t.
Proof.
  intros HR. unfold get_tpe, s_sort. destruct (parse_line_id tok) as [[id neg]|]; [|discriminate].
  destruct neg; [discriminate|]. intros H. apply of_opt_ok in H. rewrite (R_sorts _ _ _ HR), H. reflexivity.
Qed.

Lemma state_agree rho st S tok i : R rho st S -> get_state st tok = POk i -> s_state S tok = B2Ok i.
Proof.
  intros HR. unfold get_state, s_state. destruct (parse_line_id tok) as [[id neg]|]; [|discriminate].
  destruct neg; [discriminate|]. intros H. apply of_opt_ok in H. rewrite (R_smap _ _ _ HR), H. reflexivity.
Qed.

Lemma node_agree rho st S tok e :
  R rho st S -> get_expr st tok = POk e -> exists v, s_node S tok = B2Ok v /\ veq rho e v.
Proof.
  intros HR. unfold get_expr, s_node. destruct (parse_line_id tok) as [[id neg]|]; [|discriminate].
  pose proof (R_nodes _ _ _ HR (key id)) as Hn. unfold orel in Hn.
  destruct (PM.find (key id) (p_signals st)) as [s|]; [|discriminate].
  destruct (PM.find (key id) (m_nodes S)) as [v|]; [|contradiction].
  destruct neg.
  - intros H. apply b_not_ok in H. destruct H as (w & Ht & ->).
    destruct v as [w' a|iw dw f]; destruct Hn as [Ht' Hv]; rewrite Ht in Ht'; inversion Ht'; subst w'.
    eexists. split; [reflexivity|]. cbn [veq type_of ebv]. rewrite Hv. auto.
  - intros H; inversion H; subst. eauto.
Qed.

Lemma check_sort_ok rho r v tpe : veq rho r v -> type_of r = tpe -> check_sort tpe v = B2Ok v.
Proof.
  intros Hv Ht. unfold check_sort. rewrite (veq_sort _ _ _ Hv), Ht, ty_eqb_refl. reflexivity.
Qed.

(** ** adding a node on both sides *)
Lemma R_core rho st st' S : core_eq st st' -> R rho st S -> R rho st' S.
Proof.
  intros (H1 & H2 & H3 & H4 & H5 & H6 & H7 & H8) HR. destruct HR as [R_sorts0 R_nodes0 R_smap0 R_nin0 R_states0 R_outputs0 R_bads0 R_constraints0].
  constructor; rewrite <- ?H1, <- ?H2, <- ?H3, <- ?H4, <- ?H5, <- ?H6, <- ?H7, <- ?H8; auto.
Qed.

Lemma R_add_node rho st S id e v :
  R rho st S -> veq rho e v -> R rho (set_signal st id e) (add_node S id v).
Proof.
  intros HR Hv. destruct HR as [R_sorts0 R_nodes0 R_smap0 R_nin0 R_states0 R_outputs0 R_bads0 R_constraints0]. constructor; cbn [set_signal add_node p_types p_signals p_statemap p_inputs p_states
      p_outputs p_bads p_constraints m_sorts m_nodes m_statemap m_nin m_states m_outputs m_bads m_constraints]; auto.
  intros k. destruct (Pos.eq_dec k (key id)) as [->|Hne].
  - rewrite !PM.gss. exact Hv.
  - rewrite !PM.gso by exact Hne. apply R_nodes0.
Qed.

Lemma R_finish_node rho st S toks id e n v :
  R rho st S -> veq rho e v -> R rho (finish_node st toks id (e, n)) (add_node S id v).
Proof.
  intros HR Hv. pose proof (R_add_node rho st S id e v HR Hv) as H1. unfold finish_node.
  destruct (nth_error toks n) as [name|]; auto. destruct (include_name name); auto.
  destruct (add_unique (set_signal st id e) (clean_up_name name)) as [st2 nm] eqn:E.
  pose proof (core_add_unique (set_signal st id e) (clean_up_name name)) as Hc. rewrite E in Hc. cbn [fst] in Hc.
  eapply R_core; [apply core_note_name|]. eapply R_core; eauto.
Qed.

(** ** node-defining lines *)
Section Lines.
  Variable rho : env.
  Hypothesis Hrho : env_wf rho.

  Lemma finish_with_check st S toks id r n tpe (m : b2res value) :
    R rho st S -> type_of r = tpe -> consistent rho r m ->
    sconsistent (b2bind m (fun r0 => b2bind (check_sort tpe r0) (fun r' => B2Ok (add_node S id r'))))
                (fun S' => R rho (finish_node st toks id (r, n)) S').
  Proof.
    intros HR Ht Hc. destruct m as [v|err]; cbn [b2bind consistent] in *.
    - rewrite (check_sort_ok rho r v tpe Hc Ht). cbn [b2bind sconsistent]. apply R_finish_node; auto.
    - destruct err; cbn [sconsistent]; auto.
  Qed.

  Lemma unary_line_sim st S toks id op u e n :
    inv st -> R rho st S -> un_table op = Some u ->
    parse_unary true st toks u = POk (e, n) ->
    sconsistent (sem_unary_line S toks id op) (fun S' => R rho (finish_node st toks id (e, n)) S').
  Proof.
    intros Hinv HR Hu H. unfold parse_unary in H.
    binv H u0 Hr. binv H tpe Htpe. binv H e0 He0. binv H rc Hrc. destruct rc as [r count].
    binv H c Hc. apply check_expr_type_ok in Hc. destruct Hc as (-> & Hck & Hty). inversion H; subst e n; clear H.
    destruct (node_agree _ _ _ _ _ HR He0) as (v0 & Hn0 & Hv0).
    destruct (get_expr_good _ _ _ Hinv He0) as [Hwt0 _].
    unfold sem_unary_line. rewrite (need_require _ _ _ Hr), (sort_agree _ _ _ _ _ HR Htpe), Hn0. cbn [b2bind].
    apply finish_with_check; auto. apply (unary_agree rho Hrho op u toks e0 v0 r count); auto.
  Qed.

  Lemma binary_line_sim st S toks id op bo e n :
    inv st -> R rho st S -> bin_table op = Some bo ->
    parse_binary true st toks bo = POk (e, n) ->
    sconsistent (sem_binary_line S toks id op) (fun S' => R rho (finish_node st toks id (e, n)) S').
  Proof.
    intros Hinv HR Hb H. unfold parse_binary in H.
    binv H u0 Hr. binv H tpe Htpe. binv H a Ha. binv H b Hb'. binv H r Hrc.
    binv H c Hc. apply check_expr_type_ok in Hc. destruct Hc as (-> & Hck & Hty). inversion H; subst e n; clear H.
    destruct (node_agree _ _ _ _ _ HR Ha) as (va & Hna & Hva). destruct (node_agree _ _ _ _ _ HR Hb') as (vb & Hnb & Hvb).
    destruct (get_expr_good _ _ _ Hinv Ha) as [Hwa _]. destruct (get_expr_good _ _ _ Hinv Hb') as [Hwb _].
    unfold sem_binary_line. rewrite (need_require _ _ _ Hr), (sort_agree _ _ _ _ _ HR Htpe), Hna, Hnb. cbn [b2bind].
    apply finish_with_check; auto. apply (binary_agree rho Hrho op bo tpe a b va vb r); auto.
  Qed.

  Lemma ternary_line_sim st S toks id (is_ite : bool) e n :
    inv st -> R rho st S ->
    parse_ternary true st toks is_ite = POk (e, n) ->
    sconsistent (sem_ternary_line S toks id (if is_ite then "ite" else "write"))
                (fun S' => R rho (finish_node st toks id (e, n)) S').
  Proof.
    intros Hinv HR H. unfold parse_ternary in H.
    binv H u0 Hr. binv H tpe Htpe. binv H a Ha. binv H b Hb'. binv H c Hc'. binv H r Hrc.
    binv H k Hk. apply check_expr_type_ok in Hk. destruct Hk as (-> & Hck & Hty). inversion H; subst e n; clear H.
    destruct (node_agree _ _ _ _ _ HR Ha) as (va & Hna & Hva). destruct (node_agree _ _ _ _ _ HR Hb') as (vb & Hnb & Hvb).
    destruct (node_agree _ _ _ _ _ HR Hc') as (vc & Hnc & Hvc).
    unfold sem_ternary_line. rewrite (need_require _ _ _ Hr), (sort_agree _ _ _ _ _ HR Htpe), Hna, Hnb, Hnc. cbn [b2bind].
    apply finish_with_check; auto. destruct is_ite; [eapply ite_agree|eapply write_agree]; eauto.
  Qed.

  Lemma const_line_sim st S toks id op e n :
    R rho st S -> require toks 3 = POk tt ->
    parse_format st toks op = POk (e, n) ->
    sconsistent (sem_const_line S toks id op) (fun S' => R rho (finish_node st toks id (e, n)) S').
  Proof.
    intros HR Hr3 H. unfold parse_format in H. binv H w Hw. apply get_bv_width_ok in Hw.
    unfold sem_const_line. rewrite (need_require _ _ _ Hr3), (sort_agree _ _ _ _ _ HR Hw). cbn [b2bind].
    destruct (seq op "zero").
    { binv H r Hr. inversion H; subst e n. apply b_lit_ok in Hr. destruct Hr as [_ ->]. cbn [b2bind sconsistent].
      apply R_finish_node; auto. cbn [veq type_of ebv]. auto. }
    destruct (seq op "one").
    { binv H r Hr. inversion H; subst e n. apply b_lit_ok in Hr. destruct Hr as [_ ->]. cbn [b2bind sconsistent].
      apply R_finish_node; auto. cbn [veq type_of ebv]. auto. }
    destruct (seq op "ones").
    { binv H r Hr. inversion H; subst e n. apply b_lit_ok in Hr. destruct Hr as [_ ->]. cbn [b2bind sconsistent].
      apply R_finish_node; auto. cbn [veq type_of ebv]. auto. }
    destruct (Nat.ltb (List.length toks) 4) eqn:El; [discriminate|].
    binv H v Hv. inversion H; subst e n. clear H.
    unfold need. rewrite El. cbn [b2bind].
    set (radix := if seq op "const" then 2 else if seq op "constd" then 10 else 16) in *.
    assert (Hrad : radix = 2 \/ radix = 10 \/ radix = 16).
    { unfold radix. destruct (seq op "const"); auto. destruct (seq op "constd"); auto. }
    destruct (sem_const radix w (tokn toks 3)) as [v'|err] eqn:Es; cbn [b2bind].
    - rewrite <- (lit_sem _ _ _ _ _ Hrad Hv Es). cbn [sconsistent]. apply R_finish_node; auto. cbn [veq type_of ebv]. auto.
    - unfold sem_const in Es.
      destruct (tokn toks 3) as [|c r]; [inversion Es; subst; exact I|].
      destruct (Ascii.eqb c "-");
        repeat match type of Es with
               | context[match ?x with _ => _ end] => destruct x
               end; inversion Es; subst; exact I.
  Qed.
End Lines.

(** ** the other line kinds *)
Section Lines2.
  Variable rho : env.
  Hypothesis Hrho : env_wf rho.
  Variable val : b2val.

  Lemma R_set_types st S k t :
    R rho st S -> R rho (set_types st (PM.add k t (p_types st))) (with_sorts S (PM.add k t (m_sorts S))).
  Proof.
    intros HR. destruct HR as [R_sorts0 R_nodes0 R_smap0 R_nin0 R_states0 R_outputs0 R_bads0 R_constraints0]. constructor; cbn [set_types with_sorts p_types p_signals p_statemap p_inputs p_states
      p_outputs p_bads p_constraints m_sorts m_nodes m_statemap m_nin m_states m_outputs m_bads m_constraints]; auto.
    intros k'. destruct (Pos.eq_dec k' k) as [->|Hne].
    - rewrite !PM.gss. reflexivity.
    - rewrite !PM.gso by exact Hne. apply R_sorts0.
  Qed.

  Lemma sort_line_sim st S toks id st' :
    R rho st S -> require toks 3 = POk tt -> parse_sort st toks id = POk st' ->
    sconsistent (sem_sort_line S toks id) (fun S' => R rho st' S').
  Proof.
    intros HR Hr3 H. unfold parse_sort in H. unfold sem_sort_line. rewrite (need_require _ _ _ Hr3). cbn [b2bind].
    destruct (seq (tokn toks 2) "bitvec").
    - binv H u Hu. binv H w Hw. inversion H; subst st'. rewrite (need_require _ _ _ Hu), (s_num_of_opt _ _ Hw). cbn [b2bind].
      destruct (w =? 0); cbn [sconsistent]; auto. apply R_set_types; auto.
    - destruct (seq (tokn toks 2) "array"); [|discriminate].
      binv H u Hu. binv H it Hit. binv H dt Hdt.
      rewrite (need_require _ _ _ Hu), (sort_agree _ _ _ _ _ HR Hit), (sort_agree _ _ _ _ _ HR Hdt). cbn [b2bind].
      destruct it as [iw|]; [|discriminate]. destruct dt as [dw|]; [|discriminate]. inversion H; subst st'.
      cbn [sconsistent]. apply R_set_types; auto.
  Qed.

  Lemma symbol_value_veq name t sym bv arr :
    b_symbol name t = POk sym -> bv = ebv rho sym -> (forall i, arr i = earr rho sym i) ->
    veq rho sym (sem_symbol_value t bv arr).
  Proof.
    unfold b_symbol. destruct t as [w|iw dw].
    - destruct (w =? 0); [discriminate|]. intros H; inversion H; subst. intros -> _. cbn. auto.
    - intros H; inversion H; subst. intros _ Ha. cbn [sem_symbol_value veq type_of]. split; auto.
  Qed.

  Lemma b_symbol_type name t sym : b_symbol name t = POk sym -> type_of sym = t.
  Proof. unfold b_symbol. destruct t; [destruct (_ =? 0)|]; intros H; inversion H; reflexivity. Qed.

  Lemma nth_error_snoc {A} (l : list A) x : nth_error (l ++ [x])%list (List.length l) = Some x.
  Proof. rewrite nth_error_app2 by lia. rewrite Nat.sub_diag. reflexivity. Qed.

  Lemma input_line_sim st S toks id st' :
    R rho st S -> require toks 3 = POk tt -> parse_input st toks id = POk st' ->
    agree rho val (p_inputs st') (map st_sym (p_states st')) ->
    sconsistent (sem_input_line val S toks id) (fun S' => R rho st' S').
  Proof.
    intros HR Hr3 H Hag. unfold parse_input in H. binv H tpe Ht.
    destruct (label_name st toks "_input") as [st1 name] eqn:E.
    pose proof (core_label_name st toks "_input") as Hc. rewrite E in Hc. cbn [fst] in Hc.
    binv H sym Hs. inversion H; subst st'. clear H.
    unfold sem_input_line. rewrite (need_require _ _ _ Hr3), (sort_agree _ _ _ _ _ HR Ht). cbn [b2bind sconsistent].
    pose proof (R_core _ _ _ _ Hc HR) as HR1.
    (* the valuation at the new input position *)
    destruct Hag as [Hin _].
    assert (Hpi : p_inputs (set_signal (note_name (add_input st1 sym) sym name) id sym) = (p_inputs st1 ++ [sym])%list).
    { unfold note_name. destruct (is_symbol sym); reflexivity. }
    rewrite Hpi in Hin. destruct (Hin _ _ (nth_error_snoc (p_inputs st1) sym)) as [Hbv Harr].
    assert (Hnin : m_nin S = List.length (p_inputs st1)) by (rewrite (R_nin _ _ _ HR1); reflexivity).
    rewrite Hnin.
    assert (Hv : veq rho sym (sem_symbol_value tpe (in_bv val (List.length (p_inputs st1))) (in_arr val (List.length (p_inputs st1))))).
    { eapply symbol_value_veq; eauto. }
    set (v := sem_symbol_value tpe _ _) in *.
    assert (HR2 : R rho (note_name (add_input st1 sym) sym name)
                    (mkSem (m_sorts S) (m_nodes S) (m_statemap S) (Datatypes.S (List.length (p_inputs st1))) (m_states S)
                           (m_outputs S) (m_bads S) (m_constraints S))).
    { eapply R_core; [apply core_note_name|]. destruct HR1 as [R_sorts0 R_nodes0 R_smap0 R_nin0 R_states0 R_outputs0 R_bads0 R_constraints0].
      constructor; cbn [add_input p_types p_signals p_statemap p_inputs p_states p_outputs p_bads p_constraints
        m_sorts m_nodes m_statemap m_nin m_states m_outputs m_bads m_constraints]; auto.
      rewrite app_length. cbn [List.length]. lia. }
    apply (R_add_node rho _ _ id sym v HR2 Hv).
  Qed.

  Lemma F2_length {A B} (P : A -> B -> Prop) l l' : Forall2 P l l' -> List.length l = List.length l'.
  Proof. induction 1; cbn [List.length]; auto. Qed.

  Lemma Forall2_snoc {A B} (P : A -> B -> Prop) l l' x y : Forall2 P l l' -> P x y -> Forall2 P (l ++ [x])%list (l' ++ [y])%list.
  Proof. intros H1 H2. apply Forall2_app; auto. Qed.

  Lemma state_line_sim st S toks id st' :
    R rho st S -> require toks 3 = POk tt -> parse_state st toks id = POk st' ->
    agree rho val (p_inputs st') (map st_sym (p_states st')) ->
    sconsistent (sem_state_line val S toks id) (fun S' => R rho st' S').
  Proof.
    intros HR Hr3 H Hag. unfold parse_state in H. binv H tpe Ht.
    destruct (label_name st toks "_state") as [st1 name] eqn:E.
    pose proof (core_label_name st toks "_state") as Hc. rewrite E in Hc. cbn [fst] in Hc.
    binv H sym Hs. inversion H; subst st'. clear H.
    unfold sem_state_line. rewrite (need_require _ _ _ Hr3), (sort_agree _ _ _ _ _ HR Ht). cbn [b2bind sconsistent].
    pose proof (R_core _ _ _ _ Hc HR) as HR1.
    set (s := {| st_sym := sym; st_init := None; st_next := None |}) in *.
    destruct Hag as [_ Hst].
    assert (Hps : map st_sym (p_states (set_signal (note_name (add_state st1 id s) sym name) id sym)) = (map st_sym (p_states st1) ++ [sym])%list).
    { unfold note_name. destruct (is_symbol sym); cbn [set_signal add_state p_states]; rewrite map_app; reflexivity. }
    rewrite Hps in Hst.
    pose proof (F2_length _ _ _ (R_states _ _ _ HR1)) as Hlen.
    assert (Hnth : nth_error (map st_sym (p_states st1) ++ [sym])%list (List.length (m_states S)) = Some sym).
    { rewrite <- Hlen, <- (map_length st_sym). apply nth_error_snoc. }
    destruct (Hst _ _ Hnth) as [Hbv Harr].
    assert (Hv : veq rho sym (sem_symbol_value tpe (st_bv val (List.length (m_states S))) (st_arr val (List.length (m_states S))))).
    { eapply symbol_value_veq; eauto. }
    set (v := sem_symbol_value tpe _ _) in *.
    assert (HR2 : R rho (note_name (add_state st1 id s) sym name)
                    (mkSem (m_sorts S) (m_nodes S) (PM.add (key id) (List.length (m_states S)) (m_statemap S)) (m_nin S)
                           (m_states S ++ [{| ss_sort := tpe; ss_init := None; ss_next := None |}])%list
                           (m_outputs S) (m_bads S) (m_constraints S))).
    { eapply R_core; [apply core_note_name|]. destruct HR1 as [R_sorts0 R_nodes0 R_smap0 R_nin0 R_states0 R_outputs0 R_bads0 R_constraints0].
      constructor; cbn [add_state p_types p_signals p_statemap p_inputs p_states p_outputs p_bads p_constraints
        m_sorts m_nodes m_statemap m_nin m_states m_outputs m_bads m_constraints]; auto.
      - intros k. rewrite <- Hlen. destruct (Pos.eq_dec k (key id)) as [->|Hne].
        + rewrite !PM.gss. reflexivity.
        + rewrite !PM.gso by exact Hne. apply R_smap0.
      - apply Forall2_snoc; auto. unfold srel. cbn. rewrite (b_symbol_type _ _ _ Hs). auto. }
    apply (R_add_node rho _ _ id sym v HR2 Hv).
  Qed.
End Lines2.

Section Lines3.
  Variable rho : env.
  Hypothesis Hrho : env_wf rho.
  Variable val : b2val.

  Lemma F2_nth {A B} (P : A -> B -> Prop) (da : A) (db : B) : forall l l' n,
    Forall2 P l l' -> (n < List.length l)%nat -> P (nth n l da) (nth n l' db).
  Proof.
    intros l l' n H. revert n. induction H; intros n Hn; cbn [List.length] in Hn; [lia|].
    destruct n; cbn [nth]; auto. apply IHForall2. lia.
  Qed.

  Lemma F2_update {A B} (P : A -> B -> Prop) (f : A -> A) (g : B -> B) (da : A) (db : B) : forall l l' n,
    Forall2 P l l' -> (forall a b, P a b -> P (f a) (g b)) ->
    Forall2 P (update_nth n f l) (update_nth n g l').
  Proof.
    intros l l' n H Hfg. revert n. induction H; intros n; [destruct n; constructor|].
    destruct n; cbn [update_nth]; constructor; auto.
  Qed.

  Lemma init_next_line_sim st S toks (is_init : bool) st' :
    inv st -> R rho st S -> parse_init_next st toks is_init = POk st' ->
    sconsistent (sem_init_next_line S toks is_init) (fun S' => R rho st' S').
  Proof.
    intros Hinv HR H. unfold parse_init_next in H.
    binv H u Hu. binv H tpe Ht. binv H idx Hidx.
    pose proof (get_state_lt _ _ _ Hinv Hidx) as Hlt.
    unfold sem_init_next_line.
    rewrite (need_require _ _ _ Hu), (sort_agree _ _ _ _ _ HR Ht), (state_agree _ _ _ _ _ HR Hidx). cbn [b2bind].
    pose proof (F2_nth _ dummy_state dummy_b2state _ _ idx (R_states _ _ _ HR) Hlt) as Hs. destruct Hs as (Hsort & _ & _).
    rewrite Hsort. set (s0 := nth idx (p_states st) dummy_state) in *.
    destruct (ty_eqb (type_of (st_sym s0)) tpe) eqn:Ety; cbn [negb] in *; [|discriminate].
    apply ty_eqb_eq in Ety.
    binv H maybe Hm. destruct (node_agree _ _ _ _ _ HR Hm) as (v & Hn & Hv). rewrite Hn. cbn [b2bind].
    binv H e He.
    destruct (ty_eqb (type_of e) tpe) eqn:Ete; cbn [negb] in H; [|discriminate].
    apply ty_eqb_eq in Ete. inversion H; subst st'. clear H.
    (* the value the interpreter stores *)
    assert (Hv' : exists v', (match type_of (st_sym s0), v with
                             | TArr iw dw, VBV w a => if is_init && (w =? dw) then B2Ok (VArr iw dw (fun _ => a)) else B2Err B2IllSorted
                             | _, _ => check_sort (type_of (st_sym s0)) v
                             end) = B2Ok v' /\ veq rho e v').
    { destruct (is_init && is_bv_ty (type_of maybe) && negb (is_bv_ty (type_of (st_sym s0)))) eqn:El.
      - apply andb_true_iff in El. destruct El as [El El3]. apply andb_true_iff in El. destruct El as [El1 El2].
        apply b_array_const_ok in He. destruct He as (w & Htm & ->).
        destruct (type_of (st_sym s0)) as [|iw dw] eqn:Es; [discriminate|].
        destruct v as [w' a|? ? ?]; destruct Hv as [Htv Hav]; rewrite Htm in Htv; inversion Htv; subst w'.
        cbn [type_of] in Ete. rewrite <- Ety in Ete. inversion Ete; subst dw.
        rewrite El1, N.eqb_refl. cbn [andb]. eexists. split; [reflexivity|].
        cbn [veq type_of earr]. split; [reflexivity|]. intros i. exact Hav.
      - inversion He; subst e.
        assert (Hcs : check_sort (type_of (st_sym s0)) v = B2Ok v) by (eapply check_sort_ok; eauto; congruence).
        destruct (type_of (st_sym s0)) as [w0|iw dw] eqn:Es.
        + exists v. split; auto.
        + destruct v as [w' a|iw' dw' f]; [|exists (VArr iw' dw' f); split; auto].
          exfalso. destruct Hv as [Htv _]. rewrite Ete, <- Ety in Htv. discriminate. }
    destruct Hv' as (v' & Hsv & Hev). rewrite Hsv. cbn [b2bind sconsistent].
    destruct HR as [R_sorts0 R_nodes0 R_smap0 R_nin0 R_states0 R_outputs0 R_bads0 R_constraints0]. constructor; cbn [set_states set_nth_state p_types p_signals p_statemap p_inputs p_states p_outputs p_bads p_constraints
        m_sorts m_nodes m_statemap m_nin m_states m_outputs m_bads m_constraints]; auto.
    apply F2_update; auto; try exact dummy_state; try exact dummy_b2state.
    intros a b (H1 & H2 & H3). destruct is_init; unfold srel; cbn [st_sym st_init st_next ss_sort ss_init ss_next orel]; auto.
  Qed.

  Lemma output_line_sim st S toks st' :
    R rho st S -> require toks 3 = POk tt -> parse_prop st toks "output" = POk st' ->
    sconsistent (sem_output_line S toks) (fun S' => R rho st' S').
  Proof.
    intros HR Hr3 H. unfold parse_prop in H. binv H e He. cbn [seq String.eqb Ascii.eqb Bool.eqb andb] in H.
    destruct (node_agree _ _ _ _ _ HR He) as (v & Hn & Hv).
    unfold sem_output_line. rewrite (need_require _ _ _ Hr3), Hn. cbn [b2bind sconsistent].
    destruct (label_name st toks "_output") as [st1 name] eqn:E.
    pose proof (core_label_name st toks "_output") as Hc. rewrite E in Hc. cbn [fst] in Hc.
    inversion H; subst st'. eapply R_core; [apply core_note_name|].
    pose proof (R_core _ _ _ _ Hc HR) as HR1. destruct HR1 as [R_sorts0 R_nodes0 R_smap0 R_nin0 R_states0 R_outputs0 R_bads0 R_constraints0].
    constructor; cbn [add_output p_types p_signals p_statemap p_inputs p_states p_outputs p_bads p_constraints
        m_sorts m_nodes m_statemap m_nin m_states m_outputs m_bads m_constraints]; auto.
    apply Forall2_app; auto.
  Qed.

  Lemma prop_line_sim st S toks (is_bad : bool) st' :
    R rho st S -> require toks 3 = POk tt ->
    parse_prop st toks (if is_bad then "bad" else "constraint") = POk st' ->
    sconsistent (sem_prop_line S toks is_bad) (fun S' => R rho st' S').
  Proof.
    intros HR Hr3 H. unfold parse_prop in H. binv H e He.
    destruct (node_agree _ _ _ _ _ HR He) as (v & Hn & Hv).
    unfold sem_prop_line. rewrite (need_require _ _ _ Hr3), Hn. cbn [b2bind].
    destruct (negb (ty_eqb (sort_of_value v) (TBV 1))); [exact I|].
    destruct is_bad; cbn [seq String.eqb Ascii.eqb Bool.eqb andb] in H; cbn [sconsistent].
    - destruct (label_name (add_bad st e) toks "_bad") as [st1 name] eqn:E.
      pose proof (core_label_name (add_bad st e) toks "_bad") as Hc. rewrite E in Hc. cbn [fst] in Hc.
      inversion H; subst st'. eapply R_core; [apply core_note_name|]. eapply R_core; [exact Hc|].
      destruct HR as [R_sorts0 R_nodes0 R_smap0 R_nin0 R_states0 R_outputs0 R_bads0 R_constraints0]. constructor; cbn [add_bad p_types p_signals p_statemap p_inputs p_states p_outputs p_bads p_constraints
        m_sorts m_nodes m_statemap m_nin m_states m_outputs m_bads m_constraints]; auto.
      apply Forall2_app; auto.
    - destruct (label_name (add_constraint st e) toks "_constraint") as [st1 name] eqn:E.
      pose proof (core_label_name (add_constraint st e) toks "_constraint") as Hc. rewrite E in Hc. cbn [fst] in Hc.
      inversion H; subst st'. eapply R_core; [apply core_note_name|]. eapply R_core; [exact Hc|].
      destruct HR as [R_sorts0 R_nodes0 R_smap0 R_nin0 R_states0 R_outputs0 R_bads0 R_constraints0]. constructor; cbn [add_constraint p_types p_signals p_statemap p_inputs p_states p_outputs p_bads p_constraints
        m_sorts m_nodes m_statemap m_nin m_states m_outputs m_bads m_constraints]; auto.
      apply Forall2_app; auto.
  Qed.
End Lines3.

(** ** dispatch of the interpreter, operator by operator *)
Lemma sem_line_unary val S t0 op rest id u :
  parse_line_id t0 = Some (id, false) -> un_table op = Some u -> u <> UUnsup ->
  sem_line val S (t0 :: op :: rest) = sem_unary_line S (t0 :: op :: rest) id op.
Proof.
  intros Hid Hu Hne. apply un_table_inv in Hu. unfold sem_line. rewrite Hid.
  destruct Hu as [[-> ->]|[[-> ->]|[[-> ->]|[[-> ->]|[[-> ->]|[[-> ->]|[[-> ->]|[[-> ->]| ->]]]]]]]]; try reflexivity.
  contradiction.
Qed.

Lemma sem_line_binary val S t0 op rest id bo :
  parse_line_id t0 = Some (id, false) -> bin_table op = Some bo -> bo <> BUnsup ->
  sem_line val S (t0 :: op :: rest) = sem_binary_line S (t0 :: op :: rest) id op.
Proof.
  intros Hid Hb Hne. unfold sem_line. rewrite Hid. revert Hb. unfold bin_table.
  repeat match goal with
         | |- (if seq op ?s then _ else _) = Some _ -> _ =>
             destruct (seq op s) eqn:E;
             [apply String.eqb_eq in E; intros H; inversion H; subst op bo; clear H; try reflexivity; try contradiction|clear E]
         end.
  discriminate.
Qed.

Section LineSim.
  Variable rho : env.
  Hypothesis Hrho : env_wf rho.
  Variable val : b2val.

  Lemma line_sim st S toks st' :
    inv st -> R rho st S -> parse_line true st toks = POk st' ->
    agree rho val (p_inputs st') (map st_sym (p_states st')) ->
    sconsistent (sem_line val S toks) (fun S' => R rho st' S').
  Proof.
    intros Hinv HR H Hag. unfold parse_line in H.
    destruct toks as [|t0 rest]; [inversion H; subst; exact HR|].
    destruct (parse_line_id t0) as [[id neg]|] eqn:Hid; [|discriminate].
    destruct neg; [discriminate|]. destruct rest as [|op rest']; [discriminate|].
    set (toks := t0 :: op :: rest') in *.
    destruct (un_table op) as [u|] eqn:Eu.
    { binv H r Hr. inversion H; subst st'. destruct r as [e n].
      assert (Hne : u <> UUnsup).
      { intros ->. unfold parse_unary, lower_unary in Hr. binv Hr u0 H0. binv Hr t H1. binv Hr e0 H2. discriminate. }
      unfold toks. rewrite (sem_line_unary val S t0 op rest' id u Hid Eu Hne). eapply unary_line_sim; eauto. }
    destruct (bin_table op) as [bo|] eqn:Eb.
    { binv H r Hr. inversion H; subst st'. destruct r as [e n].
      assert (Hne : bo <> BUnsup).
      { intros ->. unfold parse_binary, lower_binary in Hr. binv Hr u0 H0. binv Hr t H1. binv Hr a H2. binv Hr b H3. discriminate. }
      unfold toks. rewrite (sem_line_binary val S t0 op rest' id bo Hid Eb Hne). eapply binary_line_sim; eauto. }
    binv H u0 Hu0. destruct u0.
    destruct (seq op "ite") eqn:E1.
    { apply String.eqb_eq in E1. subst op. binv H r Hr. inversion H; subst st'. destruct r as [e n].
      replace (sem_line val S toks) with (sem_ternary_line S toks id "ite") by (unfold toks, sem_line; rewrite Hid; reflexivity).
      apply (ternary_line_sim rho st S toks id true e n); auto. }
    destruct (seq op "write") eqn:E2.
    { apply String.eqb_eq in E2. subst op. binv H r Hr. inversion H; subst st'. destruct r as [e n].
      replace (sem_line val S toks) with (sem_ternary_line S toks id "write") by (unfold toks, sem_line; rewrite Hid; reflexivity).
      apply (ternary_line_sim rho st S toks id false e n); auto. }
    destruct (seq op "sort") eqn:E3.
    { apply String.eqb_eq in E3. subst op.
      replace (sem_line val S toks) with (sem_sort_line S toks id) by (unfold toks, sem_line; rewrite Hid; reflexivity).
      eapply sort_line_sim; eauto. }
    destruct (seq op "const" || seq op "constd" || seq op "consth" || seq op "zero" || seq op "one" || seq op "ones") eqn:E4.
    { binv H r Hr. inversion H; subst st'. destruct r as [e n].
      assert (Hd : sem_line val S toks = sem_const_line S toks id op).
      { unfold toks, sem_line. rewrite Hid.
        repeat (apply orb_true_iff in E4; destruct E4 as [E4|E4]); apply String.eqb_eq in E4; subst op; reflexivity. }
      rewrite Hd. eapply const_line_sim; eauto. }
    destruct (seq op "state") eqn:E5.
    { apply String.eqb_eq in E5. subst op.
      replace (sem_line val S toks) with (sem_state_line val S toks id) by (unfold toks, sem_line; rewrite Hid; reflexivity).
      eapply state_line_sim; eauto. }
    destruct (seq op "input") eqn:E6.
    { apply String.eqb_eq in E6. subst op.
      replace (sem_line val S toks) with (sem_input_line val S toks id) by (unfold toks, sem_line; rewrite Hid; reflexivity).
      eapply input_line_sim; eauto. }
    destruct (seq op "init") eqn:E7.
    { apply String.eqb_eq in E7. subst op.
      replace (sem_line val S toks) with (sem_init_next_line S toks true) by (unfold toks, sem_line; rewrite Hid; reflexivity).
      eapply init_next_line_sim; eauto. }
    destruct (seq op "next") eqn:E8.
    { apply String.eqb_eq in E8. subst op.
      replace (sem_line val S toks) with (sem_init_next_line S toks false) by (unfold toks, sem_line; rewrite Hid; reflexivity).
      eapply init_next_line_sim; eauto. }
    destruct (seq op "output") eqn:E9.
    { apply String.eqb_eq in E9. subst op.
      replace (sem_line val S toks) with (sem_output_line S toks) by (unfold toks, sem_line; rewrite Hid; reflexivity).
      eapply output_line_sim; eauto. }
    destruct (seq op "bad") eqn:E10.
    { apply String.eqb_eq in E10. subst op.
      replace (sem_line val S toks) with (sem_prop_line S toks true) by (unfold toks, sem_line; rewrite Hid; reflexivity).
      apply (prop_line_sim rho st S toks true st'); auto. }
    destruct (seq op "constraint") eqn:E11.
    { apply String.eqb_eq in E11. subst op.
      replace (sem_line val S toks) with (sem_prop_line S toks false) by (unfold toks, sem_line; rewrite Hid; reflexivity).
      apply (prop_line_sim rho st S toks false st'); auto. }
    destruct (seq op "fair") eqn:E12; cbn [orb] in H; [|discriminate].
    apply String.eqb_eq in E12. subst op. unfold parse_prop in H. binv H e He. discriminate.
  Qed.
End LineSim.

(** ** lists of declared symbols only grow *)
Definition grows (st st' : pstate) : Prop :=
  (exists r, p_inputs st' = (p_inputs st ++ r)%list) /\
  (exists r, map st_sym (p_states st') = (map st_sym (p_states st) ++ r)%list).

Lemma grows_refl st : grows st st.
Proof. split; exists []; rewrite app_nil_r; reflexivity. Qed.

Lemma grows_trans a b c : grows a b -> grows b c -> grows a c.
Proof.
  intros [[r1 H1] [r2 H2]] [[r3 H3] [r4 H4]]. split.
  - exists (r1 ++ r3)%list. rewrite H3, H1, app_assoc. reflexivity.
  - exists (r2 ++ r4)%list. rewrite H4, H2, app_assoc. reflexivity.
Qed.

Lemma grows_same a b : p_inputs b = p_inputs a -> p_states b = p_states a -> grows a b.
Proof. intros H1 H2. split; exists []; rewrite app_nil_r; congruence. Qed.

Ltac decl_simpl :=
  unfold finish_node, note_name, label_name, add_unique, set_used, set_signal, add_output, add_bad, add_constraint,
         set_types, set_states, add_input, add_state;
  repeat match goal with
         | |- context[match nth_error ?l ?n with _ => _ end] => destruct (nth_error l n)
         | |- context[if include_name ?x then _ else _] => destruct (include_name x)
         | |- context[if is_symbol ?e then _ else _] => destruct (is_symbol e)
         end;
  cbn [p_inputs p_states fst snd].

Lemma grows_finish st toks id r : grows st (finish_node st toks id r).
Proof. destruct r as [e n]. apply grows_same; decl_simpl; reflexivity. Qed.

Lemma parse_line_grows dbg st toks st' : parse_line dbg st toks = POk st' -> grows st st'.
Proof.
  intros H. unfold parse_line in H.
  destruct toks as [|t0 rest]; [inversion H; apply grows_refl|].
  destruct (parse_line_id t0) as [[id neg]|]; [|discriminate].
  destruct neg; [discriminate|]. destruct rest as [|op rest']; [discriminate|].
  destruct (un_table op). { binv H r Hr. inversion H. apply grows_finish. }
  destruct (bin_table op). { binv H r Hr. inversion H. apply grows_finish. }
  binv H u0 Hu0.
  destruct (seq op "ite"). { binv H r Hr. inversion H. apply grows_finish. }
  destruct (seq op "write"). { binv H r Hr. inversion H. apply grows_finish. }
  destruct (seq op "sort").
  { unfold parse_sort in H. destruct (seq _ "bitvec").
    - binv H u Hu. binv H w Hw. inversion H. apply grows_same; reflexivity.
    - destruct (seq _ "array"); [|discriminate]. binv H u Hu. binv H it Hit. binv H dt Hdt.
      destruct it; [|discriminate]. destruct dt; [|discriminate]. inversion H. apply grows_same; reflexivity. }
  destruct (seq op "const" || seq op "constd" || seq op "consth" || seq op "zero" || seq op "one" || seq op "ones").
  { binv H r Hr. inversion H. apply grows_finish. }
  destruct (seq op "state").
  { unfold parse_state in H. binv H tpe Ht. unfold label_name, add_unique in H. binv H sym Hs. inversion H. split.
    - exists []. decl_simpl; rewrite app_nil_r; reflexivity.
    - exists [sym]. decl_simpl; rewrite map_app; reflexivity. }
  destruct (seq op "input").
  { unfold parse_input in H. binv H tpe Ht. unfold label_name, add_unique in H. binv H sym Hs. inversion H. split.
    - exists [sym]. decl_simpl; reflexivity.
    - exists []. decl_simpl; rewrite app_nil_r; reflexivity. }
  assert (Hin : forall b, parse_init_next st (t0 :: op :: rest') b = POk st' -> grows st st').
  { intros b Hb. unfold parse_init_next in Hb. binv Hb u Hu. binv Hb tpe Ht. binv Hb idx Hi.
    destruct (negb (ty_eqb _ tpe)); [discriminate|]. binv Hb maybe Hm. binv Hb e He.
    destruct (negb (ty_eqb _ _)); [discriminate|]. inversion Hb. split.
    - exists []. cbn [set_states p_inputs]. rewrite app_nil_r. reflexivity.
    - exists []. cbn [set_states p_states]. rewrite app_nil_r. apply update_nth_map. intros a; destruct b; reflexivity. }
  destruct (seq op "init"); [apply (Hin true H)|]. destruct (seq op "next"); [apply (Hin false H)|].
  destruct (seq op "output" || seq op "bad" || seq op "constraint" || seq op "fair"); [|discriminate].
  unfold parse_prop in H. binv H e He. unfold label_name, add_unique in H.
  destruct (seq op "output"). { inversion H. apply grows_same; decl_simpl; reflexivity. }
  destruct (seq op "bad"). { inversion H. apply grows_same; decl_simpl; reflexivity. }
  destruct (seq op "constraint"); [|discriminate]. inversion H. apply grows_same; decl_simpl; reflexivity.
Qed.

Lemma agree_shrink rho val ins r sts r' : agree rho val (ins ++ r)%list (sts ++ r')%list -> agree rho val ins sts.
Proof.
  intros [H1 H2]. split; intros k e Hk.
  - apply H1. rewrite nth_error_app1; auto. apply nth_error_Some. congruence.
  - apply H2. rewrite nth_error_app1; auto. apply nth_error_Some. congruence.
Qed.

Lemma agree_grows rho val st st' :
  grows st st' -> agree rho val (p_inputs st') (map st_sym (p_states st')) ->
  agree rho val (p_inputs st) (map st_sym (p_states st)).
Proof. intros [[r1 H1] [r2 H2]] H. rewrite H1, H2 in H. eapply agree_shrink; eauto. Qed.

Lemma parse_fold_err_sticky dbg ls : forall st stf e, parse_fold dbg ls st true = POk (stf, e) -> e = true.
Proof.
  induction ls as [|l ls IH]; intros st stf e H; cbn [parse_fold] in H.
  - inversion H; reflexivity.
  - destruct (parse_line dbg st l); try discriminate; eapply IH; eauto.
Qed.

Lemma parse_fold_grows dbg ls : forall st err stf e, parse_fold dbg ls st err = POk (stf, e) -> grows st stf.
Proof.
  induction ls as [|l ls IH]; intros st err stf e H; cbn [parse_fold] in H.
  - inversion H; apply grows_refl.
  - destruct (parse_line dbg st l) as [st1| |k] eqn:E; try discriminate.
    + eapply grows_trans; [eapply parse_line_grows; eauto|eapply IH; eauto].
    + eapply IH; eauto.
Qed.

(** a [sort bitvec 0] line stops the interpreter with an error that is not [B2IllSorted] *)
Lemma zero_sort_sem val S l : zero_sort_line l = true -> exists e, sem_line val S l = B2Err e /\ e <> B2IllSorted.
Proof.
  unfold zero_sort_line. intros H. apply andb_true_iff in H. destruct H as [H H3]. apply andb_true_iff in H. destruct H as [H1 H2].
  apply String.eqb_eq in H1. unfold sem_line.
  destruct l as [|t0 rest]; [cbn in H1; discriminate|].
  destruct (parse_line_id t0) as [[id neg]|]; [|eexists; split; [reflexivity|discriminate]].
  destruct neg; [eexists; split; [reflexivity|discriminate]|].
  destruct (need (t0 :: rest) 2) as [[]|e] eqn:En; cbn [b2bind].
  2: { unfold need in En. destruct (Nat.ltb _ _); inversion En. eexists; split; [reflexivity|discriminate]. }
  rewrite H1. cbn [str_mem unsupported_ops seq String.eqb Ascii.eqb Bool.eqb andb orb].
  unfold sem_sort_line.
  destruct (need (t0 :: rest) 3) as [[]|e] eqn:En3; cbn [b2bind].
  2: { unfold need in En3. destruct (Nat.ltb _ _); inversion En3. eexists; split; [reflexivity|discriminate]. }
  rewrite H2.
  destruct (need (t0 :: rest) 4) as [[]|e] eqn:En4; cbn [b2bind].
  2: { unfold need in En4. destruct (Nat.ltb _ _); inversion En4. eexists; split; [reflexivity|discriminate]. }
  unfold s_num. destruct (parse_width (tokn (t0 :: rest) 3)) as [[|p]|]; try discriminate.
  cbn [s_opt b2bind N.eqb]. eexists; split; [reflexivity|discriminate].
Qed.

Section Fold.
  Variable rho : env.
  Hypothesis Hrho : env_wf rho.
  Variable val : b2val.

  Lemma fold_sim ls : forall st S stf,
    inv st -> R rho st S ->
    parse_fold true ls st false = POk (stf, false) ->
    agree rho val (p_inputs stf) (map st_sym (p_states stf)) ->
    sconsistent (sem_fold val ls S) (fun S' => R rho stf S').
  Proof.
    induction ls as [|l ls IH]; intros st S stf Hinv HR H Hag; cbn [parse_fold sem_fold] in *.
    - inversion H; subst. exact HR.
    - destruct (parse_line true st l) as [st1| |k] eqn:E; [| |discriminate].
      + destruct (zero_sort_line l) eqn:Ez.
        * destruct (zero_sort_sem val S l Ez) as (e & -> & Hne). cbn [b2bind sconsistent]. destruct e; try exact I. exfalso; apply Hne; reflexivity.
        * pose proof (parse_fold_grows _ _ _ _ _ _ H) as Hg.
          pose proof (line_sim rho Hrho val st S l st1 Hinv HR E (agree_grows _ _ _ _ Hg Hag)) as Hl.
          destruct (sem_line val S l) as [S1|e]; cbn [b2bind sconsistent] in *; [|exact Hl].
          apply (IH st1 S1 stf); auto. eapply parse_line_inv; eauto.
      + apply parse_fold_err_sticky in H. discriminate.
  Qed.
End Fold.

Lemma induced_agree rho st : agree rho (induced_sys rho (sys_of_pstate st)) (p_inputs st) (map st_sym (p_states st)).
Proof.
  split; intros k e Hk; cbn [induced_sys sys_of_pstate s_inputs s_states in_bv in_arr st_bv st_arr]; rewrite (nth_error_nth _ _ _ Hk); auto.
Qed.

Lemma R_empty rho : R rho p_empty b2sem_empty.
Proof.
  constructor; cbn [p_empty b2sem_empty p_types p_signals p_statemap p_inputs p_states p_outputs p_bads p_constraints
    m_sorts m_nodes m_statemap m_nin m_states m_outputs m_bads m_constraints]; auto; try (intros k; rewrite !PM.gempty; reflexivity);
    try constructor.
Qed.

(** ** the theorems *)
(** agreement of an accepted text with the reference interpreter (debug build) *)
Theorem parse_sound ls st rho val S :
  env_wf rho ->
  parse_fold true ls p_empty false = POk (st, false) ->
  agree rho val (p_inputs st) (map st_sym (p_states st)) ->
  sem_run val ls = B2Ok S ->
  R rho st S.
Proof.
  intros Hrho H Hag Hs. pose proof (fold_sim rho Hrho val ls p_empty b2sem_empty st inv_empty (R_empty rho) H Hag) as Hf.
  unfold sem_run in Hs. rewrite Hs in Hf. exact Hf.
Qed.

(** a text the reference interpreter rejects as ill-sorted is not accepted (debug build) *)
Theorem parse_rejects_ill_sorted ls st rho :
  env_wf rho ->
  parse_fold true ls p_empty false = POk (st, false) ->
  sem_run (induced_sys rho (sys_of_pstate st)) ls <> B2Err B2IllSorted.
Proof.
  intros Hrho H Hs.
  pose proof (fold_sim rho Hrho (induced_sys rho (sys_of_pstate st)) ls p_empty b2sem_empty st inv_empty (R_empty rho) H (induced_agree rho st)) as Hf.
  unfold sem_run in Hs. rewrite Hs in Hf. exact Hf.
Qed.

(** ** release builds, and statements about the returned system *)
Theorem parse_sound_release ls st rho val S :
  env_wf rho ->
  no_panic (parse_fold true ls p_empty false) ->
  parse_fold false ls p_empty false = POk (st, false) ->
  agree rho val (p_inputs st) (map st_sym (p_states st)) ->
  sem_run val ls = B2Ok S ->
  R rho st S.
Proof.
  intros Hrho Hnp H. rewrite (parse_fold_ref ls p_empty false Hnp) in H. apply parse_sound; auto.
Qed.

Lemma parse_raw_inv dbg ls sy ren :
  parse_raw dbg ls = POk (sy, ren) ->
  exists st, parse_fold dbg ls p_empty false = POk (st, false) /\ sy = sys_of_pstate st /\ ren = renames_of st.
Proof.
  unfold parse_raw. intros H. binv H r Hr. destruct r as [st err]. destruct err; [discriminate|].
  inversion H; subst. eauto.
Qed.

Lemma R_sys rho st S : R rho st S -> sys_agrees rho (sys_of_pstate st) S.
Proof.
  intros HR. destruct HR as [R_sorts0 R_nodes0 R_smap0 R_nin0 R_states0 R_outputs0 R_bads0 R_constraints0]. unfold sys_agrees, sys_of_pstate. cbn [s_inputs s_states s_outputs s_bads s_constraints]. auto 10.
Qed.

Theorem system_sound ls sy ren rho S :
  env_wf rho ->
  parse_raw true ls = POk (sy, ren) ->
  sem_run (induced_sys rho sy) ls = B2Ok S ->
  sys_agrees rho sy S.
Proof.
  intros Hrho H Hs. apply parse_raw_inv in H. destruct H as (st & Hf & -> & _).
  apply R_sys. eapply parse_sound; eauto. apply induced_agree.
Qed.

Theorem system_rejects_ill_sorted ls sy ren rho :
  env_wf rho ->
  parse_raw true ls = POk (sy, ren) ->
  sem_run (induced_sys rho sy) ls <> B2Err B2IllSorted.
Proof.
  intros Hrho H. apply parse_raw_inv in H. destruct H as (st & Hf & -> & _).
  eapply parse_rejects_ill_sorted; eauto.
Qed.
