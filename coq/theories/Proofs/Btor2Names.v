(** * Proofs/Btor2Names.v — the symbols of every system the btor2 reader returns are pairwise distinct.

    [unique_name] returns a name that is not in use ([unique_name_fresh]: one of the first
    [length used + 2] candidates [base], [base_0], [base_1], ... is free); the reader gives every
    input and state a name obtained this way, and [improve_state_names] renames a state to the
    last name recorded for its symbol, which was obtained the same way and recorded for that symbol
    only.  Hence, for EVERY text and every reader variant, the inputs and state symbols of an
    accepted system are pairwise distinct ([accepted_distinct]). *)
From Coq Require Import List Lia Bool String Ascii NArith FMapPositive DecimalString DecimalN DecimalPos.
From Patronus Require Import Expr ExprLemmas ExprEqb SysClosed Btor2Parse Btor2ExprFacts Btor2ParseProofs.
Import ListNotations.
Open Scope string_scope.
Open Scope list_scope.
Open Scope N_scope.

(** ** [unique_name] is fresh *)
Lemma str_mem_In x l : str_mem x l = true <-> In x l.
Proof.
  induction l as [|y l IH]; cbn [str_mem In]; [split; [discriminate|contradiction]|].
  rewrite orb_true_iff, IH, String.eqb_eq. split; intros [H|H]; auto.
Qed.

Definition cand (base : string) (k : N) : string := String.append base (String.append "_" (dec_string k)).

Lemma append_inj_l a : forall b c, String.append a b = String.append a c -> b = c.
Proof. induction a as [|x a IH]; cbn [String.append]; intros b c H; [exact H|]. inversion H. auto. Qed.

Lemma dec_string_inj a b : dec_string a = dec_string b -> a = b.
Proof.
  unfold dec_string. intros H. apply (f_equal NilEmpty.uint_of_string) in H. rewrite !NilEmpty.usu in H.
  inversion H as [H1]. apply (f_equal N.of_uint) in H1. rewrite !DecimalN.Unsigned.of_to in H1. exact H1.
Qed.

Lemma cand_inj base a b : cand base a = cand base b -> a = b.
Proof. unfold cand. intros H. apply append_inj_l in H. cbn [String.append] in H. inversion H. apply dec_string_inj. assumption. Qed.

Lemma append_length a b : String.length (String.append a b) = (String.length a + String.length b)%nat.
Proof. induction a as [|x a IH]; cbn [String.append String.length]; [reflexivity|]. rewrite IH. reflexivity. Qed.

Lemma cand_not_base base k : cand base k <> base.
Proof.
  unfold cand. intros H. apply (f_equal String.length) in H. rewrite append_length in H. cbn [String.append String.length] in H. lia.
Qed.

(** the candidates the loop looks at, starting with [name] and continuing with [cand base count], ... *)
Fixpoint cands (fuel : nat) (base : string) (count : N) : list string :=
  match fuel with O => [] | S f => cand base count :: cands f base (count + 1) end.

Lemma uniq_loop_spec fuel : forall base used count name,
  let r := uniq_loop fuel base used count name in
  In r (name :: cands fuel base count) /\
  (In r used -> forall c, In c (name :: cands fuel base count) -> In c used).
Proof.
  induction fuel as [|f IH]; intros base used count name; cbn [uniq_loop cands].
  - destruct (str_mem name used) eqn:E.
    + split; [left; reflexivity|]. intros _ c [<-|[]]. apply str_mem_In. exact E.
    + split; [left; reflexivity|]. intros H. apply str_mem_In in H. congruence.
  - destruct (str_mem name used) eqn:E.
    + destruct (IH base used (count + 1) (cand base count)) as [H1 H2]. fold (cand base count). split.
      * right. exact H1.
      * intros Hr c [<-|Hc]; [apply str_mem_In; exact E|]. apply H2; assumption.
    + split; [left; reflexivity|]. intros H. apply str_mem_In in H. congruence.
Qed.

Lemma cands_in fuel : forall base count c, In c (cands fuel base count) -> exists k, count <= k /\ c = cand base k.
Proof.
  induction fuel as [|f IH]; intros base count c H; cbn [cands] in H; [contradiction|].
  destruct H as [<-|H]; [exists count; split; [lia|reflexivity]|].
  destruct (IH _ _ _ H) as (k & Hk & ->). exists k. split; [lia|reflexivity].
Qed.

Lemma cands_nodup fuel : forall base count, NoDup (cands fuel base count).
Proof.
  induction fuel as [|f IH]; intros base count; cbn [cands]; constructor; [|apply IH].
  intros H. apply cands_in in H. destruct H as (k & Hk & Heq). apply cand_inj in Heq. lia.
Qed.

Lemma cands_length fuel base count : List.length (cands fuel base count) = fuel.
Proof. revert count. induction fuel as [|f IH]; intros count; cbn [cands List.length]; auto. Qed.

Theorem unique_name_fresh base used : ~ In (unique_name base used) used.
Proof.
  unfold unique_name. intros H.
  destruct (uniq_loop_spec (S (List.length used)) base used 0 base) as [_ H2]. specialize (H2 H).
  assert (Hnd : NoDup (base :: cands (S (List.length used)) base 0)).
  { constructor; [|apply cands_nodup]. intros Hin. apply cands_in in Hin. destruct Hin as (k & _ & Heq).
    symmetry in Heq. exact (cand_not_base _ _ Heq). }
  pose proof (NoDup_incl_length Hnd H2) as Hlen. cbn [List.length] in Hlen. rewrite cands_length in Hlen. lia.
Qed.

(** ** the name invariant of the reader *)
Record NI (ps : pstate) : Prop := mkNI {
  ni_nodup : NoDup (map snd (p_symnames ps));
  ni_used : forall e n, In (e, n) (p_symnames ps) -> In n (p_used ps);
  ni_decl : forall x, In x (decl ps) -> In (x, sym_name x) (p_symnames ps);
  ni_sym : forall x, In x (decl ps) -> is_symbol x = true;
  ni_dd : NoDup (decl ps)
}.

Definition names_eq (a b : pstate) : Prop :=
  p_used a = p_used b /\ p_symnames a = p_symnames b /\ p_inputs a = p_inputs b /\
  map st_sym (p_states a) = map st_sym (p_states b).

Lemma names_eq_NI a b : names_eq a b -> NI a -> NI b.
Proof.
  intros (H1 & H2 & H3 & H4) [A B C D E].
  assert (Hd : decl b = decl a) by (unfold decl; congruence).
  constructor; rewrite ?Hd, <- ?H1, <- ?H2; auto.
Qed.

Lemma NI_empty : NI p_empty.
Proof. constructor; cbn [p_empty p_symnames p_used decl p_inputs p_states map app]; try constructor; intros; contradiction. Qed.

(** a fresh name *)
Lemma add_unique_spec ps base : let '(ps1, n) := add_unique ps base in
  ~ In n (p_used ps) /\ In n (p_used ps1) /\ (forall x, In x (p_used ps) -> In x (p_used ps1)) /\
  p_symnames ps1 = p_symnames ps /\ p_inputs ps1 = p_inputs ps /\ p_states ps1 = p_states ps.
Proof.
  unfold add_unique. cbn [set_used p_used p_symnames p_inputs p_states].
  split; [apply unique_name_fresh|]. split; [left; reflexivity|]. split; [intros x Hx; right; exact Hx|auto].
Qed.

Lemma NI_add_unique ps base : NI ps -> NI (fst (add_unique ps base)).
Proof.
  intros [A B C D E]. pose proof (add_unique_spec ps base) as H. destruct (add_unique ps base) as [ps1 n]. cbn [fst].
  destruct H as (_ & _ & Hsub & H2 & H3 & H4).
  assert (Hd : decl ps1 = decl ps) by (unfold decl; congruence).
  constructor; rewrite ?Hd, ?H2; auto. intros e0 n0 H0. apply Hsub. eapply B. exact H0.
Qed.

Lemma fresh_not_noted ps n : NI ps -> ~ In n (p_used ps) -> ~ In n (map snd (p_symnames ps)).
Proof.
  intros Hni Hn Hin. apply in_map_iff in Hin. destruct Hin as ([e n'] & Heq & Hin). cbn [snd] in Heq. subst n'.
  apply Hn. apply (ni_used _ Hni e n Hin).
Qed.

(** recording a name that is in use but has not been recorded yet *)
Lemma NI_note ps e n : NI ps -> In n (p_used ps) -> ~ In n (map snd (p_symnames ps)) -> NI (note_name ps e n).
Proof.
  intros [A B C D E] Hu Hf. unfold note_name. destruct (is_symbol e); [|constructor; auto].
  constructor; cbn [p_symnames p_used decl p_inputs p_states map snd]; auto.
  - constructor; assumption.
  - intros e0 n0 [H|H]; [inversion H; subst; exact Hu|eauto].
  - intros x Hx. right. apply C. exact Hx.
Qed.

(** a label: a fresh name recorded for [e] *)
Lemma NI_label ps e base :
  NI ps -> let '(ps1, n) := add_unique ps base in NI (note_name ps1 e n).
Proof.
  intros Hni. pose proof (add_unique_spec ps base) as H. pose proof (NI_add_unique ps base Hni) as Hni1.
  destruct (add_unique ps base) as [ps1 n]. cbn [fst] in Hni1. destruct H as (Hf & Hu & _ & H2 & _).
  apply NI_note; auto. rewrite H2. apply fresh_not_noted; auto.
Qed.

(** ** the lines *)
From Coq Require Import Permutation.

Lemma NI_finish st toks id r : NI st -> NI (finish_node st toks id r).
Proof.
  intros Hni. destruct r as [e count]. unfold finish_node.
  assert (H1 : NI (set_signal st id e)) by (apply (names_eq_NI st); [repeat split|exact Hni]).
  destruct (nth_error toks count) as [name|]; [|exact H1]. destruct (include_name name); [|exact H1].
  apply (NI_label (set_signal st id e) e (clean_up_name name) H1).
Qed.

Lemma b_symbol_name name t sym : b_symbol name t = POk sym -> is_symbol sym = true /\ sym_name sym = name.
Proof.
  destruct t as [w|iw dw]; cbn [b_symbol]; [destruct (w =? 0); [discriminate|]|]; intros H; inversion H; split; reflexivity.
Qed.

Lemma new_symbol_not_declared ps n sym : NI ps -> ~ In n (p_used ps) -> sym_name sym = n -> ~ In sym (decl ps).
Proof.
  intros Hni Hn Hs Hin. apply Hn. rewrite <- Hs. apply (ni_used _ Hni sym). apply (ni_decl _ Hni). exact Hin.
Qed.

Lemma NI_input st toks id st' : NI st -> parse_input st toks id = POk st' -> NI st'.
Proof.
  intros Hni H. unfold parse_input in H. binv H tpe Ht. unfold label_name in H.
  pose proof (add_unique_spec st (nth 3 toks "_input")) as Hs. pose proof (NI_add_unique st (nth 3 toks "_input") Hni) as Hni1.
  destruct (add_unique st (nth 3 toks "_input")) as [st1 name]. cbn [fst] in Hni1. destruct Hs as (Hf & Hu & Hsub & H2 & H3 & H4).
  binv H sym Hsym. inversion H; subst st'. clear H. destruct (b_symbol_name _ _ _ Hsym) as [Hsy Hsn].
  apply (names_eq_NI (note_name (add_input st1 sym) sym name)); [repeat split|].
  assert (Hnd : ~ In sym (decl st1)).
  { replace (decl st1) with (decl st) by (unfold decl; congruence). apply (new_symbol_not_declared st name); auto. }
  destruct Hni1 as [A B C D E]. unfold note_name. rewrite Hsy.
  constructor; unfold decl; cbn [p_symnames p_used add_input p_inputs p_states map snd].
  - constructor; [|exact A]. rewrite H2. apply fresh_not_noted; auto.
  - intros e0 n0 [H|H]; [inversion H; subst; exact Hu|eauto].
  - intros x Hx. apply in_app_iff in Hx. destruct Hx as [Hx|Hx].
    + apply in_app_iff in Hx. destruct Hx as [Hx|[<-|[]]]; [right; apply C; apply in_or_app; left; exact Hx|left; rewrite Hsn; reflexivity].
    + right. apply C. apply in_or_app. right. exact Hx.
  - intros x Hx. apply in_app_iff in Hx. destruct Hx as [Hx|Hx].
    + apply in_app_iff in Hx. destruct Hx as [Hx|[<-|[]]]; [apply D; apply in_or_app; left; exact Hx|exact Hsy].
    + apply D. apply in_or_app. right. exact Hx.
  - rewrite <- app_assoc. cbn [app]. apply (Permutation_NoDup (Permutation_middle _ _ _)). constructor; assumption.
Qed.

Lemma NI_state st toks id st' : NI st -> parse_state st toks id = POk st' -> NI st'.
Proof.
  intros Hni H. unfold parse_state in H. binv H tpe Ht. unfold label_name in H.
  pose proof (add_unique_spec st (nth 3 toks "_state")) as Hs. pose proof (NI_add_unique st (nth 3 toks "_state") Hni) as Hni1.
  destruct (add_unique st (nth 3 toks "_state")) as [st1 name]. cbn [fst] in Hni1. destruct Hs as (Hf & Hu & Hsub & H2 & H3 & H4).
  binv H sym Hsym. inversion H; subst st'. clear H. destruct (b_symbol_name _ _ _ Hsym) as [Hsy Hsn].
  set (s := {| st_sym := sym; st_init := None; st_next := None |}).
  apply (names_eq_NI (note_name (add_state st1 id s) sym name)); [repeat split|].
  assert (Hnd : ~ In sym (decl st1)).
  { replace (decl st1) with (decl st) by (unfold decl; congruence). apply (new_symbol_not_declared st name); auto. }
  destruct Hni1 as [A B C D E]. unfold note_name. rewrite Hsy.
  constructor; unfold decl; cbn [p_symnames p_used add_state p_inputs p_states map snd]; rewrite ?map_app; cbn [map s st_sym].
  - constructor; [|exact A]. rewrite H2. apply fresh_not_noted; auto.
  - intros e0 n0 [H|H]; [inversion H; subst; exact Hu|eauto].
  - intros x Hx. rewrite app_assoc in Hx. apply in_app_iff in Hx. destruct Hx as [Hx|[<-|[]]]; [right; apply C; exact Hx|left; rewrite Hsn; reflexivity].
  - intros x Hx. rewrite app_assoc in Hx. apply in_app_iff in Hx. destruct Hx as [Hx|[<-|[]]]; [apply D; exact Hx|exact Hsy].
  - rewrite app_assoc. apply (Permutation_NoDup (Permutation_cons_append _ _)). constructor; assumption.
Qed.

Lemma NI_init_next st toks b st' : NI st -> parse_init_next st toks b = POk st' -> NI st'.
Proof.
  intros Hni H. unfold parse_init_next in H. binv H u Hu. binv H tpe Ht. binv H idx Hi.
  destruct (negb (ty_eqb _ tpe)); [discriminate|]. binv H maybe Hm. binv H e He.
  destruct (negb (ty_eqb _ _)); [discriminate|]. inversion H; subst st'.
  apply (names_eq_NI st); [|exact Hni]. repeat split. cbn [set_states p_states].
  symmetry. apply update_nth_map. intros a. destruct b; reflexivity.
Qed.

Lemma NI_prop st toks op st' : NI st -> parse_prop st toks op = POk st' -> NI st'.
Proof.
  intros Hni H. unfold parse_prop in H. binv H e He. unfold label_name in H.
  destruct (seq op "output").
  { pose proof (add_unique_spec st (nth 3 toks "_output")) as Hs. pose proof (NI_add_unique st (nth 3 toks "_output") Hni) as Hni1.
    destruct (add_unique st (nth 3 toks "_output")) as [st1 name]. cbn [fst] in Hni1. destruct Hs as (Hf & Hu & Hsub & H2 & H3 & H4).
    inversion H; subst st'.
    assert (Hni2 : NI (add_output st1 name e)) by (apply (names_eq_NI st1); [repeat split|exact Hni1]).
    apply NI_note; auto. cbn [add_output p_symnames]. rewrite H2. apply fresh_not_noted; auto. }
  destruct (seq op "bad").
  { assert (Hni0 : NI (add_bad st e)) by (apply (names_eq_NI st); [repeat split|exact Hni]).
    pose proof (NI_label (add_bad st e) e (nth 3 toks "_bad") Hni0) as Hl.
    destruct (add_unique (add_bad st e) (nth 3 toks "_bad")) as [st1 name]. inversion H; subst st'. exact Hl. }
  destruct (seq op "constraint"); [|discriminate].
  assert (Hni0 : NI (add_constraint st e)) by (apply (names_eq_NI st); [repeat split|exact Hni]).
  pose proof (NI_label (add_constraint st e) e (nth 3 toks "_constraint") Hni0) as Hl.
  destruct (add_unique (add_constraint st e) (nth 3 toks "_constraint")) as [st1 name]. inversion H; subst st'. exact Hl.
Qed.

Lemma NI_sort st toks id st' : NI st -> parse_sort st toks id = POk st' -> NI st'.
Proof.
  intros Hni H. unfold parse_sort in H. destruct (seq _ "bitvec").
  - binv H u Hu. binv H w Hw. inversion H; subst st'. apply (names_eq_NI st); [repeat split|exact Hni].
  - destruct (seq _ "array"); [|discriminate]. binv H u Hu. binv H it Hit. binv H dt Hdt.
    destruct it; [|discriminate]. destruct dt; [|discriminate]. inversion H; subst st'.
    apply (names_eq_NI st); [repeat split|exact Hni].
Qed.

Lemma NI_line dbg st toks st' : NI st -> parse_line dbg st toks = POk st' -> NI st'.
Proof.
  intros Hni H. unfold parse_line in H.
  destruct toks as [|t0 rest]; [inversion H; subst; auto|].
  destruct (parse_line_id t0) as [[id neg]|]; [|discriminate].
  destruct neg; [discriminate|]. destruct rest as [|op rest']; [discriminate|].
  destruct (un_table op) as [u|]. { binv H r Hr. inversion H; subst. apply NI_finish; auto. }
  destruct (bin_table op) as [bo|]. { binv H r Hr. inversion H; subst. apply NI_finish; auto. }
  binv H u0 Hu0.
  destruct (seq op "ite"). { binv H r Hr. inversion H; subst. apply NI_finish; auto. }
  destruct (seq op "write"). { binv H r Hr. inversion H; subst. apply NI_finish; auto. }
  destruct (seq op "sort"). { eapply NI_sort; eauto. }
  destruct (seq op "const" || seq op "constd" || seq op "consth" || seq op "zero" || seq op "one" || seq op "ones").
  { binv H r Hr. inversion H; subst. apply NI_finish; auto. }
  destruct (seq op "state"). { eapply NI_state; eauto. }
  destruct (seq op "input"). { eapply NI_input; eauto. }
  destruct (seq op "init"). { eapply NI_init_next; eauto. }
  destruct (seq op "next"). { eapply NI_init_next; eauto. }
  destruct (seq op "output" || seq op "bad" || seq op "constraint" || seq op "fair"); [|discriminate].
  eapply NI_prop; eauto.
Qed.

Lemma NI_fold v dbg ls : forall st err st' err',
  NI st -> parse_fold_v v dbg ls st err = POk (st', err') -> NI st'.
Proof.
  induction ls as [|l ls IH]; intros st err st' err' Hni H; cbn [parse_fold_v] in H.
  - inversion H; subst; auto.
  - unfold parse_line_v in H. destruct (variant_pre v st l).
    + destruct (parse_line dbg st l) as [st1| |k] eqn:E; [| |discriminate].
      * eapply IH; [|exact H]. eapply NI_line; eauto.
      * eapply IH; eauto.
    + eapply IH; eauto.
Qed.
