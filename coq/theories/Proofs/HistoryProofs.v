(** * Proofs/HistoryProofs.v — invariants of every summary reachable by a history of
    operations ([vrun]), and the concrete witnesses of the recorded defects. *)
From Coq Require Import Lia Arith.
From Patronus Require Import GuardSem BddProofs GuardProofs SummaryProofs CoalesceProofs IteImportProofs.
Open Scope nat_scope.

Definition all_sums (P : summary -> Prop) (st : vstate) : Prop := forall s, In s (vs_sums st) -> P s.

Lemma get_sum_In st i s : get_sum st i = Ok s -> In s (vs_sums st).
Proof.
  unfold get_sum. destruct (nth_error (vs_sums st) i) eqn:E; [| discriminate].
  intros H. inversion H; subst. eapply nth_error_In; eassumption.
Qed.

Lemma all_sums_push P st t r : all_sums P st -> P r -> all_sums P (push_sum st t r).
Proof.
  intros Ha Hr s Hin. cbn in Hin. apply in_app_or in Hin. destruct Hin as [Hin | [<- | []]]; auto.
Qed.

Ltac inv_step H :=
  repeat match type of H with
         | rbind _ _ = Ok _ =>
             let a := fresh "a" in let E := fresh "E" in
             apply rbind_ok in H; destruct H as (a & E & H)
         end;
  inversion H; subst; clear H;
  repeat match goal with E : get_sum _ _ = Ok _ |- _ => apply get_sum_In in E end.

(** one step of the repaired code preserves "every summary is a partition" *)
Lemma vstep_partition rp debug st o st' :
  all_sums partition st -> vstep rp debug true st o = Ok st' -> all_sums partition st'.
Proof.
  intros Ha H. destruct o; cbn [vstep] in H; inv_step H.
  - apply all_sums_push; [assumption |]. intros v. apply new_partition.
  - apply all_sums_push; [assumption |]. intros v.
    eapply bin_partition; [eassumption | now apply Ha | now apply Ha].
  - apply all_sums_push; [assumption |]. intros v. destruct a2 as [t' r].
    eapply ite_partition; [eassumption | now apply Ha | now apply Ha].
  - apply all_sums_push; [assumption |]. intros v.
    eapply coalesce_fixed_partition; [eassumption | now apply Ha].
  - apply all_sums_push; [assumption |]. intros v. destruct a0 as [t' r].
    eapply import_partition; eassumption.
  - exact Ha.
Qed.

(** one step - of the code as it is or repaired - preserves "every summary denotes a
    total function" *)
Lemma vstep_functional rp debug fixed st o st' :
  all_sums functional st -> vstep rp debug fixed st o = Ok st' -> all_sums functional st'.
Proof.
  intros Ha H. destruct o; cbn [vstep] in H; inv_step H.
  - apply all_sums_push; [assumption |]. intros v. exists x. apply new_denotes.
  - apply all_sums_push; [assumption |]. intros v.
    destruct (Ha _ E v) as [x Hx]. destruct (Ha _ E0 v) as [y Hy].
    exists (op x y). eapply bin_denotes; eassumption.
  - apply all_sums_push; [assumption |]. intros v. destruct a2 as [t' r].
    destruct (Ha _ E v) as [xc Hc]. destruct (Ha _ E0 v) as [xt Ht]. destruct (Ha _ E1 v) as [xf Hf].
    eexists. eapply ite_denotes; eassumption.
  - apply all_sums_push; [assumption |]. intros v.
    destruct (Ha _ E v) as [x Hx]. exists x. eapply coalesce_denotes; eassumption.
  - apply all_sums_push; [assumption |]. intros v. destruct a0 as [t' r].
    destruct (Ha _ E v) as [x Hx]. eexists. eapply import_denotes; eassumption.
  - exact Ha.
Qed.

Lemma vrun_partition rp debug prog : forall st st',
  all_sums partition st -> vrun rp debug true st prog = Ok st' -> all_sums partition st'.
Proof.
  induction prog as [| o prog IH]; intros st st' Ha H; cbn [vrun] in H.
  - inversion H; subst. exact Ha.
  - apply rbind_ok in H. destruct H as (st1 & E & H).
    eapply IH; [| eassumption]. eapply vstep_partition; eassumption.
Qed.

Lemma vrun_functional rp debug fixed prog : forall st st',
  all_sums functional st -> vrun rp debug fixed st prog = Ok st' -> all_sums functional st'.
Proof.
  induction prog as [| o prog IH]; intros st st' Ha H; cbn [vrun] in H.
  - inversion H; subst. exact Ha.
  - apply rbind_ok in H. destruct H as (st1 & E & H).
    eapply IH; [| eassumption]. eapply vstep_functional; eassumption.
Qed.

Lemma all_sums_init P : all_sums P vinit.
Proof. intros s []. Qed.

(** [partition_inv], for the repaired [coalesce_entries] *)
Lemma partition_inv_lemma rp debug prog st :
  vrun rp debug true vinit prog = Ok st ->
  forall s, In s (vs_sums st) -> forall v, count_true v s = 1.
Proof. intros H s Hs. exact (vrun_partition rp debug prog vinit st (all_sums_init _) H s Hs). Qed.

(** what does hold for the code as it is: every reachable summary denotes a total
    function of the valuation (true entries may overlap, but agree on the value) *)
Lemma functional_inv_lemma rp debug fixed prog st :
  vrun rp debug fixed vinit prog = Ok st ->
  forall s, In s (vs_sums st) -> forall v, exists x, denotes v s x.
Proof. intros H s Hs. exact (vrun_functional rp debug fixed prog vinit st (all_sums_init _) H s Hs). Qed.

(* ------------------------------------------------------------------ witnesses *)

Definition t0 : expr := BVSymbol "t0" 1.
Definition t1 : expr := BVSymbol "t1" 1.
Definition val0 : expr := BVSymbol "v0" 8.
Definition val1 : expr := BVSymbol "v1" 8.
Definition val2 : expr := BVSymbol "v2" 8.

(** ite(t0, ite(t1,v0,v1), ite(t1,v1,v0)).coalesce(): entry values [v0,v1,v1,v0] *)
Definition abba_prog : list vop :=
  [ONew t0; ONew t1; ONew val0; ONew val1; OIte 1 2 3; OIte 1 3 2; OIte 0 4 5; OCoalesce 6].

Definition last_sum (r : res vstate) : summary :=
  match r with Ok st => last (vs_sums st) [] | Panic => [] end.

(** the code as it is violates [partition_inv]: after [coalesce] two guards are true
    where t0 = t1 = 1, and the value v0 occurs twice *)
Lemma partition_refuted_lemma :
  exists prog st s v,
    (forall debug, vrun no_repairs debug false vinit prog = Ok st) /\ In s (vs_sums st) /\
    count_true v s = 2 /\ ~ NoDup (map snd s).
Proof.
  exists abba_prog.
  eexists. exists (last_sum (vrun no_repairs false false vinit abba_prog)), (fun _ => true).
  split; [intros [|]; vm_compute; reflexivity |].
  split; [vm_compute; auto 10 |]. split; [vm_compute; reflexivity |].
  vm_compute. intros H. inversion H as [| ? ? Hn _]; subst. apply Hn. right. now left.
Qed.

(** ... the repaired code does not, on the same history *)
Lemma abba_fixed : forall v, count_true v (last_sum (vrun no_repairs false true vinit abba_prog)) = 1.
Proof.
  intros v. eapply (partition_inv_lemma no_repairs false abba_prog); [vm_compute; reflexivity |].
  vm_compute. auto 10.
Qed.

Definition cmp8 : expr := BVGreater (BVSymbol "a" 8) (BVSymbol "b" 8).

(** [expr_to_guard] panics on a well-typed boolean expression, in every build *)
Lemma guard_panics_lemma :
  exists e, wt e = true /\ expr_is_bool e = true /\ forall debug t, expr_to_guard no_repairs debug t e = Panic.
Proof.
  exists cmp8. split; [vm_compute; reflexivity |]. split; [reflexivity |].
  intros [|] t; reflexivity.
Qed.

Definition bool_ite : expr := BVIte t0 t1 (BVSymbol "t2" 1).

(** the debug assertion of [expr_to_guard]: a boolean if-then-else is a guard in release
    builds and a panic in debug builds *)
Lemma guard_debug_assert_lemma :
  exists e, wt e = true /\ expr_is_bool e = true /\
    (forall t, expr_to_guard no_repairs true t e = Panic) /\ (forall t, exists r, expr_to_guard no_repairs false t e = Ok r).
Proof.
  exists bool_ite. split; [vm_compute; reflexivity |]. split; [reflexivity |]. split.
  - intros t. unfold expr_to_guard. rewrite (e2g_panics true bool_ite t) by reflexivity.
    now destruct (true && negb (expr_is_bool bool_ite)).
  - intros t. destruct (guardable_total false t bool_ite eq_refl eq_refl) as (t' & g & H). eauto.
Qed.

(** the second debug assertion of [apply_bin_op]: reachable, and only a debug-build panic *)
Definition binfalse_prog : list vop :=
  [ONew t0; ONew val0; ONew val1; ONew val2; OIte 0 1 2; OIte 0 4 3; OIte 0 2 3;
   OBin (fun _ => 0%N) (fun a _ => a) 5 6].

Lemma bin_debug_assert_lemma :
  exists prog, vrun no_repairs true true vinit prog = Panic /\ exists st, vrun no_repairs false true vinit prog = Ok st.
Proof. exists binfalse_prog. split; [vm_compute; reflexivity |]. eexists. vm_compute. reflexivity. Qed.
