(** * Proofs/Btor2Fix.v — the repaired readers ([parse_*_v v] with [is_fix v], i.e. [Fix] =
    patches/0001..0007-fix-btor2-*.diff and [Fix2] = [Fix] + patches/0009):
    they never panic on supported operators, in either build profile, and every system they
    accept satisfies the full [sys_ok] and is closed. *)
From Coq Require Import List Lia Bool String Ascii NArith FMapPositive.
From Patronus Require Import Expr ExprLemmas SysClosed Btor2Parse Btor2ExprFacts Btor2ParseProofs Btor2Refine Btor2NoCrash.
Import ListNotations.
Open Scope string_scope.
Open Scope N_scope.

(** every repaired variant checks at least [line_fix_pre] *)
Lemma variant_pre_fix v st l : is_fix v = true -> variant_pre v st l = true -> line_fix_pre st l = true.
Proof.
  destruct v; cbn [is_fix variant_pre]; intros Hv H; [discriminate|exact H|].
  apply andb_true_iff in H. tauto.
Qed.

Lemma fix_line_ok v dbg st l st' :
  is_fix v = true ->
  parse_line_v v dbg st l = POk st' -> line_fix_pre st l = true /\ parse_line dbg st l = POk st'.
Proof.
  intros Hv. unfold parse_line_v. destruct (variant_pre v st l) eqn:E; [|discriminate].
  intros H. split; [eapply variant_pre_fix; eauto|exact H].
Qed.

Lemma fix2_line_ok dbg st l st' :
  parse_line_v Fix2 dbg st l = POk st' -> ext_bv st l = true.
Proof.
  unfold parse_line_v. cbn [variant_pre]. destruct (line_fix_pre st l && ext_bv st l) eqn:E; [|discriminate].
  intros _. apply andb_true_iff in E. tauto.
Qed.

Lemma fix_pre_parts st l :
  line_fix_pre st l = true -> line_pre st l = true /\ zero_sort_line l = false /\ prop_bool st l = true.
Proof.
  unfold line_fix_pre. rewrite !andb_true_iff, negb_true_iff. tauto.
Qed.

(** ** no panic *)
Section Variant.
Variable v : code_variant.
Hypothesis Hv : is_fix v = true.

Lemma fix_line_safe st l :
  J st -> supported_line l = true -> no_panic (parse_line_v v true st l).
Proof.
  intros HJ Hs. unfold parse_line_v. destruct (variant_pre v st l) eqn:E; [|apply no_panic_err].
  apply parse_line_safe; auto. apply (variant_pre_fix v st l Hv) in E. apply fix_pre_parts in E. tauto.
Qed.

Lemma fix_line_release st l :
  J st -> supported_line l = true -> parse_line_v v false st l = parse_line_v v true st l.
Proof.
  intros HJ Hs. pose proof (fix_line_safe st l HJ Hs) as Hn. unfold parse_line_v in *.
  destruct (variant_pre v st l); [|reflexivity]. apply parse_line_ref. exact Hn.
Qed.

Lemma fix_fold_safe ls : forall st err,
  J st -> forallb supported_line ls = true -> no_panic (parse_fold_v v true ls st err).
Proof.
  induction ls as [|l ls IH]; intros st err HJ Hs; cbn [parse_fold_v]; [apply no_panic_ok|].
  cbn [forallb] in Hs. apply andb_true_iff in Hs. destruct Hs as [Hs1 Hs2].
  pose proof (fix_line_safe st l HJ Hs1) as Hl.
  destruct (parse_line_v v true st l) as [st1| |k] eqn:E.
  - apply IH; auto. apply (fix_line_ok v _ _ _ _ Hv) in E. destruct E as [_ E]. eapply parse_line_J; eauto.
  - apply IH; auto.
  - exfalso. apply (Hl k). reflexivity.
Qed.

Lemma fix_fold_release ls : forall st err,
  J st -> forallb supported_line ls = true ->
  parse_fold_v v false ls st err = parse_fold_v v true ls st err.
Proof.
  induction ls as [|l ls IH]; intros st err HJ Hs; cbn [parse_fold_v]; [reflexivity|].
  cbn [forallb] in Hs. apply andb_true_iff in Hs. destruct Hs as [Hs1 Hs2].
  rewrite (fix_line_release st l HJ Hs1).
  destruct (parse_line_v v true st l) as [st1| |k] eqn:E; auto.
  apply IH; auto. apply (fix_line_ok v _ _ _ _ Hv) in E. destruct E as [_ E]. eapply parse_line_J; eauto.
Qed.

Theorem no_crash_fix ls :
  forallb supported_line ls = true -> forall dbg k, parse_lines_v v dbg ls <> PPanic k.
Proof.
  intros Hs dbg.
  assert (Hd : no_panic (parse_lines_v v true ls)).
  { unfold parse_lines_v, parse_raw_v.
    apply no_panic_bind; [|intros [sy ren] _; apply no_panic_ok].
    apply no_panic_bind; [apply fix_fold_safe; auto; apply J_empty|].
    intros [st err] _. destruct err; [apply no_panic_err|apply no_panic_ok]. }
  destruct dbg; [exact Hd|].
  unfold parse_lines_v, parse_raw_v in *. rewrite (fix_fold_release ls p_empty false J_empty Hs). exact Hd.
Qed.

(** ** accepted systems *)
(** what one accepted line does to the recorded bad states and constraints *)
Definition props_of (st : pstate) : list expr := (p_bads st ++ p_constraints st)%list.

Definition bools (l : list expr) : Prop := forall e, In e l -> type_of e = TBV 1.

Ltac props_simpl :=
  unfold finish_node, note_name, label_name, add_unique, set_used, set_signal, add_output, add_bad, add_constraint,
         set_types, set_states, add_input, add_state;
  repeat match goal with
         | |- context[match nth_error ?l ?n with _ => _ end] => destruct (nth_error l n)
         | |- context[if include_name ?x then _ else _] => destruct (include_name x)
         | |- context[if is_symbol ?e then _ else _] => destruct (is_symbol e)
         end;
  cbn [p_bads p_constraints fst snd].

Lemma finish_node_props st toks id r :
  p_bads (finish_node st toks id r) = p_bads st /\ p_constraints (finish_node st toks id r) = p_constraints st.
Proof. destruct r as [e n]. split; props_simpl; reflexivity. Qed.

Lemma parse_line_bools dbg st toks st' :
  parse_line dbg st toks = POk st' -> prop_bool st toks = true ->
  bools (p_bads st) -> bools (p_constraints st) -> bools (p_bads st') /\ bools (p_constraints st').
Proof.
  intros H Hpb Hb Hc.
  assert (Hsame : p_bads st' = p_bads st /\ p_constraints st' = p_constraints st -> bools (p_bads st') /\ bools (p_constraints st')).
  { intros [-> ->]. auto. }
  unfold parse_line in H.
  destruct toks as [|t0 rest]; [inversion H; subst; auto|].
  destruct (parse_line_id t0) as [[id neg]|]; [|discriminate].
  destruct neg; [discriminate|]. destruct rest as [|op rest']; [discriminate|].
  unfold prop_bool in Hpb. change (tokn (t0 :: op :: rest') 1) with op in Hpb.
  set (toks := t0 :: op :: rest') in *.
  destruct (un_table op). { binv H r Hr. inversion H; subst st'. apply Hsame, finish_node_props. }
  destruct (bin_table op). { binv H r Hr. inversion H; subst st'. apply Hsame, finish_node_props. }
  binv H u0 Hu0.
  destruct (seq op "ite"). { binv H r Hr. inversion H; subst st'. apply Hsame, finish_node_props. }
  destruct (seq op "write"). { binv H r Hr. inversion H; subst st'. apply Hsame, finish_node_props. }
  destruct (seq op "sort").
  { unfold parse_sort in H. destruct (seq _ "bitvec").
    - binv H u Hu. binv H w Hw. inversion H; subst st'. apply Hsame. split; reflexivity.
    - destruct (seq _ "array"); [|discriminate]. binv H u Hu. binv H it Hit. binv H dt Hdt.
      destruct it; [|discriminate]. destruct dt; [|discriminate]. inversion H; subst st'. apply Hsame. split; reflexivity. }
  destruct (seq op "const" || seq op "constd" || seq op "consth" || seq op "zero" || seq op "one" || seq op "ones").
  { binv H r Hr. inversion H; subst st'. apply Hsame, finish_node_props. }
  destruct (seq op "state").
  { unfold parse_state in H. binv H tpe Ht. unfold label_name, add_unique in H. binv H sym Hs. inversion H; subst st'.
    apply Hsame. split; props_simpl; reflexivity. }
  destruct (seq op "input").
  { unfold parse_input in H. binv H tpe Ht. unfold label_name, add_unique in H. binv H sym Hs. inversion H; subst st'.
    apply Hsame. split; props_simpl; reflexivity. }
  assert (Hin : forall b, parse_init_next st toks b = POk st' -> bools (p_bads st') /\ bools (p_constraints st')).
  { intros b Hb'. unfold parse_init_next in Hb'. binv Hb' u Hu. binv Hb' tpe Ht. binv Hb' idx Hi.
    destruct (negb (ty_eqb _ tpe)); [discriminate|]. binv Hb' maybe Hm. binv Hb' e He.
    destruct (negb (ty_eqb _ _)); [discriminate|]. inversion Hb'; subst st'. apply Hsame. split; reflexivity. }
  destruct (seq op "init"); [apply (Hin true H)|]. destruct (seq op "next"); [apply (Hin false H)|].
  destruct (seq op "output" || seq op "bad" || seq op "constraint" || seq op "fair"); [|discriminate].
  unfold parse_prop in H. binv H e He. unfold label_name, add_unique in H.
  pose proof (get_expr_ty _ _ _ He) as Hty.
  destruct (seq op "output") eqn:Eo.
  { inversion H; subst st'. apply Hsame. split; props_simpl; reflexivity. }
  destruct (seq op "bad") eqn:Eb.
  { cbn [orb] in Hpb. rewrite Hty in Hpb. apply ty_eqb_eq in Hpb. inversion H; subst st'. split.
    - props_simpl; intros x Hx; apply in_app_iff in Hx; destruct Hx as [Hx|[<-|[]]]; auto.
    - props_simpl; exact Hc. }
  destruct (seq op "constraint") eqn:Ec; [|discriminate].
  cbn [orb] in Hpb. rewrite Hty in Hpb. apply ty_eqb_eq in Hpb. inversion H; subst st'. split.
  - props_simpl; exact Hb.
  - props_simpl; intros x Hx; apply in_app_iff in Hx; destruct Hx as [Hx|[<-|[]]]; auto.
Qed.

(** an accepting run of the repaired reader is an accepting run of the shipped reader on lines
    that all satisfy the explicit checks *)
Lemma fix_fold_accepts ls : forall st stf,
  inv st -> bools (p_bads st) -> bools (p_constraints st) ->
  parse_fold_v v true ls st false = POk (stf, false) ->
  parse_fold true ls st false = POk (stf, false) /\ existsb zero_sort_line ls = false /\
  inv stf /\ bools (p_bads stf) /\ bools (p_constraints stf).
Proof.
  induction ls as [|l ls IH]; intros st stf Hinv Hb Hc H; cbn [parse_fold_v parse_fold existsb] in *.
  - inversion H; subst. auto.
  - destruct (parse_line_v v true st l) as [st1| |k] eqn:E; [| |discriminate].
    + apply (fix_line_ok v _ _ _ _ Hv) in E. destruct E as [Hpre E]. apply fix_pre_parts in Hpre. destruct Hpre as (_ & Hz & Hpb).
      rewrite E, Hz. cbn [orb].
      destruct (parse_line_bools _ _ _ _ E Hpb Hb Hc) as [Hb1 Hc1].
      apply IH; auto. eapply parse_line_inv; eauto.
    + exfalso. clear - H. revert H. generalize st. induction ls as [|l' ls' IH']; intros st0 H; cbn [parse_fold_v] in H.
      * inversion H.
      * destruct (parse_line_v v true st0 l'); try discriminate; eapply IH'; eauto.
Qed.

Lemma props_1bit_final ren sy :
  bools (s_bads sy) -> bools (s_constraints sy) -> props_1bit (demote (rename_sys ren sy)) = true.
Proof.
  intros Hb Hc. unfold props_1bit. apply forallb_forall. intros e He.
  assert (Hx : exists x, In x (s_bads sy ++ s_constraints sy)%list /\ type_of e = type_of x).
  { destruct ren as [|p ren']; cbn [rename_sys demote s_bads s_constraints] in He.
    - eauto.
    - apply in_app_iff in He. destruct He as [He|He]; apply in_map_iff in He; destruct He as (x & <- & Hx);
        exists x; rewrite type_of_rename; split; auto; apply in_app_iff; auto. }
  destruct Hx as (x & Hx & ->). apply in_app_iff in Hx. apply ty_eqb_eq. destruct Hx; auto.
Qed.

Theorem accepted_ok_fix_debug ls sy :
  parse_lines_v v true ls = POk sy -> sys_ok sy = true /\ sys_closed sy.
Proof.
  intros H. unfold parse_lines_v in H. binv H r Hr. destruct r as [sy0 ren]. inversion H; subst sy. clear H.
  unfold parse_raw_v in Hr. binv Hr r Hf. destruct r as [st err]. destruct err; [discriminate|].
  inversion Hr; subst. clear Hr.
  assert (Hnil : bools []) by (intros e []).
  destruct (fix_fold_accepts ls p_empty st inv_empty Hnil Hnil Hf) as (Hcur & Hz & Hinv & Hb & Hc).
  assert (Hw : sys_ok_weak (demote (rename_sys (renames_of st) (sys_of_pstate st))) = true /\
               sys_closed (demote (rename_sys (renames_of st) (sys_of_pstate st)))).
  { apply sys_good_ok, sys_good_demote, sys_good_rename, inv_sys_good. exact Hinv. }
  destruct Hw as [Hw Hcl]. split; auto.
  rewrite sys_ok_split, Hw. cbn [andb]. apply props_1bit_final; assumption.
Qed.

Theorem accepted_ok_fix ls dbg sy :
  forallb supported_line ls = true ->
  parse_lines_v v dbg ls = POk sy -> sys_ok sy = true /\ sys_closed sy.
Proof.
  intros Hs H. destruct dbg; [apply (accepted_ok_fix_debug ls sy H)|].
  apply (accepted_ok_fix_debug ls sy). unfold parse_lines_v, parse_raw_v in *.
  rewrite <- (fix_fold_release ls p_empty false J_empty Hs). exact H.
Qed.

(** ** statements on texts *)
Lemma text_no_crash_variant text :
  supported text = true -> forall dbg k, parse_text_v v dbg text <> PPanic k.
Proof. unfold supported, parse_text_v. apply no_crash_fix. Qed.

Lemma text_accepted_ok_variant text dbg sy :
  supported text = true -> parse_text_v v dbg text = POk sy -> sys_ok sy = true /\ sys_closed sy.
Proof. unfold supported, parse_text_v. apply accepted_ok_fix. Qed.

(** where the shipped reader does not trip over a check, the repaired reader is the shipped reader *)
Lemma fix_line_is_cur dbg st l : variant_pre v st l = true -> parse_line_v v dbg st l = parse_line_v Cur dbg st l.
Proof. intros H. unfold parse_line_v. rewrite H. reflexivity. Qed.
End Variant.

Lemma text_no_crash_fix text :
  supported text = true -> forall dbg k, parse_text_v Fix dbg text <> PPanic k.
Proof. apply text_no_crash_variant. reflexivity. Qed.

Lemma text_accepted_ok_fix text dbg sy :
  supported text = true -> parse_text_v Fix dbg text = POk sy -> sys_ok sy = true /\ sys_closed sy.
Proof. apply text_accepted_ok_variant. reflexivity. Qed.

Lemma text_no_crash_fix2 text :
  supported text = true -> forall dbg k, parse_text_v Fix2 dbg text <> PPanic k.
Proof. apply text_no_crash_variant. reflexivity. Qed.

Lemma text_accepted_ok_fix2 text dbg sy :
  supported text = true -> parse_text_v Fix2 dbg text = POk sy -> sys_ok sy = true /\ sys_closed sy.
Proof. apply text_accepted_ok_variant. reflexivity. Qed.
