(** * Proofs/PdrTerminationMain.v — TERMINATION of the main loop of the concrete model of pdr.rs and
    the CONVERGENCE bound on the number of frames, for a finite state space [states] and every truthful
    solver oracle that never answers "unknown" / never fails.

    1. [propagate_blocked_cubes] always returns ([propagate_ok]) and, when it does not report a fixpoint,
       leaves a STRICTLY increasing chain of frames: for every i below the frontier some state of F_i has
       a successor outside F_i ([escapes]; the successor is in F_(i+1) by the frame invariant).  Reason:
       a cube of frame i is kept only because the solver produced such a transition; while frame i is
       processed, F_i does not change (only copies of its own clauses are asserted one level up), and the
       later frames do not touch F_i either.
    2. Hence after an unsuccessful propagation  frontier <= |states| + 1  ([chain_bound]: F_1 < F_2 < ..
       as sets of listed states), and the main loop never sees a frontier above |states| + 1.
    3. Main loop measure  Psi = (MAX_FRAMES + 1 - frontier) * (|states| + 1) + #(bad states in the frontier
       frame):  blocking a bad cube removes it from the frontier frame ([block_loop_blocks]), a new frame
       lowers the first component.  [pdr_loop_post]: for EVERY fuel the result is a verdict, or [Fuel] with
       fuel <= Psi or block fuel <= pdr_block_fuel_bound; never an error; Unknown only with frontier <= |states| + 1. *)
From Coq Require Import List Bool Arith Lia.
From Patronus Require Import Ic3 PdrImpl PdrImplProofs PdrTermination.
Import ListNotations.

Section PdrTerminationMain.
  Variable lit : Type.
  Variable lit_eqb : lit -> lit -> bool.
  Variable St : Type.
  Variable cube_of_state : St -> list lit.
  Variable W : Type.
  Variable EM : Type.
  Variable solve : nat -> query lit -> answer lit St EM.
  Variable cmd_fail : nat -> option EM.
  Variable n_init : nat.
  Variable gen_on has_bads : bool.
  Variable bmc_result : bmc_answer W EM.

  Variable lit_holds : lit -> St -> bool.
  Variable bad0 : St -> bool.
  Variable step0 : St -> St -> bool.
  Variable trans : St -> St -> bool.
  Variable bad : St -> bool.

  Variable states : list St.
  Hypothesis states_all : forall s, In s states.

  Notation pst := (pst lit St EM).
  Notation ccube := (ccube lit).
  Notation ch := (PdrImplProofs.ch lit St lit_holds).
  Notation Fc := (PdrImplProofs.Fc lit St EM lit_holds).
  Notation pinv := (PdrImplProofs.pinv lit St EM lit_holds bad0 step0 trans bad).
  Notation book := (PdrImplProofs.book lit St EM).
  Notation bookx := (PdrImplProofs.bookx lit St EM).
  Notation obl_ok := (PdrImplProofs.obl_ok lit St cube_of_state bad0 step0 trans bad).
  Notation frontier' := (PdrImplProofs.frontier' lit St EM).
  Notation sem_eq := (PdrImplProofs.sem_eq lit St EM).
  Notation asserted st := (p_asserted lit St EM st).
  Notation fcubes st k := (frame_cubes lit St EM st k).
  Notation excl_post := (PdrImplProofs.excl_post lit St lit_holds step0).
  Notation total_solver := (PdrImplProofs.total_solver lit St EM solve cmd_fail).
  Notation bmc_ok := (PdrImplProofs.bmc_ok W EM bmc_result).
  Notation fcb := (PdrTermination.fcb lit St EM lit_holds).
  Notation cnt := (PdrTermination.cnt lit St EM lit_holds states).
  Notation shrinks := (PdrTermination.shrinks lit St EM lit_holds).
  Notation rel_ind := (PdrImpl.rel_ind lit lit_eqb St cube_of_state EM solve cmd_fail gen_on).
  Notation add_blocked_cube := (PdrImpl.add_blocked_cube lit St EM cmd_fail).
  Notation prop_cubes := (PdrImpl.prop_cubes lit lit_eqb St cube_of_state EM solve cmd_fail gen_on).
  Notation prop_frames := (PdrImpl.prop_frames lit lit_eqb St cube_of_state EM solve cmd_fail gen_on).
  Notation prop_last := (PdrImpl.prop_last lit St EM solve cmd_fail).
  Notation propagate := (PdrImpl.propagate_blocked_cubes lit lit_eqb St cube_of_state EM solve cmd_fail gen_on).
  Notation block_loop := (PdrImpl.block_loop lit lit_eqb St cube_of_state EM solve cmd_fail gen_on).
  Notation get_bad_cube := (PdrImpl.get_bad_cube lit St cube_of_state EM solve).
  Notation pdr_loop := (PdrImpl.pdr_loop lit lit_eqb St cube_of_state W EM solve cmd_fail gen_on bmc_result).
  Notation set_frame := (PdrImpl.set_frame lit St EM).
  Notation keep_cube := (PdrImpl.keep_cube lit St EM).

  Hypothesis cube_state_holds : forall s, ch (cube_of_state s) s = true.
  Hypothesis cube_state_unique : forall s s', ch (cube_of_state s) s' = true -> s' = s.
  Hypothesis solver_ok : forall n q, truthful lit lit_eqb St EM lit_holds bad0 step0 trans bad q (solve n q).
  Hypothesis Htot : total_solver.

  (** ** frames that do not change *)
  Definition same_upto (st st' : pst) (n : nat) : Prop := forall k s, k <= n -> (Fc st' k s <-> Fc st k s).

  Lemma same_upto_refl st n : same_upto st st n.
  Proof. intros k s _. reflexivity. Qed.

  Lemma same_upto_trans a b c n : same_upto a b n -> same_upto b c n -> same_upto a c n.
  Proof. intros H1 H2 k s Hk. rewrite (H2 k s Hk). now apply H1. Qed.

  Lemma same_upto_le st st' n m : m <= n -> same_upto st st' n -> same_upto st st' m.
  Proof. intros Hm H k s Hk. apply H. lia. Qed.

  Lemma asserted_eq_same st st' n : asserted st' = asserted st -> same_upto st st' n.
  Proof. intros Ha k s _. unfold PdrImplProofs.Fc. now rewrite Ha. Qed.

  Lemma sem_eq_same st st' n : sem_eq st st' -> same_upto st st' n.
  Proof. intros (_ & _ & Ha). now apply asserted_eq_same. Qed.

  (** asserting, one level up or in the infinite frame, a clause that is already asserted at level [n] *)
  Lemma copy_same st st' l c n :
    asserted st' = (l, c) :: asserted st -> In (FFinite n, c) (asserted st) -> same_upto st st' n.
  Proof.
    intros Ha Hin k s Hk. rewrite (Fc_cons lit St EM lit_holds st st' l c k s Ha). split; [now intros [H _] |].
    intros H. split; [exact H |]. intros _. apply (H (FFinite n) c Hin). cbn [lvl_ge]. now apply Nat.leb_le.
  Qed.

  (** some state of F_i has a successor outside F_i *)
  Definition escapes (st : pst) (i : nat) : Prop :=
    exists m s', Fc st i m /\ trans m s' = true /\ ~ Fc st i s'.

  Lemma escapes_same st st' n i : same_upto st st' n -> i <= n -> escapes st i -> escapes st' i.
  Proof.
    intros Hs Hi (m & s' & Hm & Ht & Hn). exists m, s'. split; [now apply (Hs i m Hi) |]. split; [exact Ht |].
    intros H. apply Hn. now apply (Hs i s' Hi).
  Qed.

  (** a strictly increasing chain of frames is no longer than the state space *)
  Lemma chain_count st : pinv st -> (forall i, 1 <= i < frontier' st -> escapes st i) ->
    forall i, 1 <= i <= frontier' st -> i <= S (cnt st i).
  Proof.
    intros Hinv Hch i. induction i as [| i IH]; intros Hi; [lia |].
    destruct (Nat.eq_dec i 0) as [-> | Hne]; [lia |].
    assert (IH' : i <= S (cnt st i)) by (apply IH; lia).
    destruct (Hch i ltac:(lia)) as (m & s' & Hm & Ht & Hn).
    assert (Hlt : cnt st i < cnt st (S i)).
    { unfold PdrTermination.cnt. apply (filter_len_strict _ _ _ s').
      - intros y _ Hy. apply fcb_Fc. apply (Fc_mono lit St EM lit_holds st i (S i) y ltac:(lia)). now apply fcb_Fc.
      - apply states_all.
      - apply fcb_Fc. apply (step_frame lit St EM lit_holds bad0 step0 trans bad st Hinv i m s' ltac:(lia) Hm Ht).
      - now apply fcb_false. }
    lia.
  Qed.

  Lemma chain_bound st : pinv st -> (forall i, 1 <= i < frontier' st -> escapes st i) ->
    frontier' st <= S (length states).
  Proof.
    intros Hinv Hch. destruct (Nat.eq_dec (frontier' st) 0) as [E | E]; [lia |].
    pose proof (chain_count st Hinv Hch (frontier' st) ltac:(lia)) as H.
    pose proof (cnt_le_states lit St EM lit_holds states st (frontier' st)). lia.
  Qed.

  (** ** propagate_blocked_cubes returns, and leaves a strict chain unless it reports a fixpoint *)
  Lemma prop_cubes_ok id : forall cs st,
      pinv st -> bookx st id cs -> (forall c, In c cs -> In (FFinite id, c) (asserted st)) ->
      1 <= id -> S id <= frontier' st ->
      exists st', prop_cubes st id cs = Ok st' /\ same_upto st st' id /\
                  (fcubes st id = [] \/ escapes st id -> fcubes st' id = [] \/ escapes st' id).
  Proof.
    induction cs as [| c r IH]; intros st Hinv Hb Has Hid HidN.
    - exists st. split; [reflexivity |]. split; [apply same_upto_refl | auto].
    - cbn [PdrImpl.prop_cubes].
      destruct (rel_ind_ok lit lit_eqb St cube_of_state EM solve cmd_fail gen_on lit_holds bad0 step0 trans bad solver_ok
                           st c (S id) false Htot ltac:(lia)) as (rr & st1 & Hr & Hnu).
      { intros _. right. apply (iv_post lit St EM lit_holds bad0 step0 trans bad st Hinv (FFinite id) c). apply Has. now left. }
      rewrite Hr.
      destruct (prop_cubes_step lit lit_eqb St cube_of_state EM solve cmd_fail gen_on lit_holds bad0 step0 trans bad solver_ok
                                id c r st rr st1 Hinv Hb Has Hid HidN Hr) as (Hun & Hkeep & Hlvl).
      destruct (rel_ind_spec lit lit_eqb St cube_of_state EM solve cmd_fail gen_on lit_holds bad0 step0 trans bad solver_ok
                             _ _ _ _ _ _ Hr) as (prev & Hd & Hsem & Hpost).
      assert (Hprev : prev = FFinite id).
      { destruct id as [| id']; [lia |]. cbn in Hd. now inversion Hd. }
      subst prev. cbn [andb] in Hpost.
      assert (Hin1 : In (FFinite id, c) (asserted st1)).
      { destruct Hsem as (_ & _ & Ha). rewrite Ha. apply Has. now left. }
      destruct rr as [p | og |]; [| | now contradiction Hnu].
      + (* kept: the solver's transition leaves F_id *)
        destruct Hkeep as (H1 & H2 & H3 & H4); [discriminate |].
        destruct (set_frame_spec lit St EM st1 id (fcubes st1 id ++ [c]) ltac:(rewrite (sem_eq_frontier lit St EM st st1 Hsem); lia)) as (Ha & _ & _).
        fold (keep_cube st1 id c) in Ha.
        assert (Hsame : same_upto st (keep_cube st1 id c) id).
        { apply (same_upto_trans _ st1); [now apply sem_eq_same | now apply asserted_eq_same]. }
        destruct (IH (keep_cube st1 id c) H1 H2 H3 Hid ltac:(rewrite H4; exact HidN)) as (st' & Ep & Hs' & Himp).
        exists st'. split; [exact Ep |]. split; [now apply (same_upto_trans _ (keep_cube st1 id c)) |].
        intros _. apply Himp. right.
        cbn [rel_post] in Hpost. destruct Hpost as (m & s' & _ & (Hm & Ht) & Hc & _).
        apply (escapes_same st _ id id Hsame (le_n _)).
        exists m, s'. split; [exact Hm |]. split; [exact Ht |]. intros Hf.
        rewrite (Hf (FFinite id) c (Has c (or_introl eq_refl))) in Hc; [discriminate Hc |]. cbn [lvl_ge]. apply Nat.leb_refl.
      + (* pushed *)
        destruct (add_finite_ok lit St EM solve cmd_fail st1 c (S id) Htot Hlvl) as (st2 & Hadd). rewrite Hadd.
        destruct (Hun og st2 eq_refl Hadd) as (H1 & H2 & H3 & H4).
        destruct (add_finite_spec lit St EM cmd_fail _ _ _ _ Hadd) as (Ha2 & _ & _ & _ & Hfc2).
        assert (Hsame : same_upto st st2 id).
        { apply (same_upto_trans _ st1); [now apply sem_eq_same | now apply (copy_same st1 st2 (FFinite (S id)) c id Ha2)]. }
        destruct (IH st2 H1 H2 H3 Hid ltac:(rewrite H4; exact HidN)) as (st' & Ep & Hs' & Himp).
        exists st'. split; [exact Ep |]. split; [now apply (same_upto_trans _ st2) |].
        intros Hpre. apply Himp. destruct Hpre as [Hnil | Hesc].
        * left. rewrite Hfc2. replace (pred id =? pred (S id)) with false by (symmetry; apply Nat.eqb_neq; cbn [pred]; lia).
          now rewrite (sem_eq_fcubes lit St EM st st1 id Hsem).
        * right. now apply (escapes_same st st2 id id Hsame (le_n _)).
  Qed.

  Lemma prop_frames_ok n : forall st id,
      pinv st -> book st -> 1 <= id -> id + n = frontier' st ->
      (forall i, 1 <= i < id -> escapes st i) ->
      exists b st', prop_frames n st id = Ok (b, st') /\
                    (b = false -> forall i, 1 <= i < frontier' st -> escapes st' i).
  Proof.
    induction n as [| n IH]; intros st id Hinv Hb Hid HidN Hch.
    - exists false, st. split; [reflexivity |]. intros _ i Hi. apply Hch. lia.
    - cbn [PdrImpl.prop_frames].
      destruct (set_frame_spec lit St EM st id [] ltac:(lia)) as (Ha0 & HN0 & Hfc0).
      assert (P1 : pinv (set_frame st id [])) by now apply (pinv_same lit St EM lit_holds bad0 step0 trans bad st).
      assert (P2 : bookx (set_frame st id []) id (fcubes st id)).
      { apply (bookx_take lit St EM lit_holds bad0 step0 trans bad); [exact Hinv | exact Hb | lia]. }
      assert (P3 : forall c, In c (fcubes st id) -> In (FFinite id, c) (asserted (set_frame st id []))).
      { intros c Hc. rewrite Ha0. apply (bk_in lit St EM st Hb); [lia | exact Hc]. }
      assert (P4 : S id <= frontier' (set_frame st id [])) by (rewrite HN0; lia).
      destruct (prop_cubes_ok id (fcubes st id) _ P1 P2 P3 Hid P4) as (st1 & Ep & Hsame & Himp).
      rewrite Ep.
      destruct (prop_cubes_spec lit lit_eqb St cube_of_state EM solve cmd_fail gen_on lit_holds bad0 step0 trans bad solver_ok
                                id _ _ _ P1 P2 P3 Hid P4 Ep) as (Hinv1 & Hb1 & HN1).
      apply (book_bookx lit St EM) in Hb1. rewrite HN0 in HN1.
      assert (Hsame0 : same_upto st st1 id).
      { apply (same_upto_trans _ (set_frame st id [])); [now apply asserted_eq_same | exact Hsame]. }
      assert (Hpost : fcubes st1 id = [] \/ escapes st1 id).
      { apply Himp. left. rewrite Hfc0. now rewrite Nat.eqb_refl. }
      destruct (fcubes st1 id) as [| c0 r0] eqn:Efc.
      + destruct (cleanup_ok lit St EM solve cmd_fail (frontier lit St EM st1 - id) st1 (S id) Htot) as (st2 & ->).
        exists true, st2. split; [reflexivity | discriminate].
      + destruct Hpost as [Hnil | Hesc]; [discriminate Hnil |].
        destruct (IH st1 (S id) Hinv1 Hb1 ltac:(lia) ltac:(lia)) as (b & st' & Ep' & Hch').
        { intros i Hi. destruct (Nat.eq_dec i id) as [-> | Hne]; [exact Hesc |].
          apply (escapes_same st st1 id i Hsame0 ltac:(lia)). apply Hch. lia. }
        exists b, st'. split; [exact Ep' |]. intros Hbf i Hi. apply (Hch' Hbf). lia.
  Qed.

  Lemma prop_last_ok N : forall cs st,
      (forall c, In c cs -> In (FFinite N, c) (asserted st)) ->
      exists st', prop_last st N cs = Ok st' /\ same_upto st st' N.
  Proof.
    induction cs as [| c r IH]; intros st Has.
    - exists st. split; [reflexivity | apply same_upto_refl].
    - cbn [PdrImpl.prop_last]. rewrite (ask_spec lit St EM solve).
      set (q := {| q_kind := KInf; q_frame := FInf; q_from := FromClauses lit (clauses_inf lit St EM st); q_bad := false;
                   q_neg := Some c; q_fixed := c; q_sel := []; q_core := false |}).
      pose proof (asked_sem lit St EM solve st q) as Hsem. set (st1 := asked lit St EM solve st q) in *.
      assert (Has1 : forall c', In c' (c :: r) -> In (FFinite N, c') (asserted st1)).
      { intros c' Hc'. destruct Hsem as (_ & _ & Ha). rewrite Ha. now apply Has. }
      assert (Hkeep : exists st', prop_last (keep_cube st1 N c) N r = Ok st' /\ same_upto st st' N).
      { assert (Ha : asserted (keep_cube st1 N c) = asserted st1) by reflexivity.
        destruct (IH (keep_cube st1 N c)) as (st' & Ep & Hs').
        { intros c' Hc'. rewrite Ha. apply Has1. now right. }
        exists st'. split; [exact Ep |].
        apply (same_upto_trans _ st1); [now apply sem_eq_same |].
        apply (same_upto_trans _ (keep_cube st1 N c)); [now apply asserted_eq_same | exact Hs']. }
      pose proof (proj1 (proj2 Htot) (p_q lit St EM st) q) as Hne.
      destruct (solve (p_q lit St EM st) q) as [m | core | | e] eqn:Ea; [exact Hkeep | | exact Hkeep | now contradiction (Hne e)].
      destruct (add_inf_ok lit St EM solve cmd_fail st1 c Htot) as (st2 & Eadd). rewrite Eadd.
      destruct (add_inf_spec lit St EM cmd_fail _ _ _ Eadd) as (Ha2 & _).
      destruct (IH st2) as (st' & Ep & Hs').
      { intros c' Hc'. rewrite Ha2. right. apply Has1. now right. }
      exists st'. split; [exact Ep |].
      apply (same_upto_trans _ st1); [now apply sem_eq_same |].
      apply (same_upto_trans _ st2); [| exact Hs'].
      apply (copy_same st1 st2 FInf c N Ha2). apply Has1. now left.
  Qed.

  Lemma propagate_ok st :
    pinv st -> book st -> 1 <= frontier' st ->
    exists b st', propagate st = Ok (b, st') /\
                  (b = false -> forall i, 1 <= i < frontier' st -> escapes st' i).
  Proof.
    intros Hinv Hb HN. unfold PdrImpl.propagate_blocked_cubes. rewrite (frontier_eq lit St EM).
    destruct (prop_frames_ok (pred (frontier' st)) st 1 Hinv Hb ltac:(lia) ltac:(lia) ltac:(intros i Hi; lia))
      as (b1 & st1 & Ep & Hch).
    rewrite Ep.
    apply (prop_frames_spec lit lit_eqb St cube_of_state EM solve cmd_fail gen_on lit_holds bad0 step0 trans bad solver_ok)
      in Ep; [| exact Hinv | exact Hb | lia | lia].
    destruct Ep as [_ Hf]. destruct b1.
    - exists true, st1. split; [reflexivity | discriminate].
    - destruct (Hf eq_refl) as (Hinv1 & Hb1 & HN1). specialize (Hch eq_refl).
      rewrite <- HN1. rewrite <- HN1 in HN, Hch.
      destruct (set_frame_spec lit St EM st1 (frontier' st1) [] ltac:(lia)) as (Ha0 & HN0 & _).
      destruct (prop_last_ok (frontier' st1) (fcubes st1 (frontier' st1)) (set_frame st1 (frontier' st1) [])) as (st2 & El & Hsame).
      { intros c Hc. rewrite Ha0. apply (bk_in lit St EM st1 Hb1); [lia | exact Hc]. }
      rewrite El. exists false, st2. split; [reflexivity |]. intros _ i Hi.
      apply (escapes_same (set_frame st1 (frontier' st1) []) st2 (frontier' st1) i Hsame ltac:(lia)).
      apply (escapes_same st1 _ (frontier' st1) i (asserted_eq_same _ _ _ Ha0) ltac:(lia)).
      now apply Hch.
  Qed.

  (** ** the main loop *)
  Definition badcnt (st : pst) : nat :=
    length (filter (fun s => fcb st (frontier' st) s && bad s) states).

  Definition Psi (st : pst) : nat :=
    (S MAX_FRAMES - frontier' st) * S (length states) + badcnt st.

  Lemma badcnt_le st : badcnt st <= length states.
  Proof. apply filter_len_le. Qed.

  Definition pdr_fuel_bound (nstates : nat) : nat := S MAX_FRAMES * S nstates + nstates.
  (** the frontier never exceeds min (MAX_FRAMES, |states| + 1) when a bad cube is blocked *)
  Definition pdr_block_fuel_bound (nstates : nat) : nat := block_fuel_bound (Nat.min MAX_FRAMES (S nstates)) nstates 1.

  Lemma Psi_bound st : Psi st <= pdr_fuel_bound (length states).
  Proof.
    unfold Psi, pdr_fuel_bound. pose proof (badcnt_le st).
    assert ((S MAX_FRAMES - frontier' st) * S (length states) <= S MAX_FRAMES * S (length states)) by (apply Nat.mul_le_mono_r; lia).
    lia.
  Qed.

  Lemma block_fuel_bound_mono N M ns nw : N <= M -> block_fuel_bound N ns nw <= block_fuel_bound M ns nw.
  Proof.
    intros H. unfold block_fuel_bound.
    assert ((2 * N + 3) * (N * ns) <= (2 * M + 3) * (M * ns)).
    { apply Nat.mul_le_mono; [lia | apply Nat.mul_le_mono_r; exact H]. }
    lia.
  Qed.

  Lemma get_bad_cube_ok st : exists ob st', get_bad_cube st = Ok (ob, st').
  Proof.
    unfold PdrImpl.get_bad_cube.
    assert (Hf : exists from, from_of lit St EM st (frontier_id lit St EM st) = Some from).
    { unfold frontier_id. destruct (frontier lit St EM st) eqn:E; cbn [from_of]; [now eexists |].
      rewrite E, Nat.leb_refl. now eexists. }
    destruct Hf as (from & ->). rewrite (ask_spec lit St EM solve). unfold fail.
    match goal with |- context [solve ?n ?q] =>
      pose proof (proj1 Htot n q) as Hnu; pose proof (proj1 (proj2 Htot) n q) as Hne; destruct (solve n q) as [m | core | | e] end.
    - now eexists _, _.
    - now eexists _, _.
    - now contradiction Hnu.
    - now contradiction (Hne e).
  Qed.

  (** what the loop returns, for EVERY fuel *)
  Definition loop_post (fuel bf : nat) (st : pst) (r : res lit St EM (verdict W * pst)) : Prop :=
    match r with
    | Ok (v, st') => v = VUnknown W -> frontier' st' <= S (length states) /\ pinv st'
    | Fuel => fuel <= Psi st \/ bf <= pdr_block_fuel_bound (length states)
    | _ => False
    end.

  Lemma pdr_loop_post fuel bf : forall st,
      bmc_ok -> pinv st -> book st -> frontier' st <= S (length states) ->
      loop_post fuel bf st (pdr_loop fuel bf st).
  Proof.
    induction fuel as [| fuel IH]; intros st Hbmc Hinv Hb Hfr; [left; lia |].
    cbn [PdrImpl.pdr_loop]. rewrite (frontier_eq lit St EM).
    destruct (frontier' st <=? MAX_FRAMES) eqn:Emax; [| intros _; split; [exact Hfr | exact Hinv]].
    apply Nat.leb_le in Emax.
    destruct (get_bad_cube_ok st) as (ob & st1 & Eg). rewrite Eg.
    destruct (get_bad_cube_spec lit lit_eqb St cube_of_state EM solve lit_holds bad0 step0 trans bad solver_ok _ _ _ Eg) as (Hsem & Hob).
    assert (HN1 : frontier' st1 = frontier' st) by apply (sem_eq_frontier lit St EM st st1 Hsem).
    assert (Hinv1 : pinv st1) by now apply (sem_eq_pinv lit St EM lit_holds bad0 step0 trans bad st).
    assert (Hb1 : book st1) by now apply (sem_eq_book lit St EM st).
    destruct ob as [b |].
    - (* a bad cube in the frontier frame *)
      destruct Hob as (m & -> & H0 & H1). unfold block_cube.
      assert (Hwork : Forall (obl_ok (frontier' st1)) [(cube_of_state m, frontier_id lit St EM st1)]).
      { constructor; [| constructor]. exists m. split; [reflexivity |]. cbn [snd].
        unfold frontier_id. rewrite (frontier_eq lit St EM), HN1. destruct (frontier' st) as [| n] eqn:EN.
        - left. split; [reflexivity | now apply H0].
        - split; [lia |]. rewrite Nat.sub_diag. constructor. apply H1. lia. }
      match goal with |- loop_post _ _ _ (match ?X with _ => _ end) =>
        pose proof (block_loop_good lit lit_eqb St cube_of_state EM solve cmd_fail gen_on lit_holds bad0 step0 trans bad
                                    cube_state_unique solver_ok bf st1 _ Htot Hinv1 Hb1 Hwork : good lit St EM X) as Hgb;
        destruct X as [[ok st2] | e l | n |] eqn:Eb end;
        [| exact Hgb | exact Hgb |].
      2:{ (* the block fuel ran out: it was below the bound *)
          right. destruct (le_lt_dec bf (pdr_block_fuel_bound (length states))) as [Hle | Hgt]; [exact Hle |]. exfalso.
          apply (block_loop_terminates_bound lit lit_eqb St cube_of_state EM solve cmd_fail gen_on lit_holds bad0 step0 trans bad
                                             states states_all cube_state_holds cube_state_unique solver_ok Htot
                                             bf st1 _ Hinv1 Hb1 Hwork); [| exact Eb].
          cbn [length]. unfold pdr_block_fuel_bound in Hgt.
          pose proof (block_fuel_bound_mono (frontier' st1) (Nat.min MAX_FRAMES (S (length states))) (length states) 1 ltac:(lia)). lia. }
      pose proof Eb as Eb'.
      apply (block_loop_spec lit lit_eqb St cube_of_state EM solve cmd_fail gen_on lit_holds bad0 step0 trans bad
                             cube_state_unique solver_ok) in Eb'; [| exact Hinv1 | exact Hb1 | exact Hwork].
      destruct Eb' as (Hinv2 & Hb2 & HN2 & _).
      destruct ok.
      + (* blocked: one bad state less in the frontier frame *)
        assert (HNpos : 1 <= frontier' st).
        { destruct (frontier' st) as [| n] eqn:EN; [| lia]. exfalso.
          assert (Hfi : frontier_id lit St EM st1 = FInit) by (unfold frontier_id; now rewrite (frontier_eq lit St EM), HN1).
          rewrite Hfi in Eb. destruct bf as [| bf']; [discriminate Eb |].
          cbn [PdrImpl.block_loop pop_min snd fst is_init] in Eb. discriminate Eb. }
        assert (Hfi : frontier_id lit St EM st1 = FFinite (frontier' st)).
        { unfold frontier_id. rewrite (frontier_eq lit St EM), HN1. destruct (frontier' st); [lia | reflexivity]. }
        rewrite Hfi in Eb, Hwork.
        destruct (block_loop_blocks lit lit_eqb St cube_of_state EM solve cmd_fail gen_on lit_holds bad0 step0 trans bad
                                    states states_all cube_state_holds cube_state_unique solver_ok Htot
                                    bf st1 _ st2 Hinv1 Hb1 Hwork Eb) as (Hsh & Hblk).
        destruct (H1 HNpos) as [Hm Hbm].
        assert (Hdec : Psi st2 < Psi st).
        { unfold Psi. rewrite HN2, HN1. apply Nat.add_lt_mono_l. unfold badcnt. rewrite HN2, HN1.
          apply (filter_len_strict _ _ _ m).
          - intros y _ Hy. apply andb_true_iff in Hy. destruct Hy as [Hy1 Hy2]. rewrite Hy2, andb_true_r.
            apply fcb_Fc. apply (sem_eq_Fc lit St EM lit_holds st st1 _ y Hsem). apply (proj2 Hsh). now apply fcb_Fc.
          - apply states_all.
          - rewrite Hbm, andb_true_r. now apply fcb_Fc.
          - apply andb_false_iff. left. apply fcb_false.
            apply (Hblk (cube_of_state m) (frontier' st) (or_introl eq_refl) m (cube_state_holds m)). }
        specialize (IH st2 Hbmc Hinv2 Hb2 ltac:(rewrite HN2, HN1; exact Hfr)).
        destruct (pdr_loop fuel bf st2) as [[v st'] | e l | n |]; try exact IH.
        destruct IH as [IH | IH]; [left; lia | now right].
      + (* a counterexample: the BMC fallback decides *)
        destruct bmc_result as [w | | eb] eqn:Ebmc; cbn [loop_post].
        * discriminate.
        * intros _. split; [rewrite HN2, HN1; exact Hfr | exact Hinv2].
        * now apply (Hbmc eb).
    - (* no bad state in the frontier frame: new frame, propagation *)
      destruct Hob as (H0 & H1).
      destruct (cmds_ok lit St EM solve cmd_fail 1 st1 Htot) as (stc & Ec).
      assert (Haf : exists sta, add_frame lit St EM cmd_fail st1 = Ok sta) by (unfold add_frame; rewrite Ec; now eexists).
      destruct Haf as (sta & Eaf). rewrite Eaf.
      assert (Hinva : pinv sta).
      { apply (add_frame_preserves lit St EM cmd_fail lit_holds bad0 step0 trans bad st1 sta Hinv1 Eaf).
        - rewrite HN1. exact H0.
        - rewrite HN1. intros HN s Hf. apply (H1 HN s). now apply (sem_eq_Fc lit St EM lit_holds st st1). }
      assert (Hba : book sta) by now apply (add_frame_book lit St EM cmd_fail lit_holds bad0 step0 trans bad st1).
      assert (HNa : frontier' sta = S (frontier' st)).
      { destruct (add_frame_spec lit St EM cmd_fail _ _ Eaf) as (_ & Hfr' & _). unfold PdrImplProofs.frontier' in *.
        rewrite Hfr', app_length. cbn [length]. lia. }
      destruct (propagate_ok sta Hinva Hba ltac:(lia)) as (fx & st2 & Ep & Hch). rewrite Ep.
      apply (propagate_spec lit lit_eqb St cube_of_state EM solve cmd_fail gen_on lit_holds bad0 step0 trans bad solver_ok)
        in Ep; [| exact Hinva | exact Hba | lia].
      destruct Ep as [_ Hf]. destruct fx; [cbn [loop_post]; discriminate |].
      destruct (Hf eq_refl) as (Hinv2 & Hb2 & HN2). specialize (Hch eq_refl). rewrite <- HN2 in Hch.
      pose proof (chain_bound st2 Hinv2 Hch) as Hcb.
      assert (Hdec : Psi st2 < Psi st).
      { unfold Psi. rewrite HN2, HNa. pose proof (badcnt_le st2).
        replace (S MAX_FRAMES - frontier' st) with (S (S MAX_FRAMES - S (frontier' st))) by lia.
        rewrite Nat.mul_succ_l. lia. }
      specialize (IH st2 Hbmc Hinv2 Hb2 Hcb).
      destruct (pdr_loop fuel bf st2) as [[v st'] | e l | n |]; try exact IH.
      destruct IH as [IH | IH]; [left; lia | now right].
  Qed.
End PdrTerminationMain.

(** ** the statements quoted by Props/C10.v *)
Section PdrTerminationTheorems.
  Variable lit : Type.
  Variable lit_eqb : lit -> lit -> bool.
  Variable St : Type.
  Variable cube_of_state : St -> list lit.
  Variable W : Type.
  Variable EM : Type.
  Variable solve : nat -> query lit -> answer lit St EM.
  Variable cmd_fail : nat -> option EM.
  Variable n_init : nat.
  Variable gen_on has_bads : bool.
  Variable bmc_result : bmc_answer W EM.
  Variable lit_holds : lit -> St -> bool.
  Variable bad0 : St -> bool.
  Variable step0 trans : St -> St -> bool.
  Variable bad : St -> bool.
  Variable states : list St.

  (** the state space is finite and listed; a bit-level cube holds of its own state *)
  Definition finite_states : Prop :=
    (forall s : St, In s states) /\ (forall s, ch lit St lit_holds (cube_of_state s) s = true).

  Notation oracle_ok := (oracle_ok lit lit_eqb St cube_of_state EM solve has_bads lit_holds bad0 step0 trans bad).
  Notation no_faults := (no_faults lit St W EM solve cmd_fail bmc_result).
  Notation run fuel bf := (pdr lit lit_eqb St cube_of_state W EM solve cmd_fail n_init gen_on has_bads bmc_result fuel bf).
  Notation block_loop := (PdrImpl.block_loop lit lit_eqb St cube_of_state EM solve cmd_fail gen_on).
  Notation pinv := (PdrImplProofs.pinv lit St EM lit_holds bad0 step0 trans bad).
  Notation book := (PdrImplProofs.book lit St EM).
  Notation obl_ok := (PdrImplProofs.obl_ok lit St cube_of_state bad0 step0 trans bad).
  Notation frontier' := (PdrImplProofs.frontier' lit St EM).

  (** (a) the proof-obligation loop terminates from every state that satisfies the invariants *)
  Theorem pdr_block_loop_terminates fuel st work :
    finite_states -> oracle_ok -> no_faults ->
    pinv st -> book st -> Forall (obl_ok (frontier' st)) work ->
    block_fuel_bound (frontier' st) (length states) (length work) < fuel ->
    match block_loop fuel st work with Ok _ => True | _ => False end.
  Proof.
    intros (Hall & Hholds) (Huniq & Htr & _) (Htot & _) Hinv Hb Hwork Hfuel.
    pose proof (block_loop_good lit lit_eqb St cube_of_state EM solve cmd_fail gen_on lit_holds bad0 step0 trans bad
                                Huniq Htr fuel st work Htot Hinv Hb Hwork) as Hg.
    pose proof (block_loop_terminates_bound lit lit_eqb St cube_of_state EM solve cmd_fail gen_on lit_holds bad0 step0 trans bad
                                            states Hall Hholds Huniq Htr Htot fuel st work Hinv Hb Hwork Hfuel) as Hnf.
    destruct (block_loop fuel st work); [exact I | exact Hg | exact Hg | now contradiction Hnf].
  Qed.

  Lemma run_post fuel bf :
    finite_states -> oracle_ok -> no_faults ->
    match run fuel bf with
    | Ok (v, st') => v = VUnknown W -> frontier' st' <= S (length states) /\ pinv st'
    | Fuel => fuel <= pdr_fuel_bound (length states) \/ bf <= pdr_block_fuel_bound (length states)
    | _ => False
    end.
  Proof.
    intros (Hall & Hholds) (Huniq & Htr & _) (Htot & Hbmc). unfold pdr. destruct has_bads; [| discriminate].
    destruct (cmds_ok lit St EM solve cmd_fail n_init (init_state lit St EM) Htot) as (st0 & Ec). rewrite Ec.
    pose proof (cmds_spec lit St EM cmd_fail _ _ _ Ec) as Hs0.
    assert (Hinv0 : pinv st0) by (apply (sem_eq_pinv lit St EM lit_holds bad0 step0 trans bad _ _ Hs0), init_state_pinv).
    assert (Hb0 : book st0) by (apply (sem_eq_book lit St EM _ _ Hs0), init_state_book).
    assert (HN0 : frontier' st0 = 0) by (rewrite (sem_eq_frontier lit St EM _ _ Hs0); reflexivity).
    pose proof (pdr_loop_post lit lit_eqb St cube_of_state W EM solve cmd_fail gen_on bmc_result lit_holds bad0 step0 trans bad
                              states Hall Hholds Huniq Htr Htot fuel bf st0 Hbmc Hinv0 Hb0 ltac:(lia)) as Hp.
    unfold loop_post in Hp.
    destruct (pdr_loop lit lit_eqb St cube_of_state W EM solve cmd_fail gen_on bmc_result fuel bf st0) as [[v st'] | e l | n |];
      try exact Hp.
    destruct Hp as [Hp | Hp]; [left | now right].
    pose proof (Psi_bound lit St EM lit_holds bad states st0). lia.
  Qed.

  (** (b) the whole run terminates with a verdict for every sufficiently large fuel *)
  Theorem pdr_model_terminates fuel bf :
    finite_states -> oracle_ok -> no_faults ->
    pdr_fuel_bound (length states) < fuel -> pdr_block_fuel_bound (length states) < bf ->
    exists v st', run fuel bf = Ok (v, st').
  Proof.
    intros Hfin Hor Hnf Hf Hbf. pose proof (run_post fuel bf Hfin Hor Hnf) as Hp.
    destruct (run fuel bf) as [[v st'] | e l | n |]; [now eexists _, _ | contradiction | contradiction | lia].
  Qed.

  (** Unknown: only at the frame limit - and then the state space has at least MAX_FRAMES states - or when
      the BMC fallback gives up although a counterexample within its bound exists *)
  Theorem pdr_model_unknown_only_at_limit fuel bf st' :
    finite_states -> oracle_ok -> no_faults ->
    run fuel bf = Ok (VUnknown W, st') ->
    (MAX_FRAMES < length (p_frames lit St EM st') /\ MAX_FRAMES <= length states) \/
    (bmc_result = BmcOther W EM /\ exists d, d <= MAX_FRAMES /\ unsafe_at St bad0 step0 trans bad d).
  Proof.
    intros Hfin Hor Hnf H. pose proof (run_post fuel bf Hfin Hor Hnf) as Hp. rewrite H in Hp. destruct (Hp eq_refl) as [Hp' _].
    clear Hp. rename Hp' into Hp.
    destruct (pdr_model_unknown_only lit lit_eqb St cube_of_state W EM solve cmd_fail n_init gen_on has_bads bmc_result
                                     lit_holds bad0 step0 trans bad fuel bf st' Hor H) as [Hl | Hr]; [left | now right].
    unfold PdrImplProofs.frontier' in Hp. split; [exact Hl | lia].
  Qed.

  (** small state spaces (|states| + 1 <= MAX_FRAMES): always a definite, correct answer *)
  Theorem pdr_model_total_small fuel bf :
    finite_states -> oracle_ok -> no_faults ->
    S (length states) <= MAX_FRAMES ->
    pdr_fuel_bound (length states) < fuel -> pdr_block_fuel_bound (length states) < bf ->
    (exists st', run fuel bf = Ok (VSuccess W, st') /\ safe St bad0 step0 trans bad) \/
    (exists w st', run fuel bf = Ok (VFail W w, st') /\ bmc_result = BmcFail W EM w /\
                   exists d, d <= MAX_FRAMES /\ unsafe_at St bad0 step0 trans bad d) \/
    (exists st', run fuel bf = Ok (VUnknown W, st') /\ bmc_result = BmcOther W EM /\
                 exists d, d <= MAX_FRAMES /\ unsafe_at St bad0 step0 trans bad d).
  Proof.
    intros Hfin Hor Hnf Hsmall Hf Hbf.
    destruct (pdr_model_terminates fuel bf Hfin Hor Hnf Hf Hbf) as (v & st' & H).
    destruct v as [| w |].
    - left. exists st'. split; [exact H |].
      exact (pdr_model_success_sound lit lit_eqb St cube_of_state W EM solve cmd_fail n_init gen_on has_bads bmc_result
                                     lit_holds bad0 step0 trans bad fuel bf st' Hor H).
    - right. left. exists w, st'. split; [exact H |].
      exact (pdr_model_fail_real lit lit_eqb St cube_of_state W EM solve cmd_fail n_init gen_on has_bads bmc_result
                                 lit_holds bad0 step0 trans bad fuel bf w st' Hor H).
    - right. right. exists st'. split; [exact H |].
      destruct (pdr_model_unknown_only_at_limit fuel bf st' Hfin Hor Hnf H) as [[_ Hl] | Hr]; [lia | exact Hr].
  Qed.

  (** every counterexample of at most MAX_FRAMES steps is found, whatever the size of the (finite) state
      space: the answer is Fail (or the BMC oracle gives up) *)
  Theorem pdr_model_fail_complete fuel bf d :
    finite_states -> oracle_ok -> no_faults ->
    unsafe_at St bad0 step0 trans bad d -> d <= MAX_FRAMES ->
    pdr_fuel_bound (length states) < fuel -> pdr_block_fuel_bound (length states) < bf ->
    (exists w st', run fuel bf = Ok (VFail W w, st') /\ bmc_result = BmcFail W EM w) \/
    (exists st', run fuel bf = Ok (VUnknown W, st') /\ bmc_result = BmcOther W EM).
  Proof.
    intros Hfin Hor Hnf Hu Hd Hf Hbf.
    destruct (pdr_model_terminates fuel bf Hfin Hor Hnf Hf Hbf) as (v & st' & H).
    destruct v as [| w |].
    - exfalso.
      exact (pdr_model_success_sound lit lit_eqb St cube_of_state W EM solve cmd_fail n_init gen_on has_bads bmc_result
                                     lit_holds bad0 step0 trans bad fuel bf st' Hor H d Hu).
    - left. exists w, st'. split; [exact H |].
      exact (proj1 (pdr_model_fail_real lit lit_eqb St cube_of_state W EM solve cmd_fail n_init gen_on has_bads bmc_result
                                        lit_holds bad0 step0 trans bad fuel bf w st' Hor H)).
    - right. exists st'. split; [exact H |].
      pose proof (run_post fuel bf Hfin Hor Hnf) as Hp. rewrite H in Hp. destruct (Hp eq_refl) as [_ Hinv'].
      destruct (pdr_model_unknown_only lit lit_eqb St cube_of_state W EM solve cmd_fail n_init gen_on has_bads bmc_result
                                       lit_holds bad0 step0 trans bad fuel bf st' Hor H) as [Hl | [Hr _]]; [| exact Hr].
      exfalso. apply (safe_below lit St EM lit_holds bad0 step0 trans bad st' Hinv' d); [| exact Hu].
      unfold PdrImplProofs.frontier'. lia.
  Qed.

  (** ... and a system whose counterexamples are all longer than MAX_FRAMES steps gets the answer Unknown
      at the frame limit - the property's "terminates with one of these two answers" FAILS for the model
      on such systems (they have at least MAX_FRAMES states) *)
  Theorem pdr_model_deep_unknown fuel bf :
    finite_states -> oracle_ok -> no_faults ->
    (exists d, unsafe_at St bad0 step0 trans bad d) ->
    (forall d, d <= MAX_FRAMES -> ~ unsafe_at St bad0 step0 trans bad d) ->
    pdr_fuel_bound (length states) < fuel -> pdr_block_fuel_bound (length states) < bf ->
    exists st', run fuel bf = Ok (VUnknown W, st') /\ MAX_FRAMES < length (p_frames lit St EM st').
  Proof.
    intros Hfin Hor Hnf (d0 & Hu) Hdeep Hf Hbf.
    destruct (pdr_model_terminates fuel bf Hfin Hor Hnf Hf Hbf) as (v & st' & H).
    destruct v as [| w |].
    - exfalso.
      exact (pdr_model_success_sound lit lit_eqb St cube_of_state W EM solve cmd_fail n_init gen_on has_bads bmc_result
                                     lit_holds bad0 step0 trans bad fuel bf st' Hor H d0 Hu).
    - exfalso.
      destruct (pdr_model_fail_real lit lit_eqb St cube_of_state W EM solve cmd_fail n_init gen_on has_bads bmc_result
                                    lit_holds bad0 step0 trans bad fuel bf w st' Hor H) as (_ & d & Hd & Hud).
      exact (Hdeep d Hd Hud).
    - exists st'. split; [exact H |].
      destruct (pdr_model_unknown_only lit lit_eqb St cube_of_state W EM solve cmd_fail n_init gen_on has_bads bmc_result
                                       lit_holds bad0 step0 trans bad fuel bf st' Hor H) as [Hl | (_ & d & Hd & Hud)]; [exact Hl |].
      exfalso. exact (Hdeep d Hd Hud).
  Qed.
End PdrTerminationTheorems.
