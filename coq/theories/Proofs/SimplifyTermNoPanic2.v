(** * Proofs/SimplifyTermNoPanic2.v — [nwm] is preserved by the remaining rules
    (ite, equality, concat, slice, and / or / xor with the mask arms) and by the dispatcher. *)
From Coq Require Import Lia.
From Patronus Require Import Simplify BVLemmas ExprLemmas EvalProofs BVRuleLemmas ExprEqb SimplifyBuilders
     SimplifyRules1 SimplifyRules2 SimplifyMask SimplifyRules3 SimplifyTermMeasure SimplifyTermArith
     SimplifyTermRules1 SimplifyTermNoPanic1.
Open Scope N_scope.

(** ** ite *)
Lemma simplify_ite_nwm c t f r : nwm (BVIte c t f) = true -> simplify_ite c t f = Some r -> nwm r = true.
Proof.
  intros Hn Hs. unfold simplify_ite in Hs.
  destruct (expr_eqb t f); [inv_some'; nwm_done|].
  destruct (lit_dec c) as [[[wc vc] ->]|Nc]; cbn [fst snd] in *.
  { destruct (lit_is_false wc vc); inv_some'; nwm_done. }
  assert (Hs' : (if width t =? 1 then
                   match t, f with
                   | BVLiteral _ vt, BVLiteral _ vf =>
                       match vt =? 1, vf =? 1 with
                       | true, false => Some c
                       | false, true => Some (mk_not c)
                       | _, _ => None
                       end
                   | BVLiteral _ vt, _ => if vt =? 1 then Some (mk_or c f) else Some (mk_and (mk_not c) f)
                   | _, BVLiteral _ vf => if vf =? 1 then Some (mk_or (mk_not c) t) else Some (mk_and c t)
                   | _, _ => None
                   end else None) = Some r)
    by (not_lit c Nc; exact Hs).
  clear Hs. destruct (width t =? 1); [|discriminate].
  destruct (lit_dec t) as [[[wt_ vt] ->]|Nt]; destruct (lit_dec f) as [[[wf vf] ->]|Nf]; cbn [fst snd] in *.
  - destruct (vt =? 1); destruct (vf =? 1); inv_some'; nwm_done.
  - assert (Hs'' : (if vt =? 1 then Some (mk_or c f) else Some (mk_and (mk_not c) f)) = Some r)
      by (not_lit f Nf; exact Hs').
    destruct (vt =? 1); inv_some'; nwm_done.
  - assert (Hs'' : (if vf =? 1 then Some (mk_or (mk_not c) t) else Some (mk_and c t)) = Some r)
      by (not_lit t Nt; exact Hs').
    destruct (vf =? 1); inv_some'; nwm_done.
  - exfalso. not_lit t Nt; not_lit f Nf; discriminate Hs'.
Qed.

(** ** equality *)
Lemma eq_after_lits_nwm a b r : nwm (BVEqual a b) = true -> eq_after_lits a b = Some r -> nwm r = true.
Proof.
  intros Hn Hs. unfold eq_after_lits, find_one_concat in Hs.
  destruct (concat_dec a) as [[[[ca cb] cw] ->]|Na]; cbn [fst snd] in *; [inv_some'; nwm_done|].
  assert (Hs' : match b with
                | BVConcat ca cb _ =>
                    Some (mk_and (mk_equal ca (mk_slice a (width ca + width cb - 1) (width ca + width cb - width ca)))
                                 (mk_equal cb (mk_slice a (width cb - 1) 0)))
                | _ => None end = Some r)
    by (not_concat a Na; destruct b; exact Hs).
  clear Hs. destruct (concat_dec b) as [[[[ca cb] cw] ->]|Nb]; cbn [fst snd] in *.
  2: { exfalso. not_concat b Nb; discriminate Hs'. }
  inv_some'. nwm_done.
Qed.

Lemma simplify_bv_equal_nwm a b r : nwm (BVEqual a b) = true -> simplify_bv_equal a b = Some r -> nwm r = true.
Proof.
  intros Hn Hs. unfold simplify_bv_equal in Hs. fold (eq_after_lits a b) in Hs.
  destruct (expr_eqb a b); [inv_some'; reflexivity|].
  pose proof (find_lits_view a b) as V. destruct (find_lits_commutative a b) as [wa va wb vb|wl vl le other|].
  - inv_some'. reflexivity.
  - destruct (lit_is_true wl vl).
    { inv_some'. destruct V as [(-> & -> & -> & _)|(-> & -> & -> & _)]; nwm_done. }
    destruct (lit_is_false wl vl); [|now apply (eq_after_lits_nwm a b)].
    inv_some'. destruct V as [(-> & -> & -> & _)|(-> & -> & -> & _)]; nwm_done.
  - now apply (eq_after_lits_nwm a b).
Qed.

(** ** concat *)
Lemma simplify_bv_concat_nwm a b w r : nwm (BVConcat a b w) = true -> simplify_bv_concat a b = Some r -> nwm r = true.
Proof.
  intros Hn Hs. unfold simplify_bv_concat in Hs.
  destruct (concat_dec a) as [[[[aa ab] aw] ->]|Nca]; cbn [fst snd] in *; [inv_some'; nwm_done|].
  destruct (lit_dec a) as [[[wla va] ->]|Nla]; cbn [fst snd] in *.
  { destruct (lit_dec b) as [[[wlb vb] ->]|Nlb]; cbn [fst snd] in *; [inv_some'; reflexivity|].
    destruct (concat_dec b) as [[[[ba bb] bw] ->]|Ncb]; cbn [fst snd] in *.
    2: { exfalso. destruct b; try discriminate Hs; [eapply Nlb|eapply Ncb]; reflexivity. }
    destruct (lit_dec ba) as [[[wlba vba] ->]|Nlba]; cbn [fst snd] in *.
    2: { exfalso. not_lit ba Nlba; discriminate Hs. }
    inv_some'. nwm_done. }
  destruct (slice_dec a) as [[[[ea hi_a] lo_a] ->]|Nsa]; cbn [fst snd] in *.
  2: { exfalso. destruct a; try discriminate Hs; [eapply Nla|eapply Nsa|eapply Nca]; reflexivity. }
  destruct (slice_dec b) as [[[[eb hi_b] lo_b] ->]|Nsb]; cbn [fst snd] in *.
  2: { exfalso. destruct b; try discriminate Hs. eapply Nsb; reflexivity. }
  destruct (expr_eqb ea eb && (lo_a =? hi_b + 1)); inv_some'. nwm_done.
Qed.

(** ** slice: the only rule that creates a multiplication (a narrower one) *)
Lemma simplify_bv_slice_nwm e hi lo r :
  wt (BVSlice e hi lo) = true -> nwm (BVSlice e hi lo) = true -> simplify_bv_slice e hi lo = Some r -> nwm r = true.
Proof.
  intros Hwt Hn Hs. apply wt_slice in Hwt. destruct Hwt as (We & we & Te & Hhi & Hlo).
  destruct e; cbn [simplify_bv_slice] in Hs; try discriminate.
  - inv_some'. reflexivity.
  - destruct (width e <=? lo); [inv_some'; nwm_done|]. destruct (hi <? width e); inv_some'; nwm_done.
  - inv_some'. nwm_done.
  - inv_some'. nwm_done.
  - destruct (lo =? 0); inv_some'. nwm_done.
  - destruct (hi <? width e2); [inv_some'; nwm_done|]. destruct (width e2 <=? lo); inv_some'; nwm_done.
  - inv_some'. nwm_done.
  - inv_some'. nwm_done.
  - inv_some'. nwm_done.
  - destruct (lo =? 0); inv_some'. nwm_done.
  - (* mul *)
    destruct (lo =? 0); inv_some'.
    apply wt_mul in We. destruct We as (Wa & Wb & Ta & Tb). cbn in Te. inversion Te; subst we.
    unfold mk_mul. cbn [nwm]. rewrite (width_mk_slice e2 w hi lo Wb Tb Hhi Hlo).
    nwm_norm. nwm_split.
    match goal with H : (w <=? 128) = true |- _ => apply N.leb_le in H end.
    assert (E : (hi - lo + 1 <=? 128) = true) by (apply N.leb_le; lia). rewrite E. nwm_done.
  - destruct (lo =? 0); inv_some'. nwm_done.
  - inv_some'. nwm_done.
Qed.

(** ** and / or / xor *)
Section NoLit.
  Variables (a b : expr).
  Hypothesis Ha : nwm a = true.
  Hypothesis Hb : nwm b = true.

  Lemma and_nolit_nwm r : and_nolit a b = Some r -> nwm r = true.
  Proof.
    intros Hs. unfold and_nolit in Hs.
    destruct (not_dec a) as [[[ia wa] Ea]|Na]; cbn [fst snd] in *.
    - subst a. destruct (expr_eqb ia b); [inv_some'; reflexivity|].
      destruct (not_dec b) as [[[ib wb] Eb]|Nb]; cbn [fst snd] in *.
      2: { exfalso. not_not_ b Nb; discriminate Hs. }
      subst b. destruct (expr_eqb ib (BVNot ia wa)); inv_some'; [reflexivity|nwm_done].
    - assert (Hs' : match b with BVNot inner w0 => if expr_eqb inner a then Some (mk_zero w0) else None | _ => None end = Some r)
        by (not_not_ a Na; exact Hs).
      clear Hs. destruct (not_dec b) as [[[ib wb] Eb]|Nb]; cbn [fst snd] in *.
      2: { exfalso. not_not_ b Nb; discriminate Hs'. }
      subst b. destruct (expr_eqb ib a); inv_some'. reflexivity.
  Qed.

  Lemma or_nolit_nwm r : or_nolit a b = Some r -> nwm r = true.
  Proof.
    intros Hs. unfold or_nolit in Hs.
    destruct (not_dec a) as [[[ia wa] Ea]|Na]; cbn [fst snd] in *.
    - subst a. destruct (expr_eqb ia b); [inv_some'; reflexivity|].
      destruct (not_dec b) as [[[ib wb] Eb]|Nb]; cbn [fst snd] in *.
      2: { exfalso. not_not_ b Nb; discriminate Hs. }
      subst b. destruct (expr_eqb ib (BVNot ia wa)); inv_some'; [reflexivity|nwm_done].
    - assert (Hs' : match b with BVNot inner w0 => if expr_eqb inner a then Some (mk_ones w0) else None | _ => None end = Some r)
        by (not_not_ a Na; exact Hs).
      clear Hs. destruct (not_dec b) as [[[ib wb] Eb]|Nb]; cbn [fst snd] in *.
      2: { exfalso. not_not_ b Nb; discriminate Hs'. }
      subst b. destruct (expr_eqb ib a); inv_some'. reflexivity.
  Qed.

  Lemma xor_nolit_nwm r : xor_nolit a b = Some r -> nwm r = true.
  Proof.
    intros Hs. unfold xor_nolit in Hs.
    destruct (not_dec a) as [[[ia wa] Ea]|Na]; cbn [fst snd] in *.
    - subst a. destruct (expr_eqb ia b); [inv_some'; reflexivity|].
      destruct (not_dec b) as [[[ib wb] Eb]|Nb]; cbn [fst snd] in *.
      2: { exfalso. not_not_ b Nb; discriminate Hs. }
      subst b. destruct (expr_eqb ib (BVNot ia wa)); inv_some'. reflexivity.
    - assert (Hs' : match b with BVNot inner w0 => if expr_eqb inner a then Some (mk_ones w0) else None | _ => None end = Some r)
        by (not_not_ a Na; exact Hs).
      clear Hs. destruct (not_dec b) as [[[ib wb] Eb]|Nb]; cbn [fst snd] in *.
      2: { exfalso. not_not_ b Nb; discriminate Hs'. }
      subst b. destruct (expr_eqb ib a); inv_some'. reflexivity.
  Qed.
End NoLit.

(** the mask arms *)
Lemma mask_pieces_nwm x : nwm x = true -> forall ivs bit, Forall (fun p => nwm p = true) (fst (mask_pieces x ivs bit)).
Proof.
  intros Hx. induction ivs as [|[s e] rest IH]; intros bit; cbn [mask_pieces]; [constructor|].
  specialize (IH e). destruct (mask_pieces x rest e) as [more last]. cbn [fst] in *.
  assert (Forall (fun p => nwm p = true) (mk_slice x (e - 1) s :: more))
    by (constructor; [now rewrite nwm_mk_slice|exact IH]).
  destruct (bit <? s); cbn [app]; [constructor; [reflexivity|]|]; assumption.
Qed.

Lemma fold_concat_nwm : forall tl hd, Forall (fun p => nwm p = true) tl -> nwm hd = true ->
  nwm (fold_left mk_concat tl hd) = true.
Proof.
  induction tl as [|x tl IH]; intros hd Hall Hhd; cbn [fold_left]; [exact Hhd|].
  inversion Hall; subst. apply IH; [assumption|]. cbn [nwm mk_concat]. now rewrite Hhd, H1.
Qed.

Lemma reduce_concat_nwm vals r : Forall (fun p => nwm p = true) vals -> reduce_concat vals = Some r -> nwm r = true.
Proof.
  intros Hall Hs. unfold reduce_concat in Hs.
  assert (Hall' : Forall (fun p => nwm p = true) (rev vals)).
  { apply Forall_forall. intros p Hp. rewrite Forall_forall in Hall. apply Hall. now apply in_rev. }
  destruct (rev vals) as [|hd tl]; [discriminate|]. inversion Hs; subst r. inversion Hall'; subst.
  now apply fold_concat_nwm.
Qed.

Lemma and_mask_arm_nwm w v e r : nwm e = true -> and_mask_arm w v e = Some r -> nwm r = true.
Proof.
  intros He Hs.
  destruct (concat_dec e) as [[[[ca cb] cw] ->]|Ne]; cbn [fst snd] in *.
  - cbn [and_mask_arm] in Hs. inv_some'. nwm_done.
  - assert (Hs' : (let '(vals, bit) := mask_pieces e (Simplify.bit_set_intervals w v) 0 in
                   let vals := if bit <? width e then vals ++ [mk_zero (width e - bit)] else vals in
                   reduce_concat vals) = Some r)
      by (not_concat e Ne; exact Hs).
    clear Hs. pose proof (mask_pieces_nwm e He (Simplify.bit_set_intervals w v) 0) as A.
    destruct (mask_pieces e (Simplify.bit_set_intervals w v) 0) as [vals bit]. cbn [fst] in *.
    refine (reduce_concat_nwm _ _ _ Hs').
    destruct (bit <? width e); [|exact A]. apply Forall_app. split; [exact A|]. constructor; [reflexivity|constructor].
Qed.

Lemma lone_nwm a b wl vl le other :
  ((a = BVLiteral wl vl /\ le = a /\ other = b /\ (forall w' v', b <> BVLiteral w' v')) \/
   (b = BVLiteral wl vl /\ le = b /\ other = a /\ (forall w' v', a <> BVLiteral w' v'))) ->
  nwm a && nwm b = true -> nwm other = true /\ nwm le = true.
Proof. intros [(-> & -> & -> & _)|(-> & -> & -> & _)] H; nwm_norm; nwm_split; auto. Qed.

Lemma simplify_bv_and_nwm a b w r : nwm (BVAnd a b w) = true -> simplify_bv_and a b = Some r -> nwm r = true.
Proof.
  intros Hn Hs. cbn [nwm] in Hn. unfold simplify_bv_and in Hs. fold (and_nolit a b) in Hs.
  destruct (expr_eqb a b); [inv_some'; nwm_done|].
  pose proof (find_lits_view a b) as V. destruct (find_lits_commutative a b) as [wa va wb vb|wl vl le other|].
  - inv_some'. reflexivity.
  - destruct (lone_nwm _ _ _ _ _ _ V Hn) as [Ho Hl].
    destruct (vl =? 0); [inv_some'; exact Hl|].
    destruct (lit_is_all_ones wl vl); [inv_some'; exact Ho|].
    fold (and_mask_arm wl vl other) in Hs. exact (and_mask_arm_nwm _ _ _ _ Ho Hs).
  - nwm_split. now apply (and_nolit_nwm a b).
Qed.

Lemma simplify_bv_or_nwm a b w r : nwm (BVOr a b w) = true -> simplify_bv_or a b = Some r -> nwm r = true.
Proof.
  intros Hn Hs. cbn [nwm] in Hn. unfold simplify_bv_or in Hs. fold (or_nolit a b) in Hs.
  destruct (expr_eqb a b); [inv_some'; nwm_done|].
  pose proof (find_lits_view a b) as V. destruct (find_lits_commutative a b) as [wa va wb vb|wl vl le other|].
  - inv_some'. reflexivity.
  - destruct (lone_nwm _ _ _ _ _ _ V Hn) as [Ho Hl].
    destruct (vl =? 0); [inv_some'; exact Ho|].
    destruct (lit_is_all_ones wl vl); inv_some'; exact Hl.
  - nwm_split. now apply (or_nolit_nwm a b).
Qed.

Lemma simplify_bv_xor_nwm a b w r : nwm (BVXor a b w) = true -> simplify_bv_xor a b = Some r -> nwm r = true.
Proof.
  intros Hn Hs. cbn [nwm] in Hn. unfold simplify_bv_xor in Hs. fold (xor_nolit a b) in Hs.
  destruct (expr_eqb a b); [inv_some'; reflexivity|].
  pose proof (find_lits_view a b) as V. destruct (find_lits_commutative a b) as [wa va wb vb|wl vl le other|].
  - inv_some'. reflexivity.
  - destruct (lone_nwm _ _ _ _ _ _ V Hn) as [Ho Hl].
    destruct (vl =? 0); [inv_some'; exact Ho|].
    destruct (lit_is_all_ones wl vl); inv_some'. cbn [nwm mk_not]. exact Ho.
  - nwm_split. now apply (xor_nolit_nwm a b).
Qed.

(** ** the dispatcher *)
Theorem simplify_nwm e r : wt e = true -> nwm e = true -> simplify e (children e) = Ok (Some r) -> nwm r = true.
Proof.
  intros Hwt Hn Hs. destruct e; cbn [simplify children] in Hs; try discriminate;
    try (inversion Hs as [Hs']; clear Hs).
  - now apply (simplify_bv_zero_ext_nwm e by_ w).
  - now apply (simplify_bv_sign_ext_nwm e by_ w).
  - now apply (simplify_bv_slice_nwm e hi lo).
  - now apply (simplify_bv_not_nwm e w).
  - now apply (simplify_bv_equal_nwm e1 e2).
  - subst r. now apply simplify_implies_nwm.
  - now apply (simplify_bv_greater_equal_nwm e1 e2).
  - now apply (simplify_bv_concat_nwm e1 e2 w).
  - now apply (simplify_bv_and_nwm e1 e2 w).
  - now apply (simplify_bv_or_nwm e1 e2 w).
  - now apply (simplify_bv_xor_nwm e1 e2 w).
  - now apply (simplify_bv_shift_left_nwm e1 e2 w).
  - now apply (simplify_bv_arithmetic_shift_right_nwm e1 e2 w).
  - now apply (simplify_bv_shift_right_nwm e1 e2 w).
  - now apply (simplify_bv_add_nwm e1 e2 w).
  - now apply (simplify_bv_mul_nwm e1 e2 w).
  - now apply (simplify_ite_nwm e1 e2 e3).
Qed.

Theorem simplify_no_panic e : wt e = true -> nwm e = true -> simplify e (children e) <> Panic.
Proof.
  intros Hwt Hn. destruct e; cbn [simplify children]; try discriminate.
  now apply (simplify_bv_mul_no_panic e1 e2 w).
Qed.
