(** * Proofs/McBasics.v — basic facts used by the model-checking proofs (C04, C02, C03):
    structural equality decides equality; evaluation depends only on the symbols
    an expression mentions (coincidence); assignment lemmas. *)
From Coq Require Import List Bool Lia.
From Patronus Require Import SysExec Analysis.
Import ListNotations.
Open Scope N_scope.

(** ** [expr_eqb] decides equality *)
Lemma expr_eqb_true : forall x y, expr_eqb x y = true -> x = y.
Proof.
  induction x; destruct y; cbn [expr_eqb]; try discriminate; intros H;
    repeat match goal with
           | H : _ && _ = true |- _ => apply andb_true_iff in H; destruct H
           end;
    repeat match goal with
           | H : String.eqb _ _ = true |- _ => apply String.eqb_eq in H
           | H : N.eqb _ _ = true |- _ => apply N.eqb_eq in H
           | IH : forall y, expr_eqb ?a y = true -> ?a = y, H : expr_eqb ?a _ = true |- _ => apply IH in H
           end;
    subst; reflexivity.
Qed.

Lemma expr_eqb_refl : forall x, expr_eqb x x = true.
Proof.
  induction x; cbn [expr_eqb];
    repeat match goal with
           | H : expr_eqb _ _ = true |- _ => rewrite H; clear H
           end;
    rewrite ?String.eqb_refl, ?N.eqb_refl; reflexivity.
Qed.

Lemma expr_eqb_false x y : x <> y -> expr_eqb x y = false.
Proof.
  intros Hne. destruct (expr_eqb x y) eqn:E; [|reflexivity].
  exfalso. apply Hne. now apply expr_eqb_true.
Qed.

Lemma expr_eqb_spec x y : reflect (x = y) (expr_eqb x y).
Proof.
  destruct (expr_eqb x y) eqn:E; constructor.
  - now apply expr_eqb_true.
  - intros ->. rewrite expr_eqb_refl in E. discriminate.
Qed.

Lemma expr_eqb_sym x y : expr_eqb x y = expr_eqb y x.
Proof.
  destruct (expr_eqb_spec x y) as [->|Hne].
  - now rewrite expr_eqb_refl.
  - symmetry. apply expr_eqb_false. congruence.
Qed.

Lemma expr_eq_dec (x y : expr) : {x = y} + {x <> y}.
Proof. destruct (expr_eqb_spec x y); [left|right]; assumption. Qed.

Lemma mem_In k l : mem k l = true <-> In k l.
Proof.
  unfold mem. rewrite existsb_exists. split.
  - intros (x & Hin & E). apply expr_eqb_true in E. now subst.
  - intros Hin. exists k. split; [assumption|apply expr_eqb_refl].
Qed.

Lemma mem_false k l : mem k l = false <-> ~ In k l.
Proof.
  rewrite <- mem_In. destruct (mem k l); split; intros H; try congruence; try (exfalso; apply H; reflexivity).
Qed.

Lemma ty_eqb_eq a b : ty_eqb a b = true <-> a = b.
Proof.
  destruct a, b; cbn [ty_eqb]; try (split; [discriminate|congruence]).
  - rewrite N.eqb_eq. split; congruence.
  - rewrite andb_true_iff, !N.eqb_eq. split; [intros [-> ->]; reflexivity|intros H; inversion H; auto].
Qed.

Lemma ty_eqb_refl a : ty_eqb a a = true.
Proof. now apply ty_eqb_eq. Qed.

(** ** two valuations give the symbol [s] the same value *)
Definition agree_on (s : expr) (r1 r2 : env) : Prop :=
  match s with
  | BVSymbol n w => rho_bv r1 n w = rho_bv r2 n w
  | ArraySymbol n iw dw => forall i, rho_arr r1 n iw dw i = rho_arr r2 n iw dw i
  | _ => True
  end.

Lemma agree_on_refl s a : agree_on s a a.
Proof. destruct s; cbn [agree_on]; auto. Qed.

Lemma agree_on_sym s a b : agree_on s a b -> agree_on s b a.
Proof. destruct s; cbn [agree_on]; auto; try (intros H i; now rewrite H). Qed.

Lemma agree_on_trans s a b c : agree_on s a b -> agree_on s b c -> agree_on s a c.
Proof. destruct s; cbn [agree_on]; intros H1 H2; auto; try congruence; try (intros i; now rewrite H1). Qed.

Lemma forallb_N_ext n p q : (forall i, p i = q i) -> forallb_N n p = forallb_N n q.
Proof.
  intros H. unfold forallb_N. induction n as [|n IH] using N.peano_ind; [reflexivity|].
  rewrite !N.recursion_succ; try reflexivity;
    try (intros ? ? -> ? ? ->; reflexivity).
  now rewrite IH, H.
Qed.

Lemma arr_eqb_ext iw f g f' g' :
  (forall i, f i = f' i) -> (forall i, g i = g' i) -> arr_eqb iw f g = arr_eqb iw f' g'.
Proof. intros Hf Hg. unfold arr_eqb. apply forallb_N_ext. intros i. now rewrite Hf, Hg. Qed.

(** ** coincidence: evaluation depends only on the symbols mentioned *)
Lemma coincidence r1 r2 : forall e,
  (forall s, In s (symbols_of e) -> agree_on s r1 r2) ->
  ebv r1 e = ebv r2 e /\ (forall i, earr r1 e i = earr r2 e i).
Proof.
  induction e; cbn [symbols_of]; intros Hs;
    repeat match goal with
           | IH : (forall s, In s (symbols_of ?a) -> _) -> _ |- _ =>
               let A := fresh "Hbv" in let B := fresh "Harr" in
               destruct IH as [A B]; [intros s' Hin'; apply Hs; rewrite ?in_app_iff; tauto|]
           end;
    cbn [ebv earr]; split; intros;
    repeat match goal with
           | H : ebv r1 ?a = ebv r2 ?a |- _ => rewrite H; clear H
           end;
    try reflexivity;
    try (match goal with
         | H : forall i, earr r1 ?a i = earr r2 ?a i |- earr r1 ?a _ = earr r2 ?a _ => apply H
         | |- rho_bv r1 ?n ?w = rho_bv r2 ?n ?w => exact (Hs (BVSymbol n w) (or_introl eq_refl))
         | |- rho_arr r1 ?n ?iw ?dw ?i = rho_arr r2 ?n ?iw ?dw ?i => exact (Hs (ArraySymbol n iw dw) (or_introl eq_refl) i)
         | |- b2n (arr_eqb _ _ _) = b2n (arr_eqb _ _ _) => f_equal; apply arr_eqb_ext; assumption
         | |- arr_store _ _ _ _ = arr_store _ _ _ _ => unfold arr_store; destruct (_ =? _); auto
         | |- (if ?c then _ else _) _ = (if ?c then _ else _) _ => destruct c; auto
         end).
Qed.

(** the value of an expression, as one proposition for both kinds *)
Definition same_val (r1 : env) (e1 : expr) (r2 : env) (e2 : expr) : Prop :=
  ebv r1 e1 = ebv r2 e2 /\ forall i, earr r1 e1 i = earr r2 e2 i.

Lemma same_val_refl r e : same_val r e r e.
Proof. split; reflexivity. Qed.

Lemma same_val_trans r1 e1 r2 e2 r3 e3 : same_val r1 e1 r2 e2 -> same_val r2 e2 r3 e3 -> same_val r1 e1 r3 e3.
Proof. intros [A B] [C D]. split; [congruence|intros i; now rewrite B]. Qed.

Lemma same_val_sym r1 e1 r2 e2 : same_val r1 e1 r2 e2 -> same_val r2 e2 r1 e1.
Proof. intros [A B]. split; [congruence|intros i; now rewrite B]. Qed.

(** ** assignment *)
Lemma assign_other s k rho src e : is_symbol k = true -> s <> k -> agree_on s (assign rho k src e) rho.
Proof.
  intros _ Hne. destruct k; cbn [assign]; try apply agree_on_refl;
    destruct s; cbn [agree_on upd_bv upd_arr rho_bv rho_arr]; auto.
  - destruct (String.eqb_spec name0 name); cbn [andb]; [|reflexivity].
    destruct (N.eqb_spec w0 w); [|reflexivity]. subst. congruence.
  - intros i. destruct (String.eqb_spec name0 name); cbn [andb]; [|reflexivity].
    destruct (N.eqb_spec iw0 iw); cbn [andb]; [|reflexivity].
    destruct (N.eqb_spec dw0 dw); [|reflexivity]. subst. congruence.
Qed.

Lemma assign_same k rho src e : is_symbol k = true -> same_val (assign rho k src e) k src e \/ True.
Proof. intros _. right. exact I. Qed.

Lemma assign_bv_same n w rho src e : rho_bv (assign rho (BVSymbol n w) src e) n w = ebv src e.
Proof. cbn [assign upd_bv rho_bv]. now rewrite String.eqb_refl, N.eqb_refl. Qed.

Lemma assign_arr_same n iw dw rho src e i : rho_arr (assign rho (ArraySymbol n iw dw) src e) n iw dw i = earr src e i.
Proof. cbn [assign upd_arr rho_arr]. now rewrite String.eqb_refl, !N.eqb_refl. Qed.
