(** * Proofs/ArithRulesFix.v — the rules with the REPAIRED side conditions
    (Model.Arith [rules_v Fix], patches/0016-fix-egraph-rules-derived-width-fits-u32.diff):
    sound at full strength (no "derived width fits u32" hypothesis), and the conditions never panic. *)
From Coq Require Import Lia ZArith.
From Patronus Require Import Arith BVLemmas ArithLemmas ArithProofs.
Open Scope N_scope.

Lemma cond_merge_fix wo wab wa wb wc sa :
  eval_condition rule_merge_left_shift_fix (asg_merge wo wab wa wb wc sa) = Ok true ->
  wo <= wab /\ N.max wb wc + 1 <= u32_max.
Proof.
  cbv [eval_condition r_cond r_cond_vars rule_merge_left_shift_fix asg_merge lookup_all lookup
       String.eqb Ascii.eqb Bool.eqb bind nth_w nth_error].
  intros H. injection H as H1. apply andb_true_iff in H1. destruct H1 as [H1 H2].
  apply N.leb_le in H1. apply N.ltb_lt in H2. split; lia.
Qed.

Lemma cond_unmerge_fix wo wa wbc wb wc sa :
  eval_condition rule_unmerge_left_shift_fix (asg_unmerge wo wa wbc wb wc sa) = Ok true ->
  N.max wb wc + 1 <= wbc /\ eval_width_left_shift wa wb <> Panic.
Proof.
  cbv [eval_condition r_cond r_cond_vars rule_unmerge_left_shift_fix asg_unmerge lookup_all lookup
       String.eqb Ascii.eqb Bool.eqb bind nth_w nth_error].
  intros H. injection H as H1. apply andb_true_iff in H1. destruct H1 as [H1 H2].
  apply N.ltb_lt in H1. split; [lia|].
  destruct (eval_width_left_shift wa wb); [discriminate | discriminate H2].
Qed.

Lemma cond_lsm_fix wo wab wa wb wc :
  eval_condition rule_left_shift_mult_fix (asg_lsm wo wab wa wb wc) = Ok true ->
  wa + wb <= wab /\ exists l, eval_width_left_shift wab wc = Ok l /\ l <= wo.
Proof.
  cbv [eval_condition r_cond r_cond_vars rule_left_shift_mult_fix rule_left_shift_mult asg_lsm lookup_all lookup
       String.eqb Ascii.eqb Bool.eqb bind nth_w nth_error].
  intros H. injection H as H1. apply andb_true_iff in H1. destruct H1 as [H1 H2].
  unfold le_checked in *.
  destruct (checked32 (wa + wb)) as [s|] eqn:Hs; [|discriminate].
  apply checked32_ok in Hs. destruct Hs as [Hs _]. subst s. apply N.leb_le in H1. split; [exact H1|].
  destruct (eval_width_left_shift wab wc) as [l|]; [|discriminate].
  exists l. split; [reflexivity | now apply N.leb_le].
Qed.

Lemma rule_merge_left_shift_fixed_lemma : forall wo wab wa wb wc sa ta tb tc,
  width_ok wo -> width_ok wab -> width_ok wa -> width_ok wb -> width_ok wc ->
  operand_ok wa ta -> operand_ok wb tb -> operand_ok wc tc ->
  let asg := asg_merge wo wab wa wb wc sa in
  let sigma := subst_of asg (ops3 ta tb tc) in
  eval_condition rule_merge_left_shift_fix asg = Ok true ->
  same_value wo (inst sigma (r_lhs rule_merge_left_shift_fix)) (inst sigma (r_rhs rule_merge_left_shift_fix)).
Proof.
  intros wo wab wa wb wc sa ta tb tc Hwo Hwab Hwa Hwb Hwc Hta Htb Htc asg sigma Hc. subst sigma asg.
  change (r_lhs rule_merge_left_shift_fix) with (r_lhs rule_merge_left_shift).
  change (r_rhs rule_merge_left_shift_fix) with (r_rhs rule_merge_left_shift).
  destruct (inst_merge wo wab wa wb wc sa ta tb tc) as [Hl Hr]. cbv zeta in Hl, Hr. rewrite Hl, Hr.
  destruct (cond_merge_fix wo wab wa wb wc sa Hc) as [H1 H2].
  now apply merge_left_shift_sound_lemma.
Qed.

Lemma rule_unmerge_left_shift_fixed_lemma : forall wo wa wbc wb wc sa ta tb tc,
  width_ok wo -> width_ok wa -> width_ok wbc -> width_ok wb -> width_ok wc ->
  operand_ok wa ta -> operand_ok wb tb -> operand_ok wc tc ->
  let asg := asg_unmerge wo wa wbc wb wc sa in
  let sigma := subst_of asg (ops3 ta tb tc) in
  eval_condition rule_unmerge_left_shift_fix asg = Ok true ->
  same_value wo (inst sigma (r_lhs rule_unmerge_left_shift_fix)) (inst sigma (r_rhs rule_unmerge_left_shift_fix)).
Proof.
  intros wo wa wbc wb wc sa ta tb tc Hwo Hwa Hwbc Hwb Hwc Hta Htb Htc asg sigma Hc. subst sigma asg.
  change (r_lhs rule_unmerge_left_shift_fix) with (r_lhs rule_unmerge_left_shift).
  change (r_rhs rule_unmerge_left_shift_fix) with (r_rhs rule_unmerge_left_shift).
  destruct (inst_unmerge wo wa wbc wb wc sa ta tb tc) as [Hl Hr]. cbv zeta in Hl, Hr. rewrite Hl, Hr.
  destruct (cond_unmerge_fix wo wa wbc wb wc sa Hc) as [H1 H2].
  destruct (eval_width_left_shift wa wb) as [wab|] eqn:Hwab; [|congruence].
  now apply unmerge_left_shift_sound_lemma with wab.
Qed.

Lemma rule_left_shift_mult_fixed_lemma : forall wo wab wa wb wc ta tb tc,
  width_ok wo -> width_ok wab -> width_ok wa -> width_ok wb -> width_ok wc ->
  operand_ok wa ta -> operand_ok wb tb -> operand_ok wc tc ->
  let asg := asg_lsm wo wab wa wb wc in
  let sigma := subst_of asg (ops3 ta tb tc) in
  eval_condition rule_left_shift_mult_fix asg = Ok true ->
  same_value wo (inst sigma (r_lhs rule_left_shift_mult_fix)) (inst sigma (r_rhs rule_left_shift_mult_fix)).
Proof.
  intros wo wab wa wb wc ta tb tc Hwo Hwab Hwa Hwb Hwc Hta Htb Htc asg sigma Hc. subst sigma asg.
  change (r_lhs rule_left_shift_mult_fix) with (r_lhs rule_left_shift_mult).
  change (r_rhs rule_left_shift_mult_fix) with (r_rhs rule_left_shift_mult).
  destruct (inst_lsm wo wab wa wb wc ta tb tc) as [Hl Hr]. cbv zeta in Hl, Hr. rewrite Hl, Hr.
  destruct (cond_lsm_fix wo wab wa wb wc Hc) as [Hmul Hlsh].
  now apply left_shift_mult_sound_lemma.
Qed.

(** the repaired conditions are total: no width assignment makes them panic *)
Lemma fixed_conditions_total_lemma :
  (forall wo wab wa wb wc sa, eval_condition rule_merge_left_shift_fix (asg_merge wo wab wa wb wc sa) <> Panic) /\
  (forall wo wa wbc wb wc sa, eval_condition rule_unmerge_left_shift_fix (asg_unmerge wo wa wbc wb wc sa) <> Panic) /\
  (forall wo wab wa wb wc, eval_condition rule_left_shift_mult_fix (asg_lsm wo wab wa wb wc) <> Panic).
Proof.
  repeat split; intros;
    cbv [eval_condition r_cond r_cond_vars rule_merge_left_shift_fix rule_unmerge_left_shift_fix
         rule_left_shift_mult_fix rule_left_shift_mult asg_merge asg_unmerge asg_lsm lookup_all lookup
         String.eqb Ascii.eqb Bool.eqb bind nth_w nth_error]; discriminate.
Qed.

(** whereas the shipped condition of left-shift-mult does ([wa + wb] overflows) *)
Lemma cur_condition_panics_lemma :
  eval_condition rule_left_shift_mult (asg_lsm 1 1 u32_max 1 1) = Panic /\
  eval_condition rule_left_shift_mult_fix (asg_lsm 1 1 u32_max 1 1) = Ok false.
Proof. split; vm_compute; reflexivity. Qed.

(** the assignments that refute the shipped rules are simply rejected by the repaired conditions *)
Lemma refutation_witnesses_rejected_lemma :
  eval_condition rule_merge_left_shift (asg_merge 1 1 1 u32_max 1 false) = Ok true /\
  eval_condition rule_merge_left_shift_fix (asg_merge 1 1 1 u32_max 1 false) = Ok false /\
  eval_condition rule_unmerge_left_shift (asg_unmerge 1 u32_max 2 1 1 false) = Ok true /\
  eval_condition rule_unmerge_left_shift_fix (asg_unmerge 1 u32_max 2 1 1 false) = Ok false.
Proof. repeat split; vm_compute; reflexivity. Qed.

(** below the overflow region the repaired conditions are the shipped ones *)
Lemma fixed_conditions_agree_lemma :
  (forall wo wab wa wb wc sa, N.max wb wc + 1 <= u32_max ->
     eval_condition rule_merge_left_shift_fix (asg_merge wo wab wa wb wc sa)
     = eval_condition rule_merge_left_shift (asg_merge wo wab wa wb wc sa)) /\
  (forall wo wa wbc wb wc sa, N.max wb wc + 1 <= u32_max -> eval_width_left_shift wa wb <> Panic ->
     eval_condition rule_unmerge_left_shift_fix (asg_unmerge wo wa wbc wb wc sa)
     = eval_condition rule_unmerge_left_shift (asg_unmerge wo wa wbc wb wc sa)).
Proof.
  split; intros;
    cbv [eval_condition r_cond r_cond_vars rule_merge_left_shift_fix rule_unmerge_left_shift_fix
         rule_merge_left_shift rule_unmerge_left_shift asg_merge asg_unmerge lookup_all lookup
         String.eqb Ascii.eqb Bool.eqb bind nth_w nth_error].
  - f_equal. destruct (N.ltb_spec (N.max wb wc) u32_max); [apply andb_true_r | lia].
  - rewrite checked32_fits by assumption. cbv [bind]. f_equal.
    destruct (eval_width_left_shift wa wb); [|congruence]. cbn [fits32]. rewrite andb_true_r.
    destruct (N.ltb_spec (N.max wb wc) wbc); destruct (N.leb_spec (N.max wb wc + 1) wbc); auto; lia.
Qed.
