(** * Proofs/SimplifyTermArith.v — arithmetic of the termination measure:
    the width-dependent coefficients, positivity, and the value of the measure on the
    smart constructors. *)
From Coq Require Import Lia.
From Patronus Require Import Simplify BVLemmas ExprLemmas EvalProofs BVRuleLemmas ExprEqb SimplifyBuilders
     SimplifyTermMeasure.
Open Scope N_scope.

(** ** coefficients *)
Lemma cP_ge8 w : 8 <= cP w.
Proof.
  unfold cP. rewrite N.pow_add_r. change (2 ^ 3) with 8.
  assert (1 <= 2 ^ w) by (apply N.lt_pred_le; apply N.neq_0_lt_0; apply N.pow_nonzero; lia). nia.
Qed.

Lemma cP_mono w w' : w <= w' -> cP w <= cP w'.
Proof. intros H. unfold cP. apply N.pow_le_mono_r; lia. Qed.

Lemma cP_1 : cP 1 = 16.
Proof. reflexivity. Qed.

Lemma cP_double w w' : w + 1 <= w' -> 2 * cP w <= cP w'.
Proof.
  intros H. unfold cP. replace (2 * 2 ^ (w + 3)) with (2 ^ (w + 1 + 3)).
  - apply N.pow_le_mono_r; lia.
  - replace (w + 1 + 3) with (N.succ (w + 3)) by lia. now rewrite N.pow_succ_r'.
Qed.

Lemma cP_ge16 w : 1 <= w -> 16 <= cP w.
Proof. intros H. pose proof (cP_double 0 w ltac:(lia)) as D. change (cP 0) with 8 in D. lia. Qed.

Lemma cE_ge1 w : 1 <= cE w.
Proof. unfold cE. apply N.lt_pred_le. apply N.neq_0_lt_0. apply N.pow_nonzero. lia. Qed.

Lemma cE_add a b : cE (a + b) = cE a * cE b.
Proof. unfold cE. apply N.pow_add_r. Qed.

Lemma cE_ge64 w : 1 <= w -> 64 <= cE w.
Proof.
  intros H. replace w with (1 + (w - 1)) by lia. rewrite cE_add. change (cE 1) with 64.
  pose proof (cE_ge1 (w - 1)). nia.
Qed.

Lemma cE_1 : cE 1 = 64.
Proof. reflexivity. Qed.

Lemma cP_eq w : cP w = 2 * 2 ^ (w + 2).
Proof. unfold cP. replace (w + 3) with (N.succ (w + 2)) by lia. now rewrite N.pow_succ_r'. Qed.

Global Opaque cP cE.

(** ** the measure is positive *)
Lemma mu_pos e : 1 <= mu e.
Proof.
  induction e; cbn [mu]; unfold mB, mE; try lia;
    try (pose proof (cP_ge8 w)); try (pose proof (cE_ge1 (width e1))); nia.
Qed.

(** ** the measure of the smart constructors *)
Lemma mu_mk_slice e hi lo : mu (mk_slice e hi lo) <= 2 * mu e.
Proof. unfold mk_slice. destruct ((lo =? 0) && (hi + 1 =? width e)); cbn [mu]; lia. Qed.

Lemma mu_mk_zext e by_ : mu (mk_zext e by_) <= mu e + 4.
Proof. unfold mk_zext. destruct (by_ =? 0); cbn [mu]; lia. Qed.

Lemma mu_mk_sext e by_ : mu (mk_sext e by_) <= mu e + 1.
Proof. unfold mk_sext. destruct (by_ =? 0); cbn [mu]; lia. Qed.

Lemma mu_mk_equal a b w : type_of a = TBV w -> mu (mk_equal a b) = mE w (mu a) (mu b).
Proof. intros T. unfold mk_equal. rewrite T. cbn [mu]. unfold width. now rewrite T. Qed.

Lemma mu_mk_ite c t f : mu (mk_ite c t f) <= 16 * (mu c + mu t + mu f) + 2.
Proof. unfold mk_ite. destruct (type_of t); cbn [mu]; lia. Qed.

Lemma type_of_mk_equal a b : type_of (mk_equal a b) = TBV 1.
Proof. unfold mk_equal. destruct (type_of a); reflexivity. Qed.

Lemma width_mk_equal a b : width (mk_equal a b) = 1.
Proof. unfold width. now rewrite type_of_mk_equal. Qed.

(** width of a slice built by [mk_slice] on a well-typed operand *)
Lemma width_mk_slice a wa hi lo : wt a = true -> type_of a = TBV wa -> hi < wa -> lo <= hi ->
  width (mk_slice a hi lo) = hi - lo + 1.
Proof.
  intros W T Hhi Hlo.
  pose proof (B_mk_slice a wa _ hi lo (B_of_wt a wa W T) Hhi Hlo) as HB.
  exact (B_width _ _ _ HB).
Qed.

(** monotonicity of the two non-linear interpretations *)
Lemma mB_mono w w' a a' b b' : w' <= w -> a' <= a -> b' <= b -> mB w' a' b' <= mB w a b.
Proof.
  intros Hw Ha Hb. unfold mB. apply N.add_le_mono_r. apply N.mul_le_mono; [now apply cP_mono|lia].
Qed.

Lemma mE_mono w a a' b b' : a' <= a -> b' <= b -> mE w a' b' <= mE w a b.
Proof. intros Ha Hb. unfold mE. apply N.mul_le_mono_l. lia. Qed.

Lemma mB_gt w a b : a + b + 1 <= mB w a b.
Proof. unfold mB. pose proof (cP_ge8 w). nia. Qed.

Lemma mE_ge w a b : a + b <= mE w a b.
Proof. unfold mE. pose proof (cE_ge1 w). nia. Qed.
