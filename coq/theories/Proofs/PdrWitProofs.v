(** * Proofs/PdrWitProofs.v — the witness a failing PDR run returns (Model/PdrWit.v) is a real
    counterexample.

    Part 1 (about Model/PdrImpl.v, no hypothesis on the oracle): a [VFail w] verdict carries the witness of
            the BMC fallback.
    Part 2: for the composed model the fallback is [bmc_model_full .. false false MAX_FRAMES] after a
            successful restart, so the C03 theorems about the full BMC model apply. *)
From Coq Require Import List Bool Lia.
From Patronus Require Import SysExec ReachSpec Witness Bmc BmcWit BmcWitFull PdrSys PdrImpl PdrWit
     Encoding EncodingOrder WitnessProofs ReachBmcProofs BmcProofs BmcWitProofs BmcWitFullProofs BmcFullExact PdrImplProofs PdrSysProofs.
Import ListNotations.

(** ** Part 1 *)
Section FailIsBmc.
  Variable lit : Type.
  Variable lit_eqb : lit -> lit -> bool.
  Variable St : Type.
  Variable cube_of_state : St -> list lit.
  Variables W EM : Type.
  Variable solve : nat -> PdrImpl.query lit -> PdrImpl.answer lit St EM.
  Variable cmd_fail : nat -> option EM.
  Variable n_init : nat.
  Variable gen_on has_bads : bool.
  Variable bmc_result : bmc_answer W EM.

  Lemma pdr_loop_fail_is_bmc bf : forall fuel st w st',
    pdr_loop lit lit_eqb St cube_of_state W EM solve cmd_fail gen_on bmc_result fuel bf st = @Ok _ _ _ _ (VFail W w, st') ->
    bmc_result = PdrImpl.BmcFail W EM w.
  Proof.
    induction fuel as [|fuel IH]; intros st w st' H; [discriminate H|].
    cbn [pdr_loop] in H.
    destruct (frontier lit St EM st <=? MAX_FRAMES)%nat; [|discriminate H].
    destruct (get_bad_cube lit St cube_of_state EM solve st) as [[ob st1]|e l|n|]; try discriminate H.
    destruct ob as [b|].
    - destruct (block_cube lit lit_eqb St cube_of_state EM solve cmd_fail gen_on bf st1 b (frontier_id lit St EM st1))
        as [[ok st2]|e l|n|]; try discriminate H.
      destruct ok.
      + exact (IH st2 w st' H).
      + destruct bmc_result as [w0| |e]; try discriminate H. inversion H; subst. reflexivity.
    - destruct (add_frame lit St EM cmd_fail st1) as [sta|e l|n|]; try discriminate H.
      destruct (propagate_blocked_cubes lit lit_eqb St cube_of_state EM solve cmd_fail gen_on sta) as [[fx st2]|e l|n|]; try discriminate H.
      destruct fx; [discriminate H|]. exact (IH st2 w st' H).
  Qed.

  Lemma pdr_fail_is_bmc fuel bf w st' :
    pdr lit lit_eqb St cube_of_state W EM solve cmd_fail n_init gen_on has_bads bmc_result fuel bf = @Ok _ _ _ _ (VFail W w, st') ->
    bmc_result = PdrImpl.BmcFail W EM w.
  Proof.
    unfold pdr. destruct has_bads; [|discriminate].
    destruct (cmds lit St EM cmd_fail n_init (init_state lit St EM)) as [st0|e l|n|]; try discriminate.
    apply pdr_loop_fail_is_bmc.
  Qed.
End FailIsBmc.

(** ** Part 2 *)
Section Composed.
  Variable EM : Type.
  Variables (sy : sys) (nm : expr -> string).
  Variable solve : nat -> PdrImpl.query slit -> PdrImpl.answer slit (sstate sy) EM.
  Variable cmd_fail : nat -> option EM.
  Variable n_init : nat.
  Variable gen_on : bool.
  Variable restart_fault : option EM.
  Variable sv : solver EM.

  (** Fail(w) of the composed model: the restart succeeded and the BMC run returned exactly [w] *)
  Lemma pdr_wit_fail fuel bf w st' :
    pdr_wit EM sy nm solve cmd_fail n_init gen_on restart_fault sv fuel bf = @Ok _ _ _ _ (VFail witness w, st') ->
    restart_fault = None /\ exists k, bmc_model_full EM sv sy nm false false MAX_FRAMES = FFail k w.
  Proof.
    unfold pdr_wit. destruct (pdr_raw EM sy nm solve cmd_fail n_init gen_on restart_fault sv fuel bf) as [[v st]|e l|n|] eqn:E; try discriminate.
    destruct v as [|ow|]; try discriminate. destruct ow as [w0|]; [|discriminate].
    intros H. inversion H; subst. clear H. unfold pdr_raw in E. apply pdr_fail_is_bmc in E.
    unfold fallback, fallback_bmc in E. destruct restart_fault; [discriminate|]. split; [reflexivity|].
    destruct (bmc_model_full EM sv sy nm false false MAX_FRAMES) as [| |k w1|e|]; try discriminate.
    inversion E; subst. now exists k.
  Qed.

  Hypothesis Hsound : solver_sound sv.
  Hypothesis Hwf : sys_wf sy = true.
  Hypothesis Hni : nodup_exprs (s_inputs sy) = true.
  Hypothesis Hn : names_ok (enc_new sy nm) = true.
  Hypothesis Hac : init_deps_acyclic sy.

  Theorem pdr_witness_is_execution fuel bf w st' :
    pdr_wit EM sy nm solve cmd_fail n_init gen_on restart_fault sv fuel bf = @Ok _ _ _ _ (VFail witness w, st') ->
    check_witness sy w = true /\ witness_ok sy w /\
    exists frees : list env,
      is_initial_r sy (witness_env0 sy w) /\
      length (w_inputs w) = S (length frees) /\ (length frees <= MAX_FRAMES)%nat /\
      forallb (constraints_hold sy) (run_from sy (witness_env0 sy w) frees) = true /\
      some_bad sy (last (run_from sy (witness_env0 sy w) frees) env0) = true /\
      bads_exactly sy (last (run_from sy (witness_env0 sy w) frees) env0) (w_failed w) = true.
  Proof.
    intros H. destruct (pdr_wit_fail fuel bf w st' H) as (_ & k & Hb).
    destruct (bmc_full_witness_ok EM sv Hsound sy nm MAX_FRAMES false false k w Hwf Hni Hn Hac Hb) as (Hck & j & -> & Hj & Hlen).
    destruct (accepted_is_execution sy w j Hwf Hni Hck Hlen) as (Hok & frees & H1 & H2 & H3 & H4 & H5).
    split; [assumption|]. split; [assumption|]. exists frees. rewrite H2. repeat split; assumption.
  Qed.

  (** the witness has the least possible length when the restarted solver's "unsat" answers are right *)
  Theorem pdr_witness_shortest fuel bf w st' : solver_unsat_right sv ->
    pdr_wit EM sy nm solve cmd_fail n_init gen_on restart_fault sv fuel bf = @Ok _ _ _ _ (VFail witness w, st') ->
    exists j, length (w_inputs w) = S j /\ (j <= MAX_FRAMES)%nat /\ reach_at sy j /\ forall m, (m < j)%nat -> ~ reach_at sy m.
  Proof.
    intros Hunsat H. destruct (pdr_wit_fail fuel bf w st' H) as (_ & k & Hb).
    destruct (bmc_full_witness_ok EM sv Hsound sy nm MAX_FRAMES false false k w Hwf Hni Hn Hac Hb) as (_ & j & -> & Hj & Hlen).
    destruct (bmc_full_witness_shortest EM sv Hsound Hunsat sy nm MAX_FRAMES false false _ w Hwf Hni Hn Hac Hb) as (j' & Hjj & _ & Hr & Hmin).
    apply Nnat.Nat2N.inj in Hjj. subst j'. exists j. repeat split; assumption.
  Qed.
End Composed.

(** ** Part 3: the fallback finds the witness.  When the PDR part gives up blocking, a bad state is reachable
    within the frontier depth <= MAX_FRAMES ([PdrImplProofs.pdr_model_unknown_only] / [PdrSysProofs.unsafe_exec],
    under a truthful PDR oracle); an exact BMC run up to MAX_FRAMES ([BmcFullExact]) then returns Fail. *)
Section FallbackFinds.
  Variable EM : Type.
  Variables (sy : sys) (nm : expr -> string).
  Variable solve : nat -> PdrImpl.query slit -> PdrImpl.answer slit (sstate sy) EM.
  Variable cmd_fail : nat -> option EM.
  Variable n_init : nat.
  Variable gen_on : bool.
  Variable sv : solver EM.
  Hypothesis Hcls : fin_class sy = true.
  Hypothesis Htr : forall n q, truthful slit slit_eqb (sstate sy) EM (slit_holds sy) (st_bad0 sy) (st_step0 sy) (st_trans sy) (st_bad sy)
                                        q (solve n q).
  Hypothesis Hsound : solver_sound sv.
  Hypothesis Hunsat : solver_unsat_right sv.
  Hypothesis Htotal : solver_total sv.
  Hypothesis Hwf : sys_wf sy = true.
  Hypothesis Hni : nodup_exprs (s_inputs sy) = true.
  Hypothesis Hn : names_ok (enc_new sy nm) = true.
  Hypothesis Hac : init_deps_acyclic sy.
  Hypothesis Hsig : forall k, (k <= MAX_FRAMES)%nat ->
    signals_at (enc_new sy nm) (s_constraints sy) (N.of_nat k) <> None /\
    signals_at (enc_new sy nm) (s_bads sy) (N.of_nat k) <> None.

  Lemma max_frames_ok : (MAX_FRAMES <= 2000)%nat.
  Proof. unfold MAX_FRAMES. repeat constructor. Qed.

  (** after a successful restart the fallback returns a witness or finds nothing because there is nothing *)
  Lemma fallback_cases :
    (exists w, fallback EM sy nm None sv = PdrImpl.BmcFail (option witness) EM (Some w)) \/
    (fallback EM sy nm None sv = BmcOther (option witness) EM /\ forall j, (j <= MAX_FRAMES)%nat -> ~ reach_at sy j).
  Proof.
    unfold fallback, fallback_bmc.
    assert (Hd : s_bads sy = [] \/ s_bads sy <> []) by (destruct (s_bads sy); [now left|right; discriminate]).
    destruct Hd as [Eb|Hb].
    - right. unfold bmc_model_full. rewrite Eb.
      assert (E : Nat.ltb 2000 MAX_FRAMES = false) by (apply PeanoNat.Nat.ltb_ge; exact max_frames_ok). rewrite E.
      split; [reflexivity|]. intros j _ (trace & _ & _ & Hbad). unfold some_bad in Hbad. rewrite Eb in Hbad. discriminate.
    - destruct (bmc_full_spec EM sv Hsound Hunsat Htotal sy nm Hwf Hni Hn Hac Hb MAX_FRAMES max_frames_ok Hsig false false)
        as [(j & w & E & _)|[(E & Hall)|(Hcc & _)]]; [| |discriminate Hcc].
      + left. exists w. now rewrite E.
      + right. rewrite E. split; [reflexivity|]. intros j Hj. apply (Hall j). lia.
  Qed.

  Lemma pdr_oracle_ok :
    oracle_ok slit slit_eqb (sstate sy) (scube sy) EM solve (has_bads_b sy) (slit_holds sy) (st_bad0 sy) (st_step0 sy) (st_trans sy) (st_bad sy).
  Proof.
    split; [exact (scube_unique sy)|]. split; [exact Htr|].
    unfold has_bads_b. intros Hb. apply no_bads_sys. destruct (s_bads sy); [reflexivity|discriminate Hb].
  Qed.

  (** Unknown only from the frame limit: when the restart succeeds, the fallback never comes back empty-handed *)
  Theorem pdr_fallback_finds_witness fuel bf st' :
    pdr_wit EM sy nm solve cmd_fail n_init gen_on None sv fuel bf = @Ok _ _ _ _ (VUnknown witness, st') ->
    (MAX_FRAMES < length (p_frames _ _ _ st'))%nat.
  Proof.
    unfold pdr_wit. destruct (pdr_raw EM sy nm solve cmd_fail n_init gen_on None sv fuel bf) as [[v st]|e l|n|] eqn:E; try discriminate.
    destruct v as [|ow|]; try discriminate; [destruct ow; discriminate|].
    intros H. inversion H; subst. clear H. unfold pdr_raw in E.
    destruct (pdr_model_unknown_only _ _ _ _ _ _ _ _ _ _ _ _ _ _ _ _ _ _ _ _ pdr_oracle_ok E) as [Hlim|(Hother & d & Hd & Hu)]; [exact Hlim|].
    exfalso. apply (unsafe_exec sy Hcls) in Hu. apply bad_within_reach in Hu. destruct Hu as (j & Hj & Hr).
    destruct fallback_cases as [(w & Hw)|(_ & Hno)].
    - rewrite Hw in Hother. discriminate.
    - apply (Hno j); [lia|assumption].
  Qed.

  (** ... and it neither fails nor panics: every verdict of the composed model that comes from the fallback is Fail *)
  Theorem pdr_fallback_definite :
    forall e, fallback EM sy nm None sv <> BmcErr (option witness) EM e /\
              fallback EM sy nm None sv <> PdrImpl.BmcFail (option witness) EM None.
  Proof.
    intros e. destruct fallback_cases as [(w & ->)|(-> & _)]; split; discriminate.
  Qed.
End FallbackFinds.
