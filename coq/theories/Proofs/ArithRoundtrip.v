(** * Proofs/ArithRoundtrip.v — [from_arith (to_arith e)] preserves width and value on the
    convertible fragment (operand extension chains of one kind), and does not on a mixed chain. *)
From Coq Require Import Lia ZArith.
From Patronus Require Import Arith BVLemmas ExprLemmas EvalProofs ArithLemmas ArithProofs.
Open Scope N_scope.

(** ** composition of sign extensions *)

Lemma sext_cong' w k x : 1 <= w -> x < 2 ^ w -> cong (w + k) (Z.of_N (bv_sext w k x)) (to_Z w x).
Proof.
  intros Hw Hx. pose proof (sext_cong w (w + k) x Hw ltac:(lia) Hx) as H.
  replace (w + k - w) with k in H by lia. exact H.
Qed.

Lemma sext_to_Z w k x : 1 <= w -> x < 2 ^ w -> to_Z (w + k) (bv_sext w k x) = to_Z w x.
Proof.
  intros Hw Hx.
  apply to_Z_unique; [lia | now apply bv_sext_bound | |].
  - pose proof (to_Z_range w x Hw Hx) as Hr.
    pose proof (P_le (w - 1) (w + k - 1) ltac:(lia)) as Hp. lia.
  - now apply sext_cong'.
Qed.

Lemma sext_compose w k1 k2 x : 1 <= w -> x < 2 ^ w ->
  bv_sext (w + k1) k2 (bv_sext w k1 x) = bv_sext w (k1 + k2) x.
Proof.
  intros Hw Hx.
  pose proof (bv_sext_bound w k1 x Hx) as Hb1.
  apply (cong_eq (w + k1 + k2)).
  - now apply bv_sext_bound.
  - rewrite <- N.add_assoc. now apply bv_sext_bound.
  - eapply cong_trans.
    + apply sext_cong'; [lia | exact Hb1].
    + rewrite sext_to_Z by assumption. apply cong_sym.
      rewrite <- N.add_assoc. now apply sext_cong'.
Qed.

Lemma sext_zero w x : bv_sext w 0 x = x.
Proof. unfold bv_sext. destruct (msb w x); cbn; lia. Qed.

(** ** stripping extensions *)

Lemma wt_strip e : wt e = true -> wt (strip e) = true.
Proof.
  induction e; intros H; cbn [strip]; auto.
  - apply wt_zext in H. now apply IHe.
  - apply wt_sext in H. now apply IHe.
Qed.

Lemma strip_width_le e : forall w w0, wt e = true -> type_of e = TBV w -> type_of (strip e) = TBV w0 ->
  w0 <= w.
Proof.
  induction e; intros w' w0 Hwt Ht Hs; cbn [strip] in Hs;
    try (rewrite Ht in Hs; injection Hs as Hs; lia).
  - apply wt_zext in Hwt. destruct Hwt as (Hwa & Hta & Hlt). cbn [type_of] in Ht. injection Ht as Ht.
    subst. specialize (IHe _ _ Hwa Hta Hs). lia.
  - apply wt_sext in Hwt. destruct Hwt as (Hwa & Hta & Hlt). cbn [type_of] in Ht. injection Ht as Ht.
    subst. specialize (IHe _ _ Hwa Hta Hs). lia.
Qed.

Section Chains.
  Variable rho : env.
  Hypothesis Hrho : env_wf rho.

  Lemma all_zext_value e : all_zext e = true -> ebv rho e = ebv rho (strip e).
  Proof.
    induction e; intros H; cbn [all_zext] in H; try discriminate; cbn [strip ebv]; auto.
  Qed.

  Lemma all_sext_value e : forall w w0, all_sext e = true -> wt e = true -> type_of e = TBV w ->
    type_of (strip e) = TBV w0 -> 1 <= w0 ->
    ebv rho e = bv_sext w0 (w - w0) (ebv rho (strip e)).
  Proof.
    induction e; intros w' w0 Ha Hwt Ht Hs Hw0; cbn [all_sext] in Ha; try discriminate;
      cbn [strip] in *;
      try (rewrite Ht in Hs; injection Hs as Hs; subst; rewrite N.sub_diag, sext_zero; reflexivity).
    (* BVSignExt *)
    apply wt_sext in Hwt. destruct Hwt as (Hwa & Hta & Hlt). cbn [type_of] in Ht. injection Ht as Ht. subst w'.
    cbn [ebv]. unfold width. rewrite Hta.
    rewrite (IHe _ _ Ha Hwa Hta Hs Hw0).
    pose proof (strip_width_le e _ _ Hwa Hta Hs) as Hle.
    assert (Hb : ebv rho (strip e) < 2 ^ w0) by (apply ebv_bound; auto using wt_strip).
    replace (w - by_) with (w0 + (w - by_ - w0)) at 1 by lia.
    rewrite sext_compose by assumption. f_equal. lia.
  Qed.

  (** the value of an operand whose chain of extensions is of one kind: the stripped operand
      extended once, by the outermost kind *)
  Lemma chain_value a w w0 : wt a = true -> uniform_ext a = true -> type_of a = TBV w ->
    type_of (strip a) = TBV w0 -> 1 <= w0 ->
    ebv rho a = extv (ext_sign a) w0 w (ebv rho (strip a)).
  Proof.
    intros Hwt Hu Ht Hs Hw0.
    destruct a; cbn [uniform_ext] in Hu; cbn [ext_sign extv strip] in *; try reflexivity.
    - (* zext *) cbn [ebv]. unfold bv_zext. now apply all_zext_value.
    - (* sext *) exact (all_sext_value (BVSignExt a by_ w1) w w0 Hu Hwt Ht Hs Hw0).
  Qed.
End Chains.

(** ** the round trip, by induction on the expression *)

(** what the induction carries for [e] in operand position: [conv e] is the conversion of the
    stripped operand; lowered at the stripped operand's width it gives an expression with the
    type and value of the stripped operand *)
Definition rt_ok (e : expr) : Prop :=
  exists t e2 w0, conv e = Ok t /\ type_of (strip e) = TBV w0 /\ 1 <= w0 <= u32_max /\
    (forall ew, is_binop_root (strip e) = true \/ ew = w0 -> from_arith ew t = Ok e2) /\
    type_of e2 = TBV w0 /\ wt e2 = true /\
    forall rho, env_wf rho -> ebv rho e2 = ebv rho (strip e).

Lemma wt_mk_op_inv op a b w : wt (mk_op op a b w) = true ->
  wt a = true /\ wt b = true /\ type_of a = TBV w /\ type_of b = TBV w.
Proof.
  destruct op; cbn [mk_op]; intros H.
  - now apply wt_add in H.
  - now apply wt_sub in H.
  - now apply wt_mul in H.
  - now apply wt_shl in H.
  - now apply wt_lshr in H.
  - now apply wt_ashr in H.
Qed.

Lemma strip_mk_op op a b w : strip (mk_op op a b w) = mk_op op a b w.
Proof. destruct op; reflexivity. Qed.

Lemma binop_root_mk_op op a b w : is_binop_root (mk_op op a b w) = true.
Proof. destruct op; reflexivity. Qed.

Lemma conv_mk_op op a b w : conv (mk_op op a b w) = convert_bin_op op a b w (conv a) (conv b).
Proof. destruct op; reflexivity. Qed.

Lemma frag_mk_op f op a b w :
  frag f (mk_op op a b w) = (w <=? u32_max) && f a && f b && frag f a && frag f b.
Proof. destruct op; reflexivity. Qed.

Lemma rt_binop_case op a b w :
  (wt a = true -> frag uniform_ext a = true -> rt_ok a) ->
  (wt b = true -> frag uniform_ext b = true -> rt_ok b) ->
  wt (mk_op op a b w) = true -> frag uniform_ext (mk_op op a b w) = true ->
  rt_ok (mk_op op a b w).
Proof.
  intros IHa IHb Hwt Hfr.
  destruct (wt_mk_op_inv op a b w Hwt) as (Hwa & Hwb & Hta & Htb).
  rewrite frag_mk_op in Hfr. repeat rewrite andb_true_iff in Hfr.
  destruct Hfr as ((((Hw32 & Hua) & Hub) & Hfa) & Hfb). apply N.leb_le in Hw32.
  destruct (IHa Hwa Hfa) as (ta & ea2 & wa0 & Hca & Hsa & [Ha1 Ha2] & Hla & Htea & Hwea & Hva).
  destruct (IHb Hwb Hfb) as (tb & eb2 & wb0 & Hcb & Hsb & [Hb1 Hb2] & Hlb & Hteb & Hweb & Hvb).
  pose proof (strip_width_le a _ _ Hwa Hta Hsa) as Hlea.
  pose proof (strip_width_le b _ _ Hwb Htb Hsb) as Hleb.
  assert (Hw1 : 1 <= w) by lia.
  set (sa := ext_sign a). set (sb := ext_sign b).
  destruct (node_ok_lowered op (AWidth w) w (AWidth wa0) wa0 sa ta (AWidth wb0) wb0 sb tb ea2 eb2 0)
    as (_ & Hte & Hwe & Hve); auto using wterm_const.
  exists (ABin op (AWidth w) (AWidth wa0) (ASign sa) ta (AWidth wb0) (ASign sb) tb),
         (bin_expr op w wa0 sa ea2 wb0 sb eb2), w.
  rewrite strip_mk_op, type_of_mk_op, binop_root_mk_op.
  split.
  { rewrite conv_mk_op. unfold convert_bin_op. rewrite Hca, Hcb. cbn [bind].
    rewrite Hsa, Hsb, Hta, Htb, N.eqb_refl. reflexivity. }
  split; [reflexivity|]. split; [lia|]. split.
  { intros ew _.
    destruct (node_ok_lowered op (AWidth w) w (AWidth wa0) wa0 sa ta (AWidth wb0) wb0 sb tb ea2 eb2 ew)
      as (Hf & _); auto using wterm_const. }
  split; [exact Hte|]. split; [exact Hwe|].
  intros rho Hrho. destruct (Hve rho Hrho) as [Ev _]. rewrite Ev, (Hva rho Hrho), (Hvb rho Hrho).
  rewrite ebv_mk_op.
  rewrite (chain_value rho Hrho a w wa0 Hwa Hua Hta Hsa Ha1).
  rewrite (chain_value rho Hrho b w wb0 Hwb Hub Htb Hsb Hb1).
  fold sa sb. unfold den_bin. replace (N.max (N.max wa0 wb0) w) with w by lia.
  unfold trunc. apply N.mod_small. apply op_val_bound. apply extv_bound; [exact Hlea|].
  apply ebv_bound; auto using wt_strip.
Qed.

Lemma rt_main e : wt e = true -> frag uniform_ext e = true -> rt_ok e.
Proof.
  induction e; intros Hwt Hfr; try (cbn [frag] in Hfr; discriminate).
  - (* symbol *)
    cbn [frag] in Hfr. apply N.leb_le in Hfr. pose proof (wt_sym _ _ Hwt) as Hpos.
    exists (ASymbol name), (BVSymbol name w), w. cbn [conv strip type_of is_binop_root].
    repeat split; auto; try lia.
    intros ew [Hf | He]; [discriminate|]. subst ew. cbn [from_arith].
    destruct (N.eqb_spec w 0); [lia | reflexivity].
  - (* zext *) apply wt_zext in Hwt. destruct Hwt as (Hwa & _ & _). exact (IHe Hwa Hfr).
  - (* sext *) apply wt_sext in Hwt. destruct Hwt as (Hwa & _ & _). exact (IHe Hwa Hfr).
  - exact (rt_binop_case OShl _ _ _ IHe1 IHe2 Hwt Hfr).
  - exact (rt_binop_case OAshr _ _ _ IHe1 IHe2 Hwt Hfr).
  - exact (rt_binop_case OLshr _ _ _ IHe1 IHe2 Hwt Hfr).
  - exact (rt_binop_case OAdd _ _ _ IHe1 IHe2 Hwt Hfr).
  - exact (rt_binop_case OMul _ _ _ IHe1 IHe2 Hwt Hfr).
  - exact (rt_binop_case OSub _ _ _ IHe1 IHe2 Hwt Hfr).
Qed.

(** the round trip preserves width and value on the convertible fragment *)
Lemma arith_roundtrip_lemma : forall e, wt e = true -> convertible e = true ->
  exists e', roundtrip e = Ok e' /\ wt e' = true /\ type_of e' = type_of e /\
    forall rho, env_wf rho -> ebv rho e' = ebv rho e.
Proof.
  intros e Hwt Hc. unfold convertible in Hc. apply andb_true_iff in Hc. destruct Hc as [Hroot Hfr].
  destruct (rt_main e Hwt Hfr) as (t & e2 & w0 & Hconv & Hs & _ & Hl & Hte & Hwe & Hv).
  assert (Hstrip : strip e = e) by (destruct e; cbn [is_binop_root] in Hroot; try discriminate; reflexivity).
  assert (Hto : to_arith e = conv e) by (destruct e; cbn [is_binop_root] in Hroot; try discriminate; reflexivity).
  rewrite Hstrip in *. exists e2. unfold roundtrip. rewrite Hto, Hconv. cbn [bind].
  split; [apply Hl; left; exact Hroot|]. split; [exact Hwe|]. split; [congruence | exact Hv].
Qed.

(** at most one extension per operand is a special case *)
Lemma one_ext_uniform e : one_ext e = true -> uniform_ext e = true.
Proof.
  intros H. destruct e; cbn [one_ext uniform_ext] in *; auto;
    destruct e; cbn [all_zext all_sext]; auto; discriminate.
Qed.

Lemma frag_mono (f g : expr -> bool) : (forall e, f e = true -> g e = true) ->
  forall e, frag f e = true -> frag g e = true.
Proof.
  intros Hfg. induction e; cbn [frag]; auto; intros H;
    repeat rewrite andb_true_iff in H; destruct H as ((((H1 & H2) & H3) & H4) & H5);
    repeat rewrite andb_true_iff; auto 10.
Qed.

Lemma arith_roundtrip_one_ext_lemma : forall e, wt e = true -> convertible_one_ext e = true ->
  exists e', roundtrip e = Ok e' /\ wt e' = true /\ type_of e' = type_of e /\
    forall rho, env_wf rho -> ebv rho e' = ebv rho e.
Proof.
  intros e Hwt Hc. apply arith_roundtrip_lemma; auto.
  unfold convertible_one_ext in Hc. unfold convertible. apply andb_true_iff in Hc.
  destruct Hc as [Hr Hf]. rewrite Hr. cbn [andb]. revert Hf. apply frag_mono. exact one_ext_uniform.
Qed.

(** ... and not on a mixed chain: [add(zext(sext(x:2, 2), 3), y:7)] with x = 0b10, y = 0 *)
Definition rt_cex : expr :=
  BVAdd (BVZeroExt (BVSignExt (BVSymbol "x" 2) 2 4) 3 7) (BVSymbol "y" 7) 7.
Definition rt_cex_env : env :=
  {| rho_bv := fun n w => if (String.eqb n "x" && (w =? 2))%bool then 2 else 0;
     rho_arr := fun _ _ _ _ => 0 |}.

Lemma arith_roundtrip_nested_refuted_lemma :
  exists e rho, wt e = true /\ convertible_shape e = true /\ env_wf rho /\
    exists e', roundtrip e = Ok e' /\ ebv rho e' <> ebv rho e.
Proof.
  exists rt_cex, rt_cex_env. split; [reflexivity|]. split; [reflexivity|]. split.
  - split.
    + intros n w. cbn [rt_cex_env rho_bv]. destruct (String.eqb n "x" && (w =? 2))%bool eqn:E.
      * apply andb_true_iff in E. destruct E as [_ E]. apply N.eqb_eq in E. subst w. reflexivity.
      * apply pow2_pos.
    + intros n iw dw i. apply pow2_pos.
  - eexists. split; [vm_compute; reflexivity|]. vm_compute. discriminate.
Qed.

(** conversions the implementation does not support are panics of the model, not silent
    defaults: a literal operand, a root that is a symbol, a root that is an extension *)
Lemma to_arith_unsupported_lemma :
  to_arith (BVAdd (BVLiteral 4 3) (BVSymbol "y" 4) 4) = Panic /\
  roundtrip (BVSymbol "y" 4) = Panic /\
  to_arith (BVZeroExt (BVAdd (BVSymbol "x" 4) (BVSymbol "y" 4) 4) 2 6) = Panic.
Proof. repeat split. Qed.
