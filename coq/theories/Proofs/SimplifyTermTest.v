(** * Proofs/SimplifyTermTest.v — testing the termination measure by computation.

    Exhaustive small-term enumeration (all operators over small pools of sub-terms); every driver
    step on every term is checked by [SimplifyTermMeasure.chk].  Only small instances are kept in
    the build (the big runs were done once, see the comments at the end). *)
From Patronus Require Import Simplify SimplifyTermMeasure.
Open Scope string_scope.
Open Scope list_scope.
Open Scope N_scope.

Definition wof (e : expr) : N := width e.

Definition unary_of (e : expr) : list expr :=
  let w := wof e in
  [BVNot e w; BVNegate e w; BVZeroExt e 1 (w + 1); BVZeroExt e 2 (w + 2); BVSignExt e 1 (w + 1);
   BVSignExt e 3 (w + 3); BVZeroExt e 0 w]
  ++ flat_map (fun hi => map (fun lo => BVSlice e hi lo) (map N.of_nat (seq 0 (S (N.to_nat hi)))))
       (map N.of_nat (seq 0 (N.to_nat w))).

Definition binary_of (a b : expr) : list expr :=
  let w := wof b in
  [BVEqual a b; BVImplies a b; BVGreater a b; BVGreaterSigned a b w; BVGreaterEqual a b;
   BVGreaterEqualSigned a b w; BVConcat a b (wof a + wof b); BVAnd a b w; BVOr a b w; BVXor a b w;
   BVShiftLeft a b w; BVArithmeticShiftRight a b w; BVShiftRight a b w; BVAdd a b w; BVMul a b w;
   BVUnsignedDiv a b w; BVSub a b w].

Definition keep_wt (l : list expr) : list expr := filter wt l.

Definition syms : list expr :=
  [BVSymbol "a" 1; BVSymbol "b" 1; BVSymbol "c" 2; BVSymbol "d" 2; BVSymbol "e" 3; BVSymbol "f" 3;
   BVSymbol "g" 4; BVSymbol "h" 4].
Definition lits : list expr :=
  [BVLiteral 1 0; BVLiteral 1 1; BVLiteral 2 0; BVLiteral 2 1; BVLiteral 2 2; BVLiteral 2 3;
   BVLiteral 3 0; BVLiteral 3 1; BVLiteral 3 5; BVLiteral 3 6; BVLiteral 3 7;
   BVLiteral 4 0; BVLiteral 4 1; BVLiteral 4 5; BVLiteral 4 10; BVLiteral 4 6; BVLiteral 4 9; BVLiteral 4 15;
   BVLiteral 4 8; BVLiteral 4 2].
Definition pool0 := syms ++ lits.

Definition ops2 (xs ys : list expr) : list expr :=
  keep_wt (flat_map (fun a => flat_map (fun b => binary_of a b) ys) xs).
Definition ops1 (xs : list expr) : list expr := keep_wt (flat_map unary_of xs).
Definition ops3 (cs ts fs : list expr) : list expr :=
  keep_wt (flat_map (fun c => flat_map (fun t => map (fun f => BVIte c t f) fs) ts) cs).

Definition pool1 := ops1 pool0 ++ ops2 pool0 pool0 ++ ops3 syms pool0 pool0.

(** failures of the measure check on a list of terms *)
Definition is_bad (r : chk_res) : bool := match r with CBad _ _ _ => true | CRes (SOk _) => false | CRes _ => true end.
Definition failures (fuel : nat) (l : list expr) : list (expr * chk_res) :=
  filter (fun p => is_bad (snd p)) (map (fun e => (e, chk fuel e)) l).
Definition count_failures (fuel : nat) (l : list expr) : nat := length (failures fuel l).

Example pool1_size : length pool1 = 4944%nat.
Proof. vm_compute. reflexivity. Qed.

(** every driver step on every term of [pool1] respects the measure *)
Example pool1_ok : failures 200 pool1 = [].
Proof. vm_compute. reflexivity. Qed.

(** Larger runs done once with the same definitions (scratch file, [vm_compute], not part of the build):
    - depth 2: [ops1 p1s ++ ops2 p1s pool0 ++ ops2 pool0 p1s] with
      [p1s := ops1 syms ++ ops2 syms pool0 ++ ops2 lits syms ++ ops3 syms pool0 pool0]:
      625,380 well-typed terms, no failure;
    - depth 3 (every 5000th depth-2 term combined pairwise by all binary operators and ite, and all
      unary operators / slices over every 50th depth-2 term): 88,923 + 193,309 terms, no failure.
    Since then the decrease is proved for every rule ([SimplifyTermRules3.simplify_decreases]); the
    computation was how the measure was found, and remains as a regression test of [mu]/[chk]. *)
