(** * Proofs/SimplifyTerm.v — termination of the simplifier's fixed-point driver (model).

    Main results:
    - [simp_fuel_mono_res]: once [simp] returns something else than [SFuel], more fuel returns the same;
    - [simp_fuel_bound], [simp_total]: on a well-typed expression, with fuel (recursion depth)
      [2 * mu e] or more, [simp] returns [SPanic] or [SOk r] with [mu r <= mu e];
    - [simp_terminates]: forall well-typed [e], exists [n], [simp n e <> SFuel].

    The proof is a well-founded induction on the measure [mu] of SimplifyTermMeasure.v:
    sub-terms are strictly smaller ([mu_child]), replacing children by same-typed children of smaller
    or equal measure does not increase it ([rebuild_mu]), and every fired rule strictly decreases it
    ([SimplifyTermRules3.simplify_decreases]).  When no rule fires the driver restarts on the rebuilt
    node, whose children are already fixed points ([SimplifyFix.simp_idempotent_lemma]). *)
From Coq Require Import Lia.
From Patronus Require Import Simplify BVLemmas ExprLemmas EvalProofs BVRuleLemmas ExprEqb SimplifyBuilders
     SimplifyProofs SimplifyFix SimplifyTermMeasure SimplifyTermArith SimplifyTermRules1 SimplifyTermRules3.
Open Scope N_scope.

(** ** fuel monotonicity for every definite result (not only [SOk]) *)
Lemma simp_children_mono_res (f g : expr -> sres) cs x :
  (forall c r, In c cs -> f c = r -> r <> SFuel -> g c = r) ->
  simp_children f cs = x -> x <> inl SFuel -> simp_children g cs = x.
Proof.
  revert x. induction cs as [|c rest IH]; intros x H Hs Hx; cbn [simp_children] in *; [exact Hs|].
  destruct (f c) as [c'| |] eqn:Ec.
  - rewrite (H c (SOk c') (or_introl eq_refl) Ec) by discriminate.
    destruct (simp_children f rest) as [err|rest'] eqn:Er.
    + rewrite (IH (inl err)); [exact Hs| |reflexivity|].
      * intros y r Hy. apply H. now right.
      * subst x. exact Hx.
    + rewrite (IH (inr rest')); [exact Hs| |reflexivity|discriminate].
      intros y r Hy. apply H. now right.
  - rewrite (H c SPanic (or_introl eq_refl) Ec) by discriminate. exact Hs.
  - subst x. now elim Hx.
Qed.

Theorem simp_fuel_mono_res : forall n e r, simp n e = r -> r <> SFuel -> forall m, (n <= m)%nat -> simp m e = r.
Proof.
  induction n as [|f IH]; intros e r Hs Hr m Hm; [cbn in Hs; subst r; now elim Hr|].
  destruct m as [|g]; [lia|]. cbn [simp] in *.
  assert (Hc : simp_children (simp f) (children e) <> inl SFuel).
  { intros E. rewrite E in Hs. subst r. now elim Hr. }
  rewrite (simp_children_mono_res (simp f) (simp g) _ _ ltac:(intros c r0 _ Hc0 Hr0; apply (IH _ _ Hc0 Hr0); lia)
             eq_refl Hc).
  destruct (simp_children (simp f) (children e)) as [err|cs]; [exact Hs|].
  destruct (simplify e cs) as [[r0|]|]; try exact Hs.
  - destruct (expr_eqb r0 e); [exact Hs|]. apply (IH _ _ Hs Hr). lia.
  - destruct (list_eqb cs (children e)); [exact Hs|]. apply (IH _ _ Hs Hr). lia.
Qed.

(** ** sub-terms are strictly smaller *)
Lemma mu_child e c : In c (children e) -> mu c < mu e.
Proof.
  destruct e; cbn [children In]; intros H; repeat (destruct H as [<-|H]); try contradiction;
    cbn [mu]; unfold mB, mE; pose_mu_pos;
    try (pose proof (cP_ge8 w)); try (pose proof (cE_ge1 (width e1))); nia.
Qed.

(** ** replacing children by same-typed, not larger children *)
Definition le_rw (c c' : expr) : Prop := type_of c' = type_of c /\ mu c' <= mu c.

Lemma le_rw_width c c' : le_rw c c' -> width c' = width c.
Proof. intros [T _]. unfold width. now rewrite T. Qed.

Lemma rebuild_mu e cs : Forall2 le_rw (children e) cs -> mu (rebuild e cs) <= mu e.
Proof.
  intros Hcs.
  destruct e; cbn [children] in Hcs;
    repeat match goal with
           | H : Forall2 _ (_ :: _) _ |- _ => inversion H; subst; clear H
           | H : Forall2 _ [] _ |- _ => inversion H; subst; clear H
           end;
    cbn [rebuild mu]; try lia;
    repeat match goal with
           | H : le_rw _ _ |- _ =>
               let W := fresh "W" in let T := fresh "T" in let M := fresh "M" in
               pose proof (le_rw_width _ _ H) as W; destruct H as [T M]
           end;
    try lia;
    try (apply mB_mono; lia);
    try (apply N.add_le_mono_r; apply mB_mono; lia).
  - (* equal *) match goal with W : width _ = width e1 |- _ => rewrite W end. now apply mE_mono.
  - (* uge *) match goal with W : width _ = width e1 |- _ => rewrite W end.
    apply N.add_le_mono_r. now apply mE_mono.
Qed.

(** ** one driver step, in the form the driver uses it: the node [e], its simplified children [cs] *)
Corollary simplify_decreases_cs e cs r : wt e = true -> Forall2 ok_rw (children e) cs ->
  simplify e cs = Ok (Some r) -> ok_rw e r /\ mu r < mu (rebuild e cs).
Proof.
  intros Hwt Hok Hs. destruct (rebuild_ok e cs Hwt Hok) as (Hrb & Hchild & Hsimp).
  assert (Hs' : simplify (rebuild e cs) (children (rebuild e cs)) = Ok (Some r)) by (rewrite Hchild; congruence).
  split.
  - eapply ok_rw_trans; [exact Hrb|]. now apply simplify_sound; [apply Hrb|].
  - now apply simplify_decreases; [apply Hrb|].
Qed.

(** ** children *)
Definition total_at (n : nat) (c : expr) : Prop :=
  simp n c = SPanic \/ exists r, simp n c = SOk r /\ mu r <= mu c.

Lemma children_total n l : (forall c, In c l -> total_at n c) ->
  simp_children (simp n) l = inl SPanic \/
  exists cs, simp_children (simp n) l = inr cs /\ Forall2 (fun c c' => mu c' <= mu c) l cs.
Proof.
  induction l as [|c rest IH]; intros H.
  - right. exists []. split; [reflexivity|constructor].
  - cbn [simp_children]. destruct (H c (or_introl eq_refl)) as [H1|(c' & H1 & M1)]; rewrite H1; [now left|].
    destruct (IH (fun x Hx => H x (or_intror Hx))) as [H2|(cs & H2 & M2)]; rewrite H2; [now left|].
    right. exists (c' :: cs). split; [reflexivity|]. now constructor.
Qed.

Lemma simp_children_each (f : expr -> sres) cs cs' :
  simp_children f cs = inr cs' -> Forall2 (fun c c' => f c = SOk c') cs cs'.
Proof.
  revert cs'. induction cs as [|c rest IH]; intros cs' Hs; cbn [simp_children] in Hs.
  - inversion Hs. constructor.
  - destruct (f c) as [c'| |] eqn:Ec; try discriminate.
    destruct (simp_children f rest) as [err|rest'] eqn:Er; [discriminate|].
    inversion Hs; subst cs'. constructor; [exact Ec|now apply IH].
Qed.

Lemma simp_children_fixed n cs : Forall (fun c' => simp n c' = SOk c') cs -> simp_children (simp n) cs = inr cs.
Proof.
  induction cs as [|c rest IH]; intros H; cbn [simp_children]; [reflexivity|].
  inversion H; subst. rewrite H2, IH by assumption. reflexivity.
Qed.

Lemma list_eqb_refl l : list_eqb l l = true.
Proof. induction l as [|x l IH]; cbn [list_eqb]; [reflexivity|]. now rewrite expr_eqb_refl, IH. Qed.

Lemma total_at_mono n m c : total_at n c -> (n <= m)%nat -> total_at m c.
Proof.
  intros [H|(r & H & M)] Hm; [left|right; exists r; split; [|exact M]];
    apply (simp_fuel_mono_res _ _ _ H); try discriminate; exact Hm.
Qed.

(** ** the driver: recursion depth [2 * k] suffices when [mu e <= k] *)
Lemma simp_total_aux : forall k e, (N.to_nat (mu e) <= k)%nat -> wt e = true -> total_at (2 * k) e.
Proof.
  induction k as [|k IH]; intros e Hk Hwt; [pose proof (mu_pos e); lia|].
  replace (2 * S k)%nat with (S (S (2 * k))) by lia. set (n := (2 * k)%nat) in *.
  (* children *)
  assert (Hch : forall c, In c (children e) -> total_at n c).
  { intros c Hc. apply IH.
    - pose proof (mu_child e c Hc). lia.
    - pose proof (wt_children e Hwt) as Hall. rewrite Forall_forall in Hall. now apply Hall. }
  destruct (children_total _ _ Hch) as [Hp|(cs & Hcs & Hmu)].
  { apply (total_at_mono (S n)); [|lia]. left. cbn [simp]. now rewrite Hp. }
  assert (Hok : Forall2 ok_rw (children e) cs).
  { apply (simp_children_ok (simp n)); [|exact Hcs]. intros c c' Hin Hc. apply (simp_sound_lemma n); [|exact Hc].
    pose proof (wt_children e Hwt) as Hall. rewrite Forall_forall in Hall. now apply Hall. }
  assert (Hle : Forall2 le_rw (children e) cs).
  { clear - Hok Hmu. revert Hmu. induction Hok as [|c c' l l' (_ & T & _) _ IHl]; intros Hmu; [constructor|].
    inversion Hmu; subst. constructor; [now split|now apply IHl]. }
  destruct (rebuild_ok e cs Hwt Hok) as (Hrb & Hchild & Hsimp).
  pose proof (rebuild_mu e cs Hle) as Hrm.
  destruct (simplify e cs) as [[r0|]|] eqn:Es.
  - (* a rule fired *)
    apply (total_at_mono (S n)); [|lia].
    destruct (expr_eqb r0 e) eqn:Ee.
    { right. exists e. split; [|lia]. cbn [simp]. now rewrite Hcs, Es, Ee. }
    assert (Hs' : simplify (rebuild e cs) (children (rebuild e cs)) = Ok (Some r0)) by (rewrite Hchild; congruence).
    pose proof (simplify_decreases _ _ (proj1 Hrb) Hs') as Hdec.
    pose proof (simplify_sound _ _ (proj1 Hrb) Hs') as Hr0.
    destruct (IH r0 ltac:(lia) (proj1 Hr0)) as [Hn'|(r & Hn' & Mr)]; fold n in Hn'.
    + left. cbn [simp]. now rewrite Hcs, Es, Ee.
    + right. exists r. split; [|lia]. cbn [simp]. now rewrite Hcs, Es, Ee.
  - (* no rule *)
    destruct (list_eqb cs (children e)) eqn:El.
    { apply (total_at_mono (S n)); [|lia]. right. exists e. split; [|lia]. cbn [simp]. now rewrite Hcs, Es, El. }
    (* the rebuilt node: its children are fixed points, no rule fires on it either; one more level *)
    assert (Hfix : Forall (fun c' => simp n c' = SOk c') cs).
    { pose proof (simp_children_each _ _ _ Hcs) as He. clear - He.
      induction He as [|c c' l l' Hc _ IHl]; constructor; [|exact IHl].
      destruct (simp_idempotent_lemma _ _ _ Hc) as (m & Hm & Hr). now apply (simp_fuel_mono _ _ _ Hr). }
    right. exists (rebuild e cs). split; [|exact Hrm].
    assert (Hcs' : simp_children (simp (S n)) (children e) = inr cs).
    { apply (simp_children_mono_res (simp n)); [|exact Hcs|discriminate].
      intros c r1 _ Hc1 Hr1. apply (simp_fuel_mono_res _ _ _ Hc1 Hr1). lia. }
    cbn [simp]. cbn [simp] in Hcs'. rewrite Hcs', Es, El.
    rewrite Hchild, (simp_children_fixed n cs Hfix), <- Hsimp, list_eqb_refl. reflexivity.
  - (* the rule panicked *)
    apply (total_at_mono (S n)); [|lia]. left. cbn [simp]. now rewrite Hcs, Es.
Qed.

(** the recursion depth [2 * mu e] always suffices (a crude bound: [mu] is exponential in the bit widths) *)
Theorem simp_fuel_bound e : wt e = true ->
  forall n, (2 * N.to_nat (mu e) <= n)%nat ->
  simp n e = SPanic \/ exists r, simp n e = SOk r /\ mu r <= mu e.
Proof.
  intros Hwt n Hn. exact (total_at_mono _ n e (simp_total_aux (N.to_nat (mu e)) e (Nat.le_refl _) Hwt) Hn).
Qed.

Theorem simp_total e : wt e = true ->
  exists n, simp n e = SPanic \/ exists r, simp n e = SOk r /\ mu r <= mu e.
Proof. intros Hwt. exists (2 * N.to_nat (mu e))%nat. now apply simp_fuel_bound. Qed.

(** C13, first clause: simplifying a well-typed expression terminates *)
Theorem simp_terminates : forall e, wt e = true -> exists n, simp n e <> SFuel.
Proof.
  intros e Hwt. destruct (simp_total e Hwt) as (n & [H|(r & H & _)]); exists n; rewrite H; discriminate.
Qed.

(** with the soundness theorem: a well-typed expression has a well-typed, equivalent normal form
    (a fixed point of the driver), unless a rule panics *)
Corollary simp_normal_form e : wt e = true ->
  exists n, simp n e = SPanic \/
            exists r, simp n e = SOk r /\ ok_rw e r /\ mu r <= mu e /\ exists m, simp m r = SOk r.
Proof.
  intros Hwt. destruct (simp_total e Hwt) as (n & [H|(r & H & M)]); exists n; [now left|right].
  exists r. split; [exact H|]. split; [now apply (simp_sound_lemma n)|]. split; [exact M|].
  destruct (simp_idempotent_lemma _ _ _ H) as (m & _ & Hm). now exists m.
Qed.

(** the hypothesis is satisfiable, and the statement is not vacuous on an expression that exercises the
    size-increasing rules (mask expansion, shift by a constant, slice push-down, concat re-association) *)
Example simp_terminates_example :
  let x := BVSymbol "x" 8 in
  let e := BVEqual (BVAnd (BVShiftLeft x (BVLiteral 8 3) 8) (BVLiteral 8 0x5A) 8)
                   (BVConcat (BVSlice x 7 4) (BVNot (BVSlice x 3 0) 4) 8) in
  wt e = true /\ (exists r, simp 100 e = SOk r) /\ mu e = 5190680045521207296.
Proof. vm_compute. split; [reflexivity|]. split; [eexists; reflexivity|reflexivity]. Qed.

Print Assumptions simp_terminates.
Print Assumptions simp_fuel_bound.
Print Assumptions simp_normal_form.
Print Assumptions simp_fuel_mono_res.
