(** * Proofs/ArithLemmas.v — modular-arithmetic facts behind the e-graph rules:
    congruence modulo [2^w] over [Z], two's complement reading, sign extension,
    and the characterisation of [den_bin] for the four "modular" operators. *)
From Coq Require Import Lia ZArith Znumtheory.
From Patronus Require Import Arith BVLemmas.
Open Scope N_scope.

(** ** congruence modulo 2^w *)

Definition P (w : N) : Z := (2 ^ Z.of_N w)%Z.

Lemma P_pos w : (0 < P w)%Z.
Proof. unfold P. apply Z.pow_pos_nonneg; lia. Qed.

Lemma P_of_N w : Z.of_N (2 ^ w) = P w.
Proof. unfold P. now rewrite N2Z.inj_pow. Qed.

Lemma P_add a b : P (a + b) = (P a * P b)%Z.
Proof. unfold P. rewrite N2Z.inj_add, Z.pow_add_r; lia. Qed.

Lemma P_divide a b : a <= b -> (P a | P b)%Z.
Proof.
  intros H. exists (P (b - a)). replace b with ((b - a) + a) at 1 by lia. apply P_add.
Qed.

Lemma P_le a b : a <= b -> (P a <= P b)%Z.
Proof. intros H. unfold P. apply Z.pow_le_mono_r; lia. Qed.

Definition cong (w : N) (u v : Z) : Prop := (u mod P w = v mod P w)%Z.

Lemma cong_refl w u : cong w u u. Proof. reflexivity. Qed.
Lemma cong_sym w u v : cong w u v -> cong w v u. Proof. unfold cong; congruence. Qed.
Lemma cong_trans w u v x : cong w u v -> cong w v x -> cong w u x. Proof. unfold cong; congruence. Qed.

Lemma cong_add w a b c d : cong w a b -> cong w c d -> cong w (a + c) (b + d).
Proof. unfold cong; intros H1 H2. rewrite Zplus_mod, H1, H2, <- Zplus_mod. reflexivity. Qed.

Lemma cong_sub w a b c d : cong w a b -> cong w c d -> cong w (a - c) (b - d).
Proof. unfold cong; intros H1 H2. rewrite Zminus_mod, H1, H2, <- Zminus_mod. reflexivity. Qed.

Lemma cong_mul w a b c d : cong w a b -> cong w c d -> cong w (a * c) (b * d).
Proof. unfold cong; intros H1 H2. rewrite Zmult_mod, H1, H2, <- Zmult_mod. reflexivity. Qed.

Lemma cong_mod w W u : w <= W -> cong w (u mod P W) u.
Proof.
  intros H. unfold cong. symmetry. apply Zmod_div_mod; auto using P_pos, P_divide.
Qed.

Lemma cong_weaken w W u v : w <= W -> cong W u v -> cong w u v.
Proof.
  intros H Hc. apply cong_trans with (u mod P W)%Z; [apply cong_sym, cong_mod; exact H|].
  unfold cong in Hc. rewrite Hc. now apply cong_mod.
Qed.

Lemma cong_plus_P w u k : cong w (u + k * P w) u.
Proof. unfold cong. apply Z_mod_plus_full. Qed.

Lemma cong_P_mul w W k : w <= W -> cong w (k * P W) 0.
Proof.
  intros H. destruct (P_divide w W H) as [q Hq]. unfold cong. rewrite Hq, Z.mul_assoc.
  rewrite Z.mod_mul, Z.mod_0_l; auto; pose proof (P_pos w); lia.
Qed.

Lemma of_N_mod a w : Z.of_N (a mod 2 ^ w) = (Z.of_N a mod P w)%Z.
Proof. now rewrite N2Z.inj_mod, P_of_N. Qed.

Lemma of_N_trunc w a : cong w (Z.of_N (trunc w a)) (Z.of_N a).
Proof. unfold trunc. rewrite of_N_mod. now apply cong_mod. Qed.

Lemma of_N_lt a w : a < 2 ^ w -> (0 <= Z.of_N a < P w)%Z.
Proof. intros H. rewrite <- P_of_N. lia. Qed.

(** two canonical representatives that are congruent are equal *)
Lemma cong_eq w a b : a < 2 ^ w -> b < 2 ^ w -> cong w (Z.of_N a) (Z.of_N b) -> a = b.
Proof.
  intros Ha Hb Hc. unfold cong in Hc.
  rewrite !Z.mod_small in Hc by now apply of_N_lt. lia.
Qed.

Lemma cong_small w a z : a < 2 ^ w -> (0 <= z < P w)%Z -> cong w (Z.of_N a) z -> Z.of_N a = z.
Proof.
  intros Ha Hz Hc. unfold cong in Hc. rewrite !Z.mod_small in Hc; auto using of_N_lt.
Qed.

(** ** most significant bit, two's complement *)

Lemma pow2_split w : 1 <= w -> 2 ^ w = 2 * 2 ^ (w - 1).
Proof. intros H. replace w with (N.succ (w - 1)) at 1 by lia. apply N.pow_succ_r'. Qed.

Lemma P_split w : 1 <= w -> P w = (2 * P (w - 1))%Z.
Proof. intros H. rewrite <- !P_of_N, (pow2_split w H). lia. Qed.

Lemma msb_spec w x : 1 <= w -> x < 2 ^ w -> msb w x = (2 ^ (w - 1) <=? x).
Proof.
  intros Hw Hx. unfold msb. rewrite N.testbit_eqb.
  pose proof (pow2_split w Hw) as Hs. pose proof (pow2_nz (w - 1)) as Hnz.
  destruct (N.leb_spec (2 ^ (w - 1)) x) as [Hle | Hlt].
  - assert (Hq : x / 2 ^ (w - 1) = 1).
    { apply N.le_antisymm.
      - apply N.lt_succ_r. apply N.div_lt_upper_bound; auto. lia.
      - apply N.div_le_lower_bound; auto. lia. }
    rewrite Hq. reflexivity.
  - rewrite N.div_small by exact Hlt. reflexivity.
Qed.

(** signed or unsigned reading of a width-[w] value *)
Definition sval (s : bool) (w x : N) : Z := if s then to_Z w x else Z.of_N x.

Lemma to_Z_cong w x : cong w (to_Z w x) (Z.of_N x).
Proof.
  unfold to_Z. destruct (msb w x); [|apply cong_refl].
  replace (Z.of_N x - 2 ^ Z.of_N w)%Z with (Z.of_N x + (-1) * P w)%Z by (unfold P; lia).
  apply cong_plus_P.
Qed.

Lemma sval_cong s w x : cong w (sval s w x) (Z.of_N x).
Proof. destruct s; [apply to_Z_cong | apply cong_refl]. Qed.

Lemma to_Z_range w x : 1 <= w -> x < 2 ^ w -> (- P (w - 1) <= to_Z w x < P (w - 1))%Z.
Proof.
  intros Hw Hx. unfold to_Z. rewrite (msb_spec w x Hw Hx).
  pose proof (P_split w Hw) as Hs. pose proof (of_N_lt x w Hx) as Hb.
  fold (P w). rewrite <- (P_of_N (w - 1)).
  destruct (N.leb_spec (2 ^ (w - 1)) x); rewrite <- (P_of_N (w - 1)) in Hs; lia.
Qed.

(** reconstruction: a canonical value congruent to a number in the signed range reads as that number *)
Lemma to_Z_unique w n z : 1 <= w -> n < 2 ^ w -> (- P (w - 1) <= z < P (w - 1))%Z ->
  cong w (Z.of_N n) z -> to_Z w n = z.
Proof.
  intros Hw Hn Hz Hc.
  pose proof (to_Z_range w n Hw Hn) as Hr. pose proof (P_split w Hw) as Hs.
  assert (Hc' : cong w (to_Z w n) z) by (eapply cong_trans; [apply to_Z_cong | exact Hc]).
  unfold cong in Hc'.
  (* both lie in a window of length P w *)
  assert (H1 : ((to_Z w n + P (w - 1)) mod P w = (z + P (w - 1)) mod P w)%Z).
  { apply (cong_add w _ _ _ _ Hc' (cong_refl w (P (w - 1)))). }
  rewrite !Z.mod_small in H1 by lia. lia.
Qed.

Lemma sval_unique (s : bool) w n z : 1 <= w -> n < 2 ^ w ->
  (if s then (- P (w - 1) <= z < P (w - 1))%Z else (0 <= z < P w)%Z) ->
  cong w (Z.of_N n) z -> sval s w n = z.
Proof.
  intros Hw Hn Hz Hc. destruct s; cbn [sval].
  - now apply to_Z_unique.
  - apply (cong_small w); assumption.
Qed.

Lemma sval_range (s : bool) w x : 1 <= w -> x < 2 ^ w ->
  if s then (- P (w - 1) <= sval s w x < P (w - 1))%Z else (0 <= sval s w x < P w)%Z.
Proof.
  intros Hw Hx. destruct s; cbn [sval]; [now apply to_Z_range | now apply of_N_lt].
Qed.

(** ** sign extension *)

Lemma sext_value w k x : 1 <= w -> x < 2 ^ w ->
  Z.of_N (bv_sext w k x) = (if msb w x then Z.of_N x + P (w + k) - P w else Z.of_N x)%Z.
Proof.
  intros Hw Hx. unfold bv_sext. destruct (msb w x); [|reflexivity].
  rewrite N.ones_equiv. pose proof (pow2_pos k) as Hk.
  rewrite N2Z.inj_add, N2Z.inj_mul, N2Z.inj_pred by lia. rewrite !P_of_N, P_add. lia.
Qed.

Lemma sext_cong w W x : 1 <= w -> w <= W -> x < 2 ^ w ->
  cong W (Z.of_N (bv_sext w (W - w) x)) (to_Z w x).
Proof.
  intros Hw HW Hx. rewrite sext_value by assumption. unfold to_Z. fold (P w).
  replace (w + (W - w)) with W by lia.
  destruct (msb w x); [|apply cong_refl].
  replace (Z.of_N x + P W - P w)%Z with ((Z.of_N x - P w) + 1 * P W)%Z by lia. apply cong_plus_P.
Qed.

Lemma extv_cong s w W x : 1 <= w -> w <= W -> x < 2 ^ w ->
  cong W (Z.of_N (extv s w W x)) (sval s w x).
Proof.
  intros Hw HW Hx. destruct s; cbn [extv sval]; [now apply sext_cong | apply cong_refl].
Qed.

Lemma extv_bound s w W x : w <= W -> x < 2 ^ w -> extv s w W x < 2 ^ W.
Proof.
  intros HW Hx. destruct s; cbn [extv].
  - replace W with (w + (W - w)) at 2 by lia. now apply bv_sext_bound.
  - eapply N.lt_le_trans; [exact Hx | now apply pow2_le_mono].
Qed.

Lemma extv_same s w x : x < 2 ^ w -> extv s w w x = x.
Proof.
  intros Hx. destruct s; cbn [extv]; [|reflexivity].
  unfold bv_sext. rewrite N.sub_diag. cbn. destruct (msb w x); lia.
Qed.

(** ** the value of a binary node, modulo 2^wo *)

Section DenBin.
  Variables (wo wa wb : N) (sa sb : bool) (x y : N).
  Hypothesis Hwa : 1 <= wa.
  Hypothesis Hwb : 1 <= wb.
  Hypothesis Hx : x < 2 ^ wa.
  Hypothesis Hy : y < 2 ^ wb.

  Let W := N.max (N.max wa wb) wo.

  Lemma W_ge : wa <= W /\ wb <= W /\ wo <= W.
  Proof. unfold W. lia. Qed.

  Lemma den_bin_bound op : den_bin op wo wa sa x wb sb y < 2 ^ wo.
  Proof. unfold den_bin, trunc. apply mod_bound. Qed.

  Let X := extv sa wa W x.
  Let Y := extv sb wb W y.

  Lemma X_cong : cong wo (Z.of_N X) (sval sa wa x).
  Proof. destruct W_ge as (H1 & H2 & H3). apply cong_weaken with W; auto. now apply extv_cong. Qed.
  Lemma Y_cong : cong wo (Z.of_N Y) (sval sb wb y).
  Proof. destruct W_ge as (H1 & H2 & H3). apply cong_weaken with W; auto. now apply extv_cong. Qed.

  Lemma den_bin_add : cong wo (Z.of_N (den_bin OAdd wo wa sa x wb sb y)) (sval sa wa x + sval sb wb y).
  Proof.
    destruct W_ge as (H1 & H2 & H3). unfold den_bin. fold W X Y. cbn [op_val]. unfold bv_add.
    eapply cong_trans; [apply of_N_trunc|]. rewrite of_N_mod.
    eapply cong_trans; [now apply cong_mod|]. rewrite N2Z.inj_add.
    apply cong_add; [apply X_cong | apply Y_cong].
  Qed.

  Lemma den_bin_mul : cong wo (Z.of_N (den_bin OMul wo wa sa x wb sb y)) (sval sa wa x * sval sb wb y).
  Proof.
    destruct W_ge as (H1 & H2 & H3). unfold den_bin. fold W X Y. cbn [op_val]. unfold bv_mul.
    eapply cong_trans; [apply of_N_trunc|]. rewrite of_N_mod.
    eapply cong_trans; [now apply cong_mod|]. rewrite N2Z.inj_mul.
    apply cong_mul; [apply X_cong | apply Y_cong].
  Qed.

  Lemma neg_cong w a : cong w (Z.of_N (bv_neg w a)) (- Z.of_N a).
  Proof.
    unfold bv_neg. rewrite of_N_mod. eapply cong_trans; [apply cong_mod; lia|].
    pose proof (mod_bound a w) as Hb. rewrite N2Z.inj_sub by lia. rewrite of_N_mod, P_of_N.
    replace (P w - Z.of_N a mod P w)%Z with ((0 - Z.of_N a mod P w) + 1 * P w)%Z by lia.
    eapply cong_trans; [apply cong_plus_P|].
    replace (- Z.of_N a)%Z with (0 - Z.of_N a)%Z by lia.
    apply cong_sub; [apply cong_refl | apply cong_mod; lia].
  Qed.

  Lemma den_bin_sub : cong wo (Z.of_N (den_bin OSub wo wa sa x wb sb y)) (sval sa wa x - sval sb wb y).
  Proof.
    destruct W_ge as (H1 & H2 & H3). unfold den_bin. fold W X Y. cbn [op_val]. unfold bv_sub.
    eapply cong_trans; [apply of_N_trunc|]. rewrite of_N_mod.
    eapply cong_trans; [now apply cong_mod|]. rewrite N2Z.inj_add.
    replace (sval sa wa x - sval sb wb y)%Z with (sval sa wa x + - sval sb wb y)%Z by lia.
    apply cong_add; [apply X_cong|].
    apply cong_weaken with W; auto. eapply cong_trans; [apply neg_cong|].
    replace (- Z.of_N Y)%Z with (0 - Z.of_N Y)%Z by lia.
    replace (- sval sb wb y)%Z with (0 - sval sb wb y)%Z by lia.
    apply cong_sub; [apply cong_refl|]. now apply extv_cong.
  Qed.
End DenBin.

(** left shift by an *unsigned* amount: multiplication by [2^y] modulo [2^wo] *)
Lemma shl_cong W a b : cong W (Z.of_N (bv_shl W a b)) (Z.of_N a * P b).
Proof.
  unfold bv_shl. destruct (N.ltb_spec b W) as [Hlt | Hge].
  - rewrite of_N_mod. eapply cong_trans; [apply cong_mod; lia|].
    rewrite N2Z.inj_mul, P_of_N. apply cong_refl.
  - apply cong_sym. rewrite Z.mul_comm. replace (Z.of_N 0) with 0%Z by reflexivity.
    rewrite Z.mul_comm. now apply cong_P_mul.
Qed.

Lemma den_bin_shl wo wa wb sa x y : 1 <= wa -> 1 <= wb -> x < 2 ^ wa -> y < 2 ^ wb ->
  cong wo (Z.of_N (den_bin OShl wo wa sa x wb false y)) (sval sa wa x * P y).
Proof.
  intros Hwa Hwb Hx Hy.
  set (W := N.max (N.max wa wb) wo). assert (HW : wa <= W /\ wb <= W /\ wo <= W) by (unfold W; lia).
  destruct HW as (H1 & H2 & H3).
  unfold den_bin. fold W. cbn [op_val extv].
  eapply cong_trans; [apply of_N_trunc|].
  apply cong_weaken with W; auto.
  eapply cong_trans; [apply shl_cong|].
  apply cong_mul; [now apply extv_cong | apply cong_refl].
Qed.
