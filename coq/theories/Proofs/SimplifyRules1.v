(** * Proofs/SimplifyRules1.v — soundness of the simple rewrite rules
    (not, extensions, >=, add, mul, shifts by constants, implies). *)
From Coq Require Import Lia.
From Patronus Require Import Simplify BVLemmas ExprLemmas EvalProofs BVRuleLemmas ExprEqb SimplifyBuilders.
Open Scope N_scope.

Lemma lit_typed wl v w : wt (BVLiteral wl v) = true -> type_of (BVLiteral wl v) = TBV w ->
  wl = w /\ 0 < w /\ v < 2 ^ w.
Proof. intros H T. cbn in T. inversion T; subst. apply wt_lit in H. tauto. Qed.

Ltac inv_some :=
  match goal with
  | H : Some ?x = Some ?r |- _ =>
      let E := fresh "E" in assert (E : r = x) by (now inversion H); subst r; clear H
  | H : None = Some _ |- _ => discriminate H
  end.

(** finish a rule: the replacement [r] is described by a [B] fact *)
Ltac finish w := eapply (ok_rw_of_B _ _ w); [assumption | reflexivity | | ].
(** same, the width of the replacement is equal to [w] up to arithmetic *)
Ltac finish' w := eapply (ok_rw_of_B' _ _ w); [assumption | reflexivity | | | ].

(** ** not *)
Lemma simplify_bv_not_sound x w r :
  wt (BVNot x w) = true -> simplify_bv_not x = Some r -> ok_rw (BVNot x w) r.
Proof.
  intros Hwt Hs. pose proof Hwt as Hwt'. apply wt_not in Hwt'. destruct Hwt' as [Wx Tx].
  destruct x; cbn [simplify_bv_not] in Hs; try discriminate; inv_some.
  - (* literal *)
    destruct (lit_typed _ _ _ Wx Tx) as (-> & Hw & Hv).
    finish w; [apply B_lit; [assumption|now apply bv_not_bound]|]. intros rho _. reflexivity.
  - (* double negation *)
    apply wt_not in Wx. destruct Wx as [Wi Ti]. cbn in Tx. inversion Tx; subst.
    finish w; [apply B_of_wt; eassumption|]. intros rho Hr. cbn [ebv].
    symmetry. apply not_not. now apply ebv_bound.
Qed.

(** ** zero extension *)
Lemma simplify_bv_zero_ext_sound x by_ w r :
  wt (BVZeroExt x by_ w) = true -> simplify_bv_zero_ext x by_ = Some r -> ok_rw (BVZeroExt x by_ w) r.
Proof.
  intros Hwt Hs. pose proof Hwt as Hwt'. apply wt_zext in Hwt'. destruct Hwt' as (Wx & Tx & Hlt).
  pose proof (width_pos _ _ Wx Tx) as Hpos.
  unfold simplify_bv_zero_ext in Hs. destruct (N.eqb_spec by_ 0) as [->|Hby].
  - inv_some. rewrite N.sub_0_r in Tx. finish w; [apply B_of_wt; eassumption|]. intros rho _. reflexivity.
  - assert (Hw : w = (w - by_) + by_) by lia.
    destruct x; inv_some;
      try (finish' w;
           [ apply B_mk_concat; [apply B_zero; lia | apply B_of_wt; eassumption]
           | lia
           | intros rho _; cbn [ebv]; symmetry; apply zext_as_concat ]).
    (* literal *)
    destruct (lit_typed _ _ _ Wx Tx) as (E & Hw' & Hv). subst w0.
    finish' w; [apply B_lit; [|now apply bv_zext_bound]; lia | lia |]. intros rho _. reflexivity.
Qed.

(** ** sign extension *)
Lemma simplify_bv_sign_ext_sound x by_ w r :
  wt (BVSignExt x by_ w) = true -> simplify_bv_sign_ext x by_ = Some r -> ok_rw (BVSignExt x by_ w) r.
Proof.
  intros Hwt Hs. pose proof Hwt as Hwt'. apply wt_sext in Hwt'. destruct Hwt' as (Wx & Tx & Hlt).
  pose proof (width_pos _ _ Wx Tx) as Hpos.
  unfold simplify_bv_sign_ext in Hs. destruct (N.eqb_spec by_ 0) as [->|Hby].
  - inv_some. rewrite N.sub_0_r in Tx. finish w; [apply B_of_wt; eassumption|].
    intros rho _. cbn [ebv]. now rewrite bv_sext_zero.
  - assert (Hw : w = (w - by_) + by_) by lia.
    destruct x; try discriminate; inv_some.
    + (* literal *)
      destruct (lit_typed _ _ _ Wx Tx) as (E & Hw' & Hv). subst w0.
      finish' w; [apply B_lit; [|now apply bv_sext_bound]; lia | lia |].
      intros rho _. cbn [ebv width type_of]. reflexivity.
    + (* sext of sext *)
      pose proof Wx as Wx'. apply wt_sext in Wx'. destruct Wx' as (Wi & Ti & Hlt').
      cbn in Tx. inversion Tx; subst w0.
      pose proof (width_pos _ _ Wi Ti) as Hposi.
      finish' w.
      * apply B_mk_sext. apply B_of_wt; eassumption.
      * lia.
      * intros rho Hr. cbn [ebv]. unfold width. cbn [type_of]. rewrite Ti.
        pose proof (sext_sext (w - by_ - by_0) by_0 by_ (ebv rho x) Hposi (ebv_bound rho Hr x _ Wi Ti)) as H.
        replace (w - by_ - by_0 + by_0) with (w - by_) in H by lia. symmetry. exact H.
Qed.

(** ** implies: canonicalised to (not a) or b *)
Lemma simplify_implies_sound a b :
  wt (BVImplies a b) = true -> ok_rw (BVImplies a b) (mk_or (mk_not a) b).
Proof.
  intros Hwt. pose proof Hwt as Hwt'. apply wt_implies in Hwt'. destruct Hwt' as (Wa & Wb & Ta & Tb).
  finish 1; [apply B_mk_or; [apply B_mk_not|]; apply B_of_wt; eassumption|].
  intros rho _. reflexivity.
Qed.

(** literal or not *)
Lemma lit_dec e : {wv : N * N | e = BVLiteral (fst wv) (snd wv)} + {forall w v, e <> BVLiteral w v}.
Proof. destruct e; try (right; intros; discriminate). left. exists (w, v). reflexivity. Qed.

Ltac not_lit a Na := destruct a; try (exfalso; eapply Na; reflexivity).

(** ** unsigned >= *)
Lemma simplify_bv_greater_equal_sound a b r :
  wt (BVGreaterEqual a b) = true -> simplify_bv_greater_equal a b = Some r -> ok_rw (BVGreaterEqual a b) r.
Proof.
  intros Hwt Hs. pose proof Hwt as Hwt'. apply wt_uge in Hwt'. destruct Hwt' as (Wa & Wb & w & Ta & Tb).
  pose proof (width_pos _ _ Wa Ta) as Hpos.
  assert (Hwa : width a = w) by (unfold width; now rewrite Ta).
  unfold simplify_bv_greater_equal in Hs.
  destruct (lit_dec a) as [[[wa va] ->]|Na]; cbn [fst snd] in *.
  - destruct (lit_typed _ _ _ Wa Ta) as (E & _ & Hva); subst wa.
    destruct (lit_dec b) as [[[wb vb] ->]|Nb]; cbn [fst snd] in *.
    + inv_some. finish 1; [apply B_lit; [lia|apply b2n_bound]|]. intros rho _. reflexivity.
    + assert (Hs' : (if va =? N.ones (width (BVLiteral w va)) then Some mk_true else None) = Some r)
        by (not_lit b Nb; exact Hs).
      rewrite Hwa in Hs'.
      destruct (N.eqb_spec va (N.ones w)) as [->|Ho]; [|discriminate]. inv_some.
      finish 1; [apply B_true|].
      intros rho Hr; cbn [ebv]; symmetry; apply uge_ones_l; now apply ebv_bound.
  - destruct (lit_dec b) as [[[wb vb] ->]|Nb]; cbn [fst snd] in *.
    + destruct (lit_typed _ _ _ Wb Tb) as (E & _ & Hvb); subst wb.
      assert (Hs' : (if vb =? 0 then Some mk_true
                     else if vb =? N.ones (width a) then Some (mk_equal a (BVLiteral w vb)) else None) = Some r)
        by (not_lit a Na; exact Hs).
      rewrite Hwa in Hs'.
      destruct (N.eqb_spec vb 0) as [->|Hz].
      * inv_some. finish 1; [apply B_true|]. intros rho _; cbn [ebv]; symmetry; apply uge_zero_r.
      * destruct (N.eqb_spec vb (N.ones w)) as [->|Ho]; [|discriminate]. inv_some.
        finish 1.
        -- apply B_mk_equal with (w := w); [apply B_of_wt; eassumption | apply B_lit; [assumption|apply ones_bound]].
        -- intros rho Hr; cbn [ebv]; symmetry; apply uge_ones_r; now apply ebv_bound.
    + exfalso. not_lit a Na; not_lit b Nb; discriminate Hs.
Qed.

(** view of [find_lits_commutative] *)
Lemma find_lits_view a b :
  match find_lits_commutative a b with
  | LTwo wa va wb vb => a = BVLiteral wa va /\ b = BVLiteral wb vb
  | LOne w v le other =>
      (a = BVLiteral w v /\ le = a /\ other = b /\ (forall w' v', b <> BVLiteral w' v')) \/
      (b = BVLiteral w v /\ le = b /\ other = a /\ (forall w' v', a <> BVLiteral w' v'))
  | LNone => (forall w' v', a <> BVLiteral w' v') /\ (forall w' v', b <> BVLiteral w' v')
  end.
Proof.
  destruct (lit_dec a) as [[[wa va] ->]|Na]; destruct (lit_dec b) as [[[wb vb] ->]|Nb]; cbn [fst snd].
  - cbn. auto.
  - not_lit b Nb; cbn; left; auto.
  - not_lit a Na; cbn; right; auto.
  - not_lit a Na; not_lit b Nb; cbn; auto.
Qed.

(** ** add *)
Lemma simplify_bv_add_sound a b w r :
  wt (BVAdd a b w) = true -> simplify_bv_add a b = Some r -> ok_rw (BVAdd a b w) r.
Proof.
  intros Hwt Hs. pose proof Hwt as Hwt'. apply wt_add in Hwt'. destruct Hwt' as (Wa & Wb & Ta & Tb).
  assert (Hwa : width a = w) by (unfold width; now rewrite Ta).
  unfold simplify_bv_add in Hs. rewrite Hwa in Hs.
  destruct (N.eqb_spec w 1) as [->|Hw1].
  - inv_some. finish 1; [apply B_mk_xor; apply B_of_wt; eassumption|].
    intros rho Hr. cbn [ebv]. symmetry. apply add_1bit; now apply ebv_bound.
  - pose proof (find_lits_view a b) as V. destruct (find_lits_commutative a b) as [wa va wb vb|wl vl le other|].
    + destruct V as [-> ->]. inv_some. destruct (lit_typed _ _ _ Wa Ta) as (E & Hpos & Hva); subst wa.
      finish w; [apply B_lit; [assumption|apply bv_add_bound]|]. intros rho _. reflexivity.
    + destruct (N.eqb_spec vl 0) as [->|Hz]; [|discriminate]. inv_some.
      destruct V as [(-> & -> & -> & _)|(-> & -> & -> & _)].
      * finish w; [apply B_of_wt; eassumption|]. intros rho Hr. cbn [ebv]. symmetry. apply add_zero_l. now apply ebv_bound.
      * finish w; [apply B_of_wt; eassumption|]. intros rho Hr. cbn [ebv]. symmetry. apply add_zero_r. now apply ebv_bound.
    + discriminate.
Qed.

(** ** mul *)
Lemma simplify_bv_mul_sound a b w r :
  wt (BVMul a b w) = true -> simplify_bv_mul a b = Ok (Some r) -> ok_rw (BVMul a b w) r.
Proof.
  intros Hwt Hs. pose proof Hwt as Hwt'. apply wt_mul in Hwt'. destruct Hwt' as (Wa & Wb & Ta & Tb).
  assert (Hwa : width a = w) by (unfold width; now rewrite Ta).
  pose proof (width_pos _ _ Wa Ta) as Hpos.
  unfold simplify_bv_mul in Hs. rewrite Hwa in Hs.
  destruct (N.eqb_spec w 1) as [->|Hw1].
  - inversion Hs; subst r. finish 1; [apply B_mk_and; apply B_of_wt; eassumption|].
    intros rho Hr. cbn [ebv]. symmetry. apply mul_1bit; now apply ebv_bound.
  - pose proof (find_lits_view a b) as V. destruct (find_lits_commutative a b) as [wa va wb vb|wl vl le other|].
    + destruct V as [-> ->]. destruct (128 <? wa); [discriminate|]. inversion Hs; subst r.
      destruct (lit_typed _ _ _ Wa Ta) as (E & _ & Hva); subst wa.
      finish w; [apply B_lit; [assumption|apply bv_mul_bound]|]. intros rho _. reflexivity.
    + assert (Hl : wl = w /\ vl < 2 ^ w).
      { destruct V as [(-> & _)|(-> & _)]; [destruct (lit_typed _ _ _ Wa Ta)|destruct (lit_typed _ _ _ Wb Tb)]; tauto. }
      destruct Hl as [-> Hvl].
      destruct (N.eqb_spec vl 0) as [->|Hz].
      { inversion Hs; subst r. destruct V as [(-> & -> & -> & _)|(-> & -> & -> & _)].
        - finish w; [apply B_lit; [assumption|auto with bv]|]. intros rho _. cbn [ebv]. symmetry. apply mul_zero_l.
        - finish w; [apply B_lit; [assumption|auto with bv]|]. intros rho _. cbn [ebv]. symmetry. apply mul_zero_r. }
      destruct (N.eqb_spec vl 1) as [->|Ho].
      { inversion Hs; subst r. destruct V as [(-> & -> & -> & _)|(-> & -> & -> & _)].
        - finish w; [apply B_of_wt; eassumption|]. intros rho Hr. cbn [ebv]. symmetry. apply mul_one_l. now apply ebv_bound.
        - finish w; [apply B_of_wt; eassumption|]. intros rho Hr. cbn [ebv]. symmetry. apply mul_one_r. now apply ebv_bound. }
      destruct (Simplify.lit_is_pow_2 vl) as [k|] eqn:Hp; [|discriminate].
      inversion Hs; subst r.
      assert (Hk : vl = 2 ^ k) by (apply lit_is_pow_2_spec; exact Hp). subst vl.
      assert (Hkw : k < 2 ^ w).
      { assert (k < w) by (apply N.pow_lt_mono_r_iff in Hvl; lia).
        pose proof (N.pow_gt_lin_r 2 w). lia. }
      destruct V as [(-> & -> & -> & _)|(-> & -> & -> & _)].
      * finish w; [apply B_mk_shl; [apply B_of_wt; eassumption | apply B_lit; assumption]|].
        intros rho Hr. cbn [ebv]. symmetry. now apply mul_pow2_l.
      * finish w; [apply B_mk_shl; [apply B_of_wt; eassumption | apply B_lit; assumption]|].
        intros rho Hr. cbn [ebv]. symmetry. now apply mul_pow2_r.
    + discriminate.
Qed.

(** ** shifts by constants *)
Lemma simplify_bv_shift_left_sound a b w r :
  wt (BVShiftLeft a b w) = true -> simplify_bv_shift_left a b w = Some r -> ok_rw (BVShiftLeft a b w) r.
Proof.
  intros Hwt Hs. pose proof Hwt as Hwt'. apply wt_shl in Hwt'. destruct Hwt' as (Wa & Wb & Ta & Tb).
  pose proof (width_pos _ _ Wa Ta) as Hpos.
  unfold simplify_bv_shift_left in Hs.
  destruct (lit_dec b) as [[[wb k] ->]|Nb]; cbn [fst snd] in *.
  2: { exfalso. destruct a; not_lit b Nb; discriminate Hs. }
  destruct (lit_typed _ _ _ Wb Tb) as (E & _ & Hk); subst wb.
  destruct (lit_dec a) as [[[wa va] ->]|Na]; cbn [fst snd] in *.
  - destruct (lit_typed _ _ _ Wa Ta) as (E & _ & Hva); subst wa. inv_some.
    finish w; [apply B_lit; [assumption|apply bv_shl_bound]|]. intros rho _. reflexivity.
  - assert (Hs' : (if w <=? k then Some (mk_zero w) else if k =? 0 then Some a
                   else Some (mk_concat (mk_slice a (w - 1 - k) 0) (mk_zero k))) = Some r)
      by (not_lit a Na; exact Hs).
    clear Hs. destruct (N.leb_spec w k) as [Hbig|Hsmall].
    + inv_some. finish w; [apply B_zero; assumption|]. intros rho _. cbn [ebv]. symmetry. now apply shl_big.
    + destruct (N.eqb_spec k 0) as [->|Hk0]; inv_some.
      * finish w; [apply B_of_wt; eassumption|]. intros rho Hr. cbn [ebv]. symmetry. apply shl_zero. now apply ebv_bound.
      * finish' w.
        -- apply B_mk_concat; [eapply B_mk_slice; [apply B_of_wt; eassumption | lia | lia] | apply B_zero; lia].
        -- lia.
        -- intros rho Hr. cbn [ebv]. symmetry. apply shl_const; [now apply ebv_bound| |]; lia.
Qed.

Lemma simplify_bv_shift_right_sound a b w r :
  wt (BVShiftRight a b w) = true -> simplify_bv_shift_right a b w = Some r -> ok_rw (BVShiftRight a b w) r.
Proof.
  intros Hwt Hs. pose proof Hwt as Hwt'. apply wt_lshr in Hwt'. destruct Hwt' as (Wa & Wb & Ta & Tb).
  pose proof (width_pos _ _ Wa Ta) as Hpos.
  unfold simplify_bv_shift_right in Hs.
  destruct (lit_dec b) as [[[wb k] ->]|Nb]; cbn [fst snd] in *.
  2: { exfalso. destruct a; not_lit b Nb; discriminate Hs. }
  destruct (lit_typed _ _ _ Wb Tb) as (E & _ & Hk); subst wb.
  destruct (lit_dec a) as [[[wa va] ->]|Na]; cbn [fst snd] in *.
  - destruct (lit_typed _ _ _ Wa Ta) as (E & _ & Hva); subst wa. inv_some.
    finish w; [apply B_lit; [assumption|now apply bv_lshr_bound]|]. intros rho _. reflexivity.
  - assert (Hs' : (if w <=? k then Some (mk_zero w) else if k =? 0 then Some a
                   else Some (mk_zext (mk_slice a (w - 1) k) k)) = Some r)
      by (not_lit a Na; exact Hs).
    clear Hs. destruct (N.leb_spec w k) as [Hbig|Hsmall].
    + inv_some. finish w; [apply B_zero; assumption|]. intros rho _. cbn [ebv]. symmetry. now apply lshr_big.
    + destruct (N.eqb_spec k 0) as [->|Hk0]; inv_some.
      * finish w; [apply B_of_wt; eassumption|]. intros rho Hr. cbn [ebv]. symmetry. now apply lshr_zero.
      * finish' w.
        -- apply B_mk_zext. eapply B_mk_slice; [apply B_of_wt; eassumption | lia | lia].
        -- lia.
        -- intros rho Hr. cbn [ebv]. symmetry. apply lshr_const; [now apply ebv_bound| |]; lia.
Qed.

Lemma simplify_bv_arithmetic_shift_right_sound a b w r :
  wt (BVArithmeticShiftRight a b w) = true -> simplify_bv_arithmetic_shift_right a b w = Some r ->
  ok_rw (BVArithmeticShiftRight a b w) r.
Proof.
  intros Hwt Hs. pose proof Hwt as Hwt'. apply wt_ashr in Hwt'. destruct Hwt' as (Wa & Wb & Ta & Tb).
  pose proof (width_pos _ _ Wa Ta) as Hpos.
  unfold simplify_bv_arithmetic_shift_right in Hs.
  destruct (lit_dec b) as [[[wb k] ->]|Nb]; cbn [fst snd] in *.
  2: { exfalso. destruct a; not_lit b Nb; discriminate Hs. }
  destruct (lit_typed _ _ _ Wb Tb) as (E & _ & Hk); subst wb.
  destruct (lit_dec a) as [[[wa va] ->]|Na]; cbn [fst snd] in *.
  - destruct (lit_typed _ _ _ Wa Ta) as (E & _ & Hva); subst wa. inv_some.
    finish w; [apply B_lit; [assumption|now apply bv_ashr_bound]|]. intros rho _. reflexivity.
  - assert (Hs' : (if w <=? k then Some (mk_sext (mk_slice a (w - 1) (w - 1)) (w - 1)) else if k =? 0 then Some a
                   else Some (mk_sext (mk_slice a (w - 1) k) k)) = Some r)
      by (not_lit a Na; exact Hs).
    clear Hs. destruct (N.leb_spec w k) as [Hbig|Hsmall].
    + inv_some. finish' w.
      * apply B_mk_sext. eapply B_mk_slice; [apply B_of_wt; eassumption | lia | lia].
      * lia.
      * intros rho Hr. cbn [ebv]. symmetry.
        replace (w - 1 - (w - 1) + 1) with 1 by lia. apply ashr_big; [assumption|now apply ebv_bound|assumption].
    + destruct (N.eqb_spec k 0) as [->|Hk0]; inv_some.
      * finish w; [apply B_of_wt; eassumption|]. intros rho Hr. cbn [ebv]. symmetry. apply ashr_zero; [assumption|now apply ebv_bound].
      * finish' w.
        -- apply B_mk_sext. eapply B_mk_slice; [apply B_of_wt; eassumption | lia | lia].
        -- lia.
        -- intros rho Hr. cbn [ebv]. symmetry. apply ashr_const; [now apply ebv_bound| |]; lia.
Qed.
