(** * Proofs/SimStoreProofs.v — the value store: lookup/replace/define laws, the
    valuation a store denotes, and evaluation over a store ([eval_store]) as the
    SMT-LIB semantics under that valuation (built on [machine_correct_lemma]). *)
From Coq Require Import Lia.
From Patronus Require Import Sim SimBasics ExprLemmas EvalImplProofs.
Open Scope N_scope.

(** the type of a stored value *)
Definition val_ty (v : sval) : ty :=
  match v with SBV w _ => TBV w | SArr iw dw _ => TArr iw dw end.

(** the value of [e] under [rho], tagged with the type of [e] *)
Definition tval (rho : env) (e : expr) : sval :=
  match type_of e with
  | TBV w => SBV w (ebv rho e)
  | TArr iw dw => SArr iw dw (earr rho e)
  end.

Lemma val_ty_tval rho e : val_ty (tval rho e) = type_of e.
Proof. unfold tval. destruct (type_of e); reflexivity. Qed.

(** a store entry is well formed: the key is a symbol and the value has its type *)
Definition entry_ok (kv : expr * sval) : Prop :=
  is_symbol (fst kv) = true /\ val_ty (snd kv) = type_of (fst kv).

(** [store_ok d st]: exactly the symbols [d] are stored, in this order, well typed *)
Definition store_ok (d : list expr) (st : store) : Prop :=
  map fst st = d /\ Forall entry_ok st.

Lemma same_shape_ty a b : val_ty a = val_ty b -> same_shape a b = true.
Proof.
  destruct a, b; cbn [val_ty same_shape]; intros H; inversion H; subst;
    rewrite ?N.eqb_refl; reflexivity.
Qed.

(** ** lookup *)
Lemma lookup_In k st v : lookup k st = Some v -> In (k, v) st.
Proof.
  induction st as [|[k' v'] r IH]; cbn [lookup]; [discriminate|].
  destruct (expr_eqb_spec k' k) as [->|Hne].
  - intros H. inversion H. now left.
  - intros H. right. now apply IH.
Qed.

Lemma lookup_None k st : lookup k st = None <-> ~ In k (map fst st).
Proof.
  induction st as [|[k' v'] r IH]; cbn [lookup map fst In]; [tauto|].
  destruct (expr_eqb_spec k' k) as [->|Hne].
  - split; [discriminate|]. intros H. exfalso. apply H. now left.
  - rewrite IH. tauto.
Qed.

Lemma lookup_Some_key k st : In k (map fst st) -> exists v, lookup k st = Some v.
Proof.
  intros Hin. destruct (lookup k st) eqn:E; [eauto|]. apply lookup_None in E. contradiction.
Qed.

Lemma lookup_entry_ok k st v : Forall entry_ok st -> lookup k st = Some v ->
  is_symbol k = true /\ val_ty v = type_of k.
Proof.
  intros Hall Hl. apply lookup_In in Hl. rewrite Forall_forall in Hall. exact (Hall _ Hl).
Qed.

Lemma lookup_nonsymbol e st : Forall entry_ok st -> is_symbol e = false -> lookup e st = None.
Proof.
  intros Hall Hns. destruct (lookup e st) eqn:E; [|reflexivity].
  destruct (lookup_entry_ok _ _ _ Hall E) as [Hs _]. congruence.
Qed.

Lemma lookup_replace q k v st :
  lookup q (replace k v st) =
  if expr_eqb k q then match lookup q st with Some _ => Some v | None => None end else lookup q st.
Proof.
  induction st as [|[k' v'] r IH]; cbn [replace lookup].
  - now destruct (expr_eqb k q).
  - destruct (expr_eqb_spec k' k) as [->|Hne]; cbn [lookup].
    + destruct (expr_eqb_spec k q) as [->|Hne2]; [reflexivity|reflexivity].
    + destruct (expr_eqb_spec k' q) as [->|Hne2].
      * rewrite (expr_eqb_false k q) by congruence. reflexivity.
      * exact IH.
Qed.

Lemma map_fst_replace k v st : map fst (replace k v st) = map fst st.
Proof.
  induction st as [|[k' v'] r IH]; cbn [replace map fst]; [reflexivity|].
  destruct (expr_eqb k' k); cbn [map fst]; [reflexivity|now rewrite IH].
Qed.

Lemma Forall_replace k v st : Forall entry_ok st ->
  (is_symbol k = true /\ val_ty v = type_of k) -> Forall entry_ok (replace k v st).
Proof.
  intros Hall Hv. induction Hall as [|[k' v'] r Hx Hr IH]; cbn [replace]; [constructor|].
  destruct (expr_eqb_spec k' k) as [->|Hne]; constructor; auto.
Qed.

Lemma lookup_app k st1 st2 :
  lookup k (st1 ++ st2) = match lookup k st1 with Some v => Some v | None => lookup k st2 end.
Proof.
  induction st1 as [|[k' v'] r IH]; cbn [app lookup]; [reflexivity|].
  destruct (expr_eqb k' k); [reflexivity|exact IH].
Qed.

(** ** update *)
Lemma update_ok d st k v :
  store_ok d st -> In k d -> val_ty v = type_of k ->
  update k v st = Done (replace k v st) /\ store_ok d (replace k v st).
Proof.
  intros [Hk Hall] Hin Hty. unfold update.
  destruct (lookup_Some_key k st) as [old Hold]; [now rewrite Hk|].
  rewrite Hold. destruct (lookup_entry_ok _ _ _ Hall Hold) as [Hsym Hold_ty].
  rewrite same_shape_ty by congruence. split; [reflexivity|].
  split; [now rewrite map_fst_replace|]. apply Forall_replace; auto.
Qed.

(** ** the valuation a store denotes, under replacement *)
Lemma env_of_replace k rho e st :
  is_symbol k = true -> type_of e = type_of k -> In k (map fst st) ->
  env_eq (env_of (replace k (tval rho e) st)) (assign (env_of st) k rho e).
Proof.
  intros Hsym Hty Hin. destruct (lookup_Some_key k st Hin) as [old Hold].
  destruct k; try discriminate Hsym; cbn [type_of] in Hty; unfold tval; rewrite Hty;
    cbn [assign]; split; cbn [env_of upd_bv upd_arr rho_bv rho_arr]; intros;
    rewrite lookup_replace; cbn [expr_eqb]; try reflexivity.
  - (* bit-vector symbol, bit-vector query *)
    rewrite (String.eqb_sym n name), (N.eqb_sym w0 w).
    destruct (String.eqb name n && (w =? w0)) eqn:E; [|reflexivity].
    apply andb_true_iff in E. destruct E as [E1 E2].
    apply String.eqb_eq in E1. apply N.eqb_eq in E2. subst. now rewrite Hold.
  - (* array symbol, array query *)
    rewrite (String.eqb_sym n name), (N.eqb_sym iw0 iw), (N.eqb_sym dw0 dw).
    destruct (String.eqb name n && (iw =? iw0) && (dw =? dw0)) eqn:E; [|reflexivity].
    apply andb_true_iff in E. destruct E as [E E3]. apply andb_true_iff in E. destruct E as [E1 E2].
    apply String.eqb_eq in E1. apply N.eqb_eq in E2. apply N.eqb_eq in E3. subst. now rewrite Hold.
Qed.

(** setting a bit-vector symbol to a given value *)
Lemma env_of_replace_bv n w v st :
  In (BVSymbol n w) (map fst st) ->
  env_eq (env_of (replace (BVSymbol n w) (SBV w v) st)) (upd_bv (env_of st) n w v).
Proof.
  intros Hin. destruct (lookup_Some_key _ st Hin) as [old Hold].
  split; cbn [env_of upd_bv rho_bv rho_arr]; intros; rewrite lookup_replace; cbn [expr_eqb]; try reflexivity.
  rewrite (String.eqb_sym n0 n), (N.eqb_sym w0 w).
  destruct (String.eqb n n0 && (w =? w0)) eqn:E; [|reflexivity].
  apply andb_true_iff in E. destruct E as [E1 E2].
  apply String.eqb_eq in E1. apply N.eqb_eq in E2. subst. now rewrite Hold.
Qed.

(** ** the provider of a well-formed store *)
Lemma store_provider_ok st : Forall entry_ok st -> provider_ok (store_provider st).
Proof.
  intros Hall. split; cbn [store_provider get_bv get_array].
  - intros e w v H. destruct (type_of e) eqn:T; [|discriminate].
    destruct (lookup e st) as [[? ?|? ? ?]|]; inversion H; subst; reflexivity.
  - intros e iw dw f H. destruct (lookup e st) as [[? ?|iw' dw' f']|] eqn:L; inversion H; subst.
    destruct (lookup_entry_ok _ _ _ Hall L) as [_ Hty]. cbn [val_ty] in Hty. now symmetry.
Qed.

Lemma get_bv_nonsymbol st e : Forall entry_ok st -> is_symbol e = false ->
  get_bv (store_provider st) e = None.
Proof.
  intros Hall Hns. cbn [store_provider get_bv]. rewrite (lookup_nonsymbol e st Hall Hns).
  now destruct (type_of e).
Qed.

Lemma get_array_nonsymbol st e : Forall entry_ok st -> is_symbol e = false ->
  get_array (store_provider st) e = None.
Proof.
  intros Hall Hns. cbn [store_provider get_array]. now rewrite (lookup_nonsymbol e st Hall Hns).
Qed.

(** stored symbols are provided *)
Lemma provided_stored st s : Forall entry_ok st -> In s (map fst st) -> provided (store_provider st) s = true.
Proof.
  intros Hall Hin. destruct (lookup_Some_key s st Hin) as [v Hv].
  destruct (lookup_entry_ok _ _ _ Hall Hv) as [Hsym Hty].
  unfold provided. destruct s; try discriminate Hsym; cbn [is_array_type store_provider get_bv get_array type_of];
    rewrite Hv; destruct v; cbn [val_ty type_of] in Hty; try discriminate Hty; reflexivity.
Qed.

Lemma covered_evaluable st e :
  Forall entry_ok st -> evaluable (map fst st) e = true -> covered (store_provider st) e = true.
Proof.
  intros Hall. induction e; cbn [evaluable covered]; intros H; try discriminate H;
    repeat match goal with
           | H : _ && _ = true |- _ => apply andb_true_iff in H; destruct H
           end;
    repeat match goal with
           | IH : ?P = true -> covered _ ?a = true, H : ?P = true |- _ => rewrite (IH H); clear IH
           end;
    cbn [andb]; rewrite ?orb_true_r; try reflexivity.
  - apply mem_In in H. rewrite (provided_stored st _ Hall H). reflexivity.
  - apply mem_In in H. rewrite (provided_stored st _ Hall H). reflexivity.
Qed.

(** ** the cut-off semantics under the store provider is the plain semantics *)
Lemma cut_store st e : Forall entry_ok st ->
  cbv (store_provider st) (env_of st) e = ebv (env_of st) e /\
  carr (store_provider st) (env_of st) e = earr (env_of st) e.
Proof.
  intros Hall. induction e; cbn [cbv carr ebv earr is_array_type];
    repeat match goal with H : _ /\ _ |- _ => destruct H end;
    repeat match goal with
           | |- context [get_bv (store_provider st) ?x] => rewrite (get_bv_nonsymbol st x Hall eq_refl)
           | |- context [get_array (store_provider st) ?x] => rewrite (get_array_nonsymbol st x Hall eq_refl)
           end;
    repeat match goal with
           | H : cbv _ _ _ = _ |- _ => rewrite H; clear H
           | H : carr _ _ _ = _ |- _ => rewrite H; clear H
           end;
    try (split; reflexivity).
  - (* BVSymbol *) split; [|reflexivity].
    cbn [store_provider get_bv type_of env_of rho_bv].
    destruct (lookup (BVSymbol name w) st) as [[? ?|? ? ?]|]; reflexivity.
  - (* ArraySymbol *) split; [reflexivity|].
    cbn [store_provider get_array env_of rho_arr].
    destruct (lookup (ArraySymbol name iw dw) st) as [[? ?|? ? ?]|]; reflexivity.
Qed.

(** ** evaluation over a store *)
Lemma eval_store_correct d st e :
  store_ok d st -> wt e = true -> evaluable d e = true ->
  eval_store st e = Done (tval (env_of st) e).
Proof.
  intros [Hk Hall] Hwt Hev. unfold eval_store, tval.
  rewrite (machine_correct_lemma (store_provider st) (env_of st) (store_provider_ok st Hall) e Hwt)
    by (apply covered_evaluable; [assumption|now rewrite Hk]).
  destruct (cut_store st e Hall) as [Hb Ha].
  destruct (type_of e); [now rewrite Hb|now rewrite Ha].
Qed.
