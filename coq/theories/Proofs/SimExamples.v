(** * Proofs/SimExamples.v — the concrete system and histories used by the
    non-vacuity examples of Props/C07.v (definitions, and the one example whose
    hypotheses need more than [vm_compute]). *)
From Patronus Require Import Sim BVLemmas SimCanonProofs.
Open Scope N_scope.

(** an array state, an init expression that reads an earlier state, a state
    without init, a state without next, a 70-bit state *)
Definition ex_sys : sys :=
  {| s_inputs := [BVSymbol "i" 4];
     s_states :=
       [ {| st_sym := BVSymbol "a" 4; st_init := Some (BVLiteral 4 3);
            st_next := Some (BVAdd (BVSymbol "a" 4) (BVSymbol "i" 4) 4) |};
         {| st_sym := BVSymbol "b" 4; st_init := Some (BVAdd (BVSymbol "a" 4) (BVLiteral 4 1) 4);
            st_next := Some (BVSymbol "a" 4) |};
         {| st_sym := ArraySymbol "m" 2 4; st_init := None;
            st_next := Some (ArrayStore (ArraySymbol "m" 2 4) (BVLiteral 2 1) (BVSymbol "b" 4)) |};
         {| st_sym := BVSymbol "c" 70; st_init := Some (BVLiteral 70 (2 ^ 69)); st_next := None |} ];
     s_outputs := []; s_bads := []; s_constraints := [] |}.

Definition ex_init : op := OInit (KRandom (fun _ => (9, fun i => i + 1))).

Definition ex_hist : list op :=
  [ ex_init; OSet (BVSymbol "i" 4) 4 5; OSnapshot; OStep; OStep;
    OGet (BVSymbol "a" 4); OGet (BVSymbol "b" 4);
    OGet (BVArrayRead (ArraySymbol "m" 2 4) (BVLiteral 2 1) 4);
    ORestore 0; OGet (BVSymbol "a" 4); OCount ].

(** a continuation (with its own snapshot and restore) and what happens before the restore *)
Definition ex_cont : list op :=
  [ OStep; OGet (BVSymbol "a" 4); OSnapshot; OSet (BVSymbol "i" 4) 4 1; OStep; ORestore 2; OGet (BVSymbol "b" 4) ].
Definition ex_between : list op := [ OStep; OSnapshot; OInit KZero; OStep ].

Definition show_obs (b : obs) : option (N * N) :=
  match b with OVal (SBV w v) => Some (w, v) | ONum n => Some (0, n) | _ => None end.

Definition outs_of (r : outcome (sim * list obs)) : list (option (N * N)) :=
  match r with Done (_, outs) => map show_obs outs | _ => [] end.

Definition state_of (r : outcome (sim * list obs)) : sim :=
  match r with Done (s, _) => s | _ => sim0 end.

Definition is_done {A} (r : outcome A) : bool := match r with Done _ => true | _ => false end.

(** a history whose generated values and set values are canonical *)
Definition ex_hist_canon : list op :=
  [ OInit (KRandom (fun _ => (9, fun i => i mod 16))); OSet (BVSymbol "i" 4) 4 5; OStep;
    OGet (BVSymbol "a" 4); OGet (ArraySymbol "m" 2 4) ].

Lemma ex_canon_ok :
  sim_ok ex_sys = true /\ hist_ok ex_sys ex_hist_canon = true /\ Forall (op_canon ex_sys) ex_hist_canon.
Proof.
  split; [vm_compute; reflexivity|]. split; [vm_compute; reflexivity|].
  unfold ex_hist_canon. repeat constructor; cbn [op_canon]; try (vm_compute; reflexivity).
  intros pos s Hn.
  do 5 (destruct pos as [|pos];
        [cbn in Hn; inversion Hn; subst; cbn [type_of gen_bv gen_arr fst snd];
         try (vm_compute; reflexivity); intros i; change 16 with (2 ^ 4); apply mod_bound|]).
  cbn in Hn. destruct pos; discriminate Hn.
Qed.
