(** * Proofs/PdrTerminationSys.v — termination of the concrete model of pdr.rs on the transition systems
    of Spec/System.v (Model/PdrSys.v): the state space is the list of the 2^bits valuations of the state
    symbols, a bit-level cube holds of its own state. *)
From Coq Require Import List NArith Lia Bool Arith.
From Patronus Require Import ReachFix ReachFixProofs Ic3 PdrImpl PdrImplProofs PdrSys PdrSysProofs
     PdrTermination PdrTerminationMain.
Import ListNotations.
Local Open Scope nat_scope.

Section PdrTerminationSys.
  Variable sy : sys.

  (** all valuations of the state symbols *)
  Definition sstates : list (sstate sy) := map (st_of sy) (nrange (2 ^ sbits sy)%N).
  Definition nstates : nat := N.to_nat (2 ^ sbits sy)%N.

  Lemma sstates_all (s : sstate sy) : In s sstates.
  Proof.
    unfold sstates. apply in_map_iff. exists (st_val sy s). split.
    - apply st_eq. apply st_val_of. apply st_val_bound.
    - apply In_nrange. apply st_val_bound.
  Qed.

  Lemma sstates_len : length sstates = nstates.
  Proof. unfold sstates, nrange, nstates. now rewrite !map_length, seq_length. Qed.

  Lemma scube_holds (s : sstate sy) : ch slit (sstate sy) (slit_holds sy) (scube sy s) s = true.
  Proof.
    unfold ch, scube. apply forallb_forall. intros l Hl. apply in_map_iff in Hl. destruct Hl as (b & <- & _).
    unfold slit_holds. cbn [fst snd]. apply eqb_reflx.
  Qed.

  Variable W EM : Type.
  Variable solve : nat -> query slit -> answer slit (sstate sy) EM.
  Variable cmd_fail : nat -> option EM.
  Variable n_init : nat.
  Variable gen_on : bool.
  Variable bmc_result : bmc_answer W EM.

  Notation run fuel bf :=
    (pdr slit slit_eqb (sstate sy) (scube sy) W EM solve cmd_fail n_init gen_on (has_bads_of sy) bmc_result fuel bf).
  Notation truthful_sys :=
    (forall n q, truthful slit slit_eqb (sstate sy) EM (slit_holds sy) (st_bad0 sy) (st_step0 sy) (st_trans sy) (st_bad sy)
                          q (solve n q)).

  Lemma sys_finite : finite_states slit (sstate sy) (scube sy) (slit_holds sy) sstates.
  Proof. split; [exact sstates_all | exact scube_holds]. Qed.

  Lemma sys_oracle_ok : truthful_sys ->
    oracle_ok slit slit_eqb (sstate sy) (scube sy) EM solve (has_bads_of sy) (slit_holds sy)
              (st_bad0 sy) (st_step0 sy) (st_trans sy) (st_bad sy).
  Proof.
    intros Htr. split; [exact (scube_unique sy) |]. split; [exact Htr |].
    unfold has_bads_of. intros Hb. apply no_bads_sys. destruct (s_bads sy); [reflexivity | discriminate Hb].
  Qed.

  Theorem pdr_model_terminates_sys fuel bf :
    truthful_sys -> no_faults slit (sstate sy) W EM solve cmd_fail bmc_result ->
    pdr_fuel_bound nstates < fuel -> pdr_block_fuel_bound nstates < bf ->
    exists v st', run fuel bf = Ok (v, st').
  Proof.
    intros Htr Hnf. rewrite <- sstates_len.
    exact (pdr_model_terminates slit slit_eqb (sstate sy) (scube sy) W EM solve cmd_fail n_init gen_on (has_bads_of sy) bmc_result
                                (slit_holds sy) (st_bad0 sy) (st_step0 sy) (st_trans sy) (st_bad sy) sstates fuel bf
                                sys_finite (sys_oracle_ok Htr) Hnf).
  Qed.

  Hypothesis Hcls : fin_class sy = true.

  Theorem pdr_model_unknown_only_at_limit_sys fuel bf st' :
    truthful_sys -> no_faults slit (sstate sy) W EM solve cmd_fail bmc_result ->
    run fuel bf = Ok (VUnknown W, st') ->
    (MAX_FRAMES < length (p_frames slit (sstate sy) EM st') /\ MAX_FRAMES <= nstates) \/
    (bmc_result = BmcOther W EM /\ exists d : nat, d <= MAX_FRAMES /\ bad_reachable_within sy d).
  Proof.
    intros Htr Hnf H. rewrite <- sstates_len.
    destruct (pdr_model_unknown_only_at_limit slit slit_eqb (sstate sy) (scube sy) W EM solve cmd_fail n_init gen_on (has_bads_of sy)
                bmc_result (slit_holds sy) (st_bad0 sy) (st_step0 sy) (st_trans sy) (st_bad sy) sstates fuel bf st'
                sys_finite (sys_oracle_ok Htr) Hnf H) as [Hl | (Hb & d & Hd & Hu)]; [now left | right].
    split; [exact Hb |]. exists d. split; [exact Hd | now apply unsafe_exec].
  Qed.

  Theorem pdr_model_total_small_sys fuel bf :
    truthful_sys -> no_faults slit (sstate sy) W EM solve cmd_fail bmc_result ->
    S nstates <= MAX_FRAMES ->
    pdr_fuel_bound nstates < fuel -> pdr_block_fuel_bound nstates < bf ->
    (exists st', run fuel bf = Ok (VSuccess W, st') /\ ~ bad_reachable sy) \/
    (exists w st', run fuel bf = Ok (VFail W w, st') /\ bmc_result = BmcFail W EM w /\
                   exists d : nat, d <= MAX_FRAMES /\ bad_reachable_within sy d) \/
    (exists st', run fuel bf = Ok (VUnknown W, st') /\ bmc_result = BmcOther W EM /\
                 exists d : nat, d <= MAX_FRAMES /\ bad_reachable_within sy d).
  Proof.
    intros Htr Hnf. rewrite <- sstates_len. intros Hsmall Hf Hbf.
    destruct (pdr_model_total_small slit slit_eqb (sstate sy) (scube sy) W EM solve cmd_fail n_init gen_on (has_bads_of sy)
                bmc_result (slit_holds sy) (st_bad0 sy) (st_step0 sy) (st_trans sy) (st_bad sy) sstates fuel bf
                sys_finite (sys_oracle_ok Htr) Hnf Hsmall Hf Hbf)
      as [(st' & H & Hs) | [(w & st' & H & Hb & d & Hd & Hu) | (st' & H & Hb & d & Hd & Hu)]].
    - left. exists st'. split; [exact H | now apply ssafe_not_reachable].
    - right. left. exists w, st'. split; [exact H |]. split; [exact Hb |]. exists d. split; [exact Hd | now apply unsafe_exec].
    - right. right. exists st'. split; [exact H |]. split; [exact Hb |]. exists d. split; [exact Hd | now apply unsafe_exec].
  Qed.

  (** every counterexample of at most MAX_FRAMES steps is found, whatever the number of state bits *)
  Theorem pdr_model_fail_complete_sys fuel bf k :
    truthful_sys -> no_faults slit (sstate sy) W EM solve cmd_fail bmc_result ->
    bad_reachable_within sy k -> k <= MAX_FRAMES ->
    pdr_fuel_bound nstates < fuel -> pdr_block_fuel_bound nstates < bf ->
    (exists w st', run fuel bf = Ok (VFail W w, st') /\ bmc_result = BmcFail W EM w) \/
    (exists st', run fuel bf = Ok (VUnknown W, st') /\ bmc_result = BmcOther W EM).
  Proof.
    intros Htr Hnf (trace & Hex & Hlen & Hbad) Hk. rewrite <- sstates_len. intros Hf Hbf.
    apply (pdr_model_fail_complete slit slit_eqb (sstate sy) (scube sy) W EM solve cmd_fail n_init gen_on (has_bads_of sy)
             bmc_result (slit_holds sy) (st_bad0 sy) (st_step0 sy) (st_trans sy) (st_bad sy) sstates fuel bf (pred (length trace))
             sys_finite (sys_oracle_ok Htr) Hnf); try assumption; [| lia].
    now apply (exec_unsafe sy Hcls trace Hex).
  Qed.

  (** a system whose counterexamples are all longer than MAX_FRAMES steps: Unknown at the frame limit *)
  Theorem pdr_model_deep_unknown_sys fuel bf :
    truthful_sys -> no_faults slit (sstate sy) W EM solve cmd_fail bmc_result ->
    bad_reachable sy -> (forall k, k <= MAX_FRAMES -> ~ bad_reachable_within sy k) ->
    pdr_fuel_bound nstates < fuel -> pdr_block_fuel_bound nstates < bf ->
    exists st', run fuel bf = Ok (VUnknown W, st') /\ MAX_FRAMES < length (p_frames slit (sstate sy) EM st').
  Proof.
    intros Htr Hnf (k0 & trace & Hex & _ & Hbad) Hdeep. rewrite <- sstates_len. intros Hf Hbf.
    apply (pdr_model_deep_unknown slit slit_eqb (sstate sy) (scube sy) W EM solve cmd_fail n_init gen_on (has_bads_of sy)
             bmc_result (slit_holds sy) (st_bad0 sy) (st_step0 sy) (st_trans sy) (st_bad sy) sstates fuel bf
             sys_finite (sys_oracle_ok Htr) Hnf); try assumption.
    - exists (pred (length trace)). now apply (exec_unsafe sy Hcls trace Hex).
    - intros d Hd Hu. apply (Hdeep d Hd). now apply unsafe_exec.
  Qed.
End PdrTerminationSys.

(** ** the hypotheses are satisfiable: the exhaustive-search oracle over the listed valuations is truthful
    and never answers "unknown"; with it (and a BMC oracle that returns a witness) the model decides every
    small system of the class *)
Section PdrTerminationEnum.
  Variable sy : sys.
  Hypothesis Hcls : fin_class sy = true.
  Variable W : Type.
  Variable w : W.
  Variable n_init : nat.
  Variable gen_on : bool.

  Notation esolve := (enum_solve slit (sstate sy) unit (slit_holds sy) (st_bad0 sy) (st_step0 sy) (st_trans sy) (st_bad sy) (sstates sy)).
  Notation erun fuel bf :=
    (pdr slit slit_eqb (sstate sy) (scube sy) W unit esolve (fun _ => None) n_init gen_on (has_bads_of sy) (BmcFail W unit w) fuel bf).

  Lemma slit_eqb_refl (l : slit) : slit_eqb l l = true.
  Proof. unfold slit_eqb. now rewrite N.eqb_refl, eqb_reflx. Qed.

  Theorem pdr_enum_total_small_sys fuel bf :
    S (nstates sy) <= MAX_FRAMES ->
    pdr_fuel_bound (nstates sy) < fuel -> pdr_block_fuel_bound (nstates sy) < bf ->
    (exists st', erun fuel bf = Ok (VSuccess W, st') /\ ~ bad_reachable sy) \/
    (exists st', erun fuel bf = Ok (VFail W w, st') /\ exists d : nat, d <= MAX_FRAMES /\ bad_reachable_within sy d).
  Proof.
    intros Hsmall Hf Hbf.
    assert (Htr : forall n q, truthful slit slit_eqb (sstate sy) unit (slit_holds sy) (st_bad0 sy) (st_step0 sy) (st_trans sy) (st_bad sy)
                                       q (esolve n q)).
    { intros n q. apply enum_solve_truthful; [apply sstates_all | apply slit_eqb_refl]. }
    assert (Hnf : no_faults slit (sstate sy) W unit esolve (fun _ => None) (BmcFail W unit w)).
    { split; [| intros e; discriminate]. split; [| split; [| reflexivity]].
      - intros n q. apply enum_solve_total.
      - intros n q e. apply enum_solve_total. }
    destruct (pdr_model_total_small_sys sy W unit esolve (fun _ => None) n_init gen_on (BmcFail W unit w) Hcls fuel bf Htr Hnf Hsmall Hf Hbf)
      as [(st' & H & Hs) | [(w0 & st' & H & Hb & Hd) | (st' & _ & Hb & _)]].
    - left. now exists st'.
    - right. inversion Hb; subst w0. now exists st'.
    - discriminate Hb.
  Qed.
End PdrTerminationEnum.

(** ** a concrete system on which the model answers Unknown: the 11-bit counter c' = c + 1 from 0 with
    bad = (c == 1500) - 2048 valuations, the only counterexamples have 1500 + 2048 i steps *)
Open Scope string_scope.
Definition dc_c : expr := BVSymbol "c" 11.
Definition deep_counter : sys :=
  {| s_inputs := [];
     s_states := [ {| st_sym := dc_c; st_init := Some (BVLiteral 11 0); st_next := Some (BVAdd dc_c (BVLiteral 11 1) 11) |} ];
     s_outputs := []; s_bads := [BVEqual dc_c (BVLiteral 11 1500)]; s_constraints := [] |}.
Close Scope string_scope.

Lemma deep_counter_spec : fin_class deep_counter = true /\ reach_spec deep_counter = Unsafe 1500.
Proof. vm_compute. split; reflexivity. Qed.

Theorem pdr_model_unknown_on_deep_counter (W EM : Type)
        (solve : nat -> query slit -> answer slit (sstate deep_counter) EM) (cmd_fail : nat -> option EM) (n_init : nat)
        (gen_on : bool) (bmc_result : bmc_answer W EM) (fuel bf : nat) :
  (forall n q, truthful slit slit_eqb (sstate deep_counter) EM (slit_holds deep_counter) (st_bad0 deep_counter) (st_step0 deep_counter)
                        (st_trans deep_counter) (st_bad deep_counter) q (solve n q)) ->
  no_faults slit (sstate deep_counter) W EM solve cmd_fail bmc_result ->
  pdr_fuel_bound (nstates deep_counter) < fuel -> pdr_block_fuel_bound (nstates deep_counter) < bf ->
  exists st', pdr slit slit_eqb (sstate deep_counter) (scube deep_counter) W EM solve cmd_fail n_init gen_on
                  (has_bads_of deep_counter) bmc_result fuel bf = Ok (VUnknown W, st') /\
              MAX_FRAMES < length (p_frames slit (sstate deep_counter) EM st').
Proof.
  intros Htr Hnf Hf Hbf. destruct deep_counter_spec as [Hcls Hspec].
  apply (reach_spec_unsafe_iff deep_counter Hcls 1500) in Hspec. destruct Hspec as [Hreach Hmin].
  apply (pdr_model_deep_unknown_sys deep_counter W EM solve cmd_fail n_init gen_on bmc_result Hcls fuel bf Htr Hnf); try assumption.
  - now exists 1500.
  - intros k Hk. apply Hmin. unfold MAX_FRAMES in Hk. lia.
Qed.
