(** * Proofs/ReachFixProofs.v — [reach_spec] decides unbounded reachability of a
    bad state for the systems of the class [fin_class].

    The graph explored by [reach_spec] (nodes = numbers encoding valuations of all
    signals) is related to the executions of Spec/System.v in both directions:
    every execution maps to a path of the graph (encode each valuation), every
    path of the graph is realised by an execution (decode each node).  Together
    with Proofs/BfsProofs.v this gives [reach_spec_exact]. *)
From Coq Require Import List NArith Lia Bool.
From Patronus Require Import ReachFix BfsProofs EvalProofs.
Import ListNotations.
Open Scope N_scope.

(** ** agreement of two valuations on a list of signals *)
Definition agree (sigs : list sig) (rho rho' : env) : Prop :=
  forall n w, In (n, w) sigs -> rho_bv rho n w = rho_bv rho' n w.

Lemma agree_refl sigs rho : agree sigs rho rho.
Proof. intros n w _. reflexivity. Qed.

Lemma agree_sym sigs rho rho' : agree sigs rho rho' -> agree sigs rho' rho.
Proof. intros H n w Hin. symmetry. now apply H. Qed.

Lemma agree_trans sigs a b c : agree sigs a b -> agree sigs b c -> agree sigs a c.
Proof. intros H1 H2 n w Hin. rewrite (H1 n w Hin). now apply H2. Qed.

Lemma sig_mem_In s l : sig_mem s l = true <-> In s l.
Proof.
  unfold sig_mem. rewrite existsb_exists. split.
  - intros (x & Hx & He). unfold sig_eqb in He. apply andb_true_iff in He. destruct He as [Hn Hw].
    apply String.eqb_eq in Hn. apply N.eqb_eq in Hw. destruct s, x. cbn in *. now subst.
  - intros Hin. exists s. split; [exact Hin |]. unfold sig_eqb.
    now rewrite String.eqb_refl, N.eqb_refl.
Qed.

(** an expression of the class depends only on the signals *)
Lemma ebv_agree sigs rho rho' (Hag : agree sigs rho rho') e :
  closed_bv sigs e = true -> ebv rho e = ebv rho' e.
Proof.
  induction e; cbn [closed_bv]; intros H; try discriminate H;
    repeat match goal with
           | H : _ && _ = true |- _ => apply andb_true_iff in H; destruct H
           end;
    cbn [ebv];
    repeat match goal with
           | IH : closed_bv sigs ?x = true -> _, H : closed_bv sigs ?x = true |- _ =>
               rewrite (IH H); clear IH
           end;
    try reflexivity.
  apply Hag. now apply sig_mem_In.
Qed.

Lemma holds_agree sigs rho rho' e :
  agree sigs rho rho' -> closed_bv sigs e = true -> holds rho e = holds rho' e.
Proof. intros Hag Hc. unfold holds. now rewrite (ebv_agree sigs rho rho' Hag e Hc). Qed.

Lemma forallb_ext_in {A} (f g : A -> bool) l : (forall x, In x l -> f x = g x) -> forallb f l = forallb g l.
Proof.
  induction l as [| a l IH]; intros H; [reflexivity |]. cbn.
  rewrite (H a (or_introl eq_refl)). f_equal. apply IH. intros x Hx. apply H. now right.
Qed.

Lemma existsb_ext_in {A} (f g : A -> bool) l : (forall x, In x l -> f x = g x) -> existsb f l = existsb g l.
Proof.
  induction l as [| a l IH]; intros H; [reflexivity |]. cbn.
  rewrite (H a (or_introl eq_refl)). f_equal. apply IH. intros x Hx. apply H. now right.
Qed.

(** ** encoding and decoding valuations *)
Definition bounded (sigs : list sig) (rho : env) : Prop :=
  forall n w, In (n, w) sigs -> rho_bv rho n w < 2 ^ w.

Lemma names_nodup_NoDup l : names_nodup l = true -> NoDup l.
Proof.
  induction l as [| x l IH]; cbn [names_nodup]; intros H; [constructor |].
  apply andb_true_iff in H. destruct H as [Hx Hl]. constructor; [| now apply IH].
  intros Hin. apply negb_true_iff in Hx.
  assert (existsb (String.eqb x) l = true) by (apply existsb_exists; exists x; split; [exact Hin | apply String.eqb_refl]).
  congruence.
Qed.

Lemma pow2_nz w : 2 ^ w <> 0.
Proof. apply N.pow_nonzero. discriminate. Qed.

Lemma env_of_idx sigs rho :
  NoDup (map fst sigs) -> bounded sigs rho -> agree sigs (env_of sigs (idx_of sigs rho)) rho.
Proof.
  induction sigs as [| [n0 w0] r IH]; intros Hnd Hb n w Hin; [destruct Hin |].
  cbn [map fst] in Hnd. inversion Hnd as [| ? ? Hn0 Hnd']; subst.
  cbn [env_of idx_of]. unfold upd_bv. cbn [rho_bv].
  assert (Hv0 : rho_bv rho n0 w0 < 2 ^ w0) by (apply Hb; now left).
  assert (Hmod : (rho_bv rho n0 w0 + 2 ^ w0 * idx_of r rho) mod 2 ^ w0 = rho_bv rho n0 w0).
  { rewrite (N.mul_comm (2 ^ w0)). rewrite N.mod_add by apply pow2_nz. now apply N.mod_small. }
  assert (Hdiv : (rho_bv rho n0 w0 + 2 ^ w0 * idx_of r rho) / 2 ^ w0 = idx_of r rho).
  { rewrite (N.mul_comm (2 ^ w0)). rewrite N.div_add by apply pow2_nz.
    rewrite (N.div_small _ _ Hv0). reflexivity. }
  destruct Hin as [Heq | Hin].
  - inversion Heq; subst. rewrite String.eqb_refl, N.eqb_refl. cbn [andb]. exact Hmod.
  - assert (Hne : String.eqb n n0 = false).
    { apply String.eqb_neq. intros ->. apply Hn0. apply in_map_iff. exists (n0, w). now split. }
    rewrite Hne. cbn [andb]. rewrite Hdiv.
    apply IH; [exact Hnd' | | exact Hin]. intros n' w' Hin'. apply Hb. now right.
Qed.

Lemma idx_of_bound sigs rho : bounded sigs rho -> idx_of sigs rho < 2 ^ bits_of sigs.
Proof.
  induction sigs as [| [n0 w0] r IH]; intros Hb.
  - cbn. lia.
  - cbn [idx_of bits_of fold_right snd]. fold (bits_of r).
    assert (Hv0 : rho_bv rho n0 w0 < 2 ^ w0) by (apply Hb; now left).
    assert (Hr : idx_of r rho < 2 ^ bits_of r) by (apply IH; intros n w Hin; apply Hb; now right).
    rewrite N.pow_add_r.
    assert (H1 : 2 ^ w0 * (idx_of r rho + 1) <= 2 ^ w0 * 2 ^ bits_of r) by (apply N.mul_le_mono_l; lia).
    rewrite N.mul_add_distr_l, N.mul_1_r in H1. lia.
Qed.

Lemma idx_of_agree sigs rho rho' : agree sigs rho rho' -> idx_of sigs rho = idx_of sigs rho'.
Proof.
  induction sigs as [| [n0 w0] r IH]; intros Hag; [reflexivity |].
  cbn [idx_of]. rewrite (Hag n0 w0 (or_introl eq_refl)). f_equal. f_equal.
  apply IH. intros n w Hin. apply Hag. now right.
Qed.

Lemma In_nrange x n : In x (nrange n) <-> x < n.
Proof.
  unfold nrange. rewrite in_map_iff. split.
  - intros (k & <- & Hk). apply in_seq in Hk. lia.
  - intros Hlt. exists (N.to_nat x). split; [apply N2Nat.id |]. apply in_seq. lia.
Qed.

Lemma env0_wf : env_wf env0.
Proof.
  split; cbn; intros.
  - assert (H := pow2_nz w). lia.
  - assert (H := pow2_nz dw). lia.
Qed.

Lemma upd_bv_wf rho n w v : env_wf rho -> v < 2 ^ w -> env_wf (upd_bv rho n w v).
Proof.
  intros [Hbv Harr] Hv. split; cbn [upd_bv rho_bv rho_arr]; [| exact Harr].
  intros n' w'. destruct (String.eqb n' n && (w' =? w)) eqn:E; [| apply Hbv].
  apply andb_true_iff in E. destruct E as [_ E]. apply N.eqb_eq in E. now subst.
Qed.

Lemma env_of_wf sigs i : env_wf (env_of sigs i).
Proof.
  revert i. induction sigs as [| [n w] r IH]; intros i; cbn [env_of]; [apply env0_wf |].
  apply upd_bv_wf; [apply IH |]. apply N.mod_lt. apply pow2_nz.
Qed.

Lemma env_wf_bounded sigs rho : env_wf rho -> bounded sigs rho.
Proof. intros [H _] n w _. apply H. Qed.

(** ** what membership in the class gives *)
Record class_facts (sy : sys) : Prop := {
  cf_ok : sys_ok sy = true;
  cf_inputs : forall i, In i (s_inputs sy) -> is_bv_symbol i = true;
  cf_states : forall st, In st (s_states sy) -> is_bv_symbol (st_sym st) = true;
  cf_nodup : NoDup (map fst (all_sigs sy));
  cf_nodup_free : NoDup (map fst (free_sigs sy));
  cf_init : forall st e, In st (s_states sy) -> st_init st = Some e -> closed_bv (all_sigs sy) e = true;
  cf_next : forall st e, In st (s_states sy) -> st_next st = Some e -> closed_bv (all_sigs sy) e = true;
  cf_bads : forall e, In e (s_bads sy) -> closed_bv (all_sigs sy) e = true;
  cf_cons : forall e, In e (s_constraints sy) -> closed_bv (all_sigs sy) e = true
}.

Lemma fin_class_facts sy : fin_class sy = true -> class_facts sy.
Proof.
  unfold fin_class. intros H.
  apply andb_true_iff in H. destruct H as [H Hcons].
  apply andb_true_iff in H. destruct H as [H Hbads].
  apply andb_true_iff in H. destruct H as [H Hexprs].
  apply andb_true_iff in H. destruct H as [H Hndf].
  apply andb_true_iff in H. destruct H as [H Hnd].
  apply andb_true_iff in H. destruct H as [H Hsts].
  apply andb_true_iff in H. destruct H as [Hok Hins].
  rewrite forallb_forall in Hcons, Hbads, Hexprs, Hsts, Hins.
  constructor; try assumption; try (now apply names_nodup_NoDup).
  - intros st e Hin He. specialize (Hexprs st Hin).
    apply andb_true_iff in Hexprs. destruct Hexprs as [Hi _]. rewrite He in Hi. exact Hi.
  - intros st e Hin He. specialize (Hexprs st Hin).
    apply andb_true_iff in Hexprs. destruct Hexprs as [_ Hn]. rewrite He in Hn. exact Hn.
Qed.

Section SysGraph.
  Variable sy : sys.
  Hypothesis Hcls : fin_class sy = true.
  Let F := fin_class_facts sy Hcls.
  Let sigs := all_sigs sy.
  Let fsigs := free_sigs sy.

  Lemma constraints_agree rho rho' : agree sigs rho rho' -> constraints_hold sy rho = constraints_hold sy rho'.
  Proof.
    intros Hag. unfold constraints_hold. apply forallb_ext_in. intros e He.
    apply (holds_agree sigs); [exact Hag | now apply (cf_cons sy F)].
  Qed.

  Lemma some_bad_agree rho rho' : agree sigs rho rho' -> some_bad sy rho = some_bad sy rho'.
  Proof.
    intros Hag. unfold some_bad. apply existsb_ext_in. intros e He.
    apply (holds_agree sigs); [exact Hag | now apply (cf_bads sy F)].
  Qed.

  Lemma state_sig_in st n w : In st (s_states sy) -> st_sym st = BVSymbol n w -> In (n, w) sigs.
  Proof.
    intros Hin Hs. unfold sigs, all_sigs. apply in_or_app. right.
    unfold state_sigs. apply in_flat_map. exists st. split; [exact Hin |]. rewrite Hs. now left.
  Qed.

  Lemma is_initial_b_agree rho rho' : agree sigs rho rho' -> is_initial_b sy rho = is_initial_b sy rho'.
  Proof.
    intros Hag. unfold is_initial_b. apply forallb_ext_in. intros st Hst.
    destruct (st_init st) as [e |] eqn:Hi; [| reflexivity].
    destruct (st_sym st) eqn:Hs; try reflexivity.
    rewrite (Hag name w (state_sig_in st name w Hst Hs)).
    now rewrite (ebv_agree sigs rho rho' Hag e (cf_init sy F st e Hst Hi)).
  Qed.

  Lemma is_initial_b_spec rho : is_initial_b sy rho = true <-> is_initial sy rho.
  Proof.
    unfold is_initial_b, is_initial. rewrite forallb_forall. split.
    - intros H st e Hst Hi. specialize (H st Hst). rewrite Hi in H.
      pose proof (cf_states sy F st Hst) as Hb. destruct (st_sym st); try discriminate Hb.
      cbn [sym_agrees]. now apply N.eqb_eq.
    - intros H st Hst. destruct (st_init st) as [e |] eqn:Hi; [| reflexivity].
      specialize (H st e Hst Hi). destruct (st_sym st); try reflexivity.
      cbn [sym_agrees] in H. now apply N.eqb_eq.
  Qed.

  (** *** the successor valuation *)
  Definition nstep (rho : env) (acc : env) (st : state) : env :=
    match st_next st with Some e => assign acc (st_sym st) rho e | None => acc end.

  Lemma next_env_fold rho free : next_env sy rho free = fold_left (nstep rho) (s_states sy) free.
  Proof. reflexivity. Qed.

  Lemma fold_next_agree rho rho' (sts : list state) :
    (forall st e, In st sts -> st_next st = Some e -> ebv rho e = ebv rho' e) ->
    forall (P : sig -> Prop) acc acc',
      (forall n w, P (n, w) -> rho_bv acc n w = rho_bv acc' n w) ->
      forall n w, (P (n, w) \/ exists st e, In st sts /\ st_next st = Some e /\ st_sym st = BVSymbol n w) ->
                  rho_bv (fold_left (nstep rho) sts acc) n w = rho_bv (fold_left (nstep rho') sts acc') n w.
  Proof.
    induction sts as [| st0 sts IH]; intros Hev P acc acc' HP n w Hnw.
    - cbn [fold_left]. destruct Hnw as [Hp | (st & e & [] & _)]. now apply HP.
    - cbn [fold_left].
      apply (IH (fun st e Hin => Hev st e (or_intror Hin))
                (fun s => P s \/ exists e, st_next st0 = Some e /\ st_sym st0 = BVSymbol (fst s) (snd s))).
      + intros n' w' [Hp | (e & He & Hs)].
        * unfold nstep. destruct (st_next st0) as [e0 |] eqn:He0; [| now apply HP].
          unfold assign. destruct (st_sym st0); try (now apply HP); cbn [upd_bv upd_arr rho_bv].
          rewrite (Hev st0 e0 (or_introl eq_refl) He0).
          destruct (String.eqb n' name && (w' =? w0)); [reflexivity | now apply HP].
        * cbn [fst snd] in Hs. unfold nstep. rewrite He. unfold assign. rewrite Hs. cbn [upd_bv rho_bv].
          rewrite String.eqb_refl, N.eqb_refl. cbn [andb]. apply (Hev st0 e); [now left | exact He].
      + destruct Hnw as [Hp | (st & e & [<- | Hin] & He & Hs)].
        * left. now left.
        * left. right. exists e. now split.
        * right. exists st, e. now split.
  Qed.

  Lemma sigs_cover n w : In (n, w) sigs ->
    In (n, w) fsigs \/ exists st e, In st (s_states sy) /\ st_next st = Some e /\ st_sym st = BVSymbol n w.
  Proof.
    unfold sigs, all_sigs, fsigs, free_sigs. intros Hin. apply in_app_or in Hin. destruct Hin as [Hin | Hin].
    - left. apply in_or_app. now left.
    - unfold state_sigs in Hin. apply in_flat_map in Hin. destruct Hin as (st & Hst & Hs).
      destruct (st_sym st) eqn:Es; cbn [sig_of In] in Hs; try contradiction.
      destruct Hs as [Hs | []]. inversion Hs; subst.
      destruct (st_next st) as [e |] eqn:En.
      + right. exists st, e. now split.
      + left. apply in_or_app. right. apply in_flat_map. exists st. split; [exact Hst |].
        rewrite En, Es. now left.
  Qed.

  Lemma next_env_agree rho rho' free free' :
    agree sigs rho rho' -> agree fsigs free free' -> agree sigs (next_env sy rho free) (next_env sy rho' free').
  Proof.
    intros Hag Hfree n w Hin. rewrite !next_env_fold.
    apply (fold_next_agree rho rho' (s_states sy)) with (P := fun s => In s fsigs).
    - intros st e Hst He. apply (ebv_agree sigs); [exact Hag | now apply (cf_next sy F st e)].
    - intros n' w' Hp. now apply Hfree.
    - now apply sigs_cover.
  Qed.

  Lemma state_ok_next st e n w :
    In st (s_states sy) -> st_next st = Some e -> st_sym st = BVSymbol n w -> wt e = true /\ type_of e = TBV w.
  Proof.
    intros Hst He Hs. pose proof (cf_ok sy F) as Hok. unfold sys_ok in Hok.
    apply andb_true_iff in Hok. destruct Hok as [Hok _].
    apply andb_true_iff in Hok. destruct Hok as [Hok _].
    apply andb_true_iff in Hok. destruct Hok as [Hok _].
    apply andb_true_iff in Hok. destruct Hok as [_ Hsts].
    rewrite forallb_forall in Hsts. specialize (Hsts st Hst).
    unfold state_ok in Hsts. rewrite He, Hs in Hsts.
    apply andb_true_iff in Hsts. destruct Hsts as [_ Hn].
    apply andb_true_iff in Hn. destruct Hn as [Hwt Hty].
    split; [exact Hwt |]. cbn [type_of] in Hty. destruct (type_of e); cbn [ty_eqb] in Hty; try discriminate.
    f_equal. now apply N.eqb_eq.
  Qed.

  Lemma next_env_wf rho free : env_wf rho -> env_wf free -> env_wf (next_env sy rho free).
  Proof.
    intros Hrho Hfree. rewrite next_env_fold.
    assert (Hall : forall st, In st (s_states sy) -> In st (s_states sy)) by auto.
    revert free Hfree Hall. generalize (s_states sy) at 1 3. intros sts.
    induction sts as [| st0 sts IH]; intros acc Hacc Hall; cbn [fold_left]; [exact Hacc |].
    apply IH; [| intros st Hst; apply Hall; now right].
    unfold nstep. destruct (st_next st0) as [e |] eqn:He; [| exact Hacc].
    pose proof (cf_states sy F st0 (Hall st0 (or_introl eq_refl))) as Hb.
    destruct (st_sym st0) eqn:Hs; try discriminate Hb. cbn [assign].
    apply upd_bv_wf; [exact Hacc |].
    destruct (state_ok_next st0 e name w (Hall st0 (or_introl eq_refl)) He Hs) as [Hwt Hty].
    now apply (ebv_bound rho Hrho e w).
  Qed.

  (** *** nodes *)
  Lemma node_env_wf i : env_wf (node_env sy i).
  Proof. apply env_of_wf. Qed.

  Lemma node_roundtrip rho : env_wf rho -> agree sigs (node_env sy (idx_of sigs rho)) rho.
  Proof. intros Hwf. apply env_of_idx; [apply (cf_nodup sy F) | now apply env_wf_bounded]. Qed.

  Lemma idx_in_nodes rho : env_wf rho -> In (idx_of sigs rho) (sys_nodes sy).
  Proof. intros Hwf. apply In_nrange. apply idx_of_bound. now apply env_wf_bounded. Qed.

  Lemma sys_inits_nodes x : In x (sys_inits sy) -> In x (sys_nodes sy).
  Proof. unfold sys_inits. intros H. apply filter_In in H. apply H. Qed.

  Lemma node_succs_nodes x y : In x (sys_nodes sy) -> In y (node_succs sy x) -> In y (sys_nodes sy).
  Proof.
    intros _ Hy. unfold node_succs in Hy. apply filter_In in Hy. destruct Hy as [Hy _].
    apply in_map_iff in Hy. destruct Hy as (f & <- & _). unfold node_step.
    apply idx_in_nodes. apply next_env_wf; [apply node_env_wf | apply env_of_wf].
  Qed.

  Notation reach := (reach_in (node_succs sy) (sys_inits sy)).

  (** *** executions map to paths *)
  Lemma step_complete rho free :
    env_wf rho -> env_wf free -> constraints_hold sy (next_env sy rho free) = true ->
    In (idx_of sigs (next_env sy rho free)) (node_succs sy (idx_of sigs rho)).
  Proof.
    intros Hrho Hfree Hc. unfold node_succs. apply filter_In.
    assert (Hwf' : env_wf (next_env sy rho free)) by now apply next_env_wf.
    split.
    - apply in_map_iff. exists (idx_of fsigs free). split.
      + unfold node_step. apply idx_of_agree. apply next_env_agree.
        * now apply node_roundtrip.
        * apply env_of_idx; [apply (cf_nodup_free sy F) | now apply env_wf_bounded].
      + apply In_nrange. apply idx_of_bound. now apply env_wf_bounded.
    - rewrite (constraints_agree _ (next_env sy rho free)); [exact Hc | now apply node_roundtrip].
  Qed.

  Lemma init_complete rho :
    env_wf rho -> is_initial sy rho -> constraints_hold sy rho = true -> In (idx_of sigs rho) (sys_inits sy).
  Proof.
    intros Hwf Hi Hc. unfold sys_inits. apply filter_In. split; [now apply idx_in_nodes |].
    unfold node_init. pose proof (node_roundtrip rho Hwf) as Hag.
    rewrite (is_initial_b_agree _ rho Hag), (constraints_agree _ rho Hag), Hc.
    apply is_initial_b_spec in Hi. now rewrite Hi.
  Qed.

  (** a signal that no state with a next function carries keeps the value of the free valuation *)
  Lemma fold_next_other rho n w (sts : list state) : forall acc,
      (forall st e, In st sts -> st_next st = Some e -> st_sym st <> BVSymbol n w) ->
      rho_bv (fold_left (nstep rho) sts acc) n w = rho_bv acc n w.
  Proof.
    induction sts as [| st0 sts IH]; intros acc Hno; cbn [fold_left]; [reflexivity |].
    rewrite IH by (intros st e Hin; apply Hno; now right).
    unfold nstep. destruct (st_next st0) as [e |] eqn:He; [| reflexivity].
    specialize (Hno st0 e (or_introl eq_refl) He).
    unfold assign. destruct (st_sym st0); try reflexivity; cbn [upd_bv upd_arr rho_bv].
    destruct (String.eqb n name && (w =? w0)) eqn:E; [| reflexivity].
    apply andb_true_iff in E. destruct E as [E1 E2]. apply String.eqb_eq in E1. apply N.eqb_eq in E2.
    subst. now contradiction Hno.
  Qed.

  Definition has_next (n : string) (w : N) : bool :=
    existsb (fun st => match st_next st, st_sym st with
                       | Some _, BVSymbol n' w' => String.eqb n n' && (w =? w')
                       | _, _ => false end) (s_states sy).

  (** the free valuation only matters where it is not overwritten: applying the step to its own
      result changes nothing (at every name, not only at the signals) *)
  Lemma next_env_idem rho f n w :
    rho_bv (next_env sy rho (next_env sy rho f)) n w = rho_bv (next_env sy rho f) n w.
  Proof.
    rewrite (next_env_fold rho (next_env sy rho f)). rewrite (next_env_fold rho f) at 2.
    apply (fold_next_agree rho rho (s_states sy)) with
      (P := fun s => rho_bv (next_env sy rho f) (fst s) (snd s) = rho_bv f (fst s) (snd s)).
    - reflexivity.
    - intros n' w' Hp. exact Hp.
    - destruct (has_next n w) eqn:Hn.
      + right. unfold has_next in Hn. apply existsb_exists in Hn. destruct Hn as (st & Hst & Hm).
        destruct (st_next st) as [e |] eqn:He; [| discriminate Hm].
        destruct (st_sym st) eqn:Hs; try discriminate Hm.
        apply andb_true_iff in Hm. destruct Hm as [E1 E2]. apply String.eqb_eq in E1. apply N.eqb_eq in E2.
        subst. exists st, e. now split.
      + left. cbn [fst snd]. rewrite next_env_fold. apply fold_next_other.
        intros st e Hst He Hs.
        assert (has_next n w = true); [| congruence].
        unfold has_next. apply existsb_exists. exists st. split; [exact Hst |].
        rewrite He, Hs. now rewrite String.eqb_refl, N.eqb_refl.
  Qed.

  Lemma step_complete' rho f :
    env_wf rho -> env_wf (next_env sy rho f) -> constraints_hold sy (next_env sy rho f) = true ->
    In (idx_of sigs (next_env sy rho f)) (node_succs sy (idx_of sigs rho)).
  Proof.
    intros Hrho Hwf Hc. set (g := next_env sy rho f) in *.
    assert (Hag : agree sigs (next_env sy rho g) g) by (intros n w _; apply next_env_idem).
    rewrite <- (idx_of_agree sigs _ _ Hag).
    apply step_complete; [exact Hrho | exact Hwf |].
    now rewrite (constraints_agree _ g Hag).
  Qed.

  Lemma run_from_last_cons rho f frees :
    last (run_from sy rho (f :: frees)) env0 = last (run_from sy (next_env sy rho f) frees) env0.
  Proof. cbn [run_from]. destruct frees; reflexivity. Qed.

  Lemma run_from_head rho frees : In rho (run_from sy rho frees).
  Proof. destruct frees; cbn [run_from]; now left. Qed.

  Lemma run_complete frees : forall rho k,
      reach k (idx_of sigs rho) ->
      (forall r, In r (run_from sy rho frees) -> env_wf r) ->
      forallb (constraints_hold sy) (run_from sy rho frees) = true ->
      reach (k + length frees) (idx_of sigs (last (run_from sy rho frees) env0)).
  Proof.
    induction frees as [| f frees IH]; intros rho k Hr Hwf Hc.
    - cbn. now rewrite Nat.add_0_r.
    - rewrite run_from_last_cons. cbn [length].
      replace (k + S (length frees))%nat with (S k + length frees)%nat by lia.
      cbn [run_from] in Hwf, Hc. cbn [forallb] in Hc. apply andb_true_iff in Hc. destruct Hc as [Hc0 Hc].
      assert (Hwfn : env_wf (next_env sy rho f)) by (apply Hwf; right; apply run_from_head).
      assert (Hcn : constraints_hold sy (next_env sy rho f) = true).
      { destruct frees; cbn [run_from forallb] in Hc; apply andb_true_iff in Hc; apply Hc. }
      apply IH.
      + apply (ri_step _ _ k (idx_of sigs rho)); [exact Hr |].
        apply step_complete'; [apply Hwf; now left | exact Hwfn | exact Hcn].
      + intros r Hin. apply Hwf. now right.
      + exact Hc.
  Qed.

  Lemma run_from_length frees : forall r, length (run_from sy r frees) = S (length frees).
  Proof. induction frees as [| f fs IHf]; intros r; cbn [run_from length]; [reflexivity | now rewrite IHf]. Qed.

  Lemma last_in {A} (l : list A) d : l <> [] -> In (last l d) l.
  Proof.
    induction l as [| a l IH]; [contradiction |]. intros _. destruct l as [| b l]; [now left |].
    right. apply IH. discriminate.
  Qed.

  Lemma run_from_ne rho frees : run_from sy rho frees <> [].
  Proof. destruct frees; discriminate. Qed.

  Lemma exec_to_path trace :
    is_execution sy trace ->
    exists x, reach (pred (length trace)) x /\ node_bad sy x = some_bad sy (last trace env0).
  Proof.
    intros (rho0 & frees & -> & Hi & Hwf & Hc).
    exists (idx_of sigs (last (run_from sy rho0 frees) env0)).
    rewrite run_from_length. cbn [pred]. split.
    - apply (run_complete frees rho0 0); [| exact Hwf | exact Hc].
      constructor. apply init_complete; [apply Hwf; apply run_from_head | exact Hi |].
      destruct frees; cbn [run_from forallb] in Hc; apply andb_true_iff in Hc; apply Hc.
    - unfold node_bad. apply some_bad_agree. apply node_roundtrip. apply Hwf.
      apply last_in. apply run_from_ne.
  Qed.

  (** *** paths are realised by executions *)
  Lemma run_from_snoc frees : forall rho g,
      run_from sy rho (frees ++ [g]) = run_from sy rho frees ++ [next_env sy (last (run_from sy rho frees) env0) g].
  Proof.
    induction frees as [| f frees IH]; intros rho g; [reflexivity |].
    cbn [app]. rewrite run_from_last_cons. cbn [run_from]. rewrite IH. reflexivity.
  Qed.

  Lemma path_to_exec k x :
    reach k x ->
    exists rho0 frees, length frees = k /\ is_initial sy rho0 /\
                       (forall r, In r (run_from sy rho0 frees) -> env_wf r) /\
                       forallb (constraints_hold sy) (run_from sy rho0 frees) = true /\
                       agree sigs (last (run_from sy rho0 frees) env0) (node_env sy x).
  Proof.
    induction 1 as [x Hx | k x y Hr IH Hy].
    - unfold sys_inits in Hx. apply filter_In in Hx. destruct Hx as [_ Hx].
      unfold node_init in Hx. apply andb_true_iff in Hx. destruct Hx as [Hi Hc].
      exists (node_env sy x), []. cbn [run_from last length forallb].
      split; [reflexivity |]. split; [now apply is_initial_b_spec |].
      split; [intros r [<- | []]; apply node_env_wf |]. split; [now rewrite Hc | apply agree_refl].
    - destruct IH as (rho0 & frees & Hlen & Hi & Hwf & Hc & Hag).
      unfold node_succs in Hy. apply filter_In in Hy. destruct Hy as [Hy Hcy].
      apply in_map_iff in Hy. destruct Hy as (f & <- & _).
      set (g := env_of fsigs f). set (lst := last (run_from sy rho0 frees) env0) in *.
      assert (Hlwf : env_wf lst) by (apply Hwf; apply last_in; apply run_from_ne).
      assert (Hnwf : env_wf (next_env sy lst g)) by (apply next_env_wf; [exact Hlwf | apply env_of_wf]).
      assert (Hnag : agree sigs (next_env sy lst g) (node_env sy (node_step sy x f))).
      { unfold node_step. fold sigs. fold fsigs. fold g.
        apply agree_trans with (b := next_env sy (node_env sy x) g).
        - apply next_env_agree; [exact Hag | apply agree_refl].
        - apply agree_sym. apply node_roundtrip. apply next_env_wf; [apply node_env_wf | apply env_of_wf]. }
      exists rho0, (frees ++ [g]). rewrite run_from_snoc. fold lst.
      split; [rewrite app_length; cbn; lia |]. split; [exact Hi |].
      split; [| split].
      + intros r Hin. apply in_app_or in Hin. destruct Hin as [Hin | [<- | []]]; [now apply Hwf | exact Hnwf].
      + rewrite forallb_app, Hc. cbn [forallb andb].
        rewrite (constraints_agree _ _ Hnag). now rewrite Hcy.
      + rewrite last_last. exact Hnag.
  Qed.

  (** *** bounded reachability of the specification = paths of the graph *)
  Lemma within_iff k :
    bad_reachable_within sy k <-> exists j x, (j <= k)%nat /\ reach j x /\ node_bad sy x = true.
  Proof.
    split.
    - intros (trace & Hex & Hlen & Hbad).
      destruct (exec_to_path trace Hex) as (x & Hr & Hb).
      exists (pred (length trace)), x. split; [lia |]. split; [exact Hr |]. now rewrite Hb.
    - intros (j & x & Hj & Hr & Hb).
      destruct (path_to_exec j x Hr) as (rho0 & frees & Hlen & Hi & Hwf & Hc & Hag).
      exists (run_from sy rho0 frees). split; [| split].
      + exists rho0, frees. split; [reflexivity | split; [exact Hi | split; [exact Hwf | exact Hc]]].
      + rewrite run_from_length. lia.
      + unfold node_bad in Hb. change (some_bad sy (last (run_from sy rho0 frees) env0) = true).
        now rewrite (some_bad_agree _ _ Hag).
  Qed.

  Theorem reach_spec_safe_iff : reach_spec sy = Safe <-> ~ bad_reachable sy.
  Proof.
    unfold reach_spec.
    rewrite (graph_reach_safe (node_succs sy) (node_bad sy) (sys_nodes sy) (sys_inits sy) sys_inits_nodes node_succs_nodes).
    unfold none_bad. split.
    - intros Hn (k & Hk). apply within_iff in Hk. destruct Hk as (j & x & _ & Hr & Hb).
      rewrite (Hn j x Hr) in Hb. discriminate.
    - intros Hn k x Hr. destruct (node_bad sy x) eqn:Hb; [| reflexivity].
      exfalso. apply Hn. exists k. apply within_iff. exists k, x. repeat split; [lia | exact Hr | exact Hb].
  Qed.

  Theorem reach_spec_unsafe_iff d :
    reach_spec sy = Unsafe d <->
    (bad_reachable_within sy d /\ forall k, (k < d)%nat -> ~ bad_reachable_within sy k).
  Proof.
    unfold reach_spec.
    rewrite (graph_reach_unsafe (node_succs sy) (node_bad sy) (sys_nodes sy) (sys_inits sy) sys_inits_nodes node_succs_nodes).
    unfold least_bad. split.
    - intros [(x & Hr & Hb) Hl]. split.
      + apply within_iff. exists d, x. repeat split; [lia | exact Hr | exact Hb].
      + intros k Hk Hw. apply within_iff in Hw. destruct Hw as (j & y & Hj & Hry & Hby).
        rewrite (Hl j y) in Hby; [discriminate | lia | exact Hry].
    - intros [Hw Hl]. apply within_iff in Hw. destruct Hw as (j & x & Hj & Hr & Hb).
      assert (j = d).
      { destruct (Nat.eq_dec j d) as [-> | Hne]; [reflexivity |]. exfalso.
        apply (Hl j); [lia |]. apply within_iff. exists j, x. repeat split; [lia | exact Hr | exact Hb]. }
      subst j. split; [now exists x |].
      intros k y Hk Hry. destruct (node_bad sy y) eqn:Hby; [| reflexivity]. exfalso.
      apply (Hl k Hk). apply within_iff. exists k, y. repeat split; [lia | exact Hry | exact Hby].
  Qed.

  Theorem reach_spec_total_sys : reach_spec sy <> OutOfFuel.
  Proof.
    unfold reach_spec.
    apply (graph_reach_total (node_succs sy) (node_bad sy) (sys_nodes sy) (sys_inits sy) sys_inits_nodes node_succs_nodes).
  Qed.
End SysGraph.
