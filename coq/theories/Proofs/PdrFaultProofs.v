(** * Proofs/PdrFaultProofs.v — solver faults in the concrete model of pdr.rs (property C15).

    The oracle of Model/PdrImpl.v may answer [AErr e] or [AUnknown] at any query, any
    declare/assert/define command may fail ([cmd_fail]), the BMC fallback may fail ([BmcErr]).
    Here: what the event log of a run looks like.
    - [clean l]: no error event in [l] and [AUnknown] answers only at relative-induction queries and
      at the query against the infinite frame;
    - a run that returns a verdict has a clean log: no verdict is ever computed after an error, or
      after an unknown answer to get_bad_cube / fix_gen_cube;
    - a run that returns [Err (ESolver e)] returns the FIRST error: the newest event of its log is the
      failing consultation (with that very [e], as given by the oracle), everything before it is clean;
    - a run that returns [Err (EUnknown k)] stopped at a query of kind [k] answered unknown, after a
      clean log.
    No semantic hypothesis is needed: these are properties of the control flow alone. *)
From Coq Require Import List Bool Arith Lia.
From Patronus Require Import Ic3 PdrImpl PdrImplProofs.
Import ListNotations.

Transparent ask.

Section PdrFault.
  Variable lit : Type.
  Variable lit_eqb : lit -> lit -> bool.
  Variable St : Type.
  Variable cube_of_state : St -> list lit.
  Variable W : Type.
  Variable EM : Type.
  Variable solve : nat -> query lit -> answer lit St EM.
  Variable cmd_fail : nat -> option EM.
  Variable n_init : nat.
  Variable gen_on has_bads : bool.
  Variable bmc_result : bmc_answer W EM.

  Notation pst := (pst lit St EM).
  Notation event := (event lit St EM).
  Notation plog := (p_log lit St EM).

  Definition ev_clean (ev : event) : Prop :=
    match ev with
    | EvQuery _ _ _ q (AErr _ _ _ _) => False
    | EvQuery _ _ _ q (AUnknown _ _ _) => q_kind lit q = KRelInd \/ q_kind lit q = KInf
    | EvCmdFail _ _ _ _ _ => False
    | EvBmcErr _ _ _ _ => False
    | _ => True
    end.

  Definition clean (l : list event) : Prop := Forall ev_clean l.

  Definition err_shape (e : err EM) (l : list event) : Prop :=
    match e with
    | ESolver _ m =>
        exists ev l0, l = ev :: l0 /\ clean l0 /\
          ((exists n q, ev = EvQuery lit St EM q (AErr lit St EM m) /\ solve n q = AErr lit St EM m) \/
           (exists i, ev = EvCmdFail lit St EM i m /\ cmd_fail i = Some m) \/
           (ev = EvBmcErr lit St EM m /\ bmc_result = BmcErr W EM m))
    | EUnknown _ k =>
        exists q l0 n, l = EvQuery lit St EM q (AUnknown lit St EM) :: l0 /\ clean l0 /\
                       q_kind lit q = k /\ solve n q = AUnknown lit St EM
    | EOrigCube _ => clean l
    end.

  Definition post {A} (r : res lit St EM (A * pst)) : Prop :=
    match r with
    | Ok (_, st') => clean (plog st')
    | Err e l => err_shape e l
    | _ => True
    end.

  Definition post1 (r : res lit St EM pst) : Prop :=
    match r with
    | Ok st' => clean (plog st')
    | Err e l => err_shape e l
    | _ => True
    end.

  Lemma cmds_post n : forall st, clean (plog st) -> post1 (cmds lit St EM cmd_fail n st).
  Proof.
    induction n as [| n IH]; intros st Hc; cbn [cmds]; [exact Hc |].
    destruct (cmd_fail (p_c lit St EM st)) as [e |] eqn:E.
    - cbn [post1 err_shape]. eexists _, _. split; [reflexivity |]. split; [exact Hc |]. right. left. exists (p_c lit St EM st). split; [reflexivity | exact E].
    - apply IH. exact Hc.
  Qed.

  Lemma ask_log st q :
    plog (snd (ask lit St EM solve st q)) = EvQuery lit St EM q (solve (p_q lit St EM st) q) :: plog st /\
    fst (ask lit St EM solve st q) = solve (p_q lit St EM st) q.
  Proof. now split. Qed.

  (** the continuation of a block of commands *)
  Ltac cmds_case Hc n st :=
    let H := fresh "Hcm" in
    pose proof (cmds_post n st Hc) as H;
    destruct (cmds lit St EM cmd_fail n st) as [? | ? ? | ? |]; cbn [post1] in H; try exact H; try exact I.

  Lemma err_query st q m (Hc : clean (plog st)) :
    solve (p_q lit St EM st) q = AErr lit St EM m ->
    err_shape (ESolver EM m) (EvQuery lit St EM q (AErr lit St EM m) :: plog st).
  Proof. intros E. cbn. eexists _, _. split; [reflexivity |]. split; [exact Hc |]. left. exists (p_q lit St EM st), q. split; [reflexivity | exact E]. Qed.

  Lemma unk_query st q (Hc : clean (plog st)) :
    solve (p_q lit St EM st) q = AUnknown lit St EM ->
    err_shape (EUnknown EM (q_kind lit q)) (EvQuery lit St EM q (AUnknown lit St EM) :: plog st).
  Proof. intros E. cbn. exists q, (plog st), (p_q lit St EM st). split; [reflexivity |]. split; [exact Hc |]. split; [reflexivity | exact E]. Qed.

  Lemma clean_cons_sat st q a : clean (plog st) ->
    (forall m, a <> AErr lit St EM m) -> (a = AUnknown lit St EM -> q_kind lit q = KRelInd \/ q_kind lit q = KInf) ->
    clean (EvQuery lit St EM q a :: plog st).
  Proof.
    intros Hc Hne Hu. constructor; [| exact Hc]. destruct a; cbn; try exact I.
    - now apply Hu.
    - now contradiction (Hne e).
  Qed.

  Lemma get_bad_cube_post st : clean (plog st) -> post (get_bad_cube lit St cube_of_state EM solve st).
  Proof.
    intros Hc. unfold get_bad_cube. destruct (from_of lit St EM st (frontier_id lit St EM st)); [| exact I].
    cbn [ask]. unfold fail.
    match goal with |- context [solve ?n ?q] => set (qq := q); destruct (solve n qq) as [m | core | | e] eqn:Ea end; cbn [post plog].
    - apply clean_cons_sat; [exact Hc | discriminate | discriminate].
    - apply clean_cons_sat; [exact Hc | discriminate | discriminate].
    - apply (unk_query st qq Hc Ea).
    - apply (err_query st qq e Hc Ea).
  Qed.

  Lemma fix_loop_post fuel : forall st gen lm first,
      clean (plog st) -> post (fix_loop lit lit_eqb St EM solve cmd_fail fuel st gen lm first).
  Proof.
    induction fuel as [| fuel IH]; intros st gen lm first Hc; [exact I |].
    cbn [fix_loop ask]. unfold fail.
    set (qq := init_query lit KGenFix gen lm true).
    destruct (solve (p_q lit St EM st) qq) as [m | core | | e] eqn:Ea.
    - destruct first; [| exact I].
      match goal with |- context [cmds _ _ _ _ ?n ?s] =>
        assert (Hc1 : clean (plog s)) by (apply clean_cons_sat; [exact Hc | discriminate | discriminate]);
        pose proof (cmds_post n s Hc1) as Hcm; destruct (cmds lit St EM cmd_fail n s) as [s2 | e2 l2 | |] end;
        cbn [post1] in Hcm; cbn [post]; try exact Hcm; exact I.
    - match goal with |- context [cmds _ _ _ _ ?n ?s] =>
        assert (Hc1 : clean (plog s)) by (apply clean_cons_sat; [exact Hc | discriminate | discriminate]);
        pose proof (cmds_post n s Hc1) as Hcm; destruct (cmds lit St EM cmd_fail n s) as [s2 | e2 l2 | |] end;
        cbn [post1] in Hcm; cbn [post]; try exact Hcm; try exact I.
      destruct (_ =? _).
      + match goal with |- context [cmds _ _ _ _ ?n ?s] =>
          pose proof (cmds_post n s Hcm) as Hcm3; destruct (cmds lit St EM cmd_fail n s) as [s3 | e3 l3 | |] end;
          cbn [post1] in Hcm3; cbn [post]; try exact Hcm3; exact I.
      + apply IH. exact Hcm.
    - cbn [post plog]. apply (unk_query st qq Hc Ea).
    - cbn [post plog]. apply (err_query st qq e Hc Ea).
  Qed.

  Lemma fix_gen_cube_post st gen rm :
    clean (plog st) -> post (fix_gen_cube lit lit_eqb St EM solve cmd_fail st gen rm).
  Proof.
    intros Hc. unfold fix_gen_cube. cbn [ask]. unfold fail.
    set (qq := init_query lit KGenCheck gen [] false).
    destruct (solve (p_q lit St EM st) qq) as [m | core | | e] eqn:Ea.
    - match goal with |- context [cmds _ _ _ _ ?n ?s] =>
        assert (Hc1 : clean (plog s)) by (apply clean_cons_sat; [exact Hc | discriminate | discriminate]);
        pose proof (cmds_post n s Hc1) as Hcm; destruct (cmds lit St EM cmd_fail n s) as [s2 | e2 l2 | |] end;
        cbn [post1] in Hcm; cbn [post]; try exact Hcm; try exact I.
      apply fix_loop_post. exact Hcm.
    - cbn [post plog]. apply clean_cons_sat; [exact Hc | discriminate | discriminate].
    - cbn [post plog]. apply (unk_query st qq Hc Ea).
    - cbn [post plog]. apply (err_query st qq e Hc Ea).
  Qed.

  Lemma rel_ind_post st c f ext :
    clean (plog st) -> post (rel_ind lit lit_eqb St cube_of_state EM solve cmd_fail gen_on st c f ext).
  Proof.
    intros Hc. unfold rel_ind. destruct (decrement f) as [prev |]; [| exact I].
    destruct (from_of lit St EM st prev) as [from |]; [| exact I].
    match goal with |- context [cmds _ _ _ _ ?n ?s] =>
      pose proof (cmds_post n s Hc) as Hcm0; destruct (cmds lit St EM cmd_fail n s) as [st0 | e0 l0 | |] end;
      cbn [post1] in Hcm0; cbn [post]; try exact Hcm0; try exact I.
    cbn [ask]. cbv zeta. unfold fail.
    match goal with |- context [solve ?n ?q] => set (qq := q); destruct (solve n qq) as [m | core | | e] eqn:Ea end.
    - match goal with |- context [cmds _ _ _ _ ?n ?s] =>
        assert (Hc1 : clean (plog s)) by (apply clean_cons_sat; [exact Hcm0 | discriminate | discriminate]);
        pose proof (cmds_post n s Hc1) as Hcm; destruct (cmds lit St EM cmd_fail n s) as [s2 | e2 l2 | |] end;
        cbn [post1] in Hcm; cbn [post]; try exact Hcm; exact I.
    - destruct gen_on.
      + match goal with |- context [fix_gen_cube _ _ _ _ _ _ ?s ?g ?r] =>
          assert (Hc1 : clean (plog s)) by (apply clean_cons_sat; [exact Hcm0 | discriminate | discriminate]);
          pose proof (fix_gen_cube_post s g r Hc1) as Hfx;
          destruct (fix_gen_cube lit lit_eqb St EM solve cmd_fail s g r) as [[fx s2] | e2 l2 | |] end;
          cbn [post] in Hfx; try exact Hfx; try exact I.
        match goal with |- context [cmds _ _ _ _ ?n ?s] =>
          pose proof (cmds_post n s Hfx) as Hcm; destruct (cmds lit St EM cmd_fail n s) as [s3 | e3 l3 | |] end;
          cbn [post1] in Hcm; cbn [post]; try exact Hcm; exact I.
      + match goal with |- context [cmds _ _ _ _ ?n ?s] =>
          assert (Hc1 : clean (plog s)) by (apply clean_cons_sat; [exact Hcm0 | discriminate | discriminate]);
          pose proof (cmds_post n s Hc1) as Hcm; destruct (cmds lit St EM cmd_fail n s) as [s2 | e2 l2 | |] end;
          cbn [post1] in Hcm; cbn [post]; try exact Hcm; exact I.
    - match goal with |- context [cmds _ _ _ _ ?n ?s] =>
        assert (Hc1 : clean (plog s)) by (apply clean_cons_sat; [exact Hcm0 | discriminate | intros _; now left]);
        pose proof (cmds_post n s Hc1) as Hcm; destruct (cmds lit St EM cmd_fail n s) as [s2 | e2 l2 | |] end;
        cbn [post1] in Hcm; cbn [post]; try exact Hcm; exact I.
    - cbn [post plog]. apply (err_query st0 qq e Hcm0 Ea).
  Qed.

  Lemma record_cube_clean st c f st' : record_cube lit St EM st c f = Some st' -> clean (plog st) -> clean (plog st').
  Proof.
    unfold record_cube. destruct f as [| k |]; [discriminate | |].
    - destruct (push_at lit k c (p_frames lit St EM st)); [| discriminate]. intros H Hc. inversion H; subst. cbn [plog].
      constructor; [exact I | exact Hc].
    - intros H Hc. inversion H; subst. cbn [plog]. constructor; [exact I | exact Hc].
  Qed.

  Lemma add_blocked_cube_post st c f : clean (plog st) -> post1 (add_blocked_cube lit St EM cmd_fail st c f).
  Proof.
    intros Hc. unfold add_blocked_cube. destruct (record_cube lit St EM st c f); [| exact I].
    pose proof (cmds_post 1 st Hc) as Hcm. destruct (cmds lit St EM cmd_fail 1 st) as [st1 | e l | |]; cbn [post1] in *; try exact Hcm; try exact I.
    destruct (record_cube lit St EM st1 c f) as [st2 |] eqn:Er; [| exact I]. cbn [post1].
    now apply (record_cube_clean st1 c f st2 Er).
  Qed.

  Lemma add_frame_post st : clean (plog st) -> post1 (add_frame lit St EM cmd_fail st).
  Proof.
    intros Hc. unfold add_frame.
    pose proof (cmds_post 1 st Hc) as Hcm. destruct (cmds lit St EM cmd_fail 1 st) as [st1 | e l | |]; cbn [post1] in *; try exact Hcm; try exact I.
    cbn [plog]. constructor; [exact I | exact Hcm].
  Qed.

  Lemma cmds_log n : forall s s', cmds lit St EM cmd_fail n s = Ok s' -> plog s' = plog s.
  Proof.
    induction n as [| n IHn]; intros s s' H; cbn [cmds] in H; [now inversion H |].
    destruct (cmd_fail (p_c lit St EM s)); [discriminate |]. now rewrite (IHn _ _ H).
  Qed.

  (** an [RUnknown] result: the newest event of the log is the query that was answered unknown *)
  Lemma rel_ind_unknown st c f ext st1 :
    rel_ind lit lit_eqb St cube_of_state EM solve cmd_fail gen_on st c f ext = Ok (RUnknown lit, st1) ->
    exists q l0 n, plog st1 = EvQuery lit St EM q (AUnknown lit St EM) :: l0 /\
                   q_kind lit q = KRelInd /\ solve n q = AUnknown lit St EM.
  Proof.
    unfold rel_ind. intros H.
    destruct (decrement f) as [prev |]; [| discriminate H].
    destruct (from_of lit St EM st prev) as [from |]; [| discriminate H].
    destruct (cmds lit St EM cmd_fail (2 * length c) (new_acts lit St EM st (length c))) as [st0 | | |] eqn:Ec0; try discriminate H.
    cbn [ask] in H. cbv zeta in H. unfold fail in H.
    match type of H with context [solve ?n ?q] => set (qq := q) in *; destruct (solve n qq) as [m | core | | e] eqn:Ea end.
    - match type of H with context [cmds _ _ _ _ ?n ?s] => destruct (cmds lit St EM cmd_fail n s) end; discriminate H.
    - destruct gen_on.
      + match type of H with context [fix_gen_cube ?a1 ?a2 ?a3 ?a4 ?a5 ?a6 ?a7 ?a8 ?a9] =>
          destruct (fix_gen_cube a1 a2 a3 a4 a5 a6 a7 a8 a9) as [[fx s2] | | |] end; try discriminate H.
        match type of H with context [cmds _ _ _ _ ?n ?s] => destruct (cmds lit St EM cmd_fail n s) end; discriminate H.
      + match type of H with context [cmds _ _ _ _ ?n ?s] => destruct (cmds lit St EM cmd_fail n s) end; discriminate H.
    - match type of H with context [cmds _ _ _ _ ?n ?s] => destruct (cmds lit St EM cmd_fail n s) as [s2 | | |] eqn:Ec end; try discriminate H.
      inversion H; subst. rewrite (cmds_log _ _ _ Ec). cbn [plog].
      exists qq, (plog st0), (p_q lit St EM st0). split; [reflexivity |]. split; [reflexivity | exact Ea].
    - discriminate H.
  Qed.

  Lemma push_loop_post fuel : forall st cand f,
      clean (plog st) -> post (push_loop lit lit_eqb St cube_of_state EM solve cmd_fail gen_on fuel st cand f).
  Proof.
    induction fuel as [| fuel IH]; intros st cand f Hc; [exact I |]. cbn [push_loop].
    destruct (fid_le f (frontier_id lit St EM st)); [| exact Hc].
    pose proof (rel_ind_post st cand f true Hc) as Hr.
    destruct (rel_ind lit lit_eqb St cube_of_state EM solve cmd_fail gen_on st cand f true) as [[r st1] | e l | |]; cbn [post] in Hr; try exact Hr; try exact I.
    destruct r as [p | og |]; cbn [post]; try exact Hr.
    destruct (increment f); [| exact I]. now apply IH.
  Qed.

  Lemma block_loop_post fuel : forall st work,
      clean (plog st) -> post (block_loop lit lit_eqb St cube_of_state EM solve cmd_fail gen_on fuel st work).
  Proof.
    induction fuel as [| fuel IH]; intros st work Hc; [exact I |]. cbn [block_loop].
    destruct (pop_min lit work) as [[[c f] rest] |]; [| exact Hc].
    destruct (is_init f); [exact Hc |].
    pose proof (rel_ind_post st c f true Hc) as Hr.
    destruct (rel_ind lit lit_eqb St cube_of_state EM solve cmd_fail gen_on st c f true) as [[r st1] | e l | |] eqn:Er; cbn [post] in Hr; try exact Hr; try exact I.
    destruct r as [p | og |].
    - destruct (decrement f); [| exact I]. now apply IH.
    - destruct (increment f) as [tf |]; [| exact I].
      match goal with |- context [push_loop _ _ _ _ _ _ _ _ ?n ?s ?cd ?t] =>
        pose proof (push_loop_post n s cd t Hr) as Hp;
        destruct (push_loop lit lit_eqb St cube_of_state EM solve cmd_fail gen_on n s cd t) as [[tf' st2] | e2 l2 | |] end;
        cbn [post] in Hp; try exact Hp; try exact I.
      destruct (decrement tf') as [bf |]; [| exact I].
      match goal with |- context [add_blocked_cube _ _ _ _ ?s ?cd ?b] =>
        pose proof (add_blocked_cube_post s cd b Hp) as Ha;
        destruct (add_blocked_cube lit St EM cmd_fail s cd b) as [st3 | e3 l3 | |] end;
        cbn [post1] in Ha; cbn [post]; try exact Ha; try exact I.
      now apply IH.
    - (* the unknown answer of the obligation's own query: an error, with the log as it is *)
      unfold fail. cbn [post err_shape].
      destruct (rel_ind_unknown _ _ _ _ _ Er) as (q & l0 & n & Hlog & Hk & Hs).
      exists q, l0, n. rewrite Hlog in Hr. inversion Hr; subst. repeat split; assumption.
  Qed.

  Lemma set_frame_log st k cs : plog (set_frame lit St EM st k cs) = plog st.
  Proof. reflexivity. Qed.

  Lemma prop_cubes_post id : forall cs st,
      clean (plog st) -> post1 (prop_cubes lit lit_eqb St cube_of_state EM solve cmd_fail gen_on st id cs).
  Proof.
    induction cs as [| c r IH]; intros st Hc; [exact Hc |]. cbn [prop_cubes].
    pose proof (rel_ind_post st c (FFinite (S id)) false Hc) as Hr.
    destruct (rel_ind lit lit_eqb St cube_of_state EM solve cmd_fail gen_on st c (FFinite (S id)) false) as [[rr st1] | e l | |]; cbn [post] in Hr; cbn [post1]; try exact Hr; try exact I.
    destruct rr as [p | og |]; try (apply IH; unfold keep_cube; now rewrite set_frame_log).
    pose proof (add_blocked_cube_post st1 c (FFinite (S id)) Hr) as Ha.
    destruct (add_blocked_cube lit St EM cmd_fail st1 c (FFinite (S id))) as [st2 | e2 l2 | |]; cbn [post1] in *; try exact Ha; try exact I.
    now apply IH.
  Qed.

  Lemma to_inf_post cs : forall st, clean (plog st) -> post1 (to_inf lit St EM cmd_fail st cs).
  Proof.
    induction cs as [| c r IH]; intros st Hc; [exact Hc |]. cbn [to_inf].
    pose proof (add_blocked_cube_post st c FInf Hc) as Ha.
    destruct (add_blocked_cube lit St EM cmd_fail st c FInf) as [st1 | e l | |]; cbn [post1] in *; try exact Ha; try exact I.
    now apply IH.
  Qed.

  Lemma cleanup_post n : forall st iid, clean (plog st) -> post1 (cleanup lit St EM cmd_fail n st iid).
  Proof.
    induction n as [| n IH]; intros st iid Hc; [exact Hc |]. cbn [cleanup].
    pose proof (to_inf_post (frame_cubes lit St EM st iid) (set_frame lit St EM st iid []) Hc) as Ht.
    destruct (to_inf lit St EM cmd_fail (set_frame lit St EM st iid []) (frame_cubes lit St EM st iid)) as [st1 | e l | |]; cbn [post1] in *; try exact Ht; try exact I.
    now apply IH.
  Qed.

  Lemma prop_frames_post n : forall st id,
      clean (plog st) -> post (prop_frames lit lit_eqb St cube_of_state EM solve cmd_fail gen_on n st id).
  Proof.
    induction n as [| n IH]; intros st id Hc; [exact Hc |]. cbn [prop_frames].
    pose proof (prop_cubes_post id (frame_cubes lit St EM st id) (set_frame lit St EM st id []) Hc) as Hp.
    destruct (prop_cubes lit lit_eqb St cube_of_state EM solve cmd_fail gen_on (set_frame lit St EM st id []) id (frame_cubes lit St EM st id)) as [st1 | e l | |];
      cbn [post1] in Hp; cbn [post]; try exact Hp; try exact I.
    destruct (frame_cubes lit St EM st1 id).
    - pose proof (cleanup_post (frontier lit St EM st1 - id) st1 (S id) Hp) as Hcl.
      destruct (cleanup lit St EM cmd_fail (frontier lit St EM st1 - id) st1 (S id)) as [st2 | e2 l2 | |]; cbn [post1] in Hcl; cbn [post]; try exact Hcl; exact I.
    - now apply IH.
  Qed.

  Lemma prop_last_post front : forall cs st,
      clean (plog st) -> post1 (prop_last lit St EM solve cmd_fail st front cs).
  Proof.
    induction cs as [| c r IH]; intros st Hc; [exact Hc |]. cbn [prop_last ask]. unfold fail.
    match goal with |- context [solve ?n ?q] => set (qq := q); destruct (solve n qq) as [m | core | | e] eqn:Ea end.
    - apply IH. unfold keep_cube. rewrite set_frame_log. cbn [plog]. apply clean_cons_sat; [exact Hc | discriminate | discriminate].
    - match goal with |- context [add_blocked_cube _ _ _ _ ?s ?cd ?b] =>
        assert (Hc1 : clean (plog s)) by (apply clean_cons_sat; [exact Hc | discriminate | discriminate]);
        pose proof (add_blocked_cube_post s cd b Hc1) as Ha;
        destruct (add_blocked_cube lit St EM cmd_fail s cd b) as [st2 | e2 l2 | |] end;
        cbn [post1] in *; try exact Ha; try exact I.
      now apply IH.
    - apply IH. unfold keep_cube. rewrite set_frame_log. cbn [plog]. apply clean_cons_sat; [exact Hc | discriminate | intros _; now right].
    - cbn [post1 plog]. apply (err_query st qq e Hc Ea).
  Qed.

  Lemma propagate_post st :
    clean (plog st) -> post (propagate_blocked_cubes lit lit_eqb St cube_of_state EM solve cmd_fail gen_on st).
  Proof.
    intros Hc. unfold propagate_blocked_cubes.
    pose proof (prop_frames_post (pred (frontier lit St EM st)) st 1 Hc) as Hp.
    destruct (prop_frames lit lit_eqb St cube_of_state EM solve cmd_fail gen_on (pred (frontier lit St EM st)) st 1) as [[b st1] | e l | |];
      cbn [post] in Hp; try exact Hp; try exact I.
    destruct b; [exact Hp |].
    match goal with |- context [prop_last _ _ _ _ _ ?s ?f ?cs] =>
      pose proof (prop_last_post f cs s Hp) as Hl; destruct (prop_last lit St EM solve cmd_fail s f cs) as [st2 | e2 l2 | |] end;
      cbn [post1] in Hl; cbn [post]; try exact Hl; exact I.
  Qed.

  Lemma pdr_loop_post fuel bf : forall st,
      clean (plog st) -> post (pdr_loop lit lit_eqb St cube_of_state W EM solve cmd_fail gen_on bmc_result fuel bf st).
  Proof.
    induction fuel as [| fuel IH]; intros st Hc; [exact I |]. cbn [pdr_loop].
    destruct (frontier lit St EM st <=? MAX_FRAMES); [| exact Hc].
    pose proof (get_bad_cube_post st Hc) as Hg.
    destruct (get_bad_cube lit St cube_of_state EM solve st) as [[ob st1] | e l | |]; cbn [post] in Hg; try exact Hg; try exact I.
    destruct ob as [b |].
    - unfold block_cube.
      match goal with |- post (match ?X with _ => _ end) =>
        pose proof (block_loop_post bf st1 _ Hg : post X) as Hb; destruct X as [[ok st2] | e2 l2 | |] end;
        cbn [post] in Hb; try exact Hb; try exact I.
      destruct ok; [now apply IH |].
      destruct bmc_result as [w | | eb] eqn:Eb; cbn [post]; try exact Hb.
      eexists _, _. split; [reflexivity |]. split; [exact Hb |]. right. right. now split.
    - pose proof (add_frame_post st1 Hg) as Ha.
      destruct (add_frame lit St EM cmd_fail st1) as [sta | ea la | |]; cbn [post1] in Ha; cbn [post]; try exact Ha; try exact I.
      pose proof (propagate_post sta Ha) as Hp.
      destruct (propagate_blocked_cubes lit lit_eqb St cube_of_state EM solve cmd_fail gen_on sta) as [[fx st2] | e2 l2 | |]; cbn [post] in Hp; try exact Hp; try exact I.
      destruct fx; [exact Hp | now apply IH].
  Qed.

  Theorem pdr_post fuel bf :
    post (pdr lit lit_eqb St cube_of_state W EM solve cmd_fail n_init gen_on has_bads bmc_result fuel bf).
  Proof.
    unfold pdr. destruct has_bads; [| constructor].
    assert (Hc0 : clean (plog (init_state lit St EM))) by constructor.
    pose proof (cmds_post n_init (init_state lit St EM) Hc0) as Hcm.
    destruct (cmds lit St EM cmd_fail n_init (init_state lit St EM)) as [st0 | e l | |]; cbn [post1] in Hcm; cbn [post]; try exact Hcm; try exact I.
    now apply pdr_loop_post.
  Qed.
End PdrFault.

(** ** the statements quoted by Props/C15.v *)
Section PdrFaultTheorems.
  Variable lit : Type.
  Variable lit_eqb : lit -> lit -> bool.
  Variable St : Type.
  Variable cube_of_state : St -> list lit.
  Variable W : Type.
  Variable EM : Type.
  Variable solve : nat -> query lit -> answer lit St EM.
  Variable cmd_fail : nat -> option EM.
  Variable n_init : nat.
  Variable gen_on has_bads : bool.
  Variable bmc_result : bmc_answer W EM.

  Notation run fuel bf := (pdr lit lit_eqb St cube_of_state W EM solve cmd_fail n_init gen_on has_bads bmc_result fuel bf).

  (** the oracle consultation that an error event records *)
  Definition consulted_error (ev : event lit St EM) (m : EM) : Prop :=
    (exists n q, ev = EvQuery lit St EM q (AErr lit St EM m) /\ solve n q = AErr lit St EM m) \/
    (exists i, ev = EvCmdFail lit St EM i m /\ cmd_fail i = Some m) \/
    (ev = EvBmcErr lit St EM m /\ bmc_result = BmcErr W EM m).

  (** errors propagate: (1) a verdict is only returned by runs in which no consulted answer was an
      error; (2) a solver error that is returned is the FIRST error of the run, with the oracle's
      message: the newest event of the log records it and everything before it is error-free. *)
  Theorem pdr_model_propagates fuel bf :
    (forall v st', run fuel bf = Ok (v, st') -> clean lit St EM (p_log lit St EM st')) /\
    (forall m log, run fuel bf = Err (ESolver EM m) log ->
                   exists ev l0, log = ev :: l0 /\ clean lit St EM l0 /\ consulted_error ev m).
  Proof.
    pose proof (pdr_post lit lit_eqb St cube_of_state W EM solve cmd_fail n_init gen_on has_bads bmc_result fuel bf) as H.
    split.
    - intros v st' E. rewrite E in H. exact H.
    - intros m log E. rewrite E in H. exact H.
  Qed.

  (** unknown answers: (1) a run that stops with [Err (EUnknown k)] stopped at a query of kind [k]
      (get_bad_cube, fix_gen_cube's two queries, or the obligation's own relative-induction query) that
      was answered unknown, after an error-free log; (2) in a run that returns a verdict, unknown
      answers occur only at relative-induction queries of the pushing loop / the propagation and at the
      query against the infinite frame - where pdr.rs treats "unknown" like "not unsat" and goes on. *)
  Theorem pdr_model_unknown fuel bf :
    (forall k log, run fuel bf = Err (EUnknown EM k) log ->
                   exists q l0 n, log = EvQuery lit St EM q (AUnknown lit St EM) :: l0 /\ clean lit St EM l0 /\
                                  q_kind lit q = k /\ solve n q = AUnknown lit St EM) /\
    (forall v st' q, run fuel bf = Ok (v, st') -> In (EvQuery lit St EM q (AUnknown lit St EM)) (p_log lit St EM st') ->
                     q_kind lit q = KRelInd \/ q_kind lit q = KInf).
  Proof.
    pose proof (pdr_post lit lit_eqb St cube_of_state W EM solve cmd_fail n_init gen_on has_bads bmc_result fuel bf) as H.
    split.
    - intros k log E. rewrite E in H. exact H.
    - intros v st' q E Hin. rewrite E in H. cbn [post] in H. unfold clean in H. rewrite Forall_forall in H.
      exact (H _ Hin).
  Qed.
End PdrFaultTheorems.
