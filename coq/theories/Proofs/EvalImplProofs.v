(** * Proofs/EvalImplProofs.v — the stack machine of eval.rs computes the
    specification with cut-offs ([cbv]/[carr]). *)
From Coq Require Import Lia.
From Patronus Require Import EvalImpl ExprLemmas.
Open Scope N_scope.

Section Machine.
  Variable p : provider.
  Variable rho : env.
  Hypothesis Hp : provider_ok p.

  (** [k] successful iterations of the loop *)
  Inductive nsteps : nat -> mstate -> mstate -> Prop :=
  | ns0 st : nsteps 0 st st
  | nsS k st st' st'' : step p st = Some (Ok st') -> nsteps k st' st'' -> nsteps (S k) st st''.

  Lemma nsteps_trans k1 k2 a b c : nsteps k1 a b -> nsteps k2 b c -> nsteps (k1 + k2) a c.
  Proof. induction 1; intros; simpl; [assumption|]. econstructor; eauto. Qed.

  Lemma nsteps_run k st st' : nsteps k st st' -> forall n, run p (k + n) st = run p n st'.
  Proof.
    induction 1 as [|k st st' st'' Hs _ IH]; intros n; [reflexivity|].
    cbn [Nat.add run]. rewrite Hs. apply IH.
  Qed.

  (** the state after [e] has been evaluated *)
  Definition push (e : expr) (rest : list (expr * bool)) (bs : list bvval) (ars : list arrval) : mstate :=
    match type_of e with
    | TBV w => {| todo := rest; bvs := (w, cbv p rho e) :: bs; arrs := ars |}
    | TArr iw dw => {| todo := rest; bvs := bs; arrs := (iw, dw, carr p rho e) :: ars |}
    end.

  Definition goal (e : expr) : Prop :=
    wt e = true -> covered p e = true ->
    forall rest bs ars, exists k, (k <= 2 * size e)%nat /\
      nsteps k {| todo := (e, false) :: rest; bvs := bs; arrs := ars |} (push e rest bs ars).

  Lemma provided_case e : wt e = true -> provided p e = true ->
    forall rest bs ars, exists k, (k <= 2 * size e)%nat /\
      nsteps k {| todo := (e, false) :: rest; bvs := bs; arrs := ars |} (push e rest bs ars).
  Proof.
    intros Hwt Hpr rest bs ars. exists 1%nat. split; [destruct e; cbn [size]; lia|].
    econstructor; [|constructor].
    unfold provided in Hpr. unfold step, push. cbn [todo bvs arrs].
    pose proof (wt_array_type e Hwt) as Hat.
    destruct (is_array_type e) eqn:Ha.
    - destruct (get_array p e) as [[[iw dw] f]|] eqn:G; [|discriminate].
      destruct Hp as [_ Hp2]. rewrite (Hp2 _ _ _ _ G).
      destruct e; cbn [is_array_type] in Ha; try discriminate; cbn [carr is_array_type]; rewrite G; reflexivity.
    - destruct (get_bv p e) as [[w v]|] eqn:G; [|discriminate].
      destruct Hp as [Hp1 _]. rewrite (Hp1 _ _ _ G).
      destruct e; cbn [is_array_type] in Ha; try discriminate; cbn [cbv is_array_type]; rewrite G; reflexivity.
  Qed.

  Lemma not_provided_bv e : provided p e = false -> is_array_type e = false -> get_bv p e = None.
  Proof. unfold provided. intros H Ha. rewrite Ha in H. destruct (get_bv p e); [discriminate|reflexivity]. Qed.

  Lemma not_provided_arr e : provided p e = false -> is_array_type e = true -> get_array p e = None.
  Proof. unfold provided. intros H Ha. rewrite Ha in H. destruct (get_array p e); [discriminate|reflexivity]. Qed.

  (** pushing a bit-vector / array typed expression *)
  Lemma push_bv e w rest bs ars : type_of e = TBV w ->
    push e rest bs ars = {| todo := rest; bvs := (w, cbv p rho e) :: bs; arrs := ars |}.
  Proof. unfold push. now intros ->. Qed.

  Lemma push_arr e iw dw rest bs ars : type_of e = TArr iw dw ->
    push e rest bs ars = {| todo := rest; bvs := bs; arrs := (iw, dw, carr p rho e) :: ars |}.
  Proof. unfold push. now intros ->. Qed.
End Machine.

Section MachineCorrect.
  Variable p : provider.
  Variable rho : env.
  Hypothesis Hp : provider_ok p.

  Local Notation goal := (goal p rho).
  Local Notation push := (push p rho).
  Local Notation nsteps := (nsteps p).

  Ltac start E :=
    intros Hwt Hcov rest bs ars;
    destruct (provided p E) eqn:Hprov; [apply provided_case; assumption|];
    cbn [covered] in Hcov; rewrite Hprov in Hcov; cbn [orb] in Hcov;
    try discriminate Hcov.

  Ltac first_step Hnone :=
    eapply nsS; [unfold step; cbn [todo bvs arrs is_array_type children]; rewrite Hnone;
                 cbn [map rev app]; reflexivity|].

  Ltac last_step Hnone :=
    eapply nsS; [|apply ns0];
    unfold step; cbn [todo bvs arrs apply_node bin_op un_op].

  (* unary bit-vector operator whose operand has type [TBV wa] *)
  Ltac un_case E a IHa Hwa Hta :=
    let Hnone := fresh "Hnone" in let ka := fresh "ka" in let Hka := fresh "Hka" in let Ra := fresh "Ra" in
    match goal with
    | Hcov : covered p a = true, Hprov : provided p E = false |- exists _, _ /\ nsteps _ {| todo := _ :: ?rest; bvs := ?bs; arrs := ?ars |} _ =>
    pose proof (not_provided_bv p _ Hprov eq_refl) as Hnone;
    destruct (IHa Hwa Hcov ((E, true) :: rest) bs ars) as (ka & Hka & Ra);
    rewrite (push_bv p rho _ _ _ _ _ Hta) in Ra;
    exists (S (ka + 1)); split; [cbn [size]; lia|];
    first_step Hnone; eapply nsteps_trans; [exact Ra|]; last_step Hnone;
    unfold EvalImplProofs.push; cbn [type_of cbv is_array_type]; rewrite Hnone
    end.

  (* binary operator, both operands bit-vectors *)
  Ltac bin_case E a b IHa IHb Hwa Hwb Hta Htb :=
    let Hnone := fresh "Hnone" in let ka := fresh "ka" in let Hka := fresh "Hka" in let Ra := fresh "Ra" in
    let kb := fresh "kb" in let Hkb := fresh "Hkb" in let Rb := fresh "Rb" in
    let Hca := fresh "Hca" in let Hcb := fresh "Hcb" in
    match goal with
    | Hcov : covered p a && covered p b = true, Hprov : provided p E = false |- exists _, _ /\ nsteps _ {| todo := _ :: ?rest; bvs := ?bs; arrs := ?ars |} _ =>
    apply andb_true_iff in Hcov; destruct Hcov as [Hca Hcb];
    pose proof (not_provided_bv p _ Hprov eq_refl) as Hnone;
    destruct (IHb Hwb Hcb ((a, false) :: (E, true) :: rest) bs ars) as (kb & Hkb & Rb);
    rewrite (push_bv p rho _ _ _ _ _ Htb) in Rb;
    match type of Rb with nsteps _ _ {| todo := _; bvs := ?bs'; arrs := _ |} =>
      destruct (IHa Hwa Hca ((E, true) :: rest) bs' ars) as (ka & Hka & Ra) end;
    rewrite (push_bv p rho _ _ _ _ _ Hta) in Ra;
    exists (S (kb + (ka + 1))); split; [cbn [size]; lia|];
    first_step Hnone; eapply nsteps_trans; [exact Rb|]; eapply nsteps_trans; [exact Ra|];
    last_step Hnone;
    unfold EvalImplProofs.push; cbn [type_of cbv is_array_type]; rewrite Hnone
    end.

  Lemma machine_steps : forall e, goal e.
  Proof.
    unfold EvalImplProofs.goal.
    induction e as
      [ n w | w v | a IHa by_ w | a IHa by_ w | a IHa hi lo | a IHa w | a IHa w
      | a IHa b IHb | a IHa b IHb | a IHa b IHb | a IHa b IHb w | a IHa b IHb | a IHa b IHb w
      | a IHa b IHb w | a IHa b IHb w | a IHa b IHb w | a IHa b IHb w | a IHa b IHb w
      | a IHa b IHb w | a IHa b IHb w | a IHa b IHb w | a IHa b IHb w
      | a IHa b IHb w | a IHa b IHb w | a IHa b IHb w | a IHa b IHb w | a IHa b IHb w
      | a IHa b IHb w | a IHa b IHb w | a IHa b IHb c IHc
      | n iw dw | a IHa iw dw | a IHa b IHb | a IHa b IHb c IHc | a IHa b IHb c IHc ].
    - (* BVSymbol *) start (BVSymbol n w).
    - (* BVLiteral *) start (BVLiteral w v).
      pose proof (not_provided_bv p _ Hprov eq_refl) as Hnone.
      exists 1%nat. split; [cbn [size]; lia|].
      eapply nsS; [|apply ns0]. unfold step; cbn [todo bvs arrs is_array_type children]. rewrite Hnone.
      cbn [apply_node]. unfold EvalImplProofs.push. cbn [type_of cbv is_array_type]. rewrite Hnone. reflexivity.
    - (* BVZeroExt *) start (BVZeroExt a by_ w).
      apply wt_zext in Hwt. destruct Hwt as (Hwa & Hta & Hlt).
      un_case (BVZeroExt a by_ w) a IHa Hwa Hta.
      replace (w - by_ + by_) with w by lia. reflexivity.
    - (* BVSignExt *) start (BVSignExt a by_ w).
      apply wt_sext in Hwt. destruct Hwt as (Hwa & Hta & Hlt).
      un_case (BVSignExt a by_ w) a IHa Hwa Hta.
      replace (w - by_ + by_) with w by lia. unfold width. rewrite Hta. reflexivity.
    - (* BVSlice *) start (BVSlice a hi lo).
      apply wt_slice in Hwt. destruct Hwt as (Hwa & we & Hta & Hhi & Hlo).
      un_case (BVSlice a hi lo) a IHa Hwa Hta. reflexivity.
    - (* BVNot *) start (BVNot a w).
      apply wt_not in Hwt. destruct Hwt as (Hwa & Hta).
      un_case (BVNot a w) a IHa Hwa Hta. reflexivity.
    - (* BVNegate *) start (BVNegate a w).
      apply wt_neg in Hwt. destruct Hwt as (Hwa & Hta).
      un_case (BVNegate a w) a IHa Hwa Hta. reflexivity.
    - (* BVEqual *) start (BVEqual a b).
      apply wt_eq in Hwt. destruct Hwt as (Hwa & Hwb & w' & Hta & Htb).
      bin_case (BVEqual a b) a b IHa IHb Hwa Hwb Hta Htb. reflexivity.
    - (* BVImplies *) start (BVImplies a b).
      apply wt_implies in Hwt. destruct Hwt as (Hwa & Hwb & Hta & Htb).
      bin_case (BVImplies a b) a b IHa IHb Hwa Hwb Hta Htb. reflexivity.
    - (* BVGreater *) start (BVGreater a b).
      apply wt_ugt in Hwt. destruct Hwt as (Hwa & Hwb & w' & Hta & Htb).
      bin_case (BVGreater a b) a b IHa IHb Hwa Hwb Hta Htb. reflexivity.
    - (* BVGreaterSigned *) start (BVGreaterSigned a b w).
      apply wt_sgt in Hwt. destruct Hwt as (Hwa & Hwb & Hta & Htb).
      bin_case (BVGreaterSigned a b w) a b IHa IHb Hwa Hwb Hta Htb.
      unfold width. rewrite Hta. reflexivity.
    - (* BVGreaterEqual *) start (BVGreaterEqual a b).
      apply wt_uge in Hwt. destruct Hwt as (Hwa & Hwb & w' & Hta & Htb).
      bin_case (BVGreaterEqual a b) a b IHa IHb Hwa Hwb Hta Htb. reflexivity.
    - (* BVGreaterEqualSigned *) start (BVGreaterEqualSigned a b w).
      apply wt_sge in Hwt. destruct Hwt as (Hwa & Hwb & Hta & Htb).
      bin_case (BVGreaterEqualSigned a b w) a b IHa IHb Hwa Hwb Hta Htb.
      unfold width. rewrite Hta. reflexivity.
    - (* BVConcat *) start (BVConcat a b w).
      apply wt_concat in Hwt. destruct Hwt as (Hwa & Hwb & wa & wb & Hta & Htb & ->).
      bin_case (BVConcat a b (wa + wb)) a b IHa IHb Hwa Hwb Hta Htb.
      unfold width. rewrite Htb. reflexivity.
    - start (BVAnd a b w). apply wt_and in Hwt. destruct Hwt as (Hwa & Hwb & Hta & Htb).
      bin_case (BVAnd a b w) a b IHa IHb Hwa Hwb Hta Htb. reflexivity.
    - start (BVOr a b w). apply wt_or in Hwt. destruct Hwt as (Hwa & Hwb & Hta & Htb).
      bin_case (BVOr a b w) a b IHa IHb Hwa Hwb Hta Htb. reflexivity.
    - start (BVXor a b w). apply wt_xor in Hwt. destruct Hwt as (Hwa & Hwb & Hta & Htb).
      bin_case (BVXor a b w) a b IHa IHb Hwa Hwb Hta Htb. reflexivity.
    - start (BVShiftLeft a b w). apply wt_shl in Hwt. destruct Hwt as (Hwa & Hwb & Hta & Htb).
      bin_case (BVShiftLeft a b w) a b IHa IHb Hwa Hwb Hta Htb. reflexivity.
    - start (BVArithmeticShiftRight a b w). apply wt_ashr in Hwt. destruct Hwt as (Hwa & Hwb & Hta & Htb).
      bin_case (BVArithmeticShiftRight a b w) a b IHa IHb Hwa Hwb Hta Htb. reflexivity.
    - start (BVShiftRight a b w). apply wt_lshr in Hwt. destruct Hwt as (Hwa & Hwb & Hta & Htb).
      bin_case (BVShiftRight a b w) a b IHa IHb Hwa Hwb Hta Htb. reflexivity.
    - start (BVAdd a b w). apply wt_add in Hwt. destruct Hwt as (Hwa & Hwb & Hta & Htb).
      bin_case (BVAdd a b w) a b IHa IHb Hwa Hwb Hta Htb. reflexivity.
    - start (BVMul a b w). apply wt_mul in Hwt. destruct Hwt as (Hwa & Hwb & Hta & Htb).
      bin_case (BVMul a b w) a b IHa IHb Hwa Hwb Hta Htb. reflexivity.
    - start (BVSignedDiv a b w).
    - start (BVUnsignedDiv a b w).
    - start (BVSignedMod a b w).
    - start (BVSignedRem a b w).
    - start (BVUnsignedRem a b w).
    - start (BVSub a b w). apply wt_sub in Hwt. destruct Hwt as (Hwa & Hwb & Hta & Htb).
      bin_case (BVSub a b w) a b IHa IHb Hwa Hwb Hta Htb. reflexivity.
    - (* BVArrayRead *) start (BVArrayRead a b w).
      apply wt_read in Hwt. destruct Hwt as (Hwa & Hwb & iw & Hta & Htb).
      apply andb_true_iff in Hcov; destruct Hcov as [Hca Hcb].
      pose proof (not_provided_bv p _ Hprov eq_refl) as Hnone.
      destruct (IHb Hwb Hcb ((a, false) :: (BVArrayRead a b w, true) :: rest) bs ars) as (kb & Hkb & Rb).
      rewrite (push_bv p rho _ _ _ _ _ Htb) in Rb.
      destruct (IHa Hwa Hca ((BVArrayRead a b w, true) :: rest) ((iw, cbv p rho b) :: bs) ars) as (ka & Hka & Ra).
      rewrite (push_arr p rho _ _ _ _ _ _ Hta) in Ra.
      exists (S (kb + (ka + 1))); split; [cbn [size]; lia|].
      first_step Hnone. eapply nsteps_trans; [exact Rb|]. eapply nsteps_trans; [exact Ra|].
      last_step Hnone. unfold EvalImplProofs.push; cbn [type_of cbv is_array_type]; rewrite Hnone. reflexivity.
    - (* BVIte *) start (BVIte a b c).
      apply wt_ite in Hwt. destruct Hwt as (Hwa & Hwb & Hwc & Hta & w' & Htb & Htc).
      apply andb_true_iff in Hcov; destruct Hcov as [Hcab Hcc].
      apply andb_true_iff in Hcab; destruct Hcab as [Hca Hcb].
      pose proof (not_provided_bv p _ Hprov eq_refl) as Hnone.
      destruct (IHc Hwc Hcc ((b, false) :: (a, false) :: (BVIte a b c, true) :: rest) bs ars) as (kc & Hkc & Rc).
      rewrite (push_bv p rho _ _ _ _ _ Htc) in Rc.
      destruct (IHb Hwb Hcb ((a, false) :: (BVIte a b c, true) :: rest) ((w', cbv p rho c) :: bs) ars) as (kb & Hkb & Rb).
      rewrite (push_bv p rho _ _ _ _ _ Htb) in Rb.
      destruct (IHa Hwa Hca ((BVIte a b c, true) :: rest) ((w', cbv p rho b) :: (w', cbv p rho c) :: bs) ars) as (ka & Hka & Ra).
      rewrite (push_bv p rho _ _ _ _ _ Hta) in Ra.
      exists (S (kc + (kb + (ka + 1)))); split; [cbn [size]; lia|].
      first_step Hnone. eapply nsteps_trans; [exact Rc|]. eapply nsteps_trans; [exact Rb|].
      eapply nsteps_trans; [exact Ra|].
      last_step Hnone. unfold EvalImplProofs.push; cbn [type_of cbv is_array_type]; rewrite Hnone, Htc.
      cbn [to_bool N.eqb Pos.eqb]. destruct (cbv p rho a =? 1); reflexivity.
    - (* ArraySymbol *) start (ArraySymbol n iw dw).
    - (* ArrayConstant *) start (ArrayConstant a iw dw).
      apply wt_aconst in Hwt. destruct Hwt as (Hwa & Hta & Hiw).
      pose proof (not_provided_arr p _ Hprov eq_refl) as Hnone.
      destruct (IHa Hwa Hcov ((ArrayConstant a iw dw, true) :: rest) bs ars) as (ka & Hka & Ra).
      rewrite (push_bv p rho _ _ _ _ _ Hta) in Ra.
      exists (S (ka + 1)); split; [cbn [size]; lia|].
      first_step Hnone. eapply nsteps_trans; [exact Ra|].
      last_step Hnone. unfold EvalImplProofs.push; cbn [type_of carr is_array_type]; rewrite Hnone. reflexivity.
    - (* ArrayEqual *) start (ArrayEqual a b).
      apply wt_aeq in Hwt. destruct Hwt as (Hwa & Hwb & iw & dw & Hta & Htb).
      apply andb_true_iff in Hcov; destruct Hcov as [Hca Hcb].
      pose proof (not_provided_bv p _ Hprov eq_refl) as Hnone.
      destruct (IHb Hwb Hcb ((a, false) :: (ArrayEqual a b, true) :: rest) bs ars) as (kb & Hkb & Rb).
      rewrite (push_arr p rho _ _ _ _ _ _ Htb) in Rb.
      destruct (IHa Hwa Hca ((ArrayEqual a b, true) :: rest) bs ((iw, dw, carr p rho b) :: ars)) as (ka & Hka & Ra).
      rewrite (push_arr p rho _ _ _ _ _ _ Hta) in Ra.
      exists (S (kb + (ka + 1))); split; [cbn [size]; lia|].
      first_step Hnone. eapply nsteps_trans; [exact Rb|]. eapply nsteps_trans; [exact Ra|].
      last_step Hnone. unfold EvalImplProofs.push; cbn [type_of cbv is_array_type]; rewrite Hnone.
      unfold bool_val, index_width. rewrite Hta. reflexivity.
    - (* ArrayStore *) start (ArrayStore a b c).
      apply wt_store in Hwt. destruct Hwt as (Hwa & Hwb & Hwc & iw & dw & Hta & Htb & Htc).
      apply andb_true_iff in Hcov; destruct Hcov as [Hcab Hcc].
      apply andb_true_iff in Hcab; destruct Hcab as [Hca Hcb].
      pose proof (not_provided_arr p _ Hprov eq_refl) as Hnone.
      destruct (IHc Hwc Hcc ((b, false) :: (a, false) :: (ArrayStore a b c, true) :: rest) bs ars) as (kc & Hkc & Rc).
      rewrite (push_bv p rho _ _ _ _ _ Htc) in Rc.
      destruct (IHb Hwb Hcb ((a, false) :: (ArrayStore a b c, true) :: rest) ((dw, cbv p rho c) :: bs) ars) as (kb & Hkb & Rb).
      rewrite (push_bv p rho _ _ _ _ _ Htb) in Rb.
      destruct (IHa Hwa Hca ((ArrayStore a b c, true) :: rest) ((iw, cbv p rho b) :: (dw, cbv p rho c) :: bs) ars) as (ka & Hka & Ra).
      rewrite (push_arr p rho _ _ _ _ _ _ Hta) in Ra.
      exists (S (kc + (kb + (ka + 1)))); split; [cbn [size]; lia|].
      first_step Hnone. eapply nsteps_trans; [exact Rc|]. eapply nsteps_trans; [exact Rb|].
      eapply nsteps_trans; [exact Ra|].
      last_step Hnone. unfold EvalImplProofs.push; cbn [type_of carr is_array_type]; rewrite Hnone, Hta. reflexivity.
    - (* ArrayIte *) start (ArrayIte a b c).
      apply wt_aite in Hwt. destruct Hwt as (Hwa & Hwb & Hwc & Hta & iw & dw & Htb & Htc).
      apply andb_true_iff in Hcov; destruct Hcov as [Hcab Hcc].
      apply andb_true_iff in Hcab; destruct Hcab as [Hca Hcb].
      pose proof (not_provided_arr p _ Hprov eq_refl) as Hnone.
      destruct (IHc Hwc Hcc ((b, false) :: (a, false) :: (ArrayIte a b c, true) :: rest) bs ars) as (kc & Hkc & Rc).
      rewrite (push_arr p rho _ _ _ _ _ _ Htc) in Rc.
      destruct (IHb Hwb Hcb ((a, false) :: (ArrayIte a b c, true) :: rest) bs ((iw, dw, carr p rho c) :: ars)) as (kb & Hkb & Rb).
      rewrite (push_arr p rho _ _ _ _ _ _ Htb) in Rb.
      destruct (IHa Hwa Hca ((ArrayIte a b c, true) :: rest) bs ((iw, dw, carr p rho b) :: (iw, dw, carr p rho c) :: ars)) as (ka & Hka & Ra).
      rewrite (push_bv p rho _ _ _ _ _ Hta) in Ra.
      exists (S (kc + (kb + (ka + 1)))); split; [cbn [size]; lia|].
      first_step Hnone. eapply nsteps_trans; [exact Rc|]. eapply nsteps_trans; [exact Rb|].
      eapply nsteps_trans; [exact Ra|].
      last_step Hnone. unfold EvalImplProofs.push; cbn [type_of carr is_array_type]; rewrite Hnone, Htc.
      cbn [to_bool N.eqb Pos.eqb]. destruct (cbv p rho a =? 1); reflexivity.
  Qed.

  (** ** machine_correct *)
  Theorem machine_correct_lemma e :
    wt e = true -> covered p e = true ->
    eval_impl p e =
      match type_of e with
      | TBV w => RBV w (cbv p rho e)
      | TArr iw dw => RArr iw dw (carr p rho e)
      end.
  Proof.
    intros Hwt Hcov. unfold eval_impl.
    destruct (machine_steps e Hwt Hcov [] [] []) as (k & Hk & R).
    replace (2 * size e)%nat with (k + (2 * size e - k))%nat by lia.
    rewrite (nsteps_run p _ _ _ R). unfold EvalImplProofs.push.
    destruct (type_of e); destruct (2 * size e - k)%nat; reflexivity.
  Qed.
End MachineCorrect.
