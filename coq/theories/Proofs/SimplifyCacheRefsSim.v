(** * Proofs/SimplifyCacheRefsSim.v — the ExprRef-keyed driver over a cache container (SimplifyCacheRefs.v)
    simulates the tree-keyed driver (SimplifyCache.v): interning is injective and stable, the container over
    references and the association list over trees hold the same entries, step by step. *)
From Coq Require Import Arith NArith List Bool Lia.
From Patronus Require Import ExprEqb ExprMeta ExprMetaSpec ExprMetaProofs SimplifyCache SimplifyCacheRefs SimplifyCacheRefsProofs.
Import ListNotations.
Open Scope N_scope.

(** ** the interning table *)
Lemma expr_eqb_dec : forall a b, expr_eqb a b = true \/ a <> b.
Proof.
  intros a b. destruct (expr_eqb a b) eqn:E; [left; reflexivity|right]. intro H. subst. rewrite expr_eqb_refl in E. discriminate.
Qed.

Lemma node_lt : forall c k e, node c k = Some e -> k < len_N c.
Proof.
  intro c. induction c as [|x r IH]; intros k e H; cbn [node] in H; [discriminate|].
  unfold len_N in *. cbn [length]. destruct (N.eqb_spec k 0) as [E|E]; [lia|]. apply IH in H. lia.
Qed.

Lemma node_app_l : forall c l k e, node c k = Some e -> node (c ++ l) k = Some e.
Proof.
  intro c. induction c as [|x r IH]; intros l k e H; cbn [node app] in *; [discriminate|].
  destruct (k =? 0); [exact H|]. apply IH. exact H.
Qed.

Lemma node_app_last : forall c e, node (c ++ [e]) (len_N c) = Some e.
Proof.
  intro c. induction c as [|x r IH]; intro e; cbn [app node]; [reflexivity|].
  unfold len_N in *. cbn [length]. destruct (N.eqb_spec (N.of_nat (S (length r))) 0) as [E|E]; [lia|].
  replace (N.pred (N.of_nat (S (length r)))) with (N.of_nat (length r)) by lia. apply IH.
Qed.

Lemma find_ref_node : forall c e i k, find_ref c e i = Some k -> i <= k /\ node c (k - i) = Some e.
Proof.
  intro c. induction c as [|x r IH]; intros e i k H; cbn [find_ref] in H; [discriminate|].
  destruct (expr_eqb x e) eqn:E.
  - inversion H; subst. apply expr_eqb_eq in E. subst. rewrite N.sub_diag. cbn. split; [lia|reflexivity].
  - apply IH in H. destruct H as [H1 H2]. split; [lia|]. cbn [node].
    destruct (N.eqb_spec (k - i) 0) as [E0|E0]; [lia|]. replace (N.pred (k - i)) with (k - (i + 1)) by lia. exact H2.
Qed.

Lemma find_ref_none : forall c e i, find_ref c e i = None -> forall k, node c k <> Some e.
Proof.
  intro c. induction c as [|x r IH]; intros e i H k; cbn [find_ref node] in *; [discriminate|].
  destruct (expr_eqb x e) eqn:E; [discriminate|].
  destruct (k =? 0).
  - intro H1. inversion H1; subst. rewrite expr_eqb_refl in E. discriminate.
  - eapply IH. exact H.
Qed.

Lemma find_ref_app : forall c l e i,
  find_ref (c ++ l) e i = match find_ref c e i with Some k => Some k | None => find_ref l e (i + len_N c) end.
Proof.
  intro c. induction c as [|x r IH]; intros l e i; cbn [app find_ref].
  - unfold len_N. cbn. rewrite N.add_0_r. reflexivity.
  - destruct (expr_eqb x e); [reflexivity|]. rewrite IH. unfold len_N. cbn [length].
    destruct (find_ref r e (i + 1)); [reflexivity|]. f_equal. lia.
Qed.

(** injective: a tree stored at [k] is found at [k] *)
Definition ctx_wf (c : ctx) : Prop := forall k e, node c k = Some e -> find_ref c e 0 = Some k.

Definition ctx_ext (c c' : ctx) : Prop := exists l, c' = c ++ l.

Lemma ctx_ext_refl : forall c, ctx_ext c c.
Proof. intro c. exists []. rewrite app_nil_r. reflexivity. Qed.

Lemma ctx_ext_trans : forall a b c, ctx_ext a b -> ctx_ext b c -> ctx_ext a c.
Proof. intros a b c [l1 H1] [l2 H2]. exists (l1 ++ l2). subst. rewrite app_assoc. reflexivity. Qed.

Lemma node_ext : forall c c' k e, ctx_ext c c' -> node c k = Some e -> node c' k = Some e.
Proof. intros c c' k e [l H] Hn. subst. apply node_app_l. exact Hn. Qed.

Lemma find_node : forall c e k, find_ref c e 0 = Some k -> node c k = Some e.
Proof. intros c e k H. apply find_ref_node in H. destruct H as [_ H]. rewrite N.sub_0_r in H. exact H. Qed.

Lemma ctx_wf_nil : ctx_wf [].
Proof. intros k e H. discriminate. Qed.

Lemma node_inj : forall c k k' e, ctx_wf c -> node c k = Some e -> node c k' = Some e -> k = k'.
Proof. intros c k k' e W H1 H2. apply W in H1. apply W in H2. congruence. Qed.

Lemma ref_eqb_tree : forall c k k' e e', ctx_wf c -> node c k = Some e -> node c k' = Some e' -> (k =? k') = expr_eqb e e'.
Proof.
  intros c k k' e e' W H1 H2. destruct (N.eqb_spec k k') as [E|E].
  - subst. rewrite H1 in H2. inversion H2. subst. symmetry. apply expr_eqb_refl.
  - destruct (expr_eqb e e') eqn:Q; [|reflexivity]. apply expr_eqb_eq in Q. subst. exfalso. apply E.
    eapply node_inj; eassumption.
Qed.

Lemma node_app_cases : forall c e k x, node (c ++ [e]) k = Some x -> node c k = Some x \/ (k = len_N c /\ x = e).
Proof.
  intro c. induction c as [|y r IH]; intros e k x H; cbn [app node] in *.
  - destruct (N.eqb_spec k 0) as [E|E]; [|discriminate]. inversion H; subst. right. split; reflexivity.
  - destruct (N.eqb_spec k 0) as [E|E]; [left; exact H|].
    apply IH in H. destruct H as [H|[H1 H2]]; [left; exact H|right]. split; [|exact H2].
    unfold len_N in *. cbn [length]. lia.
Qed.

Lemma intern_spec : forall c e c' k, ctx_wf c -> intern c e = (c', k) ->
  ctx_wf c' /\ ctx_ext c c' /\ node c' k = Some e.
Proof.
  intros c e c' k W H. unfold intern in H. destruct (find_ref c e 0) as [k0|] eqn:F.
  - inversion H; subst. split; [exact W|]. split; [apply ctx_ext_refl|]. apply find_node. exact F.
  - inversion H; subst. split; [|split; [exists [e]; reflexivity|apply node_app_last]].
    intros k x Hn. rewrite find_ref_app. apply node_app_cases in Hn. destruct Hn as [Hn|[Hk Hx]].
    + rewrite (W k x Hn). reflexivity.
    + subst. rewrite F. cbn [find_ref]. rewrite expr_eqb_refl. f_equal.
Qed.

Lemma intern_all_spec : forall es c c' ks, ctx_wf c -> intern_all c es = (c', ks) ->
  ctx_wf c' /\ ctx_ext c c' /\ Forall2 (fun k e => node c' k = Some e) ks es.
Proof.
  intro es. induction es as [|e rest IH]; intros c c' ks W H; cbn [intern_all] in H.
  - inversion H; subst. split; [exact W|]. split; [apply ctx_ext_refl|constructor].
  - destruct (intern c e) as [c1 k] eqn:I. destruct (intern_all c1 rest) as [c2 ks'] eqn:A. inversion H; subst.
    destruct (intern_spec _ _ _ _ W I) as (W1 & X1 & N1). destruct (IH _ _ _ W1 A) as (W2 & X2 & F2).
    split; [exact W2|]. split; [eapply ctx_ext_trans; eassumption|]. constructor; [|exact F2].
    eapply node_ext; eassumption.
Qed.

Lemma nodes_Forall2 : forall c ks es, Forall2 (fun k e => node c k = Some e) ks es -> nodes c ks = Some es.
Proof.
  intros c ks es H. induction H as [|k e ks es Hk _ IH]; cbn [nodes]; [reflexivity|]. rewrite Hk, IH. reflexivity.
Qed.

Lemma Forall2_node_ext : forall c c' ks es, ctx_ext c c' ->
  Forall2 (fun k e => node c k = Some e) ks es -> Forall2 (fun k e => node c' k = Some e) ks es.
Proof. intros c c' ks es X H. induction H; constructor; [eapply node_ext; eassumption|assumption]. Qed.

Lemma Forall2_rev_local : forall (A B : Type) (R : A -> B -> Prop) l1 l2, Forall2 R l1 l2 -> Forall2 R (rev l1) (rev l2).
Proof.
  intros A B R l1 l2 H. induction H as [|x y l1 l2 Hxy _ IH]; cbn [rev]; [constructor|].
  apply Forall2_app; [exact IH|]. constructor; [exact Hxy|constructor].
Qed.

(** ** the container over references and the association list over trees hold the same entries *)
Section Sim.
  Variable M : Type.
  Variable o : map_ops M.
  Hypothesis L : ops_lawful o.

  Record Inv (c : ctx) (m : M) (a : cache) : Prop := {
    inv_wf : ctx_wf c;
    inv_bound : forall k v, mo_get o m k = Some v -> (exists ek, node c k = Some ek) /\ (exists ev, node c v = Some ev);
    inv_rel : forall e, lookup a e = cache_entry o c m e
  }.

  Lemma Inv_ext : forall c c' m a, Inv c m a -> ctx_wf c' -> ctx_ext c c' -> Inv c' m a.
  Proof.
    intros c c' m a [W B R] W' X. split; [exact W'| |].
    - intros k v G. destruct (B k v G) as [[ek Hk] [ev Hv]]. split; eexists; eapply node_ext; eassumption.
    - intro e. rewrite R. unfold cache_entry.
      destruct (find_ref c e 0) as [k|] eqn:F.
      + apply find_node in F. pose proof (node_ext _ _ _ _ X F) as F'. apply W' in F'. rewrite F'.
        destruct (mo_get o m k) as [v|] eqn:G; [|reflexivity].
        destruct (B k v G) as [_ [ev Hv]]. rewrite Hv. symmetry. eapply node_ext; eassumption.
      + destruct (find_ref c' e 0) as [k'|] eqn:F'; [|reflexivity].
        destruct (mo_get o m k') as [v|] eqn:G; [|reflexivity].
        destruct (B k' v G) as [[ek Hk] _]. apply find_node in F'.
        pose proof (node_ext _ _ _ _ X Hk) as Hk'. rewrite F' in Hk'. inversion Hk'; subst.
        exfalso. eapply find_ref_none; eassumption.
  Qed.

  (** reading the entry of a stored tree *)
  Lemma lookup_get : forall c m a k e, Inv c m a -> node c k = Some e ->
    match mo_get o m k with
    | None => lookup a e = None
    | Some v => exists ev, node c v = Some ev /\ lookup a e = Some ev
    end.
  Proof.
    intros c m a k e [W B R] Hk. rewrite R. unfold cache_entry. rewrite (W k e Hk).
    destruct (mo_get o m k) as [v|] eqn:G; [|reflexivity].
    destruct (B k v G) as [_ [ev Hv]]. exists ev. split; [exact Hv|exact Hv].
  Qed.

  Lemma Inv_update : forall c m a k v ek ev, Inv c m a -> node c k = Some ek -> node c v = Some ev ->
    Inv c (mo_set o m k (Some v)) (update a ek ev).
  Proof.
    intros c m a k v ek ev [W B R] Hk Hv. split; [exact W| |].
    - intros k' v' G. rewrite L in G. destruct (N.eqb_spec k k') as [E|E].
      + inversion G; subst. split; eexists; eassumption.
      + apply B. exact G.
    - intro e. unfold update. cbn [lookup]. unfold cache_entry.
      destruct (find_ref c e 0) as [k'|] eqn:F.
      + pose proof (find_node _ _ _ F) as Hk'. rewrite L. rewrite (ref_eqb_tree c k k' ek e W Hk Hk').
        destruct (expr_eqb ek e); [symmetry; exact Hv|]. rewrite R. unfold cache_entry. rewrite F. reflexivity.
      + destruct (expr_eqb ek e) eqn:Q.
        * apply expr_eqb_eq in Q. subst. rewrite (W k e Hk) in F. discriminate.
        * rewrite R. unfold cache_entry. rewrite F. reflexivity.
  Qed.

  (** *** [get_fixed_point] *)
  Definition chase_rel (c : ctx) (x : option (option expr)) (y : option (option N)) : Prop :=
    match x, y with
    | None, None => True
    | Some None, Some None => True
    | Some (Some v), Some (Some kv) => node c kv = Some v
    | _, _ => False
    end.

  Lemma chase_sim : forall fuel c m a k e, Inv c m a -> node c k = Some e ->
    chase_rel c (chase fuel a e) (gfp_chase o fuel m k).
  Proof.
    intro fuel. induction fuel as [|f IH]; intros c m a k e I Hk; cbn [chase gfp_chase]; [exact Logic.I|].
    pose proof (lookup_get c m a k e I Hk) as G.
    destruct (mo_get o m k) as [v|].
    - destruct G as (ev & Hv & Hl). rewrite Hl. rewrite (ref_eqb_tree c k v e ev (inv_wf _ _ _ I) Hk Hv).
      destruct (expr_eqb e ev); [exact Hk|]. apply IH; assumption.
    - rewrite G. exact Logic.I.
  Qed.

  Definition gfp_rel (c : ctx) (x : gfp) (y : gfp_res M) : Prop :=
    match x, y with
    | GSome a' v, GfpSome m' kv => Inv c m' a' /\ node c kv = Some v
    | GNone a', GfpNone m' => Inv c m' a'
    | GFuel, GfpFuel => True
    | _, _ => False
    end.

  Lemma compress_sim : forall fuel c m a k e kf final, Inv c m a -> node c k = Some e -> node c kf = Some final ->
    gfp_rel c (compress fuel a e final) (gfp_update o fuel m k kf).
  Proof.
    intro fuel. induction fuel as [|f IH]; intros c m a k e kf final I Hk Hf; cbn [compress gfp_update]; [exact Logic.I|].
    rewrite (ref_eqb_tree c k kf e final (inv_wf _ _ _ I) Hk Hf).
    destruct (expr_eqb e final); [split; assumption|].
    pose proof (lookup_get c m a k e I Hk) as G.
    destruct (mo_get o m k) as [v|].
    - destruct G as (ev & Hv & Hl). rewrite Hl. apply IH; [apply Inv_update; assumption|exact Hv|exact Hf].
    - rewrite G. exact I.
  Qed.

  Lemma gfp_sim : forall fuel c m a k e, Inv c m a -> node c k = Some e ->
    gfp_rel c (SimplifyCache.get_fixed_point fuel a e) (ExprMeta.get_fixed_point o fuel m k).
  Proof.
    intros fuel c m a k e I Hk. unfold SimplifyCache.get_fixed_point, ExprMeta.get_fixed_point.
    pose proof (lookup_get c m a k e I Hk) as G.
    destruct (mo_get o m k) as [v|].
    - destruct G as (ev & Hv & Hl). rewrite Hl. rewrite (ref_eqb_tree c k v e ev (inv_wf _ _ _ I) Hk Hv).
      destruct (expr_eqb e ev); [split; assumption|].
      pose proof (chase_sim fuel c m a k e I Hk) as C.
      destruct (chase fuel a e) as [[fin|]|]; destruct (gfp_chase o fuel m k) as [[kf|]|]; cbn in C; try contradiction.
      + apply compress_sim; assumption.
      + exact I.
      + exact Logic.I.
    - rewrite G. exact I.
  Qed.

  (** *** the [for_each_child] closure *)
  Notation nodes_are c := (Forall2 (fun k e => node c k = Some e)).

  Definition visit_rel (c : ctx) (x : vres) (y : vres_r M) : Prop :=
    match x, y with
    | VOk a' cs chg miss, VOkR m' kcs chg' kmiss =>
        Inv c m' a' /\ nodes_are c kcs cs /\ chg = chg' /\ nodes_are c kmiss miss
    | VFuel, VFuelR => True
    | _, _ => False
    end.

  Lemma visit_sim : forall fuel c ks chs m a, Inv c m a -> nodes_are c ks chs ->
    visit_rel c (visit fuel a chs) (visit_r o fuel m ks).
  Proof.
    intros fuel c ks chs m a I H. revert m a I. induction H as [|k ch ks chs Hk Hrest IH]; intros m a I; cbn [visit visit_r].
    - split; [exact I|]. split; [constructor|]. split; [reflexivity|constructor].
    - pose proof (gfp_sim fuel c m a k ch I Hk) as G.
      destruct (SimplifyCache.get_fixed_point fuel a ch) as [a1 v|a1|];
        destruct (ExprMeta.get_fixed_point o fuel m k) as [m1 kv|m1|]; cbn in G; try contradiction.
      + destruct G as [I1 Hv]. specialize (IH m1 a1 I1).
        destruct (visit fuel a1 chs) as [a2 cs chg miss|]; destruct (visit_r o fuel m1 ks) as [m2 kcs chg' kmiss|];
          cbn in IH; try contradiction; [|exact Logic.I].
        destruct IH as (I2 & C & E & Mi). subst chg'. cbn.
        split; [exact I2|]. split; [constructor; assumption|]. split; [|exact Mi].
        rewrite (ref_eqb_tree c kv k v ch (inv_wf _ _ _ I) Hv Hk). reflexivity.
      + specialize (IH m1 a1 G).
        destruct (visit fuel a1 chs) as [a2 cs chg miss|]; destruct (visit_r o fuel m1 ks) as [m2 kcs chg' kmiss|];
          cbn in IH; try contradiction; [|exact Logic.I].
        destruct IH as (I2 & C & E & Mi). cbn. split; [exact I2|]. split; [exact C|]. split; [exact E|]. constructor; assumption.
      + exact Logic.I.
  Qed.

  (** *** the work-stack loop *)
  Definition run_rel (c : ctx) (x : rres) (y : rres_r M) : Prop :=
    match x, y with
    | ROk a', ROkR c' m' => Inv c' m' a' /\ ctx_ext c c'
    | RPanic, RPanicR => True
    | RFuel, RFuelR => True
    | _, _ => False
    end.

  Lemma run_rel_ext : forall c c' x y, ctx_ext c c' -> run_rel c' x y -> run_rel c x y.
  Proof.
    intros c c' x y X H. destruct x; destruct y; cbn in *; try contradiction; try exact Logic.I.
    destruct H as [I X']. split; [exact I|eapply ctx_ext_trans; eassumption].
  Qed.

  Lemma run_sim : forall fuel c m a ktodo todo, Inv c m a -> nodes_are c ktodo todo ->
    run_rel c (run fuel a todo) (run_r o fuel c m ktodo).
  Proof.
    intro fuel. induction fuel as [|f IH]; intros c m a ktodo todo I T; cbn [run run_r]; [exact Logic.I|].
    destruct T as [|r e krest rest Hr Trest]; [split; [exact I|apply ctx_ext_refl]|].
    rewrite Hr.
    destruct (intern_all c (children e)) as [c0 chs] eqn:A.
    destruct (intern_all_spec _ _ _ _ (inv_wf _ _ _ I) A) as (W0 & X0 & Fch).
    pose proof (Inv_ext c c0 m a I W0 X0) as I0.
    pose proof (visit_sim f c0 chs (children e) m a I0 Fch) as V.
    destruct (visit f a (children e)) as [a1 cs chg miss|]; destruct (visit_r o f m chs) as [m1 kcs chg' kmiss|];
      cbn in V; try contradiction; [|exact Logic.I].
    destruct V as (I1 & C & E & Mi). subst chg'.
    pose proof (node_ext _ _ _ _ X0 Hr) as Hr0.
    pose proof (Forall2_node_ext _ _ _ _ X0 Trest) as Trest0.
    destruct Mi as [|km mi kms mis Hm Hms].
    - rewrite (nodes_Forall2 c0 kcs cs C).
      destruct (simplify e cs) as [res|]; [|exact Logic.I].
      set (new := match res with Some x => x | None => if chg then rebuild e cs else e end).
      destruct (intern c0 new) as [c1 nr] eqn:In.
      destruct (intern_spec _ _ _ _ W0 In) as (W1 & X1 & Hn).
      pose proof (Inv_ext c0 c1 m1 a1 I1 W1 X1) as I1'.
      pose proof (node_ext _ _ _ _ X1 Hr0) as Hr1.
      pose proof (Inv_update c1 m1 a1 r nr e new I1' Hr1 Hn) as I2.
      rewrite (ref_eqb_tree c1 r nr e new W1 Hr1 Hn).
      pose proof (lookup_get c1 _ _ nr new I2 Hn) as G.
      assert (is_none_r (mo_get o (mo_set o m1 r (Some nr)) nr) = is_none (lookup (update a1 e new) new)) as En.
      { destruct (mo_get o (mo_set o m1 r (Some nr)) nr) as [v|]; [destruct G as (ev & _ & Hl); rewrite Hl|rewrite G]; reflexivity. }
      rewrite En.
      apply (run_rel_ext c c1); [eapply ctx_ext_trans; eassumption|].
      pose proof (Forall2_node_ext _ _ _ _ X1 Trest0) as Trest1.
      destruct (negb (expr_eqb e new) && is_none (lookup (update a1 e new) new)); apply IH; try exact I2; try exact Trest1.
      constructor; assumption.
    - apply (run_rel_ext c c0); [exact X0|]. apply IH; [exact I1|].
      apply Forall2_app; [|constructor; assumption].
      apply Forall2_rev_local. constructor; assumption.
  Qed.

  (** *** [Simplifier::simplify] and histories *)
  Lemma simplify_cached_sim : forall fuel c m a e, Inv c m a ->
    match simplify_cached fuel a e, simplify_cached_r o fuel c m e with
    | (a', s), (c', m', s') => s = s' /\ Inv c' m' a' /\ ctx_ext c c'
    end.
  Proof.
    intros fuel c m a e I. unfold simplify_cached, simplify_cached_r.
    destruct (intern c e) as [c0 r] eqn:In.
    destruct (intern_spec _ _ _ _ (inv_wf _ _ _ I) In) as (W0 & X0 & Hr).
    pose proof (Inv_ext c c0 m a I W0 X0) as I0.
    assert (Forall2 (fun k x => node c0 k = Some x) [r] [e]) as T by (constructor; [exact Hr|constructor]).
    pose proof (run_sim fuel c0 m a [r] [e] I0 T) as R.
    destruct (run fuel a [e]) as [a1| |]; destruct (run_r o fuel c0 m [r]) as [c1 m1| | |]; cbn in R; try contradiction;
      try (split; [reflexivity|split; [exact I|apply ctx_ext_refl]]).
    destruct R as [I1 X1].
    pose proof (node_ext _ _ _ _ X1 Hr) as Hr1.
    pose proof (gfp_sim fuel c1 m1 a1 r e I1 Hr1) as G.
    assert (ctx_ext c c1) as X by (eapply ctx_ext_trans; eassumption).
    destruct (SimplifyCache.get_fixed_point fuel a1 e) as [a2 v|a2|];
      destruct (ExprMeta.get_fixed_point o fuel m1 r) as [m2 kv|m2|]; cbn in G; try contradiction.
    - destruct G as [I2 Hv]. rewrite Hv. split; [reflexivity|split; assumption].
    - split; [reflexivity|split; assumption].
    - split; [reflexivity|split; assumption].
  Qed.

  Lemma simplify_batch_sim : forall fuel es c m a, Inv c m a ->
    match simplify_batch fuel a es, simplify_batch_r o fuel c m es with
    | (a', rs), (c', m', rs') => rs = rs' /\ Inv c' m' a' /\ ctx_ext c c'
    end.
  Proof.
    intros fuel es. induction es as [|e rest IH]; intros c m a I; cbn [simplify_batch simplify_batch_r].
    - split; [reflexivity|split; [exact I|apply ctx_ext_refl]].
    - pose proof (simplify_cached_sim fuel c m a e I) as H.
      destruct (simplify_cached fuel a e) as [a1 s]. destruct (simplify_cached_r o fuel c m e) as [[c1 m1] s'].
      destruct H as (Es & I1 & X1). subst s'. specialize (IH c1 m1 a1 I1).
      destruct (simplify_batch fuel a1 rest) as [a2 rs]. destruct (simplify_batch_r o fuel c1 m1 rest) as [[c2 m2] rs'].
      destruct IH as (Er & I2 & X2). subst rs'. split; [reflexivity|]. split; [exact I2|eapply ctx_ext_trans; eassumption].
  Qed.

  Lemma Inv_empty : forall m, (forall k, mo_get o m k = None) -> Inv [] m [].
  Proof.
    intros m H. split; [exact ctx_wf_nil| |].
    - intros k v G. rewrite H in G. discriminate.
    - intro e. reflexivity.
  Qed.
End Sim.

(** ** the statement for the two containers of meta.rs *)
Definition cache_rel {M : Type} (o : map_ops M) (c : ctx) (m : M) (a : cache) : Prop := Inv M o c m a.

Theorem refs_driver_refines_tree_driver : forall (fuel : nat) (es : list expr),
  match simplify_batch fuel [] es, simplify_batch_dense fuel es, simplify_batch_sparse fuel es with
  | (a, rs), (cd, d, rd), (cs, s, rs') =>
      rd = rs /\ rs' = rs /\ cache_rel dense_ops cd d a /\ cache_rel sparse_ops cs s a
  end.
Proof.
  intros fuel es. unfold simplify_batch_dense, simplify_batch_sparse.
  pose proof (simplify_batch_sim _ dense_ops dense_ops_lawful fuel es [] dense_empty [] (Inv_empty _ dense_ops dense_empty (fun k => eq_refl))) as Hd.
  pose proof (simplify_batch_sim _ sparse_ops sparse_ops_lawful fuel es [] sparse_empty [] (Inv_empty _ sparse_ops sparse_empty (fun k => eq_refl))) as Hs.
  destruct (simplify_batch fuel [] es) as [a rs].
  destruct (simplify_batch_r dense_ops fuel [] dense_empty es) as [[cd d] rd].
  destruct (simplify_batch_r sparse_ops fuel [] sparse_empty es) as [[cs s] rs'].
  destruct Hd as (E1 & I1 & _). destruct Hs as (E2 & I2 & _). subst. auto.
Qed.

(** one call from related states (an instance with any past), any lawful container *)
Theorem refs_call_refines_tree_call : forall (M : Type) (o : map_ops M), ops_lawful o ->
  forall (fuel : nat) (c : ctx) (m : M) (a : cache) (e : expr), cache_rel o c m a ->
  match simplify_cached fuel a e, simplify_cached_r o fuel c m e with
  | (a', s), (c', m', s') => s = s' /\ cache_rel o c' m' a' /\ ctx_ext c c'
  end.
Proof. intros M o L fuel c m a e I. apply simplify_cached_sim; assumption. Qed.
