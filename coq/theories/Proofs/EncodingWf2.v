(** * Proofs/EncodingWf2.v — well-formedness of the second repair ([init_at2]/[script2]):
    init signals are defined right before the first state whose init expression needs them.
    Only "an init expression reads earlier states only" is required; a shared init sub-term
    may now read a state. *)
From Coq Require Import List Bool Lia.
From Patronus Require Import EvalImpl Encoding SysExec ReachBmc ExprLemmas McBasics ScriptProofs EncodingBasics
     EncodingFaithful EncodingWf AnalysisProofs.
Import ListNotations.
Open Scope N_scope.

(** every state read by an init expression is declared earlier *)
Definition reads_earlier (en : enc) (sts : list state) : Prop :=
  forall l1 st l2 e y st', sts = l1 ++ st :: l2 -> st_init st = Some e ->
    In y (symbols_of e) -> find_state en y = Some st' -> In st' l1.

Definition inits_read_earlier (en : enc) : Prop := reads_earlier en (s_states (e_sys en)).

Section Wf2.
  Variable en : enc.
  Hypothesis Hb : enc_basic en.
  Hypothesis Ho : enc_order en.
  Hypothesis Hn : name_inj en.
  Let sy := e_sys en.
  (** the order in which the states are emitted: any arrangement of the states of the system in
      which every init expression reads earlier states only *)
  Variable sts : list state.
  Hypothesis Hperm : forall st, In st sts <-> In st (s_states sy).
  Hypothesis Hnd : NoDup (map st_sym sts).
  Hypothesis Hre : reads_earlier en sts.

  Definition f2 (v : expr) (done : list expr) (s : sig) : bool :=
    pos (u_init (sg_uses s)) && needs v s && negb (existsb (fun d => needs d s) done).

  Definition needed_by (done : list expr) (s : sig) : Prop := exists v, In v done /\ needs v s = true.

  Lemma needed_by_b done s : existsb (fun d => needs d s) done = true <-> needed_by done s.
  Proof. unfold needed_by. rewrite existsb_exists. tauto. Qed.

  (** what has been emitted after the states [l1] (whose init expressions are [done]) *)
  Definition P2 (l1 : list state) (done : list expr) (e : expr) (k : N) : Prop :=
    k = 0 /\ ((exists st, In st l1 /\ st_sym st = e) \/
              (exists s, In s (e_sigs en) /\ fI s = true /\ sg_expr s = e /\ needed_by done s)).

  Lemma needs_sub v s : needs v s = true <-> In (sg_expr s) (subterms v).
  Proof. unfold needs. apply mem_In. Qed.

  Lemma single_item P d it :
    Emitted en d P ->
    sig_sym en (it_e it) (it_k it) = Some (mk_sym (it_nm it) (it_t it)) -> ty_pos (it_t it) = true ->
    (forall k', k' = it_k it \/ is_const_state en (it_e it) -> ~ P (it_e it) k') ->
    (forall b d', it_body it = Some b -> (forall e k, Has en d e k -> Has en d' e k) ->
                  wt b = true /\ type_of b = it_t it /\ syms_ok d' b = true) ->
    let d' := script_decls d [item_cmd it] in
    script_check d [item_cmd it] = true /\
    (forall e k, Has en d e k -> Has en d' e k) /\
    Has en d' (it_e it) (it_k it) /\
    Emitted en d' (fun e k => P e k \/ (e = it_e it /\ k = it_k it)).
  Proof.
    intros Hem Hs Hpos Hfresh Hbody.
    destruct (items_ok en Hn P d [it]) with (l2 := [it]) (l1 := @nil item) (d := d) as (Hc & Hm & Hd & He).
    - intros it' [<-|[]]. auto.
    - cbn. constructor; [intros []|constructor].
    - intros it' k' [<-|[]]. apply Hfresh.
    - intros l1 it' l2 b d' Hsplit Hb' Hmono _.
      assert (it' = it).
      { destruct l1 as [|x l1]; cbn in Hsplit; inversion Hsplit; subst; [reflexivity|destruct l1; discriminate]. }
      subst it'. now apply Hbody.
    - reflexivity.
    - auto.
    - intros it' [].
    - eapply Emitted_weaken; [exact Hem|]. intros e k HP. now left.
    - cbn zeta in *. split; [exact Hc|]. split; [exact Hm|]. split; [apply Hd; now left|].
      eapply Emitted_weaken; [exact He|]. intros e k [HP|(it' & [<-|[]] & <- & <-)]; auto.
  Qed.

  Lemma init_item_cmd st :
    item_cmd (init_item en 0 st) =
    match st_init st with
    | Some v => DefineFun (state_name_at st 0) (type_of (st_sym st)) (expr_in_step en v 0)
    | None => DeclareConst (state_name_at st 0) (type_of (st_sym st))
    end.
  Proof. unfold item_cmd, init_item. cbn. destruct (st_init st); reflexivity. Qed.

  Lemma not_const_state_of_fresh (P : expr -> N -> Prop) st : In st (s_states sy) ->
    (forall k', ~ P (st_sym st) k') ->
    forall k', k' = 0 \/ is_const_state en (st_sym st) -> ~ P (st_sym st) k'.
  Proof. intros _ H k' _. apply H. Qed.

  (** the loop over the states *)
  Lemma init2_loop : forall l2 l1 done d,
    sts = l1 ++ l2 ->
    (forall v, In v done <-> exists st, In st l1 /\ st_init st = Some v) ->
    Emitted en d (P2 l1 done) ->
    (forall st, In st l1 -> Has en d (st_sym st) 0) ->
    (forall s, In s (e_sigs en) -> fI s = true -> needed_by done s -> Has en d (sg_expr s) 0) ->
    let d' := script_decls d (init_states2 en done l2) in
    script_check d (init_states2 en done l2) = true /\
    (forall st, In st (s_states sy) -> Has en d' (st_sym st) 0) /\
    (forall s, In s (e_sigs en) -> fI s = true -> Has en d' (sg_expr s) 0) /\
    Emitted en d' (fun e k => k = 0 /\ ((exists st, In st (s_states sy) /\ st_sym st = e) \/
                                       (exists s, In s (e_sigs en) /\ fI s = true /\ sg_expr s = e))).
  Proof.
    induction l2 as [|st r IH]; intros l1 done d Hsplit Hdone Hem HS HI; cbn zeta.
    - cbn [init_states2 script_check script_decls fold_left]. rewrite app_nil_r in Hsplit.
      split; [reflexivity|]. split; [intros st Hst; apply HS; rewrite <- Hsplit; now apply Hperm|]. split.
      + intros s Hs HfI. apply HI; [assumption|assumption|].
        destruct (eo_init_sub en Ho s Hs HfI) as (v & Hv & Hsub).
        exists v. split; [|now apply needs_sub].
        apply Hdone. unfold init_exprs in Hv. apply in_flat_map in Hv. destruct Hv as (st & Hst & Hv').
        exists st. fold sy in Hst. apply Hperm in Hst. rewrite Hsplit in Hst. split; [assumption|].
        destruct (st_init st); [destruct Hv' as [<-|[]]; reflexivity|destruct Hv'].
      + eapply Emitted_weaken; [exact Hem|]. intros e k [-> [(st & Hst & He)|(s & Hs & HfI & He & _)]].
        * split; [reflexivity|]. left. exists st. split; [apply Hperm; rewrite Hsplit; assumption|assumption].
        * split; [reflexivity|]. right. exists s. auto.
    - assert (Hst : In st (s_states sy)) by (apply Hperm; rewrite Hsplit; apply in_or_app; right; now left).
      assert (Hsplit' : sts = (l1 ++ [st]) ++ r) by (rewrite <- app_assoc; exact Hsplit).
      assert (Hnotl1 : ~ In st l1).
      { pose proof Hnd as Hnd'. rewrite Hsplit, map_app in Hnd'. cbn [map] in Hnd'.
        apply NoDup_remove_2 in Hnd'. intros H. apply Hnd'. apply in_or_app. left. now apply in_map. }
      assert (Hfresh_st : forall P' : expr -> N -> Prop,
                 (forall e k, P' e k -> P2 l1 done e k \/ (exists s, In s (e_sigs en) /\ sg_expr s = e)) ->
                 forall k', k' = 0 \/ is_const_state en (st_sym st) -> ~ P' (st_sym st) k').
      { intros P' HP' k' _ HP. destruct (HP' _ _ HP) as [[_ [(st' & Hst' & He)|(s & Hs & _ & He & _)]]|(s & Hs & He)].
        - assert (st' = st).
          { assert (Hin' : In st' (s_states sy)) by (apply Hperm; rewrite Hsplit; apply in_or_app; now left).
            pose proof (find_state_of en Hb st' Hin') as F1. pose proof (find_state_of en Hb st Hst) as F2.
            rewrite He in F1. congruence. }
          subst st'. contradiction.
        - now apply (state_not_sig en Hb st s).
        - now apply (state_not_sig en Hb st s). }
      cbn [init_states2]. destruct (st_init st) as [v|] eqn:Ei.
      + (* signals needed by this init expression, then the state *)
        fold (f2 v done).
        assert (Hvr : In v (init_exprs sy)).
        { unfold init_exprs. apply in_flat_map. exists st. split; [assumption|]. rewrite Ei. now left. }
        destruct (signals_block en Hb Ho Hn 0 (f2 v done) (P2 l1 done) d Hem) as (Hc1 & Hm1 & Hd1 & He1).
        { intros s Hs Hf [_ [(st' & Hst' & He)|(s0 & Hs0 & _ & He & Hnb)]].
          - apply (state_not_sig en Hb st' s); [fold sy; apply Hperm; rewrite Hsplit; apply in_or_app; now left|assumption|assumption].
          - assert (s0 = s) by (now apply (in_sigs_unique en Hb)). subst s0.
            unfold f2 in Hf. rewrite !andb_true_iff in Hf. destruct Hf as [_ Hf]. apply negb_true_iff in Hf.
            apply needed_by_b in Hnb. congruence. }
        { intros s x Hs Hf Hx Hne Hsx. unfold f2 in Hf. rewrite !andb_true_iff in Hf. destruct Hf as [[HfI Hnv] _].
          apply needs_sub in Hnv.
          assert (Hxv : In x (subterms v)) by (eapply subterms_trans; eassumption).
          destruct (dep_cases en x 0 Hsx) as [(st' & Hst' & <-)|(s' & Hs' & <-)].
          - left. apply HS. apply (Hre l1 st r v (st_sym st') st' Hsplit Ei).
            + apply subterm_symbol; [assumption|now apply (state_sym_is_symbol en Hb)].
            + now apply (find_state_of en Hb).
          - assert (HfI' : fI s' = true) by (now apply (eo_mono en Ho s s' Hs Hs' Hx)).
            destruct (existsb (fun d0 => needs d0 s') done) eqn:Ed.
            + left. apply HI; [assumption|assumption|now apply needed_by_b].
            + right. exists s'. split; [assumption|]. split; [reflexivity|].
              unfold f2. unfold fI in HfI'. rewrite HfI', Ed. cbn. rewrite andb_true_r. now apply needs_sub. }
        set (d1 := script_decls d (define_signals en 0 (f2 v done))) in *.
        set (P1 := fun e k' => P2 l1 done e k' \/ (k' = 0 /\ exists s, In s (e_sigs en) /\ f2 v done s = true /\ sg_expr s = e)) in *.
        destruct (single_item P1 d1 (init_item en 0 st) He1) as (Hc2 & Hm2 & Hd2 & He2).
        { cbn [init_item it_e it_k it_nm it_t]. now apply (sig_sym_state en Hb). }
        { cbn [init_item it_t]. now apply (state_ty_pos en Hb). }
        { cbn [init_item it_e it_k]. apply Hfresh_st. intros e k [HP|(_ & s & Hs & _ & He)]; [now left|right; eauto]. }
        { intros b d' Hbody Hmono. cbn [init_item it_body it_t] in *. rewrite N.eqb_refl, Ei in Hbody. inversion Hbody; subst b.
          destruct (state_init_ok en Hb st v Hst Ei) as [Hwt Hty].
          destruct (body_ok en Hb d' v 0 (negb (is_symbol v)) Hwt) as (Hw & Htt & Hok).
          - apply (eb_closed en Hb). right; left. exact Hvr.
          - intros H. now apply negb_true_iff in H.
          - intros x Hx _ Hsx. apply Hmono.
            destruct (dep_cases en x 0 Hsx) as [(st' & Hst' & <-)|(s' & Hs' & <-)].
            + apply Hm1. apply HS. apply (Hre l1 st r v (st_sym st') st' Hsplit Ei).
              * apply subterm_symbol; [assumption|now apply (state_sym_is_symbol en Hb)].
              * now apply (find_state_of en Hb).
            + assert (HfI' : fI s' = true) by (now apply (eo_init_root en Ho v s')).
              destruct (existsb (fun d0 => needs d0 s') done) eqn:Ed.
              * apply Hm1. apply HI; [assumption|assumption|now apply needed_by_b].
              * apply Hd1; [assumption|]. unfold f2. unfold fI in HfI'. rewrite HfI', Ed. cbn. rewrite andb_true_r. now apply needs_sub.
          - unfold expr_in_step. rewrite <- Hty. auto. }
        cbn zeta in Hc2, Hm2, Hd2, He2. rewrite init_item_cmd, Ei in Hc2, Hm2, Hd2, He2. cbn [init_item it_e it_k] in Hd2, He2.
        set (c := DefineFun (state_name_at st 0) (type_of (st_sym st)) (expr_in_step en v 0)) in *.
        set (d2 := script_decls d1 [c]) in *.
        destruct (IH (l1 ++ [st]) (v :: done) d2 Hsplit') as (Hc3 & HS3 & HI3 & He3).
        { intros v'. split.
          - intros [<-|Hv']; [exists st; split; [apply in_or_app; right; now left|assumption]|].
            apply Hdone in Hv'. destruct Hv' as (st' & Hst' & Hi'). exists st'. split; [apply in_or_app; now left|assumption].
          - intros (st' & Hst' & Hi'). apply in_app_or in Hst'. destruct Hst' as [Hst'|[<-|[]]].
            + right. apply Hdone. eauto.
            + left. congruence. }
        { eapply Emitted_weaken; [exact He2|]. intros e k [[[-> Hcase]|(-> & s & Hs & Hf & He)]|[-> ->]].
          - split; [reflexivity|]. destruct Hcase as [(st' & Hst' & He)|(s & Hs & HfI & He & v' & Hv' & Hn')].
            + left. exists st'. split; [apply in_or_app; now left|assumption].
            + right. exists s. repeat split; try assumption. exists v'. split; [now right|assumption].
          - split; [reflexivity|]. right. exists s. unfold f2 in Hf. rewrite !andb_true_iff in Hf. destruct Hf as [[HfI Hnv] _].
            repeat split; try assumption. exists v. split; [now left|assumption].
          - split; [reflexivity|]. left. exists st. split; [apply in_or_app; right; now left|reflexivity]. }
        { intros st' Hst'. apply in_app_or in Hst'. destruct Hst' as [Hst'|[<-|[]]]; [apply Hm2, Hm1; now apply HS|exact Hd2]. }
        { intros s Hs HfI (v' & [<-|Hv'] & Hn').
          - destruct (existsb (fun d0 => needs d0 s) done) eqn:Ed.
            + apply Hm2, Hm1. apply HI; [assumption|assumption|now apply needed_by_b].
            + apply Hm2. apply Hd1; [assumption|]. unfold f2. unfold fI in HfI. now rewrite HfI, Hn', Ed.
          - apply Hm2, Hm1. apply HI; [assumption|assumption|]. exists v'. auto. }
        cbn zeta in Hc3, HS3, HI3, He3.
        assert (E : forall R, c :: R = [c] ++ R) by reflexivity.
        fold c. rewrite (E (init_states2 en (v :: done) r)).
        rewrite !script_check_app, !script_decls_app. fold d1. rewrite Hc1. cbn [andb]. fold d2. rewrite Hc2. cbn [andb].
        rewrite Hc3. auto.
      + (* a state without init: declared *)
        destruct (single_item (P2 l1 done) d (init_item en 0 st) Hem) as (Hc2 & Hm2 & Hd2 & He2).
        { cbn [init_item it_e it_k it_nm it_t]. now apply (sig_sym_state en Hb). }
        { cbn [init_item it_t]. now apply (state_ty_pos en Hb). }
        { cbn [init_item it_e it_k]. apply Hfresh_st. intros e k HP. now left. }
        { intros b d' Hbody _. cbn [init_item it_body] in Hbody. rewrite Ei in Hbody. destruct (0 =? 0); discriminate. }
        cbn zeta in Hc2, Hm2, Hd2, He2. rewrite init_item_cmd, Ei in Hc2, Hm2, Hd2, He2. cbn [init_item it_e it_k] in Hd2, He2.
        set (c := DeclareConst (state_name_at st 0) (type_of (st_sym st))) in *.
        set (d2 := script_decls d [c]) in *.
        destruct (IH (l1 ++ [st]) done d2 Hsplit') as (Hc3 & HS3 & HI3 & He3).
        { intros v'. rewrite Hdone. split.
          - intros (st' & Hst' & Hi'). exists st'. split; [apply in_or_app; now left|assumption].
          - intros (st' & Hst' & Hi'). apply in_app_or in Hst'. destruct Hst' as [Hst'|[<-|[]]]; [eauto|congruence]. }
        { eapply Emitted_weaken; [exact He2|]. intros e k [[-> Hcase]|[-> ->]].
          - split; [reflexivity|]. destruct Hcase as [(st' & Hst' & He)|Hr]; [|now right].
            left. exists st'. split; [apply in_or_app; now left|assumption].
          - split; [reflexivity|]. left. exists st. split; [apply in_or_app; right; now left|reflexivity]. }
        { intros st' Hst'. apply in_app_or in Hst'. destruct Hst' as [Hst'|[<-|[]]]; [apply Hm2; now apply HS|exact Hd2]. }
        { intros s Hs HfI Hnb. apply Hm2. now apply HI. }
        cbn zeta in Hc3, HS3, HI3, He3.
        assert (E : forall R, c :: R = [c] ++ R) by reflexivity.
        fold c. rewrite (E (init_states2 en done r)).
        rewrite script_check_app, script_decls_app. fold d2. rewrite Hc2. cbn [andb]. rewrite Hc3. auto.
  Qed.

  (** the init block over [sts] establishes the invariant of [unroll] *)
  Definition init_block : list cmd :=
    init_states2 en [] sts ++
    define_signals en 0 (fun s => (pos (u_other (sg_uses s)) || sg_input s) && (u_init (sg_uses s) =? 0)).

  Lemma init2_ok :
    let d' := script_decls [] init_block in
    script_check [] init_block = true /\ Open en d' 0 /\ InitSigs en d' /\ Emitted en d' (Em en 0 0).
  Proof.
    unfold init_block.
    destruct (init2_loop sts [] [] []) as (Hc1 & HS1 & HI1 & He1).
    - reflexivity.
    - intros v. split; [intros []|intros (st & [] & _)].
    - apply Emitted_nil.
    - intros st [].
    - intros s _ _ (v & [] & _).
    - cbn zeta in *. fold sy.
      set (d1 := script_decls [] (init_states2 en [] sts)) in *.
      destruct (signals_block en Hb Ho Hn 0 fC _ d1 He1) as (Hc3 & Hm3 & Hd3 & He3).
      { intros s Hs Hf [_ [(st & Hst & He)|(s0 & Hs0 & HI & He)]].
        - now apply (state_not_sig en Hb st s).
        - assert (s0 = s) by (now apply (in_sigs_unique en Hb)). subst s0.
          unfold fC in Hf. apply andb_true_iff in Hf. destruct Hf as [_ Hf]. rewrite eqb0_pos in Hf.
          unfold fI in HI. rewrite HI in Hf. discriminate. }
      { intros s x Hs Hf Hx Hne Hsx.
        destruct (is_symbol (sg_expr s)) eqn:Esym; [exfalso; apply Hne; now apply proper_subterm_of_symbol|].
        unfold fC in Hf. apply andb_true_iff in Hf. destruct Hf as [HfO _].
        pose proof (nonsym_O_other en Ho s Hs HfO Esym) as Hoth.
        destruct (dep_cases en x 0 Hsx) as [(st & Hst & <-)|(s' & Hs' & <-)].
        - left. now apply HS1.
        - pose proof (proj2 (proj2 (eo_mono en Ho s s' Hs Hs' Hx)) Hoth) as Hoth'.
          destruct (fI s') eqn:EI.
          + left. now apply HI1.
          + right. exists s'. split; [assumption|]. split; [reflexivity|].
            unfold fC. rewrite Hoth', eqb0_pos. unfold fI in EI. now rewrite EI. }
      rewrite script_check_app, script_decls_app. fold d1. rewrite Hc1. cbn [andb].
      change (fun s : sig => (pos (u_other (sg_uses s)) || sg_input s) && (u_init (sg_uses s) =? 0)) with fC.
      rewrite Hc3. split; [reflexivity|]. split; [|split].
      + split; [intros st Hst; now apply Hm3, HS1|].
        intros s Hs Hf. destruct (fI s) eqn:EI; [apply Hm3; now apply HI1|].
        apply Hd3; [assumption|]. unfold fC. unfold fO in Hf. rewrite Hf, eqb0_pos. unfold fI in EI. now rewrite EI.
      + intros s Hs HI. apply Hm3. now apply HI1.
      + eapply Emitted_weaken; [exact He3|].
        intros e k' [[-> [(st & Hst & He)|(s & Hs & HI & He)]]|(-> & s & Hs & Hf & He)].
        * left. split; [exists st; auto|lia].
        * right. exists s. split; [assumption|]. split; [assumption|]. right; left. auto.
        * right. exists s. split; [assumption|]. split; [assumption|]. left.
          unfold fC in Hf. apply andb_true_iff in Hf. split; [tauto|lia].
  Qed.

  Theorem init_block_script_wf n : script_check [] (init_block ++ unrolls Fixed en 0 0 n) = true.
  Proof.
    rewrite script_check_app. destruct init2_ok as (Hc & Hop & Hinit & Hem).
    rewrite Hc. cbn [andb]. apply (unrolls_ok en Hb Ho Hn 0 n 0); [lia|assumption|intros _; assumption|assumption].
  Qed.
End Wf2.

(** the second repair: the states in declaration order *)
Theorem script2_wf en : enc_basic en -> enc_order en -> name_inj en -> inits_read_earlier en ->
  forall n, script_check [] (script2 en n) = true.
Proof.
  intros Hb Ho Hn Hre n.
  apply (init_block_script_wf en Hb Ho Hn (s_states (e_sys en))); [tauto|apply (eb_states_nodup en Hb)|exact Hre].
Qed.
