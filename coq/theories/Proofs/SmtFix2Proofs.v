(** * Proofs/SmtFix2Proofs.v — C14, the variant [Fix2] (= the code with patches/0016..0018 on top of [Fix]):
    the reader never panics, on any text.  The check of the operands ([checked_pattern]) turns the panic of a
    builder into an error; what is left to prove is that the only other panic of the token machine, the debug
    assertion of [NestedSymbolTable::pop_let], cannot be reached: a let scope is only closed after it was opened. *)
From Coq Require Import Lia.
From Patronus Require Import SmtParse SmtParseLemmas SmtParseProofs SmtRoundTrip SmtFixProofs.
Open Scope string_scope.
Open Scope list_scope.
Open Scope N_scope.

(** ** the lexer of [Fix2] is the lexer of [Fix] *)

Lemma lx_go_fix2 : forall s st out, lx_go Fix2 st s out = lx_go Fix st s out.
Proof.
  induction s as [|c r IH]; intros st out; [destruct st; reflexivity|].
  destruct st; cbn [lx_go];
    repeat match goal with
           | |- context [let (_, _) := ?x in _] => destruct x
           | |- context [if ?b then _ else _] => destruct b
           end; try apply IH; reflexivity.
Qed.

Theorem lex_fix2_no_panic s : ~ In TkLexPanic (lex_impl Fix2 s).
Proof. unfold lex_impl. rewrite lx_go_fix2. apply lex_fix_no_panic. Qed.

(** ** what [parse_pattern] returns *)

(** items that stand for an open let scope *)
Definition scope_item (i : pitem) : nat :=
  match i with IOpen true | ILetScopeOpenMissingClose => 1 | _ => 0 end.

Definition okp (x : pres pitem) : Prop := forall i, x = POk i -> scope_item i = 0%nat.

Lemma okp_bind {A} (x : pres A) f : (forall a, okp (f a)) -> okp (pbind x f).
Proof. intros H i. destruct x; cbn [pbind]; try discriminate. apply H. Qed.

Lemma okp_binop st args op k : okp (bin_op st args op k).
Proof. intros i H. destruct (bin_op_expr _ _ _ _ _ H) as [e ->]. reflexivity. Qed.

Lemma ret_inv (x : pres pitem) (st : nst) item (st1 : nst) :
  pbind x (fun i => POk (i, st)) = POk (item, st1) -> st1 = st /\ x = POk item.
Proof. destruct x; cbn [pbind]; intros H; inversion H; subst; auto. Qed.

Ltac okp_leaf :=
  repeat first [ apply okp_bind; intros | apply okp_binop ];
  try (intros ? Hk; first [discriminate Hk | inversion Hk; subst; reflexivity]).

Ltac brk H :=
  repeat match type of H with
         | context [match ?x with _ => _ end] => destruct x
         end.

Lemma parse_pattern_inv st p item st1 :
  parse_pattern st p = POk (item, st1) ->
  (st1 = st /\ scope_item item = 0%nat) \/
  (exists n e, st1 = nst_push_let st n e /\ item = ILetScopeOpenMissingClose).
Proof.
  unfold parse_pattern. intros H.
  brk H; try discriminate H;
    try (left; inversion H; subst; split; reflexivity);
    try (right; inversion H; subst; eexists; eexists; split; reflexivity);
    try (left; apply ret_inv in H; destruct H as [-> H]; split; [reflexivity|]; revert H; generalize item; fold (okp); okp_leaf).
Qed.

Lemma early_parse_scope v st x i : early_parse v st x = POk i -> scope_item i = 0%nat.
Proof.
  unfold early_parse, early_other. intros H.
  brk H; try discriminate H; inversion H; subst; reflexivity.
Qed.

(** ** the let-scope stack: every undo entry has its key bound *)

Fixpoint undo_ok (f : string -> option expr) (u : list let_undo) : Prop :=
  match u with
  | [] => True
  | UndoRemove k :: r => f k <> None /\ undo_ok (fun x => if String.eqb x k then None else f x) r
  | UndoReplace k v :: r => f k <> None /\ undo_ok (fun x => if String.eqb x k then Some v else f x) r
  end.

Lemma undo_ok_ext u : forall f g, (forall x, f x = g x) -> undo_ok f u -> undo_ok g u.
Proof.
  induction u as [|[k|k v] r IH]; intros f g E H; cbn [undo_ok] in *; auto; destruct H as [H1 H2];
    (split; [now rewrite <- E|]); (eapply IH; [|exact H2]); intros x; cbn beta; now rewrite E.
Qed.

Lemma assoc_remove {A} k x (m : list (string * A)) :
  assoc_str x (map_remove k m) = if String.eqb x k then None else assoc_str x m.
Proof.
  induction m as [|[k' v] m IH]; cbn [map_remove assoc_str].
  - now destruct (String.eqb x k).
  - destruct (String.eqb_spec k k') as [<- | Hn].
    + rewrite IH. destruct (String.eqb_spec x k); reflexivity.
    + cbn [assoc_str]. rewrite IH. destruct (String.eqb_spec x k') as [-> | ]; [| reflexivity].
      destruct (String.eqb_spec k' k); [congruence | reflexivity].
Qed.

Lemma assoc_insert {A} k (v : A) x m :
  assoc_str x (map_insert k v m) = if String.eqb x k then Some v else assoc_str x m.
Proof.
  unfold map_insert. cbn [assoc_str]. destruct (String.eqb_spec x k) as [-> | Hn]; [reflexivity|].
  rewrite assoc_remove. destruct (String.eqb_spec x k); [congruence | reflexivity].
Qed.

Definition st_ok (st : nst) : Prop := undo_ok (fun x => assoc_str x (nst_lets st)) (nst_undo st).

Lemma push_ok st n e : st_ok st -> st_ok (nst_push_let st n e).
Proof.
  unfold st_ok, nst_push_let. cbn [nst_lets nst_undo]. intros H.
  destruct (assoc_str n (nst_lets st)) as [old|] eqn:Eo; cbn [undo_ok]; (split; [rewrite assoc_insert, String.eqb_refl; discriminate|]);
    (eapply undo_ok_ext; [|exact H]); intros x; cbn beta; rewrite assoc_insert; destruct (String.eqb_spec x n) as [-> | _]; auto.
Qed.

Lemma pop_ok st : st_ok st -> nst_undo st <> [] ->
  exists st', nst_pop_let st = POk st' /\ st_ok st' /\ S (length (nst_undo st')) = length (nst_undo st).
Proof.
  unfold st_ok, nst_pop_let. destruct st as [top lets undo]. cbn [nst_lets nst_undo nst_top]. intros H Hne.
  destruct undo as [|u rest]; [congruence|].
  assert (Hl : lets <> []).
  { destruct u; cbn [undo_ok] in H; destruct H as [H _]; intros ->; now apply H. }
  destruct lets as [|l0 lets']; [congruence|].
  destruct u as [k | k v]; cbn [undo_ok] in H; destruct H as [_ H]; eexists; (split; [reflexivity|]); cbn [nst_lets nst_undo length];
    (split; [|reflexivity]); (eapply undo_ok_ext; [|exact H]); intros x; cbn beta; [now rewrite assoc_remove | now rewrite assoc_insert].
Qed.

(** ** the invariant of the machine *)

Fixpoint scopes (stk : list pitem) : nat :=
  match stk with [] => 0 | i :: r => scope_item i + scopes r end.

Definition inv (stk : list pitem) (st : nst) : Prop :=
  (scopes stk <= length (nst_undo st))%nat /\ st_ok st.

Lemma split_scopes : forall stk acc pattern ls below,
  split_at_open stk acc = Some (pattern, ls, below) ->
  ((if ls then 1 else 0) + scopes below <= scopes stk)%nat.
Proof.
  induction stk as [|i stk IH]; intros acc pattern ls below H; cbn [split_at_open] in H; [discriminate|].
  destruct i; try (apply IH in H; cbn [scopes scope_item]; lia).
  inversion H; subst. cbn [scopes scope_item]. destruct ls; lia.
Qed.

Lemma step_fix2_inv tok stk st o :
  inv stk st -> tok <> TkLexPanic ->
  match step Fix2 tok stk st o with
  | POk (stk', st', o') => inv stk' st'
  | PErr => True
  | PPanic => False
  end.
Proof.
  intros [Hs Hok] Ht. destruct tok as [ | | value | value | value | | | ]; cbn [step]; try exact I; try (split; assumption).
  - (* ( *)
    destruct o; [exact I|]. destruct stk as [|[] stk']; try (split; [cbn [scopes scope_item] in *; lia | assumption]).
    match goal with |- context [if ?b then _ else _] => destruct b end; [|exact I].
    split; [cbn [scopes scope_item] in *; lia | assumption].
  - (* ) *)
    assert (G : match
                  match split_at_open stk [] with
                  | Some (pattern, let_scope, below) =>
                      pbind (checked_pattern Fix2 st pattern) (fun r => let (item, st1) := r in
                        pbind (if let_scope then nst_pop_let st1 else POk st1) (fun st2 => POk (item :: below, st2, o)))
                  | None => POk (stk, st, true)
                  end
                with POk (stk', st', _) => inv stk' st' | PErr => True | PPanic => False end).
    { destruct (split_at_open stk []) as [[[pattern ls] below]|] eqn:Esp; [|split; assumption].
      apply split_scopes in Esp. unfold checked_pattern, no_panic.
      destruct (parse_pattern st pattern) as [[item st1] | |] eqn:Ep; cbn [pbind]; try exact I.
      assert (Hst1 : st_ok st1 /\ (scope_item item + length (nst_undo st) = length (nst_undo st1))%nat).
      { destruct (parse_pattern_inv _ _ _ _ Ep) as [[-> Hi] | (n & e & -> & ->)].
        - split; [assumption | lia].
        - split; [now apply push_ok | reflexivity]. }
      destruct Hst1 as [Hok1 Hlen].
      destruct ls; cbn [pbind].
      - destruct (pop_ok st1 Hok1) as (st2 & -> & Hok2 & Hl2).
        { intros E. rewrite E in Hlen. cbn [length] in Hlen. lia. }
        cbn [pbind]. split; [cbn [scopes]; lia | assumption].
      - split; [cbn [scopes]; lia | assumption]. }
    destruct stk as [|[] stk']; try exact G.
    split; [cbn [scopes scope_item] in *; lia | assumption].
  - (* a plain token *)
    destruct o; [exact I|].
    destruct (early_parse Fix2 match stk with ILet 2 :: _ => None | _ => Some st end value) as [it | |] eqn:E; cbn [pbind]; try exact I.
    + apply early_parse_scope in E. split; [cbn [scopes]; lia | assumption].
    + now apply early_parse_no_panic in E.
  - (* a quoted symbol *)
    destruct o; [exact I|]. unfold lookup_sym. destruct (nst_get st value); cbn [pbind]; [|exact I].
    split; [cbn [scopes scope_item]; lia | assumption].
  - now elim Ht.
Qed.

(** the machine of [Fix2] never panics; the table it returns is again well formed *)
Theorem run_fix2 : forall toks stk st o,
  inv stk st -> ~ In TkLexPanic toks ->
  match run Fix2 toks stk st o with
  | POk (_, st', _) => st_ok st'
  | PErr => True
  | PPanic => False
  end.
Proof.
  induction toks as [|tok toks IH]; intros stk st o Hi Hl; cbn [run]; [exact I|].
  pose proof (step_fix2_inv tok stk st o Hi) as Hs.
  destruct (step Fix2 tok stk st o) as [[[stk1 st1] o1] | |]; [| exact I | apply Hs; intros ->; apply Hl; now left].
  assert (Hi1 : inv stk1 st1) by (apply Hs; intros ->; apply Hl; now left).
  destruct (machine_done stk1); [exact (proj2 Hi1)|].
  apply IH; [exact Hi1 | intros Hin; apply Hl; now right].
Qed.

(** ** every entry point of the reader *)

Definition clean (toks : list ltok) : Prop := ~ In TkLexPanic toks.

(** "no panic, and the result satisfies [P]" *)
Definition np {A} (P : A -> Prop) (x : pres A) : Prop :=
  match x with POk a => P a | PErr => True | PPanic => False end.

Lemma np_bind {A B} (P : A -> Prop) (Q : B -> Prop) (x : pres A) (f : A -> pres B) :
  np P x -> (forall a, P a -> np Q (f a)) -> np Q (pbind x f).
Proof. destruct x; cbn [np pbind]; auto. Qed.

Lemma np_weaken {A} (P Q : A -> Prop) x : np P x -> (forall a, P a -> Q a) -> np Q x.
Proof. destruct x; cbn [np]; auto. Qed.

Lemma clean_tail t toks : clean (t :: toks) -> clean toks.
Proof. intros H Hin. apply H. now right. Qed.

Lemma clean_app_r pre rest : clean (pre ++ rest) -> clean rest.
Proof. intros H Hin. apply H. apply in_or_app. now right. Qed.

Lemma np_next toks : clean toks -> np (fun n => clean (snd n)) (next_no_comment toks).
Proof.
  induction toks as [|t toks IH]; intros Hc; cbn [next_no_comment]; [intros []|].
  destruct t; cbn [np snd]; try (now apply clean_tail in Hc).
  - apply IH. now apply clean_tail in Hc.
  - apply Hc. now left.
Qed.

Lemma np_skip_open toks : clean toks -> np clean (skip_open toks).
Proof.
  intros Hc. unfold skip_open. eapply np_bind; [apply (np_next _ Hc)|].
  intros [[t|] r] Hr; cbn [np snd] in *; try exact I. destruct t; cbn [np]; auto.
Qed.

Lemma np_skip_close toks : clean toks -> np clean (skip_close toks).
Proof.
  intros Hc. unfold skip_close. eapply np_bind; [apply (np_next _ Hc)|].
  intros [[t|] r] Hr; cbn [np snd] in *; try exact I. destruct t; cbn [np]; auto.
Qed.

Lemma np_value_token toks : clean toks -> np (fun vr => clean (snd vr)) (value_token toks).
Proof.
  intros Hc. unfold value_token. eapply np_bind; [apply (np_next _ Hc)|].
  intros [[t|] r] Hr; cbn [np snd] in *; try exact I. destruct t; cbn [np snd]; auto.
Qed.

Lemma np_any_string_token toks : clean toks -> np (fun vr => clean (snd vr)) (any_string_token toks).
Proof.
  intros Hc. unfold any_string_token. eapply np_bind; [apply (np_next _ Hc)|].
  intros [[t|] r] Hr; cbn [np snd] in *; try exact I. destruct t; cbn [np snd]; auto.
Qed.

Lemma np_skip_expr : forall toks k, clean toks -> np clean (skip_expr Fix2 toks k).
Proof.
  induction toks as [|t toks IH]; intros k Hc; cbn [skip_expr]; [exact I|].
  pose proof (clean_tail _ _ Hc) as Hc'.
  destruct t; cbn [np]; auto;
    repeat match goal with |- context [if ?b then _ else _] => destruct b end; cbn [np]; auto.
  apply Hc. now left.
Qed.

(** the token machine from an empty stack *)
Lemma np_eot toks st : clean toks -> st_ok st ->
  np (fun r => st_ok (snd (fst r)) /\ clean (snd r)) (parse_eot Fix2 toks st).
Proof.
  intros Hc Hok. unfold parse_eot.
  pose proof (run_fix2 toks [] st false (conj (Nat.le_0_l _) Hok) Hc) as H.
  destruct (run Fix2 toks [] st false) as [[[r st'] rest] | |] eqn:Er; cbn [np fst snd]; auto.
  split; [exact H|]. destruct (run_rest_suffix _ _ _ _ _ _ _ _ Er) as [pre ->]. now apply clean_app_r in Hc.
Qed.

Lemma np_expr_internal toks st : clean toks -> st_ok st ->
  np (fun r => st_ok (snd (fst r)) /\ clean (snd r)) (parse_expr_internal Fix2 toks st).
Proof.
  intros Hc Hok. unfold parse_expr_internal. eapply np_bind; [apply (np_eot _ _ Hc Hok)|].
  intros [[[e|t] st'] rest] H; cbn [np fst snd] in *; auto.
Qed.

Lemma np_type toks st : clean toks -> st_ok st ->
  np (fun r => ty_posb (fst (fst r)) = true /\ st_ok (snd (fst r)) /\ clean (snd r)) (parse_type Fix2 toks st).
Proof.
  intros Hc Hok. unfold parse_type. eapply np_bind; [apply (np_eot _ _ Hc Hok)|].
  intros [[[e|t] st'] rest] H; cbn [np fst snd] in *; auto.
  destruct (ty_posb t) eqn:Et; cbn [np fst snd]; auto.
Qed.

Lemma st_ok_new top : st_ok (nst_new top).
Proof. exact I. Qed.

(** [parse_expr] *)
Theorem parse_expr_toks_fix2 top toks : clean toks -> parse_expr_toks Fix2 top toks <> PPanic.
Proof.
  intros Hc H. unfold parse_expr_toks in H.
  assert (G : np (fun _ : expr => True) (parse_expr_toks Fix2 top toks)).
  { unfold parse_expr_toks. eapply np_bind; [apply (np_expr_internal _ _ Hc (st_ok_new top))|].
    intros [[e st'] rest] [_ Hr]; cbn [fst snd] in *. eapply np_bind; [apply (np_next _ Hr)|].
    intros [o r] _. cbn [fst]. destruct o; exact I. }
  unfold parse_expr_toks in G. rewrite H in G. exact G.
Qed.

Theorem parse_expr_fix2_never_panics top s : parse_expr_str Fix2 top s <> PPanic.
Proof. apply parse_expr_toks_fix2. apply lex_fix2_no_panic. Qed.

(** [parse_get_value_response] *)
Theorem parse_get_value_response_fix2_never_panics s : parse_get_value_response_str Fix2 s <> PPanic.
Proof.
  unfold parse_get_value_response_str. pose proof (lex_fix2_no_panic s) as Hc. fold (clean (lex_impl Fix2 s)) in Hc.
  generalize dependent (lex_impl Fix2 s). intros toks Hc H.
  assert (G : np (fun _ : expr => True) (parse_get_value_response_toks Fix2 toks)).
  { unfold parse_get_value_response_toks.
    eapply np_bind; [apply (np_skip_open _ Hc)|]. intros t1 H1.
    eapply np_bind; [apply (np_skip_open _ H1)|]. intros t2 H2.
    eapply np_bind; [apply (np_skip_expr _ _ H2)|]. intros t3 H3.
    eapply np_bind; [apply (np_expr_internal _ _ H3 (st_ok_new []))|]. intros [[e st'] t4] [_ H4]; cbn [snd] in H4.
    eapply np_bind; [apply (np_skip_close _ H4)|]. intros t5 H5.
    eapply np_bind; [apply (np_skip_close _ H5)|]. intros; exact I. }
  rewrite H in G. exact G.
Qed.

(** expression lists *)
Lemma np_expr_list_go : forall fuel toks st acc, clean toks -> st_ok st ->
  np (fun _ => True) (parse_expr_list_go Fix2 fuel toks st acc).
Proof.
  induction fuel as [|fuel IH]; intros toks st acc Hc Hok; cbn [parse_expr_list_go]; [exact I|].
  eapply np_bind; [apply (np_next _ Hc)|]. intros [[t|] r] Hr; cbn [snd] in Hr; [|exact I].
  assert (G : np (fun _ : list expr => True)
                 (pbind (parse_expr_internal Fix2 toks st) (fun r0 => let '(e, st', rest) := r0 in parse_expr_list_go Fix2 fuel rest st' (e :: acc)))).
  { eapply np_bind; [apply (np_expr_internal _ _ Hc Hok)|]. intros [[e st'] rest] [H1 H2]; cbn [fst snd] in *. now apply IH. }
  destruct t; try exact G. exact I.
Qed.

Lemma np_expr_list_rest : forall fuel toks st acc, clean toks -> st_ok st ->
  np (fun er => clean (snd er)) (parse_expr_list_rest Fix2 fuel toks st acc).
Proof.
  induction fuel as [|fuel IH]; intros toks st acc Hc Hok; cbn [parse_expr_list_rest]; [exact I|].
  eapply np_bind; [apply (np_next _ Hc)|]. intros [[t|] r] Hr; cbn [snd] in Hr; [|exact I].
  assert (G : np (fun er : list expr * list ltok => clean (snd er))
                 (pbind (parse_expr_internal Fix2 toks st) (fun r0 => let '(e, st', rest) := r0 in parse_expr_list_rest Fix2 fuel rest st' (e :: acc)))).
  { eapply np_bind; [apply (np_expr_internal _ _ Hc Hok)|]. intros [[e st'] rest] [H1 H2]; cbn [fst snd] in *. now apply IH. }
  destruct t; try exact G. exact Hr.
Qed.

Theorem parse_unsat_assumptions_fix2_never_panics top s : parse_unsat_assumptions_str Fix2 top s <> PPanic.
Proof.
  unfold parse_unsat_assumptions_str, parse_unsat_assumptions_toks. pose proof (lex_fix2_no_panic s) as Hc.
  generalize dependent (lex_impl Fix2 s). intros toks Hc H.
  assert (G : np (fun _ : list expr => True) (pbind (skip_open toks) (fun t1 => parse_expr_list_go Fix2 (S (length t1)) t1 (nst_new top) []))).
  { eapply np_bind; [apply (np_skip_open _ Hc)|]. intros t1 H1. apply np_expr_list_go; [exact H1 | exact I]. }
  rewrite H in G. exact G.
Qed.

(** commands *)
Lemma mk_symbol_pos n t : ty_posb t = true -> mk_symbol n t <> PPanic.
Proof. destruct t as [w | i d]; cbn [ty_posb mk_symbol]; [|discriminate]. intros H. apply negb_true_iff in H. now rewrite H. Qed.

Ltac nxt := match goal with |- np _ (if ?b then _ else _) => destruct b end.

Lemma np_command_body top name toks : clean toks ->
  np (fun cr => clean (snd cr)) (parse_command_body Fix2 top name toks).
Proof.
  intros Hc. unfold parse_command_body.
  assert (Hsym : forall n t (f : expr -> pres (smt_cmd * list ltok)), ty_posb t = true ->
             (forall s, np (fun cr => clean (snd cr)) (f s)) -> np (fun cr => clean (snd cr)) (pbind (mk_symbol n t) f)).
  { intros n t f Ht Hf. pose proof (mk_symbol_pos n t Ht) as Hm. destruct (mk_symbol n t); cbn [pbind np]; [apply Hf | exact I | congruence]. }
  (* exit, check-sat *)
  nxt. { exact Hc. }
  nxt. { exact Hc. }
  nxt.
  { (* set-logic *)
    unfold parse_logic. eapply np_bind with (P := fun lr => clean (snd lr)); [|intros [l r] Hr; exact Hr].
    eapply np_bind; [apply (np_value_token _ Hc)|]. intros [x r] Hr. cbn [snd] in Hr.
    repeat nxt; cbn [np snd]; auto. }
  nxt.
  { (* set-option / set-info *)
    eapply np_bind; [apply (np_value_token _ Hc)|]. intros [k r] Hr; cbn [snd fst] in *.
    eapply np_bind; [apply (np_any_string_token _ Hr)|]. intros [x r2] Hr2; cbn [snd fst] in *.
    destruct k as [|c key]; [exact I|]. repeat nxt; cbn [np snd]; auto. }
  nxt.
  { (* assert *)
    eapply np_bind; [apply (np_expr_internal _ _ Hc (st_ok_new top))|]. intros [[e st'] rest] [_ H]; exact H. }
  nxt.
  { (* declare-const *)
    eapply np_bind; [apply (np_value_token _ Hc)|]. intros [n r] Hr; cbn [snd fst] in *.
    eapply np_bind; [apply (np_type _ _ Hr (st_ok_new top))|]. intros [[t st'] rest] (Ht & _ & H); cbn [fst snd] in *.
    apply Hsym; [exact Ht | intros; exact H]. }
  nxt.
  { (* declare-fun *)
    eapply np_bind; [apply (np_value_token _ Hc)|]. intros [n r] Hr; cbn [snd fst] in *.
    eapply np_bind; [apply (np_skip_open _ Hr)|]. intros t1 H1.
    eapply np_bind; [apply (np_skip_close _ H1)|]. intros t2 H2.
    eapply np_bind; [apply (np_type _ _ H2 (st_ok_new top))|]. intros [[t st'] rest] (Ht & _ & H); cbn [fst snd] in *.
    apply Hsym; [exact Ht | intros; exact H]. }
  nxt.
  { (* define-const *)
    eapply np_bind; [apply (np_value_token _ Hc)|]. intros [n r] Hr; cbn [snd fst] in *.
    eapply np_bind; [apply (np_type _ _ Hr (st_ok_new top))|]. intros [[t st1] t1] (Ht & Hok1 & H1); cbn [fst snd] in *.
    eapply np_bind; [apply (np_expr_internal _ _ H1 Hok1)|]. intros [[e st2] rest] [_ H]; cbn [fst snd] in *.
    destruct (ty_eqb (type_of e) t); [|exact I]. apply Hsym; [exact Ht | intros; exact H]. }
  nxt.
  { (* define-fun *)
    eapply np_bind; [apply (np_value_token _ Hc)|]. intros [n r] Hr; cbn [snd fst] in *.
    eapply np_bind; [apply (np_skip_open _ Hr)|]. intros t1 H1.
    eapply np_bind; [apply (np_skip_close _ H1)|]. intros t2 H2.
    eapply np_bind; [apply (np_type _ _ H2 (st_ok_new top))|]. intros [[t st1] t3] (Ht & Hok1 & H3); cbn [fst snd] in *.
    eapply np_bind; [apply (np_expr_internal _ _ H3 Hok1)|]. intros [[e st2] rest] [_ H]; cbn [fst snd] in *.
    destruct (ty_eqb (type_of e) t); [|exact I]. apply Hsym; [exact Ht | intros; exact H]. }
  nxt.
  { (* check-sat-assuming *)
    eapply np_bind; [apply (np_skip_open _ Hc)|]. intros t1 H1.
    eapply np_bind; [apply (np_expr_list_rest _ _ _ _ H1 (st_ok_new top))|]. intros [es r] H; exact H. }
  nxt. { (* get-unsat-assumptions *) exact Hc. }
  nxt.
  { (* push / pop *)
    eapply np_bind; [apply (np_value_token _ Hc)|]. intros [n r] Hr; cbn [snd fst] in *.
    destruct (parse_uint 64 n); [|exact I]. repeat nxt; cbn [np snd]; auto. }
  nxt; [|exact I].
  (* get-value *)
  eapply np_bind; [apply (np_expr_internal _ _ Hc (st_ok_new top))|]. intros [[e st'] rest] [_ H]; exact H.
Qed.

Theorem parse_command_toks_fix2 top toks : clean toks -> parse_command_toks Fix2 top toks <> PPanic.
Proof.
  intros Hc H.
  assert (G : np (fun _ : smt_cmd => True) (parse_command_toks Fix2 top toks)).
  { unfold parse_command_toks. eapply np_bind; [apply (np_skip_open _ Hc)|]. intros t1 H1.
    eapply np_bind; [apply (np_next _ H1)|]. intros [[t|] t2] H2; cbn [snd] in H2; [|exact I].
    destruct t; try exact I.
    eapply np_bind; [apply (np_command_body top s t2 H2)|]. intros [c r] Hr; cbn [snd fst] in *.
    eapply np_bind; [apply (np_skip_close _ Hr)|]. intros; exact I. }
  rewrite H in G. exact G.
Qed.

Theorem parse_command_fix2_never_panics top s : parse_command_str Fix2 top s <> PPanic.
Proof. apply parse_command_toks_fix2. apply lex_fix2_no_panic. Qed.

(** [read_command]: an end of file, a command, or an error *)
Theorem read_command_fix2_total top lines :
  read_command Fix2 top lines <> RcPanic /\ read_command Fix2 top lines <> RcHang.
Proof.
  unfold read_command. destruct (rc_skip lines) as [[l rest]|]; [|split; discriminate].
  destruct (rc_balance Fix2 l rest) as [[cmd rest']|]; [|split; discriminate].
  pose proof (parse_command_fix2_never_panics top cmd) as H.
  destruct (parse_command_str Fix2 top cmd); [split; discriminate | split; discriminate | congruence].
Qed.

(** the inputs on which [Fix] still panicked *)
Lemma fix2_witness :
  parse_expr_str Fix [] "(bvadd (concat #b01 #b1) #b01)" = PPanic /\
  parse_expr_str Fix2 [] "(bvadd (concat #b01 #b1) #b01)" = PErr /\
  parse_command_str Fix [] "(define-fun x () (_ BitVec 2) #b1)" = PPanic /\
  parse_command_str Fix2 [] "(define-fun x () (_ BitVec 2) #b1)" = PErr /\
  parse_command_str Fix [] "(declare-const x (_ BitVec 0))" = PPanic /\
  parse_command_str Fix2 [] "(declare-const x (_ BitVec 0))" = PErr.
Proof. repeat split; vm_compute; reflexivity. Qed.
