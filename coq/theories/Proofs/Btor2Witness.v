(** * Proofs/Btor2Witness.v — concrete inputs on which the faithful model of the btor2 reader
    panics or accepts an ill-formed system (all reproduced against the real [parse_str] by the
    C18 harness; see known_findings.txt).  Everything here is closed computation. *)
From Coq Require Import List String Ascii NArith Bool.
From Patronus Require Import Btor2Parse.
Import ListNotations.
Open Scope string_scope.
Open Scope N_scope.

Definition LF : string := String (ascii_of_nat 10) EmptyString.
Definition text_of (ls : list string) : string := String.concat LF ls.

Definition supported_text (text : string) : bool :=
  forallb supported_line (map tokenize (split_lines text)).

Definition is_panic {A} (r : pres A) : bool := match r with PPanic _ => true | _ => false end.

(** (debug assertions?, text, expected panic kind) *)
Definition crash_witnesses : list (bool * string * pkind) :=
  [ (* `and` of two arrays: unwrap of a None width, both profiles (context.rs:305 / 306) *)
    (true,  text_of ["1 sort bitvec 8"; "2 sort array 1 1"; "3 input 2 a"; "4 input 2 b"; "5 and 2 3 4"], PWrongKind);
    (false, text_of ["1 sort bitvec 8"; "2 sort array 1 1"; "3 input 2 a"; "4 input 2 b"; "5 and 2 3 4"], PWrongKind);
    (* negated id of an array (context.rs:297 / 298) *)
    (true,  text_of ["1 sort bitvec 8"; "2 sort array 1 1"; "3 input 2 a"; "4 output -3"], PWrongKind);
    (false, text_of ["1 sort bitvec 8"; "2 sort array 1 1"; "3 input 2 a"; "4 output -3"], PWrongKind);
    (* slice with msb < lsb: assert! (context.rs:388) *)
    (true,  text_of ["1 sort bitvec 8"; "2 input 1"; "3 slice 1 2 0 1"], PSliceOrder);
    (false, text_of ["1 sort bitvec 8"; "2 input 1"; "3 slice 1 2 0 1"], PSliceOrder);
    (* const line without a value: tokens[3] out of bounds (parse.rs:612) *)
    (true,  text_of ["1 sort bitvec 8"; "2 const 1"], PConstNoValue);
    (false, text_of ["1 sort bitvec 8"; "2 const 1"], PConstNoValue);
    (* width-mismatched binary operator: debug assertion only (context.rs:347) *)
    (true,  text_of ["1 sort bitvec 8"; "2 sort bitvec 9"; "3 input 1"; "4 input 2"; "5 add 1 3 4"], PWidthMismatch);
    (* zero-width sort used for a symbol / a constant (context.rs:188, baa owned.rs:75) *)
    (true,  text_of ["1 sort bitvec 0"; "2 input 1"], PZeroWidth);
    (false, text_of ["1 sort bitvec 0"; "2 zero 1"], PZeroWidth);
    (* array sort over an array sort (parse.rs:719) *)
    (false, text_of ["1 sort bitvec 4"; "2 sort array 1 1"; "3 sort array 2 1"], PWrongKind);
    (* read of a bit-vector (context.rs:432) *)
    (false, text_of ["1 sort bitvec 4"; "2 input 1"; "3 read 1 2 2"], PWrongKind);
    (* extension amount that overflows u32: builds with overflow checks (context.rs:396) *)
    (true,  text_of ["1 sort bitvec 8"; "2 input 1"; "3 uext 1 2 4294967295"], POverflow);
    (* 49 hex digits for a 129-bit constant: index out of bounds inside baa (strings.rs:360) *)
    (false, text_of ["1 sort bitvec 129"; "2 consth 1 1000000000000000000000000000000000000000000000000"], PLitWide) ].

Lemma crash_witnesses_panic :
  Forall (fun w => let '(dbg, text, k) := w in
                   supported_text text = true /\ parse_text dbg text = PPanic k) crash_witnesses.
Proof. repeat constructor; vm_compute; reflexivity. Qed.

(** the release-build behaviour on the debug-only witness: rejected cleanly *)
Lemma width_mismatch_release_err :
  parse_text false (text_of ["1 sort bitvec 8"; "2 sort bitvec 9"; "3 input 1"; "4 input 2"; "5 add 1 3 4"]) = PErr.
Proof. vm_compute. reflexivity. Qed.

(** accepted but not well formed *)
Definition accept_witnesses : list (bool * string) :=
  [ (* bad / constraint of an 8-bit node *)
    (true,  text_of ["1 sort bitvec 8"; "2 input 1"; "3 bad 2"]);
    (false, text_of ["1 sort bitvec 8"; "2 input 1"; "3 constraint 2"]);
    (* array symbol with zero index and data width *)
    (true,  text_of ["1 sort bitvec 0"; "2 sort array 1 1"; "3 input 2 m"]);
    (* release: uext whose width wrapped around; the stored width 7 is not 8 + 4294967295 *)
    (false, text_of ["1 sort bitvec 8"; "2 sort bitvec 7"; "3 input 1"; "4 uext 2 3 4294967295"; "5 output 4"]);
    (* release: concat of two 2^31-bit symbols has stored width 0 *)
    (false, text_of ["1 sort bitvec 2147483648"; "2 sort bitvec 0"; "3 input 1"; "4 input 1"; "5 concat 2 3 4"; "6 output 5"]) ].

Definition accepted_not_ok (w : bool * string) : bool :=
  match parse_text (fst w) (snd w) with
  | POk sy => negb (sys_ok sy)
  | _ => false
  end.

Lemma accept_witnesses_not_ok : forallb accepted_not_ok accept_witnesses = true.
Proof. vm_compute. reflexivity. Qed.
