(** * Proofs/SmtRoundTrip.v — C14: the reader inverts the writer (token level), truncated
    writer output, trailing tokens. *)
From Coq Require Import Lia.
From Patronus Require Import SmtParse BVLemmas ExprLemmas EvalProofs SmtCharLemmas SmtSerLemmas SmtSemLemmas SmtSerProofs SmtParseLemmas SmtParseProofs.
Open Scope string_scope.
Open Scope list_scope.
Open Scope N_scope.

Section CV.
Variable cv : variant.
Local Notation is_simple_id := (SmtSer.is_simple_id cv) (only parsing).
Local Notation escape_id := (SmtSer.escape_id cv) (only parsing).
Local Notation ser := (SmtSer.ser cv) (only parsing).
Local Notation ser_cmd := (SmtSer.ser_cmd cv) (only parsing).
Local Notation name_ok := (SmtSer.name_ok cv) (only parsing).
Local Notation declared := (SmtSer.declared cv) (only parsing).
Local Notation symbols_declared := (SmtSer.symbols_declared cv) (only parsing).
Local Notation lx_go := (SmtLex.lx_go cv) (only parsing).
Local Notation lex_impl := (SmtLex.lex_impl cv) (only parsing).
Local Notation early_other := (SmtParse.early_other cv) (only parsing).
Local Notation early_parse := (SmtParse.early_parse cv) (only parsing).
Local Notation step := (SmtParse.step cv) (only parsing).
Local Notation run := (SmtParse.run cv) (only parsing).
Local Notation parse_eot := (SmtParse.parse_eot cv) (only parsing).
Local Notation parse_expr_internal := (SmtParse.parse_expr_internal cv) (only parsing).
Local Notation parse_type := (SmtParse.parse_type cv) (only parsing).
Local Notation parse_expr_toks := (SmtParse.parse_expr_toks cv) (only parsing).
Local Notation parse_expr_str := (SmtParse.parse_expr_str cv) (only parsing).
Local Notation skip_expr := (SmtParse.skip_expr cv) (only parsing).
Local Notation parse_get_value_response_toks := (SmtParse.parse_get_value_response_toks cv) (only parsing).
Local Notation parse_get_value_response_str := (SmtParse.parse_get_value_response_str cv) (only parsing).
Local Notation parse_expr_list_go := (SmtParse.parse_expr_list_go cv) (only parsing).
Local Notation parse_expr_list_rest := (SmtParse.parse_expr_list_rest cv) (only parsing).
Local Notation parse_unsat_assumptions_toks := (SmtParse.parse_unsat_assumptions_toks cv) (only parsing).
Local Notation parse_unsat_assumptions_str := (SmtParse.parse_unsat_assumptions_str cv) (only parsing).
Local Notation parse_command_body := (SmtParse.parse_command_body cv) (only parsing).
Local Notation parse_command_toks := (SmtParse.parse_command_toks cv) (only parsing).
Local Notation parse_command_str := (SmtParse.parse_command_str cv) (only parsing).
Local Notation count_parens := (SmtParse.count_parens cv) (only parsing).
Local Notation rc_balance := (SmtParse.rc_balance cv) (only parsing).
Local Notation read_command := (SmtParse.read_command cv) (only parsing).
Local Notation is_simple_id_loop := (SmtSerLemmas.is_simple_id_loop cv) (only parsing).
Local Notation is_simple_id_chars := (SmtSerLemmas.is_simple_id_chars cv) (only parsing).
Local Notation is_simple_id_first := (SmtSerLemmas.is_simple_id_first cv) (only parsing).
Local Notation escape_sound_gen := (SmtSerLemmas.escape_sound_gen cv) (only parsing).
Local Notation escape_sound_lemma := (SmtSerLemmas.escape_sound_lemma cv) (only parsing).
Local Notation good := (SmtSerProofs.good cv) (only parsing).
Local Notation symbols_declared_app := (SmtSerProofs.symbols_declared_app cv) (only parsing).
Local Notation name_ok_facts := (SmtSerProofs.name_ok_facts cv) (only parsing).
Local Notation symbol_good := (SmtSerProofs.symbol_good cv) (only parsing).
Local Notation ser_core := (SmtSerProofs.ser_core cv) (only parsing).
Local Notation ser_eq := (SmtSerProofs.ser_eq cv) (only parsing).
Local Notation core_good := (SmtSerProofs.core_good cv) (only parsing).
Local Notation wrap_good_e := (SmtSerProofs.wrap_good_e cv) (only parsing).
Local Notation ser_good := (SmtSerProofs.ser_good cv) (only parsing).
Local Notation ser_sorted_sound_lemma := (SmtSerProofs.ser_sorted_sound_lemma cv) (only parsing).
Local Notation name_ok_intro := (SmtSerProofs.name_ok_intro cv) (only parsing).
Local Notation noop_slice_latent := (SmtSerProofs.noop_slice_latent cv) (only parsing).
Local Notation cont := (SmtParseProofs.cont cv) (only parsing).
Local Notation runs_to := (SmtParseProofs.runs_to cv) (only parsing).
Local Notation run_cons := (SmtParseProofs.run_cons cv) (only parsing).
Local Notation cont_nonempty := (SmtParseProofs.cont_nonempty cv) (only parsing).
Local Notation run_items := (SmtParseProofs.run_items cv) (only parsing).
Local Notation run_group := (SmtParseProofs.run_group cv) (only parsing).
Local Notation runs_value := (SmtParseProofs.runs_value cv) (only parsing).
Local Notation runs_escaped := (SmtParseProofs.runs_escaped cv) (only parsing).
Local Notation atom_item := (SmtParseProofs.atom_item cv) (only parsing).
Local Notation sxi := (SmtParseProofs.sxi cv) (only parsing).
Local Notation sxi_list := (SmtParseProofs.sxi_list cv) (only parsing).
Local Notation sxi_list_eq := (SmtParseProofs.sxi_list_eq cv) (only parsing).
Local Notation machine_sx := (SmtParseProofs.machine_sx cv) (only parsing).
Local Notation early_plain := (SmtParseProofs.early_plain cv) (only parsing).
Local Notation early_other_lookup := (SmtParseProofs.early_other_lookup cv) (only parsing).
Local Notation early_other_kw := (SmtParseProofs.early_other_kw cv) (only parsing).
Local Notation simple_plain := (SmtParseProofs.simple_plain cv) (only parsing).
Local Notation table_for := (SmtParseProofs.table_for cv) (only parsing).
Local Notation keys_ok := (SmtParseProofs.keys_ok cv) (only parsing).
Local Notation theory_not_ok := (SmtParseProofs.theory_not_ok cv) (only parsing).
Local Notation atom_head := (SmtParseProofs.atom_head cv) (only parsing).
Local Notation simple_not_kw := (SmtParseProofs.simple_not_kw cv) (only parsing).
Local Notation atom_symbol := (SmtParseProofs.atom_symbol cv) (only parsing).


(** ** what [parse_pattern] does on the groups the writer produces *)

Lemma bin_op2 st a b op k r : op a b = POk r -> bin_op st [IExpr a; IExpr b] op k = POk (IExpr r).
Proof. intros H. destruct k; cbn [bin_op items_exprs item_expr pbind reduce_op]; rewrite H; reflexivity. Qed.

Lemma pat_binop st h op k a b r :
  (String.eqb h "not" || String.eqb h "bvnot") = false -> String.eqb h "bvneg" = false ->
  assoc_str h binop_table = Some (op, k) -> op a b = POk r ->
  parse_pattern st [ISym h; IExpr a; IExpr b] = POk (IExpr r, st).
Proof. intros H1 H2 H3 H4. unfold parse_pattern. rewrite H1, H2, H3, (bin_op2 st a b op k r H4). reflexivity. Qed.

Lemma mk_same_ok f a b w : type_of a = TBV w -> type_of b = TBV w -> mk_same f a b = POk (f a b w).
Proof. intros Ha Hb. unfold mk_same, bvw. now rewrite Ha, Hb, N.eqb_refl. Qed.

Lemma ty_eqb_refl t : ty_eqb t t = true.
Proof. destruct t; cbn [ty_eqb]; now rewrite ?N.eqb_refl. Qed.

(** all indices that the writer prints as numerals fit the reader's 32-bit [WidthInt] *)
Fixpoint idx32 (e : expr) : bool :=
  match e with
  | BVSymbol _ _ | BVLiteral _ _ | ArraySymbol _ _ _ => true
  | BVZeroExt a by_ _ | BVSignExt a by_ _ => (by_ <? 2 ^ 32) && idx32 a
  | BVSlice a hi lo => (hi <? 2 ^ 32) && (lo <? 2 ^ 32) && idx32 a
  | ArrayConstant a iw dw => (iw <? 2 ^ 32) && (dw <? 2 ^ 32) && idx32 a
  | BVNot a _ | BVNegate a _ => idx32 a
  | BVEqual a b | BVImplies a b | BVGreater a b | BVGreaterSigned a b _
  | BVGreaterEqual a b | BVGreaterEqualSigned a b _ | BVConcat a b _
  | BVAnd a b _ | BVOr a b _ | BVXor a b _ | BVShiftLeft a b _
  | BVArithmeticShiftRight a b _ | BVShiftRight a b _ | BVAdd a b _ | BVMul a b _
  | BVSignedDiv a b _ | BVUnsignedDiv a b _ | BVSignedMod a b _ | BVSignedRem a b _
  | BVUnsignedRem a b _ | BVSub a b _ | BVArrayRead a b _ | ArrayEqual a b => idx32 a && idx32 b
  | BVIte a b c | ArrayStore a b c | ArrayIte a b c => idx32 a && idx32 b && idx32 c
  end.


Lemma pat_select st a i : parse_pattern st [ISym "select"; IExpr a; IExpr i] = pbind (mk_array_read a i) (fun r => POk (IExpr r, st)).
Proof. unfold parse_pattern. cbn. destruct (mk_array_read a i); reflexivity. Qed.
Lemma pat_ite st c t f : parse_pattern st [ISym "ite"; IExpr c; IExpr t; IExpr f] = pbind (mk_ite c t f) (fun r => POk (IExpr r, st)).
Proof. unfold parse_pattern. cbn. destruct (mk_ite c t f); reflexivity. Qed.
Lemma pat_store st a i d : parse_pattern st [ISym "store"; IExpr a; IExpr i; IExpr d] = POk (IExpr (ArrayStore a i d), st).
Proof. reflexivity. Qed.
Lemma pat_not st a : parse_pattern st [ISym "not"; IExpr a] = pbind (mk_not a) (fun r => POk (IExpr r, st)).
Proof. unfold parse_pattern. cbn. destruct (mk_not a); reflexivity. Qed.
Lemma pat_bvnot st a : parse_pattern st [ISym "bvnot"; IExpr a] = pbind (mk_not a) (fun r => POk (IExpr r, st)).
Proof. unfold parse_pattern. cbn. destruct (mk_not a); reflexivity. Qed.
Lemma pat_bvneg st a : parse_pattern st [ISym "bvneg"; IExpr a] = pbind (mk_negate a) (fun r => POk (IExpr r, st)).
Proof. unfold parse_pattern. cbn. destruct (mk_negate a); reflexivity. Qed.
Lemma pat_idx1 st f x :
  parse_pattern st [ISym "_"; ISym f; ISym x] =
  if String.eqb f "BitVec" then pbind (parse_width x) (fun w => POk (IType (TBV w), st))
  else if String.eqb f "zero_extend" then pbind (parse_width x) (fun w => POk (IZExt w, st))
  else if String.eqb f "sign_extend" then pbind (parse_width x) (fun w => POk (ISExt w, st))
  else PErr.
Proof.
  unfold parse_pattern. cbn [String.eqb Ascii.eqb Bool.eqb orb andb]. cbn [assoc_str binop_table String.eqb Ascii.eqb Bool.eqb].
  destruct (String.eqb f "BitVec"); [destruct (parse_width x); reflexivity|].
  destruct (String.eqb f "zero_extend"); [destruct (parse_width x); reflexivity|].
  destruct (String.eqb f "sign_extend"); [destruct (parse_width x); reflexivity|]. reflexivity.
Qed.
Lemma pat_extract st x y :
  parse_pattern st [ISym "_"; ISym "extract"; ISym x; ISym y] =
  pbind (parse_width x) (fun hi => pbind (parse_width y) (fun lo => POk (IExtract hi lo, st))).
Proof.
  unfold parse_pattern. cbn [String.eqb Ascii.eqb Bool.eqb orb andb]. cbn [assoc_str binop_table String.eqb Ascii.eqb Bool.eqb].
  destruct (parse_width x); try reflexivity. cbn [pbind]. destruct (parse_width y); reflexivity.
Qed.
Lemma pat_as_const st i d : parse_pattern st [ISym "as"; ISym "const"; IType (TArr i d)] = POk (IAsConst i d, st).
Proof. reflexivity. Qed.

Lemma pat_zext st by_ a : parse_pattern st [IZExt by_; IExpr a] = pbind (mk_zero_extend a by_) (fun r => POk (IExpr r, st)).
Proof. unfold parse_pattern. cbn. destruct (mk_zero_extend a by_); reflexivity. Qed.
Lemma pat_sext st by_ a : parse_pattern st [ISExt by_; IExpr a] = pbind (mk_sign_extend a by_) (fun r => POk (IExpr r, st)).
Proof. unfold parse_pattern. cbn. destruct (mk_sign_extend a by_); reflexivity. Qed.
Lemma pat_slice st hi lo a : parse_pattern st [IExtract hi lo; IExpr a] = pbind (mk_slice a hi lo) (fun r => POk (IExpr r, st)).
Proof. unfold parse_pattern. cbn. destruct (mk_slice a hi lo); reflexivity. Qed.
Lemma pat_aconst st iw dw a : type_of a = TBV dw ->
  parse_pattern st [IAsConst iw dw; IExpr a] = POk (IExpr (ArrayConstant a iw dw), st).
Proof. intros H. unfold parse_pattern, mk_array_const, bvw. rewrite H, N.eqb_refl. reflexivity. Qed.

Lemma mk_greater_ok a b w : type_of a = TBV w -> type_of b = TBV w -> mk_greater a b = POk (BVGreater a b).
Proof. intros Ha Hb. unfold mk_greater, bvw. now rewrite Ha, Hb, N.eqb_refl. Qed.
Lemma mk_greater_equal_ok a b w : type_of a = TBV w -> type_of b = TBV w -> mk_greater_equal a b = POk (BVGreaterEqual a b).
Proof. intros Ha Hb. unfold mk_greater_equal, bvw. now rewrite Ha, Hb, N.eqb_refl. Qed.
Lemma mk_equal_bv a b w : type_of a = TBV w -> type_of b = TBV w -> mk_equal a b = POk (BVEqual a b).
Proof. intros Ha Hb. unfold mk_equal, ty_same. now rewrite Ha, Hb, ty_eqb_refl. Qed.
Lemma mk_equal_arr a b i d : type_of a = TArr i d -> type_of b = TArr i d -> mk_equal a b = POk (ArrayEqual a b).
Proof. intros Ha Hb. unfold mk_equal, ty_same. now rewrite Ha, Hb, ty_eqb_refl. Qed.
Lemma mk_implies_ok a b : type_of a = TBV 1 -> type_of b = TBV 1 -> mk_implies a b = POk (BVImplies a b).
Proof. intros Ha Hb. unfold mk_implies, bvw. now rewrite Ha, Hb. Qed.
Lemma mk_concat_ok a b wa wb : type_of a = TBV wa -> type_of b = TBV wb -> mk_concat a b = POk (BVConcat a b (wa + wb)).
Proof. intros Ha Hb. unfold mk_concat, bvw. now rewrite Ha, Hb. Qed.

Section Ser.
  Variable st : nst.
  Hypothesis Hkeys : keys_ok st.

  Lemma head_item h : plain_value h = true -> head_kw h = true ->
    match h with String c _ => Ascii.eqb c c_bar = false | EmptyString => True end ->
    sxi st (SxAtom h) = POk (ISym h).
  Proof.
    intros Hp Hn Hb. cbn [SmtParseProofs.sxi]. rewrite (atom_head st h Hp Hn Hkeys Hb). reflexivity.
  Qed.

  Lemma numeral_item k : sxi st (SxAtom (dec_string k)) = POk (ISym (dec_string k)).
  Proof.
    cbn [SmtParseProofs.sxi].
    pose proof (dec_string_digits k) as Hd.
    assert (Hk : head_kw (dec_string k) = true).
    { unfold head_kw, kw_tok. unfold all_digits in Hd. rewrite Hd. cbn [orb]. now rewrite orb_true_r. }
    rewrite (atom_head st _ (digits_plain _ Hd) Hk Hkeys); [reflexivity|].
    destruct (all_digits_first _ Hd) as (c & r & E & Hc & _). rewrite E.
    clear -Hc. revert Hc. all_ascii c; vm_compute; intros H; first [reflexivity | discriminate H].
  Qed.

  (** sorts *)
  Lemma bitvec_item w : w < 2 ^ 32 -> sxi st (bitvec_sx w) = POk (IType (TBV w)).
  Proof.
    intros Hw. unfold bitvec_sx. rewrite sxi_list_eq. cbn [SmtParseProofs.sxi_list].
    rewrite (head_item "_" eq_refl eq_refl eq_refl), (head_item "BitVec" eq_refl eq_refl eq_refl), numeral_item.
    cbn [pbind]. unfold parse_pattern.
    change (String.eqb "_" "not" || String.eqb "_" "bvnot") with false.
    change (String.eqb "_" "bvneg") with false. change (assoc_str "_" binop_table) with (@None ((expr -> expr -> pres expr) * nary)).
    cbv iota. change (String.eqb "_" "select") with false. change (String.eqb "_" "ite") with false.
    change (String.eqb "_" "store") with false. change (String.eqb "_" "_") with true. cbv iota.
    change (String.eqb "BitVec" "BitVec") with true. cbv iota.
    rewrite (parse_width_dec w Hw). reflexivity.
  Qed.

  Lemma elem_item w : w < 2 ^ 32 ->
    sxi st (if w =? 1 then SxAtom "Bool" else bitvec_sx w) = POk (IType (TBV w)).
  Proof.
    intros Hw. destruct (N.eqb_spec w 1) as [-> | _]; [reflexivity | now apply bitvec_item].
  Qed.

  Lemma ser_type_arr_item iw dw : iw < 2 ^ 32 -> dw < 2 ^ 32 ->
    sxi st (ser_type (TArr iw dw)) = POk (IType (TArr iw dw)).
  Proof.
    intros Hi Hd. pose proof (elem_item iw Hi) as Ei. pose proof (elem_item dw Hd) as Ed.
    assert (G : forall x y, sxi st x = POk (IType (TBV iw)) -> sxi st y = POk (IType (TBV dw)) ->
                sxi st (SxList [SxAtom "Array"; x; y]) = POk (IType (TArr iw dw))).
    { intros x y Hx Hy. rewrite sxi_list_eq. cbn [SmtParseProofs.sxi_list].
      rewrite (head_item "Array" eq_refl eq_refl eq_refl), Hx, Hy. reflexivity. }
    cbn [ser_type]. destruct (iw =? 1), (dw =? 1); apply G; assumption.
  Qed.

  Definition syms_in (e : expr) : Prop :=
    forall n t, In (n, t) (symbols e) -> name_ok n = true /\ nst_get st n = Some (sym_of n t).

  Lemma lit_item a w v : early_parse (Some st) a = POk (IExpr (BVLiteral w v)) ->
    match a with String c _ => Ascii.eqb c c_bar = false | EmptyString => False end ->
    sxi st (SxAtom a) = POk (IExpr (BVLiteral w v)).
  Proof.
    intros H Hb. cbn [SmtParseProofs.sxi]. unfold SmtParseProofs.atom_item, ltok_of_atom. destruct a as [|c r]; [contradiction|].
    rewrite Hb, H. reflexivity.
  Qed.

  Lemma sxi_wrap e core c' mb :
    sxi st core = POk (IExpr c') -> type_of c' = type_of e ->
    sxi st (wrap (is_1bit e) (produces_bv e) mb core) = POk (IExpr (rt_wrap (is_1bit e) (produces_bv e) mb c')).
  Proof.
    intros Hc Ht. unfold wrap, rt_wrap, is_1bit. destruct (type_of e) as [w | i d] eqn:Et; [|exact Hc].
    destruct (N.eqb_spec w 1) as [-> | _]; [|exact Hc].
    destruct mb, (produces_bv e); cbn [andb negb]; try exact Hc.
    - rewrite sxi_list_eq. cbn [SmtParseProofs.sxi_list]. rewrite (head_item "ite" eq_refl eq_refl eq_refl), Hc.
      rewrite (lit_item "#b1" 1 1 eq_refl eq_refl), (lit_item "#b0" 1 0 eq_refl eq_refl). cbn [pbind].
      unfold parse_pattern.
      change (String.eqb "ite" "not" || String.eqb "ite" "bvnot") with false.
      change (String.eqb "ite" "bvneg") with false.
      change (assoc_str "ite" binop_table) with (@None ((expr -> expr -> pres expr) * nary)). cbv iota.
      change (String.eqb "ite" "select") with false. change (String.eqb "ite" "ite") with true. cbv iota.
      unfold mk_ite, bvw. rewrite Ht. reflexivity.
    - rewrite sxi_list_eq. cbn [SmtParseProofs.sxi_list]. rewrite (head_item "=" eq_refl eq_refl eq_refl), Hc.
      rewrite (lit_item "#b1" 1 1 eq_refl eq_refl). cbn [pbind].
      rewrite (pat_binop st "=" mk_equal NBinary c' (BVLiteral 1 1) (BVEqual c' (BVLiteral 1 1)) eq_refl eq_refl eq_refl); [reflexivity|].
      unfold mk_equal. rewrite Ht. reflexivity.
  Qed.

  Lemma rt_core_as_rt e : rt_core e = rt e (produces_bv e).
  Proof.
    rewrite rt_eq. unfold rt_wrap. destruct (is_1bit e), (produces_bv e); reflexivity.
  Qed.

  Lemma rt_type e mb : wt e = true -> built e = true -> type_of (rt e mb) = type_of e.
  Proof. intros Hw Hb. apply (rt_equiv e Hw Hb mb). Qed.

  Lemma syms_in_app1 l1 l2 (P : string * ty -> Prop) : (forall x, In x (l1 ++ l2) -> P x) -> forall x, In x l1 -> P x.
  Proof. intros H x Hx. apply H, in_or_app. now left. Qed.
  Lemma syms_in_app2 l1 l2 (P : string * ty -> Prop) : (forall x, In x (l1 ++ l2) -> P x) -> forall x, In x l2 -> P x.
  Proof. intros H x Hx. apply H, in_or_app. now right. Qed.

  Lemma bits_all_bin k v : k <> O -> all_chars is_bin_digit (bits_str_nat k v) = true.
  Proof.
    intros Hk. unfold all_chars. destruct k as [|k]; [congruence|]. cbn [bits_str_nat].
    assert (F : forall j, str_forall is_bin_digit (bits_str_nat j v) = true).
    { induction j as [|j IH]; [reflexivity|]. cbn [bits_str_nat str_forall]. rewrite IH.
      destruct (N.testbit v (N.of_nat j)); reflexivity. }
    change (String (if N.testbit v (N.of_nat k) then "1"%char else "0"%char) (bits_str_nat k v)) with (bits_str_nat (S k) v).
    apply F.
  Qed.

  Lemma early_bits w v : 1 < w -> v < 2 ^ w ->
    early_parse (Some st) (String.append "#b" (bits_str w v)) = POk (IExpr (BVLiteral w v)).
  Proof.
    intros Hw Hv. unfold bits_str. cbn [String.append].
    unfold early_parse. change (Ascii.eqb "#" "#") with true. change (Ascii.eqb "b" "b") with true.
    rewrite bits_all_bin by lia. cbn [andb]. rewrite digits_val_bits. rewrite Nnat.N2Nat.id.
    unfold literal_expr. rewrite N.mod_small by assumption. do 3 f_equal; lia.
  Qed.

  Lemma zeros_all_bin k (last : ascii) : is_bin_digit last = true ->
    all_chars is_bin_digit (String.append (zeros_nat k) (String last EmptyString)) = true.
  Proof.
    intros Hl. unfold all_chars.
    assert (F : str_forall is_bin_digit (String.append (zeros_nat k) (String last "")) = true).
    { induction k as [|k IH]; cbn [zeros_nat String.append str_forall]; [now rewrite Hl | now rewrite IH]. }
    destruct (String.append (zeros_nat k) (String last "")) eqn:E; [destruct k; discriminate E | exact F].
  Qed.

  Lemma early_zeros by_ (last : ascii) d : bit_of last = Some d -> is_bin_digit last = true ->
    early_parse (Some st) (String.append "#b" (String.append (zeros by_) (String last EmptyString))) = POk (IExpr (BVLiteral (by_ + 1) d)).
  Proof.
    intros Hd Hl. unfold zeros. cbn [String.append]. unfold early_parse.
    change (Ascii.eqb "#" "#") with true. change (Ascii.eqb "b" "b") with true.
    rewrite (zeros_all_bin _ _ Hl). cbn [andb]. rewrite (digits_val_zeros _ _ d 0 0 Hd). rewrite Nnat.N2Nat.id.
    unfold literal_expr. do 3 f_equal; lia.
  Qed.


  Lemma syms_app1 l1 l2 (Q : string -> ty -> Prop) :
    (forall n t, In (n, t) (l1 ++ l2) -> Q n t) -> forall n t, In (n, t) l1 -> Q n t.
  Proof. intros H n t Hx. apply H, in_or_app. now left. Qed.
  Lemma syms_app2 l1 l2 (Q : string -> ty -> Prop) :
    (forall n t, In (n, t) (l1 ++ l2) -> Q n t) -> forall n t, In (n, t) l2 -> Q n t.
  Proof. intros H n t Hx. apply H, in_or_app. now right. Qed.

  Ltac group := rewrite sxi_list_eq; cbn [SmtParseProofs.sxi_list].
  Ltac head h := rewrite (head_item h eq_refl eq_refl eq_refl).

  (* binary operator written with head [h], read with builder [op] *)
  Ltac binop h m Hop Sa Sb :=
    group; head h; rewrite Sa, Sb; cbn [pbind];
    rewrite (pat_binop st h _ _ _ _ _ eq_refl eq_refl eq_refl Hop); reflexivity.

  Ltac kids2 m IHa IHb Hwa Hwb Hbu Hix Hsy :=
    destruct Hbu as [Hba Hbb]; destruct Hix as [Hia Hib];
    pose proof (IHa Hwa Hba Hia (syms_app1 _ _ _ Hsy) m) as Sa;
    pose proof (IHb Hwb Hbb Hib (syms_app2 _ _ _ Hsy) m) as Sb;
    pose proof (rt_type _ m Hwa Hba) as Ta; pose proof (rt_type _ m Hwb Hbb) as Tb.

  Ltac bin_same inv h m IHa IHb Hwt Hbu Hix Hsy :=
    pose proof Hwt as Hinv; apply inv in Hinv; destruct Hinv as (Hwa & Hwb & Hta & Htb);
    destruct Hbu as [Hba Hbb]; destruct Hix as [Hia Hib];
    pose proof (IHa Hwa Hba Hia (syms_app1 _ _ _ Hsy) m) as Sa;
    pose proof (IHb Hwb Hbb Hib (syms_app2 _ _ _ Hsy) m) as Sb;
    pose proof (rt_type _ m Hwa Hba) as Ta; pose proof (rt_type _ m Hwb Hbb) as Tb;
    rewrite Hta in Ta; rewrite Htb in Tb;
    group; head h; rewrite Sa, Sb; cbn [pbind];
    rewrite (pat_binop st h _ _ _ _ _ eq_refl eq_refl eq_refl (mk_same_ok _ _ _ _ Ta Tb)); reflexivity.

  Lemma sxi_ser e : wt e = true -> built e = true -> idx32 e = true -> syms_in e ->
    forall mb, sxi st (ser e mb) = POk (IExpr (rt e mb)).
  Proof.
    unfold syms_in.
    induction e as
      [ n w | w v | a IHa by_ w | a IHa by_ w | a IHa hi lo | a IHa w | a IHa w
      | a IHa b IHb | a IHa b IHb | a IHa b IHb | a IHa b IHb w | a IHa b IHb | a IHa b IHb w
      | a IHa b IHb w | a IHa b IHb w | a IHa b IHb w | a IHa b IHb w | a IHa b IHb w
      | a IHa b IHb w | a IHa b IHb w | a IHa b IHb w | a IHa b IHb w
      | a IHa b IHb w | a IHa b IHb w | a IHa b IHb w | a IHa b IHb w | a IHa b IHb w
      | a IHa b IHb w | a IHa b IHb w | a IHa b IHb c IHc
      | n iw dw | a IHa iw dw | a IHa b IHb | a IHa b IHb c IHc | a IHa b IHb c IHc ];
      intros Hwt Hbu Hix Hsy mb; rewrite ser_eq, rt_eq;
      (apply sxi_wrap; [| rewrite rt_core_as_rt; now apply rt_type]);
      cbn [SmtSerProofs.ser_core rt_core consumes_bv]; cbn [built idx32 symbols] in Hbu, Hix, Hsy;
      repeat rewrite andb_true_iff in Hbu; repeat rewrite andb_true_iff in Hix.
    - (* BVSymbol *)
      destruct (Hsy n (TBV w) (or_introl eq_refl)) as [Hn Ha].
      cbn [SmtParseProofs.sxi]. rewrite (atom_symbol st n _ Hn Ha). reflexivity.
    - (* BVLiteral *)
      apply wt_lit in Hwt. destruct Hwt as [Hw Hv].
      destruct (N.ltb_spec 1 w) as [H1 | H1].
      + apply lit_item; [now apply early_bits | reflexivity].
      + assert (w = 1) by lia. subst w. change (1 =? 1) with true. cbn [andb].
        destruct (lt2_cases v Hv) as [-> | ->]; reflexivity.
    - (* BVZeroExt *)
      pose proof Hwt as Hinv. apply wt_zext in Hinv. destruct Hinv as (Hwa & Hta & Hlt).
      destruct Hbu as [Hby Hba]. destruct Hix as [Hbx Hia]. apply N.ltb_lt in Hby, Hbx.
      pose proof (IHa Hwa Hba Hia Hsy false) as Sa. pose proof (rt_type a false Hwa Hba) as Ta. rewrite Hta in Ta.
      unfold is_1bit. rewrite Hta. destruct (N.eqb_spec (w - by_) 1) as [E1 | E1].
      + group. head "ite". rewrite Sa.
        rewrite (lit_item _ _ _ (early_zeros by_ "1"%char 1 eq_refl eq_refl) eq_refl).
        rewrite (lit_item _ _ _ (early_zeros by_ "0"%char 0 eq_refl eq_refl) eq_refl). cbn [pbind].
        rewrite pat_ite. unfold mk_ite, bvw. rewrite Ta, E1. cbn [type_of ty_same ty_eqb]. rewrite !N.eqb_refl. reflexivity.
      + group. unfold indexed. cbn [map]. group. head "_". head "zero_extend". rewrite numeral_item. cbn [pbind].
        rewrite pat_idx1. change (String.eqb "zero_extend" "BitVec") with false. change (String.eqb "zero_extend" "zero_extend") with true.
        cbv iota. rewrite (parse_width_dec by_ Hbx). cbn [pbind fst]. rewrite Sa. cbn [pbind].
        rewrite pat_zext. unfold mk_zero_extend, bvw. rewrite Ta.
        assert (Eb : (by_ =? 0) = false) by (apply N.eqb_neq; lia). rewrite Eb. cbn [pbind fst].
        replace (w - by_ + by_) with w by lia. reflexivity.
    - (* BVSignExt *)
      pose proof Hwt as Hinv. apply wt_sext in Hinv. destruct Hinv as (Hwa & Hta & Hlt).
      destruct Hbu as [Hby Hba]. destruct Hix as [Hbx Hia]. apply N.ltb_lt in Hby, Hbx.
      pose proof (IHa Hwa Hba Hia Hsy true) as Sa. pose proof (rt_type a true Hwa Hba) as Ta. rewrite Hta in Ta.
      group. unfold indexed. cbn [map]. group. head "_". head "sign_extend". rewrite numeral_item. cbn [pbind].
      rewrite pat_idx1. change (String.eqb "sign_extend" "BitVec") with false. change (String.eqb "sign_extend" "zero_extend") with false.
      change (String.eqb "sign_extend" "sign_extend") with true.
      cbv iota. rewrite (parse_width_dec by_ Hbx). cbn [pbind fst]. rewrite Sa. cbn [pbind].
      rewrite pat_sext. unfold mk_sign_extend, bvw. rewrite Ta.
      assert (Eb : (by_ =? 0) = false) by (apply N.eqb_neq; lia). rewrite Eb. cbn [pbind fst].
      replace (w - by_ + by_) with w by lia. reflexivity.
    - (* BVSlice *)
      pose proof Hwt as Hinv. apply wt_slice in Hinv. destruct Hinv as (Hwa & we & Hta & Hhi & Hlo).
      destruct Hbu as [Hno Hba]. destruct Hix as [[Hhx Hlx] Hia]. apply N.ltb_lt in Hhx, Hlx.
      pose proof (IHa Hwa Hba Hia Hsy false) as Sa. pose proof (rt_type a false Hwa Hba) as Ta. rewrite Hta in Ta.
      apply negb_true_iff in Hno. rewrite Hno.
      group. unfold indexed. cbn [map]. group. head "_". head "extract". rewrite !numeral_item. cbn [pbind].
      rewrite pat_extract, (parse_width_dec hi Hhx), (parse_width_dec lo Hlx). cbn [pbind fst]. rewrite Sa. cbn [pbind].
      rewrite pat_slice. unfold mk_slice, bvw. rewrite Ta.
      assert (Ec : ((lo =? 0) && (hi + 1 =? we)) = false).
      { unfold width in Hno. rewrite Hta in Hno. destruct (N.eqb_spec lo 0); cbn [andb] in *; [|reflexivity].
        apply N.eqb_neq. apply N.eqb_neq in Hno. lia. }
      assert (El : (hi <? lo) = false) by (apply N.ltb_ge; lia).
      destruct (lo =? 0); cbn [andb] in Ec; [rewrite Ec | rewrite El]; reflexivity.
    - (* BVNot *)
      pose proof Hwt as Hinv. apply wt_not in Hinv. destruct Hinv as (Hwa & Hta).
      pose proof (IHa Hwa Hbu Hix Hsy false) as Sa. pose proof (rt_type a false Hwa Hbu) as Ta. rewrite Hta in Ta.
      unfold is_1bit. rewrite Hta. destruct (w =? 1).
      + group. head "not". rewrite Sa. cbn [pbind]. rewrite pat_not. unfold mk_not, bvw. rewrite Ta. reflexivity.
      + group. head "bvnot". rewrite Sa. cbn [pbind]. rewrite pat_bvnot. unfold mk_not, bvw. rewrite Ta. reflexivity.
    - (* BVNegate *)
      pose proof Hwt as Hinv. apply wt_neg in Hinv. destruct Hinv as (Hwa & Hta).
      pose proof (IHa Hwa Hbu Hix Hsy true) as Sa. pose proof (rt_type a true Hwa Hbu) as Ta. rewrite Hta in Ta.
      group. head "bvneg". rewrite Sa. cbn [pbind]. rewrite pat_bvneg. unfold mk_negate, bvw. rewrite Ta. reflexivity.
    - (* BVEqual *)
      pose proof Hwt as Hinv. apply wt_eq in Hinv. destruct Hinv as (Hwa & Hwb & w' & Hta & Htb).
      kids2 false IHa IHb Hwa Hwb Hbu Hix Hsy. rewrite Hta in Ta. rewrite Htb in Tb.
      group. head "=". rewrite Sa, Sb. cbn [pbind].
      rewrite (pat_binop st "=" _ _ _ _ _ eq_refl eq_refl eq_refl (mk_equal_bv _ _ _ Ta Tb)). reflexivity.
    - (* BVImplies *)
      pose proof Hwt as Hinv. apply wt_implies in Hinv. destruct Hinv as (Hwa & Hwb & Hta & Htb).
      kids2 false IHa IHb Hwa Hwb Hbu Hix Hsy. rewrite Hta in Ta. rewrite Htb in Tb.
      group. head "=>". rewrite Sa, Sb. cbn [pbind].
      rewrite (pat_binop st "=>" _ _ _ _ _ eq_refl eq_refl eq_refl (mk_implies_ok _ _ Ta Tb)). reflexivity.
    - (* BVGreater *)
      pose proof Hwt as Hinv. apply wt_ugt in Hinv. destruct Hinv as (Hwa & Hwb & w' & Hta & Htb).
      kids2 true IHa IHb Hwa Hwb Hbu Hix Hsy. rewrite Hta in Ta. rewrite Htb in Tb.
      group. head "bvugt". rewrite Sa, Sb. cbn [pbind].
      rewrite (pat_binop st "bvugt" _ _ _ _ _ eq_refl eq_refl eq_refl (mk_greater_ok _ _ _ Ta Tb)). reflexivity.
    - bin_same wt_sgt "bvsgt" true IHa IHb Hwt Hbu Hix Hsy.
    - (* BVGreaterEqual *)
      pose proof Hwt as Hinv. apply wt_uge in Hinv. destruct Hinv as (Hwa & Hwb & w' & Hta & Htb).
      kids2 true IHa IHb Hwa Hwb Hbu Hix Hsy. rewrite Hta in Ta. rewrite Htb in Tb.
      group. head "bvuge". rewrite Sa, Sb. cbn [pbind].
      rewrite (pat_binop st "bvuge" _ _ _ _ _ eq_refl eq_refl eq_refl (mk_greater_equal_ok _ _ _ Ta Tb)). reflexivity.
    - bin_same wt_sge "bvsge" true IHa IHb Hwt Hbu Hix Hsy.
    - (* BVConcat *)
      pose proof Hwt as Hinv. apply wt_concat in Hinv. destruct Hinv as (Hwa & Hwb & wa & wb & Hta & Htb & ->).
      kids2 true IHa IHb Hwa Hwb Hbu Hix Hsy. rewrite Hta in Ta. rewrite Htb in Tb.
      group. head "concat". rewrite Sa, Sb. cbn [pbind].
      rewrite (pat_binop st "concat" _ _ _ _ _ eq_refl eq_refl eq_refl (mk_concat_ok _ _ _ _ Ta Tb)). reflexivity.
    - (* BVAnd *) cbn [is_1bit type_of]. destruct (w =? 1);
        [bin_same wt_and "and" false IHa IHb Hwt Hbu Hix Hsy | bin_same wt_and "bvand" false IHa IHb Hwt Hbu Hix Hsy].
    - cbn [is_1bit type_of]. destruct (w =? 1);
        [bin_same wt_or "or" false IHa IHb Hwt Hbu Hix Hsy | bin_same wt_or "bvor" false IHa IHb Hwt Hbu Hix Hsy].
    - cbn [is_1bit type_of]. destruct (w =? 1);
        [bin_same wt_xor "xor" false IHa IHb Hwt Hbu Hix Hsy | bin_same wt_xor "bvxor" false IHa IHb Hwt Hbu Hix Hsy].
    - bin_same wt_shl "bvshl" true IHa IHb Hwt Hbu Hix Hsy.
    - bin_same wt_ashr "bvashr" true IHa IHb Hwt Hbu Hix Hsy.
    - bin_same wt_lshr "bvlshr" true IHa IHb Hwt Hbu Hix Hsy.
    - bin_same wt_add "bvadd" true IHa IHb Hwt Hbu Hix Hsy.
    - bin_same wt_mul "bvmul" true IHa IHb Hwt Hbu Hix Hsy.
    - bin_same wt_sdiv "bvsdiv" true IHa IHb Hwt Hbu Hix Hsy.
    - bin_same wt_udiv "bvudiv" true IHa IHb Hwt Hbu Hix Hsy.
    - bin_same wt_smod "bvsmod" true IHa IHb Hwt Hbu Hix Hsy.
    - bin_same wt_srem "bvsrem" true IHa IHb Hwt Hbu Hix Hsy.
    - bin_same wt_urem "bvurem" true IHa IHb Hwt Hbu Hix Hsy.
    - bin_same wt_sub "bvsub" true IHa IHb Hwt Hbu Hix Hsy.
    - (* BVArrayRead *)
      pose proof Hwt as Hinv. apply wt_read in Hinv. destruct Hinv as (Hwa & Hwb & iw & Hta & Htb).
      kids2 false IHa IHb Hwa Hwb Hbu Hix Hsy. rewrite Hta in Ta. rewrite Htb in Tb.
      group. head "select". rewrite Sa, Sb. cbn [pbind]. rewrite pat_select. unfold mk_array_read. rewrite Ta. reflexivity.
    - (* BVIte *)
      pose proof Hwt as Hinv. apply wt_ite in Hinv. destruct Hinv as (Hwa & Hwb & Hwc & Hta & w' & Htb & Htc).
      destruct Hbu as [[Hba Hbb] Hbc]. destruct Hix as [[Hia Hib] Hic].
      pose proof (IHa Hwa Hba Hia (syms_app1 _ _ _ Hsy) false) as Sa.
      pose proof (IHb Hwb Hbb Hib (syms_app1 _ _ _ (syms_app2 _ _ _ Hsy)) false) as Sb.
      pose proof (IHc Hwc Hbc Hic (syms_app2 _ _ _ (syms_app2 _ _ _ Hsy)) false) as Sc.
      pose proof (rt_type _ false Hwa Hba) as Ta. pose proof (rt_type _ false Hwb Hbb) as Tb. pose proof (rt_type _ false Hwc Hbc) as Tc.
      rewrite Hta in Ta. rewrite Htb in Tb. rewrite Htc in Tc.
      group. head "ite". rewrite Sa, Sb, Sc. cbn [pbind]. rewrite pat_ite. unfold mk_ite, bvw, ty_same. rewrite Ta, Tb, Tc.
      cbn [ty_eqb]. rewrite !N.eqb_refl. reflexivity.
    - (* ArraySymbol *)
      destruct (Hsy n (TArr iw dw) (or_introl eq_refl)) as [Hn Ha].
      cbn [SmtParseProofs.sxi]. rewrite (atom_symbol st n _ Hn Ha). reflexivity.
    - (* ArrayConstant *)
      pose proof Hwt as Hinv. apply wt_aconst in Hinv. destruct Hinv as (Hwa & Hta & Hiw).
      destruct Hix as [[Hix1 Hix2] Hia]. apply N.ltb_lt in Hix1, Hix2.
      pose proof (IHa Hwa Hbu Hia Hsy false) as Sa. pose proof (rt_type a false Hwa Hbu) as Ta. rewrite Hta in Ta.
      group. group. head "as". head "const". rewrite (ser_type_arr_item iw dw Hix1 Hix2). cbn [pbind].
      rewrite pat_as_const. cbn [pbind fst]. rewrite Sa. cbn [pbind]. rewrite (pat_aconst st iw dw _ Ta). reflexivity.
    - (* ArrayEqual *)
      pose proof Hwt as Hinv. apply wt_aeq in Hinv. destruct Hinv as (Hwa & Hwb & iw & dw & Hta & Htb).
      kids2 false IHa IHb Hwa Hwb Hbu Hix Hsy. rewrite Hta in Ta. rewrite Htb in Tb.
      group. head "=". rewrite Sa, Sb. cbn [pbind].
      rewrite (pat_binop st "=" _ _ _ _ _ eq_refl eq_refl eq_refl (mk_equal_arr _ _ _ _ Ta Tb)). reflexivity.
    - (* ArrayStore *)
      pose proof Hwt as Hinv. apply wt_store in Hinv. destruct Hinv as (Hwa & Hwb & Hwc & iw & dw & Hta & Htb & Htc).
      destruct Hbu as [[Hba Hbb] Hbc]. destruct Hix as [[Hia Hib] Hic].
      pose proof (IHa Hwa Hba Hia (syms_app1 _ _ _ Hsy) false) as Sa.
      pose proof (IHb Hwb Hbb Hib (syms_app1 _ _ _ (syms_app2 _ _ _ Hsy)) false) as Sb.
      pose proof (IHc Hwc Hbc Hic (syms_app2 _ _ _ (syms_app2 _ _ _ Hsy)) false) as Sc.
      group. head "store". rewrite Sa, Sb, Sc. cbn [pbind]. rewrite pat_store. reflexivity.
    - (* ArrayIte *)
      pose proof Hwt as Hinv. apply wt_aite in Hinv. destruct Hinv as (Hwa & Hwb & Hwc & Hta & iw & dw & Htb & Htc).
      destruct Hbu as [[Hba Hbb] Hbc]. destruct Hix as [[Hia Hib] Hic].
      pose proof (IHa Hwa Hba Hia (syms_app1 _ _ _ Hsy) false) as Sa.
      pose proof (IHb Hwb Hbb Hib (syms_app1 _ _ _ (syms_app2 _ _ _ Hsy)) false) as Sb.
      pose proof (IHc Hwc Hbc Hic (syms_app2 _ _ _ (syms_app2 _ _ _ Hsy)) false) as Sc.
      pose proof (rt_type _ false Hwa Hba) as Ta. pose proof (rt_type _ false Hwb Hbb) as Tb. pose proof (rt_type _ false Hwc Hbc) as Tc.
      rewrite Hta in Ta. rewrite Htb in Tb. rewrite Htc in Tc.
      group. head "ite". rewrite Sa, Sb, Sc. cbn [pbind]. rewrite pat_ite. unfold mk_ite, bvw, ty_same. rewrite Ta, Tb, Tc.
      cbn [ty_eqb]. rewrite !N.eqb_refl. reflexivity.
  Qed.
End Ser.

(** ** the round trip *)

Theorem parse_ser_lemma :
  forall (top : symtab) (e : expr) (mb : bool),
    wt e = true -> built e = true -> idx32 e = true -> table_for top e ->
    parse_expr_toks top (toks_of_sx (ser e mb)) = POk (rt e mb) /\ equiv e (rt e mb).
Proof.
  intros top e mb Hwt Hbu Hix [Hsy Hkeys]. split; [| now apply rt_equiv].
  pose proof (sxi_ser (nst_new top) Hkeys e Hwt Hbu Hix Hsy mb) as Hs.
  destruct (machine_sx (nst_new top) _ _ Hs) as [Hr _].
  unfold SmtParse.parse_expr_toks, SmtParse.parse_expr_internal, SmtParse.parse_eot.
  rewrite <- (app_nil_r (toks_of_sx (ser e mb))). rewrite (Hr [] [] I). reflexivity.
Qed.

(** the machine up to the end of a token list: either it has returned, or it is in some state *)
Fixpoint run_state (p : list ltok) (stack : list pitem) (st : nst) (orphan : bool)
  : pres (eot * nst * list ltok) + (list pitem * nst * bool) :=
  match p with
  | [] => inr (stack, st, orphan)
  | tok :: rest =>
      match step tok stack st orphan with
      | POk (stack', st', orphan') =>
          match machine_done stack' with
          | Some r => inl (POk (r, st', rest))
          | None => run_state rest stack' st' orphan'
          end
      | PErr => inl PErr
      | PPanic => inl PPanic
      end
  end.

(** what the machine answers when the tokens end before an expression is complete:
    the [todo!] of the current code, an error in the repaired code *)
Definition end_of_tokens : pres (eot * nst * list ltok) := match cv with Cur => PPanic | Fix | Fix2 => PErr end.

Lemma run_app_state p q stk st o :
  run (p ++ q) stk st o =
  match run_state p stk st o with
  | inl (POk (r, st', rest)) => POk (r, st', rest ++ q)
  | inl PErr => PErr
  | inl PPanic => PPanic
  | inr (stk', st', o') => run q stk' st' o'
  end.
Proof.
  revert stk st o. induction p as [|tok p IH]; intros stk st o; cbn [SmtParse.run app run_state]; [reflexivity|].
  destruct (step tok stk st o) as [[[stk' st'] o'] | |]; try reflexivity.
  destruct (machine_done stk'); [reflexivity | apply IH].
Qed.

Lemma run_nil stk st o : run [] stk st o = end_of_tokens.
Proof. reflexivity. Qed.

(** every proper prefix (in tokens) of the writer's output: the machine reaches the end of the
    tokens without having returned *)
Theorem truncated_lemma :
  forall (top : symtab) (e : expr) (mb : bool) (p q : list ltok),
    wt e = true -> built e = true -> idx32 e = true -> table_for top e ->
    toks_of_sx (ser e mb) = p ++ q -> q <> [] ->
    parse_expr_toks top p = match cv with Cur => PPanic | Fix | Fix2 => PErr end.
Proof.
  intros top e mb p q Hwt Hbu Hix [Hsy Hkeys] Hpq Hq.
  pose proof (sxi_ser (nst_new top) Hkeys e Hwt Hbu Hix Hsy mb) as Hs.
  destruct (machine_sx (nst_new top) _ _ Hs) as [Hr _].
  pose proof (Hr [] [] I) as Hfull. rewrite app_nil_r, Hpq in Hfull.
  unfold SmtParseProofs.cont in Hfull. cbn [machine_done] in Hfull.
  rewrite run_app_state in Hfull.
  unfold SmtParse.parse_expr_toks, SmtParse.parse_expr_internal, SmtParse.parse_eot.
  rewrite <- (app_nil_r p), run_app_state.
  destruct (run_state p [] (nst_new top) false) as [[[[r st'] rest] | |] | [[stk' st'] o']].
  - inversion Hfull as [[H1 H2 H3]]. destruct rest; [|discriminate H3]. cbn in H3. congruence.
  - discriminate Hfull.
  - discriminate Hfull.
  - rewrite run_nil. unfold end_of_tokens. destruct cv; reflexivity.
Qed.

(** anything but a comment after the writer's output is reported as an error *)
Theorem trailing_token_error_lemma :
  forall (top : symtab) (e : expr) (mb : bool) (t : ltok) (q : list ltok),
    wt e = true -> built e = true -> idx32 e = true -> table_for top e ->
    t <> TkComment -> t <> TkLexPanic ->
    parse_expr_toks top (toks_of_sx (ser e mb) ++ t :: q) = PErr.
Proof.
  intros top e mb t q Hwt Hbu Hix [Hsy Hkeys] Hc Hp.
  pose proof (sxi_ser (nst_new top) Hkeys e Hwt Hbu Hix Hsy mb) as Hs.
  destruct (machine_sx (nst_new top) _ _ Hs) as [Hr _].
  unfold SmtParse.parse_expr_toks, SmtParse.parse_expr_internal, SmtParse.parse_eot. rewrite (Hr [] (t :: q) I).
  unfold SmtParseProofs.cont. cbn [machine_done pbind next_no_comment]. destruct t; try congruence; reflexivity.
Qed.

End CV.

(** ** the current code: truncated output panics; concrete witnesses of the recorded defects *)

Theorem truncated_panics_lemma :
  forall (top : symtab) (e : expr) (mb : bool) (p q : list ltok),
    wt e = true -> built e = true -> idx32 e = true -> table_for Cur top e ->
    toks_of_sx (ser Cur e mb) = p ++ q -> q <> [] ->
    parse_expr_toks Cur top p = PPanic.
Proof. exact (truncated_lemma Cur). Qed.

(** ** the repaired code: truncated output is an error *)

Theorem truncated_is_error_fix :
  forall (top : symtab) (e : expr) (mb : bool) (p q : list ltok),
    wt e = true -> built e = true -> idx32 e = true -> table_for Fix top e ->
    toks_of_sx (ser Fix e mb) = p ++ q -> q <> [] ->
    parse_expr_toks Fix top p = PErr.
Proof. exact (truncated_lemma Fix). Qed.

Lemma malformed_witness : exists s : string, parse_expr_str Cur [] s = PPanic.
Proof. exists "(bvadd #b01 ". vm_compute. reflexivity. Qed.

Lemma lexer_panics_witness :
  parse_expr_str Cur [] "true ;
" = PPanic /\ parse_expr_str Cur [] "(bvnot |a" = PPanic.
Proof. split; vm_compute; reflexivity. Qed.

Lemma read_command_witness :
  read_command Cur [] ["(assert (= a"] = RcHang /\
  (exists c top' rest,
      read_command Cur [] ["(declare-const |(| Bool)
"; "(exit)
"; ")
"] = RcCmd c top' rest /\ rest = []) /\
  read_command Cur [] ["(declare-const |(| Bool)
"; "(exit)
"] = RcHang /\
  read_command Cur [] ["(get-unsat-assumptions)
"] = RcPanic.
Proof.
  split; [vm_compute; reflexivity | split; [| split; vm_compute; reflexivity]].
  eexists. eexists. eexists. split; [vm_compute; reflexivity | reflexivity].
Qed.

(** the same inputs in the repaired code *)
Lemma repaired_witness :
  parse_expr_str Fix [] "(bvadd #b01 " = PErr /\
  parse_expr_str Fix [] "true ;
" = POk (BVLiteral 1 1) /\
  parse_expr_str Fix [] "(bvnot |a" = PErr /\
  read_command Fix [] ["(assert (= a"] = RcErr /\
  (exists top', read_command Fix [] ["(declare-const |(| Bool)
"; "(exit)
"] = RcCmd (CDeclareConst (BVSymbol "(" 1)) top' ["(exit)
"]) /\
  (exists top', read_command Fix [] ["(get-unsat-assumptions)
"] = RcCmd CGetUnsatAssumptions top' []).
Proof. repeat split; try (vm_compute; reflexivity); eexists; vm_compute; reflexivity. Qed.
