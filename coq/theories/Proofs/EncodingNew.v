(** * Proofs/EncodingNew.v — [enc_new] establishes what the encoding proofs assume:
    [enc_basic] and [enc_order] hold for [enc_new sy nm] whenever [sys_wf sy]. *)
From Coq Require Import List Bool Lia.
From Patronus Require Import EvalImpl Encoding SysExec ReachBmc ExprLemmas McBasics ScriptProofs EncodingBasics
     EncodingFaithful EncodingWf AnalysisProofs.
Import ListNotations.
Open Scope N_scope.

Lemma nodup_exprs_NoDup l : nodup_exprs l = true -> NoDup l.
Proof.
  induction l as [|x r IH]; cbn [nodup_exprs]; intros H; [constructor|].
  apply andb_true_iff in H. destruct H as [Hx Hr]. constructor; [|now apply IH].
  apply negb_true_iff in Hx. intros Hin. assert (existsb (expr_eqb x) r = true); [|congruence].
  apply existsb_exists. exists x. split; [assumption|apply expr_eqb_refl].
Qed.

Lemma wt_subterm : forall e x, wt e = true -> In x (subterms e) -> wt x = true.
Proof.
  induction e; intros x Hwt Hx; cbn [subterms] in Hx; (destruct Hx as [<-|Hx]; [assumption|]);
    cbn [wt] in Hwt; repeat match goal with H : _ && _ = true |- _ => apply andb_true_iff in H; destruct H end;
    repeat (rewrite in_app_iff in Hx);
    repeat match goal with H : _ \/ _ |- _ => destruct H end;
    try (now destruct Hx); eauto.
Qed.

Lemma symbols_of_subterm : forall e x y, In x (subterms e) -> In y (symbols_of x) -> In y (symbols_of e).
Proof.
  induction e; intros x y Hx Hy; cbn [subterms] in Hx; (destruct Hx as [<-|Hx]; [assumption|]);
    cbn [symbols_of]; repeat (rewrite in_app_iff in Hx); rewrite ?in_app_iff;
    repeat match goal with H : _ \/ _ |- _ => destruct H end;
    try (now destruct Hx); eauto 6.
Qed.

Lemma precedes_app_mid l l' x e : ~ In e l -> precedes l' x e -> precedes (l ++ l') x e.
Proof.
  intros Hn (l1 & l2 & -> & Hx & He). exists (l ++ l1), l2. split; [now rewrite app_assoc|].
  split; [apply in_or_app; now right|]. intros H. apply in_app_or in H. tauto.
Qed.

Section New.
  Variables (sy : sys) (nm : expr -> string).
  Hypothesis Hwf : sys_wf sy = true.

  Let en := enc_new sy nm.
  Let us := uses_of false sy.
  Let roots := analysis_roots false sy.
  Let stF := fold_left (fun st r => visit us (fst r) (snd r) st) roots ([], []).
  Let ns := fun e => negb (is_state_sym sy e).
  Let SE := dedup (filter ns (analyze false sy)).

  Lemma Hok : sys_ok sy = true.
  Proof. pose proof Hwf as Hw; unfold sys_wf in Hw; rewrite !andb_true_iff in Hw; destruct Hw as [[[Hw1 Hw2] Hw3] Hw4]. assumption. Qed.
  Lemma Hclosed : sys_closed sy = true.
  Proof. pose proof Hwf as Hw; unfold sys_wf in Hw; rewrite !andb_true_iff in Hw; destruct Hw as [[[Hw1 Hw2] Hw3] Hw4]. assumption. Qed.
  Lemma Hstates_nodup : NoDup (map st_sym (s_states sy)).
  Proof.
    pose proof Hwf as Hw; unfold sys_wf in Hw; rewrite !andb_true_iff in Hw; destruct Hw as [[[Hw1 Hw2] Hw3] Hw4].
    now apply nodup_exprs_NoDup.
  Qed.
  Lemma Hinputs_not_states i : In i (s_inputs sy) -> is_state_sym sy i = false.
  Proof.
    intros Hi. pose proof Hwf as Hw; unfold sys_wf in Hw; rewrite !andb_true_iff in Hw; destruct Hw as [[[Hw1 Hw2] Hw3] Hw4].
    rewrite forallb_forall in Hw4. specialize (Hw4 i Hi). apply negb_true_iff in Hw4.
    unfold is_state_sym. rewrite <- Hw4. clear. induction (s_states sy) as [|st r IH]; [reflexivity|].
    cbn [existsb map]. rewrite IH. f_equal. apply expr_eqb_sym.
  Qed.

  Lemma sys_ok_parts :
    (forall i, In i (s_inputs sy) -> is_symbol i = true /\ wt i = true) /\
    (forall st, In st (s_states sy) -> state_ok st = true) /\
    (forall e, In e (s_bads sy) -> wt e = true) /\
    (forall e, In e (s_constraints sy) -> wt e = true).
  Proof.
    pose proof Hok as H. unfold sys_ok in H. repeat (apply andb_true_iff in H; destruct H as [H ?]).
    rewrite forallb_forall in *. repeat split.
    - apply (H i) in H4. apply andb_true_iff in H4. tauto.
    - apply (H i) in H4. apply andb_true_iff in H4. tauto.
    - assumption.
    - intros e He. apply H1 in He. unfold bool_expr_ok in He. apply andb_true_iff in He. tauto.
    - intros e He. apply H0 in He. unfold bool_expr_ok in He. apply andb_true_iff in He. tauto.
  Qed.

  Lemma input_symbol i : In i (s_inputs sy) -> is_symbol i = true.
  Proof. intros H. destruct sys_ok_parts as (Hi & _). now apply Hi. Qed.
  Lemma input_wt i : In i (s_inputs sy) -> wt i = true.
  Proof. intros H. destruct sys_ok_parts as (Hi & _). now apply Hi. Qed.

  Lemma root_exprs e : In e (map snd roots) ->
    In e (s_constraints sy) \/ In e (s_bads sy) \/ In e (init_exprs sy) \/ In e (next_exprs sy).
  Proof.
    unfold roots, analysis_roots. cbn [app]. rewrite !map_app, !map_map. cbn [snd]. rewrite !map_id, !in_app_iff. tauto.
  Qed.

  Lemma root_wt e : In e (map snd roots) -> wt e = true.
  Proof.
    intros H. apply root_exprs in H. destruct sys_ok_parts as (_ & Hst & Hb & Hc).
    destruct H as [H|[H|[H|H]]]; auto.
    - unfold init_exprs in H. apply in_flat_map in H. destruct H as (st & Hin & He).
      specialize (Hst st Hin). unfold state_ok in Hst. destruct (st_init st); [|destruct He].
      destruct He as [<-|[]]. repeat match goal with H : _ && _ = true |- _ => apply andb_true_iff in H; destruct H end. assumption.
    - unfold next_exprs in H. apply in_flat_map in H. destruct H as (st & Hin & He).
      specialize (Hst st Hin). unfold state_ok in Hst. destruct (st_next st); [|destruct He].
      destruct He as [<-|[]]. repeat match goal with H : _ && _ = true |- _ => apply andb_true_iff in H; destruct H end. assumption.
  Qed.

  Lemma root_in_all_exprs e : In e (map snd roots) -> In e (all_exprs sy).
  Proof.
    intros H. apply root_exprs in H. unfold all_exprs. rewrite !in_app_iff.
    destruct H as [H|[H|[H|H]]]; auto.
    - right; right; right; right. unfold init_exprs in H. apply in_flat_map in H. destruct H as (st & Hin & He).
      apply in_flat_map. exists st. split; [assumption|]. right. apply in_or_app. left. destruct (st_init st); assumption.
    - right; right; right; right. unfold next_exprs in H. apply in_flat_map in H. destruct H as (st & Hin & He).
      apply in_flat_map. exists st. split; [assumption|]. right. apply in_or_app. right. destruct (st_next st); assumption.
  Qed.

  (** the traversal over all roots *)
  Lemma roots_step : forall rs st, vinv st ->
    let st' := fold_left (fun st r => visit us (fst r) (snd r) st) rs st in
    vstep (fun x => exists r, In r (map snd rs) /\ In x (subterms r)) st st'.
  Proof.
    induction rs as [|r rs IH]; intros st Hinv; cbn [fold_left].
    - now apply vstep_refl.
    - destruct (visit_step us (S (size (snd r))) (snd r) (fst r) st ltac:(lia) Hinv) as [Hs _].
      eapply vstep_trans; [exact Hs|apply IH; apply (vs_inv _ _ _ Hs)| |].
      + intros x Hx. exists (snd r). split; [now left|assumption].
      + intros x (r' & Hr' & Hx). exists r'. split; [now right|assumption].
  Qed.

  Lemma vinv_nil : vinv ([], []).
  Proof. split; cbn; try tauto. intros e x []. Qed.

  Lemma stF_step : vstep (fun x => exists r, In r (map snd roots) /\ In x (subterms r)) ([], []) stF.
  Proof. apply roots_step. apply vinv_nil. Qed.

  Lemma ord_origin x : In x (snd stF) -> exists r, In r (map snd roots) /\ In x (subterms r).
  Proof.
    intros H. apply (vi_sub _ (vs_inv _ _ _ stF_step)) in H.
    destruct (vs_new _ _ _ stF_step x H) as [[]|Hx]. exact Hx.
  Qed.

  Lemma analyze_eq : analyze false sy = s_inputs sy ++ snd stF.
  Proof. reflexivity. Qed.

  Lemma sigs_exprs : map sg_expr (e_sigs en) = SE.
  Proof. unfold en, enc_new. cbn [e_sigs]. rewrite map_map. cbn [sg_expr]. apply map_id. Qed.

  Lemma in_SE e : In e SE <-> (In e (s_inputs sy) \/ In e (snd stF)) /\ is_state_sym sy e = false.
  Proof.
    unfold SE. rewrite In_dedup, filter_In, analyze_eq, in_app_iff. unfold ns. rewrite negb_true_iff. tauto.
  Qed.

  Lemma SE_wt e : In e SE -> wt e = true.
  Proof.
    intros H. apply in_SE in H. destruct H as [[H|H] _].
    - now apply input_wt.
    - destruct (ord_origin e H) as (r & Hr & Hx). eapply wt_subterm; [apply root_wt; exact Hr|exact Hx].
  Qed.

  Lemma find_state_none e : is_state_sym sy e = false -> find_state en e = None.
  Proof.
    unfold is_state_sym, find_state, en, enc_new. cbn [e_sys]. intros H.
    induction (s_states sy) as [|st r IH]; [reflexivity|]. cbn [existsb find] in *.
    apply orb_false_iff in H. destruct H as [H1 H2]. rewrite H1. now apply IH.
  Qed.

  Lemma find_state_some e : is_state_sym sy e = true -> find_state en e <> None.
  Proof.
    unfold is_state_sym, find_state, en, enc_new. cbn [e_sys]. intros H.
    induction (s_states sy) as [|st r IH]; [discriminate|]. cbn [existsb find] in *.
    destruct (expr_eqb (st_sym st) e); [discriminate|]. now apply IH.
  Qed.

  Lemma find_sig_some e : In e SE -> find_sig en e <> None.
  Proof.
    intros H. rewrite <- sigs_exprs in H. apply in_map_iff in H. destruct H as (s & <- & Hs).
    unfold find_sig. intros Hn. apply (find_none _ _ Hn s) in Hs. now rewrite expr_eqb_refl in Hs.
  Qed.

  Lemma is_state_sym_spec e : is_state_sym sy e = true <-> In e (map st_sym (s_states sy)).
  Proof.
    unfold is_state_sym. rewrite existsb_exists, in_map_iff. split.
    - intros (st & Hin & He). apply expr_eqb_true in He. eauto.
    - intros (st & <- & Hin). exists st. split; [assumption|apply expr_eqb_refl].
  Qed.

  (** a symbol of a system expression is a state or a signal *)
  Lemma closed_symbol e y k : In e (all_exprs sy) -> In y (symbols_of e) -> sig_sym en y k <> None.
  Proof.
    intros He Hy. pose proof Hclosed as Hc. unfold sys_closed in Hc. rewrite forallb_forall in Hc.
    specialize (Hc e He). rewrite forallb_forall in Hc. specialize (Hc y Hy).
    apply existsb_exists in Hc. destruct Hc as (z & Hz & Hyz). apply expr_eqb_true in Hyz. subst z.
    unfold sig_sym. destruct (is_state_sym sy y) eqn:Es.
    - destruct (find_state en y) eqn:Ef; [discriminate|]. now apply find_state_some in Es.
    - rewrite (find_state_none y Es).
      assert (In y SE).
      { apply in_SE. split; [|assumption]. left. unfold sys_symbols in Hz. apply in_app_or in Hz.
        destruct Hz as [Hz|Hz]; [assumption|]. apply is_state_sym_spec in Hz. congruence. }
      destruct (find_sig en y) eqn:Ef; [discriminate|]. now apply find_sig_some in H.
  Qed.

  Lemma inputs_in_all i : In i (s_inputs sy) -> In i (all_exprs sy).
  Proof. intros H. unfold all_exprs. apply in_or_app. now left. Qed.

  Theorem enc_new_basic : enc_basic en.
  Proof.
    split.
    - rewrite sigs_exprs. apply NoDup_dedup.
    - intros s Hs. apply find_state_none. apply (in_map sg_expr) in Hs. rewrite sigs_exprs in Hs.
      now apply in_SE in Hs.
    - apply Hstates_nodup.
    - apply sys_ok_parts.
    - intros s Hs. apply SE_wt. rewrite <- sigs_exprs. now apply in_map.
    - intros e He y k Hy. rewrite sigs_exprs in He. destruct He as [He|[He|He]].
      + apply in_SE in He. destruct He as [[He|He] _].
        * apply (closed_symbol e y k); [now apply inputs_in_all|assumption].
        * destruct (ord_origin e He) as (r & Hr & Hx).
          apply (closed_symbol r y k); [now apply root_in_all_exprs|].
          eapply symbols_of_subterm; eassumption.
      + apply (closed_symbol e y k); [|assumption]. apply root_in_all_exprs.
        unfold roots, analysis_roots. cbn [app]. rewrite !map_app, !map_map. cbn [snd]. rewrite !map_id, !in_app_iff. tauto.
      + apply (closed_symbol e y k); [|assumption]. apply root_in_all_exprs.
        unfold roots, analysis_roots. cbn [app]. rewrite !map_app, !map_map. cbn [snd]. rewrite !map_id, !in_app_iff. tauto.
  Qed.

  (** use counts *)
  Lemma pos_count (rs : list expr) e : pos (count_uses rs e) = true <-> exists r, In r rs /\ In e (subterms r).
  Proof. unfold pos. rewrite N.ltb_lt. apply count_uses_pos. Qed.

  Lemma sig_uses s : In s (e_sigs en) -> sg_uses s = us (sg_expr s) /\ sg_input s = mem (sg_expr s) (s_inputs sy).
  Proof.
    unfold en, enc_new. cbn [e_sigs]. intros H. apply in_map_iff in H. destruct H as (e & <- & _). cbn. auto.
  Qed.

  Lemma us_init e : u_init (us e) = count_uses (init_exprs sy) e. Proof. reflexivity. Qed.
  Lemma us_next e : u_next (us e) = count_uses (next_exprs sy) e. Proof. reflexivity. Qed.
  Lemma us_other e : u_other (us e) = count_uses (other_exprs false sy) e. Proof. reflexivity. Qed.

  Lemma nonsymbol_has_proper x e : In x (subterms e) -> x <> e -> is_symbol e = false.
  Proof. intros Hx Hne. destruct e; try reflexivity; cbn [subterms] in Hx; destruct Hx as [Hx|[]]; congruence. Qed.

  Theorem enc_new_order : enc_order en.
  Proof.
    split.
    - (* post-order *)
      intros l1 s l2 x Hsplit Hx Hne Hin.
      pose proof sigs_exprs as Hse. rewrite Hsplit, map_app in Hse. cbn [map] in Hse.
      apply (precedes_nodup (map sg_expr l1) (sg_expr s) (map sg_expr l2) x).
      { rewrite Hse. apply NoDup_dedup. }
      rewrite Hse. rewrite Hsplit, map_app in Hin. cbn [map] in Hin. rewrite Hse in Hin.
      assert (Hes : In (sg_expr s) SE) by (rewrite <- Hse; apply in_or_app; right; now left).
      apply in_SE in Hin. apply in_SE in Hes. destruct Hin as [Hxi Hxn]. destruct Hes as [Hei Hen].
      unfold SE. apply precedes_dedup. apply precedes_filter; [|unfold ns; now rewrite Hxn|unfold ns; now rewrite Hen].
      rewrite analyze_eq.
      pose proof (nonsymbol_has_proper x (sg_expr s) Hx Hne) as Hnsym.
      assert (Hni : ~ In (sg_expr s) (s_inputs sy)).
      { intros H. apply input_symbol in H. congruence. }
      destruct Hei as [Hei|Hei]; [contradiction|].
      destruct Hxi as [Hxi|Hxi].
      + now apply precedes_app_r.
      + apply precedes_app_mid; [assumption|].
        now apply (vi_post _ (vs_inv _ _ _ stF_step)).
    - (* monotone *)
      intros s s' Hs Hs' Hsub. destruct (sig_uses s Hs) as [-> _]. destruct (sig_uses s' Hs') as [-> _].
      rewrite !us_init, !us_next, !us_other, !pos_count.
      repeat split; intros (r & Hr & He); exists r; (split; [assumption|]); eapply subterms_trans; eassumption.
    - intros e s' He Hs' Hsub. destruct (sig_uses s' Hs') as [-> _]. rewrite us_init, pos_count. eauto.
    - intros e s' He Hs' Hsub. destruct (sig_uses s' Hs') as [-> _]. rewrite us_next, pos_count. eauto.
    - intros s Hs Hp. destruct (sig_uses s Hs) as [Hu _]. rewrite Hu, us_init, pos_count in Hp. exact Hp.
    - (* symbol signals are the inputs *)
      intros s Hs. destruct (sig_uses s Hs) as [_ ->].
      assert (Hse : In (sg_expr s) SE) by (rewrite <- sigs_exprs; now apply in_map).
      apply in_SE in Hse. destruct Hse as [Hi Hn].
      destruct (mem (sg_expr s) (s_inputs sy)) eqn:Em.
      + apply mem_In in Em. symmetry. now apply input_symbol.
      + apply mem_false in Em. destruct Hi as [Hi|Hi]; [contradiction|].
        destruct (is_symbol (sg_expr s)) eqn:Esym; [|reflexivity]. exfalso.
        destruct (ord_origin _ Hi) as (r & Hr & Hx).
        pose proof Hclosed as Hc. unfold sys_closed in Hc. rewrite forallb_forall in Hc.
        specialize (Hc r (root_in_all_exprs r Hr)). rewrite forallb_forall in Hc.
        specialize (Hc (sg_expr s) (subterm_symbol r _ Hx Esym)).
        apply existsb_exists in Hc. destruct Hc as (z & Hz & Hyz). apply expr_eqb_true in Hyz. subst z.
        unfold sys_symbols in Hz. apply in_app_or in Hz. destruct Hz as [Hz|Hz]; [contradiction|].
        apply is_state_sym_spec in Hz. congruence.
  Qed.
End New.
