(** * Proofs/Btor2Final.v — the FINAL system of the btor2 reader (after [improve_state_names] and the
    demotion of states without init and next) agrees with the reference interpreter (C08), is well
    typed and closed (C18); the renaming is type preserving and injective on the declared symbols.

    Route: the raw system agrees with the interpreter under the environment PULLED BACK along the
    renaming ([Btor2SoundFix.fold_sim_fix] at [env_pull (rename_sym ren) rho]); evaluating
    [rename ren e] under [rho] is evaluating [e] under the pulled-back environment
    ([Btor2RtExpr.rename_eval]); demotion only moves symbols between the two lists. *)
From Coq Require Import List Lia Bool String NArith FMapPositive Permutation.
From Patronus Require Import Expr ExprLemmas ExprEqb Eval EvalProofs SysClosed Btor2Parse Btor2Sem Btor2Agree
     Btor2ExprFacts Btor2ParseProofs Btor2NoCrash Btor2Sound Btor2Fix Btor2SoundFix Btor2RoundTripSpec Btor2RtExpr
     Btor2Names Btor2RoundTrip Btor2FinalSpec.
Import ListNotations.
Open Scope list_scope.
Open Scope N_scope.

(** ** lists *)
Lemma firstn_length_app {A} (a b : list A) : firstn (List.length a) (a ++ b) = a.
Proof. induction a as [|x a IH]; cbn [List.length firstn app]; [destruct b; reflexivity|rewrite IH; reflexivity]. Qed.

Lemma skipn_length_app {A} (a b : list A) : skipn (List.length a) (a ++ b) = b.
Proof. induction a as [|x a IH]; cbn [List.length skipn app]; [reflexivity|exact IH]. Qed.

Lemma weave_partition {A B} (p : A -> bool) (f : A -> B) (l : list A) :
  weave (map p l) (map f (filter p l)) (map f (filter (fun x => negb (p x)) l)) = map f l.
Proof.
  induction l as [|x l IH]; cbn [map filter weave]; [reflexivity|].
  destruct (p x); cbn [negb map weave]; rewrite IH; reflexivity.
Qed.

Lemma Forall2_filter {A B} (P : A -> B -> Prop) (p : A -> bool) (q : B -> bool) l l' :
  Forall2 P l l' -> (forall x y, P x y -> p x = q y) -> Forall2 P (filter p l) (filter q l').
Proof.
  intros H Hpq. induction H as [|x y l l' Hxy H IH]; cbn [filter]; [constructor|].
  rewrite (Hpq x y Hxy). destruct (q y); [constructor; assumption|assumption].
Qed.

Lemma Forall2_map_l {A B C} (P : B -> C -> Prop) (f : A -> B) l l' :
  Forall2 (fun x y => P (f x) y) l l' -> Forall2 P (map f l) l'.
Proof. intros H. induction H; cbn [map]; constructor; assumption. Qed.

Lemma Forall2_impl {A B} (P Q : A -> B -> Prop) l l' :
  (forall x y, P x y -> Q x y) -> Forall2 P l l' -> Forall2 Q l l'.
Proof. intros HPQ H. induction H; constructor; auto. Qed.

Lemma Forall2_map_eq {A B C} (f : A -> C) (g : B -> C) l l' :
  Forall2 (fun x y => f x = g y) l l' -> map f l = map g l'.
Proof. intros H. induction H; cbn [map]; [reflexivity|congruence]. Qed.

Lemma Forall2_len {A B} (P : A -> B -> Prop) l l' : Forall2 P l l' -> List.length l = List.length l'.
Proof. intros H. induction H; cbn [List.length]; congruence. Qed.

(** ** the post-processing as one equation *)
Lemma is_plain_rename ren s : is_plain (rename_state ren s) = is_plain s.
Proof. unfold rename_state, is_plain. cbn [st_init st_next]. destruct (st_init s), (st_next s); reflexivity. Qed.

Lemma final_is_post_process ren sy : demote (rename_sys ren sy) = post_process ren sy.
Proof.
  rewrite rename_sys_all. unfold demote, post_process. cbn [s_inputs s_states s_outputs s_bads s_constraints].
  rewrite (filter_map_comm (rename_state ren) is_plain is_plain) by apply is_plain_rename.
  rewrite (filter_map_comm (rename_state ren) (fun s => negb (is_plain s)) (fun s => negb (is_plain s)))
    by (intros x; f_equal; apply is_plain_rename).
  rewrite !map_map. reflexivity.
Qed.

Lemma parse_lines_v_inv v dbg ls fin :
  parse_lines_v v dbg ls = POk fin ->
  exists st, parse_fold_v v dbg ls p_empty false = POk (st, false) /\
             parse_raw_v v dbg ls = POk (sys_of_pstate st, renames_of st) /\
             fin = post_process (renames_of st) (sys_of_pstate st).
Proof.
  intros H. unfold parse_lines_v in H. apply pbind_ok in H. destruct H as ([sy ren] & Hr & H). inversion H; subst fin. clear H.
  pose proof Hr as Hr0. apply parse_raw_v_inv in Hr. destruct Hr as (st & Hf & -> & ->).
  exists st. split; [exact Hf|]. split; [exact Hr0|]. apply final_is_post_process.
Qed.

(** ** meaning under the renaming *)
Lemma veq_rename ren rho e v : veq (env_pull (rename_sym ren) rho) e v -> veq rho (rename ren e) v.
Proof.
  destruct (rename_eval ren rho e) as [Hb Ha]. destruct v as [w a|iw dw f]; cbn [veq]; rewrite type_of_rename.
  - intros [Ht Hv]. split; [exact Ht|]. rewrite Hb. exact Hv.
  - intros [Ht Hv]. split; [exact Ht|]. intros i. rewrite Ha. apply Hv.
Qed.

Lemma orel_rename ren rho o o' :
  orel (env_pull (rename_sym ren) rho) o o' -> orel rho (option_map (rename ren) o) o'.
Proof. destruct o, o'; cbn [orel option_map]; auto. apply veq_rename. Qed.

Lemma srel_rename ren rho s ss :
  srel (env_pull (rename_sym ren) rho) s ss -> srel rho (rename_state ren s) ss.
Proof.
  intros (Hs & Hi & Hn). unfold srel, rename_state. cbn [st_sym st_init st_next]. rewrite type_of_rename.
  split; [exact Hs|]. split; apply orel_rename; assumption.
Qed.

Lemma srel_plain rho s ss : srel rho s ss -> is_plain s = plain_ss ss.
Proof.
  intros (_ & Hi & Hn). unfold is_plain, plain_ss.
  destruct (st_init s), (ss_init ss); cbn [orel] in Hi; try contradiction;
    destruct (st_next s), (ss_next ss); cbn [orel] in Hn; try contradiction; reflexivity.
Qed.

Lemma agree_pull ren rho val ins sts :
  agree rho val (map (rename ren) ins) (map (rename ren) sts) ->
  agree (env_pull (rename_sym ren) rho) val ins sts.
Proof.
  intros [H1 H2]. split; intros k e Hk.
  - destruct (H1 k (rename ren e)) as [Hb Ha]; [rewrite nth_error_map, Hk; reflexivity|].
    destruct (rename_eval ren rho e) as [Eb Ea]. rewrite <- Eb. split; [exact Hb|]. intros i. rewrite <- Ea. apply Ha.
  - destruct (H2 k (rename ren e)) as [Hb Ha]; [rewrite nth_error_map, Hk; reflexivity|].
    destruct (rename_eval ren rho e) as [Eb Ea]. rewrite <- Eb. split; [exact Hb|]. intros i. rewrite <- Ea. apply Ha.
Qed.

(** the line symbols of the final system are the renamed symbols of the raw system *)
Lemma line_inputs_post ren sy :
  line_inputs (post_process ren sy) (List.length (s_inputs sy)) = map (rename ren) (s_inputs sy).
Proof.
  unfold line_inputs, post_process. cbn [s_inputs].
  rewrite <- (map_length (rename ren) (s_inputs sy)). apply firstn_length_app.
Qed.

Lemma demoted_syms_post ren sy :
  demoted_syms (post_process ren sy) (List.length (s_inputs sy)) =
  map (rename ren) (map st_sym (filter is_plain (s_states sy))).
Proof.
  unfold demoted_syms, post_process. cbn [s_inputs].
  rewrite <- (map_length (rename ren) (s_inputs sy)). apply skipn_length_app.
Qed.

Lemma line_states_post ren sy :
  line_states (post_process ren sy) (List.length (s_inputs sy)) (map is_plain (s_states sy)) =
  map (rename ren) (map st_sym (s_states sy)).
Proof.
  unfold line_states. rewrite demoted_syms_post. unfold post_process. cbn [s_states].
  rewrite !map_map.
  exact (weave_partition is_plain (fun x => rename ren (st_sym x)) (s_states sy)).
Qed.

(** from agreement of the raw system under the pulled-back environment to agreement of the final system *)
Lemma R_final ren rho st S :
  R (env_pull (rename_sym ren) rho) st S ->
  m_nin S = List.length (p_inputs st) /\
  map plain_ss (m_states S) = map is_plain (p_states st) /\
  final_agrees rho (post_process ren (sys_of_pstate st)) S.
Proof.
  intros HR. destruct HR as [_ _ _ Hnin Hst Hout Hbad Hcon].
  assert (Hpl : Forall2 (fun s ss => is_plain s = plain_ss ss) (p_states st) (m_states S)).
  { eapply Forall2_impl; [|exact Hst]. intros s ss. apply srel_plain. }
  split; [exact Hnin|]. split; [symmetry; apply Forall2_map_eq; exact Hpl|].
  assert (Hdem : Forall2 (fun e ss => ss_sort ss = type_of e)
                   (map (rename ren) (map st_sym (filter is_plain (p_states st)))) (filter plain_ss (m_states S))).
  { rewrite map_map. apply Forall2_map_l.
    assert (Hst2 : Forall2 (fun x ss => ss_sort ss = type_of (rename ren (st_sym x)) /\ is_plain x = plain_ss ss)
                     (p_states st) (m_states S)).
    { eapply Forall2_impl; [|exact Hst]. intros s ss Hs. split; [rewrite type_of_rename; apply Hs|eapply srel_plain; eauto]. }
    apply (Forall2_filter _ is_plain plain_ss) in Hst2; [|intros x y [_ H]; exact H].
    eapply Forall2_impl; [|exact Hst2]. cbn beta. intros x y [H _]. exact H. }
  unfold final_agrees. rewrite Hnin. change (List.length (p_inputs st)) with (List.length (s_inputs (sys_of_pstate st))).
  rewrite demoted_syms_post. cbn [post_process sys_of_pstate s_inputs s_states s_outputs s_bads s_constraints].
  split.
  { rewrite app_length, !map_length. f_equal.
    apply (Forall2_len _ _ _ (Forall2_filter _ is_plain plain_ss _ _ Hpl (fun x y H => H))). }
  split; [exact Hdem|]. split.
  { apply Forall2_map_l.
    apply (Forall2_filter _ (fun s => negb (is_plain s)) (fun ss => negb (plain_ss ss))) in Hst.
    - eapply Forall2_impl; [|exact Hst]. intros s ss. apply srel_rename.
    - intros x y H. f_equal. eapply srel_plain; eauto. }
  split.
  { apply Forall2_map_l. cbn [snd]. eapply Forall2_impl; [|exact Hout]. intros o v. apply veq_rename. }
  split; apply Forall2_map_l; (eapply Forall2_impl; [|eassumption]); intros e v; apply veq_rename.
Qed.

(** ** C08: the final system agrees with the reference interpreter *)
Lemma final_val_agrees rho fin nin pat : final_env_agrees rho (final_val rho fin nin pat) fin nin pat.
Proof.
  split; intros k e Hk; cbn [final_val in_bv in_arr st_bv st_arr]; rewrite (nth_error_nth _ _ _ Hk); auto.
Qed.

Section FinalSim.
  Variable v : code_variant.
  Hypothesis Hv : is_fix v = true.
  Variable rho : env.
  Hypothesis Hrho : env_wf rho.
  Variable val : b2val.

  (** the simulation for the whole text, with the raw system under the pulled-back environment *)
  Lemma final_sim ls st :
    parse_fold_v v true ls p_empty false = POk (st, false) ->
    final_env_agrees rho val (post_process (renames_of st) (sys_of_pstate st))
                     (List.length (p_inputs st)) (map is_plain (p_states st)) ->
    sconsistent3 v (sem_run val ls) (fun S => R (env_pull (rename_sym (renames_of st)) rho) st S).
  Proof.
    intros Hf Hag. set (ren := renames_of st) in *. set (rho0 := env_pull (rename_sym ren) rho).
    assert (Hrho0 : env_wf rho0) by (apply env_pull_wf; [apply rename_sym_keeping|exact Hrho]).
    assert (Hag0 : agree rho0 val (p_inputs st) (map st_sym (p_states st))).
    { apply agree_pull. unfold final_env_agrees in Hag.
      pose proof (line_inputs_post ren (sys_of_pstate st)) as E1. pose proof (line_states_post ren (sys_of_pstate st)) as E2.
      cbn [sys_of_pstate s_inputs s_states] in E1, E2. rewrite E1, E2 in Hag. exact Hag. }
    exact (fold_sim_fix rho0 Hrho0 val v Hv ls p_empty b2sem_empty st inv_empty (R_empty rho0) Hf Hag0).
  Qed.
End FinalSim.

Lemma reader_shape_inv v dbg ls st nin pat :
  parse_raw_v v dbg ls = POk (sys_of_pstate st, renames_of st) ->
  reader_shape v dbg ls = Some (nin, pat) ->
  nin = List.length (p_inputs st) /\ pat = map is_plain (p_states st).
Proof. unfold reader_shape. intros ->. intros H. inversion H. split; reflexivity. Qed.

Theorem final_system_sound v ls fin nin pat rho val S :
  is_fix v = true -> env_wf rho ->
  parse_lines_v v true ls = POk fin ->
  reader_shape v true ls = Some (nin, pat) ->
  final_env_agrees rho val fin nin pat ->
  sem_run val ls = B2Ok S ->
  m_nin S = nin /\ map plain_ss (m_states S) = pat /\ final_agrees rho fin S.
Proof.
  intros Hv Hrho Hp Hsh Hag Hs.
  apply parse_lines_v_inv in Hp. destruct Hp as (st & Hf & Hraw & ->).
  destruct (reader_shape_inv _ _ _ _ _ _ Hraw Hsh) as [-> ->].
  pose proof (final_sim v Hv rho Hrho val ls st Hf Hag) as Hsim. rewrite Hs in Hsim. cbn [sconsistent3] in Hsim.
  apply R_final. exact Hsim.
Qed.

(** a text the interpreter refuses (ill-sorted, zero-width sort, non-Boolean bad / constraint; [Fix2]: extension
    of an array) is never accepted - stated with the valuation read off the FINAL system *)
Theorem final_rejects_ill_formed v ls fin nin pat rho val e :
  is_fix v = true -> env_wf rho ->
  parse_lines_v v true ls = POk fin ->
  reader_shape v true ls = Some (nin, pat) ->
  final_env_agrees rho val fin nin pat ->
  sem_run val ls = B2Err e -> strict_err_v v e = false.
Proof.
  intros Hv Hrho Hp Hsh Hag Hs.
  apply parse_lines_v_inv in Hp. destruct Hp as (st & Hf & Hraw & ->).
  destruct (reader_shape_inv _ _ _ _ _ _ Hraw Hsh) as [-> ->].
  pose proof (final_sim v Hv rho Hrho val ls st Hf Hag) as Hsim. rewrite Hs in Hsim. exact Hsim.
Qed.

(** the same with the valuation induced by an environment of the final system *)
Theorem final_system_sound_induced v ls fin nin pat rho S :
  is_fix v = true -> env_wf rho ->
  parse_lines_v v true ls = POk fin ->
  reader_shape v true ls = Some (nin, pat) ->
  sem_run (final_val rho fin nin pat) ls = B2Ok S ->
  m_nin S = nin /\ map plain_ss (m_states S) = pat /\ final_agrees rho fin S.
Proof.
  intros Hv Hrho Hp Hsh Hs. apply (final_system_sound v ls fin nin pat rho (final_val rho fin nin pat) S); auto.
  apply final_val_agrees.
Qed.

(** release builds: on texts over the supported operators the repaired readers compute what the debug build computes *)
Lemma raw_release_is_debug v ls :
  is_fix v = true -> forallb supported_line ls = true -> parse_raw_v v false ls = parse_raw_v v true ls.
Proof. intros Hv Hs. unfold parse_raw_v. rewrite (fix_fold_release v Hv ls p_empty false J_empty Hs). reflexivity. Qed.

Lemma lines_release_is_debug v ls :
  is_fix v = true -> forallb supported_line ls = true -> parse_lines_v v false ls = parse_lines_v v true ls.
Proof. intros Hv Hs. unfold parse_lines_v. rewrite (raw_release_is_debug v ls Hv Hs). reflexivity. Qed.

Theorem final_system_sound_profiles v dbg ls fin nin pat rho val S :
  is_fix v = true -> forallb supported_line ls = true -> env_wf rho ->
  parse_lines_v v dbg ls = POk fin ->
  reader_shape v dbg ls = Some (nin, pat) ->
  final_env_agrees rho val fin nin pat ->
  sem_run val ls = B2Ok S ->
  m_nin S = nin /\ map plain_ss (m_states S) = pat /\ final_agrees rho fin S.
Proof.
  intros Hv Hsup Hrho Hp Hsh Hag Hs. destruct dbg; [apply (final_system_sound v ls fin nin pat rho val S); auto|].
  rewrite (lines_release_is_debug v ls Hv Hsup) in Hp. unfold reader_shape in Hsh.
  rewrite (raw_release_is_debug v ls Hv Hsup) in Hsh. apply (final_system_sound v ls fin nin pat rho val S); auto.
Qed.

(** ** the renaming: type preserving, injective on the declared symbols; final names pairwise different *)
Lemma map_sym_eq (ren : list (expr * string)) (g : state -> expr) (l : list state) :
  (forall s, In s l -> g s = rename_sym ren (st_sym s)) -> map g l = map (rename_sym ren) (map st_sym l).
Proof. intros H. rewrite map_map. apply map_ext_in. exact H. Qed.

Lemma declared_post_perm ps : NI ps ->
  Permutation (declared (post_process (renames_of ps) (sys_of_pstate ps))) (map (rename_sym (renames_of ps)) (decl ps)).
Proof.
  intros Hni. unfold declared, post_process. cbn [s_inputs s_states sys_of_pstate]. set (ren := renames_of ps).
  assert (Hin_eq : map (rename ren) (p_inputs ps) = map (rename_sym ren) (p_inputs ps)).
  { apply map_ext_in. intros x Hx. apply rename_of_symbol. apply (ni_sym _ Hni). apply in_or_app. left. exact Hx. }
  assert (Hsym : forall s, In s (p_states ps) -> is_symbol (st_sym s) = true).
  { intros s Hs. apply (ni_sym _ Hni). apply in_or_app. right. apply in_map. exact Hs. }
  rewrite Hin_eq. rewrite (map_map st_sym (rename ren)), (map_map (rename_state ren) st_sym).
  rewrite (map_sym_eq ren (fun x => rename ren (st_sym x)) (filter is_plain (p_states ps)))
    by (intros s Hs; apply rename_of_symbol, Hsym; apply filter_In in Hs; tauto).
  rewrite (map_sym_eq ren (fun x => st_sym (rename_state ren x)) (filter (fun s => negb (is_plain s)) (p_states ps)))
    by (intros s Hs; cbn [rename_state st_sym]; apply rename_of_symbol, Hsym; apply filter_In in Hs; tauto).
  rewrite <- app_assoc, <- !map_app. apply Permutation_map. unfold decl. apply Permutation_app_head.
  apply Permutation_map. apply filter_partition_perm.
Qed.

Lemma final_names_nodup ps : NI ps ->
  NoDup (map sym_name (declared (post_process (renames_of ps) (sys_of_pstate ps)))).
Proof.
  intros Hni. apply (Permutation_NoDup (Permutation_sym (Permutation_map sym_name (declared_post_perm ps Hni)))).
  rewrite map_map. apply NoDup_map_inj_on; [apply (ni_dd _ Hni)|].
  intros x y Hx Hy H.
  destruct (final_name ps x Hni Hx) as (n & Hn & Hsn & _). destruct (final_name ps y Hni Hy) as (n' & Hn' & Hsn' & _).
  assert (E : n = n') by congruence. rewrite <- E in Hn'. apply (nodup_snd _ _ _ _ (ni_nodup _ Hni) Hn Hn').
Qed.

Theorem final_renaming v dbg ls sy ren :
  parse_raw_v v dbg ls = POk (sy, ren) ->
  demote (rename_sys ren sy) = post_process ren sy /\
  (forall x, is_symbol x = true -> is_symbol (rename_sym ren x) = true /\ type_of (rename_sym ren x) = type_of x) /\
  (forall e, type_of (rename ren e) = type_of e /\ wt (rename ren e) = wt e /\ syms (rename ren e) = map (rename_sym ren) (syms e)) /\
  (forall x y, In x (declared sy) -> In y (declared sy) -> rename_sym ren x = rename_sym ren y -> x = y) /\
  NoDup (map sym_name (declared (demote (rename_sys ren sy)))).
Proof.
  intros Hr. split; [apply final_is_post_process|]. rewrite final_is_post_process.
  apply parse_raw_v_inv in Hr. destruct Hr as (ps & Hf & -> & ->).
  pose proof (NI_fold v dbg ls p_empty false ps false NI_empty Hf) as Hni.
  split; [intros x Hx; split; [apply rename_sym_is_symbol; exact Hx|apply rename_sym_type]|].
  split.
  { intros e. split; [apply type_of_rename|]. split; [apply wt_rename|].
    rewrite syms_rename. apply map_ext_in. intros x Hx. apply rename_of_symbol.
    clear - Hx. induction e; cbn [syms] in Hx; repeat (apply in_app_iff in Hx; destruct Hx as [Hx|Hx]); auto;
      try contradiction; try (destruct Hx as [<-|[]]; reflexivity). }
  split; [intros x y Hx Hy; apply (rename_sym_inj ps); assumption|].
  apply final_names_nodup. exact Hni.
Qed.

(** ** C18: the final system is well typed and closed; a demoted state is among the final inputs *)
Lemma sys_ok_all_wt sy e : sys_ok sy = true -> In e (all_exprs sy) -> wt e = true.
Proof.
  unfold sys_ok. rewrite !andb_true_iff, !forallb_forall. intros ((((Hi & Hs) & Ho) & Hb) & Hc) He.
  unfold all_exprs in He. repeat (apply in_app_iff in He; destruct He as [He|He]).
  - apply Hi in He. apply andb_true_iff in He. tauto.
  - apply in_map_iff in He. destruct He as (o & <- & Ho'). apply Ho. exact Ho'.
  - apply Hb in He. unfold bool_expr_ok in He. apply andb_true_iff in He. tauto.
  - apply Hc in He. unfold bool_expr_ok in He. apply andb_true_iff in He. tauto.
  - apply in_flat_map in He. destruct He as (s & Hs' & He). apply Hs in Hs'. unfold state_ok in Hs'.
    rewrite !andb_true_iff in Hs'. destruct Hs' as (((_ & Hw) & Hin) & Hnx).
    destruct He as [<-|He]; [exact Hw|]. apply in_app_iff in He. destruct He as [He|He].
    + destruct (st_init s); [|contradiction]. destruct He as [<-|[]]. apply andb_true_iff in Hin. tauto.
    + destruct (st_next s); [|contradiction]. destruct He as [<-|[]]. apply andb_true_iff in Hnx. tauto.
Qed.

Theorem final_accepted_well_typed v ls dbg fin :
  is_fix v = true -> forallb supported_line ls = true ->
  parse_lines_v v dbg ls = POk fin -> final_well_typed fin.
Proof.
  intros Hv Hsup Hp. destruct (accepted_ok_fix v Hv ls dbg fin Hsup Hp) as [Hok Hcl].
  pose proof Hok as Hok0. unfold sys_ok in Hok. rewrite !andb_true_iff, !forallb_forall in Hok.
  destruct Hok as ((((Hi & Hs) & Ho) & Hb) & Hc).
  apply parse_lines_v_inv in Hp. destruct Hp as (st & Hf & Hraw & Hfin).
  pose proof (NI_fold v dbg ls p_empty false st false NI_empty Hf) as Hni.
  unfold final_well_typed. split; [intros e He; eapply sys_ok_all_wt; eauto|].
  split; [intros i Hin; apply Hi in Hin; apply andb_true_iff in Hin; tauto|].
  split.
  { intros s Hs'. pose proof (Hs s Hs') as Hso. unfold state_ok in Hso. rewrite !andb_true_iff in Hso.
    destruct Hso as (((Hsy & _) & Hin) & Hnx). split; [exact Hsy|]. split.
    - rewrite Hfin in Hs'. unfold post_process in Hs'. cbn [s_states] in Hs'. apply in_map_iff in Hs'.
      destruct Hs' as (s0 & <- & Hs0). rewrite is_plain_rename. apply filter_In in Hs0. destruct Hs0 as [_ Hs0].
      destruct (is_plain s0); [discriminate|reflexivity].
    - split; intros e He; [rewrite He in Hin|rewrite He in Hnx]; apply andb_true_iff in Hin || apply andb_true_iff in Hnx.
      + apply ty_eqb_eq. tauto.
      + apply ty_eqb_eq. tauto. }
  split.
  { intros e He. apply in_app_iff in He. destruct He as [He|He]; [apply Hb in He|apply Hc in He];
      unfold bool_expr_ok in He; apply andb_true_iff in He; apply ty_eqb_eq; tauto. }
  split.
  { intros e He x Hx. apply in_app_iff. apply (Hcl e He x Hx). }
  rewrite Hfin. apply final_names_nodup. exact Hni.
Qed.

Lemma nodup_app_disjoint {A} (l0 l1 l2 : list A) x : NoDup (l0 ++ l1 ++ l2) -> In x l1 -> In x l2 -> False.
Proof.
  intros Hnd H1 H2. induction l0 as [|a l0 IH]; cbn [app] in Hnd.
  - induction l1 as [|a l1 IH]; [contradiction|]. cbn [app] in Hnd. inversion Hnd; subst. destruct H1 as [->|H1].
    + apply H3. apply in_or_app. right. exact H2.
    + apply IH; assumption.
  - inversion Hnd; subst. apply IH. assumption.
Qed.

(** where a demoted state ends up: every state of the raw system without init and next is, renamed, among
    the inputs of the final system; every other one, renamed, among its states *)
Theorem demoted_among_inputs v dbg ls sy ren s :
  parse_raw_v v dbg ls = POk (sy, ren) -> In s (s_states sy) ->
  let fin := demote (rename_sys ren sy) in
  (is_plain s = true -> In (rename ren (st_sym s)) (s_inputs fin) /\ ~ In (rename ren (st_sym s)) (map st_sym (s_states fin))) /\
  (is_plain s = false -> In (rename_state ren s) (s_states fin)).
Proof.
  intros Hr Hs fin. pose proof (final_renaming v dbg ls sy ren Hr) as (Hpp & _ & _ & _ & Hnd).
  unfold fin. rewrite Hpp in *. split.
  - intros Hpl.
    assert (Hin : In (rename ren (st_sym s)) (map (rename ren) (map st_sym (filter is_plain (s_states sy))))).
    { apply in_map, in_map. apply filter_In. split; assumption. }
    split; [unfold post_process; cbn [s_inputs]; apply in_or_app; right; exact Hin|].
    intros Hst. unfold declared in Hnd. unfold post_process in Hnd at 1. cbn [s_inputs] in Hnd.
    rewrite !map_app, <- app_assoc in Hnd.
    apply (nodup_app_disjoint _ _ _ _ Hnd (in_map sym_name _ _ Hin) (in_map sym_name _ _ Hst)).
  - intros Hpl. unfold post_process. cbn [s_states]. apply in_map. apply filter_In. split; [exact Hs|]. rewrite Hpl. reflexivity.
Qed.

(** ** statements on texts *)
Lemma text_final_well_typed v text dbg fin :
  is_fix v = true -> supported text = true -> parse_text_v v dbg text = POk fin -> final_well_typed fin.
Proof. intros Hv. unfold supported, parse_text_v, lines_of. apply final_accepted_well_typed. exact Hv. Qed.
