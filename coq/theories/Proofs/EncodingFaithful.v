(** * Proofs/EncodingFaithful.v — the script of the unrolling describes the system.

    Whenever the script [init_at j; unroll^n] (either variant) is accepted by the
    strict checker, evaluating it from ANY valuation that gives the declared
    constants (inputs, free states) the values they have in a run of the system
    gives every defined symbol [name@k] the value the signal has in step [k] of
    that run ([script_faithful_gen]). *)
From Coq Require Import List Bool Lia.
From Patronus Require Import EvalImpl Encoding SysExec ReachBmc ExprLemmas McBasics ScriptProofs EncodingBasics.
Import ListNotations.
Open Scope N_scope.

(** ** assumptions about the encoder state (established for [enc_new] in EncodingNew.v) *)
Record enc_basic (en : enc) : Prop := {
  eb_nodup : NoDup (map sg_expr (e_sigs en));
  eb_nostate : forall s, In s (e_sigs en) -> find_state en (sg_expr s) = None;
  eb_states_nodup : NoDup (map st_sym (s_states (e_sys en)));
  eb_states_ok : forall st, In st (s_states (e_sys en)) -> state_ok st = true;
  eb_wt_sig : forall s, In s (e_sigs en) -> wt (sg_expr s) = true;
  (** every symbol that occurs in a signal, an init or a next expression is a signal *)
  eb_closed : forall e,
      In e (map sg_expr (e_sigs en)) \/ In e (init_exprs (e_sys en)) \/ In e (next_exprs (e_sys en)) ->
      forall y k, In y (symbols_of e) -> sig_sym en y k <> None
}.

(** step symbols are injective: different signals / steps have different symbols;
    only a constant state has the same symbol at all steps *)
Definition sym_inj (en : enc) : Prop :=
  forall e k e' k' s, sig_sym en e k = Some s -> sig_sym en e' k' = Some s ->
    e = e' /\ (k = k' \/ exists st, find_state en e = Some st /\ st_is_const st = true).

(** ** symbols *)
Lemma symbol_mk_sym s : is_symbol s = true -> s = mk_sym (sym_name s) (type_of s).
Proof. destruct s; try discriminate; reflexivity. Qed.

Lemma find_some_in {A} (f : A -> bool) l x : find f l = Some x -> In x l /\ f x = true.
Proof. apply find_some. Qed.

Lemma find_state_in en e st : find_state en e = Some st -> In st (s_states (e_sys en)) /\ st_sym st = e.
Proof.
  unfold find_state. intros H. apply find_some in H. destruct H as [Hin He].
  apply expr_eqb_true in He. auto.
Qed.

Lemma find_sig_in en e s : find_sig en e = Some s -> In s (e_sigs en) /\ sg_expr s = e.
Proof.
  unfold find_sig. intros H. apply find_some in H. destruct H as [Hin He].
  apply expr_eqb_true in He. auto.
Qed.

Lemma find_nodup {A} (key : A -> expr) (l : list A) x :
  NoDup (map key l) -> In x l -> find (fun y => expr_eqb (key y) (key x)) l = Some x.
Proof.
  induction l as [|a r IH]; intros Hnd Hin; [destruct Hin|].
  cbn [find map] in *. inversion Hnd as [|? ? Hna Hr]; subst.
  destruct Hin as [->|Hin]; [now rewrite expr_eqb_refl|].
  destruct (expr_eqb_spec (key a) (key x)) as [E|_]; [|now apply IH].
  exfalso. apply Hna. rewrite E. now apply in_map.
Qed.

Section WithEnc.
  Variable en : enc.
  Hypothesis Hb : enc_basic en.
  Let sy := e_sys en.

  Lemma find_state_of st : In st (s_states sy) -> find_state en (st_sym st) = Some st.
  Proof. intros Hin. unfold find_state. apply (find_nodup st_sym); [apply Hb|assumption]. Qed.

  Lemma find_sig_of s : In s (e_sigs en) -> find_sig en (sg_expr s) = Some s.
  Proof. intros Hin. unfold find_sig. apply (find_nodup sg_expr); [apply Hb|assumption]. Qed.

  Lemma sig_sym_state st k : In st (s_states sy) ->
    sig_sym en (st_sym st) k = Some (mk_sym (state_name_at st k) (type_of (st_sym st))).
  Proof. intros Hin. unfold sig_sym. now rewrite find_state_of. Qed.

  Lemma sig_sym_sig s k : In s (e_sigs en) ->
    sig_sym en (sg_expr s) k = Some (mk_sym (name_at (sg_name s) k) (type_of (sg_expr s))).
  Proof. intros Hin. unfold sig_sym. rewrite (eb_nostate en Hb s Hin). now rewrite find_sig_of. Qed.

  Lemma sig_sym_type e k s : sig_sym en e k = Some s -> type_of s = type_of e /\ is_symbol s = true.
  Proof.
    unfold sig_sym. destruct (find_state en e); [|destruct (find_sig en e); [|discriminate]];
      intros H; inversion H; split; (apply mk_sym_type || apply mk_sym_is_symbol).
  Qed.

  (** the expressions that have step symbols *)
  Definition signal_exprs : list expr := map sg_expr (e_sigs en) ++ map st_sym (s_states sy).

  Lemma sig_sym_signal e k s : sig_sym en e k = Some s -> In e signal_exprs.
  Proof.
    unfold sig_sym, signal_exprs. rewrite in_app_iff.
    destruct (find_state en e) as [st|] eqn:Es.
    - intros _. apply find_state_in in Es. destruct Es as [Hin <-]. right. now apply in_map.
    - destruct (find_sig en e) as [sg|] eqn:Eg; [|discriminate].
      intros _. apply find_sig_in in Eg. destruct Eg as [Hin <-]. left. now apply in_map.
  Qed.

  Lemma signal_wt e : In e signal_exprs -> wt e = true.
  Proof.
    unfold signal_exprs. rewrite in_app_iff, !in_map_iff. intros [(s & <- & Hin)|(st & <- & Hin)].
    - now apply (eb_wt_sig en Hb).
    - pose proof (eb_states_ok en Hb st Hin) as H. unfold state_ok in H.
      repeat match goal with Hx : _ && _ = true |- _ => apply andb_true_iff in Hx; destruct Hx end. assumption.
  Qed.

  Lemma state_sym_is_symbol st : In st (s_states sy) -> is_symbol (st_sym st) = true.
  Proof.
    intros Hin. pose proof (eb_states_ok en Hb st Hin) as H. unfold state_ok in H.
    repeat match goal with Hx : _ && _ = true |- _ => apply andb_true_iff in Hx; destruct Hx end. assumption.
  Qed.

  Lemma state_init_ok st e : In st (s_states sy) -> st_init st = Some e ->
    wt e = true /\ type_of e = type_of (st_sym st).
  Proof.
    intros Hin He. pose proof (eb_states_ok en Hb st Hin) as H. unfold state_ok in H. rewrite He in H.
    repeat match goal with Hx : _ && _ = true |- _ => apply andb_true_iff in Hx; destruct Hx end.
    match goal with Ht : ty_eqb _ _ = true |- _ => apply ty_eqb_eq in Ht end. auto.
  Qed.

  Lemma state_next_ok st e : In st (s_states sy) -> st_next st = Some e ->
    wt e = true /\ type_of e = type_of (st_sym st).
  Proof.
    intros Hin He. pose proof (eb_states_ok en Hb st Hin) as H. unfold state_ok in H. rewrite He in H.
    repeat match goal with Hx : _ && _ = true |- _ => apply andb_true_iff in Hx; destruct Hx end.
    match goal with Ht : ty_eqb (type_of e) _ = true |- _ => apply ty_eqb_eq in Ht end. auto.
  Qed.

  (** ** runs *)
  Lemma fold_assign_preserve (rho : env) (x : expr) : forall (l : list state) (acc : env),
    is_symbol x = true -> ~ In x (map st_sym l) ->
    (forall st, In st l -> is_symbol (st_sym st) = true) ->
    agree_on x (fold_left (fun acc st => match st_next st with
                                         | Some e => assign acc (st_sym st) rho e
                                         | None => acc end) l acc) acc.
  Proof.
    induction l as [|st r IH]; intros acc Hx Hnin Hsym; [apply agree_on_refl|].
    cbn [fold_left]. eapply agree_on_trans.
    - apply IH; [assumption| |intros; apply Hsym; now right].
      intros Hin. apply Hnin. now right.
    - destruct (st_next st); [|apply agree_on_refl].
      apply assign_other; [apply Hsym; now left|]. intros ->. apply Hnin. now left.
  Qed.

  Lemma agree_on_same_val x a b : is_symbol x = true -> agree_on x a b -> same_val a x b x.
  Proof. destruct x; try discriminate; cbn [agree_on]; intros _ H; split; cbn [ebv earr]; auto. Qed.

  Lemma next_env_state rho f st e :
    In st (s_states sy) -> st_next st = Some e -> same_val (next_env sy rho f) (st_sym st) rho e.
  Proof.
    intros Hin He. unfold next_env.
    pose proof (eb_states_nodup en Hb) as Hnd. fold sy in Hnd.
    assert (Hsym : forall st, In st (s_states sy) -> is_symbol (st_sym st) = true) by (apply state_sym_is_symbol).
    destruct (state_next_ok st e Hin He) as [Hwt Hty].
    revert f Hnd Hsym Hin. generalize (s_states sy) as l.
    induction l as [|st0 r IH]; intros f Hnd Hsym Hin; [destruct Hin|].
    cbn [fold_left map] in *. inversion Hnd as [|? ? Hna Hr]; subst.
    destruct Hin as [->|Hin].
    - rewrite He. eapply same_val_trans.
      + apply agree_on_same_val; [apply Hsym; now left|].
        apply fold_assign_preserve; [apply Hsym; now left|assumption|intros; apply Hsym; now right].
      + rewrite (symbol_mk_sym (st_sym st)) by (apply Hsym; now left). rewrite <- Hty.
        now apply assign_mk_sym_same.
    - apply IH; [assumption|intros; apply Hsym; now right|assumption].
  Qed.

  Lemma run_from_length rho : forall frees, length (run_from sy rho frees) = S (length frees).
  Proof. intros frees. revert rho. induction frees as [|f r IH]; intros rho; cbn [run_from length]; [reflexivity|]. now rewrite IH. Qed.

  Lemma run_from_step : forall frees rho i d, (i < length frees)%nat ->
    nth (S i) (run_from sy rho frees) d = next_env sy (nth i (run_from sy rho frees) d) (nth i frees d).
  Proof.
    induction frees as [|f r IH]; intros rho i d Hi; [cbn in Hi; lia|].
    cbn [run_from]. destruct i as [|i].
    - cbn [nth]. destruct r; reflexivity.
    - cbn [nth length] in *. apply IH. lia.
  Qed.

  (** ** the intended valuation *)
  Variables (j : N) (n : nat) (trace : list env).

  Definition at_step (k : N) : env := nth (N.to_nat (k - j)) trace env0.

  Definition steps : list N := map (fun i => j + N.of_nat i) (seq 0 (S n)).

  Lemma in_steps k : In k steps <-> j <= k <= j + N.of_nat n.
  Proof.
    unfold steps. rewrite in_map_iff. split.
    - intros (i & <- & Hi). apply in_seq in Hi. lia.
    - intros H. exists (N.to_nat (k - j)). split; [lia|]. apply in_seq. lia.
  Qed.

  Definition pairs : list (expr * N) := list_prod signal_exprs steps.

  Definition tau_of (ps : list (expr * N)) : env :=
    fold_right (fun p acc => match sig_sym en (fst p) (snd p) with
                             | Some s => assign acc s (at_step (snd p)) (fst p)
                             | None => acc
                             end) env0 ps.

  Definition tau : env := tau_of pairs.

  (** the values of a signal at two steps with the same symbol agree *)
  Hypothesis Hcoh : forall e k e' k' s, In (e, k) pairs -> In (e', k') pairs ->
    sig_sym en e k = Some s -> sig_sym en e' k' = Some s -> same_val (at_step k') e' (at_step k) e.

  Lemma tau_of_spec : forall ps e k s,
    (forall p, In p ps -> In p pairs) -> In (e, k) ps -> sig_sym en e k = Some s ->
    same_val (tau_of ps) s (at_step k) e.
  Proof.
    induction ps as [|[e0 k0] r IH]; intros e k s Hsub Hin Hs; [destruct Hin|].
    cbn [tau_of fold_right fst snd]. fold (tau_of r).
    destruct (sig_sym en e0 k0) as [s0|] eqn:E0.
    - destruct (expr_eqb_spec s s0) as [->|Hne].
      + eapply same_val_trans; [|apply (Hcoh e k e0 k0 s0); try assumption; apply Hsub; [assumption|now left]].
        destruct (sig_sym_type _ _ _ E0) as [Ht Hsym].
        rewrite (symbol_mk_sym s0 Hsym), Ht.
        apply assign_mk_sym_same. apply signal_wt. eapply sig_sym_signal; eassumption.
      + destruct Hin as [Heq|Hin]; [inversion Heq; subst; congruence|].
        eapply same_val_trans; [|apply (IH e k s); [intros; apply Hsub; now right|assumption|assumption]].
        apply same_val_mk_sym_other; [apply (sig_sym_type _ _ _ E0)|apply (sig_sym_type _ _ _ Hs)|assumption].
    - destruct Hin as [Heq|Hin]; [inversion Heq; subst; congruence|].
      apply IH; [intros; apply Hsub; now right|assumption|assumption].
  Qed.

  Lemma tau_spec e k s : In k steps -> sig_sym en e k = Some s -> same_val tau s (at_step k) e.
  Proof.
    intros Hk Hs. apply tau_of_spec; [auto| |assumption].
    apply in_prod; [eapply sig_sym_signal; eassumption|assumption].
  Qed.

  (** ** [tau] satisfies the definitions *)
  Lemma expr_in_step_val e k :
    In k steps -> wt e = true ->
    (forall y k, In y (symbols_of e) -> sig_sym en y k <> None) ->
    same_val tau (expr_in_step en e k) (at_step k) e.
  Proof.
    intros Hk Hwt Hcl. unfold expr_in_step.
    apply (subst_val (fun x => sig_sym en x k) tau (at_step k)).
    - intros x s Hs. split; [now apply tau_spec|apply (sig_sym_type _ _ _ Hs)].
    - intros y Hy. now apply Hcl.
    - intros H. now apply negb_true_iff in H.
  Qed.

  (** the shape of the commands of the script *)
  Lemma in_define_signals c k f :
    In c (define_signals en k f) ->
    exists s, In s (e_sigs en) /\ f s = true /\
      c = (if is_symbol (sg_expr s)
           then DeclareConst (name_at (sg_name s) k) (type_of (sg_expr s))
           else DefineFun (name_at (sg_name s) k) (type_of (sg_expr s)) (expr_in_step en (sg_expr s) k)).
  Proof.
    unfold define_signals. rewrite in_flat_map. intros (s & Hin & Hc).
    destruct (f s) eqn:Ef; [|destruct Hc]. destruct Hc as [<-|[]]. eauto.
  Qed.

  Lemma in_unrolls v c : forall m p, In c (unrolls v en j p m) ->
    exists q, p <= q < p + N.of_nat m /\ In c (unroll v en j q).
  Proof.
    induction m as [|m IH]; intros p Hin; [destruct Hin|].
    cbn [unrolls] in Hin. rewrite in_app_iff in Hin. destruct Hin as [Hin|Hin].
    - exists p. split; [lia|assumption].
    - destruct (IH _ Hin) as (q & Hq & Hc). exists q. split; [lia|assumption].
  Qed.

  Inductive cmd_origin (c : cmd) : Prop :=
  | OSig (s : sig) (k : N) :
      In s (e_sigs en) -> In k steps ->
      c = (if is_symbol (sg_expr s)
           then DeclareConst (name_at (sg_name s) k) (type_of (sg_expr s))
           else DefineFun (name_at (sg_name s) k) (type_of (sg_expr s)) (expr_in_step en (sg_expr s) k)) ->
      cmd_origin c
  | OStateDecl (st : state) (k : N) :
      In st (s_states sy) -> In k steps ->
      c = DeclareConst (state_name_at st k) (type_of (st_sym st)) ->
      (k = j \/ (st_next st = None /\ j < k)) ->
      (k = j -> j = 0 -> st_init st = None) ->
      cmd_origin c
  | OStateInit (st : state) (e : expr) :
      In st (s_states sy) -> j = 0 -> st_init st = Some e ->
      c = DefineFun (state_name_at st 0) (type_of (st_sym st)) (expr_in_step en e 0) ->
      cmd_origin c
  | OStateNext (st : state) (e : expr) (p : N) :
      In st (s_states sy) -> In p steps -> In (p + 1) steps -> st_next st = Some e -> st_is_const st = false ->
      c = DefineFun (state_name_at st (p + 1)) (type_of (st_sym st)) (expr_in_step en e p) ->
      cmd_origin c.

  Lemma script_origin v c : In c (script v en j n) -> cmd_origin c.
  Proof.
    unfold script. rewrite in_app_iff. intros [Hin|Hin].
    - unfold init_at in Hin. rewrite !in_app_iff in Hin. destruct Hin as [Hin|[Hin|Hin]].
      + destruct (j =? 0) eqn:Ej; [|destruct Hin]. apply N.eqb_eq in Ej.
        apply in_define_signals in Hin. destruct Hin as (s & Hs & _ & Hc).
        apply (OSig c s 0); [assumption|apply in_steps; lia|assumption].
      + apply in_map_iff in Hin. destruct Hin as (st & Hc & Hst).
        destruct (j =? 0) eqn:Ej.
        * apply N.eqb_eq in Ej. destruct (st_init st) as [e|] eqn:Ei.
          -- apply (OStateInit c st e); try assumption. now rewrite Ej in Hc.
          -- apply (OStateDecl c st j); try assumption; [apply in_steps; lia|now symmetry|now left|auto].
        * apply N.eqb_neq in Ej.
          apply (OStateDecl c st j); try assumption; [apply in_steps; lia| |now left|intros; lia].
          destruct (st_init st); now symmetry.
      + assert (exists f, In c (define_signals en j f)) as [f Hf]
            by (destruct (j =? 0); eauto).
        apply in_define_signals in Hf. destruct Hf as (s & Hs & _ & Hc).
        apply (OSig c s j); [assumption|apply in_steps; lia|assumption].
    - apply in_unrolls in Hin. destruct Hin as (q & Hq & Hin).
      unfold unroll in Hin. rewrite !in_app_iff in Hin. destruct Hin as [Hin|[Hin|Hin]].
      + apply in_define_signals in Hin. destruct Hin as (s & Hs & _ & Hc).
        apply (OSig c s q); [assumption|apply in_steps; lia|assumption].
      + apply in_flat_map in Hin. destruct Hin as (st & Hst & Hc).
        destruct (st_next st) as [e|] eqn:En.
        * destruct (st_is_const st) eqn:Ec; [destruct Hc|]. destruct Hc as [<-|[]].
          apply (OStateNext _ st e q); try assumption; try (apply in_steps; lia).
          unfold state_name_at. now rewrite Ec.
        * destruct Hc as [<-|[]].
          apply (OStateDecl _ st (q + 1)); try assumption; [apply in_steps; lia| |right; split; [assumption|lia]|intros; lia].
          unfold state_name_at, st_is_const. now rewrite En.
      + apply in_define_signals in Hin. destruct Hin as (s & Hs & _ & Hc).
        apply (OSig c s (q + 1)); [assumption|apply in_steps; lia|assumption].
  Qed.

  (** the run *)
  Variables (rho0 : env) (frees : list env).
  Hypothesis Htrace : trace = run_from sy rho0 frees.
  Hypothesis Hfrees : length frees = n.
  Hypothesis Hinit : j = 0 -> is_initial sy rho0.

  Lemma at_step_next p : In p steps -> In (p + 1) steps ->
    exists f, at_step (p + 1) = next_env sy (at_step p) f.
  Proof.
    intros Hp Hp1. apply in_steps in Hp, Hp1. unfold at_step.
    replace (N.to_nat (p + 1 - j)) with (S (N.to_nat (p - j))) by lia.
    rewrite Htrace. eexists. apply run_from_step. lia.
  Qed.

  Lemma at_step_entry : at_step j = rho0.
  Proof. unfold at_step. rewrite N.sub_diag, Htrace. destruct frees; reflexivity. Qed.

  Lemma tau_satisfies_sc (sc : list cmd) : (forall c, In c sc -> cmd_origin c) -> satisfies tau sc.
  Proof.
    intros Horig nm t b Hin. apply Horig in Hin.
    destruct Hin as [s k Hs Hk Hc|st k Hst Hk Hc|st e Hst Hj He Hc|st e p Hst Hp Hp1 He Hconst Hc].
    - destruct (is_symbol (sg_expr s)) eqn:Esym; [discriminate|]. inversion Hc; subst.
      eapply same_val_trans; [apply (tau_spec (sg_expr s) k); [assumption|now apply sig_sym_sig]|].
      apply same_val_sym. apply expr_in_step_val; [assumption|now apply (eb_wt_sig en Hb)|].
      apply (eb_closed en Hb). left. now apply in_map.
    - discriminate.
    - inversion Hc; subst. destruct (state_init_ok st e Hst He) as [Hwt Hty].
      assert (H0 : In 0 steps) by (apply in_steps; lia).
      eapply same_val_trans; [apply (tau_spec (st_sym st) 0); [assumption|now apply sig_sym_state]|].
      eapply same_val_trans; [|apply same_val_sym; apply expr_in_step_val; [assumption|assumption|]].
      + (* initial valuation *)
        pose proof at_step_entry as Hat. rewrite Hj in Hat. rewrite Hat.
        specialize (Hinit Hj st e Hst He).
        pose proof (state_sym_is_symbol st Hst) as Hsym.
        destruct (st_sym st) eqn:Es; try discriminate Hsym; cbn [sym_agrees] in Hinit; cbn [type_of] in Hty; split; cbn [ebv earr].
        * assumption.
        * intros i. symmetry. eapply wt_bv_no_arr; eassumption.
        * symmetry. eapply wt_arr_no_bv; eassumption.
        * assumption.
      + apply (eb_closed en Hb). right; left. unfold init_exprs. apply in_flat_map. exists st. split; [assumption|].
        rewrite He. now left.
    - inversion Hc; subst. destruct (state_next_ok st e Hst He) as [Hwt Hty].
      eapply same_val_trans; [apply (tau_spec (st_sym st) (p + 1)); [assumption|now apply sig_sym_state]|].
      eapply same_val_trans; [|apply same_val_sym; apply expr_in_step_val; [assumption|assumption|]].
      + destruct (at_step_next p Hp Hp1) as [f ->]. now apply next_env_state.
      + apply (eb_closed en Hb). right; right. unfold next_exprs. apply in_flat_map. exists st. split; [assumption|].
        rewrite He. now left.
  Qed.

  (** ** the theorem *)
  Lemma tau_satisfies v : satisfies tau (script v en j n).
  Proof. apply tau_satisfies_sc. intros c. apply script_origin. Qed.

  (** for any list of commands of the shapes the unrolling emits, in any accepted order *)
  Theorem script_faithful_sc (sc : list cmd) sigma0 :
    (forall c, In c sc -> cmd_origin c) ->
    script_check [] sc = true ->
    (forall nm t, In (DeclareConst nm t) sc -> agree_on (mk_sym nm t) sigma0 tau) ->
    forall e k s c,
      In k steps -> sig_sym en e k = Some s ->
      In c sc -> mk_sym (cmd_name c) (cmd_ty c) = s ->
      same_val (script_eval sigma0 sc) s (at_step k) e.
  Proof.
    intros Horig Hck Hdecl e k s c Hk Hs Hc Hsym.
    eapply same_val_trans; [|apply tau_spec; eassumption].
    apply agree_on_same_val; [apply (sig_sym_type _ _ _ Hs)|].
    rewrite <- Hsym. apply eval_script_sound_cmd; try assumption. now apply tau_satisfies_sc.
  Qed.

  Theorem script_faithful_gen v sigma0 :
    script_check [] (script v en j n) = true ->
    (forall nm t, In (DeclareConst nm t) (script v en j n) -> agree_on (mk_sym nm t) sigma0 tau) ->
    forall e k s c,
      In k steps -> sig_sym en e k = Some s ->
      In c (script v en j n) -> mk_sym (cmd_name c) (cmd_ty c) = s ->
      same_val (script_eval sigma0 (script v en j n)) s (at_step k) e.
  Proof. apply script_faithful_sc. intros c. apply script_origin. Qed.
End WithEnc.
