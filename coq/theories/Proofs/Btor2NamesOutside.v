(** * Proofs/Btor2NamesOutside.v — from conditions on the NAMES of a system to the writer's rule
    [in_named] (property C09, names of inputs).

    [Btor2NamesSurvive.names_survive_inputs] is stated with [in_named]: "the writer prints the name of the
    input on its declaration", which mentions the label list [compute_labels].  Here the labels are
    analysed: every label is a base or [base_k] ([all_labels_in]) where the base is an output name, a
    default, the name of a symbol that a bad/constraint refers to directly, or a debug name of [nm]
    ([label_base_cases]).  Hence an explicit input name that is no output name ([kc_input_output] = false),
    differs from the state names and debug names and is not of the form [b_k] for such a name [b]
    ([names_apart]) is not a label - for a writer that does not name labels after inputs
    ([w_input_labels], /repo 196ebd7) - and the input keeps its symbol: [names_survive_inputs_outside_known]. *)
From Coq Require Import List Lia Bool String Ascii NArith FMapPositive.
From Patronus Require Import Expr ExprLemmas ExprEqb Eval SysClosed Btor2Parse Btor2Ser Btor2SerNames Btor2ExprFacts Btor2ParseProofs
     Btor2SerProofs Btor2RoundTripSpec Btor2RtExpr Btor2RtLines Btor2RtSim Btor2RtSys Btor2Names Btor2RtNamed Btor2NamesSurvive.
Import ListNotations.
Open Scope string_scope.
Open Scope list_scope.
Open Scope N_scope.

(** ** [x] is [b_k]: the shape of the names [unique_name] makes from a base that is in use *)
Definition suffix_form (b x : string) : bool :=
  match drop_prefix b x with
  | Some (String c r) => Ascii.eqb c "_" && negb (String.eqb r EmptyString) && all_dec_digits r
  | _ => false
  end.

Lemma drop_prefix_app b x : drop_prefix b (String.append b x) = Some x.
Proof. induction b as [|a b IH]; cbn [drop_prefix String.append]; [destruct x; reflexivity|]. rewrite Ascii.eqb_refl. exact IH. Qed.

Lemma cand_suffix b k : suffix_form b (cand b k) = true.
Proof.
  unfold suffix_form, cand. rewrite drop_prefix_app. cbn [String.append].
  assert (E : String.eqb (dec_string k) "" = false).
  { pose proof (num_not_empty k) as H. change (num k) with (dec_string k) in H. destruct (dec_string k); [contradiction|reflexivity]. }
  rewrite E. assert (D : all_dec_digits (dec_string k) = true) by (apply (digits_all _ 0 k); apply digits_num).
  rewrite D. reflexivity.
Qed.

Lemma unique_name_cases b u : unique_name b u = b \/ exists k, unique_name b u = cand b k.
Proof.
  unfold unique_name. destruct (uniq_loop_spec (S (List.length u)) b u 0 b) as [H _]. cbv zeta in H.
  destruct H as [H|H]; [left; symmetry; exact H|right]. apply cands_in in H. destruct H as (k & _ & H). exists k. exact H.
Qed.

Definition from_bases (bs : list string) (x : string) : Prop :=
  exists b, In b bs /\ (x = b \/ exists k, x = cand b k).

Lemma uniq_all_in : forall bs u x, In x (fst (uniq_all bs u)) -> from_bases bs x.
Proof.
  induction bs as [|b bs IH]; intros u x; cbn [uniq_all]; [intros []|].
  specialize (IH (unique_name b u :: u)). destruct (uniq_all bs (unique_name b u :: u)) as [ns u'].
  cbn [fst In]. intros [<-|H].
  - exists b. split; [left; reflexivity|]. destruct (unique_name_cases b u) as [->|(k & ->)]; [left; reflexivity|right; exists k; reflexivity].
  - destruct (IH x H) as (b0 & Hb & Hx). exists b0. split; [right; exact Hb|exact Hx].
Qed.

Definition all_bases (wv : writer_variant) (nm : names_map) (sy : sys) : list string :=
  map fst (s_outputs sy) ++ label_bases wv sy nm "_constraint" (s_constraints sy) (s_bads sy)
  ++ label_bases wv sy nm "_bad" (s_bads sy) [].

Lemma from_bases_incl bs bs' x : incl bs bs' -> from_bases bs x -> from_bases bs' x.
Proof. intros Hi (b & Hb & Hx). exists b. split; [apply Hi; exact Hb|exact Hx]. Qed.

Lemma all_labels_in wv nm sy x : In x (all_labels (compute_labels wv nm sy)) -> from_bases (all_bases wv nm sy) x.
Proof.
  unfold compute_labels, all_bases.
  pose proof (uniq_all_in (map fst (s_outputs sy)) reserved_names) as H1.
  destruct (uniq_all (map fst (s_outputs sy)) reserved_names) as [o u1].
  pose proof (uniq_all_in (label_bases wv sy nm "_constraint" (s_constraints sy) (s_bads sy)) u1) as H2.
  destruct (uniq_all (label_bases wv sy nm "_constraint" (s_constraints sy) (s_bads sy)) u1) as [c u2].
  pose proof (uniq_all_in (label_bases wv sy nm "_bad" (s_bads sy) []) u2) as H3.
  destruct (uniq_all (label_bases wv sy nm "_bad" (s_bads sy) []) u2) as [b u3].
  unfold all_labels. cbn [fst l_outputs l_constraints l_bads] in *. intros H.
  apply in_app_or in H. destruct H as [H|H].
  - eapply from_bases_incl; [|apply H1; exact H]. apply incl_appl. apply incl_refl.
  - apply in_app_or in H. destruct H as [H|H].
    + eapply from_bases_incl; [|apply H2; exact H]. apply incl_appr. apply incl_appl. apply incl_refl.
    + eapply from_bases_incl; [|apply H3; exact H]. apply incl_appr. apply incl_appr. apply incl_refl.
Qed.

Lemma label_bases_in wv sy nm d : forall l after b, In b (label_bases wv sy nm d l after) ->
  b = d \/ exists e, In e l /\ b = label_base wv sy nm e d.
Proof.
  induction l as [|e l IH]; intros after b; cbn [label_bases]; [intros []|]. intros [H|H].
  - destruct (w_last_label wv && existsb (expr_eqb e) (l ++ after)); [left; symmetry; exact H|].
    right. exists e. split; [left; reflexivity|symmetry; exact H].
  - destruct (IH _ _ H) as [->|(e0 & He0 & ->)]; [left; reflexivity|right; exists e0; split; [right; exact He0|reflexivity]].
Qed.

Lemma lookup_nm_in e nm n : lookup_nm e nm = Some n -> In n (map snd nm).
Proof.
  induction nm as [|[e' n'] nm IH]; cbn [lookup_nm map snd]; [discriminate|].
  destruct (expr_eqb e e'); [intros H; inversion H; left; reflexivity|intros H; right; auto].
Qed.

(** the base of a bad/constraint label: the default, the name of the symbol it refers to (not an input when
    the writer has [w_input_labels]), or a debug name *)
Lemma label_base_cases wv sy nm e d :
  label_base wv sy nm e d = d \/
  (exists n, symbol_name e = Some n /\ label_base wv sy nm e d = n /\
             (w_input_labels wv && existsb (expr_eqb e) (s_inputs sy)) = false) \/
  (symbol_name e = None /\ In (label_base wv sy nm e d) (map snd nm)).
Proof.
  unfold label_base.
  destruct (w_input_labels wv && existsb (expr_eqb e) (s_inputs sy)) eqn:E1; cbn [orb]; [left; reflexivity|].
  destruct (w_symbol_labels wv && match symbol_name e with Some _ => true | None => false end); [left; reflexivity|].
  destruct (symbol_name e) as [n|] eqn:Es.
  - destruct (is_autogen_name n); [left; reflexivity|]. right. left. exists n. auto.
  - destruct (lookup_nm e nm) as [n|] eqn:El; [|left; reflexivity].
    destruct (is_autogen_name n); [left; reflexivity|]. right. right. split; [reflexivity|]. eapply lookup_nm_in; eauto.
Qed.

Lemma raw_name_symbol e n : symbol_name e = Some n -> raw_name e = n /\ is_symbol e = true.
Proof. destruct e; cbn [symbol_name]; intros H; inversion H; split; reflexivity. Qed.

(** ** explicit names that are apart from the names that can become labels *)
Definition explicit (r : string) : bool := negb (String.eqb r EmptyString) && negb (is_autogen_name r).

Definition state_names (sy : sys) : list string := map (fun s => raw_name (st_sym s)) (s_states sy).

(** [r] is none of the state names and debug names, and is not [b_k] for an output, state or debug name [b] *)
Definition apart (sy : sys) (nm : names_map) (r : string) : Prop :=
  ~ In r (state_names sy ++ map snd nm) /\
  forall b, In b (map fst (s_outputs sy) ++ state_names sy ++ map snd nm) -> suffix_form b r = false.

Lemma default_base_not r d : In d reserved_names -> explicit r = true -> ~ (r = d \/ exists k, r = cand d k).
Proof.
  intros Hd He. unfold explicit in He. apply andb_true_iff in He. destruct He as [_ He]. apply negb_true_iff in He.
  intros [->|(k & ->)]; [rewrite (reserved_autogen d Hd) in He|rewrite (cand_autogen d k Hd) in He]; discriminate.
Qed.

Lemma in_named_outside wv sy nm i :
  In i (s_inputs sy) -> explicit (raw_name i) = true ->
  ~ In (raw_name i) (map fst (s_outputs sy)) -> apart sy nm (raw_name i) ->
  w_input_labels wv = true ->
  (forall e, In e (s_constraints sy ++ s_bads sy) -> is_symbol e = true -> In e (declared sy)) ->
  in_named (label_ctx wv sy nm) i = true.
Proof.
  intros Hi He Hout [Hne Hsuf] Hwl Hdecl. set (r := raw_name i) in *.
  pose proof He as He'. unfold explicit in He'. apply andb_true_iff in He'. destruct He' as [E1 E2].
  apply negb_true_iff in E1, E2.
  unfold in_named. fold r. rewrite E1, E2. cbn [orb].
  destruct (str_mem r (n_labels (label_ctx wv sy nm))) eqn:Em; [|reflexivity]. exfalso.
  apply str_mem_In in Em. cbn [label_ctx n_labels] in Em. apply all_labels_in in Em.
  destruct Em as (b & Hb & Hx).
  assert (Hcl : forall b0, (r = b0 \/ exists k, r = cand b0 k) ->
                 In b0 (map fst (s_outputs sy) ++ state_names sy ++ map snd nm) ->
                 In r (map fst (s_outputs sy) ++ state_names sy ++ map snd nm) /\ r = b0 \/ suffix_form b0 r = true).
  { intros b0 [->|(k & ->)] Hin; [left; auto|right; apply cand_suffix]. }
  (* a base that is an output name, a state name or a debug name *)
  assert (Hpool : In b (map fst (s_outputs sy) ++ state_names sy ++ map snd nm) -> False).
  { intros Hin. destruct (Hcl b Hx Hin) as [[Hr _]|Hs].
    - apply in_app_or in Hr. destruct Hr as [Hr|Hr]; [exact (Hout Hr)|exact (Hne Hr)].
    - rewrite (Hsuf b Hin) in Hs. discriminate. }
  (* a default *)
  assert (Hdef : forall d, In d reserved_names -> b = d -> False).
  { intros d Hd ->. exact (default_base_not r d Hd He Hx). }
  assert (Hlb : forall d l after, In d reserved_names -> incl l (s_constraints sy ++ s_bads sy) ->
                 In b (label_bases wv sy nm d l after) -> False).
  { intros d l after Hd Hl Hin. apply label_bases_in in Hin. destruct Hin as [->|(e & Hel & ->)]; [exact (Hdef d Hd eq_refl)|].
    destruct (label_base_cases wv sy nm e d) as [Hc|[(n & Hs & Hc & Hno)|(Hs & Hc)]].
    - exact (Hdef d Hd Hc).
    - destruct (raw_name_symbol e n Hs) as [Hrn Hsym]. rewrite Hwl in Hno. cbn [andb] in Hno.
      specialize (Hdecl e (Hl e Hel) Hsym). unfold declared in Hdecl. apply in_app_or in Hdecl. destruct Hdecl as [Hd1|Hd1].
      + assert (Ht : existsb (expr_eqb e) (s_inputs sy) = true).
        { apply existsb_exists. exists e. split; [exact Hd1|apply expr_eqb_refl]. }
        congruence.
      + apply Hpool. rewrite Hc. apply in_or_app. right. apply in_or_app. left. unfold state_names.
        apply in_map_iff in Hd1. destruct Hd1 as (s & Hse & Hs1). apply in_map_iff. exists s. split; [|exact Hs1].
        rewrite Hse. exact Hrn.
    - apply Hpool. apply in_or_app. right. apply in_or_app. right. exact Hc. }
  unfold all_bases in Hb. apply in_app_or in Hb. destruct Hb as [Hb|Hb].
  - apply Hpool. apply in_or_app. left. exact Hb.
  - apply in_app_or in Hb. destruct Hb as [Hb|Hb].
    + apply (Hlb "_constraint" (s_constraints sy) (s_bads sy)); [cbn; auto|apply incl_appl; apply incl_refl|exact Hb].
    + apply (Hlb "_bad" (s_bads sy) []); [cbn; auto|apply incl_appr; apply incl_refl|exact Hb].
Qed.

(** ** the inputs theorem, stated outside the known classes *)
Lemma kc_input_output_false sy i :
  kc_input_output sy = false -> In i (s_inputs sy) -> is_symbol i = true -> ~ In (raw_name i) (map fst (s_outputs sy)).
Proof.
  intros Hk Hi Hs Hin. unfold kc_input_output in Hk.
  assert (Ht : existsb (fun i0 => str_mem (sym_name i0) (map fst (s_outputs sy))) (s_inputs sy) = true).
  { apply existsb_exists. exists i. split; [exact Hi|]. apply str_mem_In.
    replace (sym_name i) with (raw_name i); [exact Hin|]. destruct i; cbn [is_symbol] in Hs; try discriminate; reflexivity. }
  congruence.
Qed.

Lemma Forall2_impl_in {A B} (P Q : A -> B -> Prop) l l' :
  Forall2 P l l' -> (forall a b, In a l -> P a b -> Q a b) -> Forall2 Q l l'.
Proof.
  induction 1 as [|a b l l' Hab _ IH]; intros Himp; constructor.
  - apply Himp; [left; reflexivity|exact Hab].
  - apply IH. intros a0 b0 Hin. apply Himp. right. exact Hin.
Qed.

Theorem names_survive_inputs_outside_known v wv sy nm lines :
  sys_ok_weak sy = true -> (is_fix v = true -> props_1bit sy = true) -> alias_ok v wv ->
  NoDup (declared sy) -> NoDup (map raw_name (s_inputs sy)) -> sys_fits sy = true ->
  KnownClass sy nm = false ->
  (forall i, In i (s_inputs sy) -> explicit (raw_name i) = true -> apart sy nm (raw_name i)) ->
  w_input_labels wv = true ->
  (forall e, In e (s_constraints sy ++ s_bads sy) -> is_symbol e = true -> In e (declared sy)) ->
  serialize_named_v wv sy nm = POk lines -> N.of_nat (List.length lines) <= U32MAX ->
  exists sy', (forall dbg, parse_lines_v v dbg lines = POk sy') /\
    Forall2 (fun i i' => explicit (raw_name i) = true -> i' = i)
            (s_inputs sy) (firstn (List.length (s_inputs sy)) (s_inputs sy')).
Proof.
  intros Hok H1bit Hal Hnd Hndn Hfit Hkc Hap Hwl Hdecl Hser Hlen.
  destruct (names_survive_inputs v wv sy nm lines Hok H1bit Hal Hnd Hndn Hfit Hser Hlen) as (sy' & Hp & HF).
  exists sy'. split; [exact Hp|].
  unfold KnownClass in Hkc. apply orb_false_iff in Hkc. destruct Hkc as [_ Hio].
  assert (Hsym : forall i, In i (s_inputs sy) -> is_symbol i = true).
  { intros i Hi. unfold sys_ok_weak in Hok.
    apply andb_true_iff in Hok. destruct Hok as [Hok _]. apply andb_true_iff in Hok. destruct Hok as [Hok _].
    apply andb_true_iff in Hok. destruct Hok as [Hok _]. apply andb_true_iff in Hok. destruct Hok as [Hoki _].
    rewrite forallb_forall in Hoki. specialize (Hoki _ Hi). apply andb_true_iff in Hoki. tauto. }
  apply (Forall2_impl_in _ _ _ _ HF). intros i i' Hi Himp He. apply Himp.
  apply in_named_outside; auto. apply kc_input_output_false; auto.
Qed.
