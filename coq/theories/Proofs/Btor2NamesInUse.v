(** * Proofs/Btor2NamesInUse.v — the name-in-use invariant of the btor2 reader, for EVERY text.

    [name_base toks]: the name a line asks for (the 4th token of a state / input / output / bad /
    constraint line or the default of its kind; the cleaned token after the operands of a node line, if
    [include_name] lets it through).  [used_step]: a line the reader accepts leaves [p_used] alone or
    puts [unique_name b used] in front of it, where [b] is the base of the line.  Hence ([fold_used],
    [run_used]) after any text every name in use is of the reader's default shape, or a base some line
    asked for, or [b_k] for such a base ([gen_ok]).  This is the invariant the names of states and
    outputs depend on (a declaration or label gets exactly the name it asks for iff that name is not in
    use), independent of the writer. *)
From Coq Require Import List Lia Bool String Ascii NArith FMapPositive.
From Patronus Require Import Expr ExprLemmas ExprEqb SysClosed Btor2Parse Btor2Ser Btor2SerNames Btor2ExprFacts Btor2ParseProofs
     Btor2Names Btor2RtTail Btor2RtSim Btor2NamesSurvive.
Import ListNotations.
Open Scope string_scope.
Open Scope list_scope.
Open Scope N_scope.

(** ** the number of tokens each kind of node line consumes *)
Lemma lower_unary_count dbg toks u e r c : lower_unary dbg toks u e = POk (r, c) -> c = ucount u.
Proof.
  destruct u; unfold lower_unary; intros H;
    repeat match goal with
           | H : pbind _ _ = POk _ |- _ => apply pbind_ok in H; destruct H as (? & ? & H)
           | H : (if ?b then _ else _) = POk _ |- _ => destruct b
           | H : POk _ = POk _ |- _ => inversion H; subst; clear H
           | H : PPanic _ = POk _ |- _ => discriminate H
           | H : PErr = POk _ |- _ => discriminate H
           end; reflexivity.
Qed.

Lemma parse_unary_count dbg st toks u e c : parse_unary dbg st toks u = POk (e, c) -> c = ucount u.
Proof.
  unfold parse_unary. intros H. binv H a Ha. binv H t Ht. binv H x Hx. binv H rc Hrc. destruct rc as [r cnt].
  binv H k Hk. inversion H; subst. eapply lower_unary_count; eauto.
Qed.

Lemma parse_binary_count dbg st toks bo e c : parse_binary dbg st toks bo = POk (e, c) -> c = 5%nat.
Proof.
  unfold parse_binary. intros H. binv H a Ha. binv H t Ht. binv H x Hx. binv H y Hy. binv H z Hz. binv H k Hk.
  inversion H; reflexivity.
Qed.

Lemma parse_ternary_count dbg st toks b e c : parse_ternary dbg st toks b = POk (e, c) -> c = 6%nat.
Proof.
  unfold parse_ternary. intros H. binv H a Ha. binv H t Ht. binv H x Hx. binv H y Hy. binv H z Hz. binv H r Hr. binv H k Hk.
  inversion H; reflexivity.
Qed.

Definition fcount (op : string) : nat :=
  if seq op "zero" then 3 else if seq op "one" then 3 else if seq op "ones" then 3 else 4.

Lemma parse_format_count st toks op e c : parse_format st toks op = POk (e, c) -> c = fcount op.
Proof.
  unfold parse_format, fcount. intros H. binv H w Hw.
  destruct (seq op "zero"); [binv H r Hr; inversion H; reflexivity|].
  destruct (seq op "one"); [binv H r Hr; inversion H; reflexivity|].
  destruct (seq op "ones"); [binv H r Hr; inversion H; reflexivity|].
  destruct (Nat.ltb (List.length toks) 4); [discriminate|]. binv H v Hv. inversion H; reflexivity.
Qed.

(** ** the name a line asks for *)
Definition node_count (op : string) : option nat :=
  match un_table op with
  | Some u => Some (ucount u)
  | None =>
      match bin_table op with
      | Some _ => Some 5%nat
      | None =>
          if seq op "ite" then Some 6%nat else if seq op "write" then Some 6%nat
          else if seq op "sort" then None
          else if seq op "const" || seq op "constd" || seq op "consth" || seq op "zero" || seq op "one" || seq op "ones"
               then Some (fcount op)
          else None
      end
  end.

Definition tail_base (toks : list string) (c : nat) : option string :=
  match nth_error toks c with
  | Some name => if include_name name then Some (clean_up_name name) else None
  | None => None
  end.

Definition name_base (toks : list string) : option string :=
  match toks with
  | _ :: op :: _ =>
      match node_count op with
      | Some c => tail_base toks c
      | None =>
          if seq op "state" then Some (nth 3 toks "_state")
          else if seq op "input" then Some (nth 3 toks "_input")
          else if seq op "output" then Some (nth 3 toks "_output")
          else if seq op "bad" then Some (nth 3 toks "_bad")
          else if seq op "constraint" then Some (nth 3 toks "_constraint")
          else None
      end
  | _ => None
  end.

Definition used_rel (ps ps' : pstate) (ob : option string) : Prop :=
  p_used ps' = p_used ps \/ exists b, ob = Some b /\ p_used ps' = unique_name b (p_used ps) :: p_used ps.

Lemma finish_node_used ps toks id e c : used_rel ps (finish_node ps toks id (e, c)) (tail_base toks c).
Proof.
  unfold finish_node, tail_base. destruct (nth_error toks c) as [name|]; [|left; reflexivity].
  destruct (include_name name); [|left; reflexivity].
  right. eexists. split; [reflexivity|]. unfold add_unique, note_name. destruct (is_symbol e); reflexivity.
Qed.

Lemma parse_sort_used st toks id st' : parse_sort st toks id = POk st' -> p_used st' = p_used st.
Proof.
  unfold parse_sort. intros H. destruct (seq (tokn toks 2) "bitvec").
  - binv H a Ha. binv H w Hw. inversion H; reflexivity.
  - destruct (seq (tokn toks 2) "array"); [|discriminate]. binv H a Ha. binv H it Hit. binv H dt Hdt.
    destruct it; [|discriminate]. destruct dt; [|discriminate]. inversion H; reflexivity.
Qed.

Lemma parse_state_used st toks id st' : parse_state st toks id = POk st' ->
  p_used st' = unique_name (nth 3 toks "_state") (p_used st) :: p_used st.
Proof.
  unfold parse_state, label_name, add_unique. intros H. binv H t Ht. binv H sym Hs. inversion H; subst.
  unfold note_name. destruct (is_symbol sym); reflexivity.
Qed.

Lemma parse_input_used st toks id st' : parse_input st toks id = POk st' ->
  p_used st' = unique_name (nth 3 toks "_input") (p_used st) :: p_used st.
Proof.
  unfold parse_input, label_name, add_unique. intros H. binv H t Ht. binv H sym Hs. inversion H; subst.
  unfold note_name. destruct (is_symbol sym); reflexivity.
Qed.

Lemma parse_init_next_used st toks b st' : parse_init_next st toks b = POk st' -> p_used st' = p_used st.
Proof.
  unfold parse_init_next. intros H. binv H a Ha. binv H t Ht. binv H idx Hi.
  destruct (negb (ty_eqb _ t)); [discriminate|]. binv H m Hm. binv H e He.
  destruct (negb (ty_eqb (type_of e) t)); [discriminate|]. inversion H; reflexivity.
Qed.

Lemma parse_prop_used st toks op st' : parse_prop st toks op = POk st' ->
  used_rel st st' (if seq op "output" then Some (nth 3 toks "_output")
                   else if seq op "bad" then Some (nth 3 toks "_bad")
                   else if seq op "constraint" then Some (nth 3 toks "_constraint") else None).
Proof.
  unfold parse_prop, label_name, add_unique. intros H. binv H e He.
  destruct (seq op "output").
  { inversion H; subst. right. eexists. split; [reflexivity|]. unfold note_name. destruct (is_symbol e); reflexivity. }
  destruct (seq op "bad").
  { inversion H; subst. right. eexists. split; [reflexivity|]. unfold note_name. destruct (is_symbol e); reflexivity. }
  destruct (seq op "constraint"); [|discriminate].
  inversion H; subst. right. eexists. split; [reflexivity|]. unfold note_name. destruct (is_symbol e); reflexivity.
Qed.

Theorem used_step dbg ps toks ps' : parse_line dbg ps toks = POk ps' -> used_rel ps ps' (name_base toks).
Proof.
  intros H. destruct toks as [|t0 [|op rest]].
  - inversion H; subst. left. reflexivity.
  - cbn [parse_line] in H. destruct (parse_line_id t0) as [[id neg]|]; [destruct neg|]; discriminate.
  - rewrite (parse_line_unfold dbg ps _ t0 op rest eq_refl) in H.
    cbn [name_base]. unfold node_count. set (toks := t0 :: op :: rest) in *.
    destruct (parse_line_id t0) as [[id neg]|]; [|discriminate]. destruct neg; [discriminate|].
    destruct (un_table op) as [u|].
    { binv H r Hr. destruct r as [e c]. inversion H; subst. rewrite (parse_unary_count _ _ _ _ _ _ Hr). apply finish_node_used. }
    destruct (bin_table op) as [bo|].
    { binv H r Hr. destruct r as [e c]. inversion H; subst. rewrite (parse_binary_count _ _ _ _ _ _ Hr). apply finish_node_used. }
    binv H a Ha.
    destruct (seq op "ite").
    { binv H r Hr. destruct r as [e c]. inversion H; subst. rewrite (parse_ternary_count _ _ _ _ _ _ Hr). apply finish_node_used. }
    destruct (seq op "write").
    { binv H r Hr. destruct r as [e c]. inversion H; subst. rewrite (parse_ternary_count _ _ _ _ _ _ Hr). apply finish_node_used. }
    destruct (seq op "sort"); [left; eapply parse_sort_used; eauto|].
    destruct (seq op "const" || seq op "constd" || seq op "consth" || seq op "zero" || seq op "one" || seq op "ones").
    { binv H r Hr. destruct r as [e c]. inversion H; subst. rewrite (parse_format_count _ _ _ _ _ Hr). apply finish_node_used. }
    destruct (seq op "state"); [right; eexists; split; [reflexivity|eapply parse_state_used; eauto]|].
    destruct (seq op "input"); [right; eexists; split; [reflexivity|eapply parse_input_used; eauto]|].
    destruct (seq op "init"); [left; eapply parse_init_next_used; eauto|].
    destruct (seq op "next"); [left; eapply parse_init_next_used; eauto|].
    destruct (seq op "output" || seq op "bad" || seq op "constraint" || seq op "fair"); [|discriminate].
    apply parse_prop_used. exact H.
Qed.

(** ** the invariant *)
Definition gen_ok (B : list string) (x : string) : Prop :=
  is_autogen_name x = true \/ exists b, In b B /\ (x = b \/ exists k, x = cand b k).

Lemma gen_ok_mono B B' x : incl B B' -> gen_ok B x -> gen_ok B' x.
Proof. intros Hi [H|(b & Hb & Hx)]; [left; exact H|right; exists b; split; [apply Hi; exact Hb|exact Hx]]. Qed.

Definition base_list (ob : option string) : list string := match ob with Some b => [b] | None => [] end.

Definition bases_of (ls : list (list string)) : list string := flat_map (fun l => base_list (name_base l)) ls.

Lemma unique_name_gen b u : unique_name b u = b \/ exists k, unique_name b u = cand b k.
Proof.
  unfold unique_name. destruct (uniq_loop_spec (S (List.length u)) b u 0 b) as [H _]. cbv zeta in H.
  destruct H as [H|H]; [left; symmetry; exact H|right]. apply cands_in in H. destruct H as (k & _ & H). exists k. exact H.
Qed.

Lemma used_rel_gen ps ps' ob B :
  used_rel ps ps' ob -> (forall x, In x (p_used ps) -> gen_ok B x) ->
  forall x, In x (p_used ps') -> gen_ok (B ++ base_list ob) x.
Proof.
  intros [Hu|(b & -> & Hu)] Hinv x Hx; rewrite Hu in Hx.
  - eapply gen_ok_mono; [|apply Hinv; exact Hx]. apply incl_appl. apply incl_refl.
  - destruct Hx as [<-|Hx].
    + right. exists b. split; [apply in_or_app; right; left; reflexivity|]. apply unique_name_gen.
    + eapply gen_ok_mono; [|apply Hinv; exact Hx]. apply incl_appl. apply incl_refl.
Qed.

Theorem fold_used v dbg : forall ls ps err ps' err' B,
  parse_fold_v v dbg ls ps err = POk (ps', err') ->
  (forall x, In x (p_used ps) -> gen_ok B x) ->
  forall x, In x (p_used ps') -> gen_ok (B ++ bases_of ls) x.
Proof.
  induction ls as [|l ls IH]; intros ps err ps' err' B H Hinv; cbn [parse_fold_v] in H.
  - inversion H; subst. cbn [bases_of flat_map]. rewrite app_nil_r. exact Hinv.
  - cbn [bases_of flat_map]. fold (bases_of ls). rewrite app_assoc.
    destruct (parse_line_v v dbg ps l) as [ps1| |k] eqn:El; [| |discriminate].
    + apply (IH _ _ _ _ _ H). unfold parse_line_v in El. destruct (variant_pre v ps l); [|discriminate].
      apply (used_rel_gen ps ps1 _ B (used_step _ _ _ _ El) Hinv).
    + apply (IH _ _ _ _ _ H). intros x Hx. eapply gen_ok_mono; [|apply Hinv; exact Hx]. apply incl_appl. apply incl_refl.
Qed.

(** after EVERY text: the names in use come from the bases the lines asked for *)
Theorem names_in_use v dbg ls ps err :
  parse_fold_v v dbg ls p_empty false = POk (ps, err) ->
  forall x, In x (p_used ps) -> gen_ok (bases_of ls) x.
Proof.
  intros H. apply (fold_used v dbg ls p_empty false ps err [] H).
  intros x Hx. left. apply reserved_autogen. exact Hx.
Qed.

Lemma run_used v st ps : run v st = POk (ps, false) -> forall x, In x (p_used ps) -> gen_ok (bases_of (rev (w_lines st))) x.
Proof. unfold run. apply names_in_use. Qed.

(** a name that is not in use is given as asked *)
Lemma fresh_from_bases B used r :
  (forall x, In x used -> gen_ok B x) -> is_autogen_name r = false ->
  (forall b, In b B -> r <> b /\ forall k, r <> cand b k) -> unique_name r used = r.
Proof.
  intros Hinv Ha Hb. apply unique_name_id. intros Hin. destruct (Hinv _ Hin) as [H|(b & Hbin & [->|(k & ->)])].
  - congruence.
  - destruct (Hb b Hbin) as [H _]. apply H. reflexivity.
  - destruct (Hb b Hbin) as [_ H]. apply (H k). reflexivity.
Qed.
