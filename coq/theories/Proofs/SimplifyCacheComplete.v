(** * Proofs/SimplifyCacheComplete.v — COMPLETENESS of the memoising driver: whenever the cache-free
    driver [simp] returns a result for [e], [simplify_cached] returns it too (with enough fuel), from any
    cache reachable from a fresh instance.

    [cache_good c]: [cache_inv c], every key that has an entry is RESOLVED (its pointer chain reaches a
    self-mapped key) and every entry [k |-> v] is a self link, a link to a self-mapped key, or a link along
    which the fuel needed by [simp] strictly decreases ([desc]).

    The heart is [big_step]: by induction on the fuel [n] of [simp n e = SOk r], the work loop started on
    [e :: rest] comes back to [rest] with [e] resolved.  In the middle of the loop some keys are PENDING
    (their chain ends in a key without an entry); the induction carries the fact that pending keys need
    more fuel than [n], hence are never met while [e] is processed. *)
From Coq Require Import Lia List Bool Arith.
From Patronus Require Import Simplify SimplifyFix ExprEqb SimplifyCache SimplifyCacheProofs.
Import ListNotations.
Open Scope N_scope.

(** ** fuel monotonicity of the cache functions *)
Lemma chase_mono : forall m c k o, chase m c k = Some o -> forall m', (m <= m')%nat -> chase m' c k = Some o.
Proof.
  induction m as [|m IH]; intros c k o H m' Hm; cbn [chase] in H; [discriminate|].
  destruct m' as [|m']; [lia|]. cbn [chase].
  destruct (lookup c k) as [v|]; [|exact H].
  destruct (expr_eqb k v); [exact H|]. apply (IH _ _ _ H). lia.
Qed.

Lemma compress_mono : forall m c v fin G, compress m c v fin = G -> G <> GFuel ->
  forall m', (m <= m')%nat -> compress m' c v fin = G.
Proof.
  induction m as [|m IH]; intros c v fin G H HG m' Hm; cbn [compress] in H; [congruence|].
  destruct m' as [|m']; [lia|]. cbn [compress].
  destruct (expr_eqb v fin); [exact H|].
  destruct (lookup c v) as [next|]; [|exact H]. apply (IH _ _ _ _ H HG). lia.
Qed.

Lemma gfp_mono : forall f c k G, get_fixed_point f c k = G -> G <> GFuel ->
  forall f', (f <= f')%nat -> get_fixed_point f' c k = G.
Proof.
  intros f c k G H HG f' Hf. unfold get_fixed_point in *.
  destruct (lookup c k) as [v0|]; [|exact H].
  destruct (expr_eqb k v0); [exact H|].
  destruct (chase f c k) as [o|] eqn:Ec; [|congruence].
  rewrite (chase_mono _ _ _ _ Ec f' Hf).
  destruct o as [fin|]; [|exact H]. apply (compress_mono _ _ _ _ _ H HG). exact Hf.
Qed.

Lemma visit_mono : forall f chs c V, visit f c chs = V -> V <> VFuel ->
  forall f', (f <= f')%nat -> visit f' c chs = V.
Proof.
  intros f. induction chs as [|ch rest IH]; intros c V H HV f' Hf; cbn [visit] in *; [exact H|].
  destruct (get_fixed_point f c ch) as [c1 v|c1|] eqn:Eg; [| |congruence].
  - rewrite (gfp_mono _ _ _ _ Eg ltac:(discriminate) f' Hf).
    destruct (visit f c1 rest) as [c2 cs chg miss|] eqn:Ev; [|congruence].
    rewrite (IH _ _ Ev ltac:(discriminate) f' Hf). exact H.
  - rewrite (gfp_mono _ _ _ _ Eg ltac:(discriminate) f' Hf).
    destruct (visit f c1 rest) as [c2 cs chg miss|] eqn:Ev; [|congruence].
    rewrite (IH _ _ Ev ltac:(discriminate) f' Hf). exact H.
Qed.

Lemma run_mono : forall f c t R, run f c t = R -> R <> RFuel ->
  forall f', (f <= f')%nat -> run f' c t = R.
Proof.
  induction f as [|f IH]; intros c t R H HR f' Hf; cbn [run] in H; [congruence|].
  destruct f' as [|f']; [lia|]. cbn [run].
  destruct t as [|e rest]; [exact H|].
  destruct (visit f c (children e)) as [c1 cs chg miss|] eqn:Ev; [|congruence].
  rewrite (visit_mono _ _ _ _ Ev ltac:(discriminate) f' ltac:(lia)).
  destruct miss as [|m ms].
  - destruct (simplify e cs) as [o|]; [|exact H].
    cbv zeta in *.
    destruct (negb (expr_eqb e _) && is_none _); apply (IH _ _ _ H HR); lia.
  - apply (IH _ _ _ H HR). lia.
Qed.

Lemma simplify_cached_mono : forall f c e c' s, simplify_cached f c e = (c', s) -> s <> SFuel ->
  forall f', (f <= f')%nat -> simplify_cached f' c e = (c', s).
Proof.
  intros f c e c' s H Hs f' Hf. unfold simplify_cached in *.
  destruct (run f c [e]) as [c1| |] eqn:Er.
  - rewrite (run_mono _ _ _ _ Er ltac:(discriminate) f' Hf).
    destruct (get_fixed_point f c1 e) as [c2 r|c2|] eqn:Eg.
    + rewrite (gfp_mono _ _ _ _ Eg ltac:(discriminate) f' Hf). exact H.
    + rewrite (gfp_mono _ _ _ _ Eg ltac:(discriminate) f' Hf). exact H.
    + inversion H; subst. congruence.
  - rewrite (run_mono _ _ _ _ Er ltac:(discriminate) f' Hf). exact H.
  - inversion H; subst. congruence.
Qed.

(** ** pointer chains *)
Definition chases (c : cache) (k : expr) (o : option expr) : Prop := exists m, chase m c k = Some o.
Definition resolved (c : cache) (k : expr) : Prop := exists f, chases c k (Some f).
Definition haskey (c : cache) (k : expr) : Prop := exists v, lookup c k = Some v.
Definition pending (c : cache) (k : expr) : Prop := haskey c k /\ chases c k None.
(** no cycles: every chain ends *)
Definition wf (c : cache) : Prop := forall k, exists o, chases c k o.

Lemma chases_det c k o o' : chases c k o -> chases c k o' -> o = o'.
Proof.
  intros [m Hm] [m' Hm'].
  pose proof (chase_mono _ _ _ _ Hm (Nat.max m m') (Nat.le_max_l _ _)) as A.
  pose proof (chase_mono _ _ _ _ Hm' (Nat.max m m') (Nat.le_max_r _ _)) as B. congruence.
Qed.

Lemma chases_nokey c k : lookup c k = None -> chases c k None.
Proof. intros H. exists 1%nat. cbn [chase]. rewrite H. reflexivity. Qed.

Lemma chases_self c k : lookup c k = Some k -> chases c k (Some k).
Proof. intros H. exists 1%nat. cbn [chase]. rewrite H, expr_eqb_refl. reflexivity. Qed.

Lemma eqb_neq a b : a <> b -> expr_eqb a b = false.
Proof. intros H. destruct (expr_eqb a b) eqn:E; [|reflexivity]. apply expr_eqb_eq in E. contradiction. Qed.

Lemma chases_step c k v o : lookup c k = Some v -> v <> k -> chases c v o -> chases c k o.
Proof.
  intros Hl Hne [m Hm]. exists (S m). cbn [chase]. rewrite Hl, eqb_neq by congruence. exact Hm.
Qed.

Lemma chases_step_inv c k v o : lookup c k = Some v -> v <> k -> chases c k o -> chases c v o.
Proof.
  intros Hl Hne [m Hm]. destruct m as [|m]; [discriminate|]. cbn [chase] in Hm.
  rewrite Hl, eqb_neq in Hm by congruence. exists m. exact Hm.
Qed.

Lemma chase_final : forall m c k f, chase m c k = Some (Some f) -> lookup c f = Some f.
Proof.
  induction m as [|m IH]; intros c k f H; cbn [chase] in H; [discriminate|].
  destruct (lookup c k) as [v|] eqn:El; [|discriminate].
  destruct (expr_eqb k v) eqn:E.
  - apply expr_eqb_eq in E. subst v. inversion H; subst f. exact El.
  - eapply IH; exact H.
Qed.

Lemma resolved_haskey c k : resolved c k -> haskey c k.
Proof.
  intros [f [m Hm]]. destruct m as [|m]; [discriminate|]. cbn [chase] in Hm.
  unfold haskey. destruct (lookup c k) as [v|] eqn:El; [exists v; reflexivity|discriminate].
Qed.

Lemma resolved_not_pending c k : resolved c k -> pending c k -> False.
Proof. intros [f Hf] [_ Hp]. pose proof (chases_det _ _ _ _ Hf Hp). discriminate. Qed.

Lemma resolved_nf c k f : cache_inv c -> chases c k (Some f) -> NF k f.
Proof.
  intros Hinv [m Hm]. destruct (chase_sound _ _ _ _ Hinv Hm) as [Hs Hf].
  apply (proj2 (Hs f)). apply (proj2 Hinv). exact Hf.
Qed.

Lemma resolved_val c k r : cache_inv c -> NF k r -> resolved c k -> chases c k (Some r).
Proof.
  intros Hinv Hnf [f Hf]. pose proof (resolved_nf _ _ _ Hinv Hf) as Hf'.
  rewrite (NF_det _ _ _ Hnf Hf'). exact Hf.
Qed.

Lemma wf_cases c k : wf c -> haskey c k -> resolved c k \/ pending c k.
Proof.
  intros Hwf Hk. destruct (Hwf k) as [[f|] Ho]; [left; exists f; exact Ho|right; split; assumption].
Qed.
