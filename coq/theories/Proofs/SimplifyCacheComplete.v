(** * Proofs/SimplifyCacheComplete.v — COMPLETENESS of the memoising driver: whenever the cache-free
    driver [simp] returns a result for [e], [simplify_cached] returns it too (with enough fuel), from any
    cache reachable from a fresh instance.

    [cache_good c]: [cache_inv c], every key that has an entry is RESOLVED (its pointer chain reaches a
    self-mapped key) and every entry [k |-> v] is a self link, a link to a self-mapped key, or a link along
    which the fuel needed by [simp] strictly decreases ([desc]).

    The heart is [big_step]: by induction on the fuel [n] of [simp n e = SOk r], the work loop started on
    [e :: rest] comes back to [rest] with [e] resolved.  In the middle of the loop some keys are PENDING
    (their chain ends in a key without an entry); the induction carries the fact that pending keys need
    more fuel than [n], hence are never met while [e] is processed. *)
From Coq Require Import Lia List Bool Arith String.
From Patronus Require Import Simplify SimplifyFix ExprEqb SimplifyCache SimplifyCacheProofs.
Import ListNotations.
Open Scope N_scope.

(** ** fuel monotonicity of the cache functions *)
Lemma chase_mono : forall m c k o, chase m c k = Some o -> forall m', (m <= m')%nat -> chase m' c k = Some o.
Proof.
  induction m as [|m IH]; intros c k o H m' Hm; cbn [chase] in H; [discriminate|].
  destruct m' as [|m']; [lia|]. cbn [chase].
  destruct (lookup c k) as [v|]; [|exact H].
  destruct (expr_eqb k v); [exact H|]. apply (IH _ _ _ H). lia.
Qed.

Lemma compress_mono : forall m c v fin G, compress m c v fin = G -> G <> GFuel ->
  forall m', (m <= m')%nat -> compress m' c v fin = G.
Proof.
  induction m as [|m IH]; intros c v fin G H HG m' Hm; cbn [compress] in H; [congruence|].
  destruct m' as [|m']; [lia|]. cbn [compress].
  destruct (expr_eqb v fin); [exact H|].
  destruct (lookup c v) as [next|]; [|exact H]. apply (IH _ _ _ _ H HG). lia.
Qed.

Lemma gfp_mono : forall f c k G, get_fixed_point f c k = G -> G <> GFuel ->
  forall f', (f <= f')%nat -> get_fixed_point f' c k = G.
Proof.
  intros f c k G H HG f' Hf. unfold get_fixed_point in *.
  destruct (lookup c k) as [v0|]; [|exact H].
  destruct (expr_eqb k v0); [exact H|].
  destruct (chase f c k) as [o|] eqn:Ec; [|congruence].
  rewrite (chase_mono _ _ _ _ Ec f' Hf).
  destruct o as [fin|]; [|exact H]. apply (compress_mono _ _ _ _ _ H HG). exact Hf.
Qed.

Lemma visit_mono : forall f chs c V, visit f c chs = V -> V <> VFuel ->
  forall f', (f <= f')%nat -> visit f' c chs = V.
Proof.
  intros f. induction chs as [|ch rest IH]; intros c V H HV f' Hf; cbn [visit] in *; [exact H|].
  destruct (get_fixed_point f c ch) as [c1 v|c1|] eqn:Eg; [| |congruence].
  - rewrite (gfp_mono _ _ _ _ Eg ltac:(discriminate) f' Hf).
    destruct (visit f c1 rest) as [c2 cs chg miss|] eqn:Ev; [|congruence].
    rewrite (IH _ _ Ev ltac:(discriminate) f' Hf). exact H.
  - rewrite (gfp_mono _ _ _ _ Eg ltac:(discriminate) f' Hf).
    destruct (visit f c1 rest) as [c2 cs chg miss|] eqn:Ev; [|congruence].
    rewrite (IH _ _ Ev ltac:(discriminate) f' Hf). exact H.
Qed.

Lemma run_mono : forall f c t R, run f c t = R -> R <> RFuel ->
  forall f', (f <= f')%nat -> run f' c t = R.
Proof.
  induction f as [|f IH]; intros c t R H HR f' Hf; cbn [run] in H; [congruence|].
  destruct f' as [|f']; [lia|]. cbn [run].
  destruct t as [|e rest]; [exact H|].
  destruct (visit f c (children e)) as [c1 cs chg miss|] eqn:Ev; [|congruence].
  rewrite (visit_mono _ _ _ _ Ev ltac:(discriminate) f' ltac:(lia)).
  destruct miss as [|m ms].
  - destruct (simplify e cs) as [o|]; [|exact H].
    cbv zeta in *.
    destruct (negb (expr_eqb e _) && is_none _); apply (IH _ _ _ H HR); lia.
  - apply (IH _ _ _ H HR). lia.
Qed.

Lemma simplify_cached_mono : forall f c e c' s, simplify_cached f c e = (c', s) -> s <> SFuel ->
  forall f', (f <= f')%nat -> simplify_cached f' c e = (c', s).
Proof.
  intros f c e c' s H Hs f' Hf. unfold simplify_cached in *.
  destruct (run f c [e]) as [c1| |] eqn:Er.
  - rewrite (run_mono _ _ _ _ Er ltac:(discriminate) f' Hf).
    destruct (get_fixed_point f c1 e) as [c2 r|c2|] eqn:Eg.
    + rewrite (gfp_mono _ _ _ _ Eg ltac:(discriminate) f' Hf). exact H.
    + rewrite (gfp_mono _ _ _ _ Eg ltac:(discriminate) f' Hf). exact H.
    + inversion H; subst. congruence.
  - rewrite (run_mono _ _ _ _ Er ltac:(discriminate) f' Hf). exact H.
  - inversion H; subst. congruence.
Qed.

(** ** pointer chains *)
Definition chases (c : cache) (k : expr) (o : option expr) : Prop := exists m, chase m c k = Some o.
Definition resolved (c : cache) (k : expr) : Prop := exists f, chases c k (Some f).
Definition haskey (c : cache) (k : expr) : Prop := exists v, lookup c k = Some v.
Definition pending (c : cache) (k : expr) : Prop := haskey c k /\ chases c k None.
(** no cycles: every chain ends *)
Definition wf (c : cache) : Prop := forall k, exists o, chases c k o.

Lemma chases_det c k o o' : chases c k o -> chases c k o' -> o = o'.
Proof.
  intros [m Hm] [m' Hm'].
  pose proof (chase_mono _ _ _ _ Hm (Nat.max m m') (Nat.le_max_l _ _)) as A.
  pose proof (chase_mono _ _ _ _ Hm' (Nat.max m m') (Nat.le_max_r _ _)) as B. congruence.
Qed.

Lemma chases_nokey c k : lookup c k = None -> chases c k None.
Proof. intros H. exists 1%nat. cbn [chase]. rewrite H. reflexivity. Qed.

Lemma chases_self c k : lookup c k = Some k -> chases c k (Some k).
Proof. intros H. exists 1%nat. cbn [chase]. rewrite H, expr_eqb_refl. reflexivity. Qed.

Lemma eqb_neq a b : a <> b -> expr_eqb a b = false.
Proof. intros H. destruct (expr_eqb a b) eqn:E; [|reflexivity]. apply expr_eqb_eq in E. contradiction. Qed.

Lemma chases_step c k v o : lookup c k = Some v -> v <> k -> chases c v o -> chases c k o.
Proof.
  intros Hl Hne [m Hm]. exists (S m). cbn [chase]. rewrite Hl, eqb_neq by congruence. exact Hm.
Qed.

Lemma chases_step_inv c k v o : lookup c k = Some v -> v <> k -> chases c k o -> chases c v o.
Proof.
  intros Hl Hne [m Hm]. destruct m as [|m]; [discriminate|]. cbn [chase] in Hm.
  rewrite Hl, eqb_neq in Hm by congruence. exists m. exact Hm.
Qed.

Lemma chase_final : forall m c k f, chase m c k = Some (Some f) -> lookup c f = Some f.
Proof.
  induction m as [|m IH]; intros c k f H; cbn [chase] in H; [discriminate|].
  destruct (lookup c k) as [v|] eqn:El; [|discriminate].
  destruct (expr_eqb k v) eqn:E.
  - apply expr_eqb_eq in E. subst v. inversion H; subst f. exact El.
  - eapply IH; exact H.
Qed.

Lemma resolved_haskey c k : resolved c k -> haskey c k.
Proof.
  intros [f [m Hm]]. destruct m as [|m]; [discriminate|]. cbn [chase] in Hm.
  unfold haskey. destruct (lookup c k) as [v|] eqn:El; [exists v; reflexivity|discriminate].
Qed.

Lemma resolved_not_pending c k : resolved c k -> pending c k -> False.
Proof. intros [f Hf] [_ Hp]. pose proof (chases_det _ _ _ _ Hf Hp). discriminate. Qed.

Lemma resolved_nf c k f : cache_inv c -> chases c k (Some f) -> NF k f.
Proof.
  intros Hinv [m Hm]. destruct (chase_sound _ _ _ _ Hinv Hm) as [Hs Hf].
  apply (proj2 (Hs f)). apply (proj2 Hinv). exact Hf.
Qed.

Lemma resolved_val c k r : cache_inv c -> NF k r -> resolved c k -> chases c k (Some r).
Proof.
  intros Hinv Hnf [f Hf]. pose proof (resolved_nf _ _ _ Hinv Hf) as Hf'.
  rewrite (NF_det _ _ _ Hnf Hf'). exact Hf.
Qed.

Lemma wf_cases c k : wf c -> haskey c k -> resolved c k \/ pending c k.
Proof.
  intros Hwf Hk. destruct (Hwf k) as [[f|] Ho]; [left; exists f; exact Ho|right; split; assumption].
Qed.

(** ** the caches met later: entries survive or their key is resolved, resolved keys stay resolved,
    no new pending key appears *)
Definition ext (c c' : cache) : Prop :=
  (forall k, resolved c k -> resolved c' k) /\
  (forall k, pending c' k -> pending c k) /\
  (forall k v, lookup c k = Some v -> lookup c' k = Some v \/ resolved c' k).

Lemma ext_refl c : ext c c.
Proof. split; [|split]; auto. Qed.

Lemma ext_trans a b c : ext a b -> ext b c -> ext a c.
Proof.
  intros (A1 & A2 & A3) (B1 & B2 & B3). split; [|split].
  - auto.
  - auto.
  - intros k v Hl. destruct (A3 _ _ Hl) as [H|H]; [apply B3; exact H|right; apply B1; exact H].
Qed.

Lemma ext_haskey c c' k : ext c c' -> haskey c k -> haskey c' k.
Proof.
  intros (_ & _ & E3) [v Hv]. destruct (E3 _ _ Hv) as [H|H]; [exists v; exact H|apply resolved_haskey; exact H].
Qed.

(** ** [reach c x y]: [y] is on the pointer chain that starts at [x] *)
Inductive reach (c : cache) : expr -> expr -> Prop :=
| reach_refl x : reach c x x
| reach_step x v y : lookup c x = Some v -> v <> x -> reach c v y -> reach c x y.

Lemma reach_chases c x y o : reach c x y -> chases c y o -> chases c x o.
Proof. induction 1 as [x|x v y Hl Hne _ IH]; intros Ho; [exact Ho|]. eapply chases_step; eauto. Qed.

(** ** the three kinds of links *)
Definition desc (k v : expr) : Prop :=
  forall m r, simp m k = SOk r -> exists m', (m' < m)%nat /\ simp m' v = SOk r.

Definition linked (c : cache) : Prop :=
  forall k v, lookup c k = Some v -> v = k \/ lookup c v = Some v \/ desc k v.

(** along a chain that does not stop at a self-mapped key the needed fuel does not grow *)
Lemma reach_desc c x y : linked c -> reach c x y -> lookup c y <> Some y ->
  forall m r, simp m x = SOk r -> simp m y = SOk r.
Proof.
  intros Hlk Hr. induction Hr as [x|x v y Hl Hne Hr IH]; intros Hy m r Hs; [exact Hs|].
  destruct (Hlk _ _ Hl) as [H|[H|H]].
  - contradiction.
  - exfalso. inversion Hr as [z|z v' y' Hl' Hne' _]; subst.
    + contradiction.
    + rewrite H in Hl'. inversion Hl'. congruence.
  - destruct (H _ _ Hs) as (m' & Hm' & Hs'). apply (simp_fuel_mono _ _ _ (IH Hy _ _ Hs')). lia.
Qed.

(** ** the invariant of the loop between two quiescent points *)
Definition ok (c : cache) : Prop := cache_inv c /\ wf c /\ linked c.

(** pending keys cannot be simplified with fuel [n] *)
Definition nopend (n : nat) (c : cache) : Prop := forall k, pending c k -> forall r, simp n k <> SOk r.

Lemma nopend_le n m c : (m <= n)%nat -> nopend n c -> nopend m c.
Proof. intros Hm H k Hk r Hs. apply (H k Hk r). apply (simp_fuel_mono _ _ _ Hs). exact Hm. Qed.

Lemma nopend_ext n c c' : ext c c' -> nopend n c -> nopend n c'.
Proof. intros (_ & E2 & _) H k Hk. apply H. apply E2. exact Hk. Qed.

(** ** one write [e |-> v] *)
Lemma lookup_update_same c e v : lookup (update c e v) e = Some v.
Proof. rewrite lookup_update, expr_eqb_refl. reflexivity. Qed.

Lemma lookup_update_other c e v k : k <> e -> lookup (update c e v) k = lookup c k.
Proof. intros H. rewrite lookup_update, eqb_neq by congruence. reflexivity. Qed.

Lemma expr_eq_dec (a b : expr) : a = b \/ a <> b.
Proof. destruct (expr_eqb a b) eqn:E; [left; apply expr_eqb_eq; exact E|right; apply eqb_false_neq; exact E]. Qed.

Lemma wf_update c e v :
  wf c -> (v = e \/ exists o, chases (update c e v) v o) -> wf (update c e v).
Proof.
  intros Hwf Hv k. destruct (Hwf k) as [o [m Hm]]. revert k o Hm.
  induction m as [|m IH]; intros k o Hm; cbn [chase] in Hm; [discriminate|].
  destruct (expr_eq_dec k e) as [->|Hke].
  - destruct Hv as [->|[o' Ho']].
    + eexists. apply chases_self. apply lookup_update_same.
    + destruct (expr_eq_dec v e) as [->|Hve].
      * eexists. apply chases_self. apply lookup_update_same.
      * exists o'. eapply chases_step; [apply lookup_update_same|exact Hve|exact Ho'].
  - destruct (lookup c k) as [w|] eqn:El.
    + destruct (expr_eqb k w) eqn:E.
      * apply expr_eqb_eq in E. subst w. eexists. apply chases_self. rewrite lookup_update_other; assumption.
      * destruct (IH _ _ Hm) as [o' Ho']. exists o'.
        eapply chases_step; [rewrite lookup_update_other; eassumption|apply not_eq_sym; apply eqb_false_neq; exact E|exact Ho'].
    + eexists. apply chases_nokey. rewrite lookup_update_other; assumption.
Qed.

(** if [e] is resolved in a later cache [c'] of [update c e v], then [c'] is a later cache of [c] *)
Lemma ext_via_update c e v c' :
  wf c -> ext (update c e v) c' -> resolved c' e -> ext c c'.
Proof.
  intros Hwf (E1 & E2 & E3) He.
  assert (R : forall k, resolved c k -> resolved c' k).
  { intros k [f [m Hm]]. revert k Hm. induction m as [|m IH]; intros k Hm; cbn [chase] in Hm; [discriminate|].
    destruct (expr_eq_dec k e) as [->|Hke]; [exact He|].
    destruct (lookup c k) as [w|] eqn:El; [|discriminate].
    assert (El' : lookup (update c e v) k = Some w) by (rewrite lookup_update_other; assumption).
    destruct (expr_eqb k w) eqn:E.
    - apply expr_eqb_eq in E. subst w. apply E1. exists k. apply chases_self. exact El'.
    - destruct (E3 _ _ El') as [H|H]; [|exact H].
      destruct (IH _ Hm) as [f' Hf']. exists f'.
      eapply chases_step; [exact H|apply not_eq_sym; apply eqb_false_neq; exact E|exact Hf']. }
  split; [exact R|split].
  - intros k Hp. destruct (expr_eq_dec k e) as [->|Hke]; [exfalso; eapply resolved_not_pending; eauto|].
    pose proof (E2 _ Hp) as [[w Hw] _]. rewrite lookup_update_other in Hw by assumption.
    assert (Hk : haskey c k) by (exists w; exact Hw).
    destruct (wf_cases _ _ Hwf Hk) as [H|H]; [|exact H].
    exfalso. eapply resolved_not_pending; [apply R; exact H|exact Hp].
  - intros k w Hl. destruct (expr_eq_dec k e) as [->|Hke]; [right; exact He|].
    apply E3. rewrite lookup_update_other; assumption.
Qed.

Lemma linked_update c e v :
  linked c -> (lookup c e <> Some e \/ v = e) ->
  (v = e \/ lookup (update c e v) v = Some v \/ desc e v) -> linked (update c e v).
Proof.
  intros Hlk He Hv k w Hl. destruct (expr_eq_dec k e) as [->|Hke].
  - rewrite lookup_update_same in Hl. inversion Hl; subst w. exact Hv.
  - rewrite lookup_update_other in Hl by assumption.
    destruct (Hlk _ _ Hl) as [H|[H|H]]; [left; exact H| |right; right; exact H].
    right; left. destruct (expr_eq_dec w e) as [->|Hwe].
    + destruct He as [He | ->]; [contradiction|]. apply lookup_update_same.
    + rewrite lookup_update_other; assumption.
Qed.

(** a chain of [c] is unchanged by the write unless it meets [e] *)
Lemma chase_update_or_reach c e v : forall m k o,
  chase m c k = Some o -> chases (update c e v) k o \/ reach c k e.
Proof.
  induction m as [|m IH]; intros k o Hm; cbn [chase] in Hm; [discriminate|].
  destruct (expr_eq_dec k e) as [->|Hke]; [right; constructor|].
  destruct (lookup c k) as [w|] eqn:El.
  - destruct (expr_eqb k w) eqn:E.
    + apply expr_eqb_eq in E. subst w. inversion Hm; subst o. left. apply chases_self.
      rewrite lookup_update_other; assumption.
    + assert (Hne : w <> k) by (apply not_eq_sym; apply eqb_false_neq; exact E).
      destruct (IH _ _ Hm) as [H|H].
      * left. eapply chases_step; [rewrite lookup_update_other; eassumption|exact Hne|exact H].
      * right. eapply reach_step; eauto.
  - inversion Hm; subst o. left. apply chases_nokey. rewrite lookup_update_other; assumption.
Qed.

Lemma ok_update c e v :
  ok c -> same_nf e v -> (v = e -> NF e e) ->
  (v = e \/ exists o, chases (update c e v) v o) ->
  (lookup c e <> Some e \/ v = e) ->
  (v = e \/ lookup (update c e v) v = Some v \/ desc e v) ->
  ok (update c e v).
Proof.
  intros (Hinv & Hwf & Hlk) Hs Hself Hv He Hd. split; [|split].
  - apply cache_inv_update; assumption.
  - apply wf_update; assumption.
  - apply linked_update; assumption.
Qed.

(** ** [get_fixed_point] returns with enough fuel *)
Lemma chase_update_final c v v' fin :
  lookup c v = Some v' -> v' <> v -> chases c v (Some fin) ->
  forall m k f, chase m c k = Some (Some f) -> chase m (update c v fin) k = Some (Some f).
Proof.
  intros Hl Hne Hv.
  assert (Hfin : lookup c fin = Some fin) by (destruct Hv as [m0 Hm0]; eapply chase_final; exact Hm0).
  assert (Hvf : v <> fin) by (intros ->; congruence).
  induction m as [|m IH]; intros k f Hm; [discriminate|].
  cbn [chase] in Hm |- *.
  destruct (expr_eq_dec k v) as [->|Hkv].
  - rewrite lookup_update_same, (eqb_neq _ _ Hvf).
    assert (f = fin).
    { assert (A : chases c v (Some f)) by (exists (S m); cbn [chase]; exact Hm).
      pose proof (chases_det _ _ _ _ A Hv) as B. congruence. }
    subst f. rewrite Hl, eqb_neq in Hm by congruence.
    destruct m as [|m]; [discriminate|]. cbn [chase].
    rewrite lookup_update_other, Hfin, expr_eqb_refl by congruence. reflexivity.
  - rewrite lookup_update_other by assumption.
    destruct (lookup c k) as [w|]; [|discriminate].
    destruct (expr_eqb k w); [exact Hm|]. apply IH. exact Hm.
Qed.

Lemma compress_spec : forall m c v fin, ok c -> chase m c v = Some (Some fin) ->
  exists c1, compress m c v fin = GSome c1 fin /\ ext c c1 /\ ok c1.
Proof.
  induction m as [|m IH]; intros c v fin Hok Hm; [discriminate|].
  pose proof Hm as Hm0. cbn [chase] in Hm.
  destruct (lookup c v) as [v'|] eqn:El; [|discriminate].
  destruct (expr_eqb v v') eqn:E.
  - apply expr_eqb_eq in E. subst v'. inversion Hm; subst fin. exists c.
    cbn [compress]. rewrite expr_eqb_refl. split; [reflexivity|split; [apply ext_refl|exact Hok]].
  - assert (Hne : v' <> v) by (apply not_eq_sym; apply eqb_false_neq; exact E).
    assert (Hfin : lookup c fin = Some fin) by (eapply chase_final; exact Hm).
    assert (Hvf : v <> fin) by (intros ->; congruence).
    assert (Hv : chases c v (Some fin)) by (exists (S m); exact Hm0).
    set (c2 := update c v fin).
    assert (Hfin2 : lookup c2 fin = Some fin) by (unfold c2; rewrite lookup_update_other; congruence).
    assert (Hok2 : ok c2).
    { destruct (chase_sound _ _ _ _ (proj1 Hok) Hm0) as [Hs _].
      apply ok_update; try assumption.
      - intros ->. congruence.
      - right. eexists. apply chases_self. exact Hfin2.
      - left. congruence.
      - right; left. exact Hfin2. }
    assert (Hext : ext c c2).
    { apply (ext_via_update c v fin c2); [exact (proj1 (proj2 Hok))|apply ext_refl|].
      exists fin. eapply chases_step; [apply lookup_update_same|congruence|apply chases_self; exact Hfin2]. }
    destruct (IH c2 v' fin Hok2 (chase_update_final _ _ _ _ El Hne Hv _ _ _ Hm)) as (c1 & Hc & He & Ho).
    exists c1. cbn [compress]. rewrite (eqb_neq _ _ Hvf), El. fold c2.
    split; [exact Hc|split; [eapply ext_trans; eassumption|exact Ho]].
Qed.

Definition gspec (c : cache) (k : expr) (G : gfp) : Prop :=
  match G with
  | GSome c1 fv => ext c c1 /\ ok c1 /\ chases c k (Some fv)
  | GNone c1 => c1 = c /\ ~ resolved c k
  | GFuel => False
  end.

Lemma gfp_spec c k : ok c ->
  exists B G, (forall f, (B <= f)%nat -> get_fixed_point f c k = G) /\ gspec c k G.
Proof.
  intros Hok. destruct (proj1 (proj2 Hok) k) as [o [m Hm]]. exists m.
  unfold get_fixed_point.
  destruct (lookup c k) as [v0|] eqn:El.
  - destruct (expr_eqb k v0) eqn:E.
    + apply expr_eqb_eq in E. subst v0. exists (GSome c k). split; [reflexivity|].
      split; [apply ext_refl|split; [exact Hok|apply chases_self; exact El]].
    + destruct o as [fin|].
      * destruct (compress_spec _ _ _ _ Hok Hm) as (c1 & Hc & He & Ho).
        exists (GSome c1 fin). split.
        -- intros f Hf. rewrite (chase_mono _ _ _ _ Hm f Hf).
           apply (compress_mono _ _ _ _ _ Hc ltac:(discriminate) f Hf).
        -- split; [exact He|split; [exact Ho|exists m; exact Hm]].
      * exists (GNone c). split.
        -- intros f Hf. rewrite (chase_mono _ _ _ _ Hm f Hf). reflexivity.
        -- split; [reflexivity|]. intros [f Hf].
           assert (A : chases c k None) by (exists m; exact Hm).
           pose proof (chases_det _ _ _ _ A Hf). discriminate.
  - exists (GNone c). split; [reflexivity|]. split; [reflexivity|].
    intros [f Hf]. pose proof (chases_det _ _ _ _ (chases_nokey _ _ El) Hf). discriminate.
Qed.

(** ** the children loop returns with enough fuel *)
Lemma visit_spec : forall chs c, ok c ->
  exists B c1 cs chg miss,
    (forall f, (B <= f)%nat -> visit f c chs = VOk c1 cs chg miss) /\
    ext c c1 /\ ok c1 /\
    (forall ch, In ch chs -> resolved c1 ch \/ In ch miss) /\
    (forall x, In x miss -> In x chs) /\
    ((forall ch, In ch chs -> resolved c ch) -> miss = []).
Proof.
  induction chs as [|ch rest IH]; intros c Hok.
  - exists O, c, [], false, []. split; [reflexivity|].
    split; [apply ext_refl|split; [exact Hok|]]. split; [intros ? []|split; [intros ? []|reflexivity]].
  - destruct (gfp_spec c ch Hok) as (B1 & G & HG & Hspec).
    destruct G as [c1 v|c1|]; cbn [gspec] in Hspec; [| |contradiction].
    + destruct Hspec as (He1 & Hok1 & Hv).
      destruct (IH c1 Hok1) as (B2 & c2 & cs & chg & miss & HV & He2 & Hok2 & Hres & Hsub & Hall).
      exists (Nat.max B1 B2), c2, (v :: cs), (negb (expr_eqb v ch) || chg), miss.
      split; [|split; [|split; [|split; [|split]]]].
      * intros f Hf. cbn [visit]. rewrite (HG f) by lia. rewrite (HV f) by lia. reflexivity.
      * eapply ext_trans; eassumption.
      * exact Hok2.
      * intros x [<-|Hx]; [|apply Hres; exact Hx].
        left. apply (proj1 He2). apply (proj1 He1). exists v. exact Hv.
      * intros x Hx. right. apply Hsub. exact Hx.
      * intros Hr. apply Hall. intros x Hx. apply (proj1 He1). apply Hr. right. exact Hx.
    + destruct Hspec as (-> & Hnr).
      destruct (IH c Hok) as (B2 & c2 & cs & chg & miss & HV & He2 & Hok2 & Hres & Hsub & Hall).
      exists (Nat.max B1 B2), c2, cs, chg, (ch :: miss).
      split; [|split; [|split; [|split; [|split]]]].
      * intros f Hf. cbn [visit]. rewrite (HG f) by lia. rewrite (HV f) by lia. reflexivity.
      * exact He2.
      * exact Hok2.
      * intros x [<-|Hx]; [right; left; reflexivity|].
        destruct (Hres _ Hx) as [H|H]; [left; exact H|right; right; exact H].
      * intros x [<-|Hx]; [left; reflexivity|right; apply Hsub; exact Hx].
      * intros Hr. exfalso. apply Hnr. apply Hr. left. reflexivity.
Qed.

(** ** one step of the cache-free driver *)
Lemma simp_children_F2 g : forall chs cs, simp_children (simp g) chs = inr cs ->
  Forall2 (fun ch v => simp g ch = SOk v) chs cs.
Proof.
  induction chs as [|ch rest IH]; intros cs H; cbn [simp_children] in H.
  - inversion H. constructor.
  - destruct (simp g ch) as [v| |] eqn:Ec; try discriminate.
    destruct (simp_children (simp g) rest) as [|rest'] eqn:Er; [discriminate|].
    inversion H; subst cs. constructor; [exact Ec|apply IH; reflexivity].
Qed.

Lemma F2_simp_NF g chs cs : Forall2 (fun ch v => simp g ch = SOk v) chs cs -> Forall2 NF chs cs.
Proof. induction 1; constructor; [eexists; eassumption|assumption]. Qed.

Lemma F2_simp_In g chs cs : Forall2 (fun ch v => simp g ch = SOk v) chs cs ->
  forall x, In x chs -> exists v, simp g x = SOk v.
Proof. induction 1 as [|ch v chs cs H _ IH]; intros x []; [subst; eexists; eassumption|apply IH; assumption]. Qed.

Lemma F2_NF_det : forall chs cs cs', Forall2 NF chs cs -> Forall2 NF chs cs' -> cs = cs'.
Proof.
  induction chs as [|ch rest IH]; intros cs cs' H1 H2; inversion H1; inversion H2; subst; [reflexivity|].
  f_equal; [eapply NF_det; eassumption|eapply IH; eassumption].
Qed.

Lemma simp_step_inv g e r : simp (S g) e = SOk r ->
  exists cs o, Forall2 (fun ch v => simp g ch = SOk v) (children e) cs /\ simplify e cs = Ok o /\
    ((new_of e cs o = e /\ r = e) \/ (new_of e cs o <> e /\ simp g (new_of e cs o) = SOk r)).
Proof.
  intros Hs. cbn [simp] in Hs.
  destruct (simp_children (simp g) (children e)) as [err|cs] eqn:Ecs.
  { exfalso. eapply simp_children_inl_not_ok; [exact Ecs|exact Hs]. }
  pose proof (simp_children_F2 _ _ _ Ecs) as HF.
  assert (Hlen : length cs = length (children e)).
  { symmetry. eapply Forall2_len. exact HF. }
  destruct (simplify e cs) as [o|] eqn:Ho; [|discriminate].
  exists cs, o. split; [exact HF|split; [exact Ho|]].
  unfold new_of. destruct o as [r0|].
  - destruct (expr_eqb r0 e) eqn:E.
    + apply expr_eqb_eq in E. inversion Hs. left. split; congruence.
    + right. split; [apply eqb_false_neq; exact E|exact Hs].
  - rewrite changed_spec_list_eqb by exact Hlen.
    destruct (list_eqb cs (children e)) eqn:El; cbn [negb].
    + inversion Hs. left. split; reflexivity.
    + right. split; [|exact Hs]. intros Hr. apply rebuild_self in Hr; [|exact Hlen].
      subst cs. rewrite list_eqb_refl in El. discriminate.
Qed.

(** the one-step result needs strictly less fuel *)
Lemma onestep_desc e cs o :
  Forall2 NF (children e) cs -> simplify e cs = Ok o -> new_of e cs o <> e -> desc e (new_of e cs o).
Proof.
  intros HF Ho Hne m r Hs. destruct m as [|g]; [discriminate|].
  destruct (simp_step_inv _ _ _ Hs) as (cs' & o' & HF' & Ho' & Hcase).
  assert (cs' = cs) by (eapply F2_NF_det; [eapply F2_simp_NF; exact HF'|exact HF]). subst cs'.
  rewrite Ho in Ho'. inversion Ho'; subst o'.
  destruct Hcase as [[H _]|[_ H]]; [contradiction|]. exists g. split; [lia|exact H].
Qed.

(** ** the work loop: [steps c t c' t']: from cache [c] and stack [t] the loop arrives at [c'] and [t'],
    using at most [K] units of fuel *)
Definition steps (c : cache) (t : list expr) (c' : cache) (t' : list expr) : Prop :=
  exists K, forall f, (K <= f)%nat -> exists f', (f <= f' + K)%nat /\ run f c t = run f' c' t'.

Lemma steps_refl c t : steps c t c t.
Proof. exists O. intros f _. exists f. split; [lia|reflexivity]. Qed.

Lemma steps_trans c1 t1 c2 t2 c3 t3 : steps c1 t1 c2 t2 -> steps c2 t2 c3 t3 -> steps c1 t1 c3 t3.
Proof.
  intros [K1 H1] [K2 H2]. exists (K1 + K2)%nat. intros f Hf.
  destruct (H1 f ltac:(lia)) as (f1 & Hf1 & E1).
  destruct (H2 f1 ltac:(lia)) as (f2 & Hf2 & E2).
  exists f2. split; [lia|congruence].
Qed.

Lemma steps_final c t c' : steps c t c' [] -> exists F, forall f, (F <= f)%nat -> run f c t = ROk c'.
Proof.
  intros [K H]. exists (S K). intros f Hf. destruct (H f ltac:(lia)) as (f' & Hf' & E).
  rewrite E. destruct f' as [|f']; [lia|reflexivity].
Qed.

Lemma steps_visit_missing c e rest B c1 cs chg m ms :
  (forall f, (B <= f)%nat -> visit f c (children e) = VOk c1 cs chg (m :: ms)) ->
  steps c (e :: rest) c1 (rev (m :: ms) ++ e :: rest).
Proof.
  intros HV. exists (S B). intros f Hf. destruct f as [|f]; [lia|].
  exists f. split; [lia|]. cbn [run]. rewrite (HV f) by lia. reflexivity.
Qed.

Lemma steps_visit_done c e rest B c1 cs o :
  (forall f, (B <= f)%nat -> visit f c (children e) = VOk c1 cs (changed_spec cs (children e)) []) ->
  simplify e cs = Ok o ->
  let new := new_of e cs o in
  let c2 := update c1 e new in
  steps c (e :: rest) c2 (if negb (expr_eqb e new) && is_none (lookup c2 new) then new :: rest else rest).
Proof.
  intros HV Ho new c2. exists (S B). intros f Hf. destruct f as [|f]; [lia|].
  exists f. split; [lia|]. cbn [run]. rewrite (HV f) by lia. rewrite Ho. cbv zeta.
  fold (new_of e cs o). fold new. fold c2.
  destruct (negb (expr_eqb e new) && is_none (lookup c2 new)); reflexivity.
Qed.

(** ** the big step: processing [e] (with cache-free fuel [n]) brings the loop back to [rest] *)
Definition BS (n : nat) : Prop :=
  forall e r, simp n e = SOk r -> forall c rest, ok c -> nopend n c ->
    exists c', ext c c' /\ ok c' /\ resolved c' e /\ steps c (e :: rest) c' rest.

Lemma BS_list g : BS g -> forall l c rest,
  (forall x, In x l -> exists v, simp g x = SOk v) -> ok c -> nopend g c ->
  exists c', ext c c' /\ ok c' /\ (forall x, In x l -> resolved c' x) /\ steps c (l ++ rest) c' rest.
Proof.
  intros HBS. induction l as [|x l IH]; intros c rest Hall Hok Hnp.
  - exists c. split; [apply ext_refl|split; [exact Hok|split; [intros ? []|apply steps_refl]]].
  - destruct (Hall x (or_introl eq_refl)) as [v Hv].
    destruct (HBS x v Hv c (l ++ rest) Hok Hnp) as (c1 & He1 & Hok1 & Hr1 & Hs1).
    destruct (IH c1 rest (fun y Hy => Hall y (or_intror Hy)) Hok1 (nopend_ext _ _ _ He1 Hnp))
      as (c2 & He2 & Hok2 & Hr2 & Hs2).
    exists c2. split; [eapply ext_trans; eassumption|split; [exact Hok2|split]].
    + intros y [<-|Hy]; [apply (proj1 He2); exact Hr1|apply Hr2; exact Hy].
    + cbn [app]. eapply steps_trans; eassumption.
Qed.

(** all children are resolved: the node is rewritten, its entry written, the result followed *)
Lemma phase3 g e r : BS g -> simp (S g) e = SOk r -> (forall r', simp g e <> SOk r') ->
  forall c2 rest B c3 cs chg, ok c2 -> nopend (S g) c2 ->
    (forall f, (B <= f)%nat -> visit f c2 (children e) = VOk c3 cs chg []) -> ext c2 c3 -> ok c3 ->
    exists c', ext c2 c' /\ ok c' /\ resolved c' e /\ steps c2 (e :: rest) c' rest.
Proof.
  intros HBS Hs Hmin c2 rest B c3 cs chg Hok2 Hnp2 HV He23 Hok3.
  pose proof (visit_sound B (children e) c2 (proj1 Hok2)) as Hvs.
  rewrite (HV B (le_n _)) in Hvs. destruct Hvs as [_ Hvs]. destruct (Hvs eq_refl) as [HF Hchg]. clear Hvs.
  subst chg.
  destruct (simp_step_inv _ _ _ Hs) as (cs0 & o & HF0 & Ho & Hcase).
  assert (cs0 = cs) by (eapply F2_NF_det; [eapply F2_simp_NF; exact HF0|exact HF]). subst cs0.
  pose proof (steps_visit_done c2 e rest B c3 cs o HV Ho) as Hst. cbv zeta in Hst.
  pose proof (nopend_ext _ _ _ He23 Hnp2) as Hnp3.
  pose proof Hok3 as (Hinv3 & Hwf3 & Hlk3).
  set (new := new_of e cs o) in *.
  set (c4 := update c3 e new) in *.
  destruct Hcase as [[Hnew Hr]|[Hnew Hsn]].
  - (* the node is its own result *)
    subst r. rewrite Hnew in Hst. rewrite expr_eqb_refl in Hst. cbn [negb andb] in Hst.
    assert (Hre : resolved c4 e).
    { exists e. apply chases_self. unfold c4. rewrite Hnew. apply lookup_update_same. }
    exists c4. split; [|split; [|split; [exact Hre|exact Hst]]].
    + eapply ext_trans; [exact He23|]. apply (ext_via_update c3 e new c4 Hwf3 (ext_refl _) Hre).
    + unfold c4. rewrite Hnew. apply ok_update; try (left; reflexivity); try (right; reflexivity).
      * exact Hok3.
      * apply same_nf_refl.
      * intros _. exists (S g). exact Hs.
  - (* the result is another node *)
    assert (Hen : expr_eqb e new = false) by (apply eqb_neq; congruence).
    rewrite Hen in Hst. cbn [negb andb] in Hst.
    destruct (step_sound e cs o HF Ho) as [Hsame _]. fold new in Hsame.
    pose proof (onestep_desc e cs o HF Ho Hnew) as Hdesc. fold new in Hdesc.
    assert (Hnself : lookup c3 e <> Some e).
    { intros Hl. pose proof (proj2 Hinv3 _ Hl) as Hee.
      assert (r = e) by (eapply NF_det; [exists (S g); exact Hs|exact Hee]). subst r.
      destruct (simp_idempotent_lemma _ _ _ Hsn) as (m & Hm & Hme).
      apply (Hmin e). apply (simp_fuel_mono _ _ _ Hme). exact Hm. }
    assert (Hnreach : forall k r', reach c3 k e -> simp g k <> SOk r').
    { intros k r' Hr Hk. apply (Hmin r'). eapply reach_desc; eassumption. }
    assert (Hnew4 : exists o', chases c3 new o' /\ chases c4 new o').
    { destruct (Hwf3 new) as [o' [m Hm]]. exists o'. split; [exists m; exact Hm|].
      destruct (chase_update_or_reach c3 e new _ _ _ Hm) as [H|H]; [exact H|].
      exfalso. exact (Hnreach _ _ H Hsn). }
    destruct Hnew4 as (o' & Hn3 & Hn4).
    assert (Hok4 : ok c4).
    { unfold c4. apply ok_update.
      - exact Hok3.
      - exact Hsame.
      - intros Hc. contradiction.
      - right. exists o'. exact Hn4.
      - left. exact Hnself.
      - right; right. exact Hdesc. }
    assert (Hle4 : lookup c4 e = Some new) by apply lookup_update_same.
    assert (Hnp4 : nopend g c4).
    { intros k [[w Hw] Hp] r' Hk.
      destruct (expr_eq_dec k e) as [->|Hke]; [exact (Hmin _ Hk)|].
      unfold c4 in Hw. rewrite lookup_update_other in Hw by assumption.
      destruct (Hwf3 k) as [ok' [m Hm]].
      destruct (chase_update_or_reach c3 e new _ _ _ Hm) as [H|H].
      - pose proof (chases_det _ _ _ _ H Hp). subst ok'.
        refine (Hnp3 k _ r' _); [split; [exists w; exact Hw|exists m; exact Hm]|].
        apply (simp_fuel_mono _ _ _ Hk). lia.
      - exact (Hnreach _ _ H Hk). }
    destruct (lookup c3 new) as [w|] eqn:Eln.
    + (* the result has an entry already: it is resolved *)
      assert (Eln4 : lookup c4 new = Some w) by (unfold c4; rewrite lookup_update_other; assumption).
      rewrite Eln4 in Hst. cbn [is_none] in Hst.
      destruct o' as [fv|].
      2:{ exfalso. refine (Hnp3 new _ r _); [split; [exists w; exact Eln|exact Hn3]|].
          apply (simp_fuel_mono _ _ _ Hsn). lia. }
      assert (Hre : resolved c4 e).
      { exists fv. eapply chases_step; [exact Hle4|exact Hnew|exact Hn4]. }
      exists c4. split; [|split; [exact Hok4|split; [exact Hre|exact Hst]]].
      eapply ext_trans; [exact He23|]. apply (ext_via_update c3 e new c4 Hwf3 (ext_refl _) Hre).
    + (* the result is new: it is pushed and processed *)
      assert (Eln4 : lookup c4 new = None) by (unfold c4; rewrite lookup_update_other; assumption).
      rewrite Eln4 in Hst. cbn [is_none] in Hst.
      destruct (HBS new r Hsn c4 rest Hok4 Hnp4) as (c5 & He45 & Hok5 & Hr5 & Hs5).
      assert (Hre : resolved c5 e).
      { destruct (proj2 (proj2 He45) _ _ Hle4) as [H|H]; [|exact H].
        destruct Hr5 as [fv Hfv]. exists fv. eapply chases_step; [exact H|exact Hnew|exact Hfv]. }
      exists c5. split; [|split; [exact Hok5|split; [exact Hre|eapply steps_trans; eassumption]]].
      eapply ext_trans; [exact He23|]. apply (ext_via_update c3 e new c5 Hwf3 He45 Hre).
Qed.

Lemma In_rev_iff (l : list expr) x : In x (rev l) <-> In x l.
Proof. symmetry. apply in_rev. Qed.

Theorem big_step : forall n, BS n.
Proof.
  induction n as [|g IH]; intros e r Hs c rest Hok Hnp; [discriminate|].
  destruct (simp g e) as [r'| |] eqn:Eg.
  { (* not the least fuel: one level down *)
    assert (r' = r) by (eapply simp_deterministic; eassumption). subst r'.
    apply (IH e r Eg c rest Hok). apply (nopend_le (S g)); [lia|exact Hnp]. }
  all: assert (Hmin : forall r', simp g e <> SOk r') by (intros r' Hc; congruence).
  all: destruct (simp_step_inv _ _ _ Hs) as (cs0 & o0 & HF0 & _ & _).
  all: destruct (visit_spec (children e) c Hok) as (B & c1 & cs & chg & miss & HV & He1 & Hok1 & Hres & Hsub & _).
  all: destruct miss as [|m ms];
    [exact (phase3 g e r IH Hs Hmin c rest B c1 cs chg Hok Hnp HV He1 Hok1)|].
  all: pose proof (steps_visit_missing c e rest B c1 cs chg m ms HV) as Hst1.
  all: destruct (BS_list g IH (rev (m :: ms)) c1 (e :: rest)) as (c2 & He2 & Hok2 & Hr2 & Hst2);
    [intros x Hx; apply (F2_simp_In _ _ _ HF0); apply Hsub; apply In_rev_iff; exact Hx
    |exact Hok1
    |apply (nopend_le (S g)); [lia|]; eapply nopend_ext; eassumption|].
  all: assert (Hnp2 : nopend (S g) c2) by (eapply nopend_ext; [exact He2|eapply nopend_ext; eassumption]).
  all: destruct (visit_spec (children e) c2 Hok2) as (B' & c3 & cs' & chg' & miss' & HV' & He3 & Hok3 & _ & _ & Hall).
  all: assert (miss' = []) by
    (apply Hall; intros ch Hch; destruct (Hres ch Hch) as [H|H];
     [apply (proj1 He2); exact H|apply Hr2; apply In_rev_iff; exact H]).
  all: subst miss'.
  all: destruct (phase3 g e r IH Hs Hmin c2 rest B' c3 cs' chg' Hok2 Hnp2 HV' He3 Hok3) as (c' & He' & Hok' & Hre & Hst3).
  all: exists c'; split; [eapply ext_trans; [exact He1|eapply ext_trans; eassumption]|];
    split; [exact Hok'|split; [exact Hre|]];
    eapply steps_trans; [exact Hst1|eapply steps_trans; eassumption].
Qed.

(** ** the invariant at quiescent points *)
Definition cache_good (c : cache) : Prop :=
  cache_inv c /\ linked c /\ (forall k, haskey c k -> resolved c k).

Lemma cache_good_nil : cache_good [].
Proof.
  split; [apply cache_inv_nil|split].
  - intros k v H. discriminate.
  - intros k [v H]. discriminate.
Qed.

Lemma cache_good_inv c : cache_good c -> cache_inv c.
Proof. intros H. exact (proj1 H). Qed.

Lemma good_ok c : cache_good c -> ok c.
Proof.
  intros (Hinv & Hlk & Hres). split; [exact Hinv|split; [|exact Hlk]].
  intros k. destruct (lookup c k) as [v|] eqn:El.
  - destruct (Hres k (ex_intro _ v El)) as [f Hf]. exists (Some f). exact Hf.
  - exists None. apply chases_nokey. exact El.
Qed.

Lemma good_nopend c n : cache_good c -> nopend n c.
Proof.
  intros (_ & _ & Hres) k Hp. exfalso. eapply resolved_not_pending; [apply Hres; exact (proj1 Hp)|exact Hp].
Qed.

Lemma good_ext c c' : cache_good c -> ext c c' -> ok c' -> cache_good c'.
Proof.
  intros Hg (_ & E2 & _) (Hinv & Hwf & Hlk). split; [exact Hinv|split; [exact Hlk|]].
  intros k Hk. destruct (wf_cases _ _ Hwf Hk) as [H|H]; [exact H|].
  exfalso. pose proof (E2 _ H) as Hp.
  eapply resolved_not_pending; [apply (proj2 (proj2 Hg)); exact (proj1 Hp)|exact Hp].
Qed.

(** ** completeness *)
Theorem simplify_cached_complete_strong : forall c e r, cache_good c -> NF e r ->
  exists F c', cache_good c' /\ forall fuel, (F <= fuel)%nat -> simplify_cached fuel c e = (c', SOk r).
Proof.
  intros c e r Hg [n Hn].
  destruct (big_step n e r Hn c [] (good_ok _ Hg) (good_nopend _ _ Hg)) as (c1 & He1 & Hok1 & Hr1 & Hst).
  destruct (steps_final _ _ _ Hst) as [F1 HF1].
  destruct (gfp_spec c1 e Hok1) as (B & G & HG & Hspec).
  destruct G as [c2 fv|c2|]; cbn [gspec] in Hspec; [|exfalso; apply (proj2 Hspec); exact Hr1|contradiction].
  destruct Hspec as (He2 & Hok2 & Hfv).
  assert (fv = r).
  { eapply NF_det; [eapply resolved_nf; [exact (proj1 Hok1)|exact Hfv]|exists n; exact Hn]. }
  subst fv. exists (Nat.max F1 B), c2. split.
  - eapply good_ext; [exact Hg|eapply ext_trans; eassumption|exact Hok2].
  - intros fuel Hf. unfold simplify_cached. rewrite (HF1 fuel) by lia. rewrite (HG fuel) by lia. reflexivity.
Qed.

Theorem simplify_cached_complete :
  forall c e r, cache_good c -> NF e r ->
    exists F, forall fuel, (F <= fuel)%nat ->
      exists c', simplify_cached fuel c e = (c', SOk r) /\ cache_good c'.
Proof.
  intros c e r Hg Hnf. destruct (simplify_cached_complete_strong c e r Hg Hnf) as (F & c' & Hg' & H).
  exists F. intros fuel Hf. exists c'. split; [apply H; exact Hf|exact Hg'].
Qed.

(** every returning call preserves the invariant, whatever the fuel it was given *)
Theorem simplify_cached_good : forall fuel c e c' r,
  cache_good c -> simplify_cached fuel c e = (c', SOk r) -> cache_good c'.
Proof.
  intros fuel c e c' r Hg H.
  pose proof (proj2 (simplify_cached_sound _ _ _ _ _ (proj1 Hg) H)) as Hnf.
  destruct (simplify_cached_complete_strong c e r Hg Hnf) as (F & c'' & Hg'' & HF).
  pose proof (simplify_cached_mono _ _ _ _ _ H ltac:(discriminate) (Nat.max fuel F) (Nat.le_max_l _ _)) as A.
  rewrite (HF (Nat.max fuel F) (Nat.le_max_r _ _)) in A. inversion A; subst. exact Hg''.
Qed.

Theorem simplify_cached_iff : forall c e r, cache_good c ->
  (NF e r <-> exists fuel c', simplify_cached fuel c e = (c', SOk r)).
Proof.
  intros c e r Hg. split.
  - intros Hnf. destruct (simplify_cached_complete_strong c e r Hg Hnf) as (F & c' & _ & HF).
    exists F, c'. apply HF. apply le_n.
  - intros (fuel & c' & H). exact (proj2 (simplify_cached_sound _ _ _ _ _ (proj1 Hg) H)).
Qed.

(** ** a whole history with one instance *)
Theorem simplify_batch_complete : forall es rs c, cache_good c -> Forall2 NF es rs ->
  exists F c', cache_good c' /\
    forall fuel, (F <= fuel)%nat -> simplify_batch fuel c es = (c', map SOk rs).
Proof.
  intros es rs c Hg HF. revert c Hg. induction HF as [|e r es rs Hnf _ IH]; intros c Hg.
  - exists O, c. split; [exact Hg|]. intros; reflexivity.
  - destruct (simplify_cached_complete_strong c e r Hg Hnf) as (F1 & c1 & Hg1 & H1).
    destruct (IH c1 Hg1) as (F2 & c2 & Hg2 & H2).
    exists (Nat.max F1 F2), c2. split; [exact Hg2|]. intros fuel Hf.
    cbn [simplify_batch map]. rewrite (H1 fuel) by lia. rewrite (H2 fuel) by lia. reflexivity.
Qed.

(** the caches reachable from a fresh instance by returning calls *)
Inductive reachable : cache -> Prop :=
| reachable_nil : reachable []
| reachable_call c fuel e c' r : reachable c -> simplify_cached fuel c e = (c', SOk r) -> reachable c'.

Theorem reachable_good c : reachable c -> cache_good c.
Proof. induction 1; [apply cache_good_nil|eapply simplify_cached_good; eassumption]. Qed.

Theorem simplify_cached_complete_reachable : forall c e r, reachable c -> NF e r ->
  exists F, forall fuel, (F <= fuel)%nat -> exists c', simplify_cached fuel c e = (c', SOk r) /\ reachable c'.
Proof.
  intros c e r Hr Hnf. destruct (simplify_cached_complete c e r (reachable_good _ Hr) Hnf) as [F HF].
  exists F. intros fuel Hf. destruct (HF fuel Hf) as (c' & H & _). exists c'. split; [exact H|].
  eapply reachable_call; eassumption.
Qed.

(** ** examples: the hypotheses are satisfiable and the statements describe actual runs *)
Module CompleteExamples.
  Local Open Scope string_scope.
  Definition a := BVSymbol "a" 8.
  Definition nna := BVNot (BVNot a 8) 8.
  (** both children are the same missing node: it is pushed (and processed) twice, the second time
      with an entry already present - the case where the loop overwrites an entry *)
  Definition twice := BVAnd nna nna 8.
  Definition imp := BVImplies (BVEqual a a) (BVEqual nna a).

  Example nf_twice : NF twice a.
  Proof. exists 10%nat. vm_compute. reflexivity. Qed.

  Example run_twice :
    snd (simplify_cached 20 [] twice) = SOk a /\
    snd (simplify_batch 30 [] [twice; nna; imp; twice]) = [SOk a; SOk a; SOk (BVLiteral 1 1); SOk a].
  Proof. vm_compute. split; reflexivity. Qed.

  (** the cache after the first call satisfies the invariant (by the theorem, not by computation) *)
  Example good_after : cache_good (fst (simplify_cached 20 [] twice)).
  Proof.
    eapply (simplify_cached_good 20 [] twice _ a cache_good_nil).
    vm_compute. reflexivity.
  Qed.
End CompleteExamples.

Print Assumptions big_step.
Print Assumptions simplify_cached_complete.
Print Assumptions simplify_cached_good.
Print Assumptions simplify_cached_iff.
Print Assumptions simplify_batch_complete.
Print Assumptions simplify_cached_complete_reachable.
Print Assumptions cache_good_nil.
