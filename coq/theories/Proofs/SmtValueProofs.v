(** * Proofs/SmtValueProofs.v — C14: single-binding [let] in the reader's machine, and model
    values in the forms solvers print them: the reader returns an expression that denotes what
    the reference evaluator says the text denotes. *)
From Coq Require Import Lia.
From Patronus Require Import SmtParse BVLemmas ExprLemmas EvalProofs SmtCharLemmas SmtSerLemmas SmtSemLemmas SmtSerProofs SmtParseLemmas SmtParseProofs SmtRoundTrip.
Open Scope string_scope.
Open Scope list_scope.
Open Scope N_scope.

Section CV.
Variable cv : variant.
Local Notation is_simple_id := (SmtSer.is_simple_id cv) (only parsing).
Local Notation escape_id := (SmtSer.escape_id cv) (only parsing).
Local Notation ser := (SmtSer.ser cv) (only parsing).
Local Notation ser_cmd := (SmtSer.ser_cmd cv) (only parsing).
Local Notation name_ok := (SmtSer.name_ok cv) (only parsing).
Local Notation declared := (SmtSer.declared cv) (only parsing).
Local Notation symbols_declared := (SmtSer.symbols_declared cv) (only parsing).
Local Notation lx_go := (SmtLex.lx_go cv) (only parsing).
Local Notation lex_impl := (SmtLex.lex_impl cv) (only parsing).
Local Notation early_other := (SmtParse.early_other cv) (only parsing).
Local Notation early_parse := (SmtParse.early_parse cv) (only parsing).
Local Notation step := (SmtParse.step cv) (only parsing).
Local Notation run := (SmtParse.run cv) (only parsing).
Local Notation parse_eot := (SmtParse.parse_eot cv) (only parsing).
Local Notation parse_expr_internal := (SmtParse.parse_expr_internal cv) (only parsing).
Local Notation parse_type := (SmtParse.parse_type cv) (only parsing).
Local Notation parse_expr_toks := (SmtParse.parse_expr_toks cv) (only parsing).
Local Notation parse_expr_str := (SmtParse.parse_expr_str cv) (only parsing).
Local Notation skip_expr := (SmtParse.skip_expr cv) (only parsing).
Local Notation parse_get_value_response_toks := (SmtParse.parse_get_value_response_toks cv) (only parsing).
Local Notation parse_get_value_response_str := (SmtParse.parse_get_value_response_str cv) (only parsing).
Local Notation parse_expr_list_go := (SmtParse.parse_expr_list_go cv) (only parsing).
Local Notation parse_expr_list_rest := (SmtParse.parse_expr_list_rest cv) (only parsing).
Local Notation parse_unsat_assumptions_toks := (SmtParse.parse_unsat_assumptions_toks cv) (only parsing).
Local Notation parse_unsat_assumptions_str := (SmtParse.parse_unsat_assumptions_str cv) (only parsing).
Local Notation parse_command_body := (SmtParse.parse_command_body cv) (only parsing).
Local Notation parse_command_toks := (SmtParse.parse_command_toks cv) (only parsing).
Local Notation parse_command_str := (SmtParse.parse_command_str cv) (only parsing).
Local Notation count_parens := (SmtParse.count_parens cv) (only parsing).
Local Notation rc_balance := (SmtParse.rc_balance cv) (only parsing).
Local Notation read_command := (SmtParse.read_command cv) (only parsing).
Local Notation is_simple_id_loop := (SmtSerLemmas.is_simple_id_loop cv) (only parsing).
Local Notation is_simple_id_chars := (SmtSerLemmas.is_simple_id_chars cv) (only parsing).
Local Notation is_simple_id_first := (SmtSerLemmas.is_simple_id_first cv) (only parsing).
Local Notation escape_sound_gen := (SmtSerLemmas.escape_sound_gen cv) (only parsing).
Local Notation escape_sound_lemma := (SmtSerLemmas.escape_sound_lemma cv) (only parsing).
Local Notation good := (SmtSerProofs.good cv) (only parsing).
Local Notation symbols_declared_app := (SmtSerProofs.symbols_declared_app cv) (only parsing).
Local Notation name_ok_facts := (SmtSerProofs.name_ok_facts cv) (only parsing).
Local Notation symbol_good := (SmtSerProofs.symbol_good cv) (only parsing).
Local Notation ser_core := (SmtSerProofs.ser_core cv) (only parsing).
Local Notation ser_eq := (SmtSerProofs.ser_eq cv) (only parsing).
Local Notation core_good := (SmtSerProofs.core_good cv) (only parsing).
Local Notation wrap_good_e := (SmtSerProofs.wrap_good_e cv) (only parsing).
Local Notation ser_good := (SmtSerProofs.ser_good cv) (only parsing).
Local Notation ser_sorted_sound_lemma := (SmtSerProofs.ser_sorted_sound_lemma cv) (only parsing).
Local Notation name_ok_intro := (SmtSerProofs.name_ok_intro cv) (only parsing).
Local Notation noop_slice_latent := (SmtSerProofs.noop_slice_latent cv) (only parsing).
Local Notation cont := (SmtParseProofs.cont cv) (only parsing).
Local Notation runs_to := (SmtParseProofs.runs_to cv) (only parsing).
Local Notation run_cons := (SmtParseProofs.run_cons cv) (only parsing).
Local Notation cont_nonempty := (SmtParseProofs.cont_nonempty cv) (only parsing).
Local Notation run_items := (SmtParseProofs.run_items cv) (only parsing).
Local Notation run_group := (SmtParseProofs.run_group cv) (only parsing).
Local Notation runs_value := (SmtParseProofs.runs_value cv) (only parsing).
Local Notation runs_escaped := (SmtParseProofs.runs_escaped cv) (only parsing).
Local Notation atom_item := (SmtParseProofs.atom_item cv) (only parsing).
Local Notation sxi := (SmtParseProofs.sxi cv) (only parsing).
Local Notation sxi_list := (SmtParseProofs.sxi_list cv) (only parsing).
Local Notation sxi_list_eq := (SmtParseProofs.sxi_list_eq cv) (only parsing).
Local Notation machine_sx := (SmtParseProofs.machine_sx cv) (only parsing).
Local Notation early_plain := (SmtParseProofs.early_plain cv) (only parsing).
Local Notation early_other_lookup := (SmtParseProofs.early_other_lookup cv) (only parsing).
Local Notation early_other_kw := (SmtParseProofs.early_other_kw cv) (only parsing).
Local Notation simple_plain := (SmtParseProofs.simple_plain cv) (only parsing).
Local Notation table_for := (SmtParseProofs.table_for cv) (only parsing).
Local Notation keys_ok := (SmtParseProofs.keys_ok cv) (only parsing).
Local Notation theory_not_ok := (SmtParseProofs.theory_not_ok cv) (only parsing).
Local Notation atom_head := (SmtParseProofs.atom_head cv) (only parsing).
Local Notation simple_not_kw := (SmtParseProofs.simple_not_kw cv) (only parsing).
Local Notation atom_symbol := (SmtParseProofs.atom_symbol cv) (only parsing).
Local Notation head_item := (SmtRoundTrip.head_item cv) (only parsing).
Local Notation numeral_item := (SmtRoundTrip.numeral_item cv) (only parsing).
Local Notation bitvec_item := (SmtRoundTrip.bitvec_item cv) (only parsing).
Local Notation elem_item := (SmtRoundTrip.elem_item cv) (only parsing).
Local Notation ser_type_arr_item := (SmtRoundTrip.ser_type_arr_item cv) (only parsing).
Local Notation syms_in := (SmtRoundTrip.syms_in cv) (only parsing).
Local Notation lit_item := (SmtRoundTrip.lit_item cv) (only parsing).
Local Notation sxi_wrap := (SmtRoundTrip.sxi_wrap cv) (only parsing).
Local Notation early_bits := (SmtRoundTrip.early_bits cv) (only parsing).
Local Notation early_zeros := (SmtRoundTrip.early_zeros cv) (only parsing).
Local Notation sxi_ser := (SmtRoundTrip.sxi_ser cv) (only parsing).
Local Notation parse_ser_lemma := (SmtRoundTrip.parse_ser_lemma cv) (only parsing).
Local Notation run_state := (SmtRoundTrip.run_state cv) (only parsing).
Local Notation end_of_tokens := (SmtRoundTrip.end_of_tokens cv) (only parsing).
Local Notation run_app_state := (SmtRoundTrip.run_app_state cv) (only parsing).
Local Notation run_nil := (SmtRoundTrip.run_nil cv) (only parsing).
Local Notation truncated_lemma := (SmtRoundTrip.truncated_lemma cv) (only parsing).
Local Notation trailing_token_error_lemma := (SmtRoundTrip.trailing_token_error_lemma cv) (only parsing).


(** ** the machine on a single-binding [let] *)

Lemma map_remove_absent {A} k (m : list (string * A)) : assoc_str k m = None -> map_remove k m = m.
Proof.
  induction m as [|[k' v] m IH]; [reflexivity|]. cbn [assoc_str map_remove].
  destruct (String.eqb k k'); [discriminate|]. intros H. now rewrite (IH H).
Qed.

Lemma pop_push st x e : assoc_str x (nst_lets st) = None -> nst_pop_let (nst_push_let st x e) = POk st.
Proof.
  intros H. unfold nst_push_let, nst_pop_let. rewrite H. cbn [nst_lets nst_undo nst_top]. unfold map_insert.
  cbn [map_remove]. rewrite String.eqb_refl. rewrite !(map_remove_absent x _ H). destruct st; reflexivity.
Qed.

(** a let binder: a plain token that stays a symbol and is not bound by an enclosing let *)
Definition binder_ok (st : nst) (x : string) : Prop :=
  ltok_of_atom x = TkValue x /\ early_parse None x = POk (ISym x) /\ assoc_str x (nst_lets st) = None.

Lemma run_let st x tv ev tb eb :
  binder_ok st x ->
  runs_to st tv (IExpr ev) ->
  runs_to (nst_push_let st x ev) tb (IExpr eb) ->
  runs_to st ([TkOpen; TkValue "let"; TkOpen; TkOpen; TkValue x] ++ tv ++ [TkClose; TkClose] ++ tb ++ [TkClose]) (IExpr eb).
Proof.
  intros (Hx1 & Hx2 & Hx3) Hv Hb stk rest Hg.
  cbn [app]. cbn [SmtParse.run].
  assert (S1 : step TkOpen stk st false = POk (IOpen false :: stk, st, false)).
  { cbn [SmtParse.step]. destruct stk as [|[] ?]; try reflexivity; destruct Hg. }
  rewrite S1. cbn [machine_done].
  (* let *)
  cbn [SmtParse.run SmtParse.step]. change (early_parse (Some st) "let") with (POk (ILet 0)). cbn [pbind machine_done].
  (* ( ( *)
  cbn [SmtParse.run SmtParse.step]. change (0 <? 2) with true. cbv iota. cbn [machine_done].
  cbn [SmtParse.run SmtParse.step]. change (0 + 1 <? 2) with true. cbv iota. cbn [machine_done].
  (* the binder *)
  cbn [SmtParse.run SmtParse.step]. change (match 0 + 1 + 1 with 2 => None | _ => Some st end) with (@None nst). change (0 + 1 + 1) with 2. rewrite Hx2. cbn [pbind machine_done].
  (* the value *)
  rewrite <- !app_assoc.
  rewrite (Hv (ISym x :: ILet 2 :: IOpen false :: stk) _ I). rewrite cont_nonempty.
  (* ) : the definition *)
  cbn [app SmtParse.run SmtParse.step split_at_open]. erewrite (SmtParseProofs.checked_ok cv) by reflexivity. cbn [pbind]. cbn [machine_done].
  (* ) : the scope *)
  cbn [SmtParse.run SmtParse.step machine_done].
  (* the body *)
  rewrite <- app_assoc. rewrite (Hb (IOpen true :: stk) _ I). rewrite cont_nonempty.
  (* ) *)
  cbn [app SmtParse.run SmtParse.step split_at_open]. erewrite (SmtParseProofs.checked_ok cv) by reflexivity. cbn [pbind]. rewrite (pop_push st x ev Hx3). cbn [pbind].
  unfold SmtParseProofs.cont. destruct (machine_done (IExpr eb :: stk)); reflexivity.
Qed.

(** ** model values in the forms solvers print them *)

Inductive mval : Type :=
| MBin (w v : N)
| MHex (ds : string)
| MTrue
| MFalse
| MVar (x : string)
| MConst (iw dw : N) (v : mval)
| MStore (a i d : mval)
| MLet (x : string) (v body : mval).

Fixpoint mv_sx (m : mval) : sx :=
  match m with
  | MBin w v => SxAtom (String.append "#b" (bits_str w v))
  | MHex ds => SxAtom (String.append "#x" ds)
  | MTrue => SxAtom "true"
  | MFalse => SxAtom "false"
  | MVar x => SxAtom x
  | MConst iw dw v => SxList [SxList [SxAtom "as"; SxAtom "const"; ser_type (TArr iw dw)]; mv_sx v]
  | MStore a i d => SxList [SxAtom "store"; mv_sx a; mv_sx i; mv_sx d]
  | MLet x v b => SxList [SxAtom "let"; SxList [SxList [SxAtom x; mv_sx v]]; mv_sx b]
  end.

(** the expression the reader builds; [env] = the enclosing let bindings, innermost first *)
Fixpoint mv_expr (env : symtab) (m : mval) : option expr :=
  match m with
  | MBin w v => Some (BVLiteral w v)
  | MHex ds => match digits_val hex_of 16 ds 0 0 with Some (len, v) => Some (BVLiteral (4 * len) v) | None => None end
  | MTrue => Some (BVLiteral 1 1)
  | MFalse => Some (BVLiteral 1 0)
  | MVar x => assoc_str x env
  | MConst iw dw v => match mv_expr env v with Some ev => Some (ArrayConstant ev iw dw) | None => None end
  | MStore a i d =>
      match mv_expr env a, mv_expr env i, mv_expr env d with
      | Some ea, Some ei, Some ed => Some (ArrayStore ea ei ed)
      | _, _, _ => None
      end
  | MLet x v b =>
      match mv_expr env v with Some ev => mv_expr ((x, ev) :: env) b | None => None end
  end.

(** a name usable as let binder / variable: a plain token, not a keyword of the reader, not a numeral, [_] or [as] *)
Definition var_ok (x : string) : Prop :=
  ltok_of_atom x = TkValue x /\ plain_value x = true /\ name_ok x = true /\ kw_tok x = false.

Fixpoint mv_wf (env : symtab) (m : mval) : Prop :=
  match m with
  | MBin w v => 0 < w /\ v < 2 ^ w
  | MHex ds => all_chars is_hex_digit ds = true
  | MTrue | MFalse => True
  | MVar x => var_ok x /\ assoc_str x env <> None
  | MConst iw dw v =>
      0 < iw /\ 0 < dw /\ iw < 2 ^ 32 /\ dw < 2 ^ 32 /\ mv_wf env v /\
      (forall ev, mv_expr env v = Some ev -> type_of ev = TBV dw)
  | MStore a i d =>
      mv_wf env a /\ mv_wf env i /\ mv_wf env d /\
      (forall ei, mv_expr env i = Some ei -> exists w, type_of ei = TBV w) /\
      (forall ed, mv_expr env d = Some ed -> exists w, type_of ed = TBV w)
  | MLet x v b =>
      var_ok x /\ assoc_str x env = None /\ mv_wf env v /\
      (forall ev, mv_expr env v = Some ev -> mv_wf ((x, ev) :: env) b)
  end.

Definition env_clean (env : symtab) : Prop :=
  forall n, name_ok n = false \/ (cv = Cur /\ kw_tok n = true) -> assoc_str n env = None.

Definition st_of (env : symtab) : nst := {| nst_top := []; nst_lets := env; nst_undo := [] |}.

Lemma nst_get_lets top env undo x :
  nst_get {| nst_top := top; nst_lets := env; nst_undo := undo |} x =
  match assoc_str x env with Some e => Some e | None => assoc_str x top end.
Proof. reflexivity. Qed.

Lemma early_bits_gen st w v : 0 < w -> v < 2 ^ w ->
  early_parse (Some st) (String.append "#b" (bits_str w v)) = POk (IExpr (BVLiteral w v)).
Proof.
  intros Hw Hv. unfold bits_str. cbn [String.append].
  unfold SmtParse.early_parse. change (Ascii.eqb "#" "#") with true. change (Ascii.eqb "b" "b") with true.
  rewrite bits_all_bin by lia. cbn [andb]. rewrite digits_val_bits. rewrite Nnat.N2Nat.id.
  unfold literal_expr. rewrite N.mod_small by assumption. do 3 f_equal; lia.
Qed.

Lemma early_hex st ds len v : all_chars is_hex_digit ds = true -> digits_val hex_of 16 ds 0 0 = Some (len, v) ->
  early_parse (Some st) (String.append "#x" ds) = POk (IExpr (BVLiteral (4 * len) v)).
Proof.
  intros Ha Hd. cbn [String.append]. unfold SmtParse.early_parse.
  change (Ascii.eqb "#" "#") with true. change (Ascii.eqb "x" "b") with false. change (Ascii.eqb "x" "x") with true.
  cbn [andb]. rewrite Ha, Hd. reflexivity.
Qed.

Lemma clean_cons env x e : env_clean env -> name_ok x = true -> kw_tok x = false -> env_clean ((x, e) :: env).
Proof.
  intros Hc Hn Hd n Hk. cbn [assoc_str]. destruct (String.eqb_spec n x) as [-> | _]; [|now apply Hc].
  destruct Hk as [Hk | [_ Hk]]; congruence.
Qed.

Theorem value_machine :
  forall m st e,
    nst_top st = [] -> env_clean (nst_lets st) -> mv_wf (nst_lets st) m -> mv_expr (nst_lets st) m = Some e ->
    runs_to st (toks_of_sx (mv_sx m)) (IExpr e).
Proof.
  induction m as [w v | ds | | | x | iw dw mv IHv | a IHa i IHi d IHd | x mv IHv body IHb];
    intros st e Htop Hclean Hwf He; cbn [mv_sx mv_expr mv_wf] in *.
  - inversion He; subst. destruct Hwf as [Hw Hv]. unfold toks_of_sx. cbn [flatten map ltok_of ltok_of_atom String.append].
    apply runs_value. now apply early_bits_gen.
  - destruct (digits_val hex_of 16 ds 0 0) as [[len v]|] eqn:Ed; [|discriminate]. inversion He; subst.
    unfold toks_of_sx. cbn [flatten map ltok_of ltok_of_atom String.append]. apply runs_value. now apply early_hex.
  - inversion He; subst. apply runs_value. reflexivity.
  - inversion He; subst. apply runs_value. reflexivity.
  - destruct Hwf as [(Hx1 & Hx2 & Hx3 & Hx4) _]. unfold toks_of_sx. cbn [flatten map ltok_of]. rewrite Hx1.
    apply runs_value. rewrite (early_plain st x Hx2), (early_other_lookup st x (fun _ => Hx4)).
    destruct st as [top lets undo]. cbn [nst_top nst_lets] in *. subst top.
    rewrite nst_get_lets, He. reflexivity.
  - destruct Hwf as (Hi0 & Hd0 & Hi & Hd & Hwv & Hty).
    destruct (mv_expr (nst_lets st) mv) as [ev|] eqn:Ev; [|discriminate]. inversion He; subst.
    assert (Hkeys : keys_ok st).
    { intros n Hk. destruct st as [top lets undo]. cbn [nst_top nst_lets] in *. subst top. rewrite nst_get_lets, (Hclean n Hk). reflexivity. }
    assert (Hhead : sxi st (SxList [SxAtom "as"; SxAtom "const"; ser_type (TArr iw dw)]) = POk (IAsConst iw dw)).
    { rewrite sxi_list_eq. cbn [SmtParseProofs.sxi_list].
      rewrite (head_item st Hkeys "as" eq_refl eq_refl eq_refl), (head_item st Hkeys "const" eq_refl eq_refl eq_refl).
      rewrite (ser_type_arr_item st Hkeys iw dw Hi Hd). cbn [pbind]. rewrite pat_as_const. reflexivity. }
    destruct (machine_sx st _ _ Hhead) as [Rh _].
    rewrite toks_list.
    change (map toks_of_sx [SxList [SxAtom "as"; SxAtom "const"; ser_type (TArr iw dw)]; mv_sx mv])
      with (map fst [(toks_of_sx (SxList [SxAtom "as"; SxAtom "const"; ser_type (TArr iw dw)]), IAsConst iw dw); (toks_of_sx (mv_sx mv), IExpr ev)]).
    apply run_group; [discriminate | | ].
    + repeat constructor; cbn [fst snd]; try assumption. apply (IHv st ev Htop Hclean Hwv Ev).
    + cbn [map snd]. apply pat_aconst. now apply Hty.
  - destruct Hwf as (Hwa & Hwi & Hwd & _ & _).
    destruct (mv_expr (nst_lets st) a) as [ea|] eqn:Ea; [|discriminate].
    destruct (mv_expr (nst_lets st) i) as [ei|] eqn:Ei; [|discriminate].
    destruct (mv_expr (nst_lets st) d) as [ed|] eqn:Ed; [|discriminate]. inversion He; subst.
    assert (Hkeys : keys_ok st).
    { intros n Hk. destruct st as [top lets undo]. cbn [nst_top nst_lets] in *. subst top. rewrite nst_get_lets, (Hclean n Hk). reflexivity. }
    rewrite toks_list.
    change (map toks_of_sx [SxAtom "store"; mv_sx a; mv_sx i; mv_sx d])
      with (map fst [(toks_of_sx (SxAtom "store"), ISym "store"); (toks_of_sx (mv_sx a), IExpr ea);
                     (toks_of_sx (mv_sx i), IExpr ei); (toks_of_sx (mv_sx d), IExpr ed)]).
    apply run_group; [discriminate | | apply pat_store].
    repeat constructor; cbn [fst snd]; try reflexivity.
    + apply (machine_sx st (SxAtom "store") (ISym "store")). apply (head_item st Hkeys "store" eq_refl eq_refl eq_refl).
    + apply (IHa st ea Htop Hclean Hwa Ea).
    + apply (IHi st ei Htop Hclean Hwi Ei).
    + apply (IHd st ed Htop Hclean Hwd Ed).
  - destruct Hwf as ((Hx1 & Hx2 & Hx3 & Hx4) & Hfresh & Hwv & Hwb).
    destruct (mv_expr (nst_lets st) mv) as [ev|] eqn:Ev; [|discriminate].
    pose proof (IHv st ev Htop Hclean Hwv Ev) as Rv.
    assert (Hlets : nst_lets (nst_push_let st x ev) = (x, ev) :: nst_lets st).
    { unfold nst_push_let. cbn [nst_lets]. unfold map_insert. now rewrite (map_remove_absent x _ Hfresh). }
    assert (Rb : runs_to (nst_push_let st x ev) (toks_of_sx (mv_sx body)) (IExpr e)).
    { apply IHb.
      - reflexivity || (unfold nst_push_let; cbn [nst_top]; exact Htop).
      - rewrite Hlets. now apply clean_cons.
      - rewrite Hlets. now apply Hwb.
      - now rewrite Hlets. }
    assert (Hb : binder_ok st x).
    { repeat split; try assumption. unfold plain_value in Hx2. unfold SmtParse.early_parse.
      destruct x as [|h [|k r]]; try reflexivity.
      rewrite !andb_true_iff, !negb_true_iff in Hx2. destruct Hx2 as ((((((H1 & H2) & H3) & H4) & H5) & H6) & H7).
      now rewrite H1, H2, H3, H4, H5, H6, H7. }
    pose proof (run_let st x _ ev _ e Hb Rv Rb) as R.
    assert (Et : toks_of_sx (SxList [SxAtom "let"; SxList [SxList [SxAtom x; mv_sx mv]]; mv_sx body]) =
                 [TkOpen; TkValue "let"; TkOpen; TkOpen; TkValue x] ++ toks_of_sx (mv_sx mv) ++ [TkClose; TkClose] ++ toks_of_sx (mv_sx body) ++ [TkClose]).
    { rewrite !toks_list. cbn [map concat]. rewrite !toks_list. cbn [map concat]. rewrite !toks_list. cbn [map concat].
      unfold toks_of_sx at 1 2. cbn [flatten map ltok_of]. rewrite Hx1. change (ltok_of_atom "let") with (TkValue "let").
      rewrite !app_nil_r. cbn [app]. rewrite <- !app_assoc. reflexivity. }
    rewrite Et. exact R.
Qed.


(** ** what the reader builds denotes what the reference evaluator says *)

Definition ir_matches (e : expr) (v : sval) : Prop :=
  match v with
  | SVBool b => type_of e = TBV 1 /\ forall rho, ebv rho e = b2n b
  | SVBits w x => type_of e = TBV w /\ forall rho, ebv rho e = x
  | SVArr i d f => type_of e = TArr (sort_bits i) (sort_bits d) /\ forall rho, earr rho e = f
  end.

Definition linked (env : symtab) (M : smodel) : Prop :=
  forall x e, assoc_str x env = Some e -> exists v, M x = Some v /\ ir_matches e v.

Lemma var_symbol x : var_ok x -> forall n, symbol_name x = Some n -> n = x.
Proof.
  intros (Hx1 & _) n Hs. unfold symbol_name in Hs. unfold ltok_of_atom in Hx1. destruct x as [|c r]; [discriminate|].
  destruct (Ascii.eqb c c_bar).
  - rewrite Hs in Hx1. discriminate Hx1.
  - destruct (is_simple_symbol (String c r)); inversion Hs. reflexivity.
Qed.

Lemma matches_enc e v w : ir_matches e v -> type_of e = TBV w -> forall rho, ebv rho e = enc v.
Proof.
  intros Hm Ht rho. destruct v as [b | w' x | i d f]; cbn [ir_matches enc] in *; destruct Hm as [Ht' Hv]; try apply Hv.
  congruence.
Qed.

Lemma matches_sort e v w : ir_matches e v -> type_of e = TBV w -> sort_bits (sort_of_val v) = w.
Proof.
  intros Hm Ht. destruct v as [b | w' x | i d f]; cbn [ir_matches sort_of_val sort_bits] in *; destruct Hm as [Ht' _]; congruence.
Qed.

Theorem value_sound :
  forall m env M v e,
    mv_wf env m -> linked env M -> seval M (mv_sx m) = Some v -> mv_expr env m = Some e -> ir_matches e v.
Proof.
  induction m as [w v0 | ds | | | x | iw dw mv IHv | a IHa i IHi d IHd | x mv IHv body IHb];
    intros env M v e Hwf Hl Hs He; cbn [mv_sx mv_expr mv_wf] in *.
  - inversion He; subst. destruct Hwf as [Hw Hv].
    cbn [seval] in Hs. change (String.append "#b" (bits_str w v0)) with (String "#"%char (String "b"%char (bits_str w v0))) in Hs.
    pose proof (bv_literal_bits w v0 Hw Hv) as L.
    change (String.append "#b" (bits_str w v0)) with (String "#"%char (String "b"%char (bits_str w v0))) in L.
    rewrite (eval_atom_lit _ _ _ _ L) in Hs. inversion Hs; subst. split; reflexivity.
  - destruct (digits_val hex_of 16 ds 0 0) as [[len x]|] eqn:Ed; [|discriminate]. inversion He; subst.
    cbn [seval] in Hs. cbn [String.append] in Hs. unfold eval_atom in Hs. rewrite symbol_name_hash in Hs.
    unfold all_chars in Hwf. destruct ds as [|c r]; [discriminate|].
    unfold bv_literal in Hs. change (Ascii.eqb "#" "#") with true in Hs. change (Ascii.eqb "x" "b") with false in Hs.
    change (Ascii.eqb "x" "x") with true in Hs. cbv iota in Hs. rewrite Ed in Hs. inversion Hs; subst. split; reflexivity.
  - inversion He; subst. inversion Hs; subst. split; reflexivity.
  - inversion He; subst. inversion Hs; subst. split; reflexivity.
  - destruct Hwf as [Hx _]. cbn [seval] in Hs. unfold eval_atom in Hs.
    destruct (symbol_name x) as [n|] eqn:En.
    + rewrite (var_symbol x Hx n En) in Hs.
      destruct Hx as (_ & _ & Hn & _). destruct (name_ok_facts x Hn) as (_ & Ht & Hf). rewrite Ht, Hf in Hs.
      destruct (Hl x e He) as (v' & Hv' & Hm). congruence.
    + destruct Hx as (Hx1 & Hx2 & _). exfalso.
      (* not a symbol: it would have to be a literal, but then the reader does not treat it as a plain value *)
      destruct (bv_literal x) as [[w0 v0]|] eqn:Eb; [|discriminate].
      unfold bv_literal in Eb. destruct x as [|h [|k [|d r]]]; try discriminate.
      unfold plain_value in Hx2.
      destruct (Ascii.eqb h "#") eqn:Eh; [|discriminate]. cbn [andb] in Hx2.
      destruct (Ascii.eqb k "b") eqn:Ekb.
      * cbn [andb] in Hx2.
        assert (Hall : all_chars is_bin_digit (String d r) = true).
        { clear -Eb. unfold all_chars. revert Eb. generalize (String d r) at 1 2. generalize 0 at 1. generalize 0.
          intros acc len s. revert acc len. induction s as [|c s IH]; intros acc len H; [reflexivity|].
          cbn [digits_val] in H. cbn [str_forall]. unfold bit_of in H.
          destruct (Ascii.eqb_spec c "0") as [-> | _]; [cbn; now apply (IH _ _ H)|].
          destruct (Ascii.eqb_spec c "1") as [-> | _]; [cbn; now apply (IH _ _ H) | discriminate]. }
        rewrite Hall in Hx2. discriminate Hx2.
      * destruct (Ascii.eqb k "x") eqn:Ekx; [|discriminate]. cbn [andb negb] in Hx2.
        assert (Hall : all_chars is_hex_digit (String d r) = true).
        { destruct (digits_val hex_of 16 (String d r) 0 0) as [[len v1]|] eqn:Eh'; [|discriminate].
          clear -Eh'. unfold all_chars. revert Eh'. generalize (String d r) at 1 2. generalize 0 at 1. generalize 0.
          intros acc len0 s. revert acc len0. induction s as [|c s IH]; intros acc len0 H; [reflexivity|].
          cbn [digits_val] in H. cbn [str_forall]. destruct (hex_of c) eqn:Ehc; [|discriminate].
          rewrite (IH _ _ H), andb_true_r. clear -Ehc. revert Ehc. all_ascii c; vm_compute; intros H; first [reflexivity | discriminate H]. }
        rewrite Hall in Hx2. discriminate Hx2.
  - destruct Hwf as (Hi0 & Hd0 & Hi & Hd & Hwv & Hty).
    destruct (mv_expr env mv) as [ev|] eqn:Ev; [|discriminate]. inversion He; subst.
    cbn [seval] in Hs. change (String.eqb "as" "_") with false in Hs. change (String.eqb "as" "as") with true in Hs.
    cbv iota in Hs. change (sym_is "const" "const") with true in Hs. cbv iota in Hs.
    rewrite (sort_of_sx_ser_type (TArr iw dw) (conj Hi0 Hd0)) in Hs. cbn [sort_of_ty] in Hs.
    destruct (seval M (mv_sx mv)) as [vv|] eqn:Evv; [|discriminate].
    destruct (ssort_eqb (sort_of_val vv) (elem_sort dw)) eqn:Eso; [|discriminate]. inversion Hs; subst.
    pose proof (IHv env M vv ev Hwv Hl Evv Ev) as Hm. pose proof (Hty ev eq_refl) as Tev.
    split.
    + cbn [type_of]. now rewrite !sort_bits_elem.
    + intros rho. cbn [earr]. rewrite (matches_enc ev vv dw Hm Tev rho). reflexivity.
  - destruct Hwf as (Hwa & Hwi & Hwd & Hti & Htd).
    destruct (mv_expr env a) as [ea|] eqn:Ea; [|discriminate].
    destruct (mv_expr env i) as [ei|] eqn:Ei; [|discriminate].
    destruct (mv_expr env d) as [ed|] eqn:Ed; [|discriminate]. inversion He; subst.
    rewrite (seval_head M "store" Op_store _ eq_refl) in Hs. cbn [map_opt] in Hs.
    destruct (seval M (mv_sx a)) as [va|] eqn:Eva; [|discriminate].
    destruct (seval M (mv_sx i)) as [vi|] eqn:Evi; [|discriminate].
    destruct (seval M (mv_sx d)) as [vd|] eqn:Evd; [|discriminate].
    cbn [apply_op] in Hs. destruct va as [| | si sd f]; try discriminate.
    destruct (ssort_eqb (sort_of_val vi) si && ssort_eqb (sort_of_val vd) sd); [|discriminate]. inversion Hs; subst.
    pose proof (IHa env M _ ea Hwa Hl Eva Ea) as Ma. pose proof (IHi env M _ ei Hwi Hl Evi Ei) as Mi.
    pose proof (IHd env M _ ed Hwd Hl Evd Ed) as Md.
    destruct (Hti ei eq_refl) as [wi Twi]. destruct (Htd ed eq_refl) as [wd Twd].
    cbn [ir_matches] in Ma. destruct Ma as [Ta Fa]. split.
    + cbn [type_of]. exact Ta.
    + intros rho. cbn [earr]. unfold arr_store. rewrite (Fa rho), (matches_enc ei vi wi Mi Twi rho), (matches_enc ed vd wd Md Twd rho).
      reflexivity.
  - destruct Hwf as (Hx & Hfresh & Hwv & Hwb).
    destruct (mv_expr env mv) as [ev|] eqn:Ev; [|discriminate].
    cbn [seval] in Hs. change (String.eqb "let" "let") with true in Hs. cbv iota in Hs.
    unfold binder_name in Hs.
    destruct (symbol_name x) as [n|] eqn:En; [|discriminate].
    rewrite (var_symbol x Hx n En) in Hs.
    destruct (is_theory_name x || is_solver_reserved x); [discriminate|].
    destruct (seval M (mv_sx mv)) as [vv|] eqn:Evv; [|discriminate].
    cbn [map fst names_distinct str_in existsb negb andb upd_all] in Hs.
    apply (IHb ((x, ev) :: env) (upd M x vv) v e (Hwb ev eq_refl)); [| exact Hs | exact He].
    intros y ey Hy. cbn [assoc_str] in Hy. unfold upd. destruct (String.eqb y x).
    + inversion Hy; subst. exists vv. split; [reflexivity|]. apply (IHv env M vv ey Hwv Hl Evv Ev).
    + apply (Hl y ey Hy).
Qed.

(** the theorem of C14 about model values: whatever the reference evaluator says a value
    text (of the listed forms) denotes, the reader returns an expression denoting it *)
Theorem value_parse_lemma :
  forall (m : mval) (v : sval),
    mv_wf [] m -> seval (fun _ => None) (mv_sx m) = Some v ->
    exists e, parse_expr_toks [] (toks_of_sx (mv_sx m)) = POk e /\ ir_matches e v.
Proof.
  intros m v Hwf Hs.
  destruct (mv_expr [] m) as [e|] eqn:He.
  - exists e. split; [| apply (value_sound m [] (fun _ => None) v e Hwf); [intros x ex Hx; discriminate Hx | exact Hs | exact He]].
    pose proof (value_machine m (nst_new []) e eq_refl (fun n _ => eq_refl) Hwf He) as R.
    unfold SmtParse.parse_expr_toks, SmtParse.parse_expr_internal, SmtParse.parse_eot.
    rewrite <- (app_nil_r (toks_of_sx (mv_sx m))). rewrite (R [] [] I). reflexivity.
  - exfalso. (* the reference evaluates it, so every sub-term is built *)
    revert v Hs He Hwf. generalize (fun _ : string => @None sval) as M. generalize (@nil (string * expr)) as env.
    induction m as [w v0 | ds | | | x | iw dw mv IHv | a IHa i IHi d IHd | x mv IHv body IHb];
      intros env M v Hs He Hwf; cbn [mv_sx mv_expr mv_wf] in *; try discriminate.
    + destruct (digits_val hex_of 16 ds 0 0) as [[len x]|] eqn:Ed; [discriminate|].
      cbn [seval String.append] in Hs. unfold eval_atom in Hs. rewrite symbol_name_hash in Hs.
      unfold all_chars in Hwf. destruct ds as [|c r]; [discriminate|].
      unfold bv_literal in Hs. change (Ascii.eqb "#" "#") with true in Hs. change (Ascii.eqb "x" "b") with false in Hs.
      change (Ascii.eqb "x" "x") with true in Hs. cbv iota in Hs. rewrite Ed in Hs. discriminate Hs.
    + destruct Hwf as [_ Hne]. congruence.
    + destruct Hwf as (Hi0 & Hd0 & Hi & Hd & Hwv & Hty).
      destruct (mv_expr env mv) as [ev|] eqn:Ev; [discriminate|].
      cbn [seval] in Hs. change (String.eqb "as" "_") with false in Hs. change (String.eqb "as" "as") with true in Hs.
      cbv iota in Hs. change (sym_is "const" "const") with true in Hs. cbv iota in Hs.
      rewrite (sort_of_sx_ser_type (TArr iw dw) (conj Hi0 Hd0)) in Hs. cbn [sort_of_ty] in Hs.
      destruct (seval M (mv_sx mv)) as [vv|] eqn:Evv; [|discriminate]. apply (IHv env M vv Evv Ev Hwv).
    + destruct Hwf as (Hwa & Hwi & Hwd & _).
      rewrite (seval_head M "store" Op_store _ eq_refl) in Hs. cbn [map_opt] in Hs.
      destruct (seval M (mv_sx a)) as [va|] eqn:Eva; [|discriminate].
      destruct (seval M (mv_sx i)) as [vi|] eqn:Evi; [|discriminate].
      destruct (seval M (mv_sx d)) as [vd|] eqn:Evd; [|discriminate].
      destruct (mv_expr env a) as [ea|] eqn:Ea; [|apply (IHa env M va Eva Ea Hwa)].
      destruct (mv_expr env i) as [ei|] eqn:Ei; [|apply (IHi env M vi Evi Ei Hwi)].
      destruct (mv_expr env d) as [ed|] eqn:Ed; [discriminate | apply (IHd env M vd Evd Ed Hwd)].
    + destruct Hwf as (Hx & Hfresh & Hwv & Hwb).
      cbn [seval] in Hs. change (String.eqb "let" "let") with true in Hs. cbv iota in Hs.
      unfold binder_name in Hs.
      destruct (symbol_name x) as [n|] eqn:En; [|discriminate].
      rewrite (var_symbol x Hx n En) in Hs.
      destruct (is_theory_name x || is_solver_reserved x); [discriminate|].
      destruct (seval M (mv_sx mv)) as [vv|] eqn:Evv; [|discriminate].
      cbn [map fst names_distinct str_in existsb negb andb upd_all] in Hs.
      destruct (mv_expr env mv) as [ev|] eqn:Ev; [|apply (IHv env M vv Evv Ev Hwv)].
      apply (IHb ((x, ev) :: env) (upd M x vv) v Hs He (Hwb ev eq_refl)).
Qed.

(** a concrete value: Bool-indexed array, hex and binary literals, a let-bound sub-term *)
Definition example_value : mval :=
  MLet "a!1" (MStore (MConst 1 8 (MHex "0f")) MTrue (MBin 8 3))
       (MStore (MVar "a!1") MFalse (MHex "Ab")).

Lemma example_value_ok :
  mv_wf [] example_value /\
  exists f, seval (fun _ => None) (mv_sx example_value) = Some (SVArr SoBool (SoBV 8) f) /\ f 0 = 171 /\ f 1 = 3.
Proof.
  split.
  - unfold example_value.
    repeat (first [ split | intro
                  | match goal with H : _ = Some _ |- _ => vm_compute in H; inversion H; subst; clear H end
                  | progress (cbn [mv_wf mv_expr] in * )
                  | (eexists; reflexivity) | (vm_compute; reflexivity) | lia | discriminate ]).
    all: destruct cv; vm_compute; reflexivity.
  - eexists. split; [vm_compute; reflexivity | split; reflexivity].
Qed.

End CV.
