(** * Proofs/SmtSemLemmas.v — the SMT-LIB operators of [Spec/Smt.v] (derived ones spelled out
    from the standard's abbreviations) agree with the IR operators of [Spec/BV.v], and
    one-step evaluation lemmas for the reference evaluator / sort checker. *)
From Coq Require Import Lia.
From Patronus Require Import SmtSer BVLemmas SmtSerLemmas.
Open Scope string_scope.
Open Scope list_scope.
Open Scope N_scope.

(** ** 1-bit values *)

Lemma lt2_cases v : v < 2 ^ 1 -> v = 0 \/ v = 1.
Proof. change (2 ^ 1) with 2. lia. Qed.

Lemma b2n_eqb1 b : (b2n b =? 1) = b.
Proof. destruct b; reflexivity. Qed.

Lemma b2n_of_eqb1 v : v < 2 ^ 1 -> b2n (v =? 1) = v.
Proof. intros H. destruct (lt2_cases v H) as [-> | ->]; reflexivity. Qed.

Lemma ite_bits_bool v : v < 2 ^ 1 -> (if v =? 1 then 1 else 0) = v.
Proof. intros H. destruct (lt2_cases v H) as [-> | ->]; reflexivity. Qed.

Lemma not_bool v : v < 2 ^ 1 -> (bv_not 1 v =? 1) = negb (v =? 1).
Proof. intros H. destruct (lt2_cases v H) as [-> | ->]; reflexivity. Qed.

Lemma and_bool a b : a < 2 ^ 1 -> b < 2 ^ 1 -> (bv_and a b =? 1) = ((a =? 1) && (b =? 1)).
Proof. intros Ha Hb. destruct (lt2_cases a Ha) as [-> | ->], (lt2_cases b Hb) as [-> | ->]; reflexivity. Qed.

Lemma or_bool a b : a < 2 ^ 1 -> b < 2 ^ 1 -> (bv_or a b =? 1) = ((a =? 1) || (b =? 1)).
Proof. intros Ha Hb. destruct (lt2_cases a Ha) as [-> | ->], (lt2_cases b Hb) as [-> | ->]; reflexivity. Qed.

Lemma xor_bool a b : a < 2 ^ 1 -> b < 2 ^ 1 -> (bv_xor a b =? 1) = xorb (a =? 1) (b =? 1).
Proof. intros Ha Hb. destruct (lt2_cases a Ha) as [-> | ->], (lt2_cases b Hb) as [-> | ->]; reflexivity. Qed.

Lemma implies_bool a b : a < 2 ^ 1 -> b < 2 ^ 1 -> (bv_implies a b =? 1) = implb (a =? 1) (b =? 1).
Proof. intros Ha Hb. destruct (lt2_cases a Ha) as [-> | ->], (lt2_cases b Hb) as [-> | ->]; reflexivity. Qed.

Lemma eq_bool a b : a < 2 ^ 1 -> b < 2 ^ 1 -> Bool.eqb (a =? 1) (b =? 1) = (a =? b).
Proof. intros Ha Hb. destruct (lt2_cases a Ha) as [-> | ->], (lt2_cases b Hb) as [-> | ->]; reflexivity. Qed.

(** ** the sign bit *)

Lemma msb_ge w v : 0 < w -> v < 2 ^ w -> msb w v = (2 ^ (w - 1) <=? v).
Proof.
  intros Hw Hv. unfold msb.
  assert (E : 2 ^ w = 2 ^ (w - 1) * 2).
  { replace w with (N.succ (w - 1)) at 1 by lia. rewrite N.pow_succ_r'. lia. }
  assert (Hp : 0 < 2 ^ (w - 1)) by apply pow2_pos.
  assert (Hq : v / 2 ^ (w - 1) < 2).
  { apply N.div_lt_upper_bound; lia. }
  apply eq_true_iff_eq. rewrite N.testbit_true, N.leb_le.
  rewrite (N.mod_small _ 2 Hq).
  split; intros H.
  - pose proof (N.mul_div_le v (2 ^ (w - 1)) ltac:(lia)) as Hm. rewrite H in Hm. lia.
  - assert (1 <= v / 2 ^ (w - 1)); [|lia]. apply N.div_le_lower_bound; lia.
Qed.

Lemma to_Z_msb w v : 0 < w -> v < 2 ^ w ->
  to_Z w v = if msb w v then (Z.of_N v - 2 ^ Z.of_N w)%Z else Z.of_N v.
Proof. reflexivity. Qed.

(** ** comparisons *)

Lemma smt_uge_ok a b : smt_bvuge a b = (b <=? a).
Proof.
  unfold smt_bvuge, smt_bvult. destruct (N.ltb_spec b a), (N.eqb_spec a b), (N.leb_spec b a); try reflexivity; lia.
Qed.

Lemma pow2_Z w : (2 ^ Z.of_N w)%Z = Z.of_N (2 ^ w).
Proof. rewrite N2Z.inj_pow. reflexivity. Qed.

Lemma smt_slt_ok w a b : 0 < w -> a < 2 ^ w -> b < 2 ^ w ->
  smt_bvslt w a b = (to_Z w a <? to_Z w b)%Z.
Proof.
  intros Hw Ha Hb. unfold smt_bvslt, smt_bvult, to_Z.
  pose proof (msb_ge w a Hw Ha) as Ma. pose proof (msb_ge w b Hw Hb) as Mb.
  assert (E : 2 ^ w = 2 ^ (w - 1) * 2).
  { replace w with (N.succ (w - 1)) at 1 by lia. rewrite N.pow_succ_r'. lia. }
  rewrite pow2_Z.
  destruct (msb w a), (msb w b); cbn [andb orb negb Bool.eqb];
    symmetry in Ma, Mb; rewrite ?N.leb_le, ?N.leb_gt in Ma, Mb;
    destruct (N.ltb_spec a b); destruct (Z.ltb_spec (Z.of_N a - Z.of_N (2 ^ w)) (Z.of_N b - Z.of_N (2 ^ w)));
    destruct (Z.ltb_spec (Z.of_N a - Z.of_N (2 ^ w)) (Z.of_N b));
    destruct (Z.ltb_spec (Z.of_N a) (Z.of_N b - Z.of_N (2 ^ w)));
    destruct (Z.ltb_spec (Z.of_N a) (Z.of_N b)); try reflexivity; lia.
Qed.

Lemma smt_sle_ok w a b : 0 < w -> a < 2 ^ w -> b < 2 ^ w ->
  smt_bvsle w a b = (to_Z w a <=? to_Z w b)%Z.
Proof.
  intros Hw Ha Hb. unfold smt_bvsle, smt_bvule, smt_bvult, to_Z.
  pose proof (msb_ge w a Hw Ha) as Ma. pose proof (msb_ge w b Hw Hb) as Mb.
  assert (E : 2 ^ w = 2 ^ (w - 1) * 2).
  { replace w with (N.succ (w - 1)) at 1 by lia. rewrite N.pow_succ_r'. lia. }
  rewrite pow2_Z.
  destruct (msb w a), (msb w b); cbn [andb orb negb Bool.eqb];
    symmetry in Ma, Mb; rewrite ?N.leb_le, ?N.leb_gt in Ma, Mb;
    destruct (N.ltb_spec a b); destruct (N.eqb_spec a b);
    destruct (Z.leb_spec (Z.of_N a - Z.of_N (2 ^ w)) (Z.of_N b - Z.of_N (2 ^ w)));
    destruct (Z.leb_spec (Z.of_N a - Z.of_N (2 ^ w)) (Z.of_N b));
    destruct (Z.leb_spec (Z.of_N a) (Z.of_N b - Z.of_N (2 ^ w)));
    destruct (Z.leb_spec (Z.of_N a) (Z.of_N b)); try reflexivity; lia.
Qed.

Lemma smt_sgt_ok w a b : 0 < w -> a < 2 ^ w -> b < 2 ^ w -> b2n (smt_bvsgt w a b) = bv_sgt w a b.
Proof. intros. unfold smt_bvsgt, bv_sgt. now rewrite smt_slt_ok. Qed.

Lemma smt_sge_ok w a b : 0 < w -> a < 2 ^ w -> b < 2 ^ w -> b2n (smt_bvsge w a b) = bv_sge w a b.
Proof. intros. unfold smt_bvsge, bv_sge. now rewrite smt_sle_ok. Qed.

(** ** derived arithmetic *)

Lemma smt_sub_ok w a b : smt_bvsub w a b = bv_sub w a b.
Proof. reflexivity. Qed.

Lemma smt_xor_ok w a b : a < 2 ^ w -> b < 2 ^ w -> smt_bvxor w a b = bv_xor a b.
Proof.
  intros Ha Hb. unfold smt_bvxor, bv_or, bv_and, bv_not, bv_xor. apply N.bits_inj. intros i.
  rewrite N.lor_spec, !N.land_spec, N.lxor_spec.
  destruct (N.lt_ge_cases i w) as [Hi | Hi].
  - rewrite !N.lnot_spec_low by assumption.
    destruct (N.testbit a i), (N.testbit b i); reflexivity.
  - rewrite (bits_bound a w i Ha Hi), (bits_bound b w i Hb Hi). now rewrite andb_false_r.
Qed.

Lemma smt_ashr_ok w a b : smt_bvashr w a b = bv_ashr w a b.
Proof. unfold smt_bvashr, bv_ashr. destruct (msb w a); reflexivity. Qed.

Lemma smt_sdiv_ok w a b : smt_bvsdiv w a b = bv_sdiv w a b.
Proof. unfold smt_bvsdiv, bv_sdiv. destruct (msb w a), (msb w b); reflexivity. Qed.

Lemma smt_srem_ok w a b : smt_bvsrem w a b = bv_srem w a b.
Proof. unfold smt_bvsrem, bv_srem. destruct (msb w a), (msb w b); reflexivity. Qed.

Lemma smt_smod_ok w a b : smt_bvsmod w a b = bv_smod w a b.
Proof.
  unfold smt_bvsmod, bv_smod. destruct (msb w a), (msb w b); cbn [negb andb];
    match goal with |- context [?u =? 0] => destruct (u =? 0) end; reflexivity.
Qed.

(** ** sorts *)

Lemma ssort_eqb_refl s : ssort_eqb s s = true.
Proof. induction s as [| n | i IHi d IHd]; cbn [ssort_eqb]; [reflexivity | apply N.eqb_refl | now rewrite IHi, IHd]. Qed.

Lemma ssort_eqb_eq a b : ssort_eqb a b = true -> a = b.
Proof.
  revert b. induction a as [| n | i IHi d IHd]; intros [| m | i' d']; cbn [ssort_eqb]; try discriminate; intros H.
  - reflexivity.
  - apply N.eqb_eq in H. now subst.
  - apply andb_true_iff in H. destruct H as [H1 H2]. now rewrite (IHi _ H1), (IHd _ H2).
Qed.

Lemma sort_bits_elem w : sort_bits (elem_sort w) = w.
Proof. unfold elem_sort. destruct (N.eqb_spec w 1) as [-> | _]; reflexivity. Qed.

Lemma elementary_elem w : is_elementary (elem_sort w) = true.
Proof. unfold elem_sort. destruct (w =? 1); reflexivity. Qed.

Lemma sort_of_sx_bitvec w : 0 < w -> sort_of_sx (bitvec_sx w) = Some (SoBV w).
Proof.
  intros Hw. unfold bitvec_sx. cbn [sort_of_sx].
  change (String.eqb "_" "_") with true. cbv iota.
  change (sym_is "BitVec" "BitVec") with true. cbv iota.
  rewrite numeral_dec. apply N.ltb_lt in Hw. now rewrite Hw.
Qed.

Lemma sort_of_sx_elem w : 0 < w ->
  sort_of_sx (if w =? 1 then SxAtom "Bool" else bitvec_sx w) = Some (elem_sort w).
Proof.
  intros Hw. unfold elem_sort. destruct (w =? 1); [reflexivity | now apply sort_of_sx_bitvec].
Qed.

Lemma sort_of_sx_ser_type t :
  (match t with TBV w => 0 < w | TArr i d => 0 < i /\ 0 < d end) ->
  sort_of_sx (ser_type t) = Some (sort_of_ty t).
Proof.
  destruct t as [w | i d]; intros H; cbn [ser_type sort_of_ty].
  - now apply sort_of_sx_elem.
  - destruct H as [Hi Hd].
    pose proof (sort_of_sx_elem i Hi) as Ei. pose proof (sort_of_sx_elem d Hd) as Ed.
    assert (G : forall x y, sort_of_sx x = Some (elem_sort i) -> sort_of_sx y = Some (elem_sort d) ->
                sort_of_sx (SxList [SxAtom "Array"; x; y]) = Some (SoArr (elem_sort i) (elem_sort d))).
    { intros x y Hx Hy. cbn [sort_of_sx]. change (String.eqb "Array" "_") with false. cbv iota.
      change (sym_is "Array" "Array") with true. cbv iota.
      rewrite Hx, Hy, !elementary_elem. reflexivity. }
    destruct (i =? 1), (d =? 1); apply G; assumption.
Qed.

(** ** one evaluation / checking step *)

Definition head_op (h : string) : option sop :=
  if String.eqb h "let" then None
  else match symbol_name h with Some n => op_of_name n | None => None end.

Lemma seval_head M h o args : head_op h = Some o ->
  seval M (SxList (SxAtom h :: args)) =
  match map_opt (seval M) args with Some vs => apply_op o vs | None => None end.
Proof.
  unfold head_op. intros H. cbn [seval].
  destruct (String.eqb h "let"); [discriminate|].
  destruct (symbol_name h) as [n|]; [|discriminate]. now rewrite H.
Qed.

Lemma scheck_head G h o args : head_op h = Some o ->
  scheck G (SxList (SxAtom h :: args)) =
  match map_opt (scheck G) args with Some ss => op_sort o ss | None => None end.
Proof.
  unfold head_op. intros H. cbn [scheck].
  destruct (String.eqb h "let"); [discriminate|].
  destruct (symbol_name h) as [n|]; [|discriminate]. now rewrite H.
Qed.

Lemma seval_indexed M f fname idxs ix a va :
  symbol_name f = Some fname -> idx_of fname idxs = Some ix -> seval M a = Some va ->
  seval M (SxList [SxList (SxAtom "_" :: SxAtom f :: idxs); a]) = apply_idx ix [va].
Proof.
  intros Hf Hi Ha. cbn [seval]. change (String.eqb "_" "_") with true. cbv iota.
  rewrite Hf, Hi. cbn [map_opt]. now rewrite Ha.
Qed.

Lemma scheck_indexed G f fname idxs ix a sa :
  symbol_name f = Some fname -> idx_of fname idxs = Some ix -> scheck G a = Some sa ->
  scheck G (SxList [SxList (SxAtom "_" :: SxAtom f :: idxs); a]) = idx_sort ix [sa].
Proof.
  intros Hf Hi Ha. cbn [scheck]. change (String.eqb "_" "_") with true. cbv iota.
  rewrite Hf, Hi. cbn [map_opt]. now rewrite Ha.
Qed.

Lemma seval_as_const M so i d x v :
  sort_of_sx so = Some (SoArr i d) -> seval M x = Some v -> sort_of_val v = d ->
  seval M (SxList [SxList [SxAtom "as"; SxAtom "const"; so]; x]) =
  Some (SVArr i d (let e := enc v in fun _ => e)).
Proof.
  intros Hs Hx Hv. cbn [seval]. change (String.eqb "as" "_") with false.
  change (String.eqb "as" "as") with true. cbv iota.
  change (sym_is "const" "const") with true. cbv iota.
  rewrite Hs, Hx, Hv, ssort_eqb_refl. reflexivity.
Qed.

Lemma scheck_as_const G so i d x :
  sort_of_sx so = Some (SoArr i d) -> scheck G x = Some d ->
  scheck G (SxList [SxList [SxAtom "as"; SxAtom "const"; so]; x]) = Some (SoArr i d).
Proof.
  intros Hs Hx. cbn [scheck]. change (String.eqb "as" "_") with false.
  change (String.eqb "as" "as") with true. cbv iota.
  change (sym_is "const" "const") with true. cbv iota.
  rewrite Hs, Hx, ssort_eqb_refl. reflexivity.
Qed.

Lemma idx_extract hi lo :
  idx_of "extract" [SxAtom (dec_string hi); SxAtom (dec_string lo)] = Some (Ix_extract hi lo).
Proof. unfold idx_of. change (String.eqb "extract" "extract") with true. cbv iota. now rewrite !numeral_dec. Qed.

Lemma idx_zero_extend by_ : idx_of "zero_extend" [SxAtom (dec_string by_)] = Some (Ix_zero_extend by_).
Proof. unfold idx_of. rewrite numeral_dec. reflexivity. Qed.

Lemma idx_sign_extend by_ : idx_of "sign_extend" [SxAtom (dec_string by_)] = Some (Ix_sign_extend by_).
Proof. unfold idx_of. rewrite numeral_dec. reflexivity. Qed.

(** literal atoms *)
Lemma eval_atom_lit M a w v : bv_literal (String "#"%char a) = Some (w, v) ->
  eval_atom M (String "#"%char a) = Some (SVBits w v).
Proof. intros H. unfold eval_atom. rewrite symbol_name_hash, H. reflexivity. Qed.

Lemma check_atom_lit G a w v : bv_literal (String "#"%char a) = Some (w, v) ->
  check_atom G (String "#"%char a) = Some (SoBV w).
Proof. intros H. unfold check_atom. rewrite symbol_name_hash, H. reflexivity. Qed.

(** binary equality *)
Lemma apply_eq2 a b e : sval_eqb a b = Some e -> apply_op Op_eq [a; b] = Some (SVBool e).
Proof.
  intros H. cbn [apply_op chainable chain_go]. rewrite H. cbn [opt_bool]. now rewrite andb_true_r.
Qed.

Lemma sort_eq2 s : op_sort Op_eq [s; s] = Some SoBool.
Proof. cbn [op_sort chainable chain_go]. unfold so_same. rewrite ssort_eqb_refl. reflexivity. Qed.

(** literal atoms as the writer spells them *)
Lemma check_atom_b G x w v : bv_literal (String.append "#b" x) = Some (w, v) ->
  scheck G (SxAtom (String.append "#b" x)) = Some (SoBV w).
Proof. intros H. apply (check_atom_lit G (String "b"%char x) w v H). Qed.

Lemma eval_atom_b M x w v : bv_literal (String.append "#b" x) = Some (w, v) ->
  seval M (SxAtom (String.append "#b" x)) = Some (SVBits w v).
Proof. intros H. apply (eval_atom_lit M (String "b"%char x) w v H). Qed.

(** elements: the value the writer's un-coerced form of a [w]-bit expression has *)
Lemma sval_elem_sort w v f : sort_of_val (sval_for (TBV w) false v f) = elem_sort w.
Proof. cbn [sval_for]. unfold elem_sort. destruct (w =? 1); reflexivity. Qed.

Lemma sval_elem_enc w v f : v < 2 ^ w -> enc (sval_for (TBV w) false v f) = v.
Proof.
  intros H. cbn [sval_for]. destruct (N.eqb_spec w 1) as [-> | _]; cbn [enc]; [now apply b2n_of_eqb1 | reflexivity].
Qed.

Lemma dec_elem w x f : dec (elem_sort w) x = sval_for (TBV w) false x f.
Proof. cbn [sval_for]. unfold elem_sort. destruct (w =? 1); reflexivity. Qed.
