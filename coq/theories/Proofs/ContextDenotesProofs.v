(** * Proofs/ContextDenotesProofs.v — every builder returns a reference that denotes the request

    For every public builder call that returns a reference, the node stored at that
    reference in the context AFTER the call is the requested expression: requested
    operator, requested operand references and scalars, stored width = type of the
    operand the Rust code reads it from.  Stated through the executable predicate
    [cx_denotes] of Model/ContextOracle.v, the one the driver evaluates on the
    implementation's observations. *)
From Coq Require Import NArith PeanoNat String List Bool Lia.
From Patronus Require Import Context ContextOracle ContextProofs ContextOracleProofs.
Import ListNotations.
Open Scope N_scope.

(* ------------------------------------------------------------------ inversion of successful runs *)
Lemma bind_ok {A B} (m : cx_m A) (f : A -> cx_m B) c c' b :
  cx_bind m f c = (c', CxOk b) -> exists c1 a, m c = (c1, CxOk a) /\ f a c1 = (c', CxOk b).
Proof.
  unfold cx_bind. destruct (m c) as [c1 [a| |]]; try discriminate. intro H. eauto.
Qed.

Lemma assert_ok b c c' u : cx_assert b c = (c', CxOk u) -> c' = c /\ b = true.
Proof. unfold cx_assert. destruct b; [intros [= <- _]; auto|discriminate]. Qed.

Lemma ret_ok {A} (a b : A) c c' : cx_ret a c = (c', CxOk b) -> c' = c /\ b = a.
Proof. unfold cx_ret. intros [= <- <-]. auto. Qed.

Lemma lift_ok {A} (r : cx_res A) c c' a : cx_lift r c = (c', CxOk a) -> c' = c /\ r = CxOk a.
Proof. unfold cx_lift. intros [= <- ->]. auto. Qed.

Lemma get_type_ok r c c' t : cx_get_type r c = (c', CxOk t) -> c' = c /\ cx_type_of (cx_exprs c) r = CxOk t.
Proof. unfold cx_get_type. intros [= <- ->]. auto. Qed.

Lemma bv_type_ok r c c' w : cx_bv_type r c = (c', CxOk w) -> c' = c /\ cx_type_of (cx_exprs c) r = CxOk (CtBV w).
Proof.
  unfold cx_bv_type. intro H. apply bind_ok in H as (c1 & t & H1 & H2).
  apply get_type_ok in H1 as (-> & H1). destruct t.
  - apply ret_ok in H2 as (-> & ->). auto.
  - discriminate H2.
Qed.

Lemma add_expr_ok n c c' r :
  cx_add_expr n c = (c', CxOk r) ->
  cx_ext c c' /\ cx_nth (cx_exprs c') r = Some n /\ cx_strings c' = cx_strings c /\ cx_values c' = cx_values c.
Proof.
  intro H. split; [exact (proj1 (good_add_expr n) _ _ _ H)|].
  split; [exact (cx_add_expr_lookup _ _ _ _ H)|].
  unfold cx_add_expr in H. destruct (cx_intern cx_node_eqb n (cx_exprs c)). inversion H; subst. auto.
Qed.

Ltac run_inv :=
  repeat match goal with
  | H : cx_bind _ _ _ = (_, CxOk _) |- _ =>
      let c1 := fresh "c" in let a := fresh "a" in let H1 := fresh "R" in
      apply bind_ok in H; destruct H as (c1 & a & H1 & H)
  | H : cx_assert _ _ = (_, CxOk _) |- _ => apply assert_ok in H; destruct H as (? & H); subst
  | H : cx_ret _ _ = (_, CxOk _) |- _ => apply ret_ok in H; destruct H; subst
  | H : cx_lift _ _ = (_, CxOk _) |- _ => apply lift_ok in H; destruct H as (? & H); subst
  | H : cx_get_type _ _ = (_, CxOk _) |- _ => apply get_type_ok in H; destruct H as (? & H); subst
  | H : cx_bv_type _ _ = (_, CxOk _) |- _ => apply bv_type_ok in H; destruct H as (? & H); subst
  | H : cx_fail _ = (_, CxOk _) |- _ => discriminate H
  end.

(* ------------------------------------------------------------------ introduction of the oracle's tests *)
Lemma cx_types_from_nth es rest : forall i k,
  (N.to_nat k < length rest)%nat -> cx_nth (cx_types_from es rest i) k = Some (cx_type_of es (i + k)).
Proof.
  induction rest as [|x t IH]; intros i k Hk; cbn [length] in Hk; [lia|].
  cbn [cx_types_from cx_nth]. destruct (N.eqb_spec k 0) as [->|Hne].
  - now rewrite N.add_0_r.
  - rewrite IH by lia. f_equal. f_equal. lia.
Qed.

Lemma cx_chase_some {F} (fuel : list F) es r t : cx_chase fuel es r = CxOk t -> exists n, cx_nth es r = Some n.
Proof. destruct fuel; cbn [cx_chase]; (destruct (cx_nth es r); [eauto|discriminate]). Qed.

Lemma cx_types_nth c r t : cx_type_of (cx_exprs c) r = CxOk t -> cx_nth (cx_types c) r = Some (CxOk t).
Proof.
  intro H. unfold cx_types. rewrite cx_types_from_nth.
  - now rewrite N.add_0_l, H.
  - apply cx_chase_some in H as [n Hn]. apply cx_nth_lt in Hn. lia.
Qed.

Lemma obs_bv_intro c r w : cx_type_of (cx_exprs c) r = CxOk (CtBV w) -> cx_obs_bv (cx_types c) r = Some w.
Proof. intro H. unfold cx_obs_bv. now rewrite (cx_types_nth _ _ _ H). Qed.

Lemma obs_ty_intro c r t : cx_type_of (cx_exprs c) r = CxOk t -> cx_obs_ty (cx_types c) r = Some t.
Proof. intro H. unfold cx_obs_ty. now rewrite (cx_types_nth _ _ _ H). Qed.

Lemma key_is_intro c r n : cx_nth (cx_exprs c) r = Some n -> cx_key_is (cx_keys c) r (cx_key_of c n) = true.
Proof.
  intro H. unfold cx_key_is, cx_keys. rewrite cx_nth_map, H. cbn [option_map].
  apply cx_key_eqb_eq. reflexivity.
Qed.

Definition plain (n : cx_node) : Prop :=
  match n with CnBVSymbol _ _ | CnBVLiteral _ _ | CnArraySymbol _ _ _ => False | _ => True end.

Lemma is_node_intro c r n : plain n -> cx_nth (cx_exprs c) r = Some n -> cx_is_node (cx_keys c) r n = true.
Proof.
  intros P H. unfold cx_is_node. replace (CkNode n) with (cx_key_of c n) by (destruct n; cbn in P; tauto).
  now apply key_is_intro.
Qed.

Lemma find_node_intro c r n : plain n -> cx_nth (cx_exprs c) r = Some n -> cx_find_node (cx_keys c) r = Some n.
Proof.
  intros P H. unfold cx_find_node, cx_keys. rewrite cx_nth_map, H. cbn [option_map].
  destruct n; cbn in P |- *; tauto.
Qed.

Lemma type_ext c c' r t : cx_ext c c' -> cx_type_of (cx_exprs c) r = CxOk t -> cx_type_of (cx_exprs c') r = CxOk t.
Proof. intros (_ & P & _). now apply cx_type_of_prefix. Qed.

Lemma nth_ext c c' r n : cx_ext c c' -> cx_nth (cx_exprs c) r = Some n -> cx_nth (cx_exprs c') r = Some n.
Proof. intros (_ & P & _). now apply cx_nth_prefix. Qed.

Lemma key_of_ext c c' r n :
  cx_inv c -> cx_ext c c' -> cx_nth (cx_exprs c) r = Some n ->
  key_resolved (cx_key_of c n) -> cx_key_of c' n = cx_key_of c n.
Proof.
  intros Inv (PS & PE & (PW & _) & _) H.
  destruct n; cbn [cx_key_of key_resolved]; try reflexivity.
  - destruct (cx_nth (cx_strings c) name) eqn:E; [|contradiction].
    intros _. now rewrite (cx_nth_prefix _ _ _ _ PS E).
  - intros _. f_equal.
    destruct (cv_lits _ Inv _ _ _ H) as (ws & Hi & Hs).
    rewrite !(words_at_ws_at _ _ _ _ Hs). destruct PW as [s ->].
    apply ws_at_app.
    destruct Hi as [(x & -> & Hx & ->)|[(x & -> & Hin)|Hin]].
    + pose proof (it_inv_words_len _ (cv_values _ Inv)). cbn [length]. lia.
    + apply (ii_small _ (cv_values _ Inv)) in Hin. cbn [length]. lia.
    + apply (ii_large _ (cv_values _ Inv)) in Hin. lia.
  - destruct (cx_nth (cx_strings c) name) eqn:E; [|contradiction].
    intros _. now rewrite (cx_nth_prefix _ _ _ _ PS E).
Qed.

Lemma key_is_elim c r k : cx_key_is (cx_keys c) r k = true -> exists n, cx_nth (cx_exprs c) r = Some n /\ cx_key_of c n = k.
Proof.
  unfold cx_key_is, cx_keys. rewrite cx_nth_map. destruct (cx_nth (cx_exprs c) r) as [n|]; cbn [option_map]; [|discriminate].
  intro H. apply cx_key_eqb_eq in H. eauto.
Qed.

Lemma key_is_ext c c' r k :
  cx_inv c -> cx_ext c c' -> key_resolved k -> cx_key_is (cx_keys c) r k = true -> cx_key_is (cx_keys c') r k = true.
Proof.
  intros Inv Ext Hres H. apply key_is_elim in H as (n & Hn & <-).
  rewrite <- (key_of_ext _ _ _ _ Inv Ext Hn Hres). apply key_is_intro. eapply nth_ext; eauto.
Qed.

(* ------------------------------------------------------------------ literals *)
Lemma bv_lit_key w ws c c' r :
  cx_inv c -> cx_bv_lit w ws c = (c', CxOk r) ->
  cx_inv c' /\ cx_ext c c' /\ cx_key_is (cx_keys c') r (CkLit w ws) = true /\
  cx_type_of (cx_exprs c') r = CxOk (CtBV w).
Proof.
  intros Inv H. destruct (cx_bv_lit_spec _ _ _ _ _ Inv H) as (Inv' & S).
  destruct (S r eq_refl) as (Sh & idx & L & I).
  split; [exact Inv'|]. split; [exact (proj1 (good_bv_lit w ws) _ _ _ H)|]. split.
  - replace (CkLit w ws) with (cx_key_of c' (CnBVLiteral idx w)); [now apply key_is_intro|].
    cbn [cx_key_of]. f_equal. rewrite (words_at_ws_at _ _ _ _ Sh).
    apply idx_of_words; [exact (cv_values _ Inv')|exact I].
  - unfold cx_type_of. destruct (cx_exprs c') as [|x l] eqn:E; [now rewrite cx_nth_spec in L; destruct (N.to_nat r)|].
    cbn [cx_chase]. rewrite <- E in *. now rewrite L.
Qed.

Lemma type_of_node es r n t : cx_nth es r = Some n -> cx_step n = inl (CxOk t) -> cx_type_of es r = CxOk t.
Proof.
  intros H S. unfold cx_type_of. destruct es as [|x l] eqn:E.
  - now rewrite cx_nth_spec in H; destruct (N.to_nat r).
  - cbn [cx_chase]. rewrite <- E in *. now rewrite H, S.
Qed.

(* ------------------------------------------------------------------ builders *)
Ltac run_inv2 :=
  repeat first
    [ progress run_inv
    | match goal with
      | H : cx_assert_same_width _ _ _ = (_, CxOk _) |- _ => unfold cx_assert_same_width in H
      | H : cx_assert_bool _ _ = (_, CxOk _) |- _ => unfold cx_assert_bool in H
      | H : cx_add_expr _ _ = (_, CxOk _) |- _ =>
          let E := fresh "Ext" in let L := fresh "Lk" in let S := fresh "Ss" in let V := fresh "Vs" in
          apply add_expr_ok in H; destruct H as (E & L & S & V)
      end ].

Lemma bin_spec o a b c c' r :
  cx_bin o a b c = (c', CxOk r) ->
  cx_ext c c' /\ exists w, cx_type_of (cx_exprs c) b = CxOk (CtBV w) /\ cx_nth (cx_exprs c') r = Some (CnBVBin o a b w).
Proof. unfold cx_bin. intro H. run_inv2. eauto. Qed.

Lemma denotes_bin_intro c o a b r w :
  cx_type_of (cx_exprs c) b = CxOk (CtBV w) -> cx_nth (cx_exprs c) r = Some (CnBVBin o a b w) ->
  cx_denotes_bin (cx_keys c) (cx_types c) o a b r = true.
Proof.
  intros T L. unfold cx_denotes_bin, cx_with_bv. rewrite (obs_bv_intro _ _ _ T). now apply is_node_intro.
Qed.

Lemma equal_spec a b c c' r :
  cx_equal a b c = (c', CxOk r) ->
  cx_ext c c' /\ exists t, cx_type_of (cx_exprs c) a = CxOk t /\
    cx_nth (cx_exprs c') r = Some (match t with CtBV _ => CnBVEqual a b | CtArr _ _ => CnArrayEqual a b end).
Proof.
  unfold cx_equal. intro H. run_inv2. destruct a3; run_inv2; split; auto; eexists; split; eauto.
Qed.

Lemma denotes_equal_intro c a b r t :
  cx_type_of (cx_exprs c) a = CxOk t ->
  cx_nth (cx_exprs c) r = Some (match t with CtBV _ => CnBVEqual a b | CtArr _ _ => CnArrayEqual a b end) ->
  cx_denotes_equal (cx_keys c) (cx_types c) a b r = true.
Proof.
  intros T L. unfold cx_denotes_equal. rewrite (obs_ty_intro _ _ _ T). destruct t; now apply is_node_intro.
Qed.

Lemma add32_ok a b w : cx_add32 a b = CxOk w -> w = a + b.
Proof. unfold cx_add32. destruct (a + b <=? cx_u32_max); [now intros [= <-]|discriminate]. Qed.

Ltac tydestruct :=
  match goal with
  | H : (match ?t with CtBV _ => _ | CtArr _ _ => _ end) _ = (_, CxOk _) |- _ => destruct t
  end.

Ltac str_inv :=
  match goal with
  | H : cx_string _ _ = (_, CxOk _) |- _ =>
      let i := fresh "i" in let E := fresh "E" in let Hi := fresh "Hs" in
      apply cx_string_spec in H; destruct H as (i & E & Hi); injection E as E; subst
  end.

Ltac lit_inv Inv :=
  match goal with
  | H : cx_bv_lit _ _ _ = (_, CxOk _) |- _ =>
      let I := fresh "Inv" in let E := fresh "Ext" in let K := fresh "Key" in let T := fresh "Ty" in
      apply (bv_lit_key _ _ _ _ _ Inv) in H; destruct H as (I & E & K & T)
  end.

Ltac node_goal :=
  first [ apply is_node_intro; [exact I|eassumption]
        | apply is_node_intro; [exact I|eapply nth_ext; eassumption] ].

Ltac key_goal n :=
  match goal with
  | |- cx_key_is (cx_keys ?cc) ?r ?k = true =>
      replace k with (cx_key_of cc n); [apply key_is_intro; eassumption|cbn [cx_key_of]]
  end.

  Ltac start H := cbn [cx_run_op] in H; unfold cx_as_expr in H; run_inv2; cbn [cx_denotes].

  Lemma den_string c c' out s : cx_inv c -> cx_run_op (CoString s) c = (c', CxOk out) -> cx_denotes (cx_keys c') (cx_types c') (cx_strings c') (CoString s) out = true.
  Proof. intros Inv H. cbn [cx_run_op] in H. run_inv2. str_inv. cbn [cx_denotes]. rewrite Hs. apply String.eqb_refl. Qed.

  Lemma den_bv_symbol c c' out s w : cx_inv c -> cx_run_op (CoBvSymbol s w) c = (c', CxOk out) -> cx_denotes (cx_keys c') (cx_types c') (cx_strings c') (CoBvSymbol s w) out = true.
  Proof.
    intros Inv H. unfold cx_run_op, cx_bv_symbol in H. start H. str_inv. run_inv2.
    key_goal (CnBVSymbol i w). now rewrite Ss, Hs.
  Qed.

  Lemma den_array_symbol c c' out s iw dw : cx_inv c -> cx_run_op (CoArraySymbol s iw dw) c = (c', CxOk out) -> cx_denotes (cx_keys c') (cx_types c') (cx_strings c') (CoArraySymbol s iw dw) out = true.
  Proof.
    intros Inv H. unfold cx_run_op, cx_array_symbol in H. start H. str_inv. run_inv2.
    key_goal (CnArraySymbol i iw dw). now rewrite Ss, Hs.
  Qed.

  Lemma den_symbol c c' out n t : cx_inv c -> cx_run_op (CoSymbol n t) c = (c', CxOk out) -> cx_denotes (cx_keys c') (cx_types c') (cx_strings c') (CoSymbol n t) out = true.
  Proof.
    intros Inv H. unfold cx_run_op, cx_symbol in H. destruct t; start H.
    - key_goal (CnBVSymbol n w). reflexivity.
    - key_goal (CnArraySymbol n iw dw). reflexivity.
  Qed.

  Lemma den_bv_lit c c' out w ws : cx_inv c -> cx_run_op (CoBvLit w ws) c = (c', CxOk out) -> cx_denotes (cx_keys c') (cx_types c') (cx_strings c') (CoBvLit w ws) out = true.
  Proof. intros Inv H. start H. lit_inv Inv. exact Key. Qed.

  Lemma words_of_low_word w v : w <= 64 -> w <> 0 -> cx_words_of w (v mod cx_word_base) = cx_words_of w v.
Proof.
  intros Hw H0. unfold cx_words_of.
  assert (E : cx_nwords w = 1).
  { unfold cx_nwords. symmetry. apply N.div_unique with (r := w - 1); lia. }
  rewrite E. change (N.to_nat 1) with 1%nat. cbn [cx_digits].
  rewrite N.mod_mod by discriminate. reflexivity.
Qed.

Lemma den_bit_vec_val c c' out v w : cx_inv c -> cx_run_op (CoBitVecVal v w) c = (c', CxOk out) -> cx_denotes (cx_keys c') (cx_types c') (cx_strings c') (CoBitVecVal v w) out = true.
Proof.
  intros Inv H. unfold cx_run_op, cx_bit_vec_val, cx_lit_value in H. unfold cx_as_expr in H.
  apply bind_ok in H as (c1 & r & H & Hret). apply ret_ok in Hret as (-> & ->).
  apply bind_ok in H as (c2 & u & Ha & H). apply assert_ok in Ha as (-> & Hw0).
  apply negb_true_iff in Hw0. apply N.eqb_neq in Hw0.
  cbn [cx_denotes]. destruct (w <=? 64) eqn:Hle; run_inv2; lit_inv Inv.
  - apply N.leb_le in Hle. now rewrite <- (words_of_low_word w v Hle Hw0).
  - exact Key.
Qed.

Lemma den_zero c c' out w : cx_inv c -> cx_run_op (CoZero w) c = (c', CxOk out) -> cx_denotes (cx_keys c') (cx_types c') (cx_strings c') (CoZero w) out = true.
  Proof. intros Inv H. unfold cx_run_op, cx_zero, cx_lit_value in H. start H. lit_inv Inv. exact Key. Qed.

  Lemma den_one c c' out w : cx_inv c -> cx_run_op (CoOne w) c = (c', CxOk out) -> cx_denotes (cx_keys c') (cx_types c') (cx_strings c') (CoOne w) out = true.
  Proof. intros Inv H. unfold cx_run_op, cx_one, cx_lit_value in H. start H. lit_inv Inv. exact Key. Qed.

  Lemma den_ones c c' out w : cx_inv c -> cx_run_op (CoOnes w) c = (c', CxOk out) -> cx_denotes (cx_keys c') (cx_types c') (cx_strings c') (CoOnes w) out = true.
  Proof. intros Inv H. unfold cx_run_op, cx_ones, cx_lit_value in H. start H. lit_inv Inv. exact Key. Qed.

  Lemma den_get_true c c' out : cx_inv c -> cx_run_op CoGetTrue c = (c', CxOk out) -> cx_denotes (cx_keys c') (cx_types c') (cx_strings c') CoGetTrue out = true.
  Proof.
    intros Inv H. cbn [cx_run_op] in H. unfold cx_as_expr, cx_get_true in H. run_inv2. injection R as <- <-.
    cbn [cx_denotes]. destruct (cv_tf _ Inv) as (_ & -> & _). reflexivity.
  Qed.

  Lemma den_get_false c c' out : cx_inv c -> cx_run_op CoGetFalse c = (c', CxOk out) -> cx_denotes (cx_keys c') (cx_types c') (cx_strings c') CoGetFalse out = true.
  Proof.
    intros Inv H. cbn [cx_run_op] in H. unfold cx_as_expr, cx_get_false in H. run_inv2. injection R as <- <-.
    cbn [cx_denotes]. destruct (cv_tf _ Inv) as (-> & _). reflexivity.
  Qed.

  Lemma den_equal c c' out a b : cx_inv c -> cx_run_op (CoEqual a b) c = (c', CxOk out) -> cx_denotes (cx_keys c') (cx_types c') (cx_strings c') (CoEqual a b) out = true.
  Proof.
    intros Inv H. start H. apply equal_spec in R as (Ext & t & T & L).
    eapply denotes_equal_intro; [eapply type_ext; eauto|exact L].
  Qed.

  Lemma den_implies c c' out a b : cx_inv c -> cx_run_op (CoImplies a b) c = (c', CxOk out) -> cx_denotes (cx_keys c') (cx_types c') (cx_strings c') (CoImplies a b) out = true.
  Proof. intros Inv H. unfold cx_run_op, cx_implies in H. start H. node_goal. Qed.

  Lemma den_greater c c' out a b : cx_inv c -> cx_run_op (CoGreater a b) c = (c', CxOk out) -> cx_denotes (cx_keys c') (cx_types c') (cx_strings c') (CoGreater a b) out = true.
  Proof. intros Inv H. unfold cx_run_op, cx_greater in H. start H. node_goal. Qed.

  Lemma den_greater_eq c c' out a b : cx_inv c -> cx_run_op (CoGreaterEq a b) c = (c', CxOk out) -> cx_denotes (cx_keys c') (cx_types c') (cx_strings c') (CoGreaterEq a b) out = true.
  Proof. intros Inv H. unfold cx_run_op, cx_greater_or_equal in H. start H. node_goal. Qed.

  Ltac with_bv_goal :=
    unfold cx_with_bv;
    match goal with
    | T : cx_type_of (cx_exprs ?c0) ?b = CxOk (CtBV ?w) |- context [cx_obs_bv (cx_types ?c1) ?b] =>
        rewrite (obs_bv_intro c1 b w) by (first [exact T | eapply type_ext; eassumption])
    end.

  Lemma den_greater_signed c c' out a b : cx_inv c -> cx_run_op (CoGreaterSigned a b) c = (c', CxOk out) -> cx_denotes (cx_keys c') (cx_types c') (cx_strings c') (CoGreaterSigned a b) out = true.
  Proof. intros Inv H. unfold cx_run_op, cx_greater_signed in H. start H. with_bv_goal. node_goal. Qed.

  Lemma den_greater_eq_signed c c' out a b : cx_inv c -> cx_run_op (CoGreaterEqSigned a b) c = (c', CxOk out) -> cx_denotes (cx_keys c') (cx_types c') (cx_strings c') (CoGreaterEqSigned a b) out = true.
  Proof. intros Inv H. unfold cx_run_op, cx_greater_or_equal_signed in H. start H. with_bv_goal. node_goal. Qed.

  Lemma den_not c c' out e : cx_inv c -> cx_run_op (CoNot e) c = (c', CxOk out) -> cx_denotes (cx_keys c') (cx_types c') (cx_strings c') (CoNot e) out = true.
  Proof. intros Inv H. unfold cx_run_op, cx_not in H. start H. with_bv_goal. node_goal. Qed.

  Lemma den_negate c c' out e : cx_inv c -> cx_run_op (CoNegate e) c = (c', CxOk out) -> cx_denotes (cx_keys c') (cx_types c') (cx_strings c') (CoNegate e) out = true.
  Proof. intros Inv H. unfold cx_run_op, cx_negate in H. start H. with_bv_goal. node_goal. Qed.

  Lemma den_bin c c' out o a b : cx_inv c -> cx_run_op (CoBin o a b) c = (c', CxOk out) -> cx_denotes (cx_keys c') (cx_types c') (cx_strings c') (CoBin o a b) out = true.
  Proof.
    intros Inv H. start H. apply bin_spec in R as (Ext & w & T & L).
    eapply denotes_bin_intro; [eapply type_ext; eauto|exact L].
  Qed.

  Lemma den_array_store c c' out a i d : cx_inv c -> cx_run_op (CoArrayStore a i d) c = (c', CxOk out) -> cx_denotes (cx_keys c') (cx_types c') (cx_strings c') (CoArrayStore a i d) out = true.
  Proof. intros Inv H. unfold cx_run_op, cx_array_store in H. start H. node_goal. Qed.

  Lemma den_array_const c c' out e iw : cx_inv c -> cx_run_op (CoArrayConst e iw) c = (c', CxOk out) -> cx_denotes (cx_keys c') (cx_types c') (cx_strings c') (CoArrayConst e iw) out = true.
  Proof. intros Inv H. unfold cx_run_op, cx_array_const in H. start H. with_bv_goal. node_goal. Qed.

Lemma den_array_read c c' out a i : cx_inv c -> cx_run_op (CoArrayRead a i) c = (c', CxOk out) -> cx_denotes (cx_keys c') (cx_types c') (cx_strings c') (CoArrayRead a i) out = true.
Proof.
  intros Inv H. unfold cx_run_op, cx_array_read in H. start H. tydestruct; run_inv2.
  match goal with T : cx_type_of _ a = CxOk ?t |- _ => rewrite (obs_ty_intro _ a t) by (eapply type_ext; eassumption) end.
  node_goal.
Qed.

Lemma den_ite c0 c' out c t f : cx_inv c0 -> cx_run_op (CoIte c t f) c0 = (c', CxOk out) -> cx_denotes (cx_keys c') (cx_types c') (cx_strings c') (CoIte c t f) out = true.
Proof.
  intros Inv H. unfold cx_run_op, cx_ite in H. start H. tydestruct; run_inv2;
  match goal with T : cx_type_of _ t = CxOk ?ty |- _ => rewrite (obs_ty_intro _ t ty) by (eapply type_ext; eassumption) end;
  node_goal.
Qed.

Lemma den_concat c c' out a b : cx_inv c -> cx_run_op (CoConcat a b) c = (c', CxOk out) -> cx_denotes (cx_keys c') (cx_types c') (cx_strings c') (CoConcat a b) out = true.
Proof.
  intros Inv H. unfold cx_run_op, cx_concat in H. start H.
  match goal with A : cx_add32 _ _ = CxOk _ |- _ => apply add32_ok in A; subst end.
  unfold cx_with_bv.
  repeat match goal with
  | T : cx_type_of (cx_exprs ?c0) ?b = CxOk (CtBV ?w) |- context [cx_obs_bv (cx_types ?c1) ?b] =>
      rewrite (obs_bv_intro c1 b w) by (first [exact T | eapply type_ext; eassumption])
  end.
  node_goal.
Qed.

Lemma den_zero_extend c c' out e b : cx_inv c -> cx_run_op (CoZeroExt e b) c = (c', CxOk out) -> cx_denotes (cx_keys c') (cx_types c') (cx_strings c') (CoZeroExt e b) out = true.
Proof.
  intros Inv H. unfold cx_run_op, cx_zero_extend in H. cbn [cx_denotes]. unfold cx_as_expr in H.
  destruct (b =? 0) eqn:E; run_inv2; [apply N.eqb_refl|].
  match goal with A : cx_add32 _ _ = CxOk _ |- _ => apply add32_ok in A; subst end.
  with_bv_goal. node_goal.
Qed.

Lemma den_sign_extend c c' out e b : cx_inv c -> cx_run_op (CoSignExt e b) c = (c', CxOk out) -> cx_denotes (cx_keys c') (cx_types c') (cx_strings c') (CoSignExt e b) out = true.
Proof.
  intros Inv H. unfold cx_run_op, cx_sign_extend in H. cbn [cx_denotes]. unfold cx_as_expr in H.
  destruct (b =? 0) eqn:E; run_inv2; [apply N.eqb_refl|].
  match goal with A : cx_add32 _ _ = CxOk _ |- _ => apply add32_ok in A; subst end.
  with_bv_goal. node_goal.
Qed.

Lemma den_extend c c' out e b s : cx_inv c -> cx_run_op (CoExtend e b s) c = (c', CxOk out) -> cx_denotes (cx_keys c') (cx_types c') (cx_strings c') (CoExtend e b s) out = true.
Proof.
  intros Inv H. unfold cx_run_op, cx_extend, cx_sign_extend, cx_zero_extend in H. cbn [cx_denotes]. unfold cx_as_expr in H.
  destruct s; (destruct (b =? 0) eqn:E; run_inv2; [apply N.eqb_refl|]);
  match goal with A : cx_add32 _ _ = CxOk _ |- _ => apply add32_ok in A; subst end;
  with_bv_goal; node_goal.
Qed.

Lemma den_slice c c' out e hi lo : cx_inv c -> cx_run_op (CoSlice e hi lo) c = (c', CxOk out) -> cx_denotes (cx_keys c') (cx_types c') (cx_strings c') (CoSlice e hi lo) out = true.
Proof.
  intros Inv H. unfold cx_run_op, cx_slice in H. cbn [cx_denotes]. unfold cx_as_expr in H.
  destruct (lo =? 0) eqn:E; cbn [andb].
  - run_inv2. match goal with A : cx_add32 _ _ = CxOk _ |- _ => apply add32_ok in A; subst end.
    match goal with H : (if ?b then _ else _) _ = (_, CxOk _) |- _ => destruct b eqn:Full end; run_inv2.
    + rewrite (obs_bv_intro _ _ _ ltac:(eassumption)). rewrite Full. apply N.eqb_refl.
    + match goal with T : cx_type_of _ e = CxOk (CtBV ?w) |- _ =>
        rewrite (obs_bv_intro _ e w) by (eapply type_ext; eassumption) end.
      rewrite Full. node_goal.
  - run_inv2. node_goal.
Qed.

Lemma den_distinct c c' out a b : cx_inv c -> cx_run_op (CoDistinct a b) c = (c', CxOk out) -> cx_denotes (cx_keys c') (cx_types c') (cx_strings c') (CoDistinct a b) out = true.
Proof.
  intros Inv H. unfold cx_run_op, cx_distinct, cx_not in H. start H.
  match goal with R : cx_equal _ _ _ = _ |- _ => apply equal_spec in R as (Ext0 & t & T & L) end.
  match goal with Lk : cx_nth _ _ = Some (CnBVNot ?e ?w) |- _ =>
    rewrite (find_node_intro _ _ (CnBVNot e w) I Lk) end.
  assert (Tn : exists t', cx_step (match t with CtBV _ => CnBVEqual a b | CtArr _ _ => CnArrayEqual a b end) = inl (CxOk (CtBV 1)))
    by (destruct t; cbn; eauto).
  destruct Tn as (_ & Tn).
  match goal with T1 : cx_type_of _ ?e = CxOk (CtBV ?w) |- _ =>
    rewrite (type_of_node _ _ _ _ L Tn) in T1; injection T1 as <- end.
  cbn [N.eqb Pos.eqb andb].
  eapply denotes_equal_intro; [eapply type_ext; [|exact T]|eapply nth_ext; [|exact L]]; eapply cx_ext_trans; eauto using cx_ext_refl.
Qed.

Lemma den_unconvertible c c' out : cx_inv c -> cx_run_op CoLitArrUnconvertible c = (c', CxOk out) -> cx_denotes (cx_keys c') (cx_types c') (cx_strings c') CoLitArrUnconvertible out = true.
Proof. intros _ H. discriminate H. Qed.

Lemma den_zero_array c c' out iw dw : cx_inv c -> cx_run_op (CoZeroArray iw dw) c = (c', CxOk out) -> cx_denotes (cx_keys c') (cx_types c') (cx_strings c') (CoZeroArray iw dw) out = true.
Proof.
  intros Inv H. unfold cx_run_op, cx_zero_array, cx_zero, cx_lit_value, cx_array_const in H.
  cbn [cx_run_op] in H. unfold cx_as_expr in H.
  apply bind_ok in H as (c1 & r & H & Hret). apply ret_ok in Hret as (-> & ->).
  apply bind_ok in H as (c2 & d & Hlit & H).
  apply (bv_lit_key _ _ _ _ _ Inv) in Hlit as (Inv2 & Ext2 & Key & Ty).
  run_inv2. cbn [cx_denotes].
  match goal with Lk : cx_nth _ _ = Some (CnArrayConstant ?e ?i ?w) |- _ =>
    rewrite (find_node_intro _ _ (CnArrayConstant e i w) I Lk) end.
  match goal with T1 : cx_type_of _ d = CxOk (CtBV ?w) |- _ => rewrite Ty in T1; injection T1 as <- end.
  rewrite !N.eqb_refl. cbn [andb].
  eapply key_is_ext; [exact Inv2|eassumption|exact I|exact Key].
Qed.

Lemma find_node_bin c r o a b w :
  cx_nth (cx_exprs c) r = Some (CnBVBin o a b w) -> cx_find_node (cx_keys c) r = Some (CnBVBin o a b w).
Proof. apply find_node_intro. exact I. Qed.

Lemma den_xor3 c0 c' out a b c : cx_inv c0 -> cx_run_op (CoXor3 a b c) c0 = (c', CxOk out) -> cx_denotes (cx_keys c') (cx_types c') (cx_strings c') (CoXor3 a b c) out = true.
Proof.
  intros Inv H. unfold cx_run_op, cx_xor3 in H. cbn [cx_run_op] in H. unfold cx_as_expr in H.
  apply bind_ok in H as (c1 & r & H & Hret). apply ret_ok in Hret as (-> & ->).
  apply bind_ok in H as (c2 & x & H1 & H2).
  apply bin_spec in H1 as (E1 & w1 & T1 & L1). apply bin_spec in H2 as (E2 & w2 & T2 & L2).
  cbn [cx_denotes]. rewrite (find_node_bin _ _ _ _ _ _ L2). rewrite N.eqb_refl. cbn [andb].
  rewrite (denotes_bin_intro c1 CxXor a b x w1) by (first [eapply type_ext; [|exact T1]; eapply cx_ext_trans; eauto | eapply nth_ext; eauto]).
  cbn [andb]. eapply denotes_bin_intro; [eapply type_ext; eauto|exact L2].
Qed.

Lemma den_majority c0 c' out a b c : cx_inv c0 -> cx_run_op (CoMajority a b c) c0 = (c', CxOk out) -> cx_denotes (cx_keys c') (cx_types c') (cx_strings c') (CoMajority a b c) out = true.
Proof.
  intros Inv H. unfold cx_run_op, cx_majority in H. cbn [cx_run_op] in H. unfold cx_as_expr in H.
  apply bind_ok in H as (cf & r & H & Hret). apply ret_ok in Hret as (-> & ->).
  apply bind_ok in H as (c1 & ab & H1 & H). apply bind_ok in H as (c2 & ac & H2 & H).
  apply bind_ok in H as (c3 & bc & H3 & H). apply bind_ok in H as (c4 & x & H4 & H5).
  apply bin_spec in H1 as (E1 & w1 & T1 & L1). apply bin_spec in H2 as (E2 & w2 & T2 & L2).
  apply bin_spec in H3 as (E3 & w3 & T3 & L3). apply bin_spec in H4 as (E4 & w4 & T4 & L4).
  apply bin_spec in H5 as (E5 & w5 & T5 & L5).
  assert (E25 : cx_ext c2 cf) by (eapply cx_ext_trans; [exact E3|eapply cx_ext_trans; eauto]).
  assert (E35 : cx_ext c3 cf) by (eapply cx_ext_trans; eauto).
  assert (E15 : cx_ext c1 cf) by (eapply cx_ext_trans; eauto).
  assert (E05 : cx_ext c0 cf) by (eapply cx_ext_trans; eauto).
  assert (E45 : cx_ext c4 cf) by exact E5.
  pose proof (nth_ext _ _ _ _ E15 L1) as L1f. pose proof (nth_ext _ _ _ _ E25 L2) as L2f.
  pose proof (nth_ext _ _ _ _ E35 L3) as L3f. pose proof (nth_ext _ _ _ _ E45 L4) as L4f.
  pose proof (type_ext _ _ _ _ E05 T1) as T1f. pose proof (type_ext _ _ _ _ E15 T2) as T2f.
  pose proof (type_ext _ _ _ _ E25 T3) as T3f. pose proof (type_ext _ _ _ _ E35 T4) as T4f.
  pose proof (type_ext _ _ _ _ E45 T5) as T5f.
  cbn [cx_denotes]. rewrite (find_node_bin _ _ _ _ _ _ L5).
  rewrite (denotes_bin_intro cf CxAnd b c bc w3 T3f L3f).
  rewrite (denotes_bin_intro cf CxOr x bc r w5 T5f L5).
  cbn [andb]. rewrite (find_node_bin cf x _ _ _ _ L4f).
  rewrite (denotes_bin_intro cf CxAnd a b ab w1 T1f L1f).
  rewrite (denotes_bin_intro cf CxAnd a c ac w2 T2f L2f).
  cbn [andb]. exact (denotes_bin_intro cf CxOr ab ac x w4 T4f L4f).
Qed.

(* ------------------------------------------------------------------ lit(array value) *)
Lemma store_base_snoc keys k : forall r m a i d,
  cx_store_base keys k r = Some m -> cx_find_node keys m = Some (CnArrayStore a i d) ->
  cx_store_base keys (S k) r = Some a.
Proof.
  induction k as [|k IH]; intros r m a i d H F.
  - cbn [cx_store_base] in *. injection H as <-. now rewrite F.
  - cbn [cx_store_base] in H. change (cx_store_base keys (S (S k)) r) with
      (match cx_find_node keys r with Some (CnArrayStore a0 _ _) => cx_store_base keys (S k) a0 | _ => None end).
    destruct (cx_find_node keys r) as [[]|]; try discriminate. eapply IH; eauto.
Qed.

Lemma stores_app_one keys l : forall r m a i d i' d',
  cx_store_base keys (length l) r = Some m -> cx_denotes_stores keys l m r = true ->
  cx_find_node keys m = Some (CnArrayStore a i' d') ->
  cx_key_is keys i' (CkLit (fst i) (snd i)) = true -> cx_key_is keys d' (CkLit (fst d) (snd d)) = true ->
  cx_denotes_stores keys (l ++ [(i, d)]) a r = true.
Proof.
  induction l as [|[i0 d0] t IH]; intros r m a i d i' d' B S F Ki Kd.
  - cbn [length cx_store_base] in B. injection B as <-. cbn [app cx_denotes_stores].
    rewrite F, Ki, Kd. cbn [andb]. apply N.eqb_refl.
  - cbn [length cx_store_base] in B. cbn [app cx_denotes_stores] in *.
    destruct (cx_find_node keys r) as [[]|]; try discriminate.
    apply andb_true_iff in S as [S1 S2]. rewrite S1. cbn [andb]. eapply IH; eauto.
Qed.

Lemma fold_spec es : forall arr c c' r,
  cx_inv c -> cx_lit_arr_fold es arr c = (c', CxOk r) ->
  cx_inv c' /\ cx_ext c c' /\
  cx_store_base (cx_keys c') (length es) r = Some arr /\
  cx_denotes_stores (cx_keys c') (rev es) arr r = true.
Proof.
  induction es as [|[i d] t IH]; intros arr c c' r Inv H.
  - cbn [cx_lit_arr_fold] in H. apply ret_ok in H as (-> & ->).
    split; [exact Inv|]. split; [apply cx_ext_refl|]. split; [reflexivity|]. cbn. apply N.eqb_refl.
  - cbn [cx_lit_arr_fold] in H.
    apply bind_ok in H as (c1 & i' & H1 & H). apply bind_ok in H as (c2 & d' & H2 & H).
    apply bind_ok in H as (c3 & a' & H3 & H).
    apply (bv_lit_key _ _ _ _ _ Inv) in H1 as (Inv1 & E1 & K1 & _).
    apply (bv_lit_key _ _ _ _ _ Inv1) in H2 as (Inv2 & E2 & K2 & _).
    assert (Inv3 : cx_inv c3) by (eapply (pres_add_expr (CnArrayStore arr i' d') I); eauto).
    unfold cx_array_store in H3. apply add_expr_ok in H3 as (E3 & L3 & _ & _).
    destruct (IH _ _ _ _ Inv3 H) as (Inv' & E4 & B & S).
    assert (E2' : cx_ext c2 c') by (eapply cx_ext_trans; eauto).
    assert (E1' : cx_ext c1 c') by (eapply cx_ext_trans; eauto).
    split; [exact Inv'|]. split; [eapply cx_ext_trans; [exact E1|exact E1']|].
    pose proof (find_node_intro c' a' (CnArrayStore arr i' d') I (nth_ext _ _ _ _ E4 L3)) as F.
    split.
    + cbn [length]. eapply store_base_snoc; eauto.
    + cbn [rev]. eapply stores_app_one; [rewrite rev_length; exact B|exact S|exact F| |].
      * eapply key_is_ext; [exact Inv1|exact E1'|exact I|exact K1].
      * eapply key_is_ext; [exact Inv2|exact E2'|exact I|exact K2].
Qed.

Lemma den_lit_arr c c' out iw d es : cx_inv c -> cx_run_op (CoLitArr iw d es) c = (c', CxOk out) -> cx_denotes (cx_keys c') (cx_types c') (cx_strings c') (CoLitArr iw d es) out = true.
Proof.
  intros Inv H. cbn [cx_run_op] in H. unfold cx_as_expr, cx_lit_arr, cx_array_const in H.
  apply bind_ok in H as (cf & r & H & Hret). apply ret_ok in Hret as (-> & ->).
  apply bind_ok in H as (c1 & d' & H1 & H). apply bind_ok in H as (c2 & base & H2 & H).
  apply (bv_lit_key _ _ _ _ _ Inv) in H1 as (Inv1 & E1 & K1 & Ty1).
  apply bind_ok in H2 as (c1' & dw' & Hb & H2). apply bv_type_ok in Hb as (-> & Hb).
  rewrite Ty1 in Hb. injection Hb as <-.
  assert (Inv2 : cx_inv c2) by (eapply (pres_add_expr (CnArrayConstant d' iw (fst d)) I); eauto).
  apply add_expr_ok in H2 as (E2 & L2 & _ & _).
  destruct (fold_spec _ _ _ _ _ Inv2 H) as (Inv' & E3 & B & S).
  cbn [cx_denotes]. rewrite B, S. cbn [andb].
  rewrite (find_node_intro cf base (CnArrayConstant d' iw (fst d)) I (nth_ext _ _ _ _ E3 L2)).
  rewrite !N.eqb_refl. cbn [andb].
  eapply key_is_ext; [exact Inv1|eapply cx_ext_trans; eauto|exact I|exact K1].
Qed.

(** every builder call that returns a reference returns one that denotes the request *)
Lemma denotes_lemma_inv c c' o out :
  cx_inv c -> cx_run_op o c = (c', CxOk out) ->
  cx_denotes (cx_keys c') (cx_types c') (cx_strings c') o out = true.
Proof.
  intros Inv H. destruct o.
  - eapply den_string; eauto.
  - eapply den_bv_symbol; eauto.
  - eapply den_array_symbol; eauto.
  - eapply den_symbol; eauto.
  - eapply den_bv_lit; eauto.
  - eapply den_bit_vec_val; eauto.
  - eapply den_zero; eauto.
  - eapply den_one; eauto.
  - eapply den_ones; eauto.
  - eapply den_zero_array; eauto.
  - eapply den_lit_arr; eauto.
  - eapply den_get_true; eauto.
  - eapply den_get_false; eauto.
  - eapply den_distinct; eauto.
  - eapply den_equal; eauto.
  - eapply den_ite; eauto.
  - eapply den_implies; eauto.
  - eapply den_greater; eauto.
  - eapply den_greater_signed; eauto.
  - eapply den_greater_eq; eauto.
  - eapply den_greater_eq_signed; eauto.
  - eapply den_not; eauto.
  - eapply den_negate; eauto.
  - eapply den_bin; eauto.
  - eapply den_xor3; eauto.
  - eapply den_majority; eauto.
  - eapply den_concat; eauto.
  - eapply den_slice; eauto.
  - eapply den_zero_extend; eauto.
  - eapply den_sign_extend; eauto.
  - eapply den_extend; eauto.
  - eapply den_array_store; eauto.
  - eapply den_array_const; eauto.
  - eapply den_array_read; eauto.
  - eapply den_unconvertible; eauto.
Qed.

Lemma denotes_lemma :
  forall ops o c' out,
    let c := cx_exec ops cx_default in
    cx_run_op o c = (c', CxOk out) ->
    cx_denotes (cx_keys c') (cx_types c') (cx_strings c') o out = true.
Proof.
  intros ops o c' out c H. eapply denotes_lemma_inv; [|exact H]. apply cx_exec_inv, cx_inv_default.
Qed.
