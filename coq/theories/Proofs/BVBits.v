(** * Proofs/BVBits.v — reusable bit-level ([N.testbit]) and modular-arithmetic facts about
    the operators of [BV.v]; the toolkit behind [BVRuleLemmas.v]. *)
From Coq Require Import Lia.
From Patronus Require Import BV BVLemmas.
Open Scope N_scope.

(** ** powers of two *)
Lemma pow2_split k w : k <= w -> 2 ^ w = 2 ^ k * 2 ^ (w - k).
Proof. intros H. rewrite <- N.pow_add_r. f_equal. lia. Qed.

Lemma pow2_lt_inv a b : 2 ^ a < 2 ^ b -> a < b.
Proof. intros H. apply N.pow_lt_mono_r_iff in H; lia. Qed.

Lemma pow2_lt_mono a b : a < b -> 2 ^ a < 2 ^ b.
Proof. intros H. apply N.pow_lt_mono_r; lia. Qed.

(** ** testbit characterisations *)
Lemma testbit_ones n i : N.testbit (N.ones n) i = (i <? n).
Proof.
  destruct (N.ltb_spec i n) as [H|H].
  - now apply N.ones_spec_low.
  - now apply N.ones_spec_high.
Qed.

Lemma testbit_lnot a w i :
  N.testbit (N.lnot a w) i = if i <? w then negb (N.testbit a i) else N.testbit a i.
Proof.
  destruct (N.ltb_spec i w) as [H|H].
  - now apply N.lnot_spec_low.
  - now apply N.lnot_spec_high.
Qed.

Lemma testbit_mod_pow2 a n i : N.testbit (a mod 2 ^ n) i = (i <? n) && N.testbit a i.
Proof.
  destruct (N.ltb_spec i n) as [H|H]; cbn [andb].
  - now apply N.mod_pow2_bits_low.
  - now apply N.mod_pow2_bits_high.
Qed.

Lemma testbit_div_pow2 a n i : N.testbit (a / 2 ^ n) i = N.testbit a (i + n).
Proof. apply N.div_pow2_bits. Qed.

Lemma testbit_divmod a lo n i :
  N.testbit ((a / 2 ^ lo) mod 2 ^ n) i = (i <? n) && N.testbit a (i + lo).
Proof. now rewrite testbit_mod_pow2, testbit_div_pow2. Qed.

Lemma testbit_slice hi lo a i :
  N.testbit (bv_slice hi lo a) i = (i <=? hi - lo) && N.testbit a (i + lo).
Proof.
  unfold bv_slice. rewrite testbit_divmod. f_equal.
  destruct (N.ltb_spec i (hi - lo + 1)), (N.leb_spec i (hi - lo)); trivial; lia.
Qed.

(** [v + 2^w * r] with [v < 2^w]: the low [w] bits are [v], the rest is [r] *)
Lemma testbit_piece w v r i : v < 2 ^ w ->
  N.testbit (v + 2 ^ w * r) i = if i <? w then N.testbit v i else N.testbit r (i - w).
Proof.
  intros Hv. destruct (N.ltb_spec i w) as [H|H].
  - rewrite <- (N.mod_pow2_bits_low _ w i H).
    rewrite (N.mul_comm (2 ^ w)), N.mod_add by apply pow2_nz.
    rewrite N.mod_small by assumption. reflexivity.
  - replace i with ((i - w) + w) at 1 by lia.
    rewrite <- testbit_div_pow2.
    rewrite (N.mul_comm (2 ^ w)), N.div_add by apply pow2_nz.
    rewrite N.div_small by assumption. reflexivity.
Qed.

Lemma testbit_concat wb a b i : b < 2 ^ wb ->
  N.testbit (bv_concat wb a b) i = if i <? wb then N.testbit b i else N.testbit a (i - wb).
Proof.
  intros Hb. unfold bv_concat. rewrite N.add_comm, (N.mul_comm a). now apply testbit_piece.
Qed.

(** adding a multiple of [2^w] does not change the bits below [w] *)
Lemma testbit_add_mul_pow2_low a c w i : i < w -> N.testbit (a + c * 2 ^ w) i = N.testbit a i.
Proof.
  intros H. rewrite <- (N.mod_pow2_bits_low _ w i H).
  rewrite N.mod_add by apply pow2_nz. now apply N.mod_pow2_bits_low.
Qed.

Lemma testbit_sext w by_ a i : a < 2 ^ w ->
  N.testbit (bv_sext w by_ a) i =
  if i <? w then N.testbit a i else (i <? w + by_) && N.testbit a (w - 1).
Proof.
  intros Ha. unfold bv_sext, msb. destruct (N.testbit a (w - 1)) eqn:E.
  - rewrite (N.mul_comm (N.ones by_)), testbit_piece by assumption.
    rewrite testbit_ones. destruct (N.ltb_spec i w); trivial.
    rewrite Bool.andb_true_r.
    destruct (N.ltb_spec (i - w) by_), (N.ltb_spec i (w + by_)); trivial; lia.
  - destruct (N.ltb_spec i w); trivial. rewrite Bool.andb_false_r.
    apply (bits_bound a w); assumption.
Qed.

Lemma testbit_b2n b i : N.testbit (b2n b) i = (i =? 0) && b.
Proof.
  destruct b; cbn [b2n].
  - destruct (N.eqb_spec i 0) as [->|H]; trivial.
    apply (bits_bound 1 1); [cbn; lia | lia].
  - rewrite N.bits_0. now rewrite Bool.andb_false_r.
Qed.

(** ** tactics for bit-extensional proofs *)

(** rewrite with all the characterisations above *)
Ltac tb_rewrite :=
  repeat first
    [ rewrite N.land_spec | rewrite N.lor_spec | rewrite N.lxor_spec
    | rewrite testbit_ones | rewrite testbit_lnot | rewrite testbit_slice
    | rewrite testbit_divmod | rewrite testbit_mod_pow2 | rewrite testbit_div_pow2
    | rewrite N.bits_0 ].

(** case analysis on every comparison occurring in the goal *)
Ltac tb_cases :=
  repeat match goal with
  | |- context[?a <? ?b] => destruct (N.ltb_spec a b)
  | |- context[?a <=? ?b] => destruct (N.leb_spec a b)
  | |- context[?a =? ?b] => destruct (N.eqb_spec a b)
  end.

(** bits at or above the width of a bounded value are zero *)
Ltac tb_high :=
  repeat match goal with
  | H : ?a < 2 ^ ?w |- context[N.testbit ?a ?e] =>
      rewrite (bits_bound a w e H) by lia
  end.

(** make syntactically different but equal indices into the same vector agree *)
Ltac tb_unify :=
  repeat match goal with
  | |- context[N.testbit ?a ?e1] =>
    match goal with
    | |- context[N.testbit a ?e2] =>
      lazymatch e1 with e2 => fail | _ => idtac end;
      replace (N.testbit a e1) with (N.testbit a e2) by (f_equal; lia)
    end
  end.

Ltac tb_bool :=
  cbn [andb orb negb xorb];
  repeat match goal with
  | H : N.testbit ?a ?e = _ |- context[N.testbit ?a ?e] => rewrite H
  | H : N.testbit ?a ?e = _ |- context[N.testbit ?a ?e1] =>
      replace (N.testbit a e1) with (N.testbit a e) by (f_equal; lia); rewrite H
  end;
  repeat match goal with
  | |- context[N.testbit ?a ?e] => destruct (N.testbit a e)
  end;
  cbn [andb orb negb xorb]; try reflexivity; try lia.

Ltac tb_finish := tb_cases; try lia; tb_high; tb_unify; tb_bool.

Ltac bitwise i := apply N.bits_inj; intros i; tb_rewrite.

(** ** modular arithmetic *)
Lemma mod_mod_pow2 x k w : k <= w -> (x mod 2 ^ w) mod 2 ^ k = x mod 2 ^ k.
Proof. intros H. bitwise i. tb_finish. Qed.

(** the additive inverse modulo [K] is unique *)
Lemma mod_inverse_unique K a b : K <> 0 -> (a + b) mod K = 0 -> a mod K = (K - b mod K) mod K.
Proof.
  intros HK H. rewrite N.add_mod in H by assumption.
  pose proof (N.mod_lt a K HK) as Hp. pose proof (N.mod_lt b K HK) as Hq.
  set (p := a mod K) in *. set (q := b mod K) in *.
  pose proof (N.div_mod (p + q) K HK) as E. rewrite H in E.
  assert (Hd : (p + q) / K < 2) by (apply N.div_lt_upper_bound; lia).
  assert (C : (p + q) / K = 0 \/ (p + q) / K = 1) by lia.
  destruct C as [C|C]; rewrite C in E.
  - assert (p = 0) by lia. assert (q = 0) by lia. subst p q.
    replace (a mod K) with 0 by lia. replace (b mod K) with 0 by lia.
    rewrite N.sub_0_r, N.mod_same by assumption. reflexivity.
  - destruct (N.eq_dec q 0) as [Hq0|Hq0].
    + rewrite Hq0, N.sub_0_r, N.mod_same by assumption. lia.
    + rewrite N.mod_small by lia. lia.
Qed.

Lemma neg_mod_pow2 k w x : k <= w -> (bv_neg w x) mod 2 ^ k = bv_neg k x.
Proof.
  intros H. unfold bv_neg at 2. apply mod_inverse_unique; [apply pow2_nz|].
  unfold bv_neg. rewrite N.add_mod, mod_mod_pow2 by (assumption || apply pow2_nz).
  rewrite <- (mod_mod_pow2 x k w H).
  rewrite <- N.add_mod by apply pow2_nz.
  pose proof (mod_bound x w).
  replace (2 ^ w - x mod 2 ^ w + x mod 2 ^ w) with (2 ^ w) by lia.
  rewrite (pow2_split k w H), N.mul_comm. apply N.mod_mul, pow2_nz.
Qed.

Lemma bv_neg_mod w x : bv_neg w (x mod 2 ^ w) = bv_neg w x.
Proof. unfold bv_neg. now rewrite N.mod_mod by apply pow2_nz. Qed.

(** ** slices as quotient / remainder *)
Lemma slice_0 hi a : bv_slice hi 0 a = a mod 2 ^ (hi + 1).
Proof. unfold bv_slice. now rewrite N.pow_0_r, N.div_1_r, N.sub_0_r. Qed.

Lemma slice_top w lo a : a < 2 ^ w -> lo < w -> bv_slice (w - 1) lo a = a / 2 ^ lo.
Proof.
  intros Ha H. unfold bv_slice. apply N.mod_small.
  replace (w - 1 - lo + 1) with (w - lo) by lia.
  apply N.div_lt_upper_bound; [apply pow2_nz|]. rewrite <- pow2_split by lia. assumption.
Qed.
